/-
  AITB.Props.C15Deleg — the repaired FactoredLP (fixes/C15-4): with no basis function and the constant basis requested the
  code solves the problem with the single basis "ones over the first state factor" and no constant.  For that variant of
  the generator (`flpGenD true`) the equivalence with the flat constraints holds WITHOUT the hypothesis "at least one basis
  if the constant is requested" of `factoredLP_equiv`.
-/
import AITB.Props.C15Flat

namespace AITB.FLP
open AITB.Factored AITB.VE

theorem onesBasis_WF (S : List Nat) (hne : S ≠ []) : BasisWF S (onesBasis S) := by
  refine ⟨by simp [onesBasis], ?_, ?_⟩
  · intro w hw
    simp only [onesBasis, List.mem_cons, List.mem_nil_iff, or_false] at hw
    subst hw
    exact List.length_pos_iff.mpr hne
  · simp [onesBasis, spacePartial, sel, space]

theorem onesBasis_at (S s : List Nat) (hS : S ≠ []) (hs : Valid S s) : (onesBasis S).at S s = 1 := by
  have hlt := toIndexPartial_lt S s [0] hs (fun w hw => by
    simp only [List.mem_cons, List.mem_nil_iff, or_false] at hw; subst hw; exact List.length_pos_iff.mpr hS)
  have hsp : spacePartial [0] S = S.getD 0 0 := by simp [spacePartial, sel, space]
  rw [hsp] at hlt
  simp only [Basis.at, onesBasis, List.getD_eq_getElem?_getD, List.getElem?_replicate]
  have hlt' : toIndexPartial [0] S s < S[0]?.getD 0 := by simpa [List.getD_eq_getElem?_getD] using hlt
  simp [hlt']

/-- the error term of (no basis, constant `w_0`) is the error term of (ones basis with weight `w_0`, no constant) -/
theorem flpErr_deleg (S : List Nat) (b : List Basis) (w : List Rat) (s : List Nat) (hS : S ≠ []) (hs : Valid S s) :
    flpErr S [onesBasis S] b false w s = flpErr S [] b true w s := by
  simp only [flpErr, wAt, List.length_cons, List.length_nil, sumTo, List.map_cons, List.map_nil, List.getD_cons_zero,
             onesBasis_at S s hS hs, if_true, Bool.false_eq_true, if_false]
  ring

/-- **`factoredLP_equiv` for every basis set, the empty one included** (generator of the repaired code, `deleg = true`):
    the LP the code builds has a solution extending (w, φ) iff |Σ_k w_k C_k(s) [+ w_const] − b(s)| ≤ φ at every joint state -/
theorem factoredLP_equiv_all (S : List Nat) (hS : ∀ d ∈ S, 0 < d) (hne : S ≠ []) (C b : List Basis) (addConst : Bool)
    (hC : ∀ f ∈ C, BasisWF S f) (hb : ∀ f ∈ b, BasisWF S f) (w : List Rat) (φ : Rat) :
    (∃ u : Nat → Rat, (∀ k, k < flpPhi C addConst → u k = w.getD k 0) ∧ u (flpPhi C addConst) = φ ∧
        ∀ r ∈ (flpGenD true S C b addConst).1, r.sat u) ↔
      ∀ s, Valid S s → -φ ≤ flpErr S C b addConst w s ∧ flpErr S C b addConst w s ≤ φ := by
  by_cases hc : addConst = true ∧ C = []
  · obtain ⟨h1, h2⟩ := hc
    subst h1; subst h2
    have hgen : flpGenD true S [] b true = flpGen S [onesBasis S] b false := by simp [flpGenD]
    have hphi : flpPhi ([] : List Basis) true = flpPhi [onesBasis S] false := by simp [flpPhi]
    rw [hgen, hphi, factoredLP_equiv S hS [onesBasis S] b false
      (fun f hf => by simp only [List.mem_cons, List.mem_nil_iff, or_false] at hf; subst hf; exact onesBasis_WF S hne) hb
      (fun h => by simp at h) w φ]
    constructor <;> intro h s hs
    · rw [← flpErr_deleg S b w s hne hs]; exact h s hs
    · rw [flpErr_deleg S b w s hne hs]; exact h s hs
  · have hgen : flpGenD true S C b addConst = flpGen S C b addConst := by
      simp only [flpGenD, Bool.true_and]
      cases addConst with
      | false => simp
      | true =>
        have : C ≠ [] := fun e => hc ⟨rfl, e⟩
        cases C with
        | nil => exact absurd rfl this
        | cons f fs => simp
    rw [hgen]
    exact factoredLP_equiv S hS C b addConst hC hb (fun h e => hc ⟨h, e⟩) w φ

end AITB.FLP
