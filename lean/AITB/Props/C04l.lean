/-
  AITB.Props.C04l — PERSEUS as modelled (any belief list, any horizon-0 fill value) returns a `Consistent` value
  function: `Consistent` is relative to the horizon-0 entry's values, whatever they are.
-/
import AITB.Props.C04j

namespace AITB.Plan

theorem perseusLoop_spec (m : Pomdp) (prev : VList) (hA : 0 < m.A) : ∀ (bs : List (Nat → Rat)) (res : VList),
    ∃ suffix, perseusLoop m prev bs res = res ++ suffix ∧
      (∀ e ∈ suffix, ∃ (b : Nat → Rat) (a : Nat), a < m.A ∧
        e = crossSumBestAtBeliefRow m.S b ((List.range m.O).map (fun o => project m prev a o)) a) ∧
      (res = [] → bs ≠ [] → suffix ≠ [])
  | [], res => ⟨[], by simp [perseusLoop], by simp, fun _ h => absurd rfl h⟩
  | b :: bs, res => by
    simp only [perseusLoop]
    split
    · rename_i hskip
      obtain ⟨suf, h1, h2, _⟩ := perseusLoop_spec m prev hA bs res
      refine ⟨suf, h1, h2, ?_⟩
      intro hres _
      subst hres
      simp at hskip
    · obtain ⟨suf, h1, h2, _⟩ := perseusLoop_spec m prev hA bs
        (res ++ [crossSumBestAtBeliefAll m.S b (fun a => (List.range m.O).map (fun o => project m prev a o)) m.A])
      obtain ⟨a, ha, hea⟩ := crossSumBestAtBeliefAll_mem m.S b (fun a => (List.range m.O).map (fun o => project m prev a o)) m.A hA
      refine ⟨crossSumBestAtBeliefAll m.S b (fun a => (List.range m.O).map (fun o => project m prev a o)) m.A :: suf,
        by rw [h1]; simp, ?_, by simp⟩
      intro e he
      rcases List.mem_cons.mp he with rfl | he
      · exact ⟨b, a, ha, hea⟩
      · exact h2 e he

theorem perseusRun_pointBased {m : Pomdp} (beliefs : List (Nat → Rat)) (hb : beliefs ≠ []) (v0 : Rat) (hA : 0 < m.A) :
    ∀ h, PointBasedVF m (perseusRun m beliefs v0 h)
  | 0 => PointBasedVF.base _ (by simp)
  | h+1 => by
    have ih := perseusRun_pointBased beliefs hb v0 hA h
    simp only [perseusRun]
    obtain ⟨suf, h1, h2, h3⟩ := perseusLoop_spec m
      (vlist (perseusRun m beliefs v0 h) ((perseusRun m beliefs v0 h).length - 1)) hA beliefs []
    apply PointBasedVF.step _ _ ih
    · unfold perseusStep
      apply extractDominated_ne_nil
      rw [h1]
      simpa using h3 rfl hb
    · intro e he
      unfold perseusStep at he
      have := mem_of_mem_extractDominated _ _ _ he
      rw [h1] at this
      exact h2 e (by simpa using this)

/-- **perseus_consistent.**  Every non-empty belief list, every fill value of the horizon-0 entry, every POMDP with
    A, O ≥ 1, every horizon. -/
theorem perseus_consistent {m : Pomdp} (beliefs : List (Nat → Rat)) (hb : beliefs ≠ []) (v0 : Rat) (hA : 0 < m.A)
    (hO : 0 < m.O) (h : Nat) : Consistent m (perseusRun m beliefs v0 h) :=
  pointBased_consistent hO (perseusRun_pointBased beliefs hb v0 hA h)

end AITB.Plan
