/-
  AITB.Props.C18g — from characters to tables: a whole file written as text
  (`states:<digits>`, `actions:<digits>`, `observations:<digits>` and statement lines, each ended by a newline)
  goes through `splitLines`, the preamble pass and the main pass and yields the specification tables.
  This composes the lexical layer (C18d), the structural preamble theorem and `parser_refines_spec`.
-/
import AITB.Props.C18
namespace AITB.Cassandra
variable {fl : Flags}

/-! ### lines -/

def joinLines : List Str → Str
  | [] => []
  | l :: ls => l ++ '\n' :: joinLines ls

theorem splitLinesAux_line (l rest cur : Str) (h : ∀ c ∈ l, c ≠ '\n') :
    splitLinesAux (l ++ '\n' :: rest) cur = (cur.reverse ++ l) :: splitLinesAux rest [] := by
  induction l generalizing cur with
  | nil => simp [splitLinesAux]
  | cons c t ih =>
    have hc : (c == '\n') = false := by simpa using h c List.mem_cons_self
    simp only [List.cons_append, splitLinesAux, hc, Bool.false_eq_true, if_false]
    rw [ih _ (fun x hx => h x (List.mem_cons_of_mem _ hx))]
    simp

theorem splitLines_joinLines (ls : List Str) (h : ∀ l ∈ ls, ∀ c ∈ l, c ≠ '\n') :
    splitLines (joinLines ls) = ls ++ [[]] := by
  unfold splitLines
  induction ls with
  | nil => rfl
  | cons l t ih =>
    simp only [joinLines]
    rw [splitLinesAux_line l _ [] (h l List.mem_cons_self), ih (fun x hx => h x (List.mem_cons_of_mem _ hx))]
    simp

/-! ### the preamble pass on lines that are not preamble lines -/

theorem parseModelInfo_plain (raws : List Str) (p : Pre) (acc : List Str)
    (h : ∀ raw ∈ raws, isPreambleLine (trim raw) = false) :
    parseModelInfo fl raws p acc = .ok (p, acc.reverse ++ (raws.map trim).filter (fun l => !l.isEmpty)) := by
  induction raws generalizing acc with
  | nil => simp [parseModelInfo, pure, Except.pure]
  | cons raw rest ih =>
    have hr := h raw List.mem_cons_self
    have ih' := fun acc => ih acc (fun x hx => h x (List.mem_cons_of_mem _ hx))
    simp only [parseModelInfo]
    by_cases he : (trim raw).isEmpty = true
    · simp only [he, if_true, ih']
      simp [List.filter_cons, he]
    · have he' : (trim raw).isEmpty = false := by simpa using he
      have hn := preLine_none_iff (fl := fl) p (trim raw)
      rw [hr] at hn
      have hnone : preLine fl p (trim raw) = none := by
        cases hp : preLine fl p (trim raw) with
        | none => rfl
        | some x => rw [hp] at hn; simp at hn
      simp only [he', Bool.false_eq_true, if_false, hnone, ih']
      simp [List.filter_cons, he']

/-! ### a numeric size declaration `keyword:<digits>` -/

def Digits (ds : Str) (n : Nat) : Prop := ds ≠ [] ∧ (∀ c ∈ ds, isDigit c = true) ∧ digitsVal ds = n ∧ n < two64

theorem digit_not_space {c : Char} (h : isDigit c = true) : isSpace c = false := by
  simp only [isDigit, Bool.and_eq_true, decide_eq_true_eq] at h
  have h1 : '0'.toNat ≤ c.toNat := h.1
  have hc32 : c ≠ ' ' := by intro e; subst e; revert h1; decide
  have hc9 : c ≠ '\t' := by intro e; subst e; revert h1; decide
  have hc10 : c ≠ '\n' := by intro e; subst e; revert h1; decide
  have hc11 : c ≠ '\x0b' := by intro e; subst e; revert h1; decide
  have hc12 : c ≠ '\x0c' := by intro e; subst e; revert h1; decide
  have hc13 : c ≠ '\r' := by intro e; subst e; revert h1; decide
  simp [isSpace, hc32, hc9, hc10, hc11, hc12, hc13]

theorem digit_not_colon {c : Char} (h : isDigit c = true) : c ≠ ':' := by
  intro e; subst e; revert h; decide

theorem Digits.tok {ds : Str} {n : Nat} (h : Digits ds n) : Tok ds :=
  ⟨h.1, fun c hc => ⟨digit_not_colon (h.2.1 c hc), digit_not_space (h.2.1 c hc)⟩⟩

/-- letters-only keyword tokens -/
def KwTok (kw : Str) : Prop := Tok kw

theorem extractIDs_numeric (kw ds : Str) (n : Nat) (hk : Tok kw) (hd : Digits ds n) :
    extractIDs fl (kw ++ ':' :: ds) = .ok (n, []) := by
  have hdt := hd.tok
  have hsplit : tokenize colon (kw ++ ':' :: ds) = [kw, ds] := by
    have hnk : NoD (fun c => colon.contains c) kw := by
      intro c hc; have := (hk.2 c hc).1; simp [colon, this]
    have hnd : NoD (fun c => colon.contains c) ds := by
      intro c hc; have := (hdt.2 c hc).1; simp [colon, this]
    have : kw ++ ':' :: ds = kw ++ renderToks [([':'], ds)] [] := by simp [renderToks]
    unfold tokenize
    rw [this, split_line colon kw [([':'], ds)] [] hnk hk.1]
    · simp [trim_tok _ (fun c hc => (hk.2 c hc).2), trim_tok _ (fun c hc => (hdt.2 c hc).2)]
    · intro p hp
      simp only [List.mem_cons, List.mem_nil_iff, or_false] at hp
      subst hp
      exact ⟨by intro c hc; simp at hc; subst hc; simp [colon], by simp, hnd, hdt.1⟩
    · intro c hc; cases hc
  have hsp : tokenize space ds = [ds] := by
    have hnd : NoD (fun c => space.contains c) ds := hdt.noSpaceD
    have : ds = ds ++ renderToks [] [] := by simp [renderToks]
    unfold tokenize
    rw [this, split_line space ds [] [] hnd hdt.1 (by intro p hp; cases hp) (by intro c hc; cases hc)]
    simp [renderToks, trim_tok _ (fun c hc => (hdt.2 c hc).2)]
  have hst : stoulS fl ds = .ok n := by
    have := stoulS_digits fl ds hd.1 hd.2.1 (by rw [hd.2.2.1]; exact hd.2.2.2)
    rw [this, hd.2.2.1]
  unfold extractIDs
  simp only [hsplit, at?, List.getElem?_cons_succ, List.getElem?_cons_zero, bind, Except.bind, hsp, hst, pure, Except.pure]

theorem startsWith_append_self (kw rest : Str) : startsWith (kw ++ rest) kw = true := by
  induction kw with
  | nil => cases rest <;> rfl
  | cons c t ih => simp [startsWith, ih]

theorem kwStates_tok : Tok kwStates := ⟨by decide, by decide⟩
theorem kwActions_tok : Tok kwActions := ⟨by decide, by decide⟩
theorem kwObservations_tok : Tok kwObservations := ⟨by decide, by decide⟩

theorem preLine_states (p : Pre) (ds : Str) (n : Nat) (hd : Digits ds n) :
    preLine fl p (kwStates ++ ':' :: ds) = some (.ok { p with S := n, smap := [] }) := by
  have hv : kwValues = 'v' :: "alues".toList := by decide
  have hs : kwStates = 's' :: "tates".toList := by decide
  have e1 : startsWith (kwStates ++ ':' :: ds) kwValues = false := by rw [hs, hv]; simp [startsWith]
  unfold preLine
  simp only [e1, Bool.false_eq_true, if_false, startsWith_append_self, if_true, extractIDs_numeric kwStates ds n kwStates_tok hd,
    bind, Except.bind, pure, Except.pure]

theorem preLine_actions (p : Pre) (ds : Str) (n : Nat) (hd : Digits ds n) :
    preLine fl p (kwActions ++ ':' :: ds) = some (.ok { p with A := n, amap := [] }) := by
  have hv : kwValues = 'v' :: "alues".toList := by decide
  have hs : kwStates = 's' :: "tates".toList := by decide
  have ha : kwActions = 'a' :: "ctions".toList := by decide
  have e1 : startsWith (kwActions ++ ':' :: ds) kwValues = false := by rw [ha, hv]; simp [startsWith]
  have e2 : startsWith (kwActions ++ ':' :: ds) kwStates = false := by rw [ha, hs]; simp [startsWith]
  unfold preLine
  simp only [e1, e2, Bool.false_eq_true, if_false, startsWith_append_self, if_true, extractIDs_numeric kwActions ds n kwActions_tok hd,
    bind, Except.bind, pure, Except.pure]

theorem preLine_observations (p : Pre) (ds : Str) (n : Nat) (hd : Digits ds n) :
    preLine fl p (kwObservations ++ ':' :: ds) = some (.ok { p with O := n, omap := [] }) := by
  have hv : kwValues = 'v' :: "alues".toList := by decide
  have hs : kwStates = 's' :: "tates".toList := by decide
  have ha : kwActions = 'a' :: "ctions".toList := by decide
  have ho : kwObservations = 'o' :: "bservations".toList := by decide
  have e1 : startsWith (kwObservations ++ ':' :: ds) kwValues = false := by rw [ho, hv]; simp [startsWith]
  have e2 : startsWith (kwObservations ++ ':' :: ds) kwStates = false := by rw [ho, hs]; simp [startsWith]
  have e3 : startsWith (kwObservations ++ ':' :: ds) kwActions = false := by rw [ho, ha]; simp [startsWith]
  unfold preLine
  simp only [e1, e2, e3, Bool.false_eq_true, if_false, startsWith_append_self, if_true,
    extractIDs_numeric kwObservations ds n kwObservations_tok hd, bind, Except.bind, pure, Except.pure]

theorem trim_decl (kw ds : Str) (n : Nat) (hk : Tok kw) (hd : Digits ds n) :
    trim (kw ++ ':' :: ds) = kw ++ ':' :: ds ∧ (kw ++ ':' :: ds).isEmpty = false := by
  constructor
  · apply trim_tok
    intro c hc
    simp only [List.mem_append, List.mem_cons] at hc
    rcases hc with hc | rfl | hc
    · exact (hk.2 c hc).2
    · decide
    · exact (hd.tok.2 c hc).2
  · cases kw with
    | nil => exact absurd rfl hk.1
    | cons _ _ => rfl

/-! ### the whole file -/

/-- **From characters to tables.**  The text made of the three size declarations `states:<S>`, `actions:<A>`,
    `observations:<O>` (decimal digits) followed by statement lines — each line ended by a newline, the statement lines
    free of surrounding blanks, not starting with a preamble keyword, and denoting (`FileDenotes`, e.g. through
    `entry_line_denotes`, `row_inline_line_denotes`, `row_next_line_denotes`, `matrix_lines_denote`) the statement lists
    `sT`, `sR`, `sW` — is accepted, with sizes S, A, O, discount 1, and every table cell equal to the specification. -/
theorem rendered_file_parses (fl : Flags) (k : Kind) (S A O : Nat) (sd ad od : Str) (stmtLines : List Str) (sT sR sW : List Stmt)
    (hS : Digits sd S) (hA : Digits ad A) (hO : Digits od O)
    (hlines : ∀ l ∈ stmtLines, trim l = l ∧ l.isEmpty = false ∧ isPreambleLine l = false ∧ ∀ c ∈ l, c ≠ '\n')
    (hsz : (S == 0 || A == 0 || (k == .pomdp && O == 0)) = false)
    (hfit : (fl.sizeGuard && !(extentFits S A S && (k == .mdp || extentFits S A O))) = false)
    (hfile : FileDenotes fl k { S := S, A := A, O := O } stmtLines 0 sT sR sW) :
    ∃ r, parse fl k (joinLines ((kwStates ++ ':' :: sd) :: (kwActions ++ ':' :: ad) :: (kwObservations ++ ':' :: od) :: stmtLines)) = .ok r ∧
      r.pre = { S := S, A := A, O := O } ∧ ∀ d1 a d3,
        tableAt r.st.wT d1 a d3 = specAt sT S A S d1 a d3 ∧
        tableAt r.st.wR d1 a d3 = specAt sR S A S d1 a d3 ∧
        tableAt r.st.wW d1 a d3 = specAt sW S A O d1 a d3 := by
  have hnl : ∀ l ∈ (kwStates ++ ':' :: sd) :: (kwActions ++ ':' :: ad) :: (kwObservations ++ ':' :: od) :: stmtLines, ∀ c ∈ l, c ≠ '\n' := by
    have decl : ∀ (kw ds : Str) (n : Nat), Tok kw → Digits ds n → ∀ c ∈ kw ++ ':' :: ds, c ≠ '\n' := by
      intro kw ds n hk hd c hc
      simp only [List.mem_append, List.mem_cons] at hc
      rcases hc with hc | rfl | hc
      · intro e; subst e; have := (hk.2 _ hc).2; simp [isSpace] at this
      · decide
      · intro e; subst e; have := (hd.tok.2 _ hc).2; simp [isSpace] at this
    intro l hl
    simp only [List.mem_cons] at hl
    rcases hl with rfl | rfl | rfl | hl
    · exact decl _ _ _ kwStates_tok hS
    · exact decl _ _ _ kwActions_tok hA
    · exact decl _ _ _ kwObservations_tok hO
    · exact (hlines l hl).2.2.2
  have hplain : ∀ raw ∈ stmtLines ++ [[]], isPreambleLine (trim raw) = false := by
    intro raw hr
    rcases List.mem_append.1 hr with h | h
    · rw [(hlines raw h).1]; exact (hlines raw h).2.2.1
    · simp only [List.mem_cons, List.mem_nil_iff, or_false] at h; subst h; decide
  have hfilter : ((stmtLines ++ [[]]).map trim).filter (fun l => !l.isEmpty) = stmtLines := by
    have : ∀ (ls : List Str), (∀ l ∈ ls, trim l = l ∧ l.isEmpty = false) → (ls.map trim).filter (fun l => !l.isEmpty) = ls := by
      intro ls
      induction ls with
      | nil => intro _; rfl
      | cons l t ih =>
        intro h
        have hl := h l List.mem_cons_self
        simp only [List.map_cons, hl.1, List.filter_cons, hl.2, Bool.not_false, if_true]
        rw [ih (fun x hx => h x (List.mem_cons_of_mem _ hx))]
    rw [List.map_append, List.filter_append, this stmtLines (fun l hl => ⟨(hlines l hl).1, (hlines l hl).2.1⟩)]
    have : trim ([] : Str) = [] := by decide
    simp [this]
  have hpre : parseModelInfo fl (splitLines (joinLines ((kwStates ++ ':' :: sd) :: (kwActions ++ ':' :: ad) :: (kwObservations ++ ':' :: od) :: stmtLines))) {} []
      = .ok ({ S := S, A := A, O := O }, stmtLines) := by
    rw [splitLines_joinLines _ hnl]
    obtain ⟨t1, n1⟩ := trim_decl kwStates sd S kwStates_tok hS
    obtain ⟨t2, n2⟩ := trim_decl kwActions ad A kwActions_tok hA
    obtain ⟨t3, n3⟩ := trim_decl kwObservations od O kwObservations_tok hO
    simp only [List.cons_append, parseModelInfo, t1, n1, t2, n2, t3, n3, Bool.false_eq_true, if_false,
      preLine_states _ sd S hS, preLine_actions _ ad A hA, preLine_observations _ od O hO, bind, Except.bind]
    rw [parseModelInfo_plain _ _ _ hplain, hfilter]
    rfl
  exact parser_refines_spec fl k _ _ stmtLines sT sR sW hpre hsz hfit hfile

/-! ### the hypotheses of `rendered_file_parses` are satisfiable: a concrete text, end to end -/

def demoLine : Str := "T".toList ++ renderToks [(": ".toList, "0".toList), (" :".toList, "*".toList), (":  ".toList, "1".toList), ("   ".toList, "1.0".toList)] []

/-- `states:2⏎actions:1⏎observations:1⏎T: 0 :*:  1   1.0⏎` : accepted — also by the strict (repaired) reading of number tokens —, and T[s][0][1] = 1.0 for both s, all else 0 -/
example : ∃ v, stodS ⟨true, true, true, true, true⟩ "1.0".toList = .ok v ∧ ∃ r,
    parse ⟨true, true, true, true, true⟩ .mdp (joinLines [kwStates ++ ':' :: "2".toList, kwActions ++ ':' :: "1".toList, kwObservations ++ ':' :: "1".toList, demoLine]) = .ok r ∧
    ∀ d1 a d3, tableAt r.st.wT d1 a d3 = specAt [⟨.idx 0, .all, .entry (.idx 1) v⟩] 2 1 2 d1 a d3 := by
  have hv : (stodS ⟨true, true, true, true, true⟩ "1.0".toList).toOption.isSome = true := by decide +kernel
  rcases hs : stodS ⟨true, true, true, true, true⟩ "1.0".toList with e | v
  · rw [hs] at hv; cases hv
  · refine ⟨v, rfl, ?_⟩
    have h0 : stoulS ⟨true, true, true, true, true⟩ "0".toList = .ok 0 := stoulS_digits _ "0".toList (by decide) (by decide) (by decide)
    have h1 : stoulS ⟨true, true, true, true, true⟩ "1".toList = .ok 1 := stoulS_digits _ "1".toList (by decide) (by decide) (by decide)
    have hm : MatrixLine ⟨true, true, true, true, true⟩ 2 1 2 [] [] [] demoLine [] ⟨.idx 0, .all, .entry (.idx 1) v⟩ 0 := by
      refine entry_line_denotes 2 1 2 [] [] [] [] _ _ _ _ _ _ _ _ _ _ (.idx 0) .all (.idx 1) v ?_ ?_ ?_ ?_ ?_ ?_ ?_ ?_ ?_ ?_ ?_ ?_ ?_ hs
      · exact ⟨by decide, by decide⟩
      · exact ⟨by decide, by decide⟩
      · exact ⟨by decide, by decide⟩
      · exact ⟨by decide, by decide⟩
      · exact ⟨by decide, by decide⟩
      · exact ⟨by decide, by decide⟩
      · exact ⟨by decide, by decide⟩
      · exact ⟨by decide, by decide⟩
      · exact ⟨by decide, by decide⟩
      · intro c hc; cases hc
      · exact Or.inr ⟨by decide, Or.inr ⟨rfl, 0, h0, by decide, rfl⟩⟩
      · exact Or.inl ⟨rfl, rfl⟩
      · exact Or.inr ⟨by decide, Or.inr ⟨rfl, 1, h1, by decide, rfl⟩⟩
    have hfile : FileDenotes ⟨true, true, true, true, true⟩ .mdp { S := 2, A := 1, O := 1 } [demoLine] 0 [⟨.idx 0, .all, .entry (.idx 1) v⟩] [] [] :=
      .tline (by decide) hm .nil
    obtain ⟨r, hp, _, htab⟩ := rendered_file_parses ⟨true, true, true, true, true⟩ .mdp 2 1 1 "2".toList "1".toList "1".toList [demoLine] _ [] []
      ⟨by decide, by decide, by decide, by decide⟩ ⟨by decide, by decide, by decide, by decide⟩ ⟨by decide, by decide, by decide, by decide⟩
      (by intro l hl
          simp only [List.mem_cons, List.mem_nil_iff, or_false] at hl
          subst hl
          exact ⟨by decide +kernel, by decide, by decide +kernel, by decide⟩)
      (by decide) (by decide) hfile
    exact ⟨r, hp, fun d1 a d3 => (htab d1 a d3).1⟩

end AITB.Cassandra
