/-
  AITB.Props.C11Extra — round-2 additions that build on the other C11 modules:
   * clause 1 extended to every trace learner run with λ = 0 (`control|eval|sarsal_lambda0_bounded`);
   * clause 2 for DynaQ::batchUpdateQ as a whole (`dynaBatch_qstar_fixed`);
   * the θ ≥ 0 residual bound for the generic PrioritizedSweeping branch (`ps_generic_residual_bound`).
-/
import AITB.Props.C11Control
import AITB.Props.C11PS2
namespace AITB.Learn


/-! ### clause 1 extends to every trace learner run with λ = 0 (they are then one-step expected-backup learners) -/

theorem sumTo_const (n : Nat) (c : Rat) : sumTo n (fun _ => c) = (n : Rat) * c := by
  induction n with
  | zero => simp [sumTo]
  | succ n ih => simp only [sumTo, ih]; push_cast; ring

theorem sumTo_mul_right (n : Nat) (f : Nat → Rat) (c : Rat) : sumTo n f * c = sumTo n (fun i => f i * c) := by
  induction n with
  | zero => simp [sumTo]
  | succ n ih => simp only [sumTo, ← ih]; ring

/-- the ε-greedy expectation of the control learners is a convex combination of the row -/
theorem expectedEps_in (lo hi ε : Rat) (A : Nat) (hA : 0 < A) (hε0 : 0 ≤ ε) (hε1 : ε ≤ 1) (q : QF) (s1 : Nat)
    (hq : Bdd lo hi q) : lo ≤ expectedEps ε A q s1 ∧ expectedEps ε A q s1 ≤ hi := by
  have hApos : (0 : Rat) < (A : Rat) := by exact_mod_cast hA
  have hw : ∀ i, i < A → 0 ≤ (fun _ : Nat => ε / (A : Rat)) i := fun _ _ => div_nonneg hε0 hApos.le
  have hc := sumTo_convex A (fun _ => ε / (A : Rat)) (q s1) lo hi hw (fun i _ => hq s1 i)
  have hsum : sumTo A (fun _ : Nat => ε / (A : Rat)) = ε := by
    rw [sumTo_const]; field_simp
  rw [hsum] at hc
  obtain ⟨i, hm⟩ := maxA_mem A (q s1)
  have hmx := hq s1 i
  have e1 : sumTo A (q s1) * (ε / (A : Rat)) = sumTo A (fun i => ε / (A : Rat) * q s1 i) := by
    rw [sumTo_mul_right]; congr 1; funext i; ring
  unfold expectedEps
  rw [e1, hm]
  have h1ε : 0 ≤ 1 - ε := by linarith
  constructor
  · nlinarith [hc.1, mul_le_mul_of_nonneg_left hmx.1 h1ε]
  · nlinarith [hc.2, mul_le_mul_of_nonneg_left hmx.2 h1ε]

/-- the target-policy expectation of the evaluation learners (`q * π` order, as in the code) -/
theorem evalExpected_in (lo hi : Rat) (A : Nat) (π : Nat → Nat → Rat) (q : QF) (s1 : Nat)
    (hπ : IsDist A π) (hq : Bdd lo hi q) :
    lo ≤ sumTo A (fun x => q s1 x * π s1 x) ∧ sumTo A (fun x => q s1 x * π s1 x) ≤ hi := by
  have : (fun x => q s1 x * π s1 x) = (fun ai => π s1 ai * q s1 ai) := by funext x; ring
  rw [this]
  exact expectedQ_in lo hi A π q s1 hπ hq

/-- invariant carried along a λ = 0 run: table in the interval, stored keys distinct -/
def Lam0Inv (lo hi : Rat) (st : List Tr × QF) : Prop := Bdd lo hi st.2 ∧ (st.1.map key).Nodup

theorem controlStep_lam0_inv (k : Kind) (hk : k ≠ .is) (lo hi γ α tol ε : Rat) (A : Nat) (hA : 0 < A)
    (πb : Nat → Nat → Rat) (hγ0 : 0 ≤ γ) (hα0 : 0 ≤ α) (hα1 : α ≤ 1) (hε0 : 0 ≤ ε) (hε1 : ε ≤ 1)
    (st : List Tr × QF) (h : Lam0Inv lo hi st) (s a s1 : Nat) (r : Rat) (hc : Closed lo hi γ r) :
    Lam0Inv lo hi (controlStep k γ α 0 tol ε A πb st.1 st.2 s a s1 r) := by
  obtain ⟨hb, hnd⟩ := h
  constructor
  · rw [control_lambda0 k hk γ α tol ε A πb st.1 st.2 hnd s a s1 r]
    exact backup_Bdd lo hi γ α r _ st.2 s a hγ0 hα0 hα1 hc hb (expectedEps_in lo hi ε A hA hε0 hε1 st.2 s1 hb)
  · unfold controlStep; exact updateTraces_nodup _ _ _ _ _ _ _ hnd

theorem evalStep_lam0_inv (k : Kind) (hk : k ≠ .is) (lo hi γ α tol : Rat) (A : Nat)
    (πt πb : Nat → Nat → Rat) (hπ : IsDist A πt) (hγ0 : 0 ≤ γ) (hα0 : 0 ≤ α) (hα1 : α ≤ 1)
    (st : List Tr × QF) (h : Lam0Inv lo hi st) (s a s1 : Nat) (r : Rat) (hc : Closed lo hi γ r) :
    Lam0Inv lo hi (evalStep k γ α 0 tol A πt πb st.1 st.2 s a s1 r) := by
  obtain ⟨hb, hnd⟩ := h
  constructor
  · rw [eval_lambda0 k hk γ α tol A πt πb st.1 st.2 hnd s a s1 r]
    exact backup_Bdd lo hi γ α r _ st.2 s a hγ0 hα0 hα1 hc hb (evalExpected_in lo hi A πt st.2 s1 hπ hb)
  · unfold evalStep; exact updateTraces_nodup _ _ _ _ _ _ _ hnd

theorem sarsalStep_lam0_inv (lo hi γ α tol : Rat) (hγ0 : 0 ≤ γ) (hα0 : 0 ≤ α) (hα1 : α ≤ 1)
    (st : List Tr × QF) (h : Lam0Inv lo hi st) (s a s1 a1 : Nat) (r : Rat) (hc : Closed lo hi γ r) :
    Lam0Inv lo hi (sarsalStep γ α 0 tol st.1 st.2 s a s1 a1 r) := by
  obtain ⟨hb, hnd⟩ := h
  constructor
  · rw [sarsal_lambda0 γ α tol st.1 st.2 hnd s a s1 a1 r]
    exact backup_Bdd lo hi γ α r _ st.2 s a hγ0 hα0 hα1 hc hb (hb s1 a1)
  · unfold sarsalStep; exact updateTraces_nodup _ _ _ _ _ _ _ hnd

/-- **clause 1 for the control trace learners at λ = 0** (QL, RetraceL, TreeBackupL): zero table, cleared traces,
    rewards in [rmin,rmax], γ ∈ [0,1), α ∈ [0,1], ε ∈ [0,1], any cut-off, any behaviour policy, any experience -/
theorem control_lambda0_bounded (k : Kind) (hk : k ≠ .is) (γ α tol ε rmin rmax : Rat) (A : Nat) (hA : 0 < A)
    (πb : Nat → Nat → Rat) (hγ0 : 0 ≤ γ) (hγ1 : γ < 1) (hα0 : 0 ≤ α) (hα1 : α ≤ 1) (hε0 : 0 ≤ ε) (hε1 : ε ≤ 1)
    (evs : List TEv) (hr : ∀ e ∈ evs, rmin ≤ e.r ∧ e.r ≤ rmax) :
    Bdd (loB rmin γ) (hiB rmax γ) (controlRun k γ α 0 tol ε A πb evs ([], fun _ _ => 0)).2 := by
  suffices H : ∀ st, Lam0Inv (loB rmin γ) (hiB rmax γ) st →
      Lam0Inv (loB rmin γ) (hiB rmax γ) (controlRun k γ α 0 tol ε A πb evs st) from
    (H _ ⟨Bdd_zero γ rmin rmax hγ1, by simp⟩).1
  induction evs with
  | nil => intro st h; simpa [controlRun] using h
  | cons e es ih =>
    intro st h
    simp only [controlRun]
    apply ih (fun x hx => hr x (List.mem_cons_of_mem _ hx))
    exact controlStep_lam0_inv k hk _ _ γ α tol ε A hA πb hγ0 hα0 hα1 hε0 hε1 st h e.s e.a e.s1 e.r
      (hull_closed γ rmin rmax e.r hγ0 hγ1 (hr e List.mem_cons_self))

/-- **clause 1 for the evaluation trace learners at λ = 0**, any row-stochastic target policy -/
theorem eval_lambda0_bounded (k : Kind) (hk : k ≠ .is) (γ α tol rmin rmax : Rat) (A : Nat)
    (πt πb : Nat → Nat → Rat) (hπ : IsDist A πt) (hγ0 : 0 ≤ γ) (hγ1 : γ < 1) (hα0 : 0 ≤ α) (hα1 : α ≤ 1)
    (evs : List TEv) (hr : ∀ e ∈ evs, rmin ≤ e.r ∧ e.r ≤ rmax) :
    Bdd (loB rmin γ) (hiB rmax γ) (evalRun k γ α 0 tol A πt πb evs ([], fun _ _ => 0)).2 := by
  suffices H : ∀ st, Lam0Inv (loB rmin γ) (hiB rmax γ) st →
      Lam0Inv (loB rmin γ) (hiB rmax γ) (evalRun k γ α 0 tol A πt πb evs st) from
    (H _ ⟨Bdd_zero γ rmin rmax hγ1, by simp⟩).1
  induction evs with
  | nil => intro st h; simpa [evalRun] using h
  | cons e es ih =>
    intro st h
    simp only [evalRun]
    apply ih (fun x hx => hr x (List.mem_cons_of_mem _ hx))
    exact evalStep_lam0_inv k hk _ _ γ α tol A πt πb hπ hγ0 hα0 hα1 st h e.s e.a e.s1 e.r
      (hull_closed γ rmin rmax e.r hγ0 hγ1 (hr e List.mem_cons_self))

/-- **clause 1 for SARSA(λ) at λ = 0** -/
theorem sarsal_lambda0_bounded (γ α tol rmin rmax : Rat) (hγ0 : 0 ≤ γ) (hγ1 : γ < 1) (hα0 : 0 ≤ α) (hα1 : α ≤ 1)
    (evs : List TEv) (hr : ∀ e ∈ evs, rmin ≤ e.r ∧ e.r ≤ rmax) :
    Bdd (loB rmin γ) (hiB rmax γ) (sarsalRun γ α 0 tol evs ([], fun _ _ => 0)).2 := by
  suffices H : ∀ st, Lam0Inv (loB rmin γ) (hiB rmax γ) st →
      Lam0Inv (loB rmin γ) (hiB rmax γ) (sarsalRun γ α 0 tol evs st) from
    (H _ ⟨Bdd_zero γ rmin rmax hγ1, by simp⟩).1
  induction evs with
  | nil => intro st h; simpa [sarsalRun] using h
  | cons e es ih =>
    intro st h
    simp only [sarsalRun]
    apply ih (fun x hx => hr x (List.mem_cons_of_mem _ hx))
    exact sarsalStep_lam0_inv _ _ γ α tol hγ0 hα0 hα1 st h e.s e.a e.s1 e.a1 e.r
      (hull_closed γ rmin rmax e.r hγ0 hγ1 (hr e List.mem_cons_self))



/-- the planning batch never changes the list of visited pairs -/
theorem dynaBatch_visited (γ α : Rat) (A : Nat) (d : Dyna) (picks : List (Nat × Nat × Rat)) :
    (dynaBatch γ α A d picks).visited = d.visited := by
  induction picks generalizing d with
  | nil => rfl
  | cons p ps ih =>
    obtain ⟨i, s1, r⟩ := p
    unfold dynaBatch
    split
    · exact ih d
    · rw [ih]

/-- **clause 2 for DynaQ::batchUpdateQ**: if the table is Q* of the deterministic model the planner samples from
    (every pass: a visited pair `(s,a)`, the model's `next s a` and `R s a`), any number of passes with any sampled
    indices leaves it unchanged -/
theorem dynaBatch_qstar_fixed (γ α : Rat) (A : Nat) (next : Nat → Nat → Nat) (R : Nat → Nat → Rat) (q : QF)
    (hq : IsQStar γ A next R q) (d : Dyna) (hd : d.q = q) (picks : List (Nat × Nat × Rat))
    (hp : ∀ p ∈ picks, ∀ s a, d.visited[p.1]? = some (s, a) → p.2.1 = next s a ∧ p.2.2 = R s a) :
    (dynaBatch γ α A d picks).q = q := by
  induction picks generalizing d with
  | nil => simpa [dynaBatch] using hd
  | cons p ps ih =>
    obtain ⟨i, s1, r⟩ := p
    have hps : ∀ p ∈ ps, ∀ s a, d.visited[p.1]? = some (s, a) → p.2.1 = next s a ∧ p.2.2 = R s a :=
      fun x hx => hp x (List.mem_cons_of_mem _ hx)
    unfold dynaBatch
    split
    · exact ih d hd hps
    · rename_i s a hv
      obtain ⟨h1, h2⟩ := hp (i, s1, r) List.mem_cons_self s a hv
      simp only at h1 h2
      apply ih
      · show qlStep γ α A d.q s a s1 r = q
        rw [hd, h1, h2]; exact ql_qstar_fixed γ A next R q hq α s a
      · exact hps



/-- the residual bound for θ ≥ 0 holds verbatim for the generic (non-Eigen) branch -/
theorem ps_generic_residual_bound (m : MDP) (R3 : Nat → Nat → Nat → Rat)
    (hR : ∀ s a, m.R s a = sumTo m.S (fun s1 => m.T s a s1 * R3 s a s1))
    (θ : Rat) (hθ : 0 ≤ θ) (hγ : 0 ≤ m.γ) (hT : ∀ s a s1, 0 ≤ m.T s a s1)
    (ops : List PSOp) (hv : ∀ op ∈ ops, op.valid m)
    (hempty : (psRunGen m R3 θ ops).queue = [])
    (hall : ∀ s a, s < m.S → a < m.A → (s, a) ∈ (psRunGen m R3 θ ops).done) :
    ∀ s a, s < m.S → a < m.A →
      absR ((psRunGen m R3 θ ops).q s a
          - (m.R s a + m.γ * sumTo m.S (fun s1 => m.T s a s1 * maxA m.A ((psRunGen m R3 θ ops).q s1))))
        ≤ m.γ * θ * ((psRunGen m R3 θ ops).done.length : Rat) := by
  rw [psRunGen_eq_psRun m R3 hR θ ops] at hempty hall ⊢
  exact ps_residual_bound m θ hθ hγ hT ops hv hempty hall


end AITB.Learn
