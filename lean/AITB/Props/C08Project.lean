/-
  AITB.Props.C08Project — property C08, part "projectToProbability / makeRandomProbability".
  Theorems about AITB.Model.Sampling (`project`, `projectFixed`, `spacings`,
  `makeRandomProbability`).  Unbounded: every list, every length, every rational entry.
-/
import AITB.Model.Sampling
import Mathlib.Algebra.Order.Field.Rat
import Mathlib.Tactic.Ring
import Mathlib.Tactic.Linarith
import Mathlib.Tactic.NormNum
import Mathlib.Algebra.BigOperators.Group.List.Basic
import Mathlib.Algebra.Order.BigOperators.Group.List

namespace AITB.Sampling

/-! ## the tolerance: only `0 < tol < 1/2` is used below -/

theorem tol_pos : (0 : Rat) < Gen.equalToleranceSmall := by
  norm_num [Gen.equalToleranceSmall]

theorem tol_lt_half : Gen.equalToleranceSmall < 1 / 2 := by
  norm_num [Gen.equalToleranceSmall]

theorem eqSmall_iff (a b : Rat) :
    eqSmall a b = true ↔ (a - b ≤ Gen.equalToleranceSmall ∧ b - a ≤ Gen.equalToleranceSmall) := by
  unfold eqSmall absQ
  rw [decide_eq_true_eq]
  have := tol_pos
  by_cases h : a - b < 0
  · rw [if_pos h]; constructor
    · intro h1; constructor <;> linarith
    · intro h1; linarith [h1.2]
  · rw [if_neg h]; constructor
    · intro h1; constructor <;> linarith
    · intro h1; exact h1.1

theorem eqSmall_false_iff (a b : Rat) :
    eqSmall a b = false ↔ (Gen.equalToleranceSmall < a - b ∨ Gen.equalToleranceSmall < b - a) := by
  rw [← Bool.not_eq_true, eqSmall_iff, not_and_or, not_le, not_le]

theorem eqSmall_self (a : Rat) : eqSmall a a = true := by
  rw [eqSmall_iff]; have := tol_pos; constructor <;> linarith

theorem isProb_iff (l : List Rat) :
    isProb l = true ↔ (∀ x ∈ l, 0 ≤ x) ∧ eqSmall l.sum 1 = true := by
  simp [isProb, List.all_eq_true, not_lt]

/-! ## `makeRandomProbability` : sorted-uniform-spacings -/

/-- R1 -/
theorem spacings_length : ∀ (xs : List Rat) (prev : Rat), (spacings xs prev).length = xs.length + 1
  | [], _ => rfl
  | x :: xs, _ => by simp [spacings, spacings_length xs x]

/-- R2 (telescoping) -/
theorem spacings_sum : ∀ (xs : List Rat) (prev : Rat), (spacings xs prev).sum = 1 - prev
  | [], _ => by simp [spacings]
  | x :: xs, prev => by
    simp only [spacings, List.sum_cons, spacings_sum xs x]; ring

/-- R3 -/
theorem spacings_nonneg : ∀ (xs : List Rat) (prev : Rat), List.Pairwise (· ≤ ·) xs →
    (∀ x ∈ xs, prev ≤ x) → prev ≤ 1 → (∀ x ∈ xs, x ≤ 1) → ∀ y ∈ spacings xs prev, 0 ≤ y
  | [], prev, _, _, hp1, _, y, hy => by
    simp only [spacings, List.mem_singleton] at hy
    subst hy; linarith
  | x :: xs, prev, hs, hp, _, hx1, y, hy => by
    simp only [spacings, List.mem_cons] at hy
    rw [List.pairwise_cons] at hs
    rcases hy with rfl | hy
    · have := hp x (List.mem_cons_self ..); linarith
    · exact spacings_nonneg xs x hs.2 hs.1 (hx1 x (List.mem_cons_self ..))
        (fun z hz => hx1 z (List.mem_cons_of_mem _ hz)) y hy

/-- test (R1–R3): hypotheses hold on a concrete sorted list -/
example : spacings [1/4, 1/2, 1/2] 0 = [1/4, 1/4, 0, 1/2] := by decide +kernel

theorem le_trans_bool (a b c : Rat) :
    (fun a b : Rat => decide (a ≤ b)) a b = true → (fun a b : Rat => decide (a ≤ b)) b c = true →
    (fun a b : Rat => decide (a ≤ b)) a c = true := by
  simp only [decide_eq_true_eq]; exact le_trans

theorem le_total_bool (a b : Rat) :
    ((fun a b : Rat => decide (a ≤ b)) a b || (fun a b : Rat => decide (a ≤ b)) b a) = true := by
  simp only [Bool.or_eq_true, decide_eq_true_eq]; exact le_total a b

theorem sorted_mergeSort_le (l : List Rat) :
    List.Pairwise (· ≤ ·) (l.mergeSort (fun a b => decide (a ≤ b))) := by
  have h := List.pairwise_mergeSort (le := fun a b : Rat => decide (a ≤ b)) le_trans_bool le_total_bool l
  exact h.imp (fun {a b} hab => by simpa using hab)

/-- R4 -/
theorem randomProbability_valid (draws : List Rat) (h : ∀ x ∈ draws, 0 ≤ x ∧ x < 1) :
    (makeRandomProbability draws).length = draws.length + 1 ∧
    (∀ y ∈ makeRandomProbability draws, 0 ≤ y) ∧ (makeRandomProbability draws).sum = 1 := by
  unfold makeRandomProbability
  have hperm := List.mergeSort_perm draws (fun a b => decide (a ≤ b))
  have hmem : ∀ x ∈ draws.mergeSort (fun a b => decide (a ≤ b)), 0 ≤ x ∧ x < 1 :=
    fun x hx => h x (hperm.mem_iff.mp hx)
  refine ⟨?_, ?_, ?_⟩
  · rw [spacings_length, hperm.length_eq]
  · exact spacings_nonneg _ 0 (sorted_mergeSort_le draws) (fun x hx => (hmem x hx).1) (by norm_num)
      (fun x hx => le_of_lt (hmem x hx).2)
  · rw [spacings_sum]; ring

/-- R5 -/
theorem randomProbability_isProb (draws : List Rat) (h : ∀ x ∈ draws, 0 ≤ x ∧ x < 1) :
    isProb (makeRandomProbability draws) = true := by
  obtain ⟨_, h2, h3⟩ := randomProbability_valid draws h
  rw [isProb_iff, h3]
  exact ⟨h2, eqSmall_self 1⟩

/-- test (R4, R5): unsorted draws with a repeated value and a zero meet the hypothesis -/
example : isProb (makeRandomProbability [3/4, 0, 1/4, 1/4]) = true :=
  randomProbability_isProb _ (by decide +kernel)

/-! ## `projectToProbability` : general lemmas -/

theorem mask_of_neg {x : Rat} (h : x < 0) : mask x = 0 := by simp [mask, h]
theorem mask_of_nonneg {x : Rat} (h : 0 ≤ x) : mask x = 1 := by simp [mask, not_lt.mpr h]

theorem posSum_cons (x : Rat) (xs : List Rat) :
    posSum (x :: xs) = (if x < 0 then 0 else x) + posSum xs := by simp [posSum]

theorem posCount_cons (x : Rat) (xs : List Rat) :
    posCount (x :: xs) = posCount xs + (if x < 0 then 0 else 1) := by
  unfold posCount; rw [List.countP_cons]; by_cases h : x < 0 <;> simp [h]

theorem posSum_nonneg : ∀ v : List Rat, 0 ≤ posSum v
  | [] => by simp [posSum]
  | x :: xs => by
    rw [posSum_cons]; have := posSum_nonneg xs
    by_cases h : x < 0
    · rw [if_pos h]; linarith
    · rw [if_neg h]; linarith [not_lt.mp h]

theorem sum_mask : ∀ v : List Rat, (v.map mask).sum = (posCount v : Rat)
  | [] => by simp [posCount]
  | x :: xs => by
    rw [List.map_cons, List.sum_cons, posCount_cons, sum_mask xs]
    by_cases h : x < 0
    · rw [mask_of_neg h, if_pos h]; simp
    · rw [mask_of_nonneg (not_lt.mp h), if_neg h]; push_cast; ring

theorem sum_mask_mul_self : ∀ v : List Rat, (v.map (fun x => mask x * x)).sum = posSum v
  | [] => by simp [posSum]
  | x :: xs => by
    rw [List.map_cons, List.sum_cons, posSum_cons, sum_mask_mul_self xs]
    by_cases h : x < 0
    · rw [mask_of_neg h, if_pos h]; ring
    · rw [mask_of_nonneg (not_lt.mp h), if_neg h]; ring

theorem sum_mask_mul_div (s : Rat) : ∀ v : List Rat,
    (v.map (fun x => mask x * (x / s))).sum = posSum v / s
  | [] => by simp [posSum]
  | x :: xs => by
    rw [List.map_cons, List.sum_cons, posSum_cons, sum_mask_mul_div s xs]
    by_cases h : x < 0
    · rw [mask_of_neg h, if_pos h]; ring
    · rw [mask_of_nonneg (not_lt.mp h), if_neg h]; ring

theorem sum_mask_mul_shift (d : Rat) : ∀ v : List Rat,
    (v.map (fun x => mask x * (x + d))).sum = posSum v + (posCount v : Rat) * d
  | [] => by simp [posSum, posCount]
  | x :: xs => by
    rw [List.map_cons, List.sum_cons, posSum_cons, posCount_cons, sum_mask_mul_shift d xs]
    by_cases h : x < 0
    · rw [mask_of_neg h, if_pos h, if_pos h]; push_cast; ring
    · rw [mask_of_nonneg (not_lt.mp h), if_neg h, if_neg h]; push_cast; ring

theorem posCount_pos_of_posSum_pos : ∀ v : List Rat, 0 < posSum v → 0 < posCount v
  | [] => by simp [posSum]
  | x :: xs => by
    rw [posSum_cons, posCount_cons]
    by_cases h : x < 0
    · rw [if_pos h, if_pos h, zero_add, Nat.add_zero]; exact posCount_pos_of_posSum_pos xs
    · rw [if_neg h, if_neg h]; intro _; omega

theorem posSum_eq_sum_of_nonneg : ∀ v : List Rat, (∀ x ∈ v, 0 ≤ x) → posSum v = v.sum
  | [], _ => by simp [posSum]
  | x :: xs, h => by
    rw [posSum_cons, List.sum_cons, posSum_eq_sum_of_nonneg xs (fun y hy => h y (List.mem_cons_of_mem _ hy)),
      if_neg (not_lt.mpr (h x (List.mem_cons_self ..)))]

theorem isProb_false_of_sum {l : List Rat} (h : eqSmall l.sum 1 = false) : isProb l = false := by
  simp [isProb, h]

/-! ## P1 -/

theorem projectFixed_length (v : List Rat) : (projectFixed v).length = v.length := by
  unfold projectFixed; dsimp only; split_ifs <;> simp

theorem project_length (v : List Rat) : (project v).length = v.length := by
  unfold project; dsimp only; split_ifs <;> simp

/-- test (P1) -/
example : (project [0, 0, -1]).length = 3 ∧ (projectFixed [2, -1, 5, 0]).length = 4 :=
  ⟨project_length _, projectFixed_length _⟩

/-! ## P9, P4, P5, P6 : the defects of the code as it is -/

/-- P9: when the clipped sum is ≈ 1 the 0/1 mask is returned -/
theorem project_mask_when_sum_one (v : List Rat) (h : eqSmall (posSum v) 1 = true) :
    project v = v.map mask := by
  unfold project; dsimp only; rw [if_pos h]

/-- test (P9): the hypothesis holds for [1/4, 3/4] and the result is [1, 1] -/
example : eqSmall (posSum [1/4, 3/4]) 1 = true ∧ project [1/4, 3/4] = [1, 1] := by
  refine ⟨by decide +kernel, by decide +kernel⟩

/-- P4 -/
theorem project_valid_counterexample :
    ¬ (∀ v : List Rat, v ≠ [] → isProb (project v) = true) := by
  intro h
  have h1 := h [1/4, 3/4] (by simp)
  have h2 : isProb (project [1/4, 3/4]) = false := by decide +kernel
  rw [h2] at h1; exact Bool.noConfusion h1

/-- P5 -/
theorem project_fixes_valid_counterexample :
    ¬ (∀ v : List Rat, isProb v = true → project v = v) := by
  intro h
  have h1 := h [1/4, 3/4] (by decide +kernel)
  have h2 : project [1/4, 3/4] ≠ [1/4, 3/4] := by decide +kernel
  exact h2 h1

/-- P6 -/
theorem project_zero_counterexample : isProb (project [0, 0, -1]) = false := by decide +kernel

/-- test (P6): the value returned -/
example : project [0, 0, -1] = [4/3, 4/3, 1/3] := by decide +kernel

/-! ## P8 : away from the two tolerance bands the code and the repair agree -/

theorem project_eq_fixed_off_tolerance (v : List Rat) (h1 : eqSmall (posSum v) 1 = false)
    (h0 : eqSmall (posSum v) 0 = false) : project v = projectFixed v := by
  unfold project projectFixed; dsimp only; simp only [h1, h0, Bool.false_eq_true, if_false]

/-- test (P8): both remaining branches -/
example : eqSmall (posSum [2, -1, 2]) 1 = false ∧ eqSmall (posSum [2, -1, 2]) 0 = false ∧
    project [2, -1, 2] = [1/2, 0, 1/2] := by
  refine ⟨by decide +kernel, by decide +kernel, by decide +kernel⟩
example : eqSmall (posSum [1/4, -1, 1/4]) 1 = false ∧ eqSmall (posSum [1/4, -1, 1/4]) 0 = false ∧
    project [1/4, -1, 1/4] = [1/2, 0, 1/2] := by
  refine ⟨by decide +kernel, by decide +kernel, by decide +kernel⟩

/-! ## P2 : the repaired routine always returns a probability vector -/

theorem projectFixed_valid (v : List Rat) (hne : v ≠ []) : isProb (projectFixed v) = true := by
  rw [isProb_iff]
  unfold projectFixed
  dsimp only
  have hs0 := posSum_nonneg v
  by_cases h1 : eqSmall (posSum v) 1 = true
  · -- sum ≈ 1 : clipped input
    rw [if_pos h1]
    refine ⟨?_, ?_⟩
    · intro y hy
      rw [List.mem_map] at hy
      obtain ⟨x, _, rfl⟩ := hy
      by_cases hx : x < 0
      · rw [mask_of_neg hx]; simp
      · rw [mask_of_nonneg (not_lt.mp hx)]; linarith [not_lt.mp hx]
    · rw [sum_mask_mul_self]; exact h1
  · rw [if_neg h1]
    by_cases h0 : eqSmall (posSum v) 0 = true
    · -- sum ≈ 0 : uniform
      rw [if_pos h0]
      have hn : (0 : Rat) < (v.length : Rat) := by
        have : 0 < v.length := List.length_pos_of_ne_nil hne
        exact_mod_cast this
      refine ⟨?_, ?_⟩
      · intro y hy
        rw [List.mem_map] at hy
        obtain ⟨x, _, rfl⟩ := hy
        exact le_of_lt (div_pos one_pos hn)
      · rw [List.map_const', List.sum_replicate, nsmul_eq_mul, mul_one_div_cancel (ne_of_gt hn)]
        exact eqSmall_self 1
    · rw [if_neg h0]
      have hspos : 0 < posSum v := by
        have h0' : eqSmall (posSum v) 0 = false := by simpa using h0
        rw [eqSmall_false_iff] at h0'
        have := tol_pos
        rcases h0' with h | h <;> linarith
      by_cases hg : posSum v > 1
      · -- sum > 1 : normalise
        rw [if_pos hg]
        refine ⟨?_, ?_⟩
        · intro y hy
          rw [List.mem_map] at hy
          obtain ⟨x, _, rfl⟩ := hy
          by_cases hx : x < 0
          · rw [mask_of_neg hx]; simp
          · rw [mask_of_nonneg (not_lt.mp hx), one_mul]
            exact div_nonneg (not_lt.mp hx) (le_of_lt hspos)
        · rw [sum_mask_mul_div, div_self (ne_of_gt hspos)]; exact eqSmall_self 1
      · -- sum < 1 : shift the non-negative entries
        rw [if_neg hg]
        have hc : (0 : Rat) < (posCount v : Rat) := by
          have := posCount_pos_of_posSum_pos v hspos
          exact_mod_cast this
        have hd : 0 ≤ (1 - posSum v) / (posCount v : Rat) :=
          div_nonneg (by linarith [not_lt.mp hg]) (le_of_lt hc)
        refine ⟨?_, ?_⟩
        · intro y hy
          rw [List.mem_map] at hy
          obtain ⟨x, _, rfl⟩ := hy
          by_cases hx : x < 0
          · rw [mask_of_neg hx]; simp
          · rw [mask_of_nonneg (not_lt.mp hx), one_mul]; linarith [not_lt.mp hx]
        · rw [sum_mask_mul_shift, mul_div_cancel₀ _ (ne_of_gt hc)]
          have : posSum v + (1 - posSum v) = 1 := by ring
          rw [this]; exact eqSmall_self 1

/-- test (P2): the two inputs on which the code as it is fails, and an all-negative input -/
example : isProb (projectFixed [1/4, 3/4]) = true ∧ isProb (projectFixed [0, 0, -1]) = true ∧
    isProb (projectFixed [-1, -2]) = true :=
  ⟨projectFixed_valid _ (by simp), projectFixed_valid _ (by simp), projectFixed_valid _ (by simp)⟩
example : projectFixed [0, 0, -1] = [1/3, 1/3, 1/3] := by decide +kernel

/-! ## P7 : the code as it is, restricted to inputs outside the two tolerance bands -/

theorem project_valid_partial (v : List Rat) (hne : v ≠ []) (h1 : eqSmall (posSum v) 1 = false)
    (h0 : eqSmall (posSum v) 0 = false) : isProb (project v) = true := by
  rw [project_eq_fixed_off_tolerance v h1 h0]; exact projectFixed_valid v hne

/-- test (P7) -/
example : isProb (project [2, -1, 2]) = true :=
  project_valid_partial _ (by simp) (by decide +kernel) (by decide +kernel)

/-! ## P3 : a vector accepted by `isProbability` is a fixed point of the repaired routine -/

theorem projectFixed_fixes_valid (v : List Rat) (h : isProb v = true) : projectFixed v = v := by
  rw [isProb_iff] at h
  obtain ⟨hnn, hsum⟩ := h
  unfold projectFixed
  dsimp only
  rw [posSum_eq_sum_of_nonneg v hnn, if_pos hsum]
  conv_rhs => rw [← List.map_id v]
  apply List.map_congr_left
  intro x hx
  rw [mask_of_nonneg (hnn x hx), one_mul]; rfl

/-- test (P3): a valid vector whose sum is not exactly 1 -/
example : isProb [1/4, 3/4 + 1/2000000, 0] = true ∧
    projectFixed [1/4, 3/4 + 1/2000000, 0] = [1/4, 3/4 + 1/2000000, 0] :=
  ⟨by decide +kernel, projectFixed_fixes_valid _ (by decide +kernel)⟩

/-! ## P10 : every input with clipped sum ≈ 1 and two or more non-negative entries fails -/

theorem project_sum_one_invalid (v : List Rat) (h : eqSmall (posSum v) 1 = true)
    (hc : 2 ≤ posCount v) : isProb (project v) = false := by
  rw [project_mask_when_sum_one v h]
  apply isProb_false_of_sum
  rw [sum_mask, eqSmall_false_iff]
  left
  have h2 : (2 : Rat) ≤ (posCount v : Rat) := by exact_mod_cast hc
  have := tol_lt_half
  linarith

/-- test (P10) -/
example : isProb (project [1/2, -3, 1/2, 0]) = false :=
  project_sum_one_invalid _ (by decide +kernel) (by decide +kernel)

/-! ## R6 : the result depends only on the multiset of draws -/

theorem randomProbability_perm_invariant (draws draws' : List Rat) (h : draws.Perm draws') :
    makeRandomProbability draws = makeRandomProbability draws' := by
  unfold makeRandomProbability
  have hp : (draws.mergeSort (fun a b => decide (a ≤ b))).Perm
      (draws'.mergeSort (fun a b => decide (a ≤ b))) :=
    ((List.mergeSort_perm draws _).trans h).trans (List.mergeSort_perm draws' _).symm
  rw [List.Perm.eq_of_pairwise (le := (· ≤ ·)) (fun a b _ _ hab hba => le_antisymm hab hba)
    (sorted_mergeSort_le draws) (sorted_mergeSort_le draws') hp]

/-- test (R6) -/
example : makeRandomProbability [3/4, 0, 1/4] = makeRandomProbability [0, 1/4, 3/4] :=
  randomProbability_perm_invariant _ _ (by decide +kernel)

/-- test (R4–R6): the value computed for unsorted draws with a repeated value and a zero -/
example : makeRandomProbability [3/4, 0, 1/4, 1/4] = [0, 1/4, 0, 1/2, 1/4] := by
  rw [randomProbability_perm_invariant _ [0, 1/4, 1/4, 3/4] (by decide +kernel)]
  unfold makeRandomProbability
  rw [List.mergeSort_of_pairwise (by decide +kernel)]
  decide +kernel

end AITB.Sampling
