/-
  C02 (round 3) — the solvers' outer loop as written (tolerance / horizon / horizon 0 / returned variation), weakBoundDistance,
  LinearSupport's acceptance test, Witness' LP row reservation, and a COMPLETE per-instance checker for the property on all beliefs
  (`checkExactChain`: every returned vector is a backup, and every vector of the full backup is convexly dominated by the returned list).

  Builds on `AITB.Props.C02` (env_backupAll, qOf_congr, convex_dominance_sound, env_le_of_memN).
-/
import AITB.Props.C02
import AITB.Model.POMDPSolve
import AITB.Gen.C02Sites

namespace AITB.POMDP
open AITB.MDP (sumTo maxTo argmaxTo Vec Vec.get mkVec absR sumTo_eq sumTo_congr sumTo_le sumTo_add sumTo_mul_left mkVec_get maxTo_ge maxTo_attained maxTo_congr absR_eq)

/-! ## (1) cover certificates: a complete decision of "returned surface = expectimax at EVERY belief" -/

/-- an accepted certificate shows β·b ≤ envelope of the list at every non-negative point -/
theorem domBy_sound (n : Nat) (cur : List Vec) (hne : cur ≠ []) (lam : List Rat) (β b : Vec)
    (h : domBy n cur lam β = true) (hb : NonNeg n b) : dot n b β ≤ env n cur b := by
  unfold domBy at h
  simp only [Bool.and_eq_true, beq_iff_eq, List.all_eq_true, decide_eq_true_eq] at h
  obtain ⟨⟨⟨hlen, hl0⟩, hl1⟩, hdom⟩ := h
  refine convex_dominance_sound n cur lam β b hlen hne hl0 hl1 ?_ hb
  intro s hs
  unfold allLt at hdom
  rw [List.all_eq_true] at hdom
  have := hdom s (List.mem_range.mpr hs)
  rw [decide_eq_true_eq] at this
  simpa [mixAtS] using this

theorem coverStep_sound (m : Model) (hA : 0 < m.A) (τ : Rat) (prev cur : List Vec) (hp : prev ≠ []) (hc : cur ≠ [])
    (cert : Nat → List Rat) (h : coverStep m τ prev cur cert = true) (b : Vec) (hb : NonNeg m.S b) :
    env m.S (backupAll m τ prev) b ≤ env m.S cur b := by
  obtain ⟨β, hβ, e⟩ := env_attained m.S (backupAll m τ prev) b (backupAll_ne_nil m hA τ prev hp)
  rw [e]
  obtain ⟨i, hi, hget⟩ := List.getElem_of_mem hβ
  unfold coverStep allLt at h
  rw [List.all_eq_true] at h
  have hd := h i (List.mem_range.mpr hi)
  have hD : (backupAll m τ prev).getD i (vzero m.S) = β := by
    simp [List.getD_eq_getElem?_getD, List.getElem?_eq_getElem hi, hget]
  rw [hD] at hd
  exact domBy_sound m.S cur hc (cert i) β b hd hb

/-- **checkExactChain_sound**: if the Lean-evaluated checker accepts the chain of returned lists with its certificates, the envelope of the
    last list EQUALS the expectimax value at EVERY belief (every non-negative point) — the property itself, decided per instance. -/
theorem checkExactChain_sound (m : Model) (hv : Valid m) (τ : Rat) (hsep : Sep m τ) (hγ : 0 ≤ m.γ) :
    ∀ (rest : List (List Vec)) (certs : List (Nat → List Rat)) (prev : List Vec) (t : Nat), prev ≠ [] →
      (∀ b, NonNeg m.S b → env m.S prev b = expectimax m t b) →
      checkExactChain m τ prev rest certs = true →
      ∀ b, NonNeg m.S b → env m.S (lastOf prev rest) b = expectimax m (t + rest.length) b := by
  intro rest
  induction rest with
  | nil => intro _ prev t _ hprev _ b hb; simpa [lastOf] using hprev b hb
  | cons cur rest ih =>
    intro certs prev t hne hprev hc b hb
    cases certs with
    | nil => simp [checkExactChain] at hc
    | cons c cs =>
      simp only [checkExactChain, Bool.and_eq_true] at hc
      obtain ⟨⟨hstep, hcov⟩, hrest⟩ := hc
      have hstep' := hstep
      simp only [checkBackupStep, Bool.and_eq_true, Bool.not_eq_true', List.isEmpty_eq_false_iff] at hstep'
      obtain ⟨hcne, hall⟩ := hstep'
      have hcur : ∀ b, NonNeg m.S b → env m.S cur b = expectimax m (t+1) b := by
        intro b hb
        have e1 : env m.S cur b = env m.S (backupAll m τ prev) b :=
          le_antisymm (env_le_of_memN _ _ _ b hcne hall) (coverStep_sound m hv.hA τ prev cur hne hcne c hcov b hb)
        rw [e1, env_backupAll m hv τ hsep hγ _ hne b hb]
        simp only [expectimax]
        apply maxTo_congr
        intro a ha
        exact qOf_congr m hv _ _ hprev b hb (by have := hv.hA; omega)
      have := ih cs cur (t+1) hcne hcur hrest b hb
      simp only [lastOf, List.length_cons]
      have e : t + (rest.length + 1) = t + 1 + rest.length := by omega
      rw [e]; exact this

/-- from the zero vector (what `makeValueFunction` returns for timestep 0) -/
theorem checkExactChain_sound_from_zero (m : Model) (hv : Valid m) (τ : Rat) (hsep : Sep m τ) (hγ : 0 ≤ m.γ)
    (rest : List (List Vec)) (certs : List (Nat → List Rat)) (hc : checkExactChain m τ [vzero m.S] rest certs = true)
    (b : Vec) (hb : NonNeg m.S b) :
    env m.S (lastOf [vzero m.S] rest) b = expectimax m rest.length b := by
  have := checkExactChain_sound m hv τ hsep hγ rest certs [vzero m.S] 0 (by simp)
    (by intro b _; simp [env, lmax, dot_vzero, expectimax]) hc b hb
  simpa using this

/-- a two-state, two-action, one-observation POMDP on which the checker accepts a one-step value function with its certificates
    (the hypotheses of `checkExactChain_sound_from_zero` are satisfiable; test on literals) -/
def exCover : Model := ⟨2, 2, 1, fun s _ s1 => if s = s1 then 1 else 0, fun s a => if s = a then 1 else 0, fun _ _ _ => 1, 1/2⟩

example : checkExactChain exCover 0 [vzero 2] [[#[1, 0], #[0, 1]]] [fun i => if i = 0 then [1, 0] else [0, 1]] = true := by decide +kernel

/-! ## (2) weakBoundDistance -/

theorem closestAcc_attained (n : Nat) (nv : Vec) : ∀ (l : List Vec) (c : Option Rat) (x : Rat),
    closestAcc n nv l c = some x → c = some x ∨ ∃ ov ∈ l, vdist n nv ov = x := by
  intro l
  induction l with
  | nil => intro c x h; left; simpa [closestAcc] using h
  | cons ov r ih =>
    intro c x h
    cases c with
    | none =>
      simp only [closestAcc] at h
      rcases ih _ x h with h1 | ⟨w, hw, e⟩
      · right; exact ⟨ov, List.mem_cons_self, by simpa using h1⟩
      · right; exact ⟨w, List.mem_cons_of_mem _ hw, e⟩
    | some y =>
      simp only [closestAcc] at h
      rcases ih _ x h with h1 | ⟨w, hw, e⟩
      · simp only [Option.some.injEq] at h1
        by_cases hlt : vdist n nv ov < y
        · rw [if_pos hlt] at h1; right; exact ⟨ov, List.mem_cons_self, h1⟩
        · rw [if_neg hlt] at h1; left; rw [h1]
      · right; exact ⟨w, List.mem_cons_of_mem _ hw, e⟩

theorem closestAcc_some (n : Nat) (nv : Vec) : ∀ (l : List Vec) (y : Rat), ∃ x, closestAcc n nv l (some y) = some x := by
  intro l
  induction l with
  | nil => intro y; exact ⟨y, rfl⟩
  | cons ov r ih => intro y; simp only [closestAcc]; exact ih _

theorem closestAcc_ne_nil (n : Nat) (nv : Vec) (l : List Vec) (hl : l ≠ []) : ∃ x, closestAcc n nv l none = some x := by
  cases l with
  | nil => exact absurd rfl hl
  | cons ov r => simp only [closestAcc]; exact closestAcc_some n nv r _

theorem wbdAcc_ge_start (n : Nat) (old : List Vec) : ∀ (new : List Vec) (d : Rat), d ≤ wbdAcc n old new d := by
  intro new
  induction new with
  | nil => intro d; simp [wbdAcc]
  | cons nv r ih =>
    intro d
    simp only [wbdAcc]
    cases closestAcc n nv old none with
    | none => exact ih d
    | some c =>
      simp only
      by_cases h : d < c
      · rw [if_pos h]; exact le_trans (le_of_lt h) (ih c)
      · rw [if_neg h]; exact ih d

theorem wbdAcc_ge_closest (n : Nat) (old : List Vec) : ∀ (new : List Vec) (d : Rat) (nv : Vec) (c : Rat),
    nv ∈ new → closestAcc n nv old none = some c → c ≤ wbdAcc n old new d := by
  intro new
  induction new with
  | nil => intro d nv c h; simp at h
  | cons x r ih =>
    intro d nv c hmem hc
    simp only [wbdAcc]
    rcases List.mem_cons.mp hmem with rfl | hr
    · rw [hc]
      simp only
      by_cases h : d < c
      · rw [if_pos h]; exact wbdAcc_ge_start n old r c
      · rw [if_neg h]; exact le_trans (not_lt.mp h) (wbdAcc_ge_start n old r d)
    · cases closestAcc n x old none with
      | none => exact ih d nv c hr hc
      | some c' => exact ih _ nv c hr hc

/-- a small weak-bound distance means every new vector has an old vector within that distance in the max norm -/
theorem wbd_close (n : Nat) (old new : List Vec) (ho : old ≠ []) (ε : Rat) (h : wbd n old new ≤ ε) :
    ∀ nv ∈ new, ∃ ov ∈ old, vdist n nv ov ≤ ε := by
  intro nv hnv
  unfold wbd at h
  have : old.isEmpty = false := by simpa using ho
  rw [this] at h
  simp only [Bool.false_eq_true, if_false] at h
  obtain ⟨c, hc⟩ := closestAcc_ne_nil n nv old ho
  have hle := wbdAcc_ge_closest n old new 0 nv c hnv hc
  rcases closestAcc_attained n nv old none c hc with h0 | ⟨ov, hov, e⟩
  · simp at h0
  · exact ⟨ov, hov, by rw [e]; linarith⟩

theorem dot_le_of_vdist (n : Nat) (hn : 0 < n) (a o b : Vec) (ε : Rat) (hd : vdist n a o ≤ ε) (hb : Simplex n b) :
    dot n b a ≤ dot n b o + ε := by
  have hs : ∀ s, s < n → a.get s ≤ o.get s + ε := by
    intro s hs
    have := maxTo_ge (n - 1) (fun s => absR (a.get s - o.get s)) s (by omega)
    have h2 : absR (a.get s - o.get s) ≤ ε := le_trans this hd
    rw [absR_eq] at h2
    have := le_abs_self (a.get s - o.get s)
    linarith
  have : dot n b a ≤ sumTo n (fun s => b.get s * o.get s + ε * b.get s) := by
    unfold dot
    apply sumTo_le
    intro s hs'
    have hb0 := hb.1 s hs'
    nlinarith [hs s hs']
  rw [sumTo_add, sumTo_mul_left, hb.2] at this
  unfold dot at this ⊢
  linarith

/-- **wbd_sound**: what the early stop `variation ≤ tolerance` means: the new surface exceeds the old one by at most the
    tolerance at every belief (one-sided: the "weak" bound says nothing about the other direction). -/
theorem wbd_sound (n : Nat) (hn : 0 < n) (old new : List Vec) (ho : old ≠ []) (hnew : new ≠ []) (ε : Rat)
    (h : wbd n old new ≤ ε) (b : Vec) (hb : Simplex n b) : env n new b ≤ env n old b + ε := by
  obtain ⟨α, hα, e⟩ := env_attained n new b hnew
  rw [e]
  obtain ⟨ov, hov, hd⟩ := wbd_close n old new ho ε h α hα
  have := dot_le_of_vdist n hn α ov b ε hd hb
  have := env_ge n old b ov hov
  linarith

example : wbd 2 [#[0, 0], #[4, 1]] [#[1, 0], #[4, 3]] = 2 := by decide +kernel

/-! ## (3) the outer loop of IncrementalPruning / Witness / LinearSupport as written -/

/-- one timestep's work is envelope-exact (what `incremental_pruning_as_written_exact_all`, `witness_loop_complete`,
    `linear_support_exact_of_cover` establish for the three solvers' steps) -/
def StepExact (m : Model) (τ : Rat) (step : Nat → List Vec → List Vec) : Prop :=
  ∀ t Γ, Γ ≠ [] → step t Γ ≠ [] ∧ ∀ b, NonNeg m.S b → env m.S (step t Γ) b = env m.S (backupAll m τ Γ) b

theorem outerGo_length_le (n : Nat) (step : Nat → List Vec → List Vec) (useTol : Bool) (tol : Rat) :
    ∀ (f t : Nat) (var : Rat) (last : List Vec), (outerGo n step useTol tol f t var last).1.length ≤ f := by
  intro f
  induction f with
  | zero => intro t var last; simp [outerGo]
  | succ f ih =>
    intro t var last
    simp only [outerGo]
    split
    · simp only [List.length_cons]; have := ih (t+1) (if useTol then wbd n last (step (t+1) last) else var) (step (t+1) last); omega
    · simp

/-- every list the loop appends is exact for its timestep, whatever the tolerance -/
theorem outerGo_exact (m : Model) (hv : Valid m) (τ : Rat) (hsep : Sep m τ) (hγ : 0 ≤ m.γ)
    (step : Nat → List Vec → List Vec) (hstep : StepExact m τ step) (useTol : Bool) (tol : Rat) :
    ∀ (f t : Nat) (var : Rat) (last : List Vec), last ≠ [] →
      (∀ b, NonNeg m.S b → env m.S last b = expectimax m t b) →
      ∀ k, k < (outerGo m.S step useTol tol f t var last).1.length →
        (outerGo m.S step useTol tol f t var last).1.getD k [] ≠ [] ∧
        ∀ b, NonNeg m.S b → env m.S ((outerGo m.S step useTol tol f t var last).1.getD k []) b = expectimax m (t + 1 + k) b := by
  intro f
  induction f with
  | zero => intro t var last _ _ k hk; simp [outerGo] at hk
  | succ f ih =>
    intro t var last hne hlast k hk
    simp only [outerGo] at hk ⊢
    split at hk
    · rename_i hcond
      rw [if_pos hcond]
      have hs := hstep (t+1) last hne
      have hcur : ∀ b, NonNeg m.S b → env m.S (step (t+1) last) b = expectimax m (t+1) b := by
        intro b hb
        rw [hs.2 b hb, env_backupAll m hv τ hsep hγ _ hne b hb]
        simp only [expectimax]
        apply maxTo_congr
        intro a ha
        exact qOf_congr m hv _ _ hlast b hb (by have := hv.hA; omega)
      cases k with
      | zero => simpa using ⟨hs.1, hcur⟩
      | succ k =>
        simp only [List.length_cons] at hk
        have := ih (t+1) (if useTol then wbd m.S last (step (t+1) last) else var) (step (t+1) last) hs.1 hcur k (by omega)
        simp only [List.getD_cons_succ]
        have e : t + 1 + (k + 1) = t + 1 + 1 + k := by omega
        rw [e]; exact this
    · simp at hk

/-- without a tolerance the loop runs exactly `horizon` steps -/
theorem outerGo_noTol (n : Nat) (step : Nat → List Vec → List Vec) (tol : Rat) :
    ∀ (f t : Nat) (var : Rat) (last : List Vec), outerGo n step false tol f t var last = (iterFrom step f t last, var) := by
  intro f
  induction f with
  | zero => intro t var last; simp [outerGo, iterFrom]
  | succ f ih => intro t var last; simp [outerGo, iterFrom, ih]

theorem iterFrom_length (step : Nat → List Vec → List Vec) : ∀ (f t : Nat) (last : List Vec), (iterFrom step f t last).length = f := by
  intro f
  induction f with
  | zero => intro t last; rfl
  | succ f ih => intro t last; simp [iterFrom, ih]

/-- the variation the loop ends with is the weak-bound distance of the last two lists (or the initial value when nothing was appended) -/
def lastTwoWbd (n : Nat) : List Vec → List (List Vec) → Rat → Rat
  | _, [], var => var
  | prev, cur :: rest, _ => lastTwoWbd n cur rest (wbd n prev cur)

theorem outerGo_variation (n : Nat) (step : Nat → List Vec → List Vec) (tol : Rat) :
    ∀ (f t : Nat) (var : Rat) (last : List Vec),
      (outerGo n step true tol f t var last).2 = lastTwoWbd n last (outerGo n step true tol f t var last).1 var := by
  intro f
  induction f with
  | zero => intro t var last; simp [outerGo, lastTwoWbd]
  | succ f ih =>
    intro t var last
    simp only [outerGo]
    split
    · simp only [if_true, lastTwoWbd]; exact ih _ _ _
    · simp [lastTwoWbd]

/-- stopping before the horizon happens only because the variation is within the tolerance -/
theorem outerGo_early_stop (n : Nat) (step : Nat → List Vec → List Vec) (tol : Rat) :
    ∀ (f t : Nat) (var : Rat) (last : List Vec),
      (outerGo n step true tol f t var last).1.length < f → (outerGo n step true tol f t var last).2 ≤ tol := by
  intro f
  induction f with
  | zero => intro t var last h; simp [outerGo] at h
  | succ f ih =>
    intro t var last h
    simp only [outerGo] at h ⊢
    split
    · rename_i hc
      rw [if_pos hc] at h
      simp only [List.length_cons] at h
      exact ih _ _ _ (by omega)
    · rename_i hc
      simp only [Bool.not_true, Bool.false_or, decide_eq_true_eq] at hc
      exact not_lt.mp hc

/-- … and conversely the loop never continues once the variation is within the tolerance -/
theorem outerGo_stops_at_tol (n : Nat) (step : Nat → List Vec → List Vec) (tol : Rat) (f t : Nat) (var : Rat) (last : List Vec)
    (h : var ≤ tol) : outerGo n step true tol f t var last = ([], var) := by
  cases f with
  | zero => simp [outerGo]
  | succ f => simp [outerGo, not_lt.mpr h]

/-- **solver_loop_exact**: every list of the returned ValueFunction is exact for its own timestep — with or without tolerance,
    for every horizon (including 0) — provided each timestep's work is envelope-exact. -/
theorem solver_loop_exact (m : Model) (hv : Valid m) (τ : Rat) (hsep : Sep m τ) (hγ : 0 ≤ m.γ)
    (step : Nat → List Vec → List Vec) (hstep : StepExact m τ step) (tol : Rat) (horizon : Nat) :
    ∀ k, k < (solveOuter m.S step τ tol horizon).2.length →
      ∀ b, NonNeg m.S b → env m.S ((solveOuter m.S step τ tol horizon).2.getD k []) b = expectimax m k b := by
  intro k hk b hb
  unfold solveOuter at hk ⊢
  simp only at hk ⊢
  cases k with
  | zero => simp [env, lmax, dot_vzero, expectimax]
  | succ k =>
    simp only [List.length_cons] at hk
    simp only [List.getD_cons_succ]
    have h0 : ∀ b, NonNeg m.S b → env m.S [vzero m.S] b = expectimax m 0 b := by
      intro b _; simp [env, lmax, dot_vzero, expectimax]
    have := (outerGo_exact m hv τ hsep hγ step hstep (useTolerance τ tol) tol horizon 0 (tol * 2) [vzero m.S] (by simp) h0 k (by omega)).2 b hb
    have e : 0 + 1 + k = k + 1 := by omega
    rw [e] at this; exact this

/-- **solver_loop_tol0_horizon** — the property's case: a tolerance that `checkDifferentSmall(tolerance_, 0.0)` reads as zero
    (|tolerance| ≤ 1e-6) makes the loop run exactly `horizon` timesteps, return variation 0.0, and its last list is the
    horizon-step expectimax value at every belief. -/
theorem solver_loop_tol0_horizon (m : Model) (hv : Valid m) (τ : Rat) (hsep : Sep m τ) (hγ : 0 ≤ m.γ)
    (step : Nat → List Vec → List Vec) (hstep : StepExact m τ step) (tol : Rat) (h0 : useTolerance τ tol = false) (horizon : Nat) :
    (solveOuter m.S step τ tol horizon).1 = 0 ∧ (solveOuter m.S step τ tol horizon).2.length = horizon + 1 ∧
    ∀ b, NonNeg m.S b → env m.S ((solveOuter m.S step τ tol horizon).2.getD horizon []) b = expectimax m horizon b := by
  have hlen : (solveOuter m.S step τ tol horizon).2.length = horizon + 1 := by
    unfold solveOuter
    simp only [h0, outerGo_noTol, List.length_cons, iterFrom_length]
  refine ⟨by unfold solveOuter; simp [h0], hlen, ?_⟩
  exact solver_loop_exact m hv τ hsep hγ step hstep tol horizon horizon (by omega)

/-- horizon 0: the returned ValueFunction is `makeValueFunction(S)` — one list holding the zero vector, value 0 everywhere
    (note the returned "variation" is `2·tolerance` when a tolerance is in use: the loop body never ran) -/
theorem solveOuter_h0 (n : Nat) (step : Nat → List Vec → List Vec) (τ tol : Rat) :
    solveOuter n step τ tol 0 = (if useTolerance τ tol then tol * 2 else 0, [[vzero n]]) := by
  simp [solveOuter, outerGo]

example : StepExact ⟨1, 1, 1, fun _ _ _ => 1, fun _ _ => 1, fun _ _ _ => 1, 1/2⟩ 0
    (fun _ Γ => backupAll ⟨1, 1, 1, fun _ _ _ => 1, fun _ _ => 1, fun _ _ _ => 1, 1/2⟩ 0 Γ) :=
  fun _ Γ hΓ => ⟨backupAll_ne_nil _ (by decide) 0 Γ hΓ, fun _ _ => rfl⟩

/-! ## (4) LinearSupport's acceptance test and Witness' row reservation -/

/-- a vertex that is NOT queued has error at most tolerance + the slack of `checkEqualGeneral` — the ε of `ls_break_tested` /
    `linear_support_exact_of_cover` for the test as written -/
theorem lsAccept_false_bound (tol d : Rat) (ht : 0 ≤ tol) (h : lsAccept tol d = false) :
    d ≤ tol + AITB.MDP.tieSlack tol := by
  have hs : (0:Rat) ≤ AITB.Gen.equalToleranceSmall := by unfold AITB.Gen.equalToleranceSmall; norm_num
  have hg : (0:Rat) ≤ AITB.Gen.equalToleranceGeneral := by unfold AITB.Gen.equalToleranceGeneral; norm_num
  have hslack : 0 ≤ AITB.MDP.tieSlack tol := by
    unfold AITB.MDP.tieSlack; nlinarith
  unfold lsAccept at h
  simp only [Bool.and_eq_false_iff, decide_eq_false_iff_not, Bool.not_eq_false'] at h
  rcases h with h | h
  · linarith [not_lt.mp h]
  · unfold AITB.MDP.checkEqualGeneral AITB.MDP.checkEqualSmall at h
    simp only [Bool.or_eq_true, decide_eq_true_eq] at h
    unfold AITB.MDP.tieSlack
    rcases h with h | h
    · rw [absR_eq] at h
      have := le_abs_self (d - tol)
      nlinarith
    · rw [absR_eq, absR_eq, absR_eq] at h
      have h1 : AITB.MDP.minR |d| |tol| ≤ |tol| := by
        unfold AITB.MDP.minR; split <;> [exact le_refl _; (rename_i hh; exact not_lt.mp hh)]
      have h2 : |tol| = tol := abs_of_nonneg ht
      have := le_abs_self (d - tol)
      rw [h2] at h1 h
      have h3 : AITB.MDP.minR |d| tol * AITB.Gen.equalToleranceGeneral ≤ tol * AITB.Gen.equalToleranceGeneral :=
        mul_le_mul_of_nonneg_right h1 hg
      nlinarith

/-- the reservation invariant of Witness' per-action loop: the LP always has room for the next row
    (`counter < reserveSize` is preserved by `if ( ++counter == reserveSize ) reserveSize *= 2`) -/
theorem wReserve_room : ∀ (k r counter : Nat), counter < r → counter + k < wReserveAction r k counter := by
  intro k
  induction k with
  | zero => intro r c h; simpa [wReserveAction] using h
  | succ k ih =>
    intro r c h
    unfold wReserveAction
    split
    · rename_i he
      have he' : c + 1 = r := by simpa using he
      have := ih (2 * r) (c + 1) (by omega)
      omega
    · rename_i he
      have he' : c + 1 ≠ r := by simpa using he
      have := ih r (c + 1) (by omega)
      omega

example : wReserveAction 2 5 0 = 8 := by decide

/-! ## (6) Witness' agenda loop: termination with the repair, non-termination as shipped -/

theorem wStepG_false (n k : Nat) (P : Nat → List Vec) (oracle : List Vec → Vec → Option Vec) (best : Vec → Choice) (st : WState) :
    wStepG false n k P oracle best st = wStep n k P oracle best st := by
  unfold wStepG wStep
  cases st.agenda with
  | nil => rfl
  | cons v rest =>
    simp only
    cases oracle (st.U.map (choiceSum n k P)) (choiceSum n k P v) <;> simp

theorem wLoopG_false (n k : Nat) (P : Nat → List Vec) (oracle : List Vec → Vec → Option Vec) (best : Vec → Choice) :
    ∀ (f : Nat) (st : WState), wLoopG false n k P oracle best f st = wLoop n k P oracle best f st := by
  intro f
  induction f with
  | zero => intro st; rfl
  | succ f ih => intro st; simp [wLoopG, wLoop, wStepG_false, ih]

/-- the sums held in U are pairwise different and all come from a finite pool (the full cross-sum) -/
def WFin (n k : Nat) (P : Nat → List Vec) (pool : List Vec) (st : WState) : Prop :=
  (st.U.map (choiceSum n k P)).Nodup ∧ ∀ x ∈ st.U.map (choiceSum n k P), x ∈ pool

theorem wLoopG_done (n k : Nat) (P : Nat → List Vec) (oracle : List Vec → Vec → Option Vec) (best : Vec → Choice) :
    ∀ (f : Nat) (st : WState), st.agenda = [] → (wLoopG true n k P oracle best f st).agenda = [] := by
  intro f
  induction f with
  | zero => intro st h; exact h
  | succ f ih =>
    intro st h
    simp only [wLoopG]
    have : wStepG true n k P oracle best st = st := by unfold wStepG; rw [h]
    rw [this]; exact ih st h

/-- **witness_repaired_terminates** — with the repair, Witness' per-action loop terminates for ANY LP oracle (sound or not) and any
    `crossSumBestAtBelief` whose vectors come from the finite cross-sum: every iteration either pops the agenda or adds a vector not yet in U. -/
theorem witness_repaired_terminates (n k : Nat) (P : Nat → List Vec) (pool : List Vec)
    (oracle : List Vec → Vec → Option Vec) (best : Vec → Choice) (hbest : ∀ w, choiceSum n k P (best w) ∈ pool) :
    ∀ (st : WState), WFin n k P pool st → ∃ f, (wLoopG true n k P oracle best f st).agenda = [] := by
  -- outer: strong induction on pool.length - U.length; inner: induction on the agenda length
  have key : ∀ (a : Nat) (st : WState), WFin n k P pool st → pool.length - st.U.length = a →
      ∃ f, (wLoopG true n k P oracle best f st).agenda = [] := by
    intro a
    induction a using Nat.strong_induction_on with
    | _ a iha =>
      have inner : ∀ (L : Nat) (st : WState), WFin n k P pool st → pool.length - st.U.length = a → st.agenda.length = L →
          ∃ f, (wLoopG true n k P oracle best f st).agenda = [] := by
        intro L
        induction L with
        | zero =>
          intro st _ _ hL
          exact ⟨0, by simpa [wLoopG] using List.eq_nil_of_length_eq_zero hL⟩
        | succ L ihL =>
          intro st hfin ha hL
          match hag : st.agenda with
          | [] => rw [hag] at hL; simp at hL
          | v :: rest =>
            rw [hag] at hL
            simp only [List.length_cons, Nat.add_right_cancel_iff] at hL
            -- one step
            have hstep : ∃ st', wStepG true n k P oracle best st = st' ∧
                ((st'.U = st.U ∧ st'.agenda = rest) ∨
                 (WFin n k P pool st' ∧ pool.length - st'.U.length < a)) := by
              unfold wStepG
              rw [hag]
              simp only
              cases ho : oracle (st.U.map (choiceSum n k P)) (choiceSum n k P v) with
              | none => exact ⟨_, rfl, Or.inl ⟨rfl, rfl⟩⟩
              | some w =>
                simp only [Bool.true_and]
                by_cases hc : (st.U.map (choiceSum n k P)).contains (choiceSum n k P (best w)) = true
                · rw [if_pos hc]; exact ⟨_, rfl, Or.inl ⟨rfl, rfl⟩⟩
                · rw [if_neg hc]
                  refine ⟨_, rfl, Or.inr ?_⟩
                  have hnot : choiceSum n k P (best w) ∉ st.U.map (choiceSum n k P) := by
                    intro hm; exact hc (List.contains_iff_mem.mpr hm)
                  have hnd : ((st.U ++ [best w]).map (choiceSum n k P)).Nodup := by
                    rw [List.map_append, List.map_singleton]
                    exact List.nodup_append.mpr ⟨hfin.1, List.nodup_singleton _, by
                      intro x hx y hy; simp at hy; subst hy; intro e; subst e; exact hnot hx⟩
                  have hsub : ∀ x ∈ (st.U ++ [best w]).map (choiceSum n k P), x ∈ pool := by
                    intro x hx
                    rw [List.map_append, List.mem_append] at hx
                    rcases hx with hx | hx
                    · exact hfin.2 x hx
                    · simp at hx; subst hx; exact hbest w
                  refine ⟨⟨hnd, hsub⟩, ?_⟩
                  have hle := List.Nodup.length_le_of_subset hnd (fun x hx => hsub x hx)
                  simp only [List.length_map, List.length_append, List.length_singleton] at hle ⊢
                  omega
            obtain ⟨st', hst', hcase⟩ := hstep
            rcases hcase with ⟨hU, hA⟩ | ⟨hfin', hlt⟩
            · have hfin' : WFin n k P pool st' := by unfold WFin; rw [hU]; exact hfin
              obtain ⟨f, hf⟩ := ihL st' hfin' (by rw [hU]; exact ha) (by rw [hA]; exact hL)
              exact ⟨f + 1, by simp only [wLoopG]; rw [hst']; exact hf⟩
            · obtain ⟨f, hf⟩ := iha _ hlt st' hfin' rfl
              exact ⟨f + 1, by simp only [wLoopG]; rw [hst']; exact hf⟩
      intro st hfin ha
      exact inner st.agenda.length st hfin ha rfl
  intro st hfin
  exact key _ st hfin rfl

/-- … and it changes nothing when the oracle is sound: a genuine witness point's best vector beats everything in U there, hence is new -/
theorem wStepG_eq_wStep_of_sound (n k : Nat) (P : Nat → List Vec) (oracle : List Vec → Vec → Option Vec) (best : Vec → Choice)
    (hsound : ∀ (U : List Choice) (v : Choice) (w : Vec), oracle (U.map (choiceSum n k P)) (choiceSum n k P v) = some w →
      ∀ u ∈ U, dot n w (choiceSum n k P u) < dot n w (choiceSum n k P (best w)))
    (st : WState) : wStepG true n k P oracle best st = wStep n k P oracle best st := by
  unfold wStepG wStep
  cases hag : st.agenda with
  | nil => rfl
  | cons v rest =>
    simp only
    cases ho : oracle (st.U.map (choiceSum n k P)) (choiceSum n k P v) with
    | none => rfl
    | some w =>
      simp only [Bool.true_and]
      have hnot : ¬ ((st.U.map (choiceSum n k P)).contains (choiceSum n k P (best w)) = true) := by
        intro hc
        have hm := List.contains_iff_mem.mp hc
        rw [List.mem_map] at hm
        obtain ⟨u, hu, e⟩ := hm
        have := hsound st.U v w ho u hu
        rw [e] at this
        exact lt_irrefl _ this
      rw [if_neg hnot]

example : WFin 2 2 (fun _ => [#[0, 1], #[1, 0]]) (crossTo 2 2 (fun _ => [#[0, 1], #[1, 0]])) (wInit 2) := by
  constructor <;> simp [wInit]


/-- the shipped loop (no guard) with an LP that reports a witness where there is none (noise): one projection per observation, the default
    entry is examined, "improved" by itself, and examined again — for ever.  (The C++ instance is harness case 8.) -/
theorem witness_shipped_loops_counterexample :
    ∃ (P : Nat → List Vec) (oracle : List Vec → Vec → Option Vec) (best : Vec → Choice),
      ∀ f, (wLoopG false 1 1 P oracle best f (wInit 1)).agenda ≠ [] := by
  refine ⟨fun _ => [#[1]], fun _ _ => some #[1], fun _ => [0], ?_⟩
  have hstep : ∀ st : WState, st.agenda = [[0]] → [0] ∈ st.tried →
      (wStepG false 1 1 (fun _ => [#[1]]) (fun _ _ => some #[1]) (fun _ => [0]) st).agenda = [[0]] ∧
      [0] ∈ (wStepG false 1 1 (fun _ => [#[1]]) (fun _ _ => some #[1]) (fun _ => [0]) st).tried := by
    intro st hag htr
    unfold wStepG
    rw [hag]
    simp only [Bool.false_and, Bool.false_eq_true, if_false]
    have hv : allVars 1 (fun _ => [#[1]]) [0] = [] := by decide
    rw [hv]
    simp [addVars, htr]
  have hloop : ∀ f (st : WState), st.agenda = [[0]] → [0] ∈ st.tried →
      (wLoopG false 1 1 (fun _ => [#[1]]) (fun _ _ => some #[1]) (fun _ => [0]) f st).agenda = [[0]] := by
    intro f
    induction f with
    | zero => intro st h _; exact h
    | succ f ih =>
      intro st h ht
      simp only [wLoopG]
      exact ih _ (hstep st h ht).1 (hstep st h ht).2
  intro f
  rw [hloop f (wInit 1) (by simp [wInit]) (by simp [wInit])]
  simp


/-- the Witness loop for the code as it is NOW (`witnessSkipsKnownVector` is read from Witness.hpp on every run): once the repair is in the
    source, the per-action loop terminates for any LP answer -/
theorem witness_loop_as_extracted (n k : Nat) (P : Nat → List Vec) (pool : List Vec)
    (oracle : List Vec → Vec → Option Vec) (best : Vec → Choice) (hbest : ∀ w, choiceSum n k P (best w) ∈ pool)
    (hsrc : AITB.Gen.C02.witnessSkipsKnownVector = true) (st : WState) (hfin : WFin n k P pool st) :
    ∃ f, (wLoopG AITB.Gen.C02.witnessSkipsKnownVector n k P oracle best f st).agenda = [] := by
  rw [hsrc]; exact witness_repaired_terminates n k P pool oracle best hbest st hfin

/-! ## (5) the tie: statements the round-3 model hard-codes, as located in the source on this run -/

/-- the ten statements of the outer loop (found, in order, in all three solvers' `operator()`), the nine of `weakBoundDistance`, the
    fifteen of LinearSupport's loop (incl. `VertexComparator`), the twenty-two of Witness' per-action loop and `addVariations`, and the exact
    forms of the helpers one level down (Core.hpp comparisons, `veccmp`, `findBestAtPoint`'s tie-break, `crossSumBestAtBelief`) are the
    ones the model copies (test on generated literals; the generator raises when a statement is missing, reordered or reworded) -/
theorem sites3_match_model :
    AITB.Gen.C02.outerLoopSites = ["makeVF", "timestep0", "useTolerance", "variation2tol", "while", "inc", "projectPrev", "emplace", "wbd", "ret"] ∧
    AITB.Gen.C02.wbdSites = ["emptyOld0", "dist0", "forNew", "closestInf", "forOld", "maxAbsDiff", "min", "max", "ret"] ∧
    AITB.Gen.C02.lsLoopSites = ["cornerSupports", "pushIfInserted", "verticesOfGood", "skipTried", "supportAtVertex", "currentValue", "diff", "acceptTest", "markTried", "breakIfEmpty", "popTop", "obsoleteTest", "verticesOfNew", "pushBest", "errorLess"] ∧
    AITB.Gen.C02.witnessLoopSites = ["reserveMax", "clearU", "lpReset", "clearAgenda", "clearTried", "counter0", "allocate", "defaultEntry", "while", "findWitnessBack", "bestAtWitness", "addRow", "addVariations", "doubleReserve", "popIfNone", "defaultTried", "skipIdx", "skipSame", "skipTried", "markTried", "variationValues", "restore"] ∧
    AITB.Gen.C02.helperForms = ["checkEqualSmall", "checkDifferentSmall", "checkEqualGeneral", "checkDifferentGeneral", "veccmp", "findBestAtPointTie", "crossSumBestAtBelief"] := by decide

end AITB.POMDP
