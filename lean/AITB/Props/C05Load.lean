/-
  AITB.Props.C05Load — C05, round 3: the code the belief helpers rely on one level down.

  * `POMDP::SparseModel::getObservationProbability(const Belief&, o, a)` (anchored file, the library's own
    `P(o | b, a)`): its zero-skipping double loop is the textbook `probO`, hence the sum of the
    unnormalised update (`obsProbB_eq_probO`, `obsProbB_eq_sum_unnorm`).
  * `isProbability` in its three forms (templated row loop with early return, dense Eigen row, sparse
    Eigen row): what exactly each accepts (`isProbRow_iff`, `isProbRowE_eq`, `isProbRowSp_iff`,
    `isProbRowSp_neg_bound`, `isProbRowSp_accepts_negative`).
  * the models the table constructors accept (`acceptDense_iff`, `acceptSparse_sound`): non-negative tables
    whose rows sum to one only within `equalToleranceSmall`.  For THOSE models (not only for exact POMDPs)
    the posterior clauses hold exactly (`posterior_is_bayes_accepted`) and the distribution clauses hold
    within the tolerance (`sum_over_o_scaled`, `sum_over_o_within_tol`, `predict_sum_within_tol`,
    `probO_sum_within_tol`).
  * the default-constructed model (`default_valid`, `default_update`).
-/
import AITB.Props.C05
namespace AITB.Belief

/-! ## absolute value -/

theorem absQ_eq_abs (q : Rat) : absQ q = |q| := by
  unfold absQ
  split
  · rename_i h; exact (abs_of_neg h).symm
  · rename_i h; exact (abs_of_nonneg (not_lt.mp h)).symm

theorem absQ_le_iff {q t : Rat} : absQ q ≤ t ↔ -t ≤ q ∧ q ≤ t := by
  rw [absQ_eq_abs]; exact abs_le

theorem absQ_nonneg (q : Rat) : 0 ≤ absQ q := by rw [absQ_eq_abs]; exact abs_nonneg q

theorem le_absQ (q : Rat) : q ≤ absQ q := by rw [absQ_eq_abs]; exact le_abs_self q

/-! ## the library's own `P(o | b, a)` -/

theorem obsProbLoop_eq (m : POMDP) (b : Vec) (a o : Nat) : ∀ n,
    obsProbLoop m b a o n = sumTo n (fun s => b s * sumTo m.S (fun s1 => m.T s a s1 * m.Ob s1 a o))
  | 0 => rfl
  | n+1 => by
    simp only [obsProbLoop, sumTo]
    split
    · rename_i h; rw [obsProbLoop_eq m b a o n, h, zero_mul, add_zero]
    · rw [addTo_eq, obsProbLoop_eq m b a o n]
      congr 1
      rw [← sumTo_mul_left]
      apply sumTo_congr
      intro s1 _
      ring

/-- `SparseModel::getObservationProbability(b, o, a)` (rows of zero belief skipped, one accumulator) is the
    textbook `P(o | b, a)`, for every model and every vector `b` -/
theorem obsProbB_eq_probO (m : POMDP) (b : Vec) (a o : Nat) : obsProbB m b a o = probO m b a o :=
  obsProbLoop_eq m b a o m.S

/-- … and therefore the normaliser of `updateBelief`: the sum of `updateBeliefUnnormalized` -/
theorem obsProbB_eq_sum_unnorm (m : POMDP) (b : Vec) (a o : Nat) :
    obsProbB m b a o = sumTo m.S (unnormG m b a o) := by
  rw [obsProbB_eq_probO, unnorm_sum_eq_prob_o]

/-! ## `isProbability` -/

/-- the early-return loop either saw only non-negative entries and holds their sum, or stopped at a negative one -/
theorem isProbLoop_spec (row : Nat → Rat) : ∀ n,
    (isProbLoop row n = some (sumTo n row) ∧ ∀ i, i < n → 0 ≤ row i) ∨
    (isProbLoop row n = none ∧ ∃ i, i < n ∧ row i < 0)
  | 0 => Or.inl ⟨rfl, fun i hi => absurd hi (Nat.not_lt_zero i)⟩
  | n+1 => by
    rcases isProbLoop_spec row n with ⟨h, hn⟩ | ⟨h, i, hi, hneg⟩
    · by_cases hr : row n < 0
      · right
        refine ⟨?_, n, Nat.lt_succ_self n, hr⟩
        simp only [isProbLoop, h, hr, if_true]
      · left
        refine ⟨?_, ?_⟩
        · simp only [isProbLoop, h, hr, if_false, sumTo]
        · intro i hi
          rcases Nat.lt_succ_iff_lt_or_eq.mp hi with h1 | h1
          · exact hn i h1
          · subst h1; exact not_lt.mp hr
    · right
      refine ⟨?_, i, Nat.lt_succ_of_lt hi, hneg⟩
      simp only [isProbLoop, h]

/-- `isProbability(size, in)` accepts exactly the rows with non-negative entries whose sum is within the tolerance of one
    (NOT: entries at most one, NOT: sum exactly one) -/
theorem isProbRow_iff (tol : Rat) (n : Nat) (row : Nat → Rat) :
    isProbRow tol n row = true ↔ (∀ i, i < n → 0 ≤ row i) ∧ absQ (sumTo n row - 1) ≤ tol := by
  unfold isProbRow diffSmall eqSmall
  rcases isProbLoop_spec row n with ⟨h, hn⟩ | ⟨h, i, hi, hneg⟩
  · rw [h]
    simp only [Bool.not_not, decide_eq_true_eq]
    exact ⟨fun hs => ⟨hn, hs⟩, fun hs => hs.2⟩
  · rw [h]
    constructor
    · intro hf; exact absurd hf (by simp)
    · intro hs; exact absurd (hs.1 i hi) (not_le.mpr hneg)

theorem any_neg_iff (n : Nat) (row : Nat → Rat) :
    (List.range n).any (fun i => decide (row i < 0)) = true ↔ ∃ i, i < n ∧ row i < 0 := by
  rw [List.any_eq_true]
  constructor
  · rintro ⟨i, hi, h⟩; exact ⟨i, List.mem_range.mp hi, of_decide_eq_true h⟩
  · rintro ⟨i, hi, h⟩; exact ⟨i, List.mem_range.mpr hi, decide_eq_true h⟩

/-- the dense-matrix form (`minCoeff() < 0 || checkDifferentSmall(sum, 1)`) accepts the same rows as the templated loop -/
theorem isProbRowE_eq (tol : Rat) (n : Nat) (row : Nat → Rat) : isProbRowE tol n row = isProbRow tol n row := by
  rw [Bool.eq_iff_iff, isProbRow_iff]
  unfold isProbRowE diffSmall eqSmall
  rw [Bool.not_eq_true', Bool.or_eq_false_iff]
  constructor
  · rintro ⟨h1, h2⟩
    refine ⟨fun i hi => ?_, ?_⟩
    · by_contra hneg
      have : (List.range n).any (fun i => decide (row i < 0)) = true :=
        (any_neg_iff n row).mpr ⟨i, hi, not_le.mp hneg⟩
      rw [h1] at this; exact absurd this (by simp)
    · simpa using h2
  · rintro ⟨h1, h2⟩
    refine ⟨?_, by simpa using h2⟩
    rw [Bool.eq_false_iff]
    intro h
    obtain ⟨i, hi, hneg⟩ := (any_neg_iff n row).mp h
    exact absurd (h1 i hi) (not_le.mpr hneg)

/-- the sparse-matrix form tests the sum and the sum of absolute values (Eigen sparse has no `minCoeff`) -/
theorem isProbRowSp_iff (tol : Rat) (n : Nat) (row : Nat → Rat) :
    isProbRowSp tol n row = true ↔
      absQ (sumTo n row - 1) ≤ tol ∧ absQ (sumTo n (fun i => absQ (row i)) - 1) ≤ tol := by
  unfold isProbRowSp diffSmall eqSmall
  simp

/-- on rows without negative entries the sparse form accepts exactly what the other two accept -/
theorem isProbRowSp_of_nonneg {tol : Rat} {n : Nat} {row : Nat → Rat} (h : ∀ i, i < n → 0 ≤ row i) :
    isProbRowSp tol n row = isProbRow tol n row := by
  have e : sumTo n (fun i => absQ (row i)) = sumTo n row :=
    sumTo_congr (fun i hi => by rw [absQ_eq_abs, abs_of_nonneg (h i hi)])
  rw [Bool.eq_iff_iff, isProbRow_iff, isProbRowSp_iff, e]
  exact ⟨fun hs => ⟨h, hs.1⟩, fun hs => ⟨hs.2, hs.2⟩⟩

/-- … but it does let slightly negative entries through: all it guarantees is `row i ≥ -tol` -/
theorem isProbRowSp_neg_bound {tol : Rat} {n : Nat} {row : Nat → Rat} (h : isProbRowSp tol n row = true)
    {i : Nat} (hi : i < n) : -tol ≤ row i := by
  obtain ⟨h1, h2⟩ := (isProbRowSp_iff tol n row).mp h
  obtain ⟨h1l, _⟩ := absQ_le_iff.mp h1
  obtain ⟨_, h2u⟩ := absQ_le_iff.mp h2
  have hd : sumTo n (fun k => absQ (row k) - row k) = sumTo n (fun k => absQ (row k)) - sumTo n row := by
    have : (fun k => absQ (row k) - row k) = (fun k => absQ (row k) + (-1) * row k) := by funext k; ring
    rw [this, sumTo_add, sumTo_mul_left]; ring
  have hle := le_sumTo_of_nonneg (f := fun k => absQ (row k) - row k)
    (fun k _ => by have := le_absQ (row k); linarith) hi
  have hle : absQ (row i) - row i ≤ sumTo n (fun k => absQ (row k)) - sumTo n row := by rw [← hd]; exact hle
  by_cases hr : row i < 0
  · have : absQ (row i) = - row i := by unfold absQ; rw [if_pos hr]
    rw [this] at hle
    linarith
  · have h0 : 0 ≤ row i := not_lt.mp hr
    have : 0 ≤ tol := le_trans (absQ_nonneg _) h1
    linarith

/-- witness: the row `(-1/4000000, 1 + 1/4000000)` passes `isProbability(const SparseMatrix2D &)` at the library's tolerance
    (a `SparseMatrix3D` handed to `setObservationFunction` / `setTransitionFunction` is validated with this form only) -/
theorem isProbRowSp_accepts_negative :
    isProbRowSp (1/1000000) 2 (fun i => if i = 0 then -(1/4000000) else 1 + 1/4000000) = true ∧
    isProbRow (1/1000000) 2 (fun i => if i = 0 then -(1/4000000) else 1 + 1/4000000) = false := by
  constructor
  · rw [isProbRowSp_iff]
    norm_num [sumTo, absQ]
  · rw [Bool.eq_false_iff, Ne, isProbRow_iff]
    intro h
    have := h.1 0 (by norm_num)
    norm_num at this

/-- FULL-STRENGTH statement for the sparse validator, true of the repaired code (fixes/C05-2-sparse-isprobability-sign.diff):
    it accepts exactly the rows the dense validators accept.  For the code as it stands only `isProbRowSp_neg_bound` holds
    (`isProbRowSp_accepts_negative` is the counterexample to this statement for `isProbRowSp`). -/
theorem isProbRowSpSigned_eq (tol : Rat) (n : Nat) (row : Nat → Rat) : isProbRowSpSigned tol n row = isProbRow tol n row := by
  rw [← isProbRowE_eq]
  unfold isProbRowSpSigned isProbRowE
  rw [Bool.not_or]

/-! ## the models the constructors accept -/

/-- what passing the constructors' checks establishes: non-negative tables, rows within `tol` of one -/
structure AcceptedModel (tol : Rat) (m : POMDP) : Prop extends NonnegModel m where
  T_sum : ∀ s a, s < m.S → a < m.A → absQ (sumTo m.S (fun s1 => m.T s a s1) - 1) ≤ tol
  O_sum : ∀ s1 a, s1 < m.S → a < m.A → absQ (sumTo m.O (fun o => m.Ob s1 a o) - 1) ≤ tol

theorem ValidModel.accepted {m : POMDP} (hm : ValidModel m) {tol : Rat} (htol : 0 ≤ tol) : AcceptedModel tol m :=
  ⟨hm.toNonnegModel,
   fun s a hs ha => by rw [hm.T_sum s a hs ha]; simpa [absQ] using htol,
   fun s1 a hs1 ha => by rw [hm.O_sum s1 a hs1 ha]; simpa [absQ] using htol⟩

/-- `POMDP::Model(o, of, s, a, t, r, d)` constructs (does not throw) exactly for the `AcceptedModel`s -/
theorem acceptDense_iff (tol : Rat) (m : POMDP) : acceptDense tol m = true ↔ AcceptedModel tol m := by
  unfold acceptDense
  rw [Bool.and_eq_true, allLt_iff, allLt_iff]
  constructor
  · rintro ⟨hT, hO⟩
    have hT' : ∀ s a, s < m.S → a < m.A → _ := fun s a hs ha =>
      (isProbRow_iff tol m.S _).mp (allLt_iff.mp (hT s hs) a ha)
    have hO' : ∀ s1 a, s1 < m.S → a < m.A → _ := fun s1 a hs1 ha =>
      (isProbRow_iff tol m.O _).mp (allLt_iff.mp (hO s1 hs1) a ha)
    exact ⟨⟨fun s a s1 hs ha hs1 => (hT' s a hs ha).1 s1 hs1, fun s1 a o hs1 ha ho => (hO' s1 a hs1 ha).1 o ho⟩,
           fun s a hs ha => (hT' s a hs ha).2, fun s1 a hs1 ha => (hO' s1 a hs1 ha).2⟩
  · intro hm
    refine ⟨fun s hs => allLt_iff.mpr (fun a ha => (isProbRow_iff tol m.S _).mpr ?_),
            fun s1 hs1 => allLt_iff.mpr (fun a ha => (isProbRow_iff tol m.O _).mpr ?_)⟩
    · exact ⟨fun s1 hs1 => hm.T_nonneg s a s1 hs ha hs1, hm.T_sum s a hs ha⟩
    · exact ⟨fun o ho => hm.O_nonneg s1 a o hs1 ha ho, hm.O_sum s1 a hs1 ha⟩

/-- `POMDP::SparseModel(o, of, s, a, t, r, d)` constructs only if the supplied tables AND the tables it stores
    (sub-threshold entries dropped, nothing rescaled) are accepted models -/
theorem acceptSparse_sound {tol : Rat} (htol : 0 ≤ tol) {m : POMDP} (h : acceptSparse tol m = true) :
    AcceptedModel tol m ∧ AcceptedModel tol (sparsify tol m) := by
  unfold acceptSparse at h
  rw [Bool.and_eq_true, Bool.and_eq_true] at h
  obtain ⟨⟨hd, hT⟩, hO⟩ := h
  have hm := (acceptDense_iff tol m).mp hd
  refine ⟨hm, sparsify_nonneg hm.toNonnegModel htol, ?_, ?_⟩
  · intro s a hs ha
    exact ((isProbRowSp_iff tol m.S _).mp (allLt_iff.mp (allLt_iff.mp hT a ha) s hs)).1
  · intro s1 a hs1 ha
    exact ((isProbRowSp_iff tol m.O _).mp (allLt_iff.mp (allLt_iff.mp hO a ha) s1 hs1)).1

/-- what a SparseModel's Eigen-matrix setters accept is an `AcceptedModel` once the sign test is there … -/
theorem sparse_setters_sound_signed {tol : Rat} {m : POMDP}
    (hT : ∀ s a, s < m.S → a < m.A → isProbRowSpAs true tol m.S (fun s1 => m.T s a s1) = true)
    (hO : ∀ s1 a, s1 < m.S → a < m.A → isProbRowSpAs true tol m.O (fun o => m.Ob s1 a o) = true) :
    AcceptedModel tol m := by
  have hT' := fun s a hs ha => (isProbRow_iff tol m.S _).mp (by rw [← isProbRowSpSigned_eq]; exact hT s a hs ha)
  have hO' := fun s1 a hs1 ha => (isProbRow_iff tol m.O _).mp (by rw [← isProbRowSpSigned_eq]; exact hO s1 a hs1 ha)
  exact ⟨⟨fun s a s1 hs ha hs1 => (hT' s a hs ha).1 s1 hs1, fun s1 a o hs1 ha ho => (hO' s1 a hs1 ha).1 o ho⟩,
         fun s a hs ha => (hT' s a hs ha).2, fun s1 a hs1 ha => (hO' s1 a hs1 ha).2⟩

/-- … and is NOT one as the code stands: a model every row of which passes the unsigned sparse test, on which `updateBelief`
    (belief (1/2, 1/2), an observation of positive probability) returns a negative entry.  Witness of finding C05-2. -/
def exNeg : POMDP :=
  { S := 2, A := 1, O := 2,
    T := fun s _ s1 => if s = s1 then 1 else 0,
    Ob := fun s1 _ o => ofList2 2 [-(1/4194304), 1 + 1/4194304, 1, 0] s1 o,
    R := fun _ _ _ => 0 }

theorem sparse_setters_unsigned_counterexample :
    (∀ s, s < 2 → isProbRowSpAs false (1/1000000) 2 (fun s1 => exNeg.T s 0 s1) = true) ∧
    (∀ s1, s1 < 2 → isProbRowSpAs false (1/1000000) 2 (fun o => exNeg.Ob s1 0 o) = true) ∧
    0 < probO exNeg (ofList [1/2, 1/2]) 0 0 ∧
    updateG exNeg (ofList [1/2, 1/2]) 0 0 0 < 0 := by
  refine ⟨?_, ?_, ?_, ?_⟩
  · intro s hs
    show isProbRowSp _ _ _ = true
    rw [isProbRowSp_iff]
    interval_cases s <;> norm_num [exNeg, sumTo, absQ]
  · intro s1 hs1
    show isProbRowSp _ _ _ = true
    rw [isProbRowSp_iff]
    interval_cases s1 <;> norm_num [exNeg, ofList2, sumTo, absQ]
  · norm_num [probO, exNeg, ofList, ofList2, sumTo]
  · norm_num [updateG, normalize, unnormG, exNeg, ofList, ofList2, sumTo]

theorem absQ_sub_comm (a b : Rat) : absQ (a - b) = absQ (b - a) := by
  rw [absQ_eq_abs, absQ_eq_abs, abs_sub_comm]

theorem convRowSp_iff (tol : Rat) (n : Nat) (row : Nat → Rat) :
    convRowSp tol n row = true ↔
      (∀ i, i < n → 0 ≤ row i ∧ row i ≤ 1) ∧ absQ (sumTo n (fun i => keep tol (row i)) - 1) ≤ tol := by
  unfold convRowSp diffSmall eqSmall
  rw [Bool.and_eq_true, allLt_iff, absQ_sub_comm]
  simp only [Bool.not_not, decide_eq_true_eq, Bool.not_eq_true', Bool.or_eq_false_iff, decide_eq_false_iff_not, not_lt]

/-- the converting constructors `SparseModel(const M&)` construct only if what they store is an accepted model -/
theorem acceptSparseConv_sound {tol : Rat} (htol : 0 ≤ tol) {m : POMDP} (h : acceptSparseConv tol m = true) :
    AcceptedModel tol (sparsify tol m) := by
  unfold acceptSparseConv at h
  rw [Bool.and_eq_true, allLt_iff, allLt_iff] at h
  obtain ⟨hT, hO⟩ := h
  have hT' := fun s a (hs : s < m.S) (ha : a < m.A) => (convRowSp_iff tol m.S _).mp (allLt_iff.mp (hT s hs) a ha)
  have hO' := fun s1 a (hs1 : s1 < m.S) (ha : a < m.A) => (convRowSp_iff tol m.O _).mp (allLt_iff.mp (hO a ha) s1 hs1)
  have hn : NonnegModel m := ⟨fun s a s1 hs ha hs1 => ((hT' s a hs ha).1 s1 hs1).1, fun s1 a o hs1 ha ho => ((hO' s1 a hs1 ha).1 o ho).1⟩
  exact ⟨sparsify_nonneg hn htol, fun s a hs ha => (hT' s a hs ha).2, fun s1 a hs1 ha => (hO' s1 a hs1 ha).2⟩

/-! ## the property's clauses on accepted models -/

/-- EXACT identity behind "over all observations it adds up to the prediction", for ANY tables: the sum over `o` of the
    unnormalised updates is the prediction scaled by the observation row sum (the driver's `sum_over_o_not_predict` clause) -/
theorem sum_over_o_scaled (m : POMDP) (b : Vec) (a s1 : Nat) :
    sumTo m.O (fun o => unnormG m b a o s1) = sumTo m.O (fun o => m.Ob s1 a o) * predictG m b a s1 := by
  unfold unnormG predictG
  rw [sumTo_mul_right]

/-- on every model the constructors accept, the sum over observations is within `tol·prediction` of the prediction -/
theorem sum_over_o_within_tol {tol : Rat} {m : POMDP} (hm : AcceptedModel tol m) {b : Vec}
    (hb : ∀ s, s < m.S → 0 ≤ b s) {a : Nat} (ha : a < m.A) {s1 : Nat} (hs1 : s1 < m.S) :
    absQ (sumTo m.O (fun o => unnormG m b a o s1) - predictG m b a s1) ≤ tol * predictG m b a s1 := by
  rw [sum_over_o_scaled]
  have hp := predict_nonneg hm.toNonnegModel hb ha s1 hs1
  obtain ⟨hl, hu⟩ := absQ_le_iff.mp (hm.O_sum s1 a hs1 ha)
  rw [absQ_le_iff]
  constructor <;> nlinarith

/-- the prediction of a belief sums to one within `tol` -/
theorem predict_sum_within_tol {tol : Rat} {m : POMDP} (hm : AcceptedModel tol m) {b : Vec} (hb : IsBelief m.S b)
    {a : Nat} (ha : a < m.A) : absQ (sumTo m.S (predictG m b a) - 1) ≤ tol := by
  unfold predictG
  rw [sumTo_comm]
  have e : ∀ s, s < m.S → sumTo m.S (fun s1 => m.T s a s1 * b s) = sumTo m.S (fun s1 => m.T s a s1) * b s :=
    fun s _ => sumTo_mul_right _ _ _
  rw [sumTo_congr e]
  have hlo : sumTo m.S (fun s => (1 - tol) * b s) ≤ sumTo m.S (fun s => sumTo m.S (fun s1 => m.T s a s1) * b s) :=
    sumTo_le_sumTo (fun s hs => mul_le_mul_of_nonneg_right
      (by have := (absQ_le_iff.mp (hm.T_sum s a hs ha)).1; linarith) (hb.nonneg s hs))
  have hhi : sumTo m.S (fun s => sumTo m.S (fun s1 => m.T s a s1) * b s) ≤ sumTo m.S (fun s => (1 + tol) * b s) :=
    sumTo_le_sumTo (fun s hs => mul_le_mul_of_nonneg_right
      (by have := (absQ_le_iff.mp (hm.T_sum s a hs ha)).2; linarith) (hb.nonneg s hs))
  rw [sumTo_mul_left, hb.sum_one] at hlo hhi
  rw [absQ_le_iff]
  constructor <;> linarith

/-- `Σ_o P(o | b, a)` is within `(1+tol)² − 1` of one -/
theorem probO_sum_within_tol {tol : Rat} (htol1 : tol ≤ 1) {m : POMDP} (hm : AcceptedModel tol m) {b : Vec}
    (hb : IsBelief m.S b) {a : Nat} (ha : a < m.A) :
    absQ (sumTo m.O (fun o => probO m b a o) - 1) ≤ 2 * tol + tol * tol := by
  have e : sumTo m.O (fun o => probO m b a o)
      = sumTo m.S (fun s1 => sumTo m.O (fun o => m.Ob s1 a o) * predictG m b a s1) := by
    have : (fun o => probO m b a o) = (fun o => sumTo m.S (fun s1 => unnormG m b a o s1)) := by
      funext o; exact (unnorm_sum_eq_prob_o m b a o).symm
    rw [this, sumTo_comm]
    exact sumTo_congr (fun s1 _ => sum_over_o_scaled m b a s1)
  rw [e]
  have hp := predict_nonneg hm.toNonnegModel hb.nonneg ha
  obtain ⟨pl, pu⟩ := absQ_le_iff.mp (predict_sum_within_tol hm hb ha)
  have hlo : sumTo m.S (fun s1 => (1 - tol) * predictG m b a s1)
      ≤ sumTo m.S (fun s1 => sumTo m.O (fun o => m.Ob s1 a o) * predictG m b a s1) :=
    sumTo_le_sumTo (fun s1 hs1 => mul_le_mul_of_nonneg_right
      (by have := (absQ_le_iff.mp (hm.O_sum s1 a hs1 ha)).1; linarith) (hp s1 hs1))
  have hhi : sumTo m.S (fun s1 => sumTo m.O (fun o => m.Ob s1 a o) * predictG m b a s1)
      ≤ sumTo m.S (fun s1 => (1 + tol) * predictG m b a s1) :=
    sumTo_le_sumTo (fun s1 hs1 => mul_le_mul_of_nonneg_right
      (by have := (absQ_le_iff.mp (hm.O_sum s1 a hs1 ha)).2; linarith) (hp s1 hs1))
  rw [sumTo_mul_left] at hlo hhi
  have htol0 : 0 ≤ tol := le_trans (absQ_nonneg _) (predict_sum_within_tol hm hb ha)
  rw [absQ_le_iff]
  constructor <;> nlinarith

/-- C05 main clause on EVERY model the dense or sparse constructors accept (rows only approximately stochastic, or with
    dropped entries): the normalised update is non-negative, sums to exactly one, and is weight / P(o | b, a),
    where P(o | b, a) is also what `getObservationProbability(b, o, a)` returns -/
theorem posterior_is_bayes_accepted {tol : Rat} {m : POMDP} (hm : AcceptedModel tol m)
    {b : Vec} (hb : ∀ s, s < m.S → 0 ≤ b s) {a o : Nat} (ha : a < m.A) (ho : o < m.O)
    (hpos : 0 < obsProbB m b a o) :
    (∀ s1, s1 < m.S → 0 ≤ updateG m b a o s1) ∧
    sumTo m.S (updateG m b a o) = 1 ∧
    (∀ s1, updateG m b a o s1 = weight m b a o s1 / obsProbB m b a o) := by
  rw [obsProbB_eq_probO] at hpos ⊢
  have h := posterior_is_bayes hm.toNonnegModel (b := b) hb (a := a) (o := o) ha ho hpos
  exact ⟨h.1, h.2.1, h.2.2.1⟩

/-! ## the default-constructed model -/

theorem default_valid (S A : Nat) {O : Nat} (hO : 0 < O) : ValidModel (defaultModel S A O) := by
  refine ⟨⟨?_, ?_⟩, ?_, ?_⟩
  · intro s a s1 _ _ _; unfold defaultModel; simp only; split <;> norm_num
  · intro s1 a o _ _ _; unfold defaultModel; simp only; split <;> norm_num
  · intro s a hs _
    unfold defaultModel; simp only
    have := sumTo_delta S s (fun _ => (1 : Rat))
    have e : (fun s1 => if s = s1 then (1 : Rat) else 0) = (fun k => if k = s then (1 : Rat) else 0) := by
      funext k; by_cases h : s = k
      · subst h; simp
      · have : ¬ k = s := fun h' => h h'.symm
        simp [h, this]
    have hs' : s < S := hs
    rw [e, this, if_pos hs']
  · intro s1 a _ _
    unfold defaultModel; simp only
    have := sumTo_delta O 0 (fun _ => (1 : Rat))
    rw [this, if_pos hO]

/-- on a default-constructed model (identity transitions, observation 0 certain) observing 0 leaves any vector unchanged
    and every other observation has weight zero -/
theorem default_update (S A O : Nat) (b : Vec) (a : Nat) {s1 : Nat} (hs1 : s1 < S) :
    unnormG (defaultModel S A O) b a 0 s1 = b s1 ∧ ∀ o, 0 < o → unnormG (defaultModel S A O) b a o s1 = 0 := by
  have hp : sumTo S (fun s => (if s = s1 then (1 : Rat) else 0) * b s) = b s1 := by
    have e : (fun s => (if s = s1 then (1 : Rat) else 0) * b s) = (fun s => if s = s1 then b s else 0) := by
      funext s; split <;> simp
    rw [e, sumTo_delta, if_pos hs1]
  constructor
  · unfold unnormG defaultModel; simp only [if_true, one_mul]; exact hp
  · intro o ho
    unfold unnormG defaultModel
    have : ¬ o = 0 := by omega
    simp only [this, if_false, zero_mul]

/-! ## sparse storage on accepted models, and sparse kernels over any storage pattern -/

/-- `sparse_within_two_tol` for every model the constructors accept (rows within `t` of one, not exactly one):
    dense minus sparse unnormalised update lies in `[0, 2·tol·(1+t)]` per entry -/
theorem sparse_within_two_tol_accepted {tol t : Rat} {m : POMDP} (hm : AcceptedModel t m) {b : Vec} (hb : IsBelief m.S b)
    (htol0 : 0 ≤ tol) {a o : Nat} (ha : a < m.A) (ho : o < m.O) {s1 : Nat} (hs1 : s1 < m.S) :
    0 ≤ unnormG m b a o s1 - unnormG (sparsify tol m) b a o s1 ∧
    unnormG m b a o s1 - unnormG (sparsify tol m) b a o s1 ≤ 2 * tol * (1 + t) := by
  have ht0 : 0 ≤ t := le_trans (absQ_nonneg _) (hm.T_sum s1 a hs1 ha)
  unfold unnormG sparsify
  simp only
  set P := sumTo m.S (fun s => m.T s a s1 * b s)
  set P' := sumTo m.S (fun s => keep tol (m.T s a s1) * b s)
  have hT := fun s (hs : s < m.S) => keep_bounds htol0 (hm.T_nonneg s a s1 hs ha hs1)
  have hO := keep_bounds htol0 (hm.O_nonneg s1 a o hs1 ha ho)
  have hP'0 : 0 ≤ P' := sumTo_nonneg (fun s hs => mul_nonneg (hT s hs).1 (hb.nonneg s hs))
  have hP'P : P' ≤ P := sumTo_le_sumTo (fun s hs => mul_le_mul_of_nonneg_right (hT s hs).2.1 (hb.nonneg s hs))
  have hT1 : ∀ s, s < m.S → m.T s a s1 ≤ 1 + t := by
    intro s hs
    have h1 : m.T s a s1 ≤ sumTo m.S (fun k => m.T s a k) :=
      le_sumTo_of_nonneg (f := fun k => m.T s a k) (fun k hk => hm.T_nonneg s a k hs ha hk) hs1
    have h2 := (absQ_le_iff.mp (hm.T_sum s a hs ha)).2
    linarith
  have hP1 : P ≤ 1 + t := by
    have : P ≤ sumTo m.S (fun s => (1 + t) * b s) := sumTo_le_sumTo (fun s hs =>
      mul_le_mul_of_nonneg_right (hT1 s hs) (hb.nonneg s hs))
    rw [sumTo_mul_left, hb.sum_one, mul_one] at this; exact this
  have hdP : P - P' ≤ tol := by
    have e : P - P' = sumTo m.S (fun s => (m.T s a s1 - keep tol (m.T s a s1)) * b s) := by
      have : (fun s => (m.T s a s1 - keep tol (m.T s a s1)) * b s)
          = (fun s => m.T s a s1 * b s + (-1) * (keep tol (m.T s a s1) * b s)) := by funext s; ring
      rw [this, sumTo_add, sumTo_mul_left]; ring
    rw [e]
    have : sumTo m.S (fun s => (m.T s a s1 - keep tol (m.T s a s1)) * b s) ≤ sumTo m.S (fun s => tol * b s) :=
      sumTo_le_sumTo (fun s hs => mul_le_mul_of_nonneg_right (hT s hs).2.2 (hb.nonneg s hs))
    rw [sumTo_mul_left, hb.sum_one, mul_one] at this; exact this
  have hO1 : m.Ob s1 a o ≤ 1 + t := by
    have h1 : m.Ob s1 a o ≤ sumTo m.O (fun k => m.Ob s1 a k) :=
      le_sumTo_of_nonneg (f := fun k => m.Ob s1 a k) (fun k hk => hm.O_nonneg s1 a k hs1 ha hk) ho
    have h2 := (absQ_le_iff.mp (hm.O_sum s1 a hs1 ha)).2
    linarith
  have hP0 : 0 ≤ P := le_trans hP'0 hP'P
  obtain ⟨hk0, hkO, hdO⟩ := hO
  have e : m.Ob s1 a o * P - keep tol (m.Ob s1 a o) * P'
      = (m.Ob s1 a o - keep tol (m.Ob s1 a o)) * P + keep tol (m.Ob s1 a o) * (P - P') := by ring
  rw [e]
  have hdP0 : 0 ≤ P - P' := by linarith
  have hdO0 : 0 ≤ m.Ob s1 a o - keep tol (m.Ob s1 a o) := by linarith
  constructor
  · exact add_nonneg (mul_nonneg hdO0 hP0) (mul_nonneg hk0 hdP0)
  · have h1 : (m.Ob s1 a o - keep tol (m.Ob s1 a o)) * P ≤ tol * (1 + t) := mul_le_mul hdO hP1 hP0 htol0
    have h2 : keep tol (m.Ob s1 a o) * (P - P') ≤ (1 + t) * tol :=
      mul_le_mul (le_trans hkO hO1) hdP hdP0 (by linarith)
    linarith

theorem sumTo_const (n : Nat) (c : Rat) : sumTo n (fun _ => c) = (n : Rat) * c := by
  induction n with
  | zero => simp [sumTo]
  | succ n ih => simp only [sumTo, ih]; push_cast; ring

/-- normalising two non-negative vectors that differ entrywise by at most `δ` (the smaller one with positive sum):
    the normalised entries differ by at most `S·δ / Σw` -/
theorem normalize_close {S : Nat} {w w' : Vec} {δ : Rat} (hw' : ∀ i, i < S → 0 ≤ w' i)
    (hd : ∀ i, i < S → 0 ≤ w i - w' i ∧ w i - w' i ≤ δ) (hP' : 0 < sumTo S w') {i : Nat} (hi : i < S) :
    absQ (normalize S w i - normalize S w' i) ≤ (S : Rat) * δ / sumTo S w := by
  set P := sumTo S w
  set P' := sumTo S w'
  have hδ : 0 ≤ δ := le_trans (hd i hi).1 (hd i hi).2
  have hsub : P - P' = sumTo S (fun k => w k - w' k) := by
    have : (fun k => w k - w' k) = (fun k => w k + (-1) * w' k) := by funext k; ring
    rw [this, sumTo_add, sumTo_mul_left]; ring
  have hPP'0 : 0 ≤ P - P' := by rw [hsub]; exact sumTo_nonneg (fun k hk => (hd k hk).1)
  have hPP' : P - P' ≤ (S : Rat) * δ := by
    rw [hsub, ← sumTo_const S δ]; exact sumTo_le_sumTo (fun k hk => (hd k hk).2)
  have hP : 0 < P := by linarith
  have hwi : w' i ≤ P' := le_sumTo_of_nonneg hw' hi
  have hS1 : (1 : Rat) ≤ (S : Rat) := by exact_mod_cast (Nat.succ_le_of_lt (Nat.lt_of_le_of_lt (Nat.zero_le i) hi))
  have key : normalize S w i - normalize S w' i = ((w i - w' i) * P' - w' i * (P - P')) / (P * P') := by
    have hPne : P ≠ 0 := ne_of_gt hP
    have hP'ne : P' ≠ 0 := ne_of_gt hP'
    show w i / P - w' i / P' = _
    field_simp
    ring
  have h1 : w' i * (P - P') ≤ P' * ((S : Rat) * δ) := mul_le_mul hwi hPP' hPP'0 (le_of_lt hP')
  have h1' : 0 ≤ w' i * (P - P') := mul_nonneg (hw' i hi) hPP'0
  have h2 : 0 ≤ (w i - w' i) * P' := mul_nonneg (hd i hi).1 (le_of_lt hP')
  have h3 : (w i - w' i) * P' ≤ (S : Rat) * δ * P' := by
    have : (w i - w' i) * P' ≤ δ * P' := mul_le_mul_of_nonneg_right (hd i hi).2 (le_of_lt hP')
    have : δ * P' ≤ (S : Rat) * δ * P' := by
      have := mul_le_mul_of_nonneg_right hS1 (mul_nonneg hδ (le_of_lt hP'))
      linarith
    linarith
  have hb : (S : Rat) * δ / P * (P * P') = (S : Rat) * δ * P' := by field_simp
  rw [key, absQ_le_iff]
  constructor
  · rw [le_div_iff₀ (mul_pos hP hP'), neg_mul, hb]; linarith
  · rw [div_le_iff₀ (mul_pos hP hP'), hb]; linarith

/-- C05 "dense and sparse give the same result", NORMALISED form, with sub-threshold entries dropped: on every model the
    constructors accept, `updateBelief` on the sparse model is within `S·2·tol·(1+t) / P(o | b, a)` of `updateBelief` on the dense one,
    entry by entry, whenever the observation still has positive probability in the sparse model -/
theorem posterior_sparse_close {tol t : Rat} {m : POMDP} (hm : AcceptedModel t m) {b : Vec} (hb : IsBelief m.S b)
    (htol0 : 0 ≤ tol) {a o : Nat} (ha : a < m.A) (ho : o < m.O) (hpos : 0 < probO (sparsify tol m) b a o)
    {s1 : Nat} (hs1 : s1 < m.S) :
    absQ (updateG m b a o s1 - updateG (sparsify tol m) b a o s1) ≤ (m.S : Rat) * (2 * tol * (1 + t)) / probO m b a o := by
  have hS : (sparsify tol m).S = m.S := rfl
  have hnn := sparsify_nonneg hm.toNonnegModel htol0
  have hw' : ∀ i, i < m.S → 0 ≤ unnormG (sparsify tol m) b a o i := fun i hi =>
    unnorm_nonneg hnn hb.nonneg ha ho i hi
  have hd : ∀ i, i < m.S → 0 ≤ unnormG m b a o i - unnormG (sparsify tol m) b a o i ∧
      unnormG m b a o i - unnormG (sparsify tol m) b a o i ≤ 2 * tol * (1 + t) := fun i hi =>
    sparse_within_two_tol_accepted hm hb htol0 ha ho hi
  have hP' : 0 < sumTo m.S (unnormG (sparsify tol m) b a o) := by
    have := unnorm_sum_eq_prob_o (sparsify tol m) b a o
    rw [hS] at this; rw [this]; exact hpos
  have := normalize_close hw' hd hP' hs1
  rw [unnorm_sum_eq_prob_o m b a o] at this
  exact this

/-! ### end to end: from "the table constructor did not throw" to the property's clauses -/

/-- `POMDP::Model(o, of, s, a, t, r, d)` returned (did not throw) ⇒ for every belief, action and observation of positive probability
    `updateBelief` is non-negative, sums to one and is weight / P(o | b, a) — although the tables need not be an exact POMDP -/
theorem dense_table_model_end_to_end {tol : Rat} {m : POMDP} (hacc : acceptDense tol m = true)
    {b : Vec} (hb : IsBelief m.S b) {a o : Nat} (ha : a < m.A) (ho : o < m.O) (hpos : 0 < probO m b a o) :
    (∀ s1, s1 < m.S → 0 ≤ updateG m b a o s1) ∧ sumTo m.S (updateG m b a o) = 1 ∧
    (∀ s1, updateG m b a o s1 = weight m b a o s1 / probO m b a o) := by
  have hm := (acceptDense_iff tol m).mp hacc
  have h := posterior_is_bayes hm.toNonnegModel (b := b) hb.nonneg (a := a) (o := o) ha ho hpos
  exact ⟨h.1, h.2.1, h.2.2.1⟩

/-- `POMDP::SparseModel(o, of, s, a, t, r, d)` returned ⇒ the same clauses for the tables it stores, AND its `updateBelief` is within
    `S·2·tol·(1+tol) / P(o | b, a)` of the dense model's on the supplied tables -/
theorem sparse_table_model_end_to_end {tol : Rat} (htol : 0 ≤ tol) {m : POMDP} (hacc : acceptSparse tol m = true)
    {b : Vec} (hb : IsBelief m.S b) {a o : Nat} (ha : a < m.A) (ho : o < m.O)
    (hpos : 0 < probO (sparsify tol m) b a o) :
    (∀ s1, s1 < m.S → 0 ≤ updateG (sparsify tol m) b a o s1) ∧ sumTo m.S (updateG (sparsify tol m) b a o) = 1 ∧
    (∀ s1, updateG (sparsify tol m) b a o s1 = weight (sparsify tol m) b a o s1 / probO (sparsify tol m) b a o) ∧
    (∀ s1, s1 < m.S → absQ (updateG m b a o s1 - updateG (sparsify tol m) b a o s1)
        ≤ (m.S : Rat) * (2 * tol * (1 + tol)) / probO m b a o) := by
  obtain ⟨hm, hms⟩ := acceptSparse_sound htol hacc
  have h := posterior_is_bayes hms.toNonnegModel (b := b) hb.nonneg (a := a) (o := o) ha ho hpos
  exact ⟨h.1, h.2.1, h.2.2.1, fun s1 hs1 => posterior_sparse_close hm hb htol ha ho hpos hs1⟩

/-- a sparse kernel visits the STORED positions only; `pat i` = position `i` is stored.  Eigen stores whatever was inserted:
    possibly explicit zeros, possibly not every zero (uncompressed or compressed alike) -/
def sumToPat (pat : Nat → Bool) : Nat → (Nat → Rat) → Rat
  | 0, _ => 0
  | n+1, f => if pat n then sumToPat pat n f + f n else sumToPat pat n f

/-- whatever the storage pattern, as long as every position that is NOT stored holds a zero, the sparse sum is the dense sum
    (generalises `sumToNZ_eq`: explicit zeros, uncompressed matrices and fully compressed ones all give the same update) -/
theorem sumToPat_eq (pat : Nat → Bool) (f : Nat → Rat) : ∀ n, (∀ i, i < n → pat i = false → f i = 0) →
    sumToPat pat n f = sumTo n f
  | 0, _ => rfl
  | n+1, h => by
    have ih := sumToPat_eq pat f n (fun i hi => h i (Nat.lt_succ_of_lt hi))
    simp only [sumToPat, sumTo]
    cases hp : pat n
    · simp only [Bool.false_eq_true, if_false]
      rw [ih, h n (Nat.lt_succ_self n) hp, add_zero]
    · simp only [if_true]; rw [ih]

/-- the sparse unnormalised update under ANY storage pattern of `T_a` (per column) equals the loop reading -/
theorem unnormPat_eq_unnormG (m : POMDP) (pat : Nat → Nat → Bool) (b : Vec) (a o : Nat)
    (h : ∀ s s1, pat s s1 = false → m.T s a s1 = 0) (s1 : Nat) :
    m.Ob s1 a o * sumToPat (fun s => pat s s1) m.S (fun s => b s * m.T s a s1) = unnormG m b a o s1 := by
  rw [sumToPat_eq _ _ m.S (fun s _ hp => by rw [h s s1 hp, mul_zero])]
  unfold unnormG
  congr 1
  exact sumTo_congr (fun s _ => mul_comm _ _)

/-! ## examples: the hypotheses are satisfiable by non-trivial values -/

/-- an accepted model that is NOT a valid one: a transition row summing to `1 + 1/2000000`, an observation row to `1 - 1/2000000` -/
def exNear : POMDP :=
  { S := 2, A := 1, O := 2,
    T := fun s _ s1 => ofList2 2 [1/4 + 1/2000000, 3/4, 1/2, 1/2] s s1,
    Ob := fun s1 _ o => ofList2 2 [1/8, 7/8 - 1/2000000, 1, 0] s1 o,
    R := fun _ _ _ => 0 }

theorem exNear_accepted : AcceptedModel (1/1000000) exNear := by
  refine ⟨⟨?_, ?_⟩, ?_, ?_⟩
  · intro s a s1 hs _ hs1
    have hS : exNear.S = 2 := rfl
    rw [hS] at hs hs1
    interval_cases s <;> interval_cases s1 <;> norm_num [exNear, ofList2]
  · intro s1 a o hs1 _ ho
    have hS : exNear.S = 2 := rfl
    have hO : exNear.O = 2 := rfl
    rw [hS] at hs1; rw [hO] at ho
    interval_cases s1 <;> interval_cases o <;> norm_num [exNear, ofList2]
  · intro s a hs _
    have hS : exNear.S = 2 := rfl
    rw [hS] at hs ⊢
    interval_cases s <;> norm_num [exNear, ofList2, sumTo, absQ]
  · intro s1 a hs1 _
    have hS : exNear.S = 2 := rfl
    have hO : exNear.O = 2 := rfl
    rw [hS] at hs1; rw [hO]
    interval_cases s1 <;> norm_num [exNear, ofList2, sumTo, absQ]

example : acceptDense (1/1000000) exNear = true := (acceptDense_iff _ _).mpr exNear_accepted

example : ¬ ValidModel exNear := fun h => by
  have := h.T_sum 0 0 (by decide) (by decide)
  norm_num [exNear, ofList2, sumTo] at this

example : sumToPat (fun i => i != 1) 3 (ofList [1/2, 0, 1/4]) = sumTo 3 (ofList [1/2, 0, 1/4]) :=
  sumToPat_eq _ _ 3 (fun i hi hp => by interval_cases i <;> simp_all [ofList])

example : obsProbB exM exB 0 0 = 53/128 := by rw [obsProbB_eq_probO]; exact ex_probO

end AITB.Belief
