/-
  AITB.Props.C12SawGuard — the early exit of `sawtoothInterpolation` as the source reads now,
  `if (minCF >= 0.0 || basicV <= v)` (`sawtoothG true …` in AITB.Model.Interp), against the model without the
  guard (`sawtooth …`).

  1. `sawtoothG_false`: without the guard `sawtoothG` IS `sawtooth`.
  2. `sawtoothG_eq_sawtooth`: in exact arithmetic the guard is redundant for the repaired reading
     (`minCF ≤ 0` always, so `0 ≤ minCF` forces `minCF = 0`, and then `basicV ≤ point·cv = v`).
  3. `sawtoothG_total`, `sawtoothG_weights`, `sawtoothG_value`, `sawtoothG_bounds`, `sawtoothG_le_corner_bound`:
     the results proved for `sawtooth repaired` hold for the current source reading.
  4. `sawtoothG_empty_total`: with the guard every reading (also the as-found strict `<` one) returns on an empty
     point set (`minCF = 0` there), so the out-of-range read `ubV.first[0]` is gone.
-/
import AITB.Props.C12InterpOpt
import AITB.Props.C12InterpValue
import Mathlib.Algebra.Order.Field.Rat
import Mathlib.Tactic.Linarith

namespace AITB.Interp
open AITB.Prune AITB.C12Check

/-! ## 1. the guard switched off -/

theorem sawtoothG_false (V : Variant) (point : Vec) (ubQ : List Vec) (A : Nat) (pts : List Vec) (vals : Vec) :
    sawtoothG false V point ubQ A pts vals = sawtooth V point ubQ A pts vals := by
  simp [sawtoothG, sawtooth]

/-- `sawtoothG` in the shape of `sawtooth_eq`: only the condition of the early exit differs -/
theorem sawtoothG_eq (g : Bool) (V : Variant) (point : Vec) (ubQ : List Vec) (A : Nat) (pts : List Vec) (vals : Vec) :
    sawtoothG g V point ubQ A pts vals =
      if ((g && decide (0 ≤ (sawLoop point (cornerVals ubQ) pts vals 0 {}).minCF)) ||
          (if V.sawStrict then
            decide (basicV point ubQ A < dot point (cornerVals ubQ) + (sawLoop point (cornerVals ubQ) pts vals 0 {}).minCF)
          else
            decide (basicV point ubQ A ≤ dot point (cornerVals ubQ) + (sawLoop point (cornerVals ubQ) pts vals 0 {}).minCF)))
      then some ⟨basicV point ubQ A, some (point ++ zerosN pts.length)⟩
      else sawTail V point (cornerVals ubQ) pts (sawLoop point (cornerVals ubQ) pts vals 0 {}) := rfl

/-! ## 2. the guard is redundant in exact arithmetic (repaired reading) -/

/-- when the guard fires (`0 ≤ minCF`), the unguarded test `basicV ≤ v` of the repaired reading holds as well -/
theorem guard_imp_le {point : Vec} {ubQ : List Vec} {A : Nat} (pts : List Vec) (vals : Vec)
    (hpt : ∀ x ∈ point, 0 ≤ x) (hrows : ∀ row ∈ ubQ, row.length = A) (hA : 0 < A)
    (hg : 0 ≤ (sawLoop point (cornerVals ubQ) pts vals 0 {}).minCF) :
    basicV point ubQ A ≤ dot point (cornerVals ubQ) + (sawLoop point (cornerVals ubQ) pts vals 0 {}).minCF := by
  have hb := basicV_le_corner hpt hrows hA
  linarith

theorem sawtoothG_eq_sawtooth (point : Vec) (ubQ : List Vec) (A : Nat) (pts : List Vec) (vals : Vec)
    (hpt : ∀ x ∈ point, 0 ≤ x) (hrows : ubQ.length = point.length ∧ ∀ row ∈ ubQ, row.length = A) (hA : 0 < A) :
    sawtoothG true repaired point ubQ A pts vals = sawtooth repaired point ubQ A pts vals := by
  rw [sawtoothG_eq, sawtooth_eq]
  simp only [repaired, Bool.false_eq_true, if_false, Bool.true_and]
  by_cases hc : basicV point ubQ A ≤
      dot point (cornerVals ubQ) + (sawLoop point (cornerVals ubQ) pts vals 0 {}).minCF
  · simp [hc]
  · have hg : ¬ 0 ≤ (sawLoop point (cornerVals ubQ) pts vals 0 {}).minCF :=
      fun hg => hc (guard_imp_le pts vals hpt hrows.2 hA hg)
    simp [hc, hg]

/-- the same for the guard as a parameter -/
theorem sawtoothG_repaired_guard_irrelevant (g : Bool) (point : Vec) (ubQ : List Vec) (A : Nat) (pts : List Vec)
    (vals : Vec) (hpt : ∀ x ∈ point, 0 ≤ x) (hrows : ubQ.length = point.length ∧ ∀ row ∈ ubQ, row.length = A)
    (hA : 0 < A) :
    sawtoothG g repaired point ubQ A pts vals = sawtooth repaired point ubQ A pts vals := by
  cases g
  · exact sawtoothG_false ..
  · exact sawtoothG_eq_sawtooth point ubQ A pts vals hpt hrows hA

/-- test: the hypotheses are satisfiable and both sides are the same non-trivial answer (harness input) -/
example : sawtoothG true repaired [1/2,1/4,1/4] [[4],[5],[6]] 1 [[1/4,1/2,1/4]] [1] =
    sawtooth repaired [1/2,1/4,1/4] [[4],[5],[6]] 1 [[1/4,1/2,1/4]] [1] :=
  sawtoothG_eq_sawtooth _ _ _ _ _ (by decide +kernel) (by decide) (by decide)

/-! ## 3. the results about `sawtooth repaired` hold for the current source reading -/

/-- A2 for the current source reading: the value never exceeds the corner bound (every reading, no hypotheses
    on the stored points; the preconditions are those of `basicV_le_corner`, needed when the guard fires) -/
theorem sawtoothG_le_corner_bound (g : Bool) (V : Variant) {point : Vec} {ubQ : List Vec} {A : Nat} (pts : List Vec)
    (vals : Vec) (hpt : ∀ x ∈ point, 0 ≤ x) (hrows : ∀ row ∈ ubQ, row.length = A) (hA : 0 < A)
    (o : Out) (h : sawtoothG g V point ubQ A pts vals = some o) :
    o.value ≤ dot point (cornerVals ubQ) := by
  rw [sawtoothG_eq] at h
  have hm : (sawLoop point (cornerVals ubQ) pts vals 0 {}).minCF ≤ 0 :=
    sawLoop_minCF_nonpos point (cornerVals ubQ) pts vals 0 {} (le_refl _)
  generalize ((g && decide (0 ≤ (sawLoop point (cornerVals ubQ) pts vals 0 {}).minCF)) ||
      (if V.sawStrict then
        decide (basicV point ubQ A < dot point (cornerVals ubQ) + (sawLoop point (cornerVals ubQ) pts vals 0 {}).minCF)
      else
        decide (basicV point ubQ A ≤ dot point (cornerVals ubQ) + (sawLoop point (cornerVals ubQ) pts vals 0 {}).minCF)))
    = b at h
  cases b
  · rw [if_neg (by simp)] at h
    rw [sawTail_value h]; linarith
  · rw [if_pos rfl] at h
    cases h
    exact basicV_le_corner hpt hrows hA

/-- A4 for the current source reading -/
theorem sawtoothG_total {point : Vec} {ubQ : List Vec} {A : Nat} {pts : List Vec} {vals : Vec}
    (hpt : ∀ x ∈ point, 0 ≤ x) (hrows : ubQ.length = point.length ∧ ∀ row ∈ ubQ, row.length = A) (hA : 0 < A)
    (hlen : vals.length = pts.length) (hpts : ∀ p ∈ pts, ∀ x ∈ p, 0 ≤ x) :
    ∃ v w, sawtoothG true repaired point ubQ A pts vals = some ⟨v, some w⟩ := by
  rw [sawtoothG_eq_sawtooth point ubQ A pts vals hpt hrows hA]
  exact sawtooth_repaired_total hpt hrows hA hlen hpts

/-- A5 for the current source reading -/
theorem sawtoothG_weights {point : Vec} {ubQ : List Vec} {A : Nat} {pts : List Vec} {vals : Vec}
    (hpt : ∀ x ∈ point, 0 ≤ x) (hrows : ubQ.length = point.length ∧ ∀ row ∈ ubQ, row.length = A) (hA : 0 < A)
    (hlen : vals.length = pts.length) (hpts : ∀ p ∈ pts, ∀ x ∈ p, 0 ≤ x)
    (hz : ∀ p ∈ pts, ∀ s, isZeroS (p.getD s 0) = true → p.getD s 0 = 0)
    (hptlen : ∀ p ∈ pts, p.length = point.length) {v : Rat} {w : Vec}
    (h : sawtoothG true repaired point ubQ A pts vals = some ⟨v, some w⟩) :
    primalOK point (w.take point.length) (w.drop point.length) pts = true ∧
      v ≤ weightedValue (cornerVals ubQ) (w.take point.length) (w.drop point.length) vals := by
  rw [sawtoothG_eq_sawtooth point ubQ A pts vals hpt hrows hA] at h
  exact sawtooth_repaired_weights hpt hrows hA hlen hpts hz hptlen h

/-- corollary of A5 for the current source reading -/
theorem sawtoothG_value {point : Vec} {ubQ : List Vec} {A : Nat} {pts : List Vec} {vals : Vec}
    (hpt : ∀ x ∈ point, 0 ≤ x) (hrows : ubQ.length = point.length ∧ ∀ row ∈ ubQ, row.length = A) (hA : 0 < A)
    (hlen : vals.length = pts.length) (hpts : ∀ p ∈ pts, ∀ x ∈ p, 0 ≤ x)
    (hz : ∀ p ∈ pts, ∀ s, isZeroS (p.getD s 0) = true → p.getD s 0 = 0)
    (hptlen : ∀ p ∈ pts, p.length = point.length) {v : Rat} {w : Vec}
    (h : sawtoothG true repaired point ubQ A pts vals = some ⟨v, some w⟩) :
    v = basicV point ubQ A ∨
      ∃ wc wp, primalOK point wc wp pts = true ∧ weightedValue (cornerVals ubQ) wc wp vals = v := by
  rw [sawtoothG_eq_sawtooth point ubQ A pts vals hpt hrows hA] at h
  exact sawtooth_repaired_value hpt hrows hA hlen hpts hz hptlen h

/-- `min(h·point, basicV) ≤ v ≤ point·cornerVals` for the current source reading -/
theorem sawtoothG_bounds {point : Vec} {ubQ : List Vec} {A : Nat} {pts : List Vec} {vals : Vec}
    (hpt : ∀ x ∈ point, 0 ≤ x) (hrows : ubQ.length = point.length ∧ ∀ row ∈ ubQ, row.length = A) (hA : 0 < A)
    (hlen : vals.length = pts.length) (hpts : ∀ p ∈ pts, ∀ x ∈ p, 0 ≤ x)
    (hz : ∀ p ∈ pts, ∀ s, isZeroS (p.getD s 0) = true → p.getD s 0 = 0)
    (hptlen : ∀ p ∈ pts, p.length = point.length)
    {h : Vec} (hd : dualOK (cornerVals ubQ) pts vals h = true) {v : Rat} {w : Vec}
    (hs : sawtoothG true repaired point ubQ A pts vals = some ⟨v, some w⟩) :
    minQ (dot h point) (basicV point ubQ A) ≤ v ∧ v ≤ dot point (cornerVals ubQ) := by
  rw [sawtoothG_eq_sawtooth point ubQ A pts vals hpt hrows hA] at hs
  exact sawtooth_bounds hpt hrows hA hlen hpts hz hptlen hd hs

/-- test: the hypotheses of `sawtoothG_total` are satisfiable (harness input) -/
example : ∃ v w, sawtoothG true repaired [1/2,1/4,1/4] [[4],[5],[6]] 1 [[1/4,1/2,1/4]] [1] = some ⟨v, some w⟩ :=
  sawtoothG_total (by decide +kernel) (by decide) (by decide) (by decide) (by decide +kernel)

/-! ## 4. with the guard no reading indexes an empty point set -/

/-- on an empty point set the loop does not run, `minCF = 0`, the guard fires: the corner-only answer -/
theorem sawtoothG_empty (V : Variant) (point : Vec) (ubQ : List Vec) (A : Nat) (vals : Vec) :
    sawtoothG true V point ubQ A [] vals = some ⟨basicV point ubQ A, some (point ++ zerosN 0)⟩ := by
  rw [sawtoothG_eq]
  simp [sawLoop]

theorem sawtoothG_empty_total (V : Variant) (point : Vec) (ubQ : List Vec) (A : Nat) :
    (sawtoothG true V point ubQ A [] []).isSome = true := by
  rw [sawtoothG_empty]; rfl

/-- in particular the as-found (strict `<`) reading, whose unguarded version does not return there
    (`sawtooth_asFound_crash_witness`) -/
theorem sawtoothG_asFound_total (point : Vec) (ubQ : List Vec) (A : Nat) (pts : List Vec) (vals : Vec)
    (h : pts = []) : (sawtoothG true asFound point ubQ A pts vals).isSome = true := by
  subst h
  rw [sawtoothG_empty]; rfl

/-- the same input as `sawtooth_asFound_crash_witness`: without the guard `none`, with it the corner-only answer -/
theorem sawtoothG_asFound_crash_gone :
    sawtooth asFound [1/2,1/4,1/4] [[4],[5],[6]] 1 [] [] = none ∧
    sawtoothG true asFound [1/2,1/4,1/4] [[4],[5],[6]] 1 [] [] = some ⟨19/4, some [1/2,1/4,1/4]⟩ := by
  decide +kernel

/-- the input of `sawtooth_asFound_uninit_witness` (`basicV = v`, `minCF = 0`: the stored point does not help, the
    strict test falls through and the weights are built from the uninitialised `minC`): with the guard the
    corner-only answer is returned there too.  (The guard says nothing about `minCF < 0`; the misplaced slot
    `sawNoOffset` of the as-found reading is untouched by it.) -/
theorem sawtoothG_asFound_uninit_gone :
    (sawtooth asFound [1/2,1/4,1/4] [[4],[5],[6]] 1 [[1/4,1/2,1/4]] [100]).map (·.weights) = some none ∧
    sawtoothG true asFound [1/2,1/4,1/4] [[4],[5],[6]] 1 [[1/4,1/2,1/4]] [100] =
      some ⟨19/4, some [1/2,1/4,1/4,0]⟩ := by
  decide +kernel

end AITB.Interp
