/-
  AITB.Props.C20j — round 3 of C20 (continued).
    * FasterTrie side of the FilterMap constructor and of id freshness (`ofTrieF_spec`, `FMFInv_copy`, `ofTrieF_gap_counterexample`,
      `ft_insert_id_fresh`);
    * the constructor with the id-range test of fixes/C20-4 is safe for every trie, whatever its history (`ofTrieChecked_safe`), and
      still accepts the documented use (`ofTrieChecked_accepts_copy`); `ofTrie_as_extracted` = the statement for the source as it is now;
    * the library's own `match` helpers (Core.cpp) compute the specification's compatibility (`matchPF_spec`, `matchF_spec`,
      `compatB_symm`); `merge(pf, pf)` is the join of its operands (`mergePFs_lookup`, `mergePFs_asc`).
  Core Lean only.
-/
import AITB.Props.C20i
import AITB.Gen.C20

namespace AITB.Trie


/-- `FilterMap<T, FasterTrie>(trie, items)`: accepted iff the number of stored entries equals the number of items -/
theorem ofTrieF_spec {t : FT} {es : Spec} (h : RIF t es) (items : List Nat) :
    FMF.ofTrie t items = if es.length = items.length then some ⟨t, items⟩ else none := by
  simp only [FMF.ofTrie, ft_size_spec h]
  by_cases he : es.length = items.length
  · simp [he]
  · simp [he]

/-- documented use with a FasterTrie: the trie of a FilterMap with as many new items is again a FilterMap -/
theorem FMFInv_copy {m : FMF} {es : Spec} (h : FMFInv m es) (items' : List Nat) (hl : items'.length = m.items.length) :
    FMF.ofTrie m.trie items' = some ⟨m.trie, items'⟩ ∧ FMFInv ⟨m.trie, items'⟩ es := by
  have hlen : es.length = m.items.length := by
    have := congrArg List.length h.2.1
    simpa [specIds] using this
  refine ⟨?_, h.1, by rw [hl]; exact h.2.1, by rw [hl]; exact h.2.2⟩
  rw [ofTrieF_spec h.1, if_pos (by rw [hl]; exact hlen)]

/-- FasterTrie with an erased entry: `FasterTrie({2,2})`, two inserts of `{0:1}`, `erase(0, {0:1})` -/
def gapFT : FT := ⟨[2, 2], 2, [[[], [(1, [(0, 1)])]], [[], []]]⟩

theorem gapFT_reachable :
    ((FT.new [2, 2]).insert [(0, 1)]).bind (fun r => (r.1.insert [(0, 1)]).bind (fun r2 => r2.1.erase 0 [(0, 1)])) = some gapFT := rfl

/-- the same hole with a FasterTrie: accepted with the documented container size, and `filter` hands out id 1 of a 1-item container -/
theorem ofTrieF_gap_counterexample :
    (FMF.ofTrie gapFT [42]).map (fun m => m.items) = some [42] ∧
      (gapFT.filter [1]).map (fun id => ([42] : List Nat)[id]?) = [none] := by
  constructor <;> rfl

/-- `FasterTrie::insert` returns `counter_`, which no stored entry carries, and moves it on by one -/
theorem ft_insert_id_fresh {t : FT} {es : Spec} (h : RIF t es) {pf : PF} (hv : ValidPF t.F pf) (hne : pf ≠ []) :
    ∃ t', t.insert pf = some (t', t.counter) ∧ t'.counter = t.counter + 1 ∧ ∀ e, (t.counter, e) ∉ es := by
  cases pf with
  | nil => exact absurd rfl hne
  | cons kv rest =>
    refine ⟨_, rfl, rfl, fun e he => ?_⟩
    have := h.lt _ _ he
    omega


/-! ### empty keys and FasterTrie (defect C20-5) -/

/-- as found: `insert` / `erase` read `pf.first[0]` of an empty key — undefined behaviour, while `Trie` stores the same key
    (`trie_refines_spec` allows `ValidPF F []`) and `FilterMap`'s default trie type is FasterTrie -/
theorem ft_empty_key_as_found (t : FT) : FT.insertG false t [] = none ∧ ∀ id, FT.eraseG false t id [] = none :=
  ⟨rfl, fun _ => rfl⟩

/-- with the guard of fixes/C20-5: an empty key is rejected and nothing changes, so every invariant is kept -/
theorem ft_empty_key_guarded (t : FT) : FT.insertG true t [] = some none ∧ ∀ id, FT.eraseG true t id [] = some t :=
  ⟨rfl, fun _ => rfl⟩

theorem ft_insertG_of_ne (g : Bool) (t : FT) {pf : PF} (h : pf ≠ []) :
    FT.insertG g t pf = (t.insert pf).map some ∧ ∀ id, FT.eraseG g t id pf = t.erase id pf := by
  cases pf with
  | nil => exact absurd rfl h
  | cons kv r => exact ⟨rfl, fun _ => rfl⟩

/-- one step on *any* valid key (empty or not) with the guard: no undefined behaviour; either rejected with the state (and the
    specification) unchanged, or stored under a fresh id with the invariant kept -/
theorem RIF_insertG {t : FT} {es : Spec} (h : RIF t es) {pf : PF} (hv : ValidPF t.F pf) :
    (pf = [] ∧ FT.insertG true t pf = some none) ∨
    (pf ≠ [] ∧ ∃ t', FT.insertG true t pf = some (some (t', t.counter)) ∧ RIF t' (specInsert es t.counter pf)) := by
  cases pf with
  | nil => exact Or.inl ⟨rfl, rfl⟩
  | cons kv r =>
    right
    refine ⟨by simp, ?_⟩
    obtain ⟨t', he, h'⟩ := RIF_insert h hv (by simp)
    exact ⟨t', by simp only [FT.insertG, he, Option.map_some], h'⟩

/-- the statement for the source as it is now (`AITB.Gen.C20.ftEmptyKeyGuard`): no undefined behaviour on any valid key iff the guard is there -/
theorem ft_insert_as_extracted {t : FT} {es : Spec} (h : RIF t es) {pf : PF} (hv : ValidPF t.F pf)
    (hne : AITB.Gen.C20.ftEmptyKeyGuard = false → pf ≠ []) :
    (FT.insertG AITB.Gen.C20.ftEmptyKeyGuard t pf).isSome = true := by
  cases pf with
  | nil =>
    cases hg : AITB.Gen.C20.ftEmptyKeyGuard with
    | true => rfl
    | false => exact absurd rfl (hne hg)
  | cons kv r =>
    obtain ⟨t', he, _⟩ := RIF_insert h hv (by simp)
    simp only [FT.insertG, he, Option.map_some, Option.isSome_some]

/-! ### the repaired constructor -/

theorem specFilter_subset_ids (es : Spec) (q : PF) : ∀ id ∈ specFilter es q, id ∈ specIds es := by
  intro id hid
  obtain ⟨e, he, _⟩ := (mem_specFilter es q id).1 hid
  exact List.mem_map.2 ⟨(id, e), he, rfl⟩

/-- **the repaired constructor is safe**: whatever history the trie has been through, if the pair is accepted then every id any
    filter hands out addresses the item container (no read outside it), for every valid query -/
theorem ofTrieChecked_safe {t : T} {es : Spec} (h : RI t es) (hF : t.F ≠ []) (items : List Nat) (m : FM)
    (hacc : FM.ofTrieChecked false t items = some (some m)) :
    m = ⟨t, items⟩ ∧ es.length = items.length ∧
    ∀ fb q, ValidQ t.F q → q ≠ [] → ∃ vs, m.filterChecked fb q = some vs ∧ ∀ v ∈ vs, v.isSome = true := by
  simp only [FM.ofTrieChecked, size_spec h hF, getAllIds_spec h hF, Option.bind_some, Option.map_some] at hacc
  by_cases hn : (es.length != items.length) = true
  · rw [if_pos hn] at hacc; cases hacc
  · rw [if_neg hn] at hacc
    by_cases hall : (specIds es).all (fun id => decide (id < items.length)) = true
    · rw [if_pos hall] at hacc
      simp only [Option.some.injEq] at hacc
      subst hacc
      refine ⟨rfl, by simpa using hn, ?_⟩
      intro fb q hq hne
      refine ⟨(specFilter es q).map (fun id => items[id]?), by simp only [FM.filterChecked, filter_spec h fb q hq hne, Option.map_some], ?_⟩
      intro v hv
      obtain ⟨id, hid, rfl⟩ := List.mem_map.1 hv
      have := (List.all_eq_true.1 hall) id (specFilter_subset_ids es q id hid)
      simp only [decide_eq_true_eq] at this
      simp [this]
    · rw [if_neg hall] at hacc; simp at hacc

/-- and it still accepts the documented use (a trie taken from a FilterMap, as many new items) -/
theorem ofTrieChecked_accepts_copy {m : FM} {es : Spec} (h : FMInv m es) (hF : m.trie.F ≠ []) (items' : List Nat)
    (hl : items'.length = m.items.length) : (FM.ofTrieChecked false m.trie items').map (fun r => r.isSome) = some true := by
  have hlen : es.length = m.items.length := by
    have := congrArg List.length h.2.1
    simpa [specIds] using this
  simp only [FM.ofTrieChecked, size_spec h.1 hF, getAllIds_spec h.1 hF, Option.bind_some, Option.map_some]
  have hn : ¬ ((es.length != items'.length) = true) := by simp [hlen, hl]
  rw [if_neg hn]
  have hall : (specIds es).all (fun id => decide (id < items'.length)) = true := by
    rw [h.2.1, hl]
    simp [List.all_eq_true]
  rw [if_pos hall]
  rfl


/-- the hypotheses of `ofTrieChecked_accepts_copy` / `ofTrieChecked_safe` are satisfiable: a FilterMap after one `emplace` -/
example : ∃ (m : FM) (es : Spec), FMInv m es ∧ m.trie.F ≠ [] ∧ m.items.length = 1 := by
  have h0 : FMInv (⟨⟨[2, 2], 0, [[[], [], []], [[], [], []]]⟩, []⟩ : FM) [] := FMInv_new (F := [2, 2]) rfl
  have v : ValidPF [2, 2] [(0, 1)] := by simp [ValidPF, KeysAsc]
  exact ⟨_, _, FMInv_emplace h0 v 42, by simp [FM.emplace, T.insert], by simp [FM.emplace]⟩

/-! ### `match` -/

theorem KeysAsc_mono {lo lo' : Nat} {pf : PF} (h : KeysAsc lo pf) (hl : lo' ≤ lo) : KeysAsc lo' pf := by
  cases pf with
  | nil => trivial
  | cons kv r => obtain ⟨k, v⟩ := kv; exact ⟨by have := h.1; omega, h.2⟩

theorem KeysAsc_ge {lo : Nat} {pf : PF} (h : KeysAsc lo pf) : ∀ kv ∈ pf, lo ≤ kv.1 := by
  induction pf generalizing lo with
  | nil => intro kv hkv; cases hkv
  | cons x r ih =>
    obtain ⟨k, v⟩ := x
    intro kv hkv
    rcases List.mem_cons.1 hkv with rfl | hkv
    · exact h.1
    · have := ih h.2 kv hkv; have := h.1; omega

theorem compatB_cons_skip (bk bv : Nat) (b q : PF) (hq : ∀ kv ∈ q, bk < kv.1) : compatB ((bk, bv) :: b) q = compatB b q := by
  unfold compatB
  induction q with
  | nil => rfl
  | cons kv q ih =>
    simp only [List.all_cons]
    have h1 := hq kv (List.mem_cons_self)
    rw [ih (fun kv' h => hq kv' (List.mem_cons_of_mem _ h))]
    simp only [lookup]
    rw [if_neg (by omega)]

theorem matchWalk_spec (fuel : Nat) (b s : PF) (lb ls : Nat) (hb : KeysAsc lb b) (hs : KeysAsc ls s)
    (hf : b.length + s.length ≤ fuel) : matchWalk fuel b s = compatB b s := by
  induction fuel generalizing b s lb ls with
  | zero =>
    have hb0 : b = [] := List.eq_nil_of_length_eq_zero (by omega)
    have hs0 : s = [] := List.eq_nil_of_length_eq_zero (by omega)
    subst hb0; subst hs0; rfl
  | succ f ih =>
    cases b with
    | nil =>
      cases s <;> simp [matchWalk, compatB, lookup]
    | cons x b' =>
      obtain ⟨bk, bv⟩ := x
      cases s with
      | nil => simp [matchWalk, compatB]
      | cons y s' =>
        obtain ⟨sk, sv⟩ := y
        simp only [List.length_cons] at hf
        rw [matchWalk]
        by_cases h1 : bk < sk
        · rw [if_pos h1, ih b' ((sk, sv) :: s') (bk + 1) ls hb.2 hs (by simp only [List.length_cons]; omega)]
          rw [compatB_cons_skip bk bv b' ((sk, sv) :: s')]
          intro kv hkv
          have := KeysAsc_ge (KeysAsc_mono (lo' := sk) (pf := (sk, sv) :: s') ⟨Nat.le_refl _, hs.2⟩ (Nat.le_refl _)) kv hkv
          omega
        · rw [if_neg h1]
          by_cases h2 : bk > sk
          · rw [if_pos h2, ih ((bk, bv) :: b') s' lb (sk + 1) hb hs.2 (by simp only [List.length_cons]; omega)]
            have hnone : lookup ((bk, bv) :: b') sk = none :=
              lookup_none_of_lt (lo := bk) (pf := (bk, bv) :: b') ⟨Nat.le_refl _, hb.2⟩ h2
            simp only [compatB, List.all_cons, hnone, Bool.true_and]
          · rw [if_neg h2]
            have he : bk = sk := by omega
            subst he
            have hskip : compatB ((bk, bv) :: b') s' = compatB b' s' :=
              compatB_cons_skip bk bv b' s' (fun kv hkv => by have := KeysAsc_ge hs.2 kv hkv; omega)
            have hhead : compatB ((bk, bv) :: b') ((bk, sv) :: s') = ((bv == sv) && compatB ((bk, bv) :: b') s') := by
              simp only [compatB, List.all_cons, lookup, if_true]
            rw [hhead, hskip]
            by_cases hv : bv = sv
            · subst hv
              simp only [bne_self_eq_false, Bool.false_eq_true, if_false, beq_self_eq_true, Bool.true_and]
              exact ih b' s' (bk + 1) (bk + 1) hb.2 hs.2 (by omega)
            · have : (bv != sv) = true := by simp [hv]
              have h' : (bv == sv) = false := by simp [hv]
              rw [if_pos this, h']; rfl

theorem compatB_symm (a b : PF) (la lb : Nat) (ha : KeysAsc la a) (hb : KeysAsc lb b) : compatB a b = compatB b a := by
  rw [← matchWalk_spec (a.length + b.length) a b la lb ha hb (Nat.le_refl _)]
  -- the walk is symmetric in its two cursors
  have sym : ∀ (fuel : Nat) (x y : PF), matchWalk fuel x y = matchWalk fuel y x := by
    intro fuel
    induction fuel with
    | zero => intro x y; rfl
    | succ f ih =>
      intro x y
      cases x with
      | nil => cases y <;> rfl
      | cons p x' =>
        cases y with
        | nil => rfl
        | cons q y' =>
          obtain ⟨pk, pv⟩ := p; obtain ⟨qk, qv⟩ := q
          simp only [matchWalk]
          by_cases h1 : pk < qk
          · have h2 : ¬ qk < pk := by omega
            rw [if_pos h1, if_neg h2, if_pos (show qk > pk from h1)]
            exact ih x' ((qk, qv) :: y')
          · rw [if_neg h1]
            by_cases h3 : pk > qk
            · rw [if_pos h3, if_pos (show qk < pk from h3)]
              exact ih ((pk, pv) :: x') y'
            · have he : pk = qk := by omega
              subst he
              rw [if_neg h3, if_neg (Nat.lt_irrefl _), if_neg (Nat.lt_irrefl _)]
              by_cases hv : pv = qv
              · subst hv; simp only [bne_self_eq_false, Bool.false_eq_true, if_false]; exact ih x' y'
              · have e1 : (pv != qv) = true := by simp [hv]
                have e2 : (qv != pv) = true := by simp; exact fun h => hv h.symm
                rw [if_pos e1, if_pos e2]
  rw [sym, matchWalk_spec (a.length + b.length) b a lb la hb ha (by omega)]

/-- **the library's `match` is the specification's compatibility**: for ascending keys (the documented form of
    PartialFactors) `match(l, r)` as written = `compatB l r` = `compatB r l` -/
theorem matchPF_spec (l r : PF) (ll lr : Nat) (hl : KeysAsc ll l) (hr : KeysAsc lr r) :
    matchPF l r = compatB l r ∧ matchPF l r = compatB r l := by
  have hsym := compatB_symm l r ll lr hl hr
  unfold matchPF
  split
  · rw [matchWalk_spec _ l r ll lr hl hr (Nat.le_refl _)]; exact ⟨rfl, hsym⟩
  · rw [matchWalk_spec _ r l lr ll hr hl (by omega)]; exact ⟨hsym.symm, rfl⟩

/-- … is compatibility with the full assignment read as a partial one (the form in which `FasterTrie::filter` / `Trie::filter(Factors)` queries enter the specification) -/
theorem matchF_spec (f : List Nat) (pf : PF) (h : KeysAsc 0 pf) (hk : ∀ kv ∈ pf, kv.1 < f.length) :
    matchF f pf = compatB pf (prefixPF 0 f) := by
  rw [Bool.eq_iff_iff, compat_prefix_iff pf f h]
  simp only [matchF, List.all_eq_true, beq_iff_eq]
  constructor
  · intro hh kv hkv _; exact hh kv hkv
  · intro hh kv hkv; exact hh kv hkv (hk kv hkv)

example : matchPF [(0, 1), (2, 0)] [(1, 1), (2, 0), (3, 4)] = true ∧ matchPF [(0, 1), (2, 0)] [(2, 1)] = false ∧
    KeysAsc 0 [(0, 1), (2, 0)] ∧ KeysAsc 0 [(1, 1), (2, 0), (3, 4)] := by
  refine ⟨by decide, by decide, ?_, ?_⟩ <;> simp [KeysAsc]


/-- the constructor as the source has it *now* (`AITB.Gen.C20.ctorChecksIdRange`, read by tools/extract_c20.py on every run) -/
def FM.ofTrieAsExtracted (t : T) (items : List Nat) : Option (Option FM) :=
  if AITB.Gen.C20.ctorChecksIdRange then FM.ofTrieChecked false t items else FM.ofTrie false t items

/-- the safety statement for the source as it is now: with the id-range test it is the full-strength one (any history);
    without it, it needs the trie to be free of erasures (`FMInv`) -/
theorem ofTrie_as_extracted {m0 : FM} {es : Spec} (h : RI m0.trie es) (hF : m0.trie.F ≠ []) (items : List Nat) (m : FM)
    (hdense : AITB.Gen.C20.ctorChecksIdRange = false → FMInv m0 es ∧ items.length = m0.items.length)
    (hacc : FM.ofTrieAsExtracted m0.trie items = some (some m)) :
    ∀ fb q, ValidQ m0.trie.F q → q ≠ [] → ∃ vs, m.filterChecked fb q = some vs ∧ ∀ v ∈ vs, v.isSome = true := by
  unfold FM.ofTrieAsExtracted at hacc
  cases hflag : AITB.Gen.C20.ctorChecksIdRange with
  | true =>
    rw [hflag] at hacc
    simp only [if_true] at hacc
    obtain ⟨rfl, _, hs⟩ := ofTrieChecked_safe h hF items m hacc
    exact hs
  | false =>
    rw [hflag] at hacc
    simp only [Bool.false_eq_true, if_false] at hacc
    obtain ⟨hinv, hl⟩ := hdense hflag
    obtain ⟨hacc', hinv'⟩ := FMInv_copy hinv hF items hl
    rw [hacc'] at hacc
    simp only [Option.some.injEq] at hacc
    subst hacc
    intro fb q hq hne
    exact filterChecked_defined hinv' fb q hq hne

/-! ### `merge` -/


theorem lookup_cons_ne (k v : Nat) (r : PF) {i : Nat} (h : k ≠ i) : lookup ((k, v) :: r) i = lookup r i := by
  simp only [lookup, if_neg h]
theorem lookup_cons_eq (k v : Nat) (r : PF) : lookup ((k, v) :: r) k = some v := by
  simp only [lookup, if_true]

/-- the merged key names exactly the factors named by either operand; on a shared factor the right operand's value is taken -/
theorem mergePF_lookup (fuel : Nat) (i : Nat) (l r : PF) (lo : Nat) (hl : KeysAsc lo l) (hr : KeysAsc lo r)
    (hf : l.length + r.length ≤ fuel) :
    lookup (mergePF fuel l r) i = (match lookup r i with | some v => some v | none => lookup l i) ∧
    KeysAsc lo (mergePF fuel l r) := by
  induction fuel generalizing l r lo with
  | zero =>
    have hl0 : l = [] := List.eq_nil_of_length_eq_zero (by omega)
    have hr0 : r = [] := List.eq_nil_of_length_eq_zero (by omega)
    subst hl0; subst hr0; simp [mergePF, lookup, KeysAsc]
  | succ f ih =>
    cases l with
    | nil =>
      cases r with
      | nil => simp [mergePF, lookup, KeysAsc]
      | cons y r' =>
        simp only [mergePF]
        exact ⟨by cases lookup (y :: r') i <;> simp [lookup], hr⟩
    | cons x l' =>
      obtain ⟨lk, lv⟩ := x
      cases r with
      | nil =>
        simp only [mergePF]
        exact ⟨by simp [lookup], hl⟩
      | cons y r' =>
        obtain ⟨rk, rv⟩ := y
        simp only [List.length_cons] at hf
        rw [mergePF]
        by_cases h1 : lk < rk
        · rw [if_pos h1]
          have hr' : KeysAsc (lk + 1) ((rk, rv) :: r') := ⟨by omega, hr.2⟩
          obtain ⟨ihl, iha⟩ := ih l' ((rk, rv) :: r') (lk + 1) hl.2 hr' (by simp only [List.length_cons]; omega)
          refine ⟨?_, ⟨hl.1, iha⟩⟩
          by_cases hi : lk = i
          · subst hi
            have hn : lookup ((rk, rv) :: r') lk = none :=
              lookup_none_of_lt (lo := rk) (pf := (rk, rv) :: r') ⟨Nat.le_refl _, hr.2⟩ h1
            rw [hn, lookup_cons_eq, lookup_cons_eq]
          · rw [lookup_cons_ne _ _ _ hi, lookup_cons_ne _ _ _ hi, ihl]
        · rw [if_neg h1]
          by_cases he : lk = rk
          · subst he
            rw [if_pos rfl]
            obtain ⟨ihl, iha⟩ := ih l' r' (lk + 1) hl.2 hr.2 (by omega)
            refine ⟨?_, ⟨hr.1, iha⟩⟩
            by_cases hi : lk = i
            · subst hi; rw [lookup_cons_eq, lookup_cons_eq]
            · rw [lookup_cons_ne _ _ _ hi, lookup_cons_ne _ _ _ hi, lookup_cons_ne _ _ _ hi, ihl]
          · rw [if_neg he]
            have hgt : rk < lk := by omega
            have hl' : KeysAsc (rk + 1) ((lk, lv) :: l') := ⟨by omega, hl.2⟩
            obtain ⟨ihl, iha⟩ := ih ((lk, lv) :: l') r' (rk + 1) hl' hr.2 (by simp only [List.length_cons]; omega)
            refine ⟨?_, ⟨hr.1, iha⟩⟩
            by_cases hi : rk = i
            · subst hi; rw [lookup_cons_eq, lookup_cons_eq]
            · rw [lookup_cons_ne _ _ _ hi, lookup_cons_ne _ _ _ hi, ihl]

/-- **`merge` of two keys is their join** (right operand wins on a shared factor; for compatible keys there is nothing to win):
    the assignment `reconstruct` returns — the query overwritten by the returned entries — is what the library's `merge` of them denotes -/
theorem mergePFs_lookup (l r : PF) (lo : Nat) (hl : KeysAsc lo l) (hr : KeysAsc lo r) (i : Nat) :
    lookup (mergePFs l r) i = (match lookup r i with | some v => some v | none => lookup l i) :=
  (mergePF_lookup _ i l r lo hl hr (Nat.le_refl _)).1

theorem mergePFs_asc (l r : PF) (lo : Nat) (hl : KeysAsc lo l) (hr : KeysAsc lo r) : KeysAsc lo (mergePFs l r) :=
  (mergePF_lookup _ 0 l r lo hl hr (Nat.le_refl _)).2

example : mergePFs [(0, 1), (2, 0)] [(1, 1), (2, 0), (4, 3)] = [(0, 1), (1, 1), (2, 0), (4, 3)] := by decide


end AITB.Trie
