/-
  AITB.Props.C08Models — property C08, round 2: the model objects' sampling functions
  (AITB.Model.SamplingModels): gamma-based samplers (G), sparse model objects (S),
  Factored::MDP::CooperativeModel (F).

  Note: AITB.Props.C14 is not imported (its olean is not part of this build); the two facts needed
  from it (`toIndexLoop_eq`, `toIndex_lt`) and `valid_sel` of C14b are re-proved here as
  `mo_toIndexLoop_eq`, `mo_toIndex_lt`, `mo_valid_sel`.
-/
import AITB.Props.C08Measure
import AITB.Model.SamplingModels
import Mathlib.Algebra.Order.BigOperators.Group.List

namespace AITB.Sampling
open AITB.Factored

/-! ## G: gamma-based samplers -/

theorem mo_sum_map_div (c : Rat) : ∀ l : List Rat, (l.map (fun g => g / c)).sum = l.sum / c
  | [] => by simp
  | x :: xs => by simp [mo_sum_map_div c xs, add_div]

theorem mo_dirichlet_length (gs : List Rat) : (dirichletFromGammas gs).length = gs.length := by
  simp [dirichletFromGammas]

theorem mo_dirichlet_sum (gs : List Rat) (h : gs.sum ≠ 0) : (dirichletFromGammas gs).sum = 1 := by
  unfold dirichletFromGammas
  rw [mo_sum_map_div, div_self h]

theorem mo_sum_pos (gs : List Rat) (hne : gs ≠ []) (hpos : ∀ g ∈ gs, 0 < g) : 0 < gs.sum :=
  List.sum_pos gs hpos hne

/-- **G1** -/
theorem dirichlet_valid (gs : List Rat) (hne : gs ≠ []) (hpos : ∀ g ∈ gs, 0 < g) :
    (dirichletFromGammas gs).length = gs.length ∧ (∀ y ∈ dirichletFromGammas gs, 0 < y) ∧
      (dirichletFromGammas gs).sum = 1 := by
  have hs : 0 < gs.sum := mo_sum_pos gs hne hpos
  refine ⟨mo_dirichlet_length gs, ?_, mo_dirichlet_sum gs (ne_of_gt hs)⟩
  intro y hy
  simp only [dirichletFromGammas, List.mem_map] at hy
  obtain ⟨g, hg, rfl⟩ := hy
  exact div_pos (hpos g hg) hs

/-- test (G1): the draws (1, 2, 1) give (1/4, 1/2, 1/4) -/
example : dirichletFromGammas [1, 2, 1] = [1/4, 1/2, 1/4] ∧ (dirichletFromGammas [1, 2, 1]).sum = 1 := by
  refine ⟨by norm_num [dirichletFromGammas], (dirichlet_valid [1, 2, 1] (by simp) (by norm_num)).2.2⟩

theorem mo_isProb_of (l : List Rat) (hnn : ∀ y ∈ l, 0 ≤ y) (hs : l.sum = 1) : isProb l = true := by
  rw [dense_isProb_iff]
  refine ⟨hnn, ?_⟩
  rw [hs]; norm_num [absQ, Gen.equalToleranceSmall]

/-- **G2** -/
theorem dirichlet_isProb (gs : List Rat) (hne : gs ≠ []) (hpos : ∀ g ∈ gs, 0 < g) :
    isProb (dirichletFromGammas gs) = true := by
  obtain ⟨_, h2, h3⟩ := dirichlet_valid gs hne hpos
  exact mo_isProb_of _ (fun y hy => le_of_lt (h2 y hy)) h3

/-- **G3** -/
theorem dirichlet_valid_nonneg (gs : List Rat) (hnn : ∀ g ∈ gs, 0 ≤ g) (hs : 0 < gs.sum) :
    (∀ y ∈ dirichletFromGammas gs, 0 ≤ y) ∧ (dirichletFromGammas gs).sum = 1 := by
  refine ⟨?_, mo_dirichlet_sum gs (ne_of_gt hs)⟩
  intro y hy
  simp only [dirichletFromGammas, List.mem_map] at hy
  obtain ⟨g, hg, rfl⟩ := hy
  exact div_nonneg (hnn g hg) (le_of_lt hs)

/-- **G4** -/
theorem dirichlet_all_zero_invalid : isProb (dirichletFromGammas [0, 0]) = false := by
  norm_num [dirichletFromGammas, isProb, eqSmall, absQ, Gen.equalToleranceSmall]

/-- **G5** -/
theorem dirichlet_scale_invariant (gs : List Rat) (c : Rat) (hc : c ≠ 0) :
    dirichletFromGammas (gs.map (c * ·)) = dirichletFromGammas gs := by
  unfold dirichletFromGammas
  have hsum : (gs.map (c * ·)).sum = c * gs.sum := by
    induction gs with
    | nil => simp
    | cons g gs ih => simp only [List.map_cons, List.sum_cons, ih]; ring
  rw [hsum, List.map_map]
  apply List.map_congr_left
  intro g _
  simp only [Function.comp]
  exact mul_div_mul_left g gs.sum hc

/-- **G6** -/
theorem beta_in_unit (x y : Rat) (hx : 0 < x) (hy : 0 < y) :
    0 < betaFromGammas x y ∧ betaFromGammas x y < 1 := by
  unfold betaFromGammas
  have hxy : 0 < x + y := add_pos hx hy
  refine ⟨div_pos hx hxy, ?_⟩
  rw [div_lt_one hxy]; linarith

theorem beta_complement (x y : Rat) (hx : 0 < x) (hy : 0 < y) :
    betaFromGammas x y + betaFromGammas y x = 1 := by
  unfold betaFromGammas
  have hxy : x + y ≠ 0 := ne_of_gt (add_pos hx hy)
  rw [add_comm y x, ← add_div, div_self hxy]

theorem beta_eq_dirichlet (x y : Rat) : betaFromGammas x y = (dirichletFromGammas [x, y]).getD 0 0 := by
  simp [betaFromGammas, dirichletFromGammas]

/-! ## S: sparse model objects (stored rows) -/

/-- **S6** -/
theorem sparseFixed_eq_dense_expansion (d : Nat) (row : List (Nat × Rat)) (u : Rat)
    (hpw : row.Pairwise (fun p q => p.1 < q.1)) (hlt : ∀ e ∈ row, e.1 < d)
    (hnn : ∀ e ∈ row, 0 ≤ e.2) (hu : 0 ≤ u) (hs : u < (row.map (·.2)).sum) :
    sampleSparseFixed d row u = sampleDense (expandRow d row) u := by
  have h1 := sparse_eq_dense_expansion d row [] u hpw hlt hnn hu hs
  have h2 := sparseFixed_agrees d row [] u hnn hu hs
  rw [h1] at h2
  exact (Option.some.inj h2).symm

/-- **S1** -/
theorem sampleSRSparse_spec (S : Nat) (T : Nat → Nat → List (Nat × Rat)) (R : Nat → Nat → Rat)
    (s a : Nat) (u : Rat) (hne : T a s ≠ []) :
    (sampleSRSparse S T R s a u).1 ∈ (T a s).map (·.1) ∧ (sampleSRSparse S T R s a u).2 = R s a :=
  ⟨sparseFixed_in_support S (T a s) u hne, rfl⟩

theorem mo_ne_nil_of_lt {α : Type} (l : List α) (k : Nat) (hk : k < l.length) : l ≠ [] := by
  intro h; subst h; simp at hk

/-- **S2** -/
theorem sampleSRSparse_selects (S : Nat) (T : Nat → Nat → List (Nat × Rat)) (R : Nat → Nat → Rat)
    (s a : Nat) (hs : (T a s).Pairwise (fun p q => p.1 < q.1)) (hnn : ∀ e ∈ T a s, 0 ≤ e.2)
    (hsum : ((T a s).map (·.2)).sum = 1) (k : Nat) (hk : k < (T a s).length) :
    SelectsWithProb (fun u => (sampleSRSparse S T R s a u).1) ((T a s)[k]).1 ((T a s)[k]).2 :=
  sparseFixed_selects S (T a s) k hs hnn hsum (mo_ne_nil_of_lt _ k hk) hk

/-- test (S2): stored row {3 ↦ 1/4, 7 ↦ 3/4} of a 10-state sparse model: state 7 is drawn with probability 3/4 -/
example : SelectsWithProb
    (fun u => (sampleSRSparse 10 (fun _ _ => [(3, 1/4), (7, 3/4)]) (fun _ _ => 5) 0 0 u).1) 7 (3/4) :=
  sampleSRSparse_selects 10 (fun _ _ => [(3, 1/4), (7, 3/4)]) (fun _ _ => 5) 0 0 (by simp) (by norm_num)
    (by norm_num) 1 (by simp)

/-- **S3** -/
theorem sampleSORSparse_spec (S O : Nat) (T Ob : Nat → Nat → List (Nat × Rat)) (R : Nat → Nat → Rat)
    (s a : Nat) (u1 u2 : Rat) (_hT : T a s ≠ []) (hO : ∀ s', Ob a s' ≠ []) :
    let r := sampleSORSparse S O T Ob R s a u1 u2
    r.1 = sampleSparseFixed S (T a s) u1 ∧ r.2.1 = sampleSparseFixed O (Ob a r.1) u2 ∧
      r.2.1 ∈ (Ob a r.1).map (·.1) ∧ r.2.2 = R s a := by
  intro r
  exact ⟨rfl, rfl, sparseFixed_in_support O (Ob a r.1) u2 (hO _), rfl⟩

/-- the next state of `sampleSORSparse` is in the support of the stored transition row -/
theorem sampleSORSparse_state_in_support (S O : Nat) (T Ob : Nat → Nat → List (Nat × Rat))
    (R : Nat → Nat → Rat) (s a : Nat) (u1 u2 : Rat) (hT : T a s ≠ []) :
    (sampleSORSparse S O T Ob R s a u1 u2).1 ∈ (T a s).map (·.1) :=
  sparseFixed_in_support S (T a s) u1 hT

/-- **S4** -/
theorem sampleSORSparse_obs_selects (S O : Nat) (T Ob : Nat → Nat → List (Nat × Rat))
    (R : Nat → Nat → Rat) (s a : Nat) (u1 : Rat)
    (hs : (Ob a (sampleSparseFixed S (T a s) u1)).Pairwise (fun p q => p.1 < q.1))
    (hnn : ∀ e ∈ Ob a (sampleSparseFixed S (T a s) u1), 0 ≤ e.2)
    (hsum : ((Ob a (sampleSparseFixed S (T a s) u1)).map (·.2)).sum = 1)
    (k : Nat) (hk : k < (Ob a (sampleSparseFixed S (T a s) u1)).length) :
    SelectsWithProb (fun u2 => (sampleSORSparse S O T Ob R s a u1 u2).2.1)
      ((Ob a (sampleSparseFixed S (T a s) u1))[k]).1 ((Ob a (sampleSparseFixed S (T a s) u1))[k]).2 :=
  sparseFixed_selects O (Ob a (sampleSparseFixed S (T a s) u1)) k hs hnn hsum (mo_ne_nil_of_lt _ k hk) hk

/-- **S5** -/
theorem sampleORSparse_selects (O : Nat) (Ob : Nat → Nat → List (Nat × Rat)) (R : Nat → Nat → Rat)
    (s a s1 : Nat) (hs : (Ob a s1).Pairwise (fun p q => p.1 < q.1)) (hnn : ∀ e ∈ Ob a s1, 0 ≤ e.2)
    (hsum : ((Ob a s1).map (·.2)).sum = 1) (k : Nat) (hk : k < (Ob a s1).length) :
    SelectsWithProb (fun u => (sampleORSparse O Ob R s a s1 u).1) ((Ob a s1)[k]).1 ((Ob a s1)[k]).2 :=
  sparseFixed_selects O (Ob a s1) k hs hnn hsum (mo_ne_nil_of_lt _ k hk) hk

theorem sampleORSparse_reward (O : Nat) (Ob : Nat → Nat → List (Nat × Rat)) (R : Nat → Nat → Rat)
    (s a s1 : Nat) (u : Rat) : (sampleORSparse O Ob R s a s1 u).2 = R s a := rfl

theorem sampleORSparse_in_support (O : Nat) (Ob : Nat → Nat → List (Nat × Rat)) (R : Nat → Nat → Rat)
    (s a s1 : Nat) (u : Rat) (hne : Ob a s1 ≠ []) :
    (sampleORSparse O Ob R s a s1 u).1 ∈ (Ob a s1).map (·.1) :=
  sparseFixed_in_support O (Ob a s1) u hne

/-- **S7** -/
theorem sampleSRSparse_eq_dense (S : Nat) (T : Nat → Nat → List (Nat × Rat)) (R : Nat → Nat → Rat)
    (s a : Nat) (u : Rat) (hpw : (T a s).Pairwise (fun p q => p.1 < q.1)) (hlt : ∀ e ∈ T a s, e.1 < S)
    (hnn : ∀ e ∈ T a s, 0 ≤ e.2) (hu : 0 ≤ u) (hs : u < ((T a s).map (·.2)).sum) :
    sampleSRSparse S T R s a u = sampleSR (fun a s => expandRow S (T a s)) R s a u := by
  unfold sampleSRSparse sampleSR
  rw [sparseFixed_eq_dense_expansion S (T a s) u hpw hlt hnn hu hs]

/-- test (S7) -/
example : sampleSRSparse 5 (fun _ _ => [(1, 1/4), (3, 3/4)]) (fun _ _ => 2) 0 0 (1/2)
    = sampleSR (fun _ _ => expandRow 5 [(1, 1/4), (3, 3/4)]) (fun _ _ => 2) 0 0 (1/2) :=
  sampleSRSparse_eq_dense 5 (fun _ _ => [(1, 1/4), (3, 3/4)]) (fun _ _ => 2) 0 0 (1/2) (by simp) (by simp)
    (by norm_num) (by norm_num) (by norm_num)

/-! ## F: Factored::MDP::CooperativeModel -/

theorem mo_getD_map_range {β : Type} (f : Nat → β) (d : β) (n i : Nat) (h : i < n) :
    ((List.range n).map f).getD i d = f i := by
  simp [List.getD_eq_getElem?_getD, h]

theorem mo_getD_eq_getElem {β : Type} (l : List β) (d : β) (n : Nat) (hn : n < l.length) :
    l.getD n d = l[n] := by
  simp [List.getD_eq_getElem?_getD, hn]

/-- **F1** -/
theorem ddnStartIds_getD (S : List Nat) (ps : ParentSet) (i : Nat) (hi : i ≤ ps.features.length) :
    (ddnStartIds S ps).getD i 0 = ((ps.features.take i).map (fun f => spacePartial f S)).sum := by
  unfold ddnStartIds
  rw [mo_getD_map_range _ _ _ _ (by omega)]

theorem ddnStartIds_last (S : List Nat) (ps : ParentSet) :
    (ddnStartIds S ps).getD ps.features.length 0 = ddnSize S ps := by
  rw [ddnStartIds_getD S ps _ (le_refl _), List.take_length]; rfl

theorem ddnStartIds_length (S : List Nat) (ps : ParentSet) :
    (ddnStartIds S ps).length = ps.features.length + 1 := by
  simp [ddnStartIds]

/-- test (F1): state space (2,3,2); parent sets {0,1} (6 rows) and {2} (2 rows): startIds = [0, 6, 8] -/
example : ddnStartIds [2, 3, 2] ⟨[0], [[0, 1], [2]]⟩ = [0, 6, 8] ∧ ddnSize [2, 3, 2] ⟨[0], [[0, 1], [2]]⟩ = 8 := by
  decide

/-- **F7** -/
theorem mo_foldl_add {β : Type} (f : β → Rat) : ∀ (l : List β) (init : Rat),
    l.foldl (fun acc b => acc + f b) init = init + (l.map f).sum
  | [], init => by simp
  | b :: l, init => by
    simp only [List.foldl_cons, List.map_cons, List.sum_cons]
    rw [mo_foldl_add f l]; ring

theorem factoredReward_eq_sum (S A : List Nat) (bases : List Basis2D) (s a : List Nat) :
    factoredReward S A bases s a = (bases.map (fun b => basisValue S A b s a)).sum := by
  unfold factoredReward
  rw [mo_foldl_add]; simp

theorem coop_rewards_sum (S A : List Nat) (parents : List ParentSet) (T : List (List (List Rat)))
    (bases : List Basis2D) (s a : List Nat) (us : List Rat) :
    (coopSampleSRs S A parents T bases s a us).2.sum = (coopSampleSR S A parents T bases s a us).2 :=
  (factoredReward_eq_sum S A bases s a).symm

theorem coop_same_state (S A : List Nat) (parents : List ParentSet) (T : List (List (List Rat)))
    (bases : List Basis2D) (s a : List Nat) (us : List Rat) :
    (coopSampleSRs S A parents T bases s a us).1 = (coopSampleSR S A parents T bases s a us).1 := rfl

theorem coop_reward_independent_of_draws (S A : List Nat) (parents : List ParentSet)
    (T : List (List (List Rat))) (bases : List Basis2D) (s a : List Nat) (us us' : List Rat) :
    (coopSampleSR S A parents T bases s a us).2 = (coopSampleSR S A parents T bases s a us').2 := rfl

/-- **F4** -/
theorem coopSampleS_length (S A : List Nat) (parents : List ParentSet) (T : List (List (List Rat)))
    (s a : List Nat) (us : List Rat) (h1 : parents.length = T.length) (h2 : T.length = us.length) :
    (coopSampleS S A parents T s a us).length = us.length := by
  simp [coopSampleS]; omega

/-- the row of factor `i`'s transition matrix that `sampleSR(s, a)` scans -/
def mo_coopRow (S A : List Nat) (parents : List ParentSet) (T : List (List (List Rat)))
    (s a : List Nat) (i : Nat) : List Rat :=
  (T.getD i []).getD (ddnGetId S A (parents.getD i ⟨[], []⟩) s a) []

/-- **F6** -/
theorem coopSampleS_getD (S A : List Nat) (parents : List ParentSet) (T : List (List (List Rat)))
    (s a : List Nat) (us : List Rat) (h1 : parents.length = T.length) (h2 : T.length = us.length)
    (i : Nat) (hi : i < us.length) :
    (coopSampleS S A parents T s a us).getD i 0 =
      sampleDense ((T.getD i []).getD (ddnGetId S A (parents.getD i ⟨[], []⟩) s a) []) (us.getD i 0) := by
  have hl := coopSampleS_length S A parents T s a us h1 h2
  have hiT : i < T.length := by omega
  have hiP : i < parents.length := by omega
  rw [mo_getD_eq_getElem _ _ _ (by omega : i < (coopSampleS S A parents T s a us).length),
    mo_getD_eq_getElem _ _ _ hiT, mo_getD_eq_getElem _ _ _ hiP, mo_getD_eq_getElem _ _ _ hi]
  simp [coopSampleS]

/-- **F6'** each factor is an independent dense scan with its own draw: with the other draws fixed,
    factor `i = pre.length` selects `k` with probability `row[k]` as a function of its own draw -/
theorem coopSampleS_factor_selects (S A : List Nat) (parents : List ParentSet) (T : List (List (List Rat)))
    (s a : List Nat) (pre post : List Rat) (k : Nat)
    (h1 : parents.length = T.length) (h2 : T.length = pre.length + 1 + post.length)
    (hnn : ∀ x ∈ mo_coopRow S A parents T s a pre.length, 0 ≤ x)
    (hsum : (mo_coopRow S A parents T s a pre.length).sum = 1)
    (hk : k < (mo_coopRow S A parents T s a pre.length).length) :
    SelectsWithProb (fun u => (coopSampleS S A parents T s a (pre ++ u :: post)).getD pre.length 0) k
      ((mo_coopRow S A parents T s a pre.length).getD k 0) := by
  obtain ⟨ivs, c, ht⟩ := dense_selects_exact _ k hnn hsum hk
  refine ⟨ivs, ms_cert_congr _ _ _ _ _ ?_ c, ht⟩
  intro u _ _
  have hlen : T.length = (pre ++ u :: post).length := by simp; omega
  have e := coopSampleS_getD S A parents T s a (pre ++ u :: post) h1 hlen pre.length (by simp)
  have eu : (pre ++ u :: post).getD pre.length 0 = u := by simp [List.getD_eq_getElem?_getD]
  rw [eu] at e
  show (coopSampleS S A parents T s a (pre ++ u :: post)).getD pre.length 0 = k ↔ _
  rw [e]; rfl

theorem mo_getD_append_cons_ne (pre post : List Rat) (u u' : Rat) (j : Nat) (hj : j ≠ pre.length) :
    (pre ++ u :: post).getD j 0 = (pre ++ u' :: post).getD j 0 := by
  simp only [List.getD_eq_getElem?_getD]
  rcases Nat.lt_or_ge j pre.length with hlt | hge
  · rw [List.getElem?_append_left hlt, List.getElem?_append_left hlt]
  · rw [List.getElem?_append_right hge, List.getElem?_append_right hge]
    obtain ⟨m, hm⟩ : ∃ m, j - pre.length = m + 1 := ⟨j - pre.length - 1, by omega⟩
    rw [hm]; simp

/-- … and the draw of factor `i` does not influence any other factor -/
theorem coopSampleS_other_factor (S A : List Nat) (parents : List ParentSet) (T : List (List (List Rat)))
    (s a : List Nat) (pre post : List Rat) (u u' : Rat) (j : Nat)
    (h1 : parents.length = T.length) (h2 : T.length = pre.length + 1 + post.length)
    (hj : j ≠ pre.length) :
    (coopSampleS S A parents T s a (pre ++ u :: post)).getD j 0 =
      (coopSampleS S A parents T s a (pre ++ u' :: post)).getD j 0 := by
  have hlen : ∀ v, T.length = (pre ++ v :: post).length := by intro v; simp; omega
  rcases Nat.lt_or_ge j T.length with hlt | hge
  · rw [coopSampleS_getD S A parents T s a _ h1 (hlen u) j (by rw [← hlen u]; exact hlt),
      coopSampleS_getD S A parents T s a _ h1 (hlen u') j (by rw [← hlen u']; exact hlt),
      mo_getD_append_cons_ne pre post u u' j hj]
  · have l1 := coopSampleS_length S A parents T s a _ h1 (hlen u)
    have l2 := coopSampleS_length S A parents T s a _ h1 (hlen u')
    rw [List.getD_eq_getElem?_getD, List.getD_eq_getElem?_getD,
      List.getElem?_eq_none (by rw [l1, ← hlen u]; exact hge),
      List.getElem?_eq_none (by rw [l2, ← hlen u']; exact hge)]

/-! ### F2: the DDN row id is inside the feature's matrix -/

theorem mo_sum_take_add_lt : ∀ (l : List Nat) (k : Nat) (hk : k < l.length) (x : Nat), x < l[k] →
    (l.take k).sum + x < l.sum
  | [], k, hk, _, _ => by simp at hk
  | y :: l, 0, _, x, hx => by simp at hx ⊢; omega
  | y :: l, k + 1, hk, x, hx => by
    have := mo_sum_take_add_lt l k (by simpa using hk) x (by simpa using hx)
    simp only [List.take_succ_cons, List.sum_cons]; omega

/-- **F2** -/
theorem ddnGetId_lt_size (S A : List Nat) (ps : ParentSet) (s a : List Nat) :
    let actionId := toIndexPartial ps.agents A a
    actionId < ps.features.length →
    toIndexPartial (ps.features.getD actionId []) S s < spacePartial (ps.features.getD actionId []) S →
    ddnGetId S A ps s a < ddnSize S ps := by
  intro actionId hA hP
  show (ddnStartIds S ps).getD actionId 0 + toIndexPartial (ps.features.getD actionId []) S s < ddnSize S ps
  rw [ddnStartIds_getD S ps actionId (le_of_lt hA), List.map_take]
  unfold ddnSize
  rw [mo_getD_eq_getElem _ _ _ hA] at hP ⊢
  apply mo_sum_take_add_lt _ actionId (by simpa using hA)
  simpa using hP

/-- the id lies in the block of its action id: `startIds[actionId] ≤ id < startIds[actionId+1]` -/
theorem ddnGetId_in_block (S A : List Nat) (ps : ParentSet) (s a : List Nat) :
    let actionId := toIndexPartial ps.agents A a
    actionId < ps.features.length →
    toIndexPartial (ps.features.getD actionId []) S s < spacePartial (ps.features.getD actionId []) S →
    (ddnStartIds S ps).getD actionId 0 ≤ ddnGetId S A ps s a ∧
      ddnGetId S A ps s a < (ddnStartIds S ps).getD (actionId + 1) 0 := by
  intro actionId hA hP
  refine ⟨Nat.le_add_right _ _, ?_⟩
  show (ddnStartIds S ps).getD actionId 0 + toIndexPartial (ps.features.getD actionId []) S s < _
  rw [ddnStartIds_getD S ps actionId (le_of_lt hA), ddnStartIds_getD S ps (actionId + 1) hA,
    List.take_succ_eq_append_getElem hA]
  rw [mo_getD_eq_getElem _ _ _ hA] at hP ⊢
  simp only [List.map_append, List.sum_append, List.map_cons, List.map_nil, List.sum_cons, List.sum_nil]
  omega

/-! facts of AITB.Props.C14 / C14b re-proved (see the header) -/

theorem mo_toIndexLoop_eq : ∀ (ds xs : List Nat) (r m : Nat),
    toIndexLoop ds xs r m = r + m * toIndex ds xs
  | [], xs, r, m => by cases xs <;> simp [toIndexLoop, toIndex]
  | d :: ds, [], r, m => by simp [toIndexLoop, toIndex]
  | d :: ds, x :: xs, r, m => by
    simp only [toIndexLoop, toIndex]
    rw [mo_toIndexLoop_eq ds xs]
    rw [Nat.mul_add, Nat.mul_assoc, Nat.add_assoc]

theorem mo_toIndex_lt : ∀ (sp xs : List Nat), Valid sp xs → toIndex sp xs < space sp
  | [], [], _ => by simp [toIndex, space]
  | [], _ :: _, h => by simp [Valid] at h
  | _ :: _, [], h => by simp [Valid] at h
  | d :: ds, x :: xs, h => by
    obtain ⟨hx, hv⟩ := h
    have ih := mo_toIndex_lt ds xs hv
    simp only [toIndex, space]
    calc x + d * toIndex ds xs < d + d * toIndex ds xs := by omega
      _ = d * (toIndex ds xs + 1) := by rw [Nat.mul_add, Nat.mul_one, Nat.add_comm]
      _ ≤ d * space ds := Nat.mul_le_mul_left d ih

theorem mo_valid_getD : ∀ (ds xs : List Nat) (k : Nat), Valid ds xs → k < ds.length → xs.getD k 0 < ds.getD k 0
  | [], [], _, _, hk => by simp at hk
  | [], _ :: _, _, h, _ => by simp [Valid] at h
  | _ :: _, [], _, h, _ => by simp [Valid] at h
  | d :: ds, x :: xs, 0, h, _ => by simpa using h.1
  | d :: ds, x :: xs, k+1, h, hk => by
    simpa using mo_valid_getD ds xs k h.2 (by simpa using hk)

theorem mo_valid_sel (sp x : List Nat) (hx : Valid sp x) : ∀ (T : List Nat), (∀ k ∈ T, k < sp.length) →
    Valid (sel T sp) (sel T x)
  | [], _ => by simp [sel, Valid]
  | k :: T, h => by
    simp only [sel, List.map_cons, Valid]
    exact ⟨mo_valid_getD sp x k hx (h k (List.mem_cons_self ..)),
           mo_valid_sel sp x hx T (fun j hj => h j (List.mem_cons_of_mem _ hj))⟩

/-- a valid full assignment has a partial index below the partial space (keys inside the space) -/
theorem mo_toIndexPartial_lt (sp x T : List Nat) (hx : Valid sp x) (hT : ∀ k ∈ T, k < sp.length) :
    toIndexPartial T sp x < spacePartial T sp := by
  unfold toIndexPartial spacePartial
  rw [mo_toIndexLoop_eq]
  simpa using mo_toIndex_lt _ _ (mo_valid_sel sp x hx T hT)

/-- **F2'** valid state and action, a well-formed parent set (agent keys inside `A`, one feature tag per joint
    action of the agents, feature keys inside `S`): the row id is inside the feature's matrix -/
theorem ddnGetId_lt_size_valid (S A : List Nat) (ps : ParentSet) (s a : List Nat)
    (hs : Valid S s) (ha : Valid A a) (hag : ∀ k ∈ ps.agents, k < A.length)
    (hlen : ps.features.length = spacePartial ps.agents A)
    (hfe : ∀ f ∈ ps.features, ∀ k ∈ f, k < S.length) :
    ddnGetId S A ps s a < ddnSize S ps := by
  have hA : toIndexPartial ps.agents A a < ps.features.length := by
    rw [hlen]; exact mo_toIndexPartial_lt A a ps.agents ha hag
  refine ddnGetId_lt_size S A ps s a hA (mo_toIndexPartial_lt S s _ hs ?_)
  rw [mo_getD_eq_getElem _ _ _ hA]
  exact hfe _ (List.getElem_mem _)

/-- test (F2'): the graph of the F1 test, state (1,2,1): action 0 → row 1 + 2·2 = 5, action 1 → row 6 + 1 = 7 -/
example : ddnGetId [2, 3, 2] [2] ⟨[0], [[0, 1], [2]]⟩ [1, 2, 1] [0] = 5 ∧
    ddnGetId [2, 3, 2] [2] ⟨[0], [[0, 1], [2]]⟩ [1, 2, 1] [1] = 7 ∧
    ddnGetId [2, 3, 2] [2] ⟨[0], [[0, 1], [2]]⟩ [1, 2, 1] [1] < ddnSize [2, 3, 2] ⟨[0], [[0, 1], [2]]⟩ :=
  ⟨by decide, by decide,
    ddnGetId_lt_size_valid [2, 3, 2] [2] ⟨[0], [[0, 1], [2]]⟩ [1, 2, 1] [1] (by simp [Valid]) (by simp [Valid])
      (by decide) (by decide) (by decide)⟩

/-- **F5** every sampled factor value is inside its selected row -/
theorem coopSampleS_in_range (S A : List Nat) (parents : List ParentSet) (T : List (List (List Rat)))
    (s a : List Nat) (us : List Rat) (h1 : parents.length = T.length) (h2 : T.length = us.length)
    (hne : ∀ i, i < us.length → (T.getD i []).getD (ddnGetId S A (parents.getD i ⟨[], []⟩) s a) [] ≠ []) :
    ∀ i, i < us.length → (coopSampleS S A parents T s a us).getD i 0 <
      ((T.getD i []).getD (ddnGetId S A (parents.getD i ⟨[], []⟩) s a) []).length := by
  intro i hi
  rw [coopSampleS_getD S A parents T s a us h1 h2 i hi]
  exact dense_in_range _ _ (hne i hi)

/-! ### F3: different action ids give disjoint id ranges -/

theorem mo_sum_take_mono : ∀ (l : List Nat) (i j : Nat), i ≤ j → (l.take i).sum ≤ (l.take j).sum
  | [], _, _, _ => by simp
  | _ :: _, 0, _, _ => by simp
  | _ :: _, _ + 1, 0, h => by omega
  | y :: l, i + 1, j + 1, h => by
    have := mo_sum_take_mono l i j (by omega)
    simp only [List.take_succ_cons, List.sum_cons]; omega

theorem ddnStartIds_mono (S : List Nat) (ps : ParentSet) (i j : Nat) (hij : i ≤ j)
    (hj : j ≤ ps.features.length) : (ddnStartIds S ps).getD i 0 ≤ (ddnStartIds S ps).getD j 0 := by
  rw [ddnStartIds_getD S ps i (by omega), ddnStartIds_getD S ps j hj, List.map_take, List.map_take]
  exact mo_sum_take_mono _ i j hij

/-- **F3** two (state, action) pairs whose action ids (w.r.t. the feature's agents) differ get different
    row ids: the blocks `[startIds[c], startIds[c+1])` of different action ids are disjoint -/
theorem ddnGetId_injective_on_action_blocks (S A : List Nat) (ps : ParentSet) (s a s' a' : List Nat)
    (hA : toIndexPartial ps.agents A a < ps.features.length)
    (hP : toIndexPartial (ps.features.getD (toIndexPartial ps.agents A a) []) S s <
      spacePartial (ps.features.getD (toIndexPartial ps.agents A a) []) S)
    (hA' : toIndexPartial ps.agents A a' < ps.features.length)
    (hP' : toIndexPartial (ps.features.getD (toIndexPartial ps.agents A a') []) S s' <
      spacePartial (ps.features.getD (toIndexPartial ps.agents A a') []) S)
    (hne : toIndexPartial ps.agents A a ≠ toIndexPartial ps.agents A a') :
    ddnGetId S A ps s a ≠ ddnGetId S A ps s' a' := by
  obtain ⟨l1, u1⟩ := ddnGetId_in_block S A ps s a hA hP
  obtain ⟨l2, u2⟩ := ddnGetId_in_block S A ps s' a' hA' hP'
  rcases Nat.lt_or_gt_of_ne hne with h | h
  · have := ddnStartIds_mono S ps (toIndexPartial ps.agents A a + 1) _ h (le_of_lt hA')
    omega
  · have := ddnStartIds_mono S ps (toIndexPartial ps.agents A a' + 1) _ h (le_of_lt hA)
    omega

/-- test (F3): the graph of the F1 test; states (1,2,1) under action 0 and (0,0,0) under action 1 -/
example : ddnGetId [2, 3, 2] [2] ⟨[0], [[0, 1], [2]]⟩ [1, 2, 1] [0] ≠
    ddnGetId [2, 3, 2] [2] ⟨[0], [[0, 1], [2]]⟩ [0, 0, 0] [1] :=
  ddnGetId_injective_on_action_blocks [2, 3, 2] [2] ⟨[0], [[0, 1], [2]]⟩ [1, 2, 1] [0] [0, 0, 0] [1]
    (by decide) (by decide) (by decide) (by decide) (by decide)

/-! ## J: joint distribution of the multi-draw samplers

  The set of draw vectors mapped to one outcome is a product of half-open intervals (a box) whose
  side lengths are the table entries, so its volume is the product of the table entries. -/

/-- **J4** (justifies fix C08-4, overflow-safe normalisation, in exact arithmetic): scaling by any
    `m ≠ 0` first (the code: the largest entry) and then normalising gives exactly the one-step
    normalisation of `projectToProbability` -/
theorem normalize_scaled_eq (v : List Rat) (m : Rat) (hm : m ≠ 0) (hP : posSum v ≠ 0) :
    let w := v.map (fun x => mask x * (x / m))
    w.map (fun y => y / w.sum) = v.map (fun x => mask x * (x / posSum v)) := by
  intro w
  have hw : w.sum = posSum v / m := sum_mask_mul_div m v
  rw [hw]
  show (v.map (fun x => mask x * (x / m))).map (fun y => y / (posSum v / m)) = _
  rw [List.map_map]
  apply List.map_congr_left
  intro x _
  simp only [Function.comp]
  field_simp

/-- test (J4): v = (2, -1, 6) scaled by its largest entry 6 -/
example : (([2, -1, 6] : List Rat).map (fun x => mask x * (x / 6))).map
      (fun y => y / (([2, -1, 6] : List Rat).map (fun x => mask x * (x / 6))).sum) = [1/4, 0, 3/4] := by
  have := normalize_scaled_eq [2, -1, 6] 6 (by norm_num) (by norm_num [posSum])
  simp only at this
  rw [this]; norm_num [posSum, mask]

/-- **J1** dense POMDP model: the pairs of draws mapped to (next state `s1`, observation `o`) are exactly
    the box `[c_{s1}, c_{s1} + T(s,a,s1)) × [c'_o, c'_o + O(s1,a,o))` -/
theorem sampleSOR_box (T O : Nat → Nat → List Rat) (R : Nat → Nat → Rat) (s a s1 o : Nat) (u1 u2 : Rat)
    (hnnT : ∀ x ∈ T a s, 0 ≤ x) (hsumT : (T a s).sum = 1)
    (hnnO : ∀ x ∈ O a s1, 0 ≤ x) (hsumO : (O a s1).sum = 1)
    (hu1 : 0 ≤ u1) (hu1' : u1 < 1) (hu2 : 0 ≤ u2) (hu2' : u2 < 1)
    (hs1 : s1 < (T a s).length) (ho : o < (O a s1).length) :
    ((sampleSOR T O R s a u1 u2).1 = s1 ∧ (sampleSOR T O R s a u1 u2).2.1 = o) ↔
      (cum (T a s) s1 ≤ u1 ∧ u1 < cum (T a s) s1 + (T a s).getD s1 0) ∧
      (cum (O a s1) o ≤ u2 ∧ u2 < cum (O a s1) o + (O a s1).getD o 0) := by
  have e1 := dense_preimage_sum_one (T a s) u1 s1 hnnT hsumT hu1 hu1'
  have e2 := dense_preimage_sum_one (O a s1) u2 o hnnO hsumO hu2 hu2'
  constructor
  · rintro ⟨h1, h2⟩
    change sampleDense (T a s) u1 = s1 at h1
    change sampleDense (O a (sampleDense (T a s) u1)) u2 = o at h2
    rw [h1] at h2
    exact ⟨(e1.mp h1).2, (e2.mp h2).2⟩
  · rintro ⟨b1, b2⟩
    have h1 := e1.mpr ⟨hs1, b1⟩
    refine ⟨h1, ?_⟩
    show sampleDense (O a (sampleDense (T a s) u1)) u2 = o
    rw [h1]; exact e2.mpr ⟨ho, b2⟩

/-- the area of the box of J1 is `T(s,a,s1) · O(s1,a,o)` -/
theorem sampleSOR_box_area (T O : Nat → Nat → List Rat) (s a s1 o : Nat) :
    ((cum (T a s) s1 + (T a s).getD s1 0) - cum (T a s) s1) *
      ((cum (O a s1) o + (O a s1).getD o 0) - cum (O a s1) o) = (T a s).getD s1 0 * (O a s1).getD o 0 := by
  ring

/-- test (J1) -/
example : (sampleSOR (fun _ _ => [1/4, 3/4]) (fun _ _ => [1/2, 1/2]) (fun _ _ => 0) 0 0 (1/2) (3/4)).1 = 1 ∧
    (sampleSOR (fun _ _ => [1/4, 3/4]) (fun _ _ => [1/2, 1/2]) (fun _ _ => 0) 0 0 (1/2) (3/4)).2.1 = 1 :=
  (sampleSOR_box (fun _ _ => [1/4, 3/4]) (fun _ _ => [1/2, 1/2]) (fun _ _ => 0) 0 0 1 1 (1/2) (3/4)
    (by norm_num) (by norm_num) (by norm_num) (by norm_num) (by norm_num) (by norm_num) (by norm_num)
    (by norm_num) (by simp) (by simp)).mpr (by norm_num [cum])

/-! ### J3: factored state -/

/-- `DDN::getTransitionProbability(s, a, s1)`: the product over the state factors of the entry of the
    selected row.  By `coopSampleS_box` this is the volume of the box of draw vectors that
    `CooperativeModel::sampleSR(s, a)` maps to `s1` (side `i` has length `row_i[s1_i]`). -/
def ddnTransitionProbability (S A : List Nat) (parents : List ParentSet) (T : List (List (List Rat)))
    (s a s1 : List Nat) : Rat :=
  ((List.range parents.length).map (fun i =>
    ((T.getD i []).getD (ddnGetId S A (parents.getD i ⟨[], []⟩) s a) []).getD (s1.getD i 0) 0)).prod

theorem mo_prod_nonneg : ∀ l : List Rat, (∀ x ∈ l, 0 ≤ x) → 0 ≤ l.prod
  | [], _ => by simp
  | x :: xs, h => by
    rw [List.prod_cons]
    exact mul_nonneg (h x (List.mem_cons_self ..))
      (mo_prod_nonneg xs (fun e he => h e (List.mem_cons_of_mem _ he)))

theorem mo_getD_nonneg (l : List Rat) (hnn : ∀ x ∈ l, 0 ≤ x) (k : Nat) : 0 ≤ l.getD k 0 := by
  rcases Nat.lt_or_ge k l.length with h | h
  · rw [mo_getD_eq_getElem _ _ _ h]; exact hnn _ (List.getElem_mem _)
  · simp [List.getD_eq_getElem?_getD, List.getElem?_eq_none h]

theorem ddnTransitionProbability_nonneg (S A : List Nat) (parents : List ParentSet)
    (T : List (List (List Rat))) (s a s1 : List Nat)
    (hnn : ∀ i, i < parents.length → ∀ x ∈ mo_coopRow S A parents T s a i, 0 ≤ x) :
    0 ≤ ddnTransitionProbability S A parents T s a s1 := by
  unfold ddnTransitionProbability
  apply mo_prod_nonneg
  intro x hx
  simp only [List.mem_map, List.mem_range] at hx
  obtain ⟨i, hi, rfl⟩ := hx
  exact mo_getD_nonneg _ (hnn i hi) _

theorem mo_list_eq_iff_getD (l1 l2 : List Nat) (h : l1.length = l2.length) :
    l1 = l2 ↔ ∀ i, i < l1.length → l1.getD i 0 = l2.getD i 0 := by
  constructor
  · rintro rfl _ _; rfl
  · intro hh
    apply List.ext_getElem h
    intro i h1 h2
    have := hh i h1
    rwa [mo_getD_eq_getElem _ _ _ h1, mo_getD_eq_getElem _ _ _ h2] at this

/-- **J3** the draw vectors that `CooperativeModel::sampleSR(s, a)` maps to the factored state `s1` are
    exactly the box `Π_i [c_i, c_i + row_i[s1_i])`, `row_i = mo_coopRow … i` (by definition
    `(T.getD i []).getD (ddnGetId S A (parents.getD i ⟨[], []⟩) s a) []`), `c_i = cum row_i s1_i`;
    its volume is `ddnTransitionProbability S A parents T s a s1` -/
theorem coopSampleS_box (S A : List Nat) (parents : List ParentSet) (T : List (List (List Rat)))
    (s a : List Nat) (us : List Rat) (s1 : List Nat)
    (h1 : parents.length = T.length) (h2 : T.length = us.length) (h3 : us.length = s1.length)
    (hrow : ∀ i, i < us.length →
      (∀ x ∈ mo_coopRow S A parents T s a i, 0 ≤ x) ∧ (mo_coopRow S A parents T s a i).sum = 1)
    (hu : ∀ i, i < us.length → 0 ≤ us.getD i 0 ∧ us.getD i 0 < 1)
    (hs1 : ∀ i, i < us.length → s1.getD i 0 < (mo_coopRow S A parents T s a i).length) :
    coopSampleS S A parents T s a us = s1 ↔
      ∀ i, i < us.length →
        cum (mo_coopRow S A parents T s a i) (s1.getD i 0) ≤ us.getD i 0 ∧
        us.getD i 0 < cum (mo_coopRow S A parents T s a i) (s1.getD i 0) +
          (mo_coopRow S A parents T s a i).getD (s1.getD i 0) 0 := by
  have hl := coopSampleS_length S A parents T s a us h1 h2
  rw [mo_list_eq_iff_getD _ _ (by omega), hl]
  apply forall_congr'
  intro i
  apply imp_congr_right
  intro hi
  rw [coopSampleS_getD S A parents T s a us h1 h2 i hi]
  have e := dense_preimage_sum_one (mo_coopRow S A parents T s a i) (us.getD i 0) (s1.getD i 0)
    (hrow i hi).1 (hrow i hi).2 (hu i hi).1 (hu i hi).2
  show sampleDense (mo_coopRow S A parents T s a i) (us.getD i 0) = s1.getD i 0 ↔ _
  rw [e]
  exact ⟨fun h => h.2, fun h => ⟨hs1 i hi, h⟩⟩

theorem ddnTransitionProbability_eq (S A : List Nat) (parents : List ParentSet)
    (T : List (List (List Rat))) (s a s1 : List Nat) :
    ddnTransitionProbability S A parents T s a s1 =
      ((List.range parents.length).map (fun i =>
        (mo_coopRow S A parents T s a i).getD (s1.getD i 0) 0)).prod := rfl

/-! ### J2: stored-row POMDP model -/

theorem mo_sparse_box (d : Nat) (row : List (Nat × Rat)) (k : Nat) (u : Rat)
    (hs : row.Pairwise (fun p q => p.1 < q.1)) (hnn : ∀ e ∈ row, 0 ≤ e.2)
    (hsum : (row.map (·.2)).sum = 1) (hk : k < row.length) (hu : 0 ≤ u) (hu1 : u < 1) :
    sampleSparseFixed d row u = (row[k]).1 ↔
      cum (row.map (·.2)) k ≤ u ∧ u < cum (row.map (·.2)) k + (row[k]).2 := by
  rw [ms_sparse_iff d row k hs hnn (mo_ne_nil_of_lt _ k hk) hk u hu,
    dense_preimage_sum_one (row.map (·.2)) u k (vals_nonneg row hnn) hsum hu hu1]
  have e : (row.map (·.2)).getD k 0 = (row[k]).2 := by simp [List.getD_eq_getElem?_getD, hk]
  rw [e]
  exact ⟨fun h => h.2, fun h => ⟨by simpa using hk, h⟩⟩

/-- **J2** stored-row POMDP model (sorted rows, values ≥ 0, stored sums exactly 1): the pairs of draws
    mapped to (column stored at position `k1` of the transition row, column stored at position `k2`
    of that state's observation row) are exactly the box with sides the two stored values -/
theorem sampleSORSparse_box (S O : Nat) (T Ob : Nat → Nat → List (Nat × Rat)) (R : Nat → Nat → Rat)
    (s a : Nat) (u1 u2 : Rat) (k1 k2 : Nat) (hk1 : k1 < (T a s).length)
    (hk2 : k2 < (Ob a ((T a s)[k1]).1).length)
    (hsT : (T a s).Pairwise (fun p q => p.1 < q.1)) (hnnT : ∀ e ∈ T a s, 0 ≤ e.2)
    (hsumT : ((T a s).map (·.2)).sum = 1)
    (hsO : (Ob a ((T a s)[k1]).1).Pairwise (fun p q => p.1 < q.1))
    (hnnO : ∀ e ∈ Ob a ((T a s)[k1]).1, 0 ≤ e.2)
    (hsumO : ((Ob a ((T a s)[k1]).1).map (·.2)).sum = 1)
    (hu1 : 0 ≤ u1) (hu1' : u1 < 1) (hu2 : 0 ≤ u2) (hu2' : u2 < 1) :
    ((sampleSORSparse S O T Ob R s a u1 u2).1 = ((T a s)[k1]).1 ∧
      (sampleSORSparse S O T Ob R s a u1 u2).2.1 = ((Ob a ((T a s)[k1]).1)[k2]).1) ↔
      (cum ((T a s).map (·.2)) k1 ≤ u1 ∧ u1 < cum ((T a s).map (·.2)) k1 + ((T a s)[k1]).2) ∧
      (cum ((Ob a ((T a s)[k1]).1).map (·.2)) k2 ≤ u2 ∧
        u2 < cum ((Ob a ((T a s)[k1]).1).map (·.2)) k2 + ((Ob a ((T a s)[k1]).1)[k2]).2) := by
  have e1 := mo_sparse_box S (T a s) k1 u1 hsT hnnT hsumT hk1 hu1 hu1'
  have e2 := mo_sparse_box O (Ob a ((T a s)[k1]).1) k2 u2 hsO hnnO hsumO hk2 hu2 hu2'
  constructor
  · rintro ⟨h1, h2⟩
    change sampleSparseFixed S (T a s) u1 = _ at h1
    change sampleSparseFixed O (Ob a (sampleSparseFixed S (T a s) u1)) u2 = _ at h2
    rw [h1] at h2
    exact ⟨e1.mp h1, e2.mp h2⟩
  · rintro ⟨b1, b2⟩
    have h1 := e1.mpr b1
    refine ⟨h1, ?_⟩
    show sampleSparseFixed O (Ob a (sampleSparseFixed S (T a s) u1)) u2 = _
    rw [h1]; exact e2.mpr b2

/-- the area of the box of J2 is the product of the two stored values -/
theorem sampleSORSparse_box_area (c1 c2 v1 v2 : Rat) : ((c1 + v1) - c1) * ((c2 + v2) - c2) = v1 * v2 := by
  ring


/-- test (J3): one binary factor with one agent; state (1), action (0) selects row 1 = (1/2, 1/2); the draw 3/4 gives 1 -/
example : coopSampleS [2] [2] [⟨[0], [[0], [0]]⟩] [[[1/4, 3/4], [1/2, 1/2], [1, 0], [0, 1]]] [1] [0] [3/4] = [1] := by
  have hid : ddnGetId [2] [2] ⟨[0], [[0], [0]]⟩ [1] [0] = 1 := by decide
  have hrow : ∀ i, i < 1 → mo_coopRow [2] [2] [⟨[0], [[0], [0]]⟩] [[[1/4, 3/4], [1/2, 1/2], [1, 0], [0, 1]]] [1] [0] i
      = [1/2, 1/2] := by
    intro i hi
    obtain rfl : i = 0 := by omega
    simp [mo_coopRow, hid]
  refine (coopSampleS_box [2] [2] _ _ [1] [0] [3/4] [1] rfl rfl rfl ?_ ?_ ?_).mpr ?_
  all_goals
    intro i hi
    have hi' : i < 1 := hi
    try rw [hrow i hi']
    obtain rfl : i = 0 := by omega
    norm_num [cum]

/-- test (J2) -/
example : (sampleSORSparse 4 3 (fun _ _ => [(1, 1/4), (3, 3/4)]) (fun _ _ => [(0, 1/2), (2, 1/2)]) (fun _ _ => 0)
      0 0 (1/2) (3/4)).1 = 3 ∧
    (sampleSORSparse 4 3 (fun _ _ => [(1, 1/4), (3, 3/4)]) (fun _ _ => [(0, 1/2), (2, 1/2)]) (fun _ _ => 0)
      0 0 (1/2) (3/4)).2.1 = 2 :=
  (sampleSORSparse_box 4 3 (fun _ _ => [(1, 1/4), (3, 3/4)]) (fun _ _ => [(0, 1/2), (2, 1/2)]) (fun _ _ => 0)
    0 0 (1/2) (3/4) 1 1 (by simp) (by simp) (by simp) (by norm_num) (by norm_num) (by simp) (by norm_num)
    (by norm_num) (by norm_num) (by norm_num) (by norm_num) (by norm_num)).mpr (by norm_num [cum])

/-! ## V: end-to-end statements with the acceptance tolerance of `isProbability` -/

theorem mo_vose_fixed_ne_nil (p : List Rat) (avg : Rat) (hne : p ≠ []) : (voseBuildFixed p avg).1 ≠ [] := by
  intro h
  have hl1 := (vose_fixed_lengths p avg).1
  rw [h] at hl1
  exact hne (List.length_eq_zero_iff.mp hl1.symm)

/-- **V1** repaired constructor + table sampler never leave the range, for EVERY `p` and `avg`
    (no validity assumption) -/
theorem vose_sampler_in_range (p : List Rat) (avg u : Rat) (hne : p ≠ []) (hu0 : 0 ≤ u) (hu1 : u < 1) :
    aliasSample (voseBuildFixed p avg).1 (voseBuildFixed p avg).2 u < p.length := by
  obtain ⟨hl1, hl2⟩ := vose_fixed_lengths p avg
  have h := aliasSample_in_range (voseBuildFixed p avg).1 (voseBuildFixed p avg).2 u (hl2.trans hl1.symm)
    (fun a ha => by rw [hl1]; exact vose_fixed_alias_in_range p avg a ha) hu0 hu1
    (mo_vose_fixed_ne_nil p avg hne)
  rwa [hl1] at h

/-- test (V1): an invalid vector and an arbitrary `avg` -/
example : aliasSample (voseBuildFixed [3, -1, 1/2] 7).1 (voseBuildFixed [3, -1, 1/2] 7).2 (9/10) < 3 :=
  vose_sampler_in_range [3, -1, 1/2] 7 (9/10) (by simp) (by norm_num) (by norm_num)

/-- **V2** any vector accepted by `isProbability`, exact `avg = 1/n` -/
theorem vose_selects_valid (p : List Rat) (hne : p ≠ []) (hp : isProb p = true) (j : Nat) (hj : j < p.length) :
    ∃ q, SelectsWithProb (aliasSample (voseBuildFixed p (1 / (p.length : Rat))).1
        (voseBuildFixed p (1 / (p.length : Rat))).2) j q ∧
      absQ (q - p.getD j 0) ≤ AITB.Gen.equalToleranceSmall := by
  obtain ⟨hl1, hl2⟩ := vose_fixed_lengths p (1 / (p.length : Rat))
  obtain ⟨c, ht⟩ := alias_cert _ _ j (hl2.trans hl1.symm) (mo_vose_fixed_ne_nil p _ hne)
  exact ⟨_, ⟨_, c, ht⟩, vose_correct_valid p hne hp j hj⟩

/-- **V3** the table the C++ code really builds (`avg = 1.0/n` in double, within 2^-53 of `1/n`) -/
theorem vose_selects_double_avg (p : List Rat) (avg : Rat) (hne : p ≠ []) (hp : isProb p = true)
    (havg : absQ (avg - 1 / (p.length : Rat)) ≤ 1 / 2 ^ 53) (j : Nat) (hj : j < p.length) :
    ∃ q, SelectsWithProb (aliasSample (voseBuildFixed p avg).1 (voseBuildFixed p avg).2) j q ∧
      absQ (q - p.getD j 0) ≤ AITB.Gen.equalToleranceSmall + ((2 * p.length + 1 : Nat) : Rat) / 2 ^ 53 := by
  obtain ⟨hl1, hl2⟩ := vose_fixed_lengths p avg
  obtain ⟨c, ht⟩ := alias_cert _ _ j (hl2.trans hl1.symm) (mo_vose_fixed_ne_nil p _ hne)
  exact ⟨_, ⟨_, c, ht⟩, vose_correct_double_avg p avg hne hp havg j hj⟩

/-- **V4** -/
theorem sampleSRSparse_selects_valid (S : Nat) (T : Nat → Nat → List (Nat × Rat)) (R : Nat → Nat → Rat)
    (s a : Nat) (hs : (T a s).Pairwise (fun p q => p.1 < q.1)) (hnn : ∀ e ∈ T a s, 0 ≤ e.2)
    (hp : isProb ((T a s).map (·.2)) = true) (hne : T a s ≠ []) (k : Nat) (hk : k < (T a s).length) :
    ∃ q, SelectsWithProb (fun u => (sampleSRSparse S T R s a u).1) ((T a s)[k]).1 q ∧
      absQ (q - ((T a s)[k]).2) ≤ AITB.Gen.equalToleranceSmall :=
  sparseFixed_selects_valid S (T a s) hs hnn hp hne k hk

/-- **V5** -/
theorem coopSampleS_factor_selects_valid (S A : List Nat) (parents : List ParentSet)
    (T : List (List (List Rat))) (s a : List Nat) (pre post : List Rat) (k : Nat)
    (h1 : parents.length = T.length) (h2 : T.length = pre.length + 1 + post.length)
    (hp : isProb (mo_coopRow S A parents T s a pre.length) = true)
    (hk : k < (mo_coopRow S A parents T s a pre.length).length) :
    ∃ q, SelectsWithProb
        (fun u => (coopSampleS S A parents T s a (pre ++ u :: post)).getD pre.length 0) k q ∧
      absQ (q - (mo_coopRow S A parents T s a pre.length).getD k 0) ≤ AITB.Gen.equalToleranceSmall := by
  obtain ⟨q, ⟨ivs, c, ht⟩, hq⟩ := dense_selects_valid _ k hp hk
  refine ⟨q, ⟨ivs, ms_cert_congr _ _ _ _ _ ?_ c, ht⟩, hq⟩
  intro u _ _
  have hlen : T.length = (pre ++ u :: post).length := by simp; omega
  have e := coopSampleS_getD S A parents T s a (pre ++ u :: post) h1 hlen pre.length (by simp)
  have eu : (pre ++ u :: post).getD pre.length 0 = u := by simp [List.getD_eq_getElem?_getD]
  rw [eu] at e
  show (coopSampleS S A parents T s a (pre ++ u :: post)).getD pre.length 0 = k ↔ _
  rw [e]; rfl

/-- **V6** dense POMDP model -/
theorem sampleSOR_obs_selects_valid (T O : Nat → Nat → List Rat) (R : Nat → Nat → Rat) (s a o : Nat)
    (u1 : Rat) (hp : isProb (O a (sampleDense (T a s) u1)) = true)
    (ho : o < (O a (sampleDense (T a s) u1)).length) :
    ∃ q, SelectsWithProb (fun u2 => (sampleSOR T O R s a u1 u2).2.1) o q ∧
      absQ (q - (O a (sampleDense (T a s) u1)).getD o 0) ≤ AITB.Gen.equalToleranceSmall := by
  obtain ⟨q, ⟨ivs, c, ht⟩, hq⟩ := dense_selects_valid (O a (sampleDense (T a s) u1)) o hp ho
  exact ⟨q, ⟨ivs, ms_cert_congr _ _ _ _ _ (fun _ _ _ => Iff.rfl) c, ht⟩, hq⟩

/-- **V6** stored-row POMDP model -/
theorem sampleSORSparse_obs_selects_valid (S O : Nat) (T Ob : Nat → Nat → List (Nat × Rat))
    (R : Nat → Nat → Rat) (s a : Nat) (u1 : Rat)
    (hs : (Ob a (sampleSparseFixed S (T a s) u1)).Pairwise (fun p q => p.1 < q.1))
    (hnn : ∀ e ∈ Ob a (sampleSparseFixed S (T a s) u1), 0 ≤ e.2)
    (hp : isProb ((Ob a (sampleSparseFixed S (T a s) u1)).map (·.2)) = true)
    (k : Nat) (hk : k < (Ob a (sampleSparseFixed S (T a s) u1)).length) :
    ∃ q, SelectsWithProb (fun u2 => (sampleSORSparse S O T Ob R s a u1 u2).2.1)
        ((Ob a (sampleSparseFixed S (T a s) u1))[k]).1 q ∧
      absQ (q - ((Ob a (sampleSparseFixed S (T a s) u1))[k]).2) ≤ AITB.Gen.equalToleranceSmall :=
  sparseFixed_selects_valid O (Ob a (sampleSparseFixed S (T a s) u1)) hs hnn hp (mo_ne_nil_of_lt _ k hk) k hk

/-- **V6'** `sampleORSparse`, tolerance version -/
theorem sampleORSparse_selects_valid (O : Nat) (Ob : Nat → Nat → List (Nat × Rat)) (R : Nat → Nat → Rat)
    (s a s1 : Nat) (hs : (Ob a s1).Pairwise (fun p q => p.1 < q.1)) (hnn : ∀ e ∈ Ob a s1, 0 ≤ e.2)
    (hp : isProb ((Ob a s1).map (·.2)) = true) (k : Nat) (hk : k < (Ob a s1).length) :
    ∃ q, SelectsWithProb (fun u => (sampleORSparse O Ob R s a s1 u).1) ((Ob a s1)[k]).1 q ∧
      absQ (q - ((Ob a s1)[k]).2) ≤ AITB.Gen.equalToleranceSmall :=
  sparseFixed_selects_valid O (Ob a s1) hs hnn hp (mo_ne_nil_of_lt _ k hk) k hk

/-- **V7** for positive draws whose sum exceeds `1 + tol`, the (repaired) projection is the Dirichlet
    normalisation: `projectToProbability` takes its "normalize" branch and divides by the sum -/
theorem dirichlet_as_projection (gs : List Rat) (hpos : ∀ g ∈ gs, 0 < g)
    (hs : 1 + AITB.Gen.equalToleranceSmall < gs.sum) : projectFixed gs = dirichletFromGammas gs := by
  have hP : posSum gs = gs.sum := posSum_eq_sum_of_nonneg gs (fun x hx => le_of_lt (hpos x hx))
  have ht := tol_pos
  have e1 : eqSmall gs.sum 1 = false := (eqSmall_false_iff _ _).mpr (Or.inl (by linarith))
  have e0 : eqSmall gs.sum 0 = false := (eqSmall_false_iff _ _).mpr (Or.inl (by linarith))
  have hgt : gs.sum > 1 := by linarith
  unfold projectFixed dirichletFromGammas
  simp only [hP, e1, e0, hgt, if_true, Bool.false_eq_true, if_false]
  apply List.map_congr_left
  intro x hx
  rw [mask_of_nonneg (le_of_lt (hpos x hx)), one_mul]

/-- … and likewise for the projection as it is (the two agree off the tolerance branches) -/
theorem dirichlet_as_projection_current (gs : List Rat) (hpos : ∀ g ∈ gs, 0 < g)
    (hs : 1 + AITB.Gen.equalToleranceSmall < gs.sum) : project gs = dirichletFromGammas gs := by
  have hP : posSum gs = gs.sum := posSum_eq_sum_of_nonneg gs (fun x hx => le_of_lt (hpos x hx))
  have ht := tol_pos
  have e1 : eqSmall gs.sum 1 = false := (eqSmall_false_iff _ _).mpr (Or.inl (by linarith))
  have e0 : eqSmall gs.sum 0 = false := (eqSmall_false_iff _ _).mpr (Or.inl (by linarith))
  have hgt : gs.sum > 1 := by linarith
  unfold project dirichletFromGammas
  simp only [hP, e1, e0, hgt, if_true, Bool.false_eq_true, if_false]
  apply List.map_congr_left
  intro x hx
  rw [mask_of_nonneg (le_of_lt (hpos x hx)), one_mul]

/-- test (V7) -/
example : projectFixed [1, 2, 1] = [1/4, 1/2, 1/4] := by
  rw [dirichlet_as_projection [1, 2, 1] (by norm_num) (by norm_num [Gen.equalToleranceSmall])]
  norm_num [dirichletFromGammas]

/-! ## L: justification of fixes/C08-6 (sample log-gammas, subtract the maximum, exponentiate, normalise) -/

/-- **L1** -/
theorem beta_scale_invariant (x y c : Rat) (hc : c ≠ 0) :
    betaFromGammas (c * x) (c * y) = betaFromGammas x y := by
  unfold betaFromGammas
  rw [← mul_add, mul_div_mul_left x (x + y) hc]

theorem mo_mem_le_sum : ∀ (l : List Rat), (∀ x ∈ l, 0 ≤ x) → ∀ x ∈ l, x ≤ l.sum
  | [], _, x, hx => by simp at hx
  | y :: l, h, x, hx => by
    have hl : ∀ z ∈ l, 0 ≤ z := fun z hz => h z (List.mem_cons_of_mem _ hz)
    have h0 : 0 ≤ l.sum := List.sum_nonneg hl
    have hy := h y (List.mem_cons_self ..)
    rw [List.sum_cons]
    rcases List.mem_cons.mp hx with rfl | hx
    · linarith
    · have := mo_mem_le_sum l hl x hx; linarith

theorem mo_sum_le_length : ∀ (l : List Rat), (∀ x ∈ l, x ≤ 1) → l.sum ≤ (l.length : Rat)
  | [], _ => by simp
  | y :: l, h => by
    have := mo_sum_le_length l (fun z hz => h z (List.mem_cons_of_mem _ hz))
    have hy := h y (List.mem_cons_self ..)
    rw [List.sum_cons, List.length_cons]; push_cast; linarith

/-- **L2** after dividing by the largest variate one entry is exactly 1 and all are in [0,1]: the sum is
    in [1, n], so the normalisation is never 0/0 — whatever underflows -/
theorem dirichlet_valid_of_max_one (gs : List Rat) (h01 : ∀ g ∈ gs, 0 ≤ g ∧ g ≤ 1) (h1 : (1 : Rat) ∈ gs) :
    (∀ y ∈ dirichletFromGammas gs, 0 ≤ y) ∧ (dirichletFromGammas gs).sum = 1 ∧ 1 ≤ gs.sum ∧
      gs.sum ≤ (gs.length : Rat) := by
  have hs : 1 ≤ gs.sum := mo_mem_le_sum gs (fun g hg => (h01 g hg).1) 1 h1
  obtain ⟨a, b⟩ := dirichlet_valid_nonneg gs (fun g hg => (h01 g hg).1) (by linarith)
  exact ⟨a, b, hs, mo_sum_le_length gs (fun g hg => (h01 g hg).2)⟩

/-- **L3** -/
theorem dirichlet_max_shift (gs : List Rat) (m : Rat) (hm : m ≠ 0) :
    dirichletFromGammas (gs.map (· / m)) = dirichletFromGammas gs := by
  have h := dirichlet_scale_invariant gs (1 / m) (one_div_ne_zero hm)
  rw [← h]
  congr 1
  apply List.map_congr_left
  intro g _
  ring

/-- test (L2/L3): draws (2, 4, 0) divided by the maximum 4 -/
example : dirichletFromGammas (([2, 4, 0] : List Rat).map (· / 4)) = [1/3, 2/3, 0] ∧
    (dirichletFromGammas (([2, 4, 0] : List Rat).map (· / 4))).sum = 1 := by
  refine ⟨?_, (dirichlet_valid_of_max_one _ (by norm_num) (by norm_num)).2.1⟩
  rw [dirichlet_max_shift _ 4 (by norm_num)]; norm_num [dirichletFromGammas]

/-! ## joint certificates: "joint probability = product of table entries" as a literal statement -/

/-- a box of draw vectors: one half-open interval per coordinate -/
def inBox (box : List (Rat × Rat)) (us : List Rat) : Prop :=
  box.length = us.length ∧ ∀ i, i < us.length → inIv (box.getD i (0, 0)) (us.getD i 0)

def boxVol (box : List (Rat × Rat)) : Rat := (box.map (fun iv => iv.2 - iv.1)).prod

/-- `f` maps exactly the draw vectors of the boxes (pairwise disjoint, inside the unit cube of dimension n) to `x` -/
structure PreimageCertN {α : Type} (n : Nat) (f : List Rat → α) (x : α) (boxes : List (List (Rat × Rat))) : Prop where
  mem : ∀ us : List Rat, us.length = n → (∀ u ∈ us, 0 ≤ u ∧ u < 1) → (f us = x ↔ ∃ b ∈ boxes, inBox b us)
  wf : ∀ b ∈ boxes, b.length = n ∧ ∀ iv ∈ b, 0 ≤ iv.1 ∧ iv.1 ≤ iv.2 ∧ iv.2 ≤ 1
  disjoint : boxes.Pairwise (fun a b => ∀ us, ¬ (inBox a us ∧ inBox b us))

/-- `f` maps a set of draw vectors of volume `q` (a finite disjoint union of boxes) to `x` -/
def SelectsJointly {α : Type} (n : Nat) (f : List Rat → α) (x : α) (q : Rat) : Prop :=
  ∃ boxes, PreimageCertN n f x boxes ∧ (boxes.map boxVol).sum = q

/-- the interval `[c_k, c_k + l_k)` of a row with entries ≥ 0 and sum 1 lies in `[0,1]` -/
theorem mo_iv_wf (l : List Rat) (hnn : ∀ x ∈ l, 0 ≤ x) (hsum : l.sum = 1) (k : Nat) (hk : k < l.length) :
    0 ≤ cum l k ∧ cum l k ≤ cum l k + l.getD k 0 ∧ cum l k + l.getD k 0 ≤ 1 := by
  refine ⟨cum_nonneg l k hnn, ?_, ?_⟩
  · have := mo_getD_nonneg l hnn k; linarith
  · rw [← cum_succ_eq l k hk, ← hsum]; exact cum_le_sum l (k + 1) hnn

theorem mo_inBox_two (a b c d u1 u2 : Rat) :
    inBox [(a, b), (c, d)] [u1, u2] ↔ (a ≤ u1 ∧ u1 < b) ∧ (c ≤ u2 ∧ u2 < d) := by
  unfold inBox inIv
  constructor
  · rintro ⟨_, h⟩
    have h0 := h 0 (by simp)
    have h1 := h 1 (by simp)
    simpa using And.intro h0 h1
  · rintro ⟨h0, h1⟩
    refine ⟨rfl, ?_⟩
    intro i hi
    have hi' : i < 2 := hi
    match i, hi' with
    | 0, _ => simpa using h0
    | 1, _ => simpa using h1

/-- a two-draw sampler whose preimage of `x` in the unit square is one box -/
theorem mo_jointly_two {α : Type} (f : List Rat → α) (x : α) (a b c d : Rat)
    (hmem : ∀ u1 u2, 0 ≤ u1 → u1 < 1 → 0 ≤ u2 → u2 < 1 →
      (f [u1, u2] = x ↔ (a ≤ u1 ∧ u1 < b) ∧ (c ≤ u2 ∧ u2 < d)))
    (w1 : 0 ≤ a ∧ a ≤ b ∧ b ≤ 1) (w2 : 0 ≤ c ∧ c ≤ d ∧ d ≤ 1) :
    SelectsJointly 2 f x ((b - a) * (d - c)) := by
  refine ⟨[[(a, b), (c, d)]], ⟨?_, ?_, List.pairwise_singleton _ _⟩, ?_⟩
  · intro us hlen hu
    obtain ⟨u1, u2, rfl⟩ := List.length_eq_two.mp hlen
    have h1 := hu u1 (by simp)
    have h2 := hu u2 (by simp)
    rw [hmem u1 u2 h1.1 h1.2 h2.1 h2.2]
    simp only [List.mem_singleton, exists_eq_left, mo_inBox_two]
  · intro bx hb
    rw [List.mem_singleton] at hb; subst hb
    refine ⟨rfl, ?_⟩
    intro iv hiv
    simp only [List.mem_cons, List.not_mem_nil, or_false] at hiv
    rcases hiv with rfl | rfl
    · exact w1
    · exact w2
  · simp [boxVol]

/-- **J5** dense POMDP model: the pair (next state `s1`, observation `o`) is selected with joint
    probability `T(s,a,s1) · O(s1,a,o)` -/
theorem sampleSOR_selects_jointly (T O : Nat → Nat → List Rat) (R : Nat → Nat → Rat) (s a s1 o : Nat)
    (hnnT : ∀ x ∈ T a s, 0 ≤ x) (hsumT : (T a s).sum = 1)
    (hnnO : ∀ x ∈ O a s1, 0 ≤ x) (hsumO : (O a s1).sum = 1)
    (hs1 : s1 < (T a s).length) (ho : o < (O a s1).length) :
    SelectsJointly 2
      (fun us => ((sampleSOR T O R s a (us.getD 0 0) (us.getD 1 0)).1,
        (sampleSOR T O R s a (us.getD 0 0) (us.getD 1 0)).2.1))
      (s1, o) ((T a s).getD s1 0 * (O a s1).getD o 0) := by
  obtain ⟨boxes, c, hv⟩ := mo_jointly_two
    (fun us => ((sampleSOR T O R s a (us.getD 0 0) (us.getD 1 0)).1,
        (sampleSOR T O R s a (us.getD 0 0) (us.getD 1 0)).2.1)) (s1, o)
    (cum (T a s) s1) (cum (T a s) s1 + (T a s).getD s1 0)
    (cum (O a s1) o) (cum (O a s1) o + (O a s1).getD o 0)
    (fun u1 u2 a1 a2 b1 b2 => by
      rw [← sampleSOR_box T O R s a s1 o u1 u2 hnnT hsumT hnnO hsumO a1 a2 b1 b2 hs1 ho]
      simp only [List.getD_cons_zero, List.getD_cons_succ, Prod.mk.injEq])
    (mo_iv_wf _ hnnT hsumT s1 hs1) (mo_iv_wf _ hnnO hsumO o ho)
  exact ⟨boxes, c, hv.trans (by ring)⟩

/-- test (J5): T = (1/4, 3/4), O = (1/2, 1/2): the pair (1, 1) has joint probability 3/8 -/
example : SelectsJointly 2
    (fun us => ((sampleSOR (fun _ _ => [1/4, 3/4]) (fun _ _ => [1/2, 1/2]) (fun _ _ => 0) 0 0 (us.getD 0 0) (us.getD 1 0)).1,
      (sampleSOR (fun _ _ => [1/4, 3/4]) (fun _ _ => [1/2, 1/2]) (fun _ _ => 0) 0 0 (us.getD 0 0) (us.getD 1 0)).2.1))
    (1, 1) (3/8) := by
  have := sampleSOR_selects_jointly (fun _ _ => [1/4, 3/4]) (fun _ _ => [1/2, 1/2]) (fun _ _ => 0) 0 0 1 1
    (by norm_num) (by norm_num) (by norm_num) (by norm_num) (by simp) (by simp)
  norm_num at this
  exact this

/-- **J7** stored-row POMDP model: the pair (column stored at position `k1`, column stored at position
    `k2` of that state's observation row) is selected with joint probability the product of the two
    stored values -/
theorem sampleSORSparse_selects_jointly (S O : Nat) (T Ob : Nat → Nat → List (Nat × Rat))
    (R : Nat → Nat → Rat) (s a : Nat) (k1 k2 : Nat) (hk1 : k1 < (T a s).length)
    (hk2 : k2 < (Ob a ((T a s)[k1]).1).length)
    (hsT : (T a s).Pairwise (fun p q => p.1 < q.1)) (hnnT : ∀ e ∈ T a s, 0 ≤ e.2)
    (hsumT : ((T a s).map (·.2)).sum = 1)
    (hsO : (Ob a ((T a s)[k1]).1).Pairwise (fun p q => p.1 < q.1))
    (hnnO : ∀ e ∈ Ob a ((T a s)[k1]).1, 0 ≤ e.2)
    (hsumO : ((Ob a ((T a s)[k1]).1).map (·.2)).sum = 1) :
    SelectsJointly 2
      (fun us => ((sampleSORSparse S O T Ob R s a (us.getD 0 0) (us.getD 1 0)).1,
        (sampleSORSparse S O T Ob R s a (us.getD 0 0) (us.getD 1 0)).2.1))
      (((T a s)[k1]).1, ((Ob a ((T a s)[k1]).1)[k2]).1)
      (((T a s)[k1]).2 * ((Ob a ((T a s)[k1]).1)[k2]).2) := by
  have w1 := mo_iv_wf _ (vals_nonneg _ hnnT) hsumT k1 (by simpa using hk1)
  have w2 := mo_iv_wf _ (vals_nonneg _ hnnO) hsumO k2 (by simpa using hk2)
  have e1 : ((T a s).map (·.2)).getD k1 0 = ((T a s)[k1]).2 := by
    simp [List.getD_eq_getElem?_getD, hk1]
  have e2 : ((Ob a ((T a s)[k1]).1).map (·.2)).getD k2 0 = ((Ob a ((T a s)[k1]).1)[k2]).2 := by
    simp [List.getD_eq_getElem?_getD, hk2]
  rw [e1] at w1; rw [e2] at w2
  obtain ⟨boxes, c, hv⟩ := mo_jointly_two
    (fun us => ((sampleSORSparse S O T Ob R s a (us.getD 0 0) (us.getD 1 0)).1,
        (sampleSORSparse S O T Ob R s a (us.getD 0 0) (us.getD 1 0)).2.1))
    (((T a s)[k1]).1, ((Ob a ((T a s)[k1]).1)[k2]).1) _ _ _ _
    (fun u1 u2 a1 a2 b1 b2 => by
      rw [← sampleSORSparse_box S O T Ob R s a u1 u2 k1 k2 hk1 hk2 hsT hnnT hsumT hsO hnnO hsumO a1 a2 b1 b2]
      simp only [List.getD_cons_zero, List.getD_cons_succ, Prod.mk.injEq])
    w1 w2
  exact ⟨boxes, c, hv.trans (by ring)⟩

/-- **J6** `CooperativeModel::sampleSR(s, a)` selects the factored state `s1` with joint probability
    `ddnTransitionProbability S A parents T s a s1` = Π_i row_i[s1_i], the value
    `DDN::getTransitionProbability(s, a, s1)` returns (one box, side `i` = `[c_i, c_i + row_i[s1_i])`) -/
theorem coopSampleS_selects_jointly (S A : List Nat) (parents : List ParentSet) (T : List (List (List Rat)))
    (s a s1 : List Nat) (n : Nat)
    (h1 : parents.length = n) (h2 : T.length = n) (h3 : s1.length = n)
    (hrow : ∀ i, i < n →
      (∀ x ∈ mo_coopRow S A parents T s a i, 0 ≤ x) ∧ (mo_coopRow S A parents T s a i).sum = 1)
    (hs1 : ∀ i, i < n → s1.getD i 0 < (mo_coopRow S A parents T s a i).length) :
    SelectsJointly n (fun us => coopSampleS S A parents T s a us) s1
      (ddnTransitionProbability S A parents T s a s1) := by
  let side : Nat → Rat × Rat := fun i =>
    (cum (mo_coopRow S A parents T s a i) (s1.getD i 0),
      cum (mo_coopRow S A parents T s a i) (s1.getD i 0) +
        (mo_coopRow S A parents T s a i).getD (s1.getD i 0) 0)
  have hbl : ((List.range n).map side).length = n := by simp
  refine ⟨[(List.range n).map side], ⟨?_, ?_, List.pairwise_singleton _ _⟩, ?_⟩
  · intro us hlen hu
    simp only [List.mem_singleton, exists_eq_left]
    subst hlen
    rw [coopSampleS_box S A parents T s a us s1 (h1.trans h2.symm) h2 h3.symm hrow
      (fun i hi => by
        rw [mo_getD_eq_getElem _ _ _ hi]; exact hu _ (List.getElem_mem _)) hs1]
    unfold inBox inIv
    rw [hbl]
    constructor
    · intro h
      refine ⟨rfl, fun i hi => ?_⟩
      rw [mo_getD_map_range side (0, 0) _ i hi]
      exact h i hi
    · rintro ⟨_, h⟩ i hi
      have := h i hi
      rw [mo_getD_map_range side (0, 0) _ i hi] at this
      exact this
  · intro bx hb
    rw [List.mem_singleton] at hb; subst hb
    refine ⟨hbl, ?_⟩
    intro iv hiv
    simp only [List.mem_map, List.mem_range] at hiv
    obtain ⟨i, hi, rfl⟩ := hiv
    exact mo_iv_wf _ (hrow i hi).1 (hrow i hi).2 _ (hs1 i hi)
  · rw [ddnTransitionProbability_eq, h1]
    simp only [List.map_cons, List.map_nil, List.sum_cons, List.sum_nil, add_zero, boxVol, List.map_map]
    congr 1
    apply List.map_congr_left
    intro i _
    simp only [Function.comp, side]
    ring


/-- test (J6): one binary factor with one agent; state (1), action (0) selects row 1 = (1/2, 1/2):
    next state (1) has probability 1/2 -/
example : SelectsJointly 1
    (fun us => coopSampleS [2] [2] [⟨[0], [[0], [0]]⟩] [[[1/4, 3/4], [1/2, 1/2], [1, 0], [0, 1]]] [1] [0] us)
    [1] (1/2) := by
  have hid : ddnGetId [2] [2] ⟨[0], [[0], [0]]⟩ [1] [0] = 1 := by decide
  have hrow : ∀ i, i < 1 → mo_coopRow [2] [2] [⟨[0], [[0], [0]]⟩] [[[1/4, 3/4], [1/2, 1/2], [1, 0], [0, 1]]] [1] [0] i
      = [1/2, 1/2] := by
    intro i hi
    obtain rfl : i = 0 := by omega
    simp [mo_coopRow, hid]
  have h := coopSampleS_selects_jointly [2] [2] [⟨[0], [[0], [0]]⟩] [[[1/4, 3/4], [1/2, 1/2], [1, 0], [0, 1]]]
    [1] [0] [1] 1 rfl rfl rfl
    (fun i hi => by rw [hrow i hi]; norm_num)
    (fun i hi => by rw [hrow i hi]; obtain rfl : i = 0 := by omega
                    simp)
  have hv : ddnTransitionProbability [2] [2] [⟨[0], [[0], [0]]⟩] [[[1/4, 3/4], [1/2, 1/2], [1, 0], [0, 1]]]
      [1] [0] [1] = 1/2 := by
    simp [ddnTransitionProbability, hid]
  rwa [hv] at h

end AITB.Sampling
