/-
  AITB.Props.C03Basic — algebra of the belief-MDP operator of AITB.Model.POMDP3: linearity of the unnormalised belief update,
  conservation of mass, monotonicity of `Hop`, sublinearity (convex + positively homogeneous) is preserved by `Hop`.
-/
import AITB.Model.POMDP3
import AITB.Props.C01
import Mathlib.Tactic.Positivity

namespace AITB.POMDP3
open AITB.MDP

/-- the tables describe a discounted POMDP -/
structure Valid (m : POMDP) : Prop where
  γ0 : 0 ≤ m.γ
  γ1 : m.γ < 1
  A0 : 0 < m.A
  T0 : ∀ s a s1, 0 ≤ m.T s a s1
  T1 : ∀ s a, s < m.S → sumTo m.S (m.T s a) = 1
  O0 : ∀ s1 a o, 0 ≤ m.Ob s1 a o
  O1 : ∀ s1 a, s1 < m.S → sumTo m.O (m.Ob s1 a) = 1

/-- componentwise non-negative (an unnormalised belief) -/
def NN (x : Nat → Rat) : Prop := ∀ s, 0 ≤ x s

theorem sumTo_comm (n k : Nat) (f : Nat → Nat → Rat) :
    sumTo n (fun i => sumTo k (fun j => f i j)) = sumTo k (fun j => sumTo n (fun i => f i j)) := by
  simp only [sumTo_eq]
  exact Finset.sum_comm

theorem sumTo_mul_right (n : Nat) (c : Rat) (f : Nat → Rat) : sumTo n (fun i => f i * c) = sumTo n f * c := by
  simp only [sumTo_eq, Finset.sum_mul]

theorem sumTo_nonneg {n : Nat} {f : Nat → Rat} (h : ∀ i, i < n → 0 ≤ f i) : 0 ≤ sumTo n f := by
  induction n with
  | zero => simp [sumTo]
  | succ n ih =>
    simp only [sumTo]
    have := ih (fun i hi => h i (by omega))
    have := h n (by omega)
    linarith

theorem sumTo_zero (n : Nat) : sumTo n (fun _ => (0 : Rat)) = 0 := by
  induction n with
  | zero => rfl
  | succ n ih => simp [sumTo, ih]

theorem sumTo_sub (n : Nat) (f g : Nat → Rat) : sumTo n (fun i => f i - g i) = sumTo n f - sumTo n g := by
  induction n with
  | zero => simp [sumTo]
  | succ n ih => simp only [sumTo, ih]; ring

theorem bstep_nonneg (m : POMDP) (hv : Valid m) (x : Nat → Rat) (hx : NN x) (a o : Nat) : NN (bstep m x a o) := by
  intro s1
  unfold bstep
  exact mul_nonneg (sumTo_nonneg (fun s _ => mul_nonneg (hx s) (hv.T0 s a s1))) (hv.O0 s1 a o)

/-- `x ↦ bstep x a o` is additive -/
theorem bstep_add (m : POMDP) (x y : Nat → Rat) (a o : Nat) :
    bstep m (fun s => x s + y s) a o = fun s1 => bstep m x a o s1 + bstep m y a o s1 := by
  funext s1
  simp only [bstep]
  rw [← add_mul, ← sumTo_add]
  congr 1
  exact sumTo_congr (fun s _ => by ring)

/-- `x ↦ bstep x a o` is homogeneous -/
theorem bstep_smul (m : POMDP) (c : Rat) (x : Nat → Rat) (a o : Nat) :
    bstep m (fun s => c * x s) a o = fun s1 => c * bstep m x a o s1 := by
  funext s1
  simp only [bstep]
  rw [← mul_assoc, ← sumTo_mul_left]
  congr 1
  exact sumTo_congr (fun s _ => by ring)

theorem bstep_congr (m : POMDP) {x y : Nat → Rat} (h : ∀ s, s < m.S → x s = y s) (a o : Nat) : bstep m x a o = bstep m y a o := by
  funext s1
  simp only [bstep]
  congr 1
  exact sumTo_congr (fun s hs => by rw [h s hs])

/-- the successors of `x` under action `a` carry exactly the mass of `x` -/
theorem mass_bstep (m : POMDP) (hv : Valid m) (x : Nat → Rat) (a : Nat) :
    sumTo m.O (fun o => mass m.S (bstep m x a o)) = mass m.S x := by
  unfold mass bstep
  rw [sumTo_comm]
  have h1 : ∀ s1, s1 < m.S → sumTo m.O (fun o => sumTo m.S (fun s => x s * m.T s a s1) * m.Ob s1 a o)
      = sumTo m.S (fun s => x s * m.T s a s1) := by
    intro s1 hs1
    rw [sumTo_mul_left, hv.O1 s1 a hs1, mul_one]
  rw [sumTo_congr h1, sumTo_comm]
  refine sumTo_congr (fun s hs => ?_)
  rw [sumTo_mul_left, hv.T1 s a hs, mul_one]

theorem rew_add (m : POMDP) (x y : Nat → Rat) (a : Nat) : rew m (fun s => x s + y s) a = rew m x a + rew m y a := by
  unfold rew
  rw [← sumTo_add]
  exact sumTo_congr (fun s _ => by ring)

theorem rew_smul (m : POMDP) (c : Rat) (x : Nat → Rat) (a : Nat) : rew m (fun s => c * x s) a = c * rew m x a := by
  unfold rew
  rw [← sumTo_mul_left]
  exact sumTo_congr (fun s _ => by ring)

theorem dotS_add_left (S : Nat) (x y α : Nat → Rat) : dotS S (fun s => x s + y s) α = dotS S x α + dotS S y α := by
  unfold dotS
  rw [← sumTo_add]
  exact sumTo_congr (fun s _ => by ring)

theorem dotS_smul_left (S : Nat) (c : Rat) (x α : Nat → Rat) : dotS S (fun s => c * x s) α = c * dotS S x α := by
  unfold dotS
  rw [← sumTo_mul_left]
  exact sumTo_congr (fun s _ => by ring)

theorem dotS_le_of_le (S : Nat) (x α β : Nat → Rat) (hx : NN x) (h : ∀ s, s < S → α s ≤ β s) : dotS S x α ≤ dotS S x β := by
  unfold dotS
  exact sumTo_le (fun s hs => mul_le_mul_of_nonneg_left (h s hs) (hx s))

/-- `bstep x a o · α = Σ_s x_s Σ_s1 T(s,a,s1) O(s1,a,o) α(s1)` -/
theorem dotS_bstep (m : POMDP) (x α : Nat → Rat) (a o : Nat) :
    dotS m.S (bstep m x a o) α = sumTo m.S (fun s => x s * sumTo m.S (fun s1 => m.T s a s1 * m.Ob s1 a o * α s1)) := by
  unfold dotS bstep
  have e1 : ∀ s1, s1 < m.S → sumTo m.S (fun s => x s * m.T s a s1) * m.Ob s1 a o * α s1
      = sumTo m.S (fun s => x s * (m.T s a s1 * m.Ob s1 a o * α s1)) := by
    intro s1 _
    rw [mul_assoc, ← sumTo_mul_right]
    exact sumTo_congr (fun s _ => by ring)
  rw [sumTo_congr e1, sumTo_comm]
  exact sumTo_congr (fun s _ => by rw [sumTo_mul_left])

/-- value of a backed-up vector at `x`: immediate reward plus the discounted values of the chosen vectors at the successors -/
theorem dotS_backupVec (m : POMDP) (x : Nat → Rat) (a : Nat) (ch : Nat → Nat → Rat) :
    dotS m.S x (backupVec m a ch) = rew m x a + m.γ * sumTo m.O (fun o => dotS m.S (bstep m x a o) (ch o)) := by
  have e : ∀ o, o < m.O → dotS m.S (bstep m x a o) (ch o)
      = sumTo m.S (fun s => x s * sumTo m.S (fun s1 => m.T s a s1 * m.Ob s1 a o * ch o s1)) := fun o _ => dotS_bstep m x (ch o) a o
  rw [sumTo_congr e, sumTo_comm]
  unfold dotS backupVec rew
  rw [← sumTo_mul_left, ← sumTo_add]
  refine sumTo_congr (fun s _ => ?_)
  rw [sumTo_mul_left]
  ring

theorem qval_le_Hop (m : POMDP) (hA : 0 < m.A) (V : (Nat → Rat) → Rat) (x : Nat → Rat) (a : Nat) (ha : a < m.A) :
    qval m V x a ≤ Hop m V x := maxTo_ge (m.A - 1) (qval m V x) a (by omega)

theorem Hop_attained (m : POMDP) (hA : 0 < m.A) (V : (Nat → Rat) → Rat) (x : Nat → Rat) :
    ∃ a, a < m.A ∧ Hop m V x = qval m V x a := by
  obtain ⟨a, ha, he⟩ := maxTo_attained (m.A - 1) (qval m V x)
  exact ⟨a, by omega, he⟩

theorem Hop_le_of_qval_le (m : POMDP) (hA : 0 < m.A) (V : (Nat → Rat) → Rat) (x : Nat → Rat) (c : Rat)
    (h : ∀ a, a < m.A → qval m V x a ≤ c) : Hop m V x ≤ c := by
  obtain ⟨a, ha, he⟩ := Hop_attained m hA V x
  rw [he]; exact h a ha

/-- `qval` is monotone in the continuation (on the successors of `x`) -/
theorem qval_mono (m : POMDP) (hv : Valid m) (V W : (Nat → Rat) → Rat) (x : Nat → Rat) (a : Nat)
    (h : ∀ o, o < m.O → V (bstep m x a o) ≤ W (bstep m x a o)) : qval m V x a ≤ qval m W x a := by
  unfold qval
  have := sumTo_le (f := fun o => V (bstep m x a o)) (g := fun o => W (bstep m x a o)) h
  have := mul_le_mul_of_nonneg_left this hv.γ0
  linarith

/-- `Hop` is monotone: `V ≤ W` on non-negative vectors gives `H V ≤ H W` there -/
theorem Hop_mono (m : POMDP) (hv : Valid m) (V W : (Nat → Rat) → Rat) (h : ∀ y, NN y → V y ≤ W y) (x : Nat → Rat) (hx : NN x) :
    Hop m V x ≤ Hop m W x := by
  refine Hop_le_of_qval_le m hv.A0 V x _ (fun a ha => ?_)
  exact le_trans (qval_mono m hv V W x a (fun o _ => h _ (bstep_nonneg m hv x hx a o))) (qval_le_Hop m hv.A0 W x a ha)

theorem iterH_mono (m : POMDP) (hv : Valid m) (V W : (Nat → Rat) → Rat) (h : ∀ y, NN y → V y ≤ W y) (k : Nat) :
    ∀ x, NN x → iterH m V k x ≤ iterH m W k x := by
  induction k with
  | zero => exact h
  | succ k ih => intro x hx; exact Hop_mono m hv _ _ ih x hx

end AITB.POMDP3
