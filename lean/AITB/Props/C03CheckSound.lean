/-
  AITB.Props.C03CheckSound — the enclosure clauses the driver evaluates (on materialised beliefs, with the float slack `eps ≥ 0`) can only
  fail on outputs that really violate soundness w.r.t. a member of the reference families: a `fail` verdict is never an artefact of the
  evaluator.  (Contrapositive form: sound ⇒ clause holds.)
-/
import AITB.Props.C03Tie
import AITB.Props.C03Anytime

namespace AITB.POMDP3
open AITB.MDP

/-- clause `…_vector_above_optimal_value` / `lb_above_optimal_value`: a vector that is sound w.r.t. `upperRef c j k` passes at every probe -/
theorem lbClause_of_sound (m : POMDP) (c : Rat) (j k : Nat) (x : Vec) (hx : NN x.get) (α : Vec) (eps : Rat) (heps : 0 ≤ eps)
    (h : LBSound m (upperRef m c j k) α.get) : dotV m.S x α ≤ upperRefV m c j k x + eps := by
  rw [upperRefV_eq]
  have := h x.get hx
  unfold dotV
  linarith

/-- clause `ub_below_optimal_value` / `ubQ_…` / `ubV_point_…`: any number that dominates `lowerRef c j k` at `x` passes -/
theorem ubClause_of_sound (m : POMDP) (hA : 0 < m.A) (c : Nat → Rat) (j k : Nat) (x : Vec) (u eps : Rat) (heps : 0 ≤ eps)
    (h : lowerRef m c j k x.get ≤ u) : lowerRefV m c j k x ≤ u + eps := by
  rw [lowerRefV_eq m hA]
  linarith

/-- clause `lb_above_ub`: on a `Sound` state (any members of the two families) the best stored vector never exceeds an interpolated value -/
theorem lb_le_ub_of_sound (m : POMDP) (hv : Valid m) (hS : 0 < m.S) (cL : Nat → Rat) (cU : Rat)
    (hcL : ∀ a, a < m.A → ∀ s, s < m.S → (1 - m.γ) * cL a ≤ m.R s a)
    (hcU : ∀ s, s < m.S → ∀ a, a < m.A → m.R s a ≤ (1 - m.γ) * cU)
    (st : AState) (b0 : Nat → Rat) (hb0 : NN b0) (α : Nat → Rat) (hα : st.Γ α) (u : Rat) (hu : IsInterp m st b0 u)
    (hs : ∀ j k j' k', Sound m (upperRef m cU j k) (lowerRef m cL j' k') st)
    (hgap : ∀ eps : Rat, 0 < eps → ∃ j k j' k', upperRef m cU j k b0 - lowerRef m cL j' k' b0 ≤ eps) :
    dotS m.S b0 α ≤ u := by
  by_contra hlt
  have hpos : 0 < dotS m.S b0 α - u := by linarith
  obtain ⟨j, k, j', k', hg⟩ := hgap ((dotS m.S b0 α - u) / 2) (by linarith)
  have hsnd := hs j k j' k'
  have h1 := hsnd.vecs α hα b0 hb0
  have h2 := le_trans ((lowerRef_subSol m hv cL hcL j' k') b0 hb0)
    (isInterp_ge m hv _ _ (lowerRef_sublin m hv cL j' k') st hsnd b0 hb0 u hu)
  linarith

end AITB.POMDP3
