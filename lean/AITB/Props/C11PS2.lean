/-
  AITB.Props.C11PS2 — PrioritizedSweeping, continued:
   (A) the generic (non-Eigen) branch of stepUpdateQ coincides with the Eigen branch, hence `ps_fixed_point`
       holds for it;
   (B) an explicit residual bound for a positive queue threshold θ: after N backups, with a drained queue, the
       Bellman-optimality residual of every backed-up pair is at most γ·θ·N.
-/
import AITB.Model.Learners
import AITB.Model.PSGeneric
import AITB.Model.LearnersCheck
import AITB.Gen.C11Guards
import AITB.Props.C11PS
import AITB.Props.C11Check
import Mathlib.Algebra.Order.Field.Rat
import Mathlib.Tactic.Linarith
import Mathlib.Tactic.Ring
import Mathlib.Tactic.NormNum
namespace AITB.Learn

/-! ## GOAL A: generic branch = Eigen branch -/

/-- (A1) the explicit successor loop that skips exact zeros is the plain weighted sum -/
theorem genericBackup_eq (S : Nat) (γ : Rat) (T R3 v : Nat → Rat) :
    genericBackup S γ T R3 v
      = sumTo S (fun s1 => T s1 * R3 s1) + sumTo S (fun s1 => T s1 * (v s1 * γ)) := by
  unfold genericBackup
  induction S with
  | zero => simp [sumTo]
  | succ n ih =>
    simp only [sumTo, ih]
    by_cases h : T n = 0
    · simp [h]
    · simp only [h, if_false]
      ring

/-- (A2) one `stepUpdateQ` of the generic branch is one `stepUpdateQ` of the Eigen branch, provided the 2-argument
    expected reward of the Eigen model is the expectation of the 3-argument reward of the generic model -/
theorem psStepGen_eq_psStep (m : MDP) (R3 : Nat → Nat → Nat → Rat)
    (hR : ∀ s a, m.R s a = sumTo m.S (fun s1 => m.T s a s1 * R3 s a s1))
    (θ : Rat) (st : PS) (s a : Nat) :
    psStepGen m R3 θ st s a = psStep m θ st s a := by
  have key : genericBackup m.S m.γ (m.T s a) (R3 s a) st.v
      = m.R s a + sumTo m.S (fun s1 => m.T s a s1 * (st.v s1 * m.γ)) := by
    rw [genericBackup_eq, hR]
  simp only [psStepGen, psStep, key]

theorem psBatchGen_eq_psBatch (m : MDP) (R3 : Nat → Nat → Nat → Rat)
    (hR : ∀ s a, m.R s a = sumTo m.S (fun s1 => m.T s a s1 * R3 s a s1))
    (θ : Rat) (sel : List QE → Nat) (n : Nat) (st : PS) :
    psBatchGen m R3 θ sel n st = psBatch m θ sel n st := by
  induction n generalizing st with
  | zero => rfl
  | succ n ih =>
    simp only [psBatchGen, psBatch]
    cases st.queue[sel st.queue]? with
    | none => rfl
    | some e =>
      simp only []
      rw [psStepGen_eq_psStep m R3 hR, ih]

/-- (A3) obligation over the GENERATED module: the generic branch tests `probability != 0.0`, i.e. tolerance 0.
    Breaks if the library goes back to a tolerance test (`checkDifferentSmall`). -/
theorem skip_tolerance_is_zero : AITB.Gen.C11.PrioritizedSweeping_generic_skip_tolerance = 0 := rfl

/-- with tolerance 0 the truncated MDP of `LearnersCheck` is the MDP itself -/
theorem ps2_truncMDP_eq (m : MDP) (R3 : Nat → Nat → Nat → Rat)
    (hR : ∀ s a, m.R s a = sumTo m.S (fun s1 => m.T s a s1 * R3 s a s1)) :
    truncMDP m.S m.A m.γ m.T R3 = m := by
  have hT : ∀ s a s1, (if absR (m.T s a s1 - 0) ≤ AITB.Gen.C11.PrioritizedSweeping_generic_skip_tolerance then 0
      else m.T s a s1) = m.T s a s1 := by
    intro s a s1
    split
    · rename_i h
      rw [skip_tolerance_is_zero] at h
      have h0 : absR (m.T s a s1 - 0) = 0 := le_antisymm h (absR_nonneg _)
      have := absR_eq_zero h0
      linarith
    · rfl
  cases m with
  | mk S A T R γ =>
    simp only [truncMDP] at hT hR ⊢
    simp only [hT]
    congr
    funext s a
    exact (hR s a).symm

theorem psStepG_eq_psStep (m : MDP) (R3 : Nat → Nat → Nat → Rat)
    (hR : ∀ s a, m.R s a = sumTo m.S (fun s1 => m.T s a s1 * R3 s a s1))
    (θ : Rat) (st : PS) (s a : Nat) :
    psStepG (truncMDP m.S m.A m.γ m.T R3) m θ st s a = psStep m θ st s a := by
  rw [ps2_truncMDP_eq m R3 hR]
  exact psStepG_self m θ st s a

/-- (A4) client operations on the generic branch -/
def psApplyGen (m : MDP) (R3 : Nat → Nat → Nat → Rat) (θ : Rat) (st : PS) : PSOp → PS
  | .step s a => psStepGen m R3 θ st s a
  | .batch n sel => psBatchGen m R3 θ sel n st

def psRunGen (m : MDP) (R3 : Nat → Nat → Nat → Rat) (θ : Rat) (ops : List PSOp) : PS :=
  ops.foldl (psApplyGen m R3 θ) PS.init

theorem psRunGen_eq_psRun (m : MDP) (R3 : Nat → Nat → Nat → Rat)
    (hR : ∀ s a, m.R s a = sumTo m.S (fun s1 => m.T s a s1 * R3 s a s1))
    (θ : Rat) (ops : List PSOp) :
    psRunGen m R3 θ ops = psRun m θ ops := by
  have h : psApplyGen m R3 θ = psApply m θ := by
    funext st op
    cases op with
    | step s a => exact psStepGen_eq_psStep m R3 hR θ st s a
    | batch n sel => exact psBatchGen_eq_psBatch m R3 hR θ sel n st
  unfold psRunGen psRun
  rw [h]

set_option linter.unusedVariables false in
/-- `ps_fixed_point` for the generic (non-Eigen) branch as written -/
theorem ps_generic_fixed_point (m : MDP) (R3 : Nat → Nat → Nat → Rat)
    (hR : ∀ s a, m.R s a = sumTo m.S (fun s1 => m.T s a s1 * R3 s a s1))
    (hT : ∀ s a s1, 0 ≤ m.T s a s1) (hA : 0 < m.A)
    (ops : List PSOp) (hv : ∀ op ∈ ops, op.valid m)
    (hempty : (psRunGen m R3 0 ops).queue = [])
    (hall : ∀ s a, s < m.S → a < m.A → (s, a) ∈ (psRunGen m R3 0 ops).done) :
    ∀ s a, s < m.S → a < m.A →
      (psRunGen m R3 0 ops).q s a
        = m.R s a + m.γ * sumTo m.S (fun s1 => m.T s a s1 * maxA m.A ((psRunGen m R3 0 ops).q s1)) := by
  rw [psRunGen_eq_psRun m R3 hR] at hempty hall ⊢
  exact ps_fixed_point m hT hA ops hv hempty hall

/-! ## GOAL B: residual bound for a positive threshold -/

theorem ps2_absR_le_iff (x B : Rat) : absR x ≤ B ↔ -B ≤ x ∧ x ≤ B := by
  unfold absR
  split
  · constructor
    · intro h; constructor <;> linarith
    · intro h; linarith [h.1]
  · constructor
    · intro h; constructor <;> linarith
    · intro h; exact h.2

theorem ps2_absR_zero : absR 0 = 0 := by
  unfold absR; simp

/-- like `Inv`, but a pair that is not queued may be stale by at most `γ·θ` per backup performed so far
    (`done.length` = number of `psStep` executions) -/
structure InvT (m : MDP) (θ : Rat) (st : PS) : Prop where
  qok : QOk m st.queue
  dok : ∀ x y, (x, y) ∈ st.done → x < m.S ∧ y < m.A
  vmax : ∀ x, st.v x = maxA m.A (st.q x)
  stale : ∀ s a, (s, a) ∈ st.done → inQueue st.queue s a = true ∨
    absR (st.q s a - (m.R s a + sumTo m.S (fun s1 => m.T s a s1 * (st.v s1 * m.γ))))
      ≤ m.γ * θ * (st.done.length : Rat)

theorem invT_init (m : MDP) (θ : Rat) : InvT m θ PS.init where
  qok := by intro e he; cases he
  dok := by intro x y h; cases h
  vmax := by intro x; simp [PS.init, maxA, maxTo_zero_fun]
  stale := by intro x y h; cases h

/-- one pair through one `psStep`: staleness `≤ B` w.r.t. the old `v` becomes staleness `≤ B + γθ` w.r.t. the new
    `v`, unless the parent loop queues the pair -/
theorem ps2_step_pair (m : MDP) (θ : Rat) (hγ : 0 ≤ m.γ) (hT : ∀ s a s1, 0 ≤ m.T s a s1)
    (q' : QF) (v : Nat → Rat) (vs : Rat) (queue : List QE) (s x y : Nat)
    (hs : s < m.S) (hx : x < m.S) (hy : y < m.A) (B : Rat)
    (hf : absR (q' x y - (m.R x y + sumTo m.S (fun s1 => m.T x y s1 * (v s1 * m.γ)))) ≤ B) :
    inQueue (parentLoop m θ (absR (vs - v s)) s queue) x y = true ∨
      absR (q' x y - (m.R x y + sumTo m.S (fun s1 => m.T x y s1 * ((if s1 = s then vs else v s1) * m.γ))))
        ≤ B + m.γ * θ := by
  by_cases h : absR (vs - v s) * m.T x y s > θ
  · exact Or.inl (parentLoop_adds m θ _ s queue x y hx hy h)
  · right
    have hle : absR (vs - v s) * m.T x y s ≤ θ := not_lt.mp h
    have hTn := hT x y s
    obtain ⟨d1, d2⟩ := (ps2_absR_le_iff (vs - v s) (absR (vs - v s))).mp (le_refl _)
    -- |T · δ| ≤ p · T ≤ θ
    have e1 : m.T x y s * (vs - v s) ≤ absR (vs - v s) * m.T x y s := by
      have := mul_le_mul_of_nonneg_left d2 hTn
      linarith
    have e2 : -(absR (vs - v s) * m.T x y s) ≤ m.T x y s * (vs - v s) := by
      have := mul_le_mul_of_nonneg_left d1 hTn
      linarith
    have f1 : m.T x y s * (vs - v s) * m.γ ≤ θ * m.γ :=
      mul_le_mul_of_nonneg_right (le_trans e1 hle) hγ
    have f2 : -(θ * m.γ) ≤ m.T x y s * (vs - v s) * m.γ := by
      have := mul_le_mul_of_nonneg_right (le_trans (neg_le_neg hle) e2) hγ
      linarith
    rw [sumTo_update (m.T x y) v m.γ vs s m.S, if_pos hs]
    rw [ps2_absR_le_iff] at hf ⊢
    obtain ⟨g1, g2⟩ := hf
    have e : m.T x y s * ((vs - v s) * m.γ) = m.T x y s * (vs - v s) * m.γ := by ring
    rw [e]
    constructor <;> linarith

/-- `psStep` on an in-range pair preserves the invariant; the stepped pair itself may be arbitrarily stale and
    unqueued beforehand (the situation right after `psBatch` pops it) -/
theorem psStep_invT (m : MDP) (θ : Rat) (hθ : 0 ≤ θ) (hγ : 0 ≤ m.γ) (hT : ∀ s a s1, 0 ≤ m.T s a s1)
    (st : PS) (s a : Nat) (hs : s < m.S) (ha : a < m.A)
    (hqok : QOk m st.queue)
    (hdok : ∀ x y, (x, y) ∈ st.done → x < m.S ∧ y < m.A)
    (hvmax : ∀ x, st.v x = maxA m.A (st.q x))
    (hstale : ∀ x y, (x, y) ∈ st.done → inQueue st.queue x y = true ∨
      absR (st.q x y - (m.R x y + sumTo m.S (fun s1 => m.T x y s1 * (st.v s1 * m.γ))))
        ≤ m.γ * θ * (st.done.length : Rat) ∨ (x = s ∧ y = a)) :
    InvT m θ (psStep m θ st s a) where
  qok := parentLoop_ok m _ _ _ _ hqok
  dok := by
    intro x y h
    simp only [psStep, List.mem_cons, Prod.mk.injEq] at h
    rcases h with ⟨rfl, rfl⟩ | h
    · exact ⟨hs, ha⟩
    · exact hdok x y h
  vmax := by
    intro x
    simp only [psStep]
    by_cases hx : x = s
    · subst hx; simp
    · rw [if_neg hx, upd_row_ne _ _ _ _ _ hx]
      exact hvmax x
  stale := by
    intro x y h
    simp only [psStep, List.mem_cons, Prod.mk.injEq] at h
    simp only [psStep, List.length_cons]
    have hB0 : 0 ≤ m.γ * θ * (st.done.length : Rat) :=
      mul_nonneg (mul_nonneg hγ hθ) (Nat.cast_nonneg _)
    have hlen : m.γ * θ * ((st.done.length + 1 : Nat) : Rat)
        = m.γ * θ * (st.done.length : Rat) + m.γ * θ := by
      push_cast; ring
    rw [hlen]
    have hxy : x < m.S ∧ y < m.A := by
      rcases h with ⟨rfl, rfl⟩ | h
      · exact ⟨hs, ha⟩
      · exact hdok x y h
    by_cases hsa : x = s ∧ y = a
    · obtain ⟨rfl, rfl⟩ := hsa
      apply ps2_step_pair m θ hγ hT _ st.v _ st.queue x x y hs hs ha
      have : upd st.q x y (m.R x y + sumTo m.S (fun s1 => m.T x y s1 * (st.v s1 * m.γ))) x y
          - (m.R x y + sumTo m.S (fun s1 => m.T x y s1 * (st.v s1 * m.γ))) = 0 := by
        simp [upd]
      rw [this, ps2_absR_zero]
      exact hB0
    · have hold : inQueue st.queue x y = true ∨
          absR (st.q x y - (m.R x y + sumTo m.S (fun s1 => m.T x y s1 * (st.v s1 * m.γ))))
            ≤ m.γ * θ * (st.done.length : Rat) := by
        rcases h with h | h
        · exact absurd h hsa
        · rcases hstale x y h with h1 | h1 | h1
          · exact Or.inl h1
          · exact Or.inr h1
          · exact absurd h1 hsa
      rcases hold with h1 | h1
      · exact Or.inl (parentLoop_mono m _ _ _ _ x y h1)
      · apply ps2_step_pair m θ hγ hT _ st.v _ st.queue s x y hs hxy.1 hxy.2
        simp only [upd, if_neg hsa]
        exact h1

theorem psBatch_invT (m : MDP) (θ : Rat) (hθ : 0 ≤ θ) (hγ : 0 ≤ m.γ) (hT : ∀ s a s1, 0 ≤ m.T s a s1)
    (sel : List QE → Nat) (n : Nat) (st : PS) (h : InvT m θ st) : InvT m θ (psBatch m θ sel n st) := by
  induction n generalizing st with
  | zero => exact h
  | succ n ih =>
    unfold psBatch
    split
    · exact h
    · rename_i e he
      apply ih
      have hmem : e ∈ st.queue := List.mem_of_getElem? he
      have hin := h.qok e hmem
      apply psStep_invT m θ hθ hγ hT _ e.s e.a hin.1 hin.2
      · intro e' he'
        exact h.qok e' (mem_of_mem_removeAt _ _ _ he')
      · exact h.dok
      · exact h.vmax
      · intro x y hxy
        rcases h.stale x y hxy with h1 | h1
        · by_cases hne : x = e.s ∧ y = e.a
          · exact Or.inr (Or.inr hne)
          · exact Or.inl (removeAt_inQueue _ _ e x y he h1 hne)
        · exact Or.inr (Or.inl h1)

theorem psApply_invT (m : MDP) (θ : Rat) (hθ : 0 ≤ θ) (hγ : 0 ≤ m.γ) (hT : ∀ s a s1, 0 ≤ m.T s a s1)
    (st : PS) (op : PSOp) (hv : op.valid m) (h : InvT m θ st) : InvT m θ (psApply m θ st op) := by
  cases op with
  | step s a =>
    exact psStep_invT m θ hθ hγ hT st s a hv.1 hv.2 h.qok h.dok h.vmax
      (fun x y hxy => (h.stale x y hxy).elim Or.inl (fun h1 => Or.inr (Or.inl h1)))
  | batch n sel => exact psBatch_invT m θ hθ hγ hT sel n st h

theorem psRun_invT (m : MDP) (θ : Rat) (hθ : 0 ≤ θ) (hγ : 0 ≤ m.γ) (hT : ∀ s a s1, 0 ≤ m.T s a s1)
    (ops : List PSOp) (hv : ∀ op ∈ ops, op.valid m) : InvT m θ (psRun m θ ops) := by
  unfold psRun
  exact ps_foldl_inv (InvT m θ) (psApply m θ) ops PS.init
    (fun st op hop hst => psApply_invT m θ hθ hγ hT st op (hv op hop) hst) (invT_init m θ)

/-- the invariant with a drained queue gives the residual bound on every backed-up pair -/
theorem ps2_bound_of_invT (m : MDP) (θ : Rat) (st : PS) (hinv : InvT m θ st) (hempty : st.queue = [])
    (s a : Nat) (hd : (s, a) ∈ st.done) :
    absR (st.q s a - (m.R s a + m.γ * sumTo m.S (fun s1 => m.T s a s1 * maxA m.A (st.q s1))))
      ≤ m.γ * θ * (st.done.length : Rat) := by
  rcases hinv.stale s a hd with h | h
  · rw [hempty] at h
    simp [inQueue] at h
  · rw [sumTo_pull] at h
    have hv : (fun s1 => m.T s a s1 * st.v s1) = (fun s1 => m.T s a s1 * maxA m.A (st.q s1)) := by
      funext s1
      rw [hinv.vmax s1]
    rw [hv] at h
    exact h

/-- (B2) C11 (PrioritizedSweeping), threshold `θ ≥ 0`: if the queue has drained and every pair has been backed up at
    least once, then the Bellman-optimality residual of every entry is at most `γ · θ · N`, `N` the number of backups
    (`stepUpdateQ` executions, explicit or from `batchUpdateQ`) performed.  The factor `N` is real
    (`ps_residual_exceeds_one_step` below): the queue keeps the MAX priority, so sub-threshold changes accumulate. -/
theorem ps_residual_bound (m : MDP) (θ : Rat) (hθ : 0 ≤ θ) (hγ : 0 ≤ m.γ) (hT : ∀ s a s1, 0 ≤ m.T s a s1)
    (ops : List PSOp) (hv : ∀ op ∈ ops, op.valid m)
    (hempty : (psRun m θ ops).queue = [])
    (hall : ∀ s a, s < m.S → a < m.A → (s, a) ∈ (psRun m θ ops).done) :
    ∀ s a, s < m.S → a < m.A →
      absR ((psRun m θ ops).q s a
          - (m.R s a + m.γ * sumTo m.S (fun s1 => m.T s a s1 * maxA m.A ((psRun m θ ops).q s1))))
        ≤ m.γ * θ * ((psRun m θ ops).done.length : Rat) := by
  intro s a hs ha
  exact ps2_bound_of_invT m θ _ (psRun_invT m θ hθ hγ hT ops hv) hempty s a (hall s a hs ha)

/-- converse direction of `foldl_max_ge`: a bound on the start value and on every element bounds the running max -/
theorem ps2_foldl_max_le (l : List Rat) (init B : Rat) (hi : init ≤ B) (h : ∀ x ∈ l, x ≤ B) :
    l.foldl (fun acc x => if acc < x then x else acc) init ≤ B := by
  induction l generalizing init with
  | nil => exact hi
  | cons y ys ih =>
    simp only [List.foldl_cons]
    apply ih
    · split
      · exact h y List.mem_cons_self
      · exact hi
    · intro x hx
      exact h x (List.mem_cons_of_mem _ hx)

/-- converse of `bellmanResidual_sound` -/
theorem ps2_bellmanResidual_le (m : MDP) (q : QF) (B : Rat) (hB : 0 ≤ B)
    (h : ∀ s a, s < m.S → a < m.A →
      absR (q s a - (m.R s a + m.γ * sumTo m.S (fun s1 => m.T s a s1 * maxA m.A (q s1)))) ≤ B) :
    bellmanResidual m q ≤ B := by
  unfold bellmanResidual
  apply ps2_foldl_max_le _ 0 B hB
  intro x hx
  simp only [List.mem_flatMap, List.mem_map, List.mem_range] at hx
  obtain ⟨s, hs, a, ha, rfl⟩ := hx
  exact h s a hs ha

/-- (B2') the same as a bound on the checker's residual -/
theorem ps_bellman_residual_bound (m : MDP) (θ : Rat) (hθ : 0 ≤ θ) (hγ : 0 ≤ m.γ)
    (hT : ∀ s a s1, 0 ≤ m.T s a s1)
    (ops : List PSOp) (hv : ∀ op ∈ ops, op.valid m)
    (hempty : (psRun m θ ops).queue = [])
    (hall : ∀ s a, s < m.S → a < m.A → (s, a) ∈ (psRun m θ ops).done) :
    bellmanResidual m (psRun m θ ops).q ≤ m.γ * θ * ((psRun m θ ops).done.length : Rat) := by
  apply ps2_bellmanResidual_le
  · exact mul_nonneg (mul_nonneg hγ hθ) (Nat.cast_nonneg _)
  · exact ps_residual_bound m θ hθ hγ hT ops hv hempty hall

set_option linter.unusedVariables false in
/-- (B3) sanity: `θ = 0` gives back `ps_fixed_point` (under the extra hypothesis `0 ≤ γ`) -/
theorem ps_fixed_point_from_bound (m : MDP) (hγ : 0 ≤ m.γ) (hT : ∀ s a s1, 0 ≤ m.T s a s1)
    (ops : List PSOp) (hv : ∀ op ∈ ops, op.valid m)
    (hempty : (psRun m 0 ops).queue = [])
    (hall : ∀ s a, s < m.S → a < m.A → (s, a) ∈ (psRun m 0 ops).done) :
    ∀ s a, s < m.S → a < m.A →
      (psRun m 0 ops).q s a
        = m.R s a + m.γ * sumTo m.S (fun s1 => m.T s a s1 * maxA m.A ((psRun m 0 ops).q s1)) := by
  intro s a hs ha
  have h := ps_residual_bound m 0 (le_refl 0) hγ hT ops hv hempty hall s a hs ha
  have h0 : m.γ * 0 * ((psRun m 0 ops).done.length : Rat) = 0 := by ring
  rw [h0] at h
  have := absR_eq_zero (le_antisymm h (absR_nonneg _))
  linarith

/-- (B4) distance to THE optimal Q-function: with `γ < 1` and sub-stochastic rows, after `N` backups and a drained
    queue every entry is within `γ θ N / (1 - γ)` of any solution `qstar` of the optimality equation -/
theorem ps_distance_bound (m : MDP) (θ : Rat) (hθ : 0 ≤ θ) (hT : ∀ s a s1, 0 ≤ m.T s a s1)
    (hrow : ∀ s a, s < m.S → a < m.A → sumTo m.S (fun s1 => m.T s a s1) ≤ 1)
    (hγ0 : 0 ≤ m.γ) (hγ1 : m.γ < 1) (hA : 0 < m.A)
    (ops : List PSOp) (hv : ∀ op ∈ ops, op.valid m)
    (hempty : (psRun m θ ops).queue = [])
    (hall : ∀ s a, s < m.S → a < m.A → (s, a) ∈ (psRun m θ ops).done)
    (qstar : QF)
    (hstar : ∀ s a, s < m.S → a < m.A →
      qstar s a = m.R s a + m.γ * sumTo m.S (fun s1 => m.T s a s1 * maxA m.A (qstar s1))) :
    ∀ s a, s < m.S → a < m.A →
      absR ((psRun m θ ops).q s a - qstar s a) * (1 - m.γ)
        ≤ m.γ * θ * ((psRun m θ ops).done.length : Rat) :=
  residual_bounds_distance m hT hrow hγ0 hγ1 hA _ qstar _
    (mul_nonneg (mul_nonneg hγ0 hθ) (Nat.cast_nonneg _))
    (ps_bellman_residual_bound m θ hθ hγ0 hT ops hv hempty hall) hstar

/-! ## TEST / (B5): the hypotheses of `ps_residual_bound` are satisfiable with θ > 0, and the factor `N` is real

  2 states × 2 actions, γ = 1/2, θ = 1.  State 1 is terminal (zero rows) with rewards 1 and 2; both actions of
  state 0 lead to state 1 with reward 0.  Four explicit steps: (0,0), (0,1) first (V(1) still 0), then (1,0) raises
  V(1) by 1 and (1,1) raises it by 1 again.  Each parent priority is `1 · T = 1`, not `> θ`, so nothing is ever
  queued: the queue is empty, every pair has been backed up, yet `Q(0,0) = 0` while its backup value is
  `γ · V(1) = 1` — a residual of 1, twice the one-step allowance `γ θ = 1/2` (the theorem's bound is `γ θ N = 2`).
  All checks are kernel evaluations (`decide +kernel`). -/
namespace PSTest2

def cT : Nat → Nat → Nat → Rat
  | 0, 0, 1 => 1
  | 0, 1, 1 => 1
  | _, _, _ => 0

def cR : Nat → Nat → Rat
  | 1, 0 => 1
  | 1, 1 => 2
  | _, _ => 0

def cM : MDP := { S := 2, A := 2, T := cT, R := cR, γ := 1/2 }

def cOps : List PSOp := [.step 0 0, .step 0 1, .step 1 0, .step 1 1]

theorem cT_nonneg : ∀ s a s1, 0 ≤ cM.T s a s1 := by
  intro s a s1
  show 0 ≤ cT s a s1
  unfold cT
  split <;> decide +kernel

theorem c_valid : ∀ op ∈ cOps, op.valid cM := by
  intro op hop
  simp only [cOps, List.mem_cons, List.not_mem_nil, or_false] at hop
  rcases hop with rfl | rfl | rfl | rfl <;> simp [PSOp.valid, cM]

theorem c_empty : (psRun cM 1 cOps).queue = [] :=
  List.isEmpty_iff.mp (by decide +kernel)

theorem c_done : (psRun cM 1 cOps).done = [(1,1),(1,0),(0,1),(0,0)] := by
  decide +kernel

theorem c_all : ∀ s a, s < cM.S → a < cM.A → (s, a) ∈ (psRun cM 1 cOps).done := by
  intro s a hs ha
  rw [c_done]
  have hs' : s < 2 := hs
  have ha' : a < 2 := ha
  have : s = 0 ∨ s = 1 := by omega
  have : a = 0 ∨ a = 1 := by omega
  rcases ‹s = 0 ∨ s = 1› with rfl | rfl <;> rcases ‹a = 0 ∨ a = 1› with rfl | rfl <;> simp

/-- the instance satisfies every hypothesis of `ps_residual_bound` with θ = 1 > 0, hence the conclusion -/
example : ∀ s a, s < cM.S → a < cM.A →
    absR ((psRun cM 1 cOps).q s a
        - (cM.R s a + cM.γ * sumTo cM.S (fun s1 => cM.T s a s1 * maxA cM.A ((psRun cM 1 cOps).q s1))))
      ≤ cM.γ * 1 * ((psRun cM 1 cOps).done.length : Rat) :=
  ps_residual_bound cM 1 (by decide +kernel) (by decide +kernel) cT_nonneg cOps c_valid c_empty c_all

/-- the resulting table and the number of backups -/
example : toRows 2 2 (psRun cM 1 cOps).q = [[0, 0], [1, 2]] := by decide +kernel
example : (psRun cM 1 cOps).done.length = 4 := by decide +kernel

/-- (B5) the dependence on `N` is real: queue empty, every pair backed up, θ = 1 > 0, and the residual of `(0,0)`
    exceeds one step's worth `γ · θ` (it is exactly `2 · γ · θ`) -/
theorem ps_residual_exceeds_one_step :
    (psRun cM 1 cOps).queue = [] ∧
    (∀ s a, s < cM.S → a < cM.A → (s, a) ∈ (psRun cM 1 cOps).done) ∧
    cM.γ * 1 < absR ((psRun cM 1 cOps).q 0 0
        - (cM.R 0 0 + cM.γ * sumTo cM.S (fun s1 => cM.T 0 0 s1 * maxA cM.A ((psRun cM 1 cOps).q s1)))) ∧
    absR ((psRun cM 1 cOps).q 0 0
        - (cM.R 0 0 + cM.γ * sumTo cM.S (fun s1 => cM.T 0 0 s1 * maxA cM.A ((psRun cM 1 cOps).q s1))))
      = 2 * (cM.γ * 1) := by
  refine ⟨c_empty, c_all, ?_, ?_⟩ <;> decide +kernel

/-- in particular no bound of the form `γ · θ` (independent of the number of backups) can hold -/
theorem ps_no_uniform_bound :
    ¬ (∀ (m : MDP) (θ : Rat), 0 ≤ θ → 0 ≤ m.γ → (∀ s a s1, 0 ≤ m.T s a s1) →
        ∀ ops : List PSOp, (∀ op ∈ ops, op.valid m) → (psRun m θ ops).queue = [] →
        (∀ s a, s < m.S → a < m.A → (s, a) ∈ (psRun m θ ops).done) →
        ∀ s a, s < m.S → a < m.A →
          absR ((psRun m θ ops).q s a
              - (m.R s a + m.γ * sumTo m.S (fun s1 => m.T s a s1 * maxA m.A ((psRun m θ ops).q s1))))
            ≤ m.γ * θ) := by
  intro h
  have h1 := h cM 1 (by decide +kernel) (by decide +kernel) cT_nonneg cOps c_valid c_empty c_all 0 0
    (by decide) (by decide)
  exact absurd h1 (not_le.mpr ps_residual_exceeds_one_step.2.2.1)

end PSTest2


end AITB.Learn
