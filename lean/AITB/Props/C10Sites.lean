/-
  AITB.Props.C10Sites — obligations over the tables regenerated from the source on every run (tools/extract_c10.py):
  the statements the cursor models transcribe are still there, and the capacity `set_union_inplace` reserves (translated
  from the source text) is the one `setUnion_no_realloc` needs.
-/
import AITB.Gen.C10Sites
import AITB.Props.C10Util

namespace AITB.CursorUtil
open AITB.Gen.C10Sites

/-- every pinned statement of match / SubsetEnumerator / nChooseK / set_union_inplace / sequential_sorted_* / veccmp* /
    max_element_unary occurs in the source exactly as often as the model assumes -/
theorem c10_sites_as_modelled : sites.all (fun s => s.2.2.1 == s.2.2.2) = true := by decide

/-- the reserve argument as written covers both operands (re-opens when the expression is changed, e.g. the seeded C10-3) -/
theorem unionReserve_sufficient : ∀ l r : Nat, l + r ≤ unionReserve l r := by
  intro l r; unfold unionReserve; omega

/-- **setUnion_as_written_safe** — `set_union_inplace` with the capacity the source reserves: for ALL operands no
    reallocation under the live cursors and no read outside either vector -/
theorem setUnion_as_written_safe (lhs rhs : List Nat) :
    ∃ r, setUnionInplace lhs rhs (unionReserve lhs.length rhs.length) = some r ∧ r.length ≤ lhs.length + rhs.length :=
  setUnion_no_realloc lhs rhs _ (unionReserve_sufficient _ _)

end AITB.CursorUtil
