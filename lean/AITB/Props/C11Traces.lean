import AITB.Model.Learners
import Mathlib.Algebra.Order.Field.Rat
import Mathlib.Algebra.Order.Field.Basic
import Mathlib.Tactic.Linarith
import Mathlib.Tactic.Ring

/-!
  AITB.Props.C11Traces — eligibility-trace learners (SARSA(λ), OffPolicyEvaluation/Control with
  QL / Retrace / TreeBackup / ImportanceSampling trace discounts), theorems about
  `AITB.Model.Learners.traceLoop / updateTraces / sarsalStep / evalStep / controlStep`.
  Unbounded: all list lengths, all histories, all rational inputs.

  (T1) updateTraces_ok            one call preserves "el ∈ [tol,1], keys distinct"
  (T2) updateTraces_td0           trace discount 0 ⇒ the table changes exactly at (s,a) by err
  (T3) cEval_unit, probGreedy_unit
  (T4) sarsal_traces_bounded, eval_traces_bounded, control_traces_bounded   (all histories)
  (T5) sarsal_lambda0, eval_lambda0, control_lambda0                        (λ = 0 = one-step backup)
  (T6) is_trace_above_one, is_trace_not_ok, cutoff_above_one_counterexample (literal counterexamples)
  (T7) updateTraces_perm, updateTraces_table, updateTraces_nodup, updateTraces_spec (full spec)
-/

namespace AITB.Learn

def key (t : Tr) : Nat × Nat := (t.s, t.a)

/-- every stored eligibility lies in [tol, 1] and no (s,a) is stored twice -/
def TrOK (tol : Rat) (tr : List Tr) : Prop :=
  (∀ t ∈ tr, tol ≤ t.el ∧ t.el ≤ 1) ∧ (tr.map key).Nodup

/-! ## step equations of the swap-and-pop loop -/

section steps
variable (s a : Nat) (err td tol : Rat)

theorem traceLoop_zero (acc rest : List Tr) (q : QF) (nt : Bool) :
    traceLoop s a err td tol 0 acc rest q nt = (acc ++ rest, q, nt) := by
  simp [traceLoop]

theorem traceLoop_nil (f : Nat) (acc : List Tr) (q : QF) (nt : Bool) :
    traceLoop s a err td tol (f+1) acc [] q nt = (acc, q, nt) := by
  simp [traceLoop]

theorem traceLoop_hit (f : Nat) (acc : List Tr) (x : Tr) (rest : List Tr) (q : QF) (nt : Bool)
    (h : x.s = s ∧ x.a = a) :
    traceLoop s a err td tol (f+1) acc (x :: rest) q nt
      = traceLoop s a err td tol f (acc ++ [⟨x.s, x.a, 1⟩]) rest
          (upd q x.s x.a (q x.s x.a + err * 1)) false := by
  simp [traceLoop, h]

theorem traceLoop_pop_nil (f : Nat) (acc : List Tr) (x : Tr) (q : QF) (nt : Bool)
    (h : ¬ (x.s = s ∧ x.a = a)) (hlt : x.el * td < tol) :
    traceLoop s a err td tol (f+1) acc [x] q nt = traceLoop s a err td tol f acc [] q nt := by
  simp [traceLoop, h, hlt]

theorem traceLoop_pop (f : Nat) (acc : List Tr) (x : Tr) (rest : List Tr) (y : Tr) (q : QF) (nt : Bool)
    (h : ¬ (x.s = s ∧ x.a = a)) (hlt : x.el * td < tol) (hy : rest.getLast? = some y) :
    traceLoop s a err td tol (f+1) acc (x :: rest) q nt
      = traceLoop s a err td tol f acc (y :: rest.dropLast) q nt := by
  simp [traceLoop, h, hlt, hy]

theorem traceLoop_keep (f : Nat) (acc : List Tr) (x : Tr) (rest : List Tr) (q : QF) (nt : Bool)
    (h : ¬ (x.s = s ∧ x.a = a)) (hge : ¬ x.el * td < tol) :
    traceLoop s a err td tol (f+1) acc (x :: rest) q nt
      = traceLoop s a err td tol f (acc ++ [⟨x.s, x.a, x.el * td⟩]) rest
          (upd q x.s x.a (q x.s x.a + err * (x.el * td))) nt := by
  simp [traceLoop, h, hge]

end steps

theorem swap_perm {α : Type _} {rest : List α} {y : α} (h : rest.getLast? = some y) :
    (y :: rest.dropLast).Perm rest := by
  obtain ⟨ys, rfl⟩ := List.getLast?_eq_some_iff.1 h
  simpa using (List.perm_append_singleton y ys).symm


/-! ## (T1) the trace invariant is preserved -/

theorem nodup_drop_mid {acc rest : List Tr} {x : Tr}
    (h : ((acc ++ x :: rest).map key).Nodup) : ((acc ++ rest).map key).Nodup :=
  List.Nodup.sublist
    (List.Sublist.map key (List.Sublist.append_left (List.sublist_cons_self x rest) acc)) h

theorem decay_le_one {el td : Rat} (h0 : 0 ≤ td) (h1 : td ≤ 1) (hel : el ≤ 1) : el * td ≤ 1 := by
  rcases le_total el 0 with hneg | hpos
  · have : el * td ≤ 0 := mul_nonpos_of_nonpos_of_nonneg hneg h0
    linarith
  · have : el * td ≤ el * 1 := mul_le_mul_of_nonneg_left h1 hpos
    linarith

theorem traceLoop_ok (s a : Nat) (err td tol : Rat) (h0 : 0 ≤ td) (h1 : td ≤ 1) (htol : tol ≤ 1) :
    ∀ (fuel : Nat) (acc rest : List Tr) (q : QF) (nt : Bool),
      rest.length ≤ fuel →
      (∀ t ∈ acc, tol ≤ t.el ∧ t.el ≤ 1) →
      (∀ t ∈ rest, t.el ≤ 1) →
      ((acc ++ rest).map key).Nodup →
      (nt = true → (s, a) ∉ acc.map key) →
      (∀ t ∈ (traceLoop s a err td tol fuel acc rest q nt).1, tol ≤ t.el ∧ t.el ≤ 1) ∧
      ((traceLoop s a err td tol fuel acc rest q nt).1.map key).Nodup ∧
      ((traceLoop s a err td tol fuel acc rest q nt).2.2 = true →
        (s, a) ∉ (traceLoop s a err td tol fuel acc rest q nt).1.map key) := by
  intro fuel
  induction fuel with
  | zero =>
    intro acc rest q nt hlen hacc hrest hnd hnt
    have : rest = [] := List.length_eq_zero_iff.1 (Nat.le_zero.1 hlen)
    subst this
    rw [traceLoop_zero]
    simp only [List.append_nil] at hnd ⊢
    exact ⟨hacc, hnd, hnt⟩
  | succ f ih =>
    intro acc rest q nt hlen hacc hrest hnd hnt
    cases rest with
    | nil =>
      rw [traceLoop_nil]
      simp only [List.append_nil] at hnd
      exact ⟨hacc, hnd, hnt⟩
    | cons x rest =>
      have hlen' : rest.length ≤ f := by simpa using hlen
      have hrest' : ∀ t ∈ rest, t.el ≤ 1 := fun t ht => hrest t (List.mem_cons_of_mem _ ht)
      by_cases hit : x.s = s ∧ x.a = a
      · rw [traceLoop_hit _ _ _ _ _ _ _ _ _ _ _ hit]
        apply ih _ _ _ _ hlen'
        · intro t ht
          rcases List.mem_append.1 ht with ht | ht
          · exact hacc t ht
          · have : t = ⟨x.s, x.a, 1⟩ := by simpa using ht
            subst this
            exact ⟨htol, le_refl _⟩
        · exact hrest'
        · simpa [key] using hnd
        · intro h; cases h
      · by_cases hlt : x.el * td < tol
        · cases hy : rest.getLast? with
          | none =>
            have : rest = [] := List.getLast?_eq_none_iff.1 hy
            subst this
            rw [traceLoop_pop_nil _ _ _ _ _ _ _ _ _ _ hit hlt]
            apply ih _ _ _ _ (Nat.zero_le _) hacc
            · intro t ht; cases ht
            · exact nodup_drop_mid hnd
            · exact hnt
          | some y =>
            rw [traceLoop_pop _ _ _ _ _ _ _ _ _ _ _ _ hit hlt hy]
            have hp := swap_perm hy
            apply ih _ _ _ _ _ hacc
            · intro t ht; exact hrest' t (hp.mem_iff.1 ht)
            · exact ((hp.append_left acc).map key).nodup_iff.2 (nodup_drop_mid hnd)
            · exact hnt
            · rw [hp.length_eq]; exact hlen'
        · rw [traceLoop_keep _ _ _ _ _ _ _ _ _ _ _ hit hlt]
          apply ih _ _ _ _ hlen'
          · intro t ht
            rcases List.mem_append.1 ht with ht | ht
            · exact hacc t ht
            · have : t = ⟨x.s, x.a, x.el * td⟩ := by simpa using ht
              subst this
              exact ⟨not_lt.1 hlt, decay_le_one h0 h1 (hrest x (List.mem_cons_self ..))⟩
          · exact hrest'
          · simpa [key] using hnd
          · intro h
            have := hnt h
            simp only [List.map_append, List.mem_append, not_or]
            refine ⟨this, ?_⟩
            simp only [key, List.map_cons, List.map_nil, List.mem_singleton, Prod.mk.injEq]
            intro hh; exact hit ⟨hh.1.symm, hh.2.symm⟩

/-- (T1) one call of `updateTraces` preserves the trace invariant -/
theorem updateTraces_ok (s a : Nat) (err td tol : Rat) (tr : List Tr) (q : QF)
    (h0 : 0 ≤ td) (h1 : td ≤ 1) (htol : tol ≤ 1) (h : TrOK tol tr) :
    TrOK tol (updateTraces s a err td tol tr q).1 := by
  have hl := traceLoop_ok s a err td tol h0 h1 htol tr.length [] tr q true (le_refl _)
    (by intro t ht; cases ht) (fun t ht => (h.1 t ht).2) (by simpa using h.2) (by simp)
  unfold updateTraces
  rcases hr : traceLoop s a err td tol tr.length [] tr q true with ⟨tr', q', nt⟩
  rw [hr] at hl
  obtain ⟨hb, hnd, hnt⟩ := hl
  cases nt with
  | false => exact ⟨hb, hnd⟩
  | true =>
    show TrOK tol (tr' ++ [⟨s, a, 1⟩])
    refine ⟨?_, ?_⟩
    · intro t ht
      rcases List.mem_append.1 ht with ht | ht
      · exact hb t ht
      · have : t = ⟨s, a, 1⟩ := by simpa using ht
        subst this
        exact ⟨htol, le_refl _⟩
    · have hnot := hnt rfl
      simp only [List.map_append, List.map_cons, List.map_nil]
      rw [List.nodup_append]
      refine ⟨hnd, by simp, ?_⟩
      intro x hx y hy
      have : y = (s, a) := by simpa [key] using hy
      subst this
      intro hxy; subst hxy; exact hnot hx


/-- the hypotheses of (T1) are satisfiable by a concrete non-trivial value … -/
example : (0 : Rat) ≤ 9/10 ∧ (9/10 : Rat) ≤ 1 ∧ (1/100 : Rat) ≤ 1 ∧
    TrOK (1/100) [⟨0, 0, 1/2⟩, ⟨1, 0, 1⟩] := by
  refine ⟨by norm_num, by norm_num, by norm_num, ?_, ?_⟩
  · intro t ht
    simp only [List.mem_cons, List.not_mem_nil, or_false] at ht
    rcases ht with rfl | rfl <;> norm_num
  · simp [key]

/-- … and (T1) then applies to it -/
example : TrOK (1/100)
    (updateTraces 1 0 (1/3) (9/10) (1/100) [⟨0, 0, 1/2⟩, ⟨1, 0, 1⟩] (fun _ _ => 0)).1 := by
  apply updateTraces_ok _ _ _ _ _ _ _ (by norm_num) (by norm_num) (by norm_num)
  refine ⟨?_, by simp [key]⟩
  intro t ht
  simp only [List.mem_cons, List.not_mem_nil, or_false] at ht
  rcases ht with rfl | rfl <;> norm_num

/-! ## (T2) trace discount 0: the table changes exactly at (s,a), by `err` -/

theorem upd_selfT (q : QF) (s a : Nat) : upd q s a (q s a) = q := by
  funext s' a'
  simp only [upd]
  split
  · next h => rw [h.1, h.2]
  · rfl

theorem key_ne_of_not_hit {x : Tr} {s a : Nat} (h : ¬ (x.s = s ∧ x.a = a)) : (s, a) ≠ key x := by
  intro hh
  simp only [key, Prod.mk.injEq] at hh
  exact h ⟨hh.1.symm, hh.2.symm⟩

theorem traceLoop_td0 (s a : Nat) (err tol : Rat) :
    ∀ (fuel : Nat) (acc rest : List Tr) (q : QF) (nt : Bool),
      rest.length ≤ fuel → (rest.map key).Nodup →
      (traceLoop s a err 0 tol fuel acc rest q nt).2
        = if (s, a) ∈ rest.map key then (upd q s a (q s a + err), false) else (q, nt) := by
  intro fuel
  induction fuel with
  | zero =>
    intro acc rest q nt hlen _
    have : rest = [] := List.length_eq_zero_iff.1 (Nat.le_zero.1 hlen)
    subst this
    simp [traceLoop_zero]
  | succ f ih =>
    intro acc rest q nt hlen hnd
    cases rest with
    | nil => simp [traceLoop_nil]
    | cons x rest =>
      have hlen' : rest.length ≤ f := by simpa using hlen
      have hnd' : (rest.map key).Nodup := (List.nodup_cons.1 (by simpa using hnd)).2
      by_cases hit : x.s = s ∧ x.a = a
      · rw [traceLoop_hit _ _ _ _ _ _ _ _ _ _ _ hit, ih _ _ _ _ hlen' hnd']
        have hkx : key x = (s, a) := by simp [key, hit.1, hit.2]
        have hnot : (s, a) ∉ rest.map key := by
          have := (List.nodup_cons.1 (by simpa using hnd : (key x :: rest.map key).Nodup)).1
          rwa [hkx] at this
        have hin : (s, a) ∈ (x :: rest).map key := by simp [hkx]
        rw [if_neg hnot, if_pos hin, hit.1, hit.2, mul_one]
      · have hne := key_ne_of_not_hit hit
        by_cases hlt : x.el * 0 < tol
        · cases hy : rest.getLast? with
          | none =>
            have : rest = [] := List.getLast?_eq_none_iff.1 hy
            subst this
            rw [traceLoop_pop_nil _ _ _ _ _ _ _ _ _ _ hit hlt, ih _ _ _ _ hlen' hnd']
            have : (s, a) ∉ [x].map key := by simpa using hne
            rw [if_neg this]
            simp
          | some y =>
            rw [traceLoop_pop _ _ _ _ _ _ _ _ _ _ _ _ hit hlt hy]
            have hp := swap_perm hy
            rw [ih _ _ _ _ (by rw [hp.length_eq]; exact hlen') ((hp.map key).nodup_iff.2 hnd')]
            have hiff : (s, a) ∈ (y :: rest.dropLast).map key ↔ (s, a) ∈ (x :: rest).map key := by
              rw [(hp.map key).mem_iff]
              simp [hne]
            simp only [hiff]
        · rw [traceLoop_keep _ _ _ _ _ _ _ _ _ _ _ hit hlt, ih _ _ _ _ hlen' hnd']
          have hq : upd q x.s x.a (q x.s x.a + err * (x.el * 0)) = q := by
            rw [mul_zero, mul_zero, add_zero, upd_selfT]
          have hiff : (s, a) ∈ (x :: rest).map key ↔ (s, a) ∈ rest.map key := by
            simp [hne]
          rw [hq]
          simp only [hiff]

theorem updateTraces_eq (s a : Nat) (err td tol : Rat) (tr : List Tr) (q : QF) :
    updateTraces s a err td tol tr q
      = if (traceLoop s a err td tol tr.length [] tr q true).2.2 = true then
          ((traceLoop s a err td tol tr.length [] tr q true).1 ++ [⟨s, a, 1⟩],
            upd (traceLoop s a err td tol tr.length [] tr q true).2.1 s a
              ((traceLoop s a err td tol tr.length [] tr q true).2.1 s a + err))
        else ((traceLoop s a err td tol tr.length [] tr q true).1,
              (traceLoop s a err td tol tr.length [] tr q true).2.1) := rfl

/-- (T2) with trace discount 0 the table changes exactly at (s,a), by `err` (no hypothesis on tol) -/
theorem updateTraces_td0 (s a : Nat) (err tol : Rat) (tr : List Tr) (q : QF)
    (hnd : (tr.map key).Nodup) :
    (updateTraces s a err 0 tol tr q).2 = upd q s a (q s a + err) := by
  have hl := traceLoop_td0 s a err tol tr.length [] tr q true (le_refl _) hnd
  rw [updateTraces_eq]
  rcases hr : traceLoop s a err 0 tol tr.length [] tr q true with ⟨tr', q', nt⟩
  rw [hr] at hl
  by_cases hin : (s, a) ∈ tr.map key
  · rw [if_pos hin] at hl
    have h1 : q' = upd q s a (q s a + err) := congrArg Prod.fst hl
    have h2 : nt = false := congrArg Prod.snd hl
    subst h2
    simp [h1]
  · rw [if_neg hin] at hl
    have h1 : q' = q := congrArg Prod.fst hl
    have h2 : nt = true := congrArg Prod.snd hl
    subst h2
    simp [h1]


/-! ## (T3) trace discounts of the λ-family lie in [0,1] -/

theorem min1_unit {x : Rat} (h : 0 ≤ x) : 0 ≤ min1 x ∧ min1 x ≤ 1 := by
  unfold min1
  split
  · next hlt => exact ⟨h, le_of_lt hlt⟩
  · exact ⟨by norm_num, le_refl _⟩

theorem mul_unit {x y : Rat} (hx0 : 0 ≤ x) (hx1 : x ≤ 1) (hy0 : 0 ≤ y) (hy1 : y ≤ 1) :
    0 ≤ x * y ∧ x * y ≤ 1 := by
  refine ⟨mul_nonneg hx0 hy0, ?_⟩
  have : x * y ≤ 1 * 1 := mul_le_mul hx1 hy1 hy0 (by norm_num)
  linarith

theorem cEval_unit (k : Kind) (hk : k ≠ .is) (lam pt pb : Rat)
    (hl0 : 0 ≤ lam) (hl1 : lam ≤ 1) (hp0 : 0 ≤ pt) (hp1 : pt ≤ 1) (hb : 0 < pb) :
    0 ≤ cEval k lam pt pb ∧ cEval k lam pt pb ≤ 1 := by
  cases k with
  | ql => exact ⟨hl0, hl1⟩
  | retrace =>
    have hm := min1_unit (div_nonneg hp0 (le_of_lt hb))
    exact mul_unit hl0 hl1 hm.1 hm.2
  | tb => exact mul_unit hl0 hl1 hp0 hp1
  | is => exact absurd rfl hk

theorem probGreedy_unit (ε : Rat) (A a mA : Nat) (hA : 0 < A) (h0 : 0 ≤ ε) (h1 : ε ≤ 1) :
    0 ≤ probGreedy ε A a mA ∧ probGreedy ε A a mA ≤ 1 := by
  have hA1 : (1 : Rat) ≤ (A : Rat) := by exact_mod_cast hA
  have hd0 : 0 ≤ ε / (A : Rat) := div_nonneg h0 (by linarith)
  have hd1 : ε / (A : Rat) ≤ ε := div_le_self h0 hA1
  unfold probGreedy
  split
  · constructor <;> linarith
  · constructor <;> linarith

/-! ## (T4) the invariant holds along every history -/

structure TEv where
  s : Nat
  a : Nat
  s1 : Nat
  a1 : Nat
  r : Rat

def sarsalRun (γ α lam tol : Rat) : List TEv → List Tr × QF → List Tr × QF
  | [], st => st
  | e :: es, st =>
    sarsalRun γ α lam tol es (sarsalStep γ α lam tol st.1 st.2 e.s e.a e.s1 e.a1 e.r)

def evalRun (k : Kind) (γ α lam tol : Rat) (A : Nat) (πt πb : Nat → Nat → Rat) :
    List TEv → List Tr × QF → List Tr × QF
  | [], st => st
  | e :: es, st =>
    evalRun k γ α lam tol A πt πb es (evalStep k γ α lam tol A πt πb st.1 st.2 e.s e.a e.s1 e.r)

def controlRun (k : Kind) (γ α lam tol ε : Rat) (A : Nat) (πb : Nat → Nat → Rat) :
    List TEv → List Tr × QF → List Tr × QF
  | [], st => st
  | e :: es, st =>
    controlRun k γ α lam tol ε A πb es (controlStep k γ α lam tol ε A πb st.1 st.2 e.s e.a e.s1 e.r)

theorem TrOK_nil (tol : Rat) : TrOK tol [] := ⟨(by intro t ht; cases ht), (by simp)⟩

theorem sarsalStep_ok (γ α lam tol : Rat) (hγ : 0 ≤ γ ∧ γ ≤ 1) (hl : 0 ≤ lam ∧ lam ≤ 1)
    (htol : tol ≤ 1) (tr : List Tr) (q : QF) (h : TrOK tol tr) (s a s1 a1 : Nat) (r : Rat) :
    TrOK tol (sarsalStep γ α lam tol tr q s a s1 a1 r).1 := by
  have hu := mul_unit hl.1 hl.2 hγ.1 hγ.2
  exact updateTraces_ok _ _ _ _ _ _ _ hu.1 hu.2 htol h

theorem evalStep_ok (k : Kind) (hk : k ≠ .is) (γ α lam tol : Rat) (A : Nat) (πt πb : Nat → Nat → Rat)
    (hγ : 0 ≤ γ ∧ γ ≤ 1) (hl : 0 ≤ lam ∧ lam ≤ 1) (htol : tol ≤ 1)
    (hπt : ∀ s a, 0 ≤ πt s a ∧ πt s a ≤ 1)
    (tr : List Tr) (q : QF) (h : TrOK tol tr) (s a s1 : Nat) (r : Rat) (hπb : 0 < πb s a) :
    TrOK tol (evalStep k γ α lam tol A πt πb tr q s a s1 r).1 := by
  have hc := cEval_unit k hk lam (πt s a) (πb s a) hl.1 hl.2 (hπt s a).1 (hπt s a).2 hπb
  have hu := mul_unit hγ.1 hγ.2 hc.1 hc.2
  exact updateTraces_ok _ _ _ _ _ _ _ hu.1 hu.2 htol h

theorem controlStep_ok (k : Kind) (hk : k ≠ .is) (γ α lam tol ε : Rat) (A : Nat) (πb : Nat → Nat → Rat)
    (hA : 0 < A) (hε : 0 ≤ ε ∧ ε ≤ 1)
    (hγ : 0 ≤ γ ∧ γ ≤ 1) (hl : 0 ≤ lam ∧ lam ≤ 1) (htol : tol ≤ 1)
    (tr : List Tr) (q : QF) (h : TrOK tol tr) (s a s1 : Nat) (r : Rat) (hπb : 0 < πb s a) :
    TrOK tol (controlStep k γ α lam tol ε A πb tr q s a s1 r).1 := by
  have hp := probGreedy_unit ε A a (argmaxA A (q s1)) hA hε.1 hε.2
  have hc := cEval_unit k hk lam _ (πb s a) hl.1 hl.2 hp.1 hp.2 hπb
  have hu := mul_unit hγ.1 hγ.2 hc.1 hc.2
  exact updateTraces_ok _ _ _ _ _ _ _ hu.1 hu.2 htol h

theorem sarsalRun_ok (γ α lam tol : Rat) (hγ : 0 ≤ γ ∧ γ ≤ 1) (hl : 0 ≤ lam ∧ lam ≤ 1)
    (htol : tol ≤ 1) : ∀ (evs : List TEv) (st : List Tr × QF), TrOK tol st.1 →
      TrOK tol (sarsalRun γ α lam tol evs st).1
  | [], _, h => h
  | _ :: es, st, h =>
    sarsalRun_ok γ α lam tol hγ hl htol es _ (sarsalStep_ok γ α lam tol hγ hl htol st.1 st.2 h ..)

theorem evalRun_ok (k : Kind) (hk : k ≠ .is) (γ α lam tol : Rat) (A : Nat) (πt πb : Nat → Nat → Rat)
    (hγ : 0 ≤ γ ∧ γ ≤ 1) (hl : 0 ≤ lam ∧ lam ≤ 1) (htol : tol ≤ 1)
    (hπt : ∀ s a, 0 ≤ πt s a ∧ πt s a ≤ 1) :
    ∀ (evs : List TEv) (st : List Tr × QF), (∀ e ∈ evs, 0 < πb e.s e.a) → TrOK tol st.1 →
      TrOK tol (evalRun k γ α lam tol A πt πb evs st).1
  | [], _, _, h => h
  | e :: es, st, hπb, h =>
    evalRun_ok k hk γ α lam tol A πt πb hγ hl htol hπt es _
      (fun e' he' => hπb e' (List.mem_cons_of_mem _ he'))
      (evalStep_ok k hk γ α lam tol A πt πb hγ hl htol hπt st.1 st.2 h e.s e.a e.s1 e.r
        (hπb e (List.mem_cons_self ..)))

theorem controlRun_ok (k : Kind) (hk : k ≠ .is) (γ α lam tol ε : Rat) (A : Nat) (πb : Nat → Nat → Rat)
    (hA : 0 < A) (hε : 0 ≤ ε ∧ ε ≤ 1)
    (hγ : 0 ≤ γ ∧ γ ≤ 1) (hl : 0 ≤ lam ∧ lam ≤ 1) (htol : tol ≤ 1) :
    ∀ (evs : List TEv) (st : List Tr × QF), (∀ e ∈ evs, 0 < πb e.s e.a) → TrOK tol st.1 →
      TrOK tol (controlRun k γ α lam tol ε A πb evs st).1
  | [], _, _, h => h
  | e :: es, st, hπb, h =>
    controlRun_ok k hk γ α lam tol ε A πb hA hε hγ hl htol es _
      (fun e' he' => hπb e' (List.mem_cons_of_mem _ he'))
      (controlStep_ok k hk γ α lam tol ε A πb hA hε hγ hl htol st.1 st.2 h e.s e.a e.s1 e.r
        (hπb e (List.mem_cons_self ..)))

/-- (T4) SARSA(λ): along every history from cleared traces, all eligibilities stay in [tol,1]
    and no (s,a) is stored twice -/
theorem sarsal_traces_bounded (γ α lam tol : Rat) (hγ : 0 ≤ γ ∧ γ ≤ 1) (hl : 0 ≤ lam ∧ lam ≤ 1)
    (htol : tol ≤ 1) (evs : List TEv) (q0 : QF) :
    TrOK tol (sarsalRun γ α lam tol evs ([], q0)).1 :=
  sarsalRun_ok γ α lam tol hγ hl htol evs _ (TrOK_nil tol)

/-- (T4) off-policy evaluation with QL / Retrace / TreeBackup trace discounts -/
theorem eval_traces_bounded (k : Kind) (hk : k ≠ .is) (γ α lam tol : Rat) (A : Nat)
    (πt πb : Nat → Nat → Rat)
    (hγ : 0 ≤ γ ∧ γ ≤ 1) (hl : 0 ≤ lam ∧ lam ≤ 1) (htol : tol ≤ 1)
    (hπt : ∀ s a, 0 ≤ πt s a ∧ πt s a ≤ 1)
    (evs : List TEv) (hπb : ∀ e ∈ evs, 0 < πb e.s e.a) (q0 : QF) :
    TrOK tol (evalRun k γ α lam tol A πt πb evs ([], q0)).1 :=
  evalRun_ok k hk γ α lam tol A πt πb hγ hl htol hπt evs _ hπb (TrOK_nil tol)

/-- (T4) off-policy control with QL / Retrace / TreeBackup trace discounts -/
theorem control_traces_bounded (k : Kind) (hk : k ≠ .is) (γ α lam tol ε : Rat) (A : Nat)
    (πb : Nat → Nat → Rat) (hA : 0 < A) (hε : 0 ≤ ε ∧ ε ≤ 1)
    (hγ : 0 ≤ γ ∧ γ ≤ 1) (hl : 0 ≤ lam ∧ lam ≤ 1) (htol : tol ≤ 1)
    (evs : List TEv) (hπb : ∀ e ∈ evs, 0 < πb e.s e.a) (q0 : QF) :
    TrOK tol (controlRun k γ α lam tol ε A πb evs ([], q0)).1 :=
  controlRun_ok k hk γ α lam tol ε A πb hA hε hγ hl htol evs _ hπb (TrOK_nil tol)

/-- the hypotheses of (T4) are satisfiable: Retrace(1/2), γ = 9/10, cutoff 1/1000, a uniform target
    over two actions, behaviour probability 1/4, a two-event history -/
example : TrOK (1/1000)
    (evalRun .retrace (9/10) (1/10) (1/2) (1/1000) 2 (fun _ _ => 1/2) (fun _ _ => 1/4)
      [⟨0, 0, 1, 0, 0⟩, ⟨1, 0, 0, 0, 1⟩] ([], fun _ _ => 0)).1 :=
  eval_traces_bounded .retrace (by decide) _ _ _ _ _ _ _ ⟨by norm_num, by norm_num⟩
    ⟨by norm_num, by norm_num⟩ (by norm_num) (fun _ _ => ⟨by norm_num, by norm_num⟩) _
    (fun _ _ => by norm_num) _

example : TrOK (1/1000)
    (sarsalRun (9/10) (1/10) (1/2) (1/1000) [⟨0, 0, 1, 0, 0⟩, ⟨1, 0, 0, 0, 1⟩] ([], fun _ _ => 0)).1 :=
  sarsal_traces_bounded _ _ _ _ ⟨by norm_num, by norm_num⟩ ⟨by norm_num, by norm_num⟩
    (by norm_num) _ _

example : TrOK (1/1000)
    (controlRun .tb (9/10) (1/10) (1/2) (1/1000) (1/10) 2 (fun _ _ => 1/4)
      [⟨0, 0, 1, 0, 0⟩, ⟨1, 0, 0, 0, 1⟩] ([], fun _ _ => 0)).1 :=
  control_traces_bounded .tb (by decide) _ _ _ _ _ _ _ (by norm_num) ⟨by norm_num, by norm_num⟩
    ⟨by norm_num, by norm_num⟩ ⟨by norm_num, by norm_num⟩ (by norm_num) _
    (fun _ _ => by norm_num) _

/-! ## (T5) λ = 0 is the one-step (expected) backup, from every state with distinct stored keys -/

theorem cEval_lam0 (k : Kind) (hk : k ≠ .is) (pt pb : Rat) : cEval k 0 pt pb = 0 := by
  cases k with
  | ql => rfl
  | retrace => simp [cEval]
  | tb => simp [cEval]
  | is => exact absurd rfl hk

theorem sarsal_lambda0 (γ α tol : Rat) (tr : List Tr) (q : QF) (hnd : (tr.map key).Nodup)
    (s a s1 a1 : Nat) (r : Rat) :
    (sarsalStep γ α 0 tol tr q s a s1 a1 r).2
      = upd q s a (q s a + α * (r + γ * q s1 a1 - q s a)) := by
  unfold sarsalStep
  rw [zero_mul]
  exact updateTraces_td0 _ _ _ _ _ _ hnd

theorem eval_lambda0 (k : Kind) (hk : k ≠ .is) (γ α tol : Rat) (A : Nat) (πt πb : Nat → Nat → Rat)
    (tr : List Tr) (q : QF) (hnd : (tr.map key).Nodup) (s a s1 : Nat) (r : Rat) :
    (evalStep k γ α 0 tol A πt πb tr q s a s1 r).2
      = upd q s a (q s a + α * (r + γ * sumTo A (fun x => q s1 x * πt s1 x) - q s a)) := by
  unfold evalStep
  simp only [cEval_lam0 k hk, mul_zero]
  exact updateTraces_td0 _ _ _ _ _ _ hnd

theorem control_lambda0 (k : Kind) (hk : k ≠ .is) (γ α tol ε : Rat) (A : Nat) (πb : Nat → Nat → Rat)
    (tr : List Tr) (q : QF) (hnd : (tr.map key).Nodup) (s a s1 : Nat) (r : Rat) :
    (controlStep k γ α 0 tol ε A πb tr q s a s1 r).2
      = upd q s a (q s a + α * (r + γ * expectedEps ε A q s1 - q s a)) := by
  unfold controlStep
  simp only [cEval_lam0 k hk, mul_zero]
  exact updateTraces_td0 _ _ _ _ _ _ hnd


/-! ## (T6) counterexamples on literals: the hypotheses are necessary -/

/-- the two-event history used below: visit (0,0), then (1,0) -/
def isHist : List TEv := [⟨0, 0, 1, 0, 0⟩, ⟨1, 0, 0, 0, 0⟩]

/-- COUNTEREXAMPLE (literal computation).  ImportanceSampling (`Kind.is`) with behaviour probability
    1/4, target probability 1, γ = 1: after two events the trace of (0,0) is 4 > 1.  So the
    restriction `k ≠ .is` in `cEval_unit` / `eval_traces_bounded` is necessary. -/
theorem is_trace_above_one :
    (evalRun .is 1 1 1 0 1 (fun _ _ => 1) (fun _ _ => 1/4) isHist ([], fun _ _ => 0)).1
      = [⟨0, 0, 4⟩, ⟨1, 0, 1⟩] := by
  simp [isHist, evalRun, evalStep, updateTraces, traceLoop, cEval]
  norm_num

theorem is_trace_not_ok :
    ¬ TrOK 0 (evalRun .is 1 1 1 0 1 (fun _ _ => 1) (fun _ _ => 1/4) isHist ([], fun _ _ => 0)).1 := by
  rw [is_trace_above_one]
  intro h
  have := (h.1 ⟨0, 0, 4⟩ (by simp)).2
  norm_num at this

/-- COUNTEREXAMPLE (literal computation).  With cutoff `tol = 2 > 1` a single SARSA(λ) step from
    cleared traces stores the fresh trace with el = 1 < tol: hypothesis `tol ≤ 1` of
    `updateTraces_ok` is necessary. -/
theorem cutoff_above_one_counterexample :
    ¬ TrOK 2 (sarsalStep 1 1 1 2 [] (fun _ _ => 0) 0 0 0 0 0).1 := by
  have h : (sarsalStep 1 1 1 2 [] (fun _ _ => 0) 0 0 0 0 0).1 = [⟨0, 0, 1⟩] := by
    simp [sarsalStep, updateTraces, traceLoop]
  rw [h]
  intro h
  have := (h.1 ⟨0, 0, 1⟩ (by simp)).1
  norm_num at this


/-! ## (T7) complete functional specification of one `updateTraces` call -/

/-- induction principle for the swap-and-pop loop: the pop step is abstracted to "continue with any
    permutation of the remaining slots" -/
theorem traceLoop_induct (s a : Nat) (err td tol : Rat)
    (M : List Tr → List Tr → QF → Bool → (List Tr × QF × Bool) → Prop)
    (base : ∀ acc q nt, M acc [] q nt (acc, q, nt))
    (hhit : ∀ acc x rest q nt r, (x.s = s ∧ x.a = a) →
      M (acc ++ [⟨x.s, x.a, 1⟩]) rest (upd q x.s x.a (q x.s x.a + err * 1)) false r →
      M acc (x :: rest) q nt r)
    (hpop : ∀ acc x rest rest' q nt r, ¬ (x.s = s ∧ x.a = a) → x.el * td < tol →
      rest'.Perm rest → M acc rest' q nt r → M acc (x :: rest) q nt r)
    (hkeep : ∀ acc x rest q nt r, ¬ (x.s = s ∧ x.a = a) → ¬ x.el * td < tol →
      M (acc ++ [⟨x.s, x.a, x.el * td⟩]) rest
        (upd q x.s x.a (q x.s x.a + err * (x.el * td))) nt r →
      M acc (x :: rest) q nt r) :
    ∀ (fuel : Nat) (acc rest : List Tr) (q : QF) (nt : Bool), rest.length ≤ fuel →
      M acc rest q nt (traceLoop s a err td tol fuel acc rest q nt) := by
  intro fuel
  induction fuel with
  | zero =>
    intro acc rest q nt hlen
    have : rest = [] := List.length_eq_zero_iff.1 (Nat.le_zero.1 hlen)
    subst this
    rw [traceLoop_zero, List.append_nil]
    exact base acc q nt
  | succ f ih =>
    intro acc rest q nt hlen
    cases rest with
    | nil => rw [traceLoop_nil]; exact base acc q nt
    | cons x rest =>
      have hlen' : rest.length ≤ f := by simpa using hlen
      by_cases hit : x.s = s ∧ x.a = a
      · rw [traceLoop_hit _ _ _ _ _ _ _ _ _ _ _ hit]
        exact hhit _ _ _ _ _ _ hit (ih _ _ _ _ hlen')
      · by_cases hlt : x.el * td < tol
        · cases hy : rest.getLast? with
          | none =>
            have : rest = [] := List.getLast?_eq_none_iff.1 hy
            subst this
            rw [traceLoop_pop_nil _ _ _ _ _ _ _ _ _ _ hit hlt]
            exact hpop _ _ _ _ _ _ _ hit hlt (List.Perm.refl _) (ih _ _ _ _ (Nat.zero_le _))
          | some y =>
            rw [traceLoop_pop _ _ _ _ _ _ _ _ _ _ _ _ hit hlt hy]
            have hp := swap_perm hy
            exact hpop _ _ _ _ _ _ _ hit hlt hp (ih _ _ _ _ (by rw [hp.length_eq]; exact hlen'))
        · rw [traceLoop_keep _ _ _ _ _ _ _ _ _ _ _ hit hlt]
          exact hkeep _ _ _ _ _ _ hit hlt (ih _ _ _ _ hlen')

/-- what the loop leaves in the slot that held `x` (none = popped) -/
def finalOf (s a : Nat) (td tol : Rat) (x : Tr) : Option Tr :=
  if x.s = s ∧ x.a = a then some ⟨x.s, x.a, 1⟩
  else if x.el * td < tol then none else some ⟨x.s, x.a, x.el * td⟩

/-- the decayed survivor of a non-matching entry (none = popped, or the matching entry) -/
def decayOf (s a : Nat) (td tol : Rat) (x : Tr) : Option Tr :=
  if x.s = s ∧ x.a = a then none
  else if x.el * td < tol then none else some ⟨x.s, x.a, x.el * td⟩

theorem finalOf_key {s a : Nat} {td tol : Rat} {x u : Tr} (h : finalOf s a td tol x = some u) :
    key u = key x := by
  unfold finalOf at h
  by_cases h1 : x.s = s ∧ x.a = a
  · rw [if_pos h1] at h; cases h; rfl
  · rw [if_neg h1] at h
    by_cases h2 : x.el * td < tol
    · rw [if_pos h2] at h; cases h
    · rw [if_neg h2] at h; cases h; rfl

theorem decayOf_key {s a : Nat} {td tol : Rat} {x u : Tr} (h : decayOf s a td tol x = some u) :
    key u = key x := by
  unfold decayOf at h
  by_cases h1 : x.s = s ∧ x.a = a
  · rw [if_pos h1] at h; cases h
  · rw [if_neg h1] at h
    by_cases h2 : x.el * td < tol
    · rw [if_pos h2] at h; cases h
    · rw [if_neg h2] at h; cases h; rfl

theorem decayOf_some_iff {s a : Nat} {td tol : Rat} {x u : Tr} :
    decayOf s a td tol x = some u ↔
      ¬ (x.s = s ∧ x.a = a) ∧ ¬ x.el * td < tol ∧ u = ⟨x.s, x.a, x.el * td⟩ := by
  unfold decayOf
  by_cases h1 : x.s = s ∧ x.a = a
  · simp [h1]
  · by_cases h2 : x.el * td < tol
    · simp [h1, h2]
    · simp [h2, eq_comm]

theorem finalOf_of_not_hit {s a : Nat} {td tol : Rat} {x : Tr} (h : ¬ (x.s = s ∧ x.a = a)) :
    finalOf s a td tol x = decayOf s a td tol x := by
  simp [finalOf, decayOf, h]

/-- the list part: the result is a permutation of `acc` plus the surviving slots -/
theorem traceLoop_perm (s a : Nat) (err td tol : Rat) :
    ∀ (fuel : Nat) (acc rest : List Tr) (q : QF) (nt : Bool), rest.length ≤ fuel →
      (traceLoop s a err td tol fuel acc rest q nt).1.Perm
        (acc ++ rest.filterMap (finalOf s a td tol)) := by
  apply traceLoop_induct s a err td tol
    (fun acc rest _ _ r => r.1.Perm (acc ++ rest.filterMap (finalOf s a td tol)))
  · intro acc q nt; simp
  · intro acc x rest q nt r hit ih
    have : finalOf s a td tol x = some ⟨x.s, x.a, 1⟩ := by simp [finalOf, hit]
    simpa [List.filterMap_cons_some this] using ih
  · intro acc x rest rest' q nt r hit hlt hp ih
    have : finalOf s a td tol x = none := by simp [finalOf, hit, hlt]
    rw [List.filterMap_cons_none this]
    exact ih.trans ((hp.filterMap _).append_left acc)
  · intro acc x rest q nt r hit hlt ih
    have : finalOf s a td tol x = some ⟨x.s, x.a, x.el * td⟩ := by simp [finalOf, hit, hlt]
    simpa [List.filterMap_cons_some this] using ih

/-- the flag part: `newTrace` survives iff no slot matched -/
theorem traceLoop_flag (s a : Nat) (err td tol : Rat) :
    ∀ (fuel : Nat) (acc rest : List Tr) (q : QF) (nt : Bool), rest.length ≤ fuel →
      ((traceLoop s a err td tol fuel acc rest q nt).2.2 = true ↔
        nt = true ∧ ∀ t ∈ rest, ¬ (t.s = s ∧ t.a = a)) := by
  apply traceLoop_induct s a err td tol
    (fun _ rest _ nt r => r.2.2 = true ↔ nt = true ∧ ∀ t ∈ rest, ¬ (t.s = s ∧ t.a = a))
  · intro acc q nt; simp
  · intro acc x rest q nt r hit ih
    rw [ih]
    constructor
    · intro h; exact absurd h.1 (by simp)
    · intro h; exact absurd hit (h.2 x (List.mem_cons_self ..))
  · intro acc x rest rest' q nt r hit hlt hp ih
    rw [ih]
    constructor
    · rintro ⟨h1, h2⟩
      refine ⟨h1, ?_⟩
      intro t ht
      rcases List.mem_cons.1 ht with rfl | ht
      · exact hit
      · exact h2 t (hp.mem_iff.2 ht)
    · rintro ⟨h1, h2⟩
      exact ⟨h1, fun t ht => h2 t (List.mem_cons_of_mem _ (hp.mem_iff.1 ht))⟩
  · intro acc x rest q nt r hit hlt ih
    rw [ih]
    constructor
    · rintro ⟨h1, h2⟩
      refine ⟨h1, ?_⟩
      intro t ht
      rcases List.mem_cons.1 ht with rfl | ht
      · exact hit
      · exact h2 t ht
    · rintro ⟨h1, h2⟩
      exact ⟨h1, fun t ht => h2 t (List.mem_cons_of_mem _ ht)⟩

theorem upd_same (q : QF) (s a : Nat) (v : Rat) : upd q s a v s a = v := by simp [upd]

theorem upd_other (q : QF) (s a : Nat) (v : Rat) (s' a' : Nat) (h : (s', a') ≠ (s, a)) :
    upd q s a v s' a' = q s' a' := by
  unfold upd
  rw [if_neg]
  intro hh; exact h (by rw [hh.1, hh.2])

/-- the table part (one loop step that stores an entry for `x`) -/
theorem table_step (s a : Nat) (err td tol : Rat) {x : Tr} {rest : List Tr} {q r : QF} {e : Rat}
    (hfx : finalOf s a td tol x = some ⟨x.s, x.a, e⟩)
    (hnd : ((x :: rest).map key).Nodup)
    (ihC : ∀ t ∈ rest, ∀ u, finalOf s a td tol t = some u →
      r u.s u.a = (upd q x.s x.a (q x.s x.a + err * e)) u.s u.a + err * u.el)
    (ihD : ∀ s' a', (∀ t ∈ rest, ∀ u, finalOf s a td tol t = some u → key u ≠ (s', a')) →
      r s' a' = (upd q x.s x.a (q x.s x.a + err * e)) s' a') :
    (∀ t ∈ x :: rest, ∀ u, finalOf s a td tol t = some u → r u.s u.a = q u.s u.a + err * u.el) ∧
    (∀ s' a', (∀ t ∈ x :: rest, ∀ u, finalOf s a td tol t = some u → key u ≠ (s', a')) →
      r s' a' = q s' a') := by
  have hxn : key x ∉ rest.map key := (List.nodup_cons.1 (by simpa using hnd)).1
  have hk : ∀ t ∈ rest, ∀ u, finalOf s a td tol t = some u → key u ≠ key x := by
    intro t ht u hu heq
    apply hxn
    rw [← heq, finalOf_key hu]
    exact List.mem_map.2 ⟨t, ht, rfl⟩
  constructor
  · intro t ht u hu
    rcases List.mem_cons.1 ht with rfl | ht
    · rw [hfx] at hu
      cases hu
      show r t.s t.a = q t.s t.a + err * e
      rw [ihD t.s t.a (fun t' ht' u' hu' => hk t' ht' u' hu'), upd_same]
    · rw [ihC t ht u hu, upd_other _ _ _ _ _ _ (hk t ht u hu)]
  · intro s' a' h
    rw [ihD s' a' (fun t ht => h t (List.mem_cons_of_mem _ ht)), upd_other]
    intro heq
    exact h x (List.mem_cons_self ..) _ hfx heq.symm

/-- the table part of the loop -/
theorem traceLoop_table (s a : Nat) (err td tol : Rat) :
    ∀ (fuel : Nat) (acc rest : List Tr) (q : QF) (nt : Bool), rest.length ≤ fuel →
      (rest.map key).Nodup →
      (∀ t ∈ rest, ∀ u, finalOf s a td tol t = some u →
        (traceLoop s a err td tol fuel acc rest q nt).2.1 u.s u.a = q u.s u.a + err * u.el) ∧
      (∀ s' a', (∀ t ∈ rest, ∀ u, finalOf s a td tol t = some u → key u ≠ (s', a')) →
        (traceLoop s a err td tol fuel acc rest q nt).2.1 s' a' = q s' a') := by
  apply traceLoop_induct s a err td tol
    (fun _ rest q _ r => (rest.map key).Nodup →
      (∀ t ∈ rest, ∀ u, finalOf s a td tol t = some u → r.2.1 u.s u.a = q u.s u.a + err * u.el) ∧
      (∀ s' a', (∀ t ∈ rest, ∀ u, finalOf s a td tol t = some u → key u ≠ (s', a')) →
        r.2.1 s' a' = q s' a'))
  · intro acc q nt _
    exact ⟨fun t ht => (by cases ht), fun _ _ _ => rfl⟩
  · intro acc x rest q nt r hit ih hnd
    have hnd' : (rest.map key).Nodup := (List.nodup_cons.1 (by simpa using hnd)).2
    have hfx : finalOf s a td tol x = some ⟨x.s, x.a, 1⟩ := by simp [finalOf, hit]
    exact table_step s a err td tol hfx hnd (ih hnd').1 (ih hnd').2
  · intro acc x rest rest' q nt r hit hlt hp ih hnd
    have hnd' : (rest.map key).Nodup := (List.nodup_cons.1 (by simpa using hnd)).2
    have hfx : finalOf s a td tol x = none := by simp [finalOf, hit, hlt]
    obtain ⟨ihC, ihD⟩ := ih ((hp.map key).nodup_iff.2 hnd')
    constructor
    · intro t ht u hu
      rcases List.mem_cons.1 ht with rfl | ht
      · rw [hfx] at hu; cases hu
      · exact ihC t (hp.mem_iff.2 ht) u hu
    · intro s' a' h
      exact ihD s' a' (fun t ht => h t (List.mem_cons_of_mem _ (hp.mem_iff.1 ht)))
  · intro acc x rest q nt r hit hlt ih hnd
    have hnd' : (rest.map key).Nodup := (List.nodup_cons.1 (by simpa using hnd)).2
    have hfx : finalOf s a td tol x = some ⟨x.s, x.a, x.el * td⟩ := by simp [finalOf, hit, hlt]
    exact table_step s a err td tol hfx hnd (ih hnd').1 (ih hnd').2


theorem filterMap_congr' {α β : Type _} {f g : α → Option β} :
    ∀ {l : List α}, (∀ x ∈ l, f x = g x) → l.filterMap f = l.filterMap g
  | [], _ => rfl
  | x :: l, h => by
    have hx := h x (List.mem_cons_self ..)
    have ih := filterMap_congr' (l := l) (fun y hy => h y (List.mem_cons_of_mem _ hy))
    simp only [List.filterMap_cons, hx, ih]

theorem filterMap_final_nohit (s a : Nat) (td tol : Rat) {l : List Tr}
    (h : ∀ t ∈ l, ¬ (t.s = s ∧ t.a = a)) :
    l.filterMap (finalOf s a td tol) = l.filterMap (decayOf s a td tol) :=
  filterMap_congr' (fun t ht => finalOf_of_not_hit (h t ht))

theorem filterMap_final_hit (s a : Nat) (td tol : Rat) :
    ∀ {l : List Tr}, (l.map key).Nodup → (∃ t ∈ l, t.s = s ∧ t.a = a) →
      (l.filterMap (finalOf s a td tol)).Perm (⟨s, a, 1⟩ :: l.filterMap (decayOf s a td tol))
  | [], _, h => by obtain ⟨t, ht, _⟩ := h; cases ht
  | x :: l, hnd, h => by
    have hnd2 := List.nodup_cons.1 (by simpa using hnd : (key x :: l.map key).Nodup)
    by_cases hit : x.s = s ∧ x.a = a
    · have hno : ∀ t ∈ l, ¬ (t.s = s ∧ t.a = a) := by
        intro t ht hh
        apply hnd2.1
        have : key x = key t := by simp [key, hit.1, hit.2, hh.1, hh.2]
        rw [this]
        exact List.mem_map.2 ⟨t, ht, rfl⟩
      have h1 : finalOf s a td tol x = some ⟨s, a, 1⟩ := by simp [finalOf, hit]
      have h2 : decayOf s a td tol x = none := by simp [decayOf, hit]
      rw [List.filterMap_cons_some h1, List.filterMap_cons_none h2, filterMap_final_nohit s a td tol hno]
    · have hex : ∃ t ∈ l, t.s = s ∧ t.a = a := by
        obtain ⟨t, ht, hh⟩ := h
        rcases List.mem_cons.1 ht with rfl | ht
        · exact absurd hh hit
        · exact ⟨t, ht, hh⟩
      have ih := filterMap_final_hit s a td tol hnd2.2 hex
      have heq := finalOf_of_not_hit (td := td) (tol := tol) hit
      cases hd : decayOf s a td tol x with
      | none =>
        rw [hd] at heq
        rw [List.filterMap_cons_none heq, List.filterMap_cons_none hd]
        exact ih
      | some u =>
        rw [hd] at heq
        rw [List.filterMap_cons_some heq, List.filterMap_cons_some hd]
        exact (List.Perm.cons u ih).trans (List.Perm.swap _ _ _)

theorem map_key_filterMap_sublist {f : Tr → Option Tr} (hf : ∀ x u, f x = some u → key u = key x) :
    ∀ (l : List Tr), ((l.filterMap f).map key).Sublist (l.map key)
  | [] => List.Sublist.slnil
  | x :: l => by
    cases hx : f x with
    | none =>
      rw [List.filterMap_cons_none hx, List.map_cons]
      exact (map_key_filterMap_sublist hf l).cons _
    | some u =>
      rw [List.filterMap_cons_some hx, List.map_cons, List.map_cons, hf x u hx]
      exact (map_key_filterMap_sublist hf l).cons_cons _

theorem key_inj_of_nodup : ∀ {l : List Tr}, (l.map key).Nodup →
    ∀ {x y : Tr}, x ∈ l → y ∈ l → key x = key y → x = y
  | [], _, _, _, hx, _, _ => by cases hx
  | z :: l, hnd, x, y, hx, hy, hxy => by
    have hnd2 := List.nodup_cons.1 (by simpa using hnd : (key z :: l.map key).Nodup)
    rcases List.mem_cons.1 hx with rfl | hx' <;> rcases List.mem_cons.1 hy with rfl | hy'
    · rfl
    · exact absurd (List.mem_map.2 ⟨y, hy', hxy.symm⟩) hnd2.1
    · exact absurd (List.mem_map.2 ⟨x, hx', hxy⟩) hnd2.1
    · exact key_inj_of_nodup hnd2.2 hx' hy' hxy

/-- (T7a) the stored list after one call is, up to order, the fresh/reset entry `(s,a,1)` plus the
    decayed survivors of all other entries: swap-and-pop visits every slot exactly once -/
theorem updateTraces_perm (s a : Nat) (err td tol : Rat) (tr : List Tr) (q : QF)
    (hnd : (tr.map key).Nodup) :
    (updateTraces s a err td tol tr q).1.Perm (⟨s, a, 1⟩ :: tr.filterMap (decayOf s a td tol)) := by
  have hp := traceLoop_perm s a err td tol tr.length [] tr q true (le_refl _)
  have hf := traceLoop_flag s a err td tol tr.length [] tr q true (le_refl _)
  rw [List.nil_append] at hp
  rw [updateTraces_eq]
  by_cases hflag : (traceLoop s a err td tol tr.length [] tr q true).2.2 = true
  · rw [if_pos hflag]
    have hno := (hf.1 hflag).2
    rw [filterMap_final_nohit s a td tol hno] at hp
    exact (List.perm_append_singleton _ _).trans (List.Perm.cons _ hp)
  · rw [if_neg hflag]
    have hex : ∃ t ∈ tr, t.s = s ∧ t.a = a := by
      by_contra hcon
      apply hflag
      apply hf.2
      refine ⟨rfl, ?_⟩
      intro t ht hh
      exact hcon ⟨t, ht, hh⟩
    exact hp.trans (filterMap_final_hit s a td tol hnd hex)

/-- (T7b) the table after one call: every stored entry received `err * (its new eligibility)`,
    every pair that is not stored is unchanged -/
theorem updateTraces_table (s a : Nat) (err td tol : Rat) (tr : List Tr) (q : QF)
    (hnd : (tr.map key).Nodup) :
    (∀ u ∈ (updateTraces s a err td tol tr q).1,
      (updateTraces s a err td tol tr q).2 u.s u.a = q u.s u.a + err * u.el) ∧
    (∀ s' a', (s', a') ∉ (updateTraces s a err td tol tr q).1.map key →
      (updateTraces s a err td tol tr q).2 s' a' = q s' a') := by
  have hp := traceLoop_perm s a err td tol tr.length [] tr q true (le_refl _)
  have hf := traceLoop_flag s a err td tol tr.length [] tr q true (le_refl _)
  obtain ⟨hC, hD⟩ := traceLoop_table s a err td tol tr.length [] tr q true (le_refl _) hnd
  rw [List.nil_append] at hp
  have hmem : ∀ u, u ∈ (traceLoop s a err td tol tr.length [] tr q true).1 ↔
      ∃ t ∈ tr, finalOf s a td tol t = some u := by
    intro u; rw [hp.mem_iff, List.mem_filterMap]
  -- pairs whose key is not stored by the loop are untouched by the loop
  have hD' : ∀ s' a', (s', a') ∉ (traceLoop s a err td tol tr.length [] tr q true).1.map key →
      (traceLoop s a err td tol tr.length [] tr q true).2.1 s' a' = q s' a' := by
    intro s' a' hns
    apply hD
    intro t ht u hu heq
    apply hns
    rw [← heq]
    exact List.mem_map.2 ⟨u, (hmem u).2 ⟨t, ht, hu⟩, rfl⟩
  rw [updateTraces_eq]
  by_cases hflag : (traceLoop s a err td tol tr.length [] tr q true).2.2 = true
  · rw [if_pos hflag]
    have hno := (hf.1 hflag).2
    have hsa : (s, a) ∉ (traceLoop s a err td tol tr.length [] tr q true).1.map key := by
      intro hin
      obtain ⟨u, hu, hku⟩ := List.mem_map.1 hin
      obtain ⟨t, ht, hfu⟩ := (hmem u).1 hu
      have := finalOf_key hfu
      rw [hku] at this
      simp only [key, Prod.mk.injEq] at this
      exact hno t ht ⟨this.1.symm, this.2.symm⟩
    constructor
    · intro u hu
      rcases List.mem_append.1 hu with hu | hu
      · obtain ⟨t, ht, hfu⟩ := (hmem u).1 hu
        show upd _ s a _ u.s u.a = _
        rw [upd_other, hC t ht u hfu]
        intro heq
        exact hsa (List.mem_map.2 ⟨u, hu, heq⟩)
      · have : u = ⟨s, a, 1⟩ := by simpa using hu
        subst this
        show upd _ s a _ s a = q s a + err * 1
        rw [upd_same, hD' s a hsa, mul_one]
    · intro s' a' hns
      show upd _ s a _ s' a' = _
      have hns' : (s', a') ∉ (traceLoop s a err td tol tr.length [] tr q true).1.map key ∧
          (s', a') ≠ (s, a) := by
        constructor
        · intro h; apply hns; simp only [List.map_append, List.mem_append]; exact Or.inl h
        · intro h; apply hns; simp [key, h]
      rw [upd_other _ _ _ _ _ _ hns'.2, hD' s' a' hns'.1]
  · rw [if_neg hflag]
    constructor
    · intro u hu
      obtain ⟨t, ht, hfu⟩ := (hmem u).1 hu
      exact hC t ht u hfu
    · intro s' a' hns
      exact hD' s' a' hns

/-- the stored keys stay distinct (no bound hypotheses needed) -/
theorem updateTraces_nodup (s a : Nat) (err td tol : Rat) (tr : List Tr) (q : QF)
    (hnd : (tr.map key).Nodup) : ((updateTraces s a err td tol tr q).1.map key).Nodup := by
  rw [((updateTraces_perm s a err td tol tr q hnd).map key).nodup_iff, List.map_cons, List.nodup_cons]
  constructor
  · intro hin
    obtain ⟨u, hu, hku⟩ := List.mem_map.1 hin
    obtain ⟨t, _, hd⟩ := List.mem_filterMap.1 hu
    have h1 := (decayOf_some_iff.1 hd).1
    have h2 := decayOf_key hd
    rw [hku] at h2
    simp only [key, Prod.mk.injEq] at h2
    exact h1 ⟨h2.1.symm, h2.2.symm⟩
  · exact List.Nodup.sublist (map_key_filterMap_sublist (fun x u h => decayOf_key h) tr) hnd

/-- (T7) the complete functional specification of one `updateTraces` call on a list with distinct
    keys, in elementary terms -/
theorem updateTraces_spec (s a : Nat) (err td tol : Rat) (tr : List Tr) (q : QF)
    (hnd : (tr.map key).Nodup) :
    -- every other entry is decayed exactly once and either kept (table += err * new el) or popped
    (∀ t ∈ tr, key t ≠ (s, a) →
      (tol ≤ t.el * td →
        (⟨t.s, t.a, t.el * td⟩ : Tr) ∈ (updateTraces s a err td tol tr q).1 ∧
        (updateTraces s a err td tol tr q).2 t.s t.a = q t.s t.a + err * (t.el * td)) ∧
      (t.el * td < tol →
        key t ∉ (updateTraces s a err td tol tr q).1.map key ∧
        (updateTraces s a err td tol tr q).2 t.s t.a = q t.s t.a)) ∧
    -- the visited pair has eligibility one and received the full error
    (⟨s, a, 1⟩ : Tr) ∈ (updateTraces s a err td tol tr q).1 ∧
    (updateTraces s a err td tol tr q).2 s a = q s a + err ∧
    -- nothing else is stored
    (∀ u ∈ (updateTraces s a err td tol tr q).1, u = ⟨s, a, 1⟩ ∨
      ∃ t ∈ tr, key t ≠ (s, a) ∧ tol ≤ t.el * td ∧ u = ⟨t.s, t.a, t.el * td⟩) ∧
    -- pairs that are not stored are unchanged
    (∀ s' a', (s', a') ∉ (updateTraces s a err td tol tr q).1.map key →
      (updateTraces s a err td tol tr q).2 s' a' = q s' a') ∧
    ((updateTraces s a err td tol tr q).1.map key).Nodup ∧
    (updateTraces s a err td tol tr q).1.length ≤ tr.length + 1 := by
  have hp := updateTraces_perm s a err td tol tr q hnd
  obtain ⟨hC, hD⟩ := updateTraces_table s a err td tol tr q hnd
  have hnd' := updateTraces_nodup s a err td tol tr q hnd
  have hkey : ∀ t : Tr, key t ≠ (s, a) → ¬ (t.s = s ∧ t.a = a) := by
    intro t h hh; apply h; simp [key, hh.1, hh.2]
  have hnew : (⟨s, a, 1⟩ : Tr) ∈ (updateTraces s a err td tol tr q).1 :=
    hp.mem_iff.2 (List.mem_cons_self ..)
  refine ⟨?_, hnew, ?_, ?_, hD, hnd', ?_⟩
  · intro t ht hk
    constructor
    · intro hge
      have hd : decayOf s a td tol t = some ⟨t.s, t.a, t.el * td⟩ :=
        decayOf_some_iff.2 ⟨hkey t hk, not_lt.2 hge, rfl⟩
      have hin : (⟨t.s, t.a, t.el * td⟩ : Tr) ∈ (updateTraces s a err td tol tr q).1 :=
        hp.mem_iff.2 (List.mem_cons_of_mem _ (List.mem_filterMap.2 ⟨t, ht, hd⟩))
      exact ⟨hin, hC _ hin⟩
    · intro hlt
      have hnot : key t ∉ (updateTraces s a err td tol tr q).1.map key := by
        intro hin
        obtain ⟨u, hu, hku⟩ := List.mem_map.1 hin
        rcases List.mem_cons.1 (hp.mem_iff.1 hu) with rfl | hu'
        · exact hk hku.symm
        · obtain ⟨t', ht', hd⟩ := List.mem_filterMap.1 hu'
          have hkk : key t' = key t := by rw [← decayOf_key hd, hku]
          have : t' = t := key_inj_of_nodup hnd ht' ht hkk
          subst this
          exact (decayOf_some_iff.1 hd).2.1 hlt
      exact ⟨hnot, hD t.s t.a hnot⟩
  · have := hC _ hnew
    simpa using this
  · intro u hu
    rcases List.mem_cons.1 (hp.mem_iff.1 hu) with rfl | hu'
    · exact Or.inl rfl
    · obtain ⟨t, ht, hd⟩ := List.mem_filterMap.1 hu'
      obtain ⟨h1, h2, h3⟩ := decayOf_some_iff.1 hd
      refine Or.inr ⟨t, ht, ?_, not_lt.1 h2, h3⟩
      intro hk
      simp only [key, Prod.mk.injEq] at hk
      exact h1 hk
  · rw [hp.length_eq, List.length_cons]
    exact Nat.succ_le_succ (List.length_filterMap_le _ _)

end AITB.Learn
