import AITB.Model.Learners
import Mathlib.Algebra.Order.Field.Rat
import Mathlib.Tactic.Linarith
import Mathlib.Tactic.Ring

namespace AITB.Learn

def key (t : Tr) : Nat × Nat := (t.s, t.a)

/-- every stored eligibility lies in [tol, 1] and no (s,a) is stored twice -/
def TrOK (tol : Rat) (tr : List Tr) : Prop :=
  (∀ t ∈ tr, tol ≤ t.el ∧ t.el ≤ 1) ∧ (tr.map key).Nodup

/-! ## step equations of the swap-and-pop loop -/

section steps
variable (s a : Nat) (err td tol : Rat)

theorem traceLoop_zero (acc rest : List Tr) (q : QF) (nt : Bool) :
    traceLoop s a err td tol 0 acc rest q nt = (acc ++ rest, q, nt) := by
  simp [traceLoop]

theorem traceLoop_nil (f : Nat) (acc : List Tr) (q : QF) (nt : Bool) :
    traceLoop s a err td tol (f+1) acc [] q nt = (acc, q, nt) := by
  simp [traceLoop]

theorem traceLoop_hit (f : Nat) (acc : List Tr) (x : Tr) (rest : List Tr) (q : QF) (nt : Bool)
    (h : x.s = s ∧ x.a = a) :
    traceLoop s a err td tol (f+1) acc (x :: rest) q nt
      = traceLoop s a err td tol f (acc ++ [⟨x.s, x.a, 1⟩]) rest
          (upd q x.s x.a (q x.s x.a + err * 1)) false := by
  simp [traceLoop, h]

theorem traceLoop_pop_nil (f : Nat) (acc : List Tr) (x : Tr) (q : QF) (nt : Bool)
    (h : ¬ (x.s = s ∧ x.a = a)) (hlt : x.el * td < tol) :
    traceLoop s a err td tol (f+1) acc [x] q nt = traceLoop s a err td tol f acc [] q nt := by
  simp [traceLoop, h, hlt]

theorem traceLoop_pop (f : Nat) (acc : List Tr) (x : Tr) (rest : List Tr) (y : Tr) (q : QF) (nt : Bool)
    (h : ¬ (x.s = s ∧ x.a = a)) (hlt : x.el * td < tol) (hy : rest.getLast? = some y) :
    traceLoop s a err td tol (f+1) acc (x :: rest) q nt
      = traceLoop s a err td tol f acc (y :: rest.dropLast) q nt := by
  simp [traceLoop, h, hlt, hy]

theorem traceLoop_keep (f : Nat) (acc : List Tr) (x : Tr) (rest : List Tr) (q : QF) (nt : Bool)
    (h : ¬ (x.s = s ∧ x.a = a)) (hge : ¬ x.el * td < tol) :
    traceLoop s a err td tol (f+1) acc (x :: rest) q nt
      = traceLoop s a err td tol f (acc ++ [⟨x.s, x.a, x.el * td⟩]) rest
          (upd q x.s x.a (q x.s x.a + err * (x.el * td))) nt := by
  simp [traceLoop, h, hge]

end steps

theorem swap_perm {α : Type _} {rest : List α} {y : α} (h : rest.getLast? = some y) :
    (y :: rest.dropLast).Perm rest := by
  obtain ⟨ys, rfl⟩ := List.getLast?_eq_some_iff.1 h
  simpa using (List.perm_append_singleton y ys).symm


/-! ## (T1) the trace invariant is preserved -/

theorem nodup_drop_mid {acc rest : List Tr} {x : Tr}
    (h : ((acc ++ x :: rest).map key).Nodup) : ((acc ++ rest).map key).Nodup :=
  List.Nodup.sublist
    (List.Sublist.map key (List.Sublist.append_left (List.sublist_cons_self x rest) acc)) h

theorem decay_le_one {el td : Rat} (h0 : 0 ≤ td) (h1 : td ≤ 1) (hel : el ≤ 1) : el * td ≤ 1 := by
  rcases le_total el 0 with hneg | hpos
  · have : el * td ≤ 0 := mul_nonpos_of_nonpos_of_nonneg hneg h0
    linarith
  · have : el * td ≤ el * 1 := mul_le_mul_of_nonneg_left h1 hpos
    linarith

theorem traceLoop_ok (s a : Nat) (err td tol : Rat) (h0 : 0 ≤ td) (h1 : td ≤ 1) (htol : tol ≤ 1) :
    ∀ (fuel : Nat) (acc rest : List Tr) (q : QF) (nt : Bool),
      rest.length ≤ fuel →
      (∀ t ∈ acc, tol ≤ t.el ∧ t.el ≤ 1) →
      (∀ t ∈ rest, t.el ≤ 1) →
      ((acc ++ rest).map key).Nodup →
      (nt = true → (s, a) ∉ acc.map key) →
      (∀ t ∈ (traceLoop s a err td tol fuel acc rest q nt).1, tol ≤ t.el ∧ t.el ≤ 1) ∧
      ((traceLoop s a err td tol fuel acc rest q nt).1.map key).Nodup ∧
      ((traceLoop s a err td tol fuel acc rest q nt).2.2 = true →
        (s, a) ∉ (traceLoop s a err td tol fuel acc rest q nt).1.map key) := by
  intro fuel
  induction fuel with
  | zero =>
    intro acc rest q nt hlen hacc hrest hnd hnt
    have : rest = [] := List.length_eq_zero_iff.1 (Nat.le_zero.1 hlen)
    subst this
    rw [traceLoop_zero]
    simp only [List.append_nil] at hnd ⊢
    exact ⟨hacc, hnd, hnt⟩
  | succ f ih =>
    intro acc rest q nt hlen hacc hrest hnd hnt
    cases rest with
    | nil =>
      rw [traceLoop_nil]
      simp only [List.append_nil] at hnd
      exact ⟨hacc, hnd, hnt⟩
    | cons x rest =>
      have hlen' : rest.length ≤ f := by simpa using hlen
      have hrest' : ∀ t ∈ rest, t.el ≤ 1 := fun t ht => hrest t (List.mem_cons_of_mem _ ht)
      by_cases hit : x.s = s ∧ x.a = a
      · rw [traceLoop_hit _ _ _ _ _ _ _ _ _ _ _ hit]
        apply ih _ _ _ _ hlen'
        · intro t ht
          rcases List.mem_append.1 ht with ht | ht
          · exact hacc t ht
          · have : t = ⟨x.s, x.a, 1⟩ := by simpa using ht
            subst this
            exact ⟨htol, le_refl _⟩
        · exact hrest'
        · simpa [key] using hnd
        · intro h; cases h
      · by_cases hlt : x.el * td < tol
        · cases hy : rest.getLast? with
          | none =>
            have : rest = [] := List.getLast?_eq_none_iff.1 hy
            subst this
            rw [traceLoop_pop_nil _ _ _ _ _ _ _ _ _ _ hit hlt]
            apply ih _ _ _ _ (Nat.zero_le _) hacc
            · intro t ht; cases ht
            · exact nodup_drop_mid hnd
            · exact hnt
          | some y =>
            rw [traceLoop_pop _ _ _ _ _ _ _ _ _ _ _ _ hit hlt hy]
            have hp := swap_perm hy
            apply ih _ _ _ _ _ hacc
            · intro t ht; exact hrest' t (hp.mem_iff.1 ht)
            · exact ((hp.append_left acc).map key).nodup_iff.2 (nodup_drop_mid hnd)
            · exact hnt
            · rw [hp.length_eq]; exact hlen'
        · rw [traceLoop_keep _ _ _ _ _ _ _ _ _ _ _ hit hlt]
          apply ih _ _ _ _ hlen'
          · intro t ht
            rcases List.mem_append.1 ht with ht | ht
            · exact hacc t ht
            · have : t = ⟨x.s, x.a, x.el * td⟩ := by simpa using ht
              subst this
              exact ⟨not_lt.1 hlt, decay_le_one h0 h1 (hrest x (List.mem_cons_self ..))⟩
          · exact hrest'
          · simpa [key] using hnd
          · intro h
            have := hnt h
            simp only [List.map_append, List.mem_append, not_or]
            refine ⟨this, ?_⟩
            simp only [key, List.map_cons, List.map_nil, List.mem_singleton, Prod.mk.injEq]
            intro hh; exact hit ⟨hh.1.symm, hh.2.symm⟩

/-- (T1) one call of `updateTraces` preserves the trace invariant -/
theorem updateTraces_ok (s a : Nat) (err td tol : Rat) (tr : List Tr) (q : QF)
    (h0 : 0 ≤ td) (h1 : td ≤ 1) (htol : tol ≤ 1) (h : TrOK tol tr) :
    TrOK tol (updateTraces s a err td tol tr q).1 := by
  have hl := traceLoop_ok s a err td tol h0 h1 htol tr.length [] tr q true (le_refl _)
    (by intro t ht; cases ht) (fun t ht => (h.1 t ht).2) (by simpa using h.2) (by simp)
  unfold updateTraces
  rcases hr : traceLoop s a err td tol tr.length [] tr q true with ⟨tr', q', nt⟩
  rw [hr] at hl
  obtain ⟨hb, hnd, hnt⟩ := hl
  cases nt with
  | false => exact ⟨hb, hnd⟩
  | true =>
    show TrOK tol (tr' ++ [⟨s, a, 1⟩])
    refine ⟨?_, ?_⟩
    · intro t ht
      rcases List.mem_append.1 ht with ht | ht
      · exact hb t ht
      · have : t = ⟨s, a, 1⟩ := by simpa using ht
        subst this
        exact ⟨htol, le_refl _⟩
    · have hnot := hnt rfl
      simp only [List.map_append, List.map_cons, List.map_nil]
      rw [List.nodup_append]
      refine ⟨hnd, by simp, ?_⟩
      intro x hx y hy
      have : y = (s, a) := by simpa [key] using hy
      subst this
      intro hxy; subst hxy; exact hnot hx


/-! ## (T2) trace discount 0: the table changes exactly at (s,a), by `err` -/

theorem upd_self (q : QF) (s a : Nat) : upd q s a (q s a) = q := by
  funext s' a'
  simp only [upd]
  split
  · next h => rw [h.1, h.2]
  · rfl

theorem key_ne_of_not_hit {x : Tr} {s a : Nat} (h : ¬ (x.s = s ∧ x.a = a)) : (s, a) ≠ key x := by
  intro hh
  simp only [key, Prod.mk.injEq] at hh
  exact h ⟨hh.1.symm, hh.2.symm⟩

theorem traceLoop_td0 (s a : Nat) (err tol : Rat) :
    ∀ (fuel : Nat) (acc rest : List Tr) (q : QF) (nt : Bool),
      rest.length ≤ fuel → (rest.map key).Nodup →
      (traceLoop s a err 0 tol fuel acc rest q nt).2
        = if (s, a) ∈ rest.map key then (upd q s a (q s a + err), false) else (q, nt) := by
  intro fuel
  induction fuel with
  | zero =>
    intro acc rest q nt hlen _
    have : rest = [] := List.length_eq_zero_iff.1 (Nat.le_zero.1 hlen)
    subst this
    simp [traceLoop_zero]
  | succ f ih =>
    intro acc rest q nt hlen hnd
    cases rest with
    | nil => simp [traceLoop_nil]
    | cons x rest =>
      have hlen' : rest.length ≤ f := by simpa using hlen
      have hnd' : (rest.map key).Nodup := (List.nodup_cons.1 (by simpa using hnd)).2
      by_cases hit : x.s = s ∧ x.a = a
      · rw [traceLoop_hit _ _ _ _ _ _ _ _ _ _ _ hit, ih _ _ _ _ hlen' hnd']
        have hkx : key x = (s, a) := by simp [key, hit.1, hit.2]
        have hnot : (s, a) ∉ rest.map key := by
          have := (List.nodup_cons.1 (by simpa using hnd : (key x :: rest.map key).Nodup)).1
          rwa [hkx] at this
        have hin : (s, a) ∈ (x :: rest).map key := by simp [hkx]
        rw [if_neg hnot, if_pos hin, hit.1, hit.2, mul_one]
      · have hne := key_ne_of_not_hit hit
        by_cases hlt : x.el * 0 < tol
        · cases hy : rest.getLast? with
          | none =>
            have : rest = [] := List.getLast?_eq_none_iff.1 hy
            subst this
            rw [traceLoop_pop_nil _ _ _ _ _ _ _ _ _ _ hit hlt, ih _ _ _ _ hlen' hnd']
            have : (s, a) ∉ [x].map key := by simpa using hne
            rw [if_neg this]
            simp
          | some y =>
            rw [traceLoop_pop _ _ _ _ _ _ _ _ _ _ _ _ hit hlt hy]
            have hp := swap_perm hy
            rw [ih _ _ _ _ (by rw [hp.length_eq]; exact hlen') ((hp.map key).nodup_iff.2 hnd')]
            have hiff : (s, a) ∈ (y :: rest.dropLast).map key ↔ (s, a) ∈ (x :: rest).map key := by
              rw [(hp.map key).mem_iff]
              simp [hne]
            simp only [hiff]
        · rw [traceLoop_keep _ _ _ _ _ _ _ _ _ _ _ hit hlt, ih _ _ _ _ hlen' hnd']
          have hq : upd q x.s x.a (q x.s x.a + err * (x.el * 0)) = q := by
            rw [mul_zero, mul_zero, add_zero, upd_self]
          have hiff : (s, a) ∈ (x :: rest).map key ↔ (s, a) ∈ rest.map key := by
            simp [hne]
          rw [hq]
          simp only [hiff]

theorem updateTraces_eq (s a : Nat) (err td tol : Rat) (tr : List Tr) (q : QF) :
    updateTraces s a err td tol tr q
      = if (traceLoop s a err td tol tr.length [] tr q true).2.2 = true then
          ((traceLoop s a err td tol tr.length [] tr q true).1 ++ [⟨s, a, 1⟩],
            upd (traceLoop s a err td tol tr.length [] tr q true).2.1 s a
              ((traceLoop s a err td tol tr.length [] tr q true).2.1 s a + err))
        else ((traceLoop s a err td tol tr.length [] tr q true).1,
              (traceLoop s a err td tol tr.length [] tr q true).2.1) := rfl

/-- (T2) with trace discount 0 the table changes exactly at (s,a), by `err` (no hypothesis on tol) -/
theorem updateTraces_td0 (s a : Nat) (err tol : Rat) (tr : List Tr) (q : QF)
    (hnd : (tr.map key).Nodup) :
    (updateTraces s a err 0 tol tr q).2 = upd q s a (q s a + err) := by
  have hl := traceLoop_td0 s a err tol tr.length [] tr q true (le_refl _) hnd
  rw [updateTraces_eq]
  rcases hr : traceLoop s a err 0 tol tr.length [] tr q true with ⟨tr', q', nt⟩
  rw [hr] at hl
  by_cases hin : (s, a) ∈ tr.map key
  · rw [if_pos hin] at hl
    have h1 : q' = upd q s a (q s a + err) := congrArg Prod.fst hl
    have h2 : nt = false := congrArg Prod.snd hl
    subst h2
    simp [h1]
  · rw [if_neg hin] at hl
    have h1 : q' = q := congrArg Prod.fst hl
    have h2 : nt = true := congrArg Prod.snd hl
    subst h2
    simp [h1]


/-! ## (T3) trace discounts of the λ-family lie in [0,1] -/

theorem min1_unit {x : Rat} (h : 0 ≤ x) : 0 ≤ min1 x ∧ min1 x ≤ 1 := by
  unfold min1
  split
  · next hlt => exact ⟨h, le_of_lt hlt⟩
  · exact ⟨by norm_num, le_refl _⟩

theorem mul_unit {x y : Rat} (hx0 : 0 ≤ x) (hx1 : x ≤ 1) (hy0 : 0 ≤ y) (hy1 : y ≤ 1) :
    0 ≤ x * y ∧ x * y ≤ 1 := by
  refine ⟨mul_nonneg hx0 hy0, ?_⟩
  have : x * y ≤ 1 * 1 := mul_le_mul hx1 hy1 hy0 (by norm_num)
  linarith

theorem cEval_unit (k : Kind) (hk : k ≠ .is) (lam pt pb : Rat)
    (hl0 : 0 ≤ lam) (hl1 : lam ≤ 1) (hp0 : 0 ≤ pt) (hp1 : pt ≤ 1) (hb : 0 < pb) :
    0 ≤ cEval k lam pt pb ∧ cEval k lam pt pb ≤ 1 := by
  cases k with
  | ql => exact ⟨hl0, hl1⟩
  | retrace =>
    have hm := min1_unit (div_nonneg hp0 (le_of_lt hb))
    exact mul_unit hl0 hl1 hm.1 hm.2
  | tb => exact mul_unit hl0 hl1 hp0 hp1
  | is => exact absurd rfl hk

theorem probGreedy_unit (ε : Rat) (A a mA : Nat) (hA : 0 < A) (h0 : 0 ≤ ε) (h1 : ε ≤ 1) :
    0 ≤ probGreedy ε A a mA ∧ probGreedy ε A a mA ≤ 1 := by
  have hA1 : (1 : Rat) ≤ (A : Rat) := by exact_mod_cast hA
  have hd0 : 0 ≤ ε / (A : Rat) := div_nonneg h0 (by linarith)
  have hd1 : ε / (A : Rat) ≤ ε := div_le_self h0 hA1
  unfold probGreedy
  split
  · constructor <;> linarith
  · constructor <;> linarith

/-! ## (T4) the invariant holds along every history -/

structure TEv where
  s : Nat
  a : Nat
  s1 : Nat
  a1 : Nat
  r : Rat

def sarsalRun (γ α lam tol : Rat) : List TEv → List Tr × QF → List Tr × QF
  | [], st => st
  | e :: es, st =>
    sarsalRun γ α lam tol es (sarsalStep γ α lam tol st.1 st.2 e.s e.a e.s1 e.a1 e.r)

def evalRun (k : Kind) (γ α lam tol : Rat) (A : Nat) (πt πb : Nat → Nat → Rat) :
    List TEv → List Tr × QF → List Tr × QF
  | [], st => st
  | e :: es, st =>
    evalRun k γ α lam tol A πt πb es (evalStep k γ α lam tol A πt πb st.1 st.2 e.s e.a e.s1 e.r)

def controlRun (k : Kind) (γ α lam tol ε : Rat) (A : Nat) (πb : Nat → Nat → Rat) :
    List TEv → List Tr × QF → List Tr × QF
  | [], st => st
  | e :: es, st =>
    controlRun k γ α lam tol ε A πb es (controlStep k γ α lam tol ε A πb st.1 st.2 e.s e.a e.s1 e.r)

theorem TrOK_nil (tol : Rat) : TrOK tol [] := ⟨by intro t ht; cases ht, by simp⟩

theorem sarsalStep_ok (γ α lam tol : Rat) (hγ : 0 ≤ γ ∧ γ ≤ 1) (hl : 0 ≤ lam ∧ lam ≤ 1)
    (htol : tol ≤ 1) (tr : List Tr) (q : QF) (h : TrOK tol tr) (s a s1 a1 : Nat) (r : Rat) :
    TrOK tol (sarsalStep γ α lam tol tr q s a s1 a1 r).1 := by
  have hu := mul_unit hl.1 hl.2 hγ.1 hγ.2
  exact updateTraces_ok _ _ _ _ _ _ _ hu.1 hu.2 htol h

theorem evalStep_ok (k : Kind) (hk : k ≠ .is) (γ α lam tol : Rat) (A : Nat) (πt πb : Nat → Nat → Rat)
    (hγ : 0 ≤ γ ∧ γ ≤ 1) (hl : 0 ≤ lam ∧ lam ≤ 1) (htol : tol ≤ 1)
    (hπt : ∀ s a, 0 ≤ πt s a ∧ πt s a ≤ 1)
    (tr : List Tr) (q : QF) (h : TrOK tol tr) (s a s1 : Nat) (r : Rat) (hπb : 0 < πb s a) :
    TrOK tol (evalStep k γ α lam tol A πt πb tr q s a s1 r).1 := by
  have hc := cEval_unit k hk lam (πt s a) (πb s a) hl.1 hl.2 (hπt s a).1 (hπt s a).2 hπb
  have hu := mul_unit hγ.1 hγ.2 hc.1 hc.2
  exact updateTraces_ok _ _ _ _ _ _ _ hu.1 hu.2 htol h

theorem controlStep_ok (k : Kind) (hk : k ≠ .is) (γ α lam tol ε : Rat) (A : Nat) (πb : Nat → Nat → Rat)
    (hA : 0 < A) (hε : 0 ≤ ε ∧ ε ≤ 1)
    (hγ : 0 ≤ γ ∧ γ ≤ 1) (hl : 0 ≤ lam ∧ lam ≤ 1) (htol : tol ≤ 1)
    (tr : List Tr) (q : QF) (h : TrOK tol tr) (s a s1 : Nat) (r : Rat) (hπb : 0 < πb s a) :
    TrOK tol (controlStep k γ α lam tol ε A πb tr q s a s1 r).1 := by
  have hp := probGreedy_unit ε A a (argmaxA A (q s1)) hA hε.1 hε.2
  have hc := cEval_unit k hk lam _ (πb s a) hl.1 hl.2 hp.1 hp.2 hπb
  have hu := mul_unit hγ.1 hγ.2 hc.1 hc.2
  exact updateTraces_ok _ _ _ _ _ _ _ hu.1 hu.2 htol h

theorem sarsalRun_ok (γ α lam tol : Rat) (hγ : 0 ≤ γ ∧ γ ≤ 1) (hl : 0 ≤ lam ∧ lam ≤ 1)
    (htol : tol ≤ 1) : ∀ (evs : List TEv) (st : List Tr × QF), TrOK tol st.1 →
      TrOK tol (sarsalRun γ α lam tol evs st).1
  | [], _, h => h
  | e :: es, st, h =>
    sarsalRun_ok γ α lam tol hγ hl htol es _ (sarsalStep_ok γ α lam tol hγ hl htol st.1 st.2 h ..)

theorem evalRun_ok (k : Kind) (hk : k ≠ .is) (γ α lam tol : Rat) (A : Nat) (πt πb : Nat → Nat → Rat)
    (hγ : 0 ≤ γ ∧ γ ≤ 1) (hl : 0 ≤ lam ∧ lam ≤ 1) (htol : tol ≤ 1)
    (hπt : ∀ s a, 0 ≤ πt s a ∧ πt s a ≤ 1) :
    ∀ (evs : List TEv) (st : List Tr × QF), (∀ e ∈ evs, 0 < πb e.s e.a) → TrOK tol st.1 →
      TrOK tol (evalRun k γ α lam tol A πt πb evs st).1
  | [], _, _, h => h
  | e :: es, st, hπb, h =>
    evalRun_ok k hk γ α lam tol A πt πb hγ hl htol hπt es _
      (fun e' he' => hπb e' (List.mem_cons_of_mem _ he'))
      (evalStep_ok k hk γ α lam tol A πt πb hγ hl htol hπt st.1 st.2 h e.s e.a e.s1 e.r
        (hπb e (List.mem_cons_self ..)))

theorem controlRun_ok (k : Kind) (hk : k ≠ .is) (γ α lam tol ε : Rat) (A : Nat) (πb : Nat → Nat → Rat)
    (hA : 0 < A) (hε : 0 ≤ ε ∧ ε ≤ 1)
    (hγ : 0 ≤ γ ∧ γ ≤ 1) (hl : 0 ≤ lam ∧ lam ≤ 1) (htol : tol ≤ 1) :
    ∀ (evs : List TEv) (st : List Tr × QF), (∀ e ∈ evs, 0 < πb e.s e.a) → TrOK tol st.1 →
      TrOK tol (controlRun k γ α lam tol ε A πb evs st).1
  | [], _, _, h => h
  | e :: es, st, hπb, h =>
    controlRun_ok k hk γ α lam tol ε A πb hA hε hγ hl htol es _
      (fun e' he' => hπb e' (List.mem_cons_of_mem _ he'))
      (controlStep_ok k hk γ α lam tol ε A πb hA hε hγ hl htol st.1 st.2 h e.s e.a e.s1 e.r
        (hπb e (List.mem_cons_self ..)))

/-- (T4) SARSA(λ): along every history from cleared traces, all eligibilities stay in [tol,1]
    and no (s,a) is stored twice -/
theorem sarsal_traces_bounded (γ α lam tol : Rat) (hγ : 0 ≤ γ ∧ γ ≤ 1) (hl : 0 ≤ lam ∧ lam ≤ 1)
    (htol : tol ≤ 1) (evs : List TEv) (q0 : QF) :
    TrOK tol (sarsalRun γ α lam tol evs ([], q0)).1 :=
  sarsalRun_ok γ α lam tol hγ hl htol evs _ (TrOK_nil tol)

/-- (T4) off-policy evaluation with QL / Retrace / TreeBackup trace discounts -/
theorem eval_traces_bounded (k : Kind) (hk : k ≠ .is) (γ α lam tol : Rat) (A : Nat)
    (πt πb : Nat → Nat → Rat)
    (hγ : 0 ≤ γ ∧ γ ≤ 1) (hl : 0 ≤ lam ∧ lam ≤ 1) (htol : tol ≤ 1)
    (hπt : ∀ s a, 0 ≤ πt s a ∧ πt s a ≤ 1)
    (evs : List TEv) (hπb : ∀ e ∈ evs, 0 < πb e.s e.a) (q0 : QF) :
    TrOK tol (evalRun k γ α lam tol A πt πb evs ([], q0)).1 :=
  evalRun_ok k hk γ α lam tol A πt πb hγ hl htol hπt evs _ hπb (TrOK_nil tol)

/-- (T4) off-policy control with QL / Retrace / TreeBackup trace discounts -/
theorem control_traces_bounded (k : Kind) (hk : k ≠ .is) (γ α lam tol ε : Rat) (A : Nat)
    (πb : Nat → Nat → Rat) (hA : 0 < A) (hε : 0 ≤ ε ∧ ε ≤ 1)
    (hγ : 0 ≤ γ ∧ γ ≤ 1) (hl : 0 ≤ lam ∧ lam ≤ 1) (htol : tol ≤ 1)
    (evs : List TEv) (hπb : ∀ e ∈ evs, 0 < πb e.s e.a) (q0 : QF) :
    TrOK tol (controlRun k γ α lam tol ε A πb evs ([], q0)).1 :=
  controlRun_ok k hk γ α lam tol ε A πb hA hε hγ hl htol evs _ hπb (TrOK_nil tol)

/-! ## (T5) λ = 0 is the one-step (expected) backup, from every state with distinct stored keys -/

theorem cEval_lam0 (k : Kind) (hk : k ≠ .is) (pt pb : Rat) : cEval k 0 pt pb = 0 := by
  cases k with
  | ql => rfl
  | retrace => simp [cEval]
  | tb => simp [cEval]
  | is => exact absurd rfl hk

theorem sarsal_lambda0 (γ α tol : Rat) (tr : List Tr) (q : QF) (hnd : (tr.map key).Nodup)
    (s a s1 a1 : Nat) (r : Rat) :
    (sarsalStep γ α 0 tol tr q s a s1 a1 r).2
      = upd q s a (q s a + α * (r + γ * q s1 a1 - q s a)) := by
  unfold sarsalStep
  rw [zero_mul]
  exact updateTraces_td0 _ _ _ _ _ _ hnd

theorem eval_lambda0 (k : Kind) (hk : k ≠ .is) (γ α tol : Rat) (A : Nat) (πt πb : Nat → Nat → Rat)
    (tr : List Tr) (q : QF) (hnd : (tr.map key).Nodup) (s a s1 : Nat) (r : Rat) :
    (evalStep k γ α 0 tol A πt πb tr q s a s1 r).2
      = upd q s a (q s a + α * (r + γ * sumTo A (fun x => q s1 x * πt s1 x) - q s a)) := by
  unfold evalStep
  simp only [cEval_lam0 k hk, mul_zero]
  exact updateTraces_td0 _ _ _ _ _ _ hnd

theorem control_lambda0 (k : Kind) (hk : k ≠ .is) (γ α tol ε : Rat) (A : Nat) (πb : Nat → Nat → Rat)
    (tr : List Tr) (q : QF) (hnd : (tr.map key).Nodup) (s a s1 : Nat) (r : Rat) :
    (controlStep k γ α 0 tol ε A πb tr q s a s1 r).2
      = upd q s a (q s a + α * (r + γ * expectedEps ε A q s1 - q s a)) := by
  unfold controlStep
  simp only [cEval_lam0 k hk, mul_zero]
  exact updateTraces_td0 _ _ _ _ _ _ hnd

end AITB.Learn
