/-
  AITB.Props.C11Setters3 — the λ-INDEPENDENT trace clause for every trace learner, ImportanceSampling included (round 3).

  "ImportanceSampling only for lambda-independent clauses": its eligibilities may exceed one (`is_trace_above_one`), but the
  list never stores a pair twice.  Proved for the whole public interface (`TLOp`: steps, clear / keep / setTraces, all five setters),
  for ALL arguments, all policies (even behaviour probability 0: a division by zero in ℚ is 0), all cut-offs (also > 1), with NO
  hypothesis on the client: `tl_nodup`, instances `control_client_nodup`, `eval_client_nodup` for every `Kind`.
-/
import AITB.Props.C11Setters2

namespace AITB.Learn

/-- generic: if a step keeps "no pair twice", so does every history of public calls — for the learner's list and the kept one -/
theorem tl_nodup (G : TGuards) (stepF : TL → TEv → List Tr × QF)
    (hstep : ∀ c e, (c.tr.map key).Nodup → ((stepF c e).1.map key).Nodup) :
    ∀ (ops : List TLOp) (c : TL), (c.tr.map key).Nodup ∧ (c.kept.map key).Nodup →
      ((tlRun G stepF ops c).tr.map key).Nodup ∧ ((tlRun G stepF ops c).kept.map key).Nodup
  | [], _, h => h
  | op :: ops, c, h => by
    show ((tlRun G stepF ops (tlApply G stepF c op)).tr.map key).Nodup ∧ ((tlRun G stepF ops (tlApply G stepF c op)).kept.map key).Nodup
    apply tl_nodup G stepF hstep ops
    cases op with
    | step e => exact ⟨hstep c e h.1, h.2⟩
    | clear => exact ⟨by simp [tlApply], h.2⟩
    | keep => exact ⟨h.1, h.1⟩
    | restore => exact ⟨h.2, h.2⟩
    | setDiscount x =>
      have hh : (tlApply G stepF c (.setDiscount x)).tr = c.tr ∧ (tlApply G stepF c (.setDiscount x)).kept = c.kept := by
        show (if G.rejD x then c else { c with γ := x }).tr = c.tr ∧ (if G.rejD x then c else { c with γ := x }).kept = c.kept
        split <;> exact ⟨rfl, rfl⟩
      rw [hh.1, hh.2]; exact h
    | setLambda x =>
      have hh : (tlApply G stepF c (.setLambda x)).tr = c.tr ∧ (tlApply G stepF c (.setLambda x)).kept = c.kept := by
        show (if G.rejL x then c else { c with lam := x }).tr = c.tr ∧ (if G.rejL x then c else { c with lam := x }).kept = c.kept
        split <;> exact ⟨rfl, rfl⟩
      rw [hh.1, hh.2]; exact h
    | setLearningRate x =>
      have hh : (tlApply G stepF c (.setLearningRate x)).tr = c.tr ∧ (tlApply G stepF c (.setLearningRate x)).kept = c.kept := by
        show (if G.rejA x then c else { c with α := x }).tr = c.tr ∧ (if G.rejA x then c else { c with α := x }).kept = c.kept
        split <;> exact ⟨rfl, rfl⟩
      rw [hh.1, hh.2]; exact h
    | setTolerance x =>
      have hh : (tlApply G stepF c (.setTolerance x)).tr = c.tr ∧ (tlApply G stepF c (.setTolerance x)).kept = c.kept := by
        show (if G.rejT x then c else { c with tol := x }).tr = c.tr ∧ (if G.rejT x then c else { c with tol := x }).kept = c.kept
        split <;> exact ⟨rfl, rfl⟩
      rw [hh.1, hh.2]; exact h
    | setEpsilon x =>
      have hh : (tlApply G stepF c (.setEpsilon x)).tr = c.tr ∧ (tlApply G stepF c (.setEpsilon x)).kept = c.kept := by
        show (if G.rejE x then c else { c with ε := x }).tr = c.tr ∧ (if G.rejE x then c else { c with ε := x }).kept = c.kept
        split <;> exact ⟨rfl, rfl⟩
      rw [hh.1, hh.2]; exact h

/-- **no pair is ever stored twice — off-policy CONTROL, every kind (QL, RetraceL, TreeBackupL, ImportanceSampling)**,
    every history of public calls, any arguments, any behaviour policy, any cut-off -/
theorem control_client_nodup (G : TGuards) (k : Kind) (A : Nat) (πb : Nat → Nat → Rat)
    (γ α lam tol ε : Rat) (q0 : QF) (ops : List TLOp) :
    ((tlRun G (controlStepTL k A πb) ops (TL.init γ α lam tol ε q0)).tr.map key).Nodup :=
  (tl_nodup G _ (fun c e h => by unfold controlStepTL controlStep; exact updateTraces_nodup _ _ _ _ _ _ _ h) ops _
    ⟨by simp [TL.init], by simp [TL.init]⟩).1

/-- **… off-policy EVALUATION, every kind** -/
theorem eval_client_nodup (G : TGuards) (k : Kind) (A : Nat) (πt πb : Nat → Nat → Rat)
    (γ α lam tol : Rat) (q0 : QF) (ops : List TLOp) :
    ((tlRun G (evalStepTL k A πt πb) ops (TL.init γ α lam tol 0 q0)).tr.map key).Nodup :=
  (tl_nodup G _ (fun c e h => by unfold evalStepTL evalStep; exact updateTraces_nodup _ _ _ _ _ _ _ h) ops _
    ⟨by simp [TL.init], by simp [TL.init]⟩).1

/-- not vacuous: ImportanceSampling with a cut-off of 5 and a behaviour probability of 1/4 — eligibilities 4 and 1, each pair once
    (test by evaluation) -/
example : ((tlRun guardsQL (evalStepTL .is 1 (fun _ _ => 1) (fun _ _ => 1/4))
      [.step ⟨0, 0, 1, 0, 1⟩, .step ⟨1, 0, 0, 0, 1⟩, .step ⟨0, 0, 1, 0, 1⟩, .step ⟨1, 0, 0, 0, 1⟩]
      (TL.init 1 1 1 0 0 (fun _ _ => 0))).tr.map (fun t => (t.s, t.a, t.el))) = [(0, 0, 4), (1, 0, 1)] := by
  decide +kernel

end AITB.Learn
