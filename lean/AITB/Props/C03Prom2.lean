/-
  AITB.Props.C03Prom2 — `SARSOP::updateNode` / the recomputations of `backupNode` as events: every per-action value the modelled
  `bestPromisingAction<false>` computes (`promisingActSaw`) is the value `promisingVal` of an instance of the event `poolAdd` — its successor
  values are interpolated values (`IsInterp`) of the surface the state carries.  Together with `backupNode_pool_reach` /
  `backupNode_write_reach` this places the whole upper-bound part of SARSOP's node update inside the event system, computed by model code.
-/
import AITB.Props.C03Prom
import AITB.Props.C03Sarsop

namespace AITB.POMDP3
open AITB.MDP AITB.Prune AITB.Interp AITB.C12Check

/-- a value the modelled sawtooth returns is an interpolated value of the surface in the sense of `IsInterp` -/
theorem sawVal_isInterp (m : POMDP) (hv : Valid m) (st : AState) (Q : Mat) (pts : Array (MDP.Vec × Rat)) (hwf : SurfWF m Q pts)
    (hm : SurfMatches m st Q pts) (x : MDP.Vec) (hx : x.size = m.S) (hnn : NN x.get) (v : Rat) (h : sawVal m Q pts x = some v) :
    IsInterp m st x.get v := by
  unfold sawVal at h
  rw [src_saw_is_repaired] at h
  have hpt : ∀ y ∈ x.toList, 0 ≤ y := by
    intro y hy
    obtain ⟨i, hi, he⟩ := List.getElem_of_mem hy
    have : y = x.get i := by
      rw [← toList_getD x i, List.getD_eq_getElem?_getD, List.getElem?_eq_getElem hi, he]; rfl
    rw [this]; exact hnn i
  have hrows : (Q.toList.map (·.toList)).length = x.toList.length ∧ ∀ row ∈ Q.toList.map (·.toList), row.length = m.A := by
    refine ⟨by simp [hwf.qsize, hx], ?_⟩
    intro row hrow
    obtain ⟨r, hr, rfl⟩ := List.mem_map.mp hrow
    simpa using hwf.qrows r hr
  have hlen : (pts.toList.map (·.2)).length = (pts.toList.map (·.1.toList)).length := by simp
  have hpts : ∀ p ∈ pts.toList.map (·.1.toList), ∀ y ∈ p, 0 ≤ y := by
    intro p hp
    obtain ⟨q, hq, rfl⟩ := List.mem_map.mp hp
    exact hwf.pnn q hq
  have hz : ∀ p ∈ pts.toList.map (·.1.toList), ∀ s, isZeroS (p.getD s 0) = true → p.getD s 0 = 0 := by
    intro p hp
    obtain ⟨q, hq, rfl⟩ := List.mem_map.mp hp
    exact hwf.pz q hq
  have hptlen : ∀ p ∈ pts.toList.map (·.1.toList), p.length = x.toList.length := by
    intro p hp
    obtain ⟨q, hq, rfl⟩ := List.mem_map.mp hp
    simp [hwf.psize q hq, hx]
  obtain ⟨v', w, htot⟩ := sawtooth_repaired_total (point := x.toList) (ubQ := Q.toList.map (·.toList)) (A := m.A)
    (pts := pts.toList.map (·.1.toList)) (vals := pts.toList.map (·.2)) hpt hrows hv.A0 hlen hpts
  rw [htot] at h
  simp only [Option.map_some, Option.some.injEq] at h
  subst h
  have hQ : ∀ s, s < m.S → ∀ a, a < m.A → st.Q s a = ((Q.toList.map (·.toList)).getD s []).getD a 0 := by
    intro s hs' a ha
    rw [hm.q s hs' a ha]
    unfold MDP.Mat.get
    have hs'' : s < Q.size := by rw [hwf.qsize]; exact hs'
    simp [Array.getD, List.getD_eq_getElem?_getD, hs'']
    by_cases h2 : a < (Q[s]).size <;> simp [h2]
  have hP : ∀ i, i < (pts.toList.map (·.1.toList)).length →
      st.P (fnOf ((pts.toList.map (·.1.toList)).getD i [])) ((pts.toList.map (·.2)).getD i 0) := by
    intro i hi
    have hi' : i < pts.toList.length := by simpa using hi
    have e1 : (pts.toList.map (·.1.toList)).getD i [] = (pts.toList[i]).1.toList := by
      rw [List.getD_eq_getElem?_getD, List.getElem?_map, List.getElem?_eq_getElem hi']; rfl
    have e2 : (pts.toList.map (·.2)).getD i 0 = (pts.toList[i]).2 := by
      rw [List.getD_eq_getElem?_getD, List.getElem?_map, List.getElem?_eq_getElem hi']; rfl
    rw [e1, e2, fnOf_toList]
    exact hm.p _ (List.getElem_mem _)
  have h5 : x.toList.length = m.S := by rw [Array.length_toList]; exact hx
  have h6 : IsInterp m st (fnOf x.toList) v' := by
    rcases sawtooth_repaired_value hpt hrows hv.A0 hlen hpts hz hptlen htot with hval | ⟨wc, wp, hp, hval⟩
    · -- plane value: all weight on the corners reconstructs the query
      have hp0 : primalOK x.toList x.toList (zerosN (pts.toList.map (·.1.toList)).length) (pts.toList.map (·.1.toList)) = true := by
        refine (primalOK_iff _ _ _ _).mpr ⟨hpt, ?_, rfl, by simp [zerosN], fun s _ => ?_⟩
        · intro y hy; simp [zerosN] at hy; rw [hy.2]
        · simp only [reconAt, Interp.mixAt_zeros]; ring
      exact weighted_form_isInterp m st x.toList _ _ _ _ _ v' h5 hv.A0 hrows hQ hP hp0 (Or.inr hval)
    · exact weighted_form_isInterp m st x.toList _ _ _ wc wp v' h5 hv.A0 hrows hQ hP hp (Or.inl hval.symm)
  rw [fnOf_toList] at h6
  exact h6

/-- what the observation loop has accumulated: interpolated values of the non-skipped successors -/
theorem sumSaw_spec (m : POMDP) (Q : Mat) (pts : Array (MDP.Vec × Rat)) (b : MDP.Vec) (a : Nat) :
    ∀ n t, sumSaw m Q pts b a n = some t → ∃ iv : Nat → Rat,
      (∀ o, o < n → checkEqualSmall (mass m.S (bstepV m b a o).get) 0 = false → sawVal m Q pts (bstepV m b a o) = some (iv o)) ∧
      t = sumTo n (fun o => if checkEqualSmall (mass m.S (bstepV m b a o).get) 0 then 0 else iv o) := by
  intro n
  induction n with
  | zero => intro t h; simp only [sumSaw, Option.some.injEq] at h; exact ⟨fun _ => 0, fun o ho => by omega, by simp [sumTo, ← h]⟩
  | succ n ih =>
    intro t h
    simp only [sumSaw] at h
    cases hprev : sumSaw m Q pts b a n with
    | none => rw [hprev] at h; cases h
    | some s0 =>
      rw [hprev] at h
      simp only at h
      obtain ⟨iv, hiv, hs0⟩ := ih s0 hprev
      by_cases hc : checkEqualSmall (mass m.S (bstepV m b a n).get) 0 = true
      · rw [if_pos hc] at h
        simp only [Option.some.injEq] at h
        refine ⟨iv, fun o ho hsk => ?_, ?_⟩
        · rcases Nat.lt_or_ge o n with h1 | h1
          · exact hiv o h1 hsk
          · have : o = n := by omega
            subst this; rw [hc] at hsk; cases hsk
        · simp only [sumTo, hc, if_true]; rw [← h, hs0]; ring
      · rw [if_neg hc] at h
        obtain ⟨tv, htv, rfl⟩ := Option.map_eq_some_iff.mp h
        refine ⟨fun o => if o = n then tv else iv o, fun o ho hsk => ?_, ?_⟩
        · rcases Nat.lt_or_ge o n with h1 | h1
          · have hne : o ≠ n := by omega
            simp only [hne, if_false]; exact hiv o h1 hsk
          · have : o = n := by omega
            subst this; simp only [if_true]; exact htv
        · simp only [sumTo, hc, if_true]
          have : sumTo n (fun o => if checkEqualSmall (mass m.S (bstepV m b a o).get) 0 then 0 else (if o = n then tv else iv o))
              = sumTo n (fun o => if checkEqualSmall (mass m.S (bstepV m b a o).get) 0 then 0 else iv o) :=
            sumTo_congr (fun o ho => by
              have hne : o ≠ n := by omega
              simp only [hne, if_false])
          rw [this, ← hs0]; simp

/-- **`updateNode` / a recomputation in `backupNode` is an instance of `poolAdd`**: the per-action value the model computes equals
    `promisingVal` for skip flags and successor values that satisfy the side conditions of the event -/
theorem promisingActSaw_is_poolAdd (m : POMDP) (hv : Valid m) (st : AState) (Q : Mat) (pts : Array (MDP.Vec × Rat)) (hwf : SurfWF m Q pts)
    (hm : SurfMatches m st Q pts) (b : MDP.Vec) (hb : NN b.get) (a : Nat)
    (hskip : ∀ o, o < m.O → checkEqualSmall (mass m.S (bstepV m b a o).get) 0 = true → ∀ s, s < m.S → bstep m b.get a o s = 0)
    (u : Rat) (h : promisingActSaw m Q pts b a = some u) :
    ∃ (skip : Nat → Bool) (iv : Nat → Rat),
      (∀ o, o < m.O → if skip o then (∀ s, s < m.S → bstep m b.get a o s = 0) else IsInterp m st (bstep m b.get a o) (iv o)) ∧
      u = promisingVal m b.get a skip iv := by
  unfold promisingActSaw at h
  obtain ⟨t, ht, rfl⟩ := Option.map_eq_some_iff.mp h
  obtain ⟨iv, hiv, hsum⟩ := sumSaw_spec m Q pts b a m.O t ht
  refine ⟨fun o => checkEqualSmall (mass m.S (bstepV m b a o).get) 0, iv, fun o ho => ?_, ?_⟩
  · by_cases hc : checkEqualSmall (mass m.S (bstepV m b a o).get) 0 = true
    · simp only [hc, if_true]; exact hskip o ho hc
    · simp only [hc]
      have hcf : checkEqualSmall (mass m.S (bstepV m b a o).get) 0 = false := by simpa using hc
      have hI := sawVal_isInterp m hv st Q pts hwf hm (bstepV m b a o) (bstepV_size m b a o) (bstepV_NN m hv b hb a o) (iv o) (hiv o ho hcf)
      -- the interpolated point is the successor on the first S coordinates
      rcases hI with hI | ⟨N, p, vals, wc, wp, hP, hwc, hwp, hrec, hval⟩
      · left
        rw [hI]
        unfold basicVal
        exact maxTo_congr (fun a' _ => sumTo_congr (fun s hs => by rw [bstepV_get m b a o s hs]))
      · right
        exact ⟨N, p, vals, wc, wp, hP, hwc, hwp, fun s hs => by rw [← bstepV_get m b a o s hs]; exact hrec s hs, hval⟩
  · unfold promisingVal
    rw [hsum]

end AITB.POMDP3
