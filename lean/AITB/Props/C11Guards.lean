/-
  AITB.Props.C11Guards — the hypotheses of the C11 theorems on step sizes, discounts, lambdas and epsilons are
  exactly what the library's setters let through.  The guard conditions are re-extracted from the source on every
  run (tools/extract_c11.py -> AITB.Gen.C11Guards); a relaxed or removed guard breaks the matching theorem here.
  (The trace cut-off `setTolerance` has NO guard in either class — see `cutoff_above_one_counterexample` and the
  known finding C11-trace-cutoff-above-one; its generated `_rejects` definition is informational.)
-/
import AITB.Gen.C11Guards
import AITB.Gen.C11Sites
import Mathlib.Algebra.Order.Field.Rat
import Mathlib.Tactic.Linarith
set_option linter.unusedSimpArgs false

namespace AITB.Learn.Guards
open AITB.Gen.C11

/-- a value accepted by `QLearning::setLearningRate` lies in (0,1] -/
theorem QLearning_setLearningRate_accepts (x : Rat) (h : QLearning_setLearningRate_rejects x = false) : 0 < x ∧ x ≤ 1 := by
  simp only [QLearning_setLearningRate_rejects, Bool.or_eq_false_iff, Bool.not_eq_false', Bool.and_eq_true, decide_eq_true_eq, decide_eq_false_iff_not, not_le, not_lt, gt_iff_lt] at h
  exact h

/-- a value accepted by `QLearning::setDiscount` lies in (0,1] -/
theorem QLearning_setDiscount_accepts (x : Rat) (h : QLearning_setDiscount_rejects x = false) : 0 < x ∧ x ≤ 1 := by
  simp only [QLearning_setDiscount_rejects, Bool.or_eq_false_iff, Bool.not_eq_false', Bool.and_eq_true, decide_eq_true_eq, decide_eq_false_iff_not, not_le, not_lt, gt_iff_lt] at h
  exact h

/-- a value accepted by `DoubleQLearning::setLearningRate` lies in (0,1] -/
theorem DoubleQLearning_setLearningRate_accepts (x : Rat) (h : DoubleQLearning_setLearningRate_rejects x = false) : 0 < x ∧ x ≤ 1 := by
  simp only [DoubleQLearning_setLearningRate_rejects, Bool.or_eq_false_iff, Bool.not_eq_false', Bool.and_eq_true, decide_eq_true_eq, decide_eq_false_iff_not, not_le, not_lt, gt_iff_lt] at h
  exact h

/-- a value accepted by `DoubleQLearning::setDiscount` lies in (0,1] -/
theorem DoubleQLearning_setDiscount_accepts (x : Rat) (h : DoubleQLearning_setDiscount_rejects x = false) : 0 < x ∧ x ≤ 1 := by
  simp only [DoubleQLearning_setDiscount_rejects, Bool.or_eq_false_iff, Bool.not_eq_false', Bool.and_eq_true, decide_eq_true_eq, decide_eq_false_iff_not, not_le, not_lt, gt_iff_lt] at h
  exact h

/-- a value accepted by `HystereticQLearning::setPositiveLearningRate` lies in (0,1] -/
theorem HystereticQLearning_setPositiveLearningRate_accepts (x : Rat) (h : HystereticQLearning_setPositiveLearningRate_rejects x = false) : 0 < x ∧ x ≤ 1 := by
  simp only [HystereticQLearning_setPositiveLearningRate_rejects, Bool.or_eq_false_iff, Bool.not_eq_false', Bool.and_eq_true, decide_eq_true_eq, decide_eq_false_iff_not, not_le, not_lt, gt_iff_lt] at h
  exact h

/-- a value accepted by `HystereticQLearning::setDiscount` lies in (0,1] -/
theorem HystereticQLearning_setDiscount_accepts (x : Rat) (h : HystereticQLearning_setDiscount_rejects x = false) : 0 < x ∧ x ≤ 1 := by
  simp only [HystereticQLearning_setDiscount_rejects, Bool.or_eq_false_iff, Bool.not_eq_false', Bool.and_eq_true, decide_eq_true_eq, decide_eq_false_iff_not, not_le, not_lt, gt_iff_lt] at h
  exact h

/-- a value accepted by `SARSA::setLearningRate` lies in (0,1] -/
theorem SARSA_setLearningRate_accepts (x : Rat) (h : SARSA_setLearningRate_rejects x = false) : 0 < x ∧ x ≤ 1 := by
  simp only [SARSA_setLearningRate_rejects, Bool.or_eq_false_iff, Bool.not_eq_false', Bool.and_eq_true, decide_eq_true_eq, decide_eq_false_iff_not, not_le, not_lt, gt_iff_lt] at h
  exact h

/-- a value accepted by `SARSA::setDiscount` lies in (0,1] -/
theorem SARSA_setDiscount_accepts (x : Rat) (h : SARSA_setDiscount_rejects x = false) : 0 < x ∧ x ≤ 1 := by
  simp only [SARSA_setDiscount_rejects, Bool.or_eq_false_iff, Bool.not_eq_false', Bool.and_eq_true, decide_eq_true_eq, decide_eq_false_iff_not, not_le, not_lt, gt_iff_lt] at h
  exact h

/-- a value accepted by `ExpectedSARSA::setLearningRate` lies in (0,1] -/
theorem ExpectedSARSA_setLearningRate_accepts (x : Rat) (h : ExpectedSARSA_setLearningRate_rejects x = false) : 0 < x ∧ x ≤ 1 := by
  simp only [ExpectedSARSA_setLearningRate_rejects, Bool.or_eq_false_iff, Bool.not_eq_false', Bool.and_eq_true, decide_eq_true_eq, decide_eq_false_iff_not, not_le, not_lt, gt_iff_lt] at h
  exact h

/-- a value accepted by `ExpectedSARSA::setDiscount` lies in (0,1] -/
theorem ExpectedSARSA_setDiscount_accepts (x : Rat) (h : ExpectedSARSA_setDiscount_rejects x = false) : 0 < x ∧ x ≤ 1 := by
  simp only [ExpectedSARSA_setDiscount_rejects, Bool.or_eq_false_iff, Bool.not_eq_false', Bool.and_eq_true, decide_eq_true_eq, decide_eq_false_iff_not, not_le, not_lt, gt_iff_lt] at h
  exact h

/-- a value accepted by `SARSAL::setLearningRate` lies in (0,1] -/
theorem SARSAL_setLearningRate_accepts (x : Rat) (h : SARSAL_setLearningRate_rejects x = false) : 0 < x ∧ x ≤ 1 := by
  simp only [SARSAL_setLearningRate_rejects, Bool.or_eq_false_iff, Bool.not_eq_false', Bool.and_eq_true, decide_eq_true_eq, decide_eq_false_iff_not, not_le, not_lt, gt_iff_lt] at h
  exact h

/-- a value accepted by `SARSAL::setDiscount` lies in (0,1] -/
theorem SARSAL_setDiscount_accepts (x : Rat) (h : SARSAL_setDiscount_rejects x = false) : 0 < x ∧ x ≤ 1 := by
  simp only [SARSAL_setDiscount_rejects, Bool.or_eq_false_iff, Bool.not_eq_false', Bool.and_eq_true, decide_eq_true_eq, decide_eq_false_iff_not, not_le, not_lt, gt_iff_lt] at h
  exact h

/-- a value accepted by `OffPolicyBase::setLearningRate` lies in (0,1] -/
theorem OffPolicyBase_setLearningRate_accepts (x : Rat) (h : OffPolicyBase_setLearningRate_rejects x = false) : 0 < x ∧ x ≤ 1 := by
  simp only [OffPolicyBase_setLearningRate_rejects, Bool.or_eq_false_iff, Bool.not_eq_false', Bool.and_eq_true, decide_eq_true_eq, decide_eq_false_iff_not, not_le, not_lt, gt_iff_lt] at h
  exact h

/-- a value accepted by `OffPolicyBase::setDiscount` lies in (0,1] -/
theorem OffPolicyBase_setDiscount_accepts (x : Rat) (h : OffPolicyBase_setDiscount_rejects x = false) : 0 < x ∧ x ≤ 1 := by
  simp only [OffPolicyBase_setDiscount_rejects, Bool.or_eq_false_iff, Bool.not_eq_false', Bool.and_eq_true, decide_eq_true_eq, decide_eq_false_iff_not, not_le, not_lt, gt_iff_lt] at h
  exact h

/-- a value accepted by `HystereticQLearning::setNegativeLearningRate` lies in [0,1] -/
theorem HystereticQLearning_setNegativeLearningRate_accepts (x : Rat) (h : HystereticQLearning_setNegativeLearningRate_rejects x = false) : 0 ≤ x ∧ x ≤ 1 := by
  simp only [HystereticQLearning_setNegativeLearningRate_rejects, Bool.or_eq_false_iff, Bool.not_eq_false', Bool.and_eq_true, decide_eq_true_eq, decide_eq_false_iff_not, not_le, not_lt, gt_iff_lt] at h
  exact h

/-- a value accepted by `SARSAL::setLambda` lies in [0,1] -/
theorem SARSAL_setLambda_accepts (x : Rat) (h : SARSAL_setLambda_rejects x = false) : 0 ≤ x ∧ x ≤ 1 := by
  simp only [SARSAL_setLambda_rejects, Bool.or_eq_false_iff, Bool.not_eq_false', Bool.and_eq_true, decide_eq_true_eq, decide_eq_false_iff_not, not_le, not_lt, gt_iff_lt] at h
  exact h

/-- a value accepted by `OffPolicyControl::setEpsilon` lies in [0,1] -/
theorem OffPolicyControl_setEpsilon_accepts (x : Rat) (h : OffPolicyControl_setEpsilon_rejects x = false) : 0 ≤ x ∧ x ≤ 1 := by
  simp only [OffPolicyControl_setEpsilon_rejects, Bool.or_eq_false_iff, Bool.not_eq_false', Bool.and_eq_true, decide_eq_true_eq, decide_eq_false_iff_not, not_le, not_lt, gt_iff_lt] at h
  exact h

/-- a value accepted by `QL::setLambda` lies in [0,1] -/
theorem QL_setLambda_accepts (x : Rat) (h : QL_setLambda_rejects x = false) : 0 ≤ x ∧ x ≤ 1 := by
  simp only [QL_setLambda_rejects, Bool.or_eq_false_iff, Bool.not_eq_false', Bool.and_eq_true, decide_eq_true_eq, decide_eq_false_iff_not, not_le, not_lt, gt_iff_lt] at h
  exact h

/-- a value accepted by `QLEvaluation::setLambda` lies in [0,1] -/
theorem QLEvaluation_setLambda_accepts (x : Rat) (h : QLEvaluation_setLambda_rejects x = false) : 0 ≤ x ∧ x ≤ 1 := by
  simp only [QLEvaluation_setLambda_rejects, Bool.or_eq_false_iff, Bool.not_eq_false', Bool.and_eq_true, decide_eq_true_eq, decide_eq_false_iff_not, not_le, not_lt, gt_iff_lt] at h
  exact h

/-- a value accepted by `RetraceL::setLambda` lies in [0,1] -/
theorem RetraceL_setLambda_accepts (x : Rat) (h : RetraceL_setLambda_rejects x = false) : 0 ≤ x ∧ x ≤ 1 := by
  simp only [RetraceL_setLambda_rejects, Bool.or_eq_false_iff, Bool.not_eq_false', Bool.and_eq_true, decide_eq_true_eq, decide_eq_false_iff_not, not_le, not_lt, gt_iff_lt] at h
  exact h

/-- a value accepted by `RetraceLEvaluation::setLambda` lies in [0,1] -/
theorem RetraceLEvaluation_setLambda_accepts (x : Rat) (h : RetraceLEvaluation_setLambda_rejects x = false) : 0 ≤ x ∧ x ≤ 1 := by
  simp only [RetraceLEvaluation_setLambda_rejects, Bool.or_eq_false_iff, Bool.not_eq_false', Bool.and_eq_true, decide_eq_true_eq, decide_eq_false_iff_not, not_le, not_lt, gt_iff_lt] at h
  exact h

/-- a value accepted by `TreeBackupL::setLambda` lies in [0,1] -/
theorem TreeBackupL_setLambda_accepts (x : Rat) (h : TreeBackupL_setLambda_rejects x = false) : 0 ≤ x ∧ x ≤ 1 := by
  simp only [TreeBackupL_setLambda_rejects, Bool.or_eq_false_iff, Bool.not_eq_false', Bool.and_eq_true, decide_eq_true_eq, decide_eq_false_iff_not, not_le, not_lt, gt_iff_lt] at h
  exact h

/-- a value accepted by `TreeBackupLEvaluation::setLambda` lies in [0,1] -/
theorem TreeBackupLEvaluation_setLambda_accepts (x : Rat) (h : TreeBackupLEvaluation_setLambda_rejects x = false) : 0 ≤ x ∧ x ≤ 1 := by
  simp only [TreeBackupLEvaluation_setLambda_rejects, Bool.or_eq_false_iff, Bool.not_eq_false', Bool.and_eq_true, decide_eq_true_eq, decide_eq_false_iff_not, not_le, not_lt, gt_iff_lt] at h
  exact h

/-- a threshold accepted by `PrioritizedSweeping::setQueueThreshold` is non-negative (θ = 0, the value of
    `ps_fixed_point`, is accepted) -/
theorem PrioritizedSweeping_setQueueThreshold_accepts (x : Rat) (h : PrioritizedSweeping_setQueueThreshold_rejects x = false) : 0 ≤ x := by
  simp only [PrioritizedSweeping_setQueueThreshold_rejects, decide_eq_false_iff_not, not_lt] at h
  exact h

theorem PrioritizedSweeping_accepts_zero : PrioritizedSweeping_setQueueThreshold_rejects 0 = false := by
  simp [PrioritizedSweeping_setQueueThreshold_rejects]

/-! ### round 3: the other syntactic facts (tools/extract_c11.py `gen_c11_sites` → AITB.Gen.C11Sites) -/

/-- every public constructor of the learners passes its arguments through the guarded setters (directly, through its base
    class, or by delegating to a constructor that does): the guard obligations above therefore cover constructor arguments.
    (PrioritizedSweeping's constructor initialises `theta_` directly — `PrioritizedSweeping_ctor_guards_threshold` records what
    was found; a negative or NaN threshold passed there never lets the queue drain / never fills it, so the PS clause is vacuous.) -/
theorem ctors_route_through_setters : allCtorsRoute = true := by decide

/-- after its guard every setter stores the accepted value and nothing else; SARSAL refreshes `gammaL_ = lambda_ * discount_`
    in BOTH `setDiscount` and `setLambda` (the model decays by λ·γ of the CURRENT parameters) -/
theorem setters_store_accepted_value : allSettersStore = true := by decide

/-- the update statements, the swap-and-pop loop, the trace-discount expressions, the PrioritizedSweeping backup / priority /
    parent-loop / pop statements and the DynaQ / Dyna2 batch bodies have the form the model was written from -/
theorem statements_as_modelled : allStatementsAsModelled = true := by decide

end AITB.Learn.Guards
