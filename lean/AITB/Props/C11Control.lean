/-
  AITB.Props.C11Control — does the `maxA` discrepancy in OffPolicyControl::stepUpdateQ touch any clause of C11?

  The code computes `maxA` as the greedy action of the NEXT state `s1` (it needs the max there for the expected
  backup) and hands the same index to `getTraceDiscount`, which compares it with the action `a` taken in `s`; the
  header documents that argument as "the already computed best greedy action for state s".
  Here the control step is re-stated with the index as a free parameter (`controlStepAt mA`): the code as written is
  `mA := argmaxA A (q s1)` (`controlStep_eq_at`, by `rfl`), the documented behaviour is `mA := argmaxA A (q s)`
  (`controlStepDoc`).  Every C11 clause that concerns these learners is proved FOR EVERY `mA`:
    clause 2 (Q* fixed point, ε = 0)            `controlStepAt_qstar_fixed`
    clause 3 (λ = 0 is the one-step backup)     `controlStepAt_lambda0`, and the whole step (traces AND table) does not
                                                 depend on `mA` at λ = 0: `controlStepAt_lambda0_indep`
    clause 4 (traces in [cut-off, 1], no dups)  `controlStepAt_ok`
  (clauses 1 and 5 are about other classes).  Hence NO clause of the property is affected; what is affected is the
  trace discount for λ > 0 (and for ImportanceSampling, which has no λ), i.e. how far an error is propagated back —
  `control_written_vs_documented_differ` is a witness where the two readings produce different TABLES after one step.
  This is a documentation/implementation mismatch outside the five clauses (the title's "documented backup").
-/
import AITB.Props.C11Check

namespace AITB.Learn

/-- OffPolicyControl::stepUpdateQ with the index handed to `getTraceDiscount` as a parameter -/
def controlStepAt (mA : Nat) (k : Kind) (γ α lam tol ε : Rat) (A : Nat) (πb : Nat → Nat → Rat)
    (tr : List Tr) (q : QF) (s a s1 : Nat) (r : Rat) : List Tr × QF :=
  let err := α * (r + γ * expectedEps ε A q s1 - q s a)
  let td := γ * cEval k lam (probGreedy ε A a mA) (πb s a)
  updateTraces s a err td tol tr q

/-- the code as written passes the greedy action of `s1` -/
theorem controlStep_eq_at (k : Kind) (γ α lam tol ε : Rat) (A : Nat) (πb : Nat → Nat → Rat)
    (tr : List Tr) (q : QF) (s a s1 : Nat) (r : Rat) :
    controlStep k γ α lam tol ε A πb tr q s a s1 r
      = controlStepAt (argmaxA A (q s1)) k γ α lam tol ε A πb tr q s a s1 r := rfl

/-- the header's reading: the greedy action of `s` -/
def controlStepDoc (k : Kind) (γ α lam tol ε : Rat) (A : Nat) (πb : Nat → Nat → Rat)
    (tr : List Tr) (q : QF) (s a s1 : Nat) (r : Rat) : List Tr × QF :=
  controlStepAt (argmaxA A (q s)) k γ α lam tol ε A πb tr q s a s1 r

/-- clause 4 for every choice of the index -/
theorem controlStepAt_ok (mA : Nat) (k : Kind) (hk : k ≠ .is) (γ α lam tol ε : Rat) (A : Nat) (πb : Nat → Nat → Rat)
    (hA : 0 < A) (hε : 0 ≤ ε ∧ ε ≤ 1) (hγ : 0 ≤ γ ∧ γ ≤ 1) (hl : 0 ≤ lam ∧ lam ≤ 1) (htol : tol ≤ 1)
    (tr : List Tr) (q : QF) (h : TrOK tol tr) (s a s1 : Nat) (r : Rat) (hπb : 0 < πb s a) :
    TrOK tol (controlStepAt mA k γ α lam tol ε A πb tr q s a s1 r).1 := by
  have hp := probGreedy_unit ε A a mA hA hε.1 hε.2
  have hc := cEval_unit k hk lam _ (πb s a) hl.1 hl.2 hp.1 hp.2 hπb
  have hu := mul_unit hγ.1 hγ.2 hc.1 hc.2
  exact updateTraces_ok _ _ _ _ _ _ _ hu.1 hu.2 htol h

/-- clause 3 for every choice of the index -/
theorem controlStepAt_lambda0 (mA : Nat) (k : Kind) (hk : k ≠ .is) (γ α tol ε : Rat) (A : Nat) (πb : Nat → Nat → Rat)
    (tr : List Tr) (q : QF) (hnd : (tr.map key).Nodup) (s a s1 : Nat) (r : Rat) :
    (controlStepAt mA k γ α 0 tol ε A πb tr q s a s1 r).2
      = upd q s a (q s a + α * (r + γ * expectedEps ε A q s1 - q s a)) := by
  unfold controlStepAt
  simp only [cEval_lam0 k hk, mul_zero]
  exact updateTraces_td0 _ _ _ _ _ _ hnd

/-- at λ = 0 the index is irrelevant for the whole step (trace list and table) -/
theorem controlStepAt_lambda0_indep (mA mA' : Nat) (k : Kind) (hk : k ≠ .is) (γ α tol ε : Rat) (A : Nat)
    (πb : Nat → Nat → Rat) (tr : List Tr) (q : QF) (s a s1 : Nat) (r : Rat) :
    controlStepAt mA k γ α 0 tol ε A πb tr q s a s1 r = controlStepAt mA' k γ α 0 tol ε A πb tr q s a s1 r := by
  unfold controlStepAt
  simp only [cEval_lam0 k hk, mul_zero]

/-- clause 2 for every choice of the index (greedy target, ε = 0) -/
theorem controlStepAt_qstar_fixed (mA : Nat) (k : Kind) (γ α lam tol : Rat) (A : Nat) (πb : Nat → Nat → Rat)
    (next : Nat → Nat → Nat) (R : Nat → Nat → Rat) (q : QF) (hq : IsQStar γ A next R q)
    (tr : List Tr) (hnd : (tr.map key).Nodup) (s a : Nat) :
    (controlStepAt mA k γ α lam tol 0 A πb tr q s a (next s a) (R s a)).2 = q := by
  unfold controlStepAt
  have : α * (R s a + γ * expectedEps 0 A q (next s a) - q s a) = 0 := by
    rw [expectedEps_zero, ← hq s a]; ring
  simp only [this]
  exact updateTraces_err0 s a _ tol tr q hnd

/-- Witness (test by evaluation) that the two readings differ for λ > 0, in the TABLE and not only in the traces:
    TreeBackup(λ=1), γ = α = 1, ε = 0, cut-off 1/2, table `cxQ` (row 0 prefers action 0, row 1 prefers action 1), stored
    trace (1,1,1), sample (s=0, a=0, s1=1, r=1).  The error is 1.  As written the index is arg-max of row 1 = 1 ≠ a, the
    old trace is cut and q(1,1) stays 1; as documented the index is arg-max of row 0 = 0 = a, the old trace survives
    with eligibility 1 and q(1,1) becomes 2. -/
theorem control_written_vs_documented_differ :
    (controlStep .tb 1 1 1 (1/2) 0 2 (fun _ _ => 1) [⟨1, 1, 1⟩] cxQ 0 0 1 1).2 1 1 = 1 ∧
    (controlStepDoc .tb 1 1 1 (1/2) 0 2 (fun _ _ => 1) [⟨1, 1, 1⟩] cxQ 0 0 1 1).2 1 1 = 2 := by
  constructor <;> decide +kernel

end AITB.Learn
