/-
  AITB.Props.C20g — FasterTrie::reconstruct is maximal (for every shuffle outcome).  Core Lean only.
-/
import AITB.Props.C20e
namespace AITB.Trie

/-! ### reconstruct is maximal: every stored entry that is not returned conflicts with the returned assignment -/

def Rej (F f : List Nat) (e : Entry) : Prop := entryMatches F f e.2 = false
def Stab (F f f' : List Nat) : Prop := f'.length = f.length ∧ ∀ k, f.getD k 0 < F.getD k 0 → f'.getD k 0 = f.getD k 0
def Le (F : List Nat) (s s' : RState) : Prop := Stab F s.f s'.f ∧ ∀ e ∈ s.entries, e ∈ s'.entries
def Dec (F : List Nat) (s : RState) (e : Entry) : Prop := e ∈ s.entries ∨ Rej F s.f e

theorem rej_mono {F f f' : List Nat} {e : Entry} (h : Rej F f e) (hs : Stab F f f') : Rej F f' e := by
  unfold Rej at *
  cases hm : entryMatches F f' e.2 with
  | false => rfl
  | true =>
    have h' : entryMatches F f e.2 = true := by
      rw [entryMatches_iff] at hm ⊢
      intro kv hkv hlt
      have := hs.2 kv.1 hlt
      rw [← this]
      exact hm kv hkv (by rw [this]; exact hlt)
    rw [h] at h'; cases h'

theorem le_refl (F : List Nat) (s : RState) : Le F s s := ⟨⟨rfl, fun _ _ => rfl⟩, fun _ h => h⟩

theorem le_trans {F : List Nat} {a b c : RState} (h1 : Le F a b) (h2 : Le F b c) : Le F a c := by
  refine ⟨⟨by rw [h2.1.1, h1.1.1], fun k hk => ?_⟩, fun e he => h2.2 e (h1.2 e he)⟩
  have e1 := h1.1.2 k hk
  rw [h2.1.2 k (by rw [e1]; exact hk), e1]

theorem dec_mono {F : List Nat} {s s' : RState} {e : Entry} (h : Dec F s e) (hl : Le F s s') : Dec F s' e := by
  rcases h with h | h
  · exact Or.inl (hl.2 e h)
  · exact Or.inr (rej_mono h hl.1)

/-- accepting a matching entry -/
theorem le_step {F : List Nat} {s : RState} (hlen : s.f.length = F.length) (e : Entry) (hv : ValidPF F e.2)
    (hm : entryMatches F s.f e.2 = true) (d : Bool) :
    Le F s { f := assign s.f e.2, entries := s.entries ++ [e], done := d } ∧
    Agrees (assign s.f e.2) e.2 := by
  obtain ⟨a1, a2⟩ := assign_step F s.f e.2 hv hlen hm
  exact ⟨⟨⟨assign_length _ _, a2⟩, fun x hx => List.mem_append_left _ hx⟩, a1⟩

theorem head_mem {o v : Nat} {e : Entry} (h : headIs o v e = true) : (o, v) ∈ e.2 := by
  simp only [headIs, beq_iff_eq] at h
  cases he : e.2 with
  | nil => rw [he] at h; cases h
  | cons kv r => rw [he] at h; simp only [List.head?_cons, Option.some.injEq] at h; rw [h]; exact List.mem_cons_self ..

theorem rej_of_head {F f : List Nat} {o v : Nat} {e : Entry} (h : headIs o v e = true) (hset : f.getD o 0 < F.getD o 0)
    (hne : v ≠ f.getD o 0) : Rej F f e := by
  unfold Rej
  cases hm : entryMatches F f e.2 with
  | false => rfl
  | true =>
    have := (entryMatches_iff F f e.2).mp hm (o, v) (head_mem h) hset
    exact absurd this hne

structure ScanPost (F : List Nat) (o v : Nat) (s s' : RState) (scanned : List Entry) : Prop where
  le : Le F s s'
  len : s'.f.length = F.length
  dec : ∀ e ∈ scanned, Dec F s' e
  done : s'.done = true → s.done = true ∨ s'.f.getD o 0 = v
  keep : s.done = true → s'.done = true

theorem scanKeep_post (F : List Nat) (o v : Nat) (hv : v < F.getD o 0) (b : Bucket) (s : RState)
    (hb : ∀ e ∈ b, ValidPF F e.2 ∧ headIs o v e = true) (hlen : s.f.length = F.length) :
    ScanPost F o v s (scanKeep F b s) b := by
  induction b generalizing s with
  | nil => exact ⟨le_refl F s, hlen, (fun e he => nomatch he), fun h => Or.inl h, fun h => h⟩
  | cons e r ih =>
    have he := hb e (List.mem_cons_self ..)
    have hr : ∀ e' ∈ r, ValidPF F e'.2 ∧ headIs o v e' = true := fun e' h' => hb e' (List.mem_cons_of_mem _ h')
    simp only [scanKeep]
    split
    · rename_i hm
      obtain ⟨hle1, hag⟩ := le_step hlen e he.1 hm true
      have hlen1 : (assign s.f e.2).length = F.length := by rw [assign_length]; exact hlen
      have ih' := ih { f := assign s.f e.2, entries := s.entries ++ [e], done := true } hr hlen1
      have hfo : (assign s.f e.2).getD o 0 = v := hag (o, v) (head_mem he.2)
      refine ⟨le_trans hle1 ih'.le, ih'.len, fun x hx => ?_, fun _ => Or.inr ?_, fun _ => ih'.keep rfl⟩
      · rcases List.mem_cons.mp hx with rfl | hx'
        · exact Or.inl (ih'.le.2 _ (List.mem_append_right _ (List.mem_singleton.mpr rfl)))
        · exact ih'.dec x hx'
      · have := ih'.le.1.2 o (by show (assign s.f e.2).getD o 0 < F.getD o 0; rw [hfo]; exact hv)
        rw [this]; exact hfo
    · rename_i hm
      have ih' := ih s hr hlen
      refine ⟨ih'.le, ih'.len, fun x hx => ?_, ih'.done, ih'.keep⟩
      rcases List.mem_cons.mp hx with rfl | hx'
      · exact dec_mono (Or.inr (by simpa [Rej] using hm)) ih'.le
      · exact ih'.dec x hx'

theorem scanRemove_post (F : List Nat) (o v : Nat) (hv : v < F.getD o 0) (fuel : Nat) (pre rest : List Entry) (s : RState)
    (hfuel : rest.length < fuel)
    (hp : ∀ e ∈ pre, Rej F s.f e) (hb : ∀ e ∈ rest, ValidPF F e.2 ∧ headIs o v e = true) (hlen : s.f.length = F.length) :
    ScanPost F o v s (scanRemove F fuel pre rest s).2 (pre ++ rest) := by
  induction fuel generalizing pre rest s with
  | zero => omega
  | succ fuel ih =>
    cases rest with
    | nil =>
      simp only [scanRemove, List.append_nil]
      exact ⟨le_refl F s, hlen, fun e he => Or.inr (hp e he), fun h => Or.inl h, fun h => h⟩
    | cons e r =>
      have he := hb e (List.mem_cons_self ..)
      have hr : ∀ e' ∈ r, ValidPF F e'.2 ∧ headIs o v e' = true := fun e' h' => hb e' (List.mem_cons_of_mem _ h')
      simp only [List.length_cons] at hfuel
      simp only [scanRemove]
      split
      · rename_i hm
        obtain ⟨hle1, hag⟩ := le_step hlen e he.1 hm true
        have hlen1 : (assign s.f e.2).length = F.length := by rw [assign_length]; exact hlen
        have hfo : (assign s.f e.2).getD o 0 = v := hag (o, v) (head_mem he.2)
        have hp1 : ∀ x ∈ pre, Rej F (assign s.f e.2) x := fun x hx => rej_mono (hp x hx) hle1.1
        cases hl : r.getLast? with
        | none =>
          have : r = [] := List.getLast?_eq_none_iff.mp hl
          subst this
          refine ⟨hle1, hlen1, fun x hx => ?_, fun _ => Or.inr hfo, fun _ => rfl⟩
          rcases List.mem_append.mp hx with h' | h'
          · exact Or.inr (hp1 x h')
          · simp only [List.mem_singleton] at h'; subst h'
            exact Or.inl (List.mem_append_right _ (List.mem_singleton.mpr rfl))
        | some l =>
          obtain ⟨ys, rfl⟩ := List.getLast?_eq_some_iff.mp hl
          simp only [List.dropLast_concat]
          have hr' : ∀ e' ∈ l :: ys, ValidPF F e'.2 ∧ headIs o v e' = true := by
            intro e' h'
            apply hr
            rcases List.mem_cons.mp h' with rfl | h''
            · simp
            · exact List.mem_append_left _ h''
          have ih' := ih pre (l :: ys) { f := assign s.f e.2, entries := s.entries ++ [e], done := true }
            (by simp only [List.length_cons, List.length_append, List.length_nil] at hfuel ⊢; omega) hp1 hr' hlen1
          refine ⟨le_trans hle1 ih'.le, ih'.len, fun x hx => ?_, fun _ => Or.inr ?_, fun _ => ih'.keep rfl⟩
          · rcases List.mem_append.mp hx with h' | h'
            · exact ih'.dec x (List.mem_append_left _ h')
            · rcases List.mem_cons.mp h' with rfl | h''
              · exact Or.inl (ih'.le.2 _ (List.mem_append_right _ (List.mem_singleton.mpr rfl)))
              · apply ih'.dec x
                apply List.mem_append_right
                rcases List.mem_append.mp h'' with h3 | h3
                · exact List.mem_cons_of_mem _ h3
                · simp only [List.mem_singleton] at h3; subst h3; exact List.mem_cons_self ..
          · have := ih'.le.1.2 o (by show (assign s.f e.2).getD o 0 < F.getD o 0; rw [hfo]; exact hv)
            rw [this]; exact hfo
      · rename_i hm
        have hp' : ∀ x ∈ e :: pre, Rej F s.f x := by
          intro x hx
          rcases List.mem_cons.mp hx with rfl | h'
          · simpa [Rej] using hm
          · exact hp x h'
        have ih' := ih (e :: pre) r s (by omega) hp' hr hlen
        refine ⟨ih'.le, ih'.len, fun x hx => ?_, ih'.done, ih'.keep⟩
        apply ih'.dec x
        rcases List.mem_append.mp hx with h' | h'
        · exact List.mem_append_left _ (List.mem_cons_of_mem _ h')
        · rcases List.mem_cons.mp h' with rfl | h''
          · exact List.mem_append_left _ (List.mem_cons_self ..)
          · exact List.mem_append_right _ h''


/-- hypotheses about the original store that the per-factor argument needs -/
structure Store0 (F : List Nat) (keys0 : List (List Bucket)) : Prop where
  heads : ∀ i v, i < F.length → v < F.getD i 0 → ∀ e ∈ bucket keys0 i v, headIs i v e = true
  valid : ∀ i v, i < F.length → v < F.getD i 0 → ∀ e ∈ bucket keys0 i v, ValidPF F e.2

theorem ginv_bucket_sub {F : List Nat} {keys0 keys : List (List Bucket)} {remove : Bool} {s : RState}
    (h : GInv F keys0 remove keys s) {i v : Nat} (hi : i < F.length) (hv : v < F.getD i 0) :
    (∀ e ∈ bucket keys i v, e ∈ bucket keys0 i v) ∧
    (∀ e ∈ bucket keys0 i v, e ∈ bucket keys i v ∨ e ∈ s.entries) := by
  have hp := h.2 i v hi hv
  refine ⟨fun e he => hp.subset (List.mem_append_left _ he), fun e he => ?_⟩
  rcases List.mem_append.mp (hp.symm.subset he) with h' | h'
  · exact Or.inl h'
  · right
    unfold remOf at h'
    split at h'
    · exact (List.mem_filter.mp h').1
    · cases h'

/-- the `do … while` over the values of one factor -/
theorem reconValues_max (F : List Nat) (keys0 : List (List Bucket)) (remove : Bool) (S0 : Store0 F keys0)
    (o : Nat) (ho : o < F.length) (vs : List Nat) (hvs : ∀ v ∈ vs, v < F.getD o 0) (V : List Nat)
    (keys : List (List Bucket)) (s : RState) (orc : List Nat)
    (hg : GInv F keys0 remove keys s) (hlen : s.f.length = F.length)
    (hJ : s.done = true → s.f.getD o 0 < F.getD o 0 ∧ (s.f.getD o 0 ∈ V ∨ vs.head? = some (s.f.getD o 0)))
    (hA : ∀ v ∈ V, v < F.getD o 0 → ∀ e ∈ bucket keys0 o v, Dec F s e) :
    Le F s (reconValues F remove o vs keys s orc).2.1 ∧
    (reconValues F remove o vs keys s orc).2.1.f.length = F.length ∧
    (s.done = true → (reconValues F remove o vs keys s orc).2.1.done = true) ∧
    (((reconValues F remove o vs keys s orc).2.1.done = true ∨ ∀ v, v < F.getD o 0 → v ∈ V ∨ v ∈ vs) →
      ∀ v, v < F.getD o 0 → ∀ e ∈ bucket keys0 o v, Dec F (reconValues F remove o vs keys s orc).2.1 e) := by
  induction vs generalizing V keys s orc with
  | nil =>
    refine ⟨le_refl F s, hlen, fun h => h, ?_⟩
    intro hc v hv e he
    simp only [reconValues] at hc
    by_cases hvV : v ∈ V
    · exact hA v hvV hv e he
    · rcases hc with hd | hcov
      · obtain ⟨hset, hin⟩ := hJ hd
        rcases hin with hin | hin
        · exact Or.inr (rej_of_head (S0.heads o v ho hv e he) hset (fun heq => hvV (heq ▸ hin)))
        · cases hin
      · rcases hcov v hv with h' | h'
        · exact absurd h' hvV
        · cases h'
  | cons v vs ih =>
    have hv := hvs v (List.mem_cons_self ..)
    have hvs' : ∀ w ∈ vs, w < F.getD o 0 := fun w hw => hvs w (List.mem_cons_of_mem _ hw)
    have hbperm : (shuffle orc (bucket keys o v)).1.Perm (bucket keys o v) := shuffle_perm orc _
    obtain ⟨hsub1, hsub2⟩ := ginv_bucket_sub hg ho hv
    have hbvalid : ∀ e ∈ (shuffle orc (bucket keys o v)).1, ValidPF F e.2 ∧ headIs o v e = true := by
      intro e he
      have := hsub1 e (hbperm.subset he)
      exact ⟨S0.valid o v ho hv e this, S0.heads o v ho hv e this⟩
    -- common continuation once the scan of this bucket is characterised
    have key : ∀ (b' : Bucket) (s1 : RState), ScanPost F o v s s1 (shuffle orc (bucket keys o v)).1 →
        GInv F keys0 remove (modBucket keys o v (fun _ => b')) s1 →
        let R := if s1.done = true then (modBucket keys o v (fun _ => b'), s1, (shuffle orc (bucket keys o v)).2)
                 else reconValues F remove o vs (modBucket keys o v (fun _ => b')) s1 (shuffle orc (bucket keys o v)).2
        Le F s R.2.1 ∧ R.2.1.f.length = F.length ∧ (s.done = true → R.2.1.done = true) ∧
        ((R.2.1.done = true ∨ ∀ w, w < F.getD o 0 → w ∈ V ∨ w ∈ v :: vs) →
          ∀ w, w < F.getD o 0 → ∀ e ∈ bucket keys0 o w, Dec F R.2.1 e) := by
      intro b' s1 hpost hg1
      have hA1 : ∀ w ∈ v :: V, w < F.getD o 0 → ∀ e ∈ bucket keys0 o w, Dec F s1 e := by
        intro w hw hwlt e he
        rcases List.mem_cons.mp hw with rfl | hw'
        · rcases hsub2 e he with h' | h'
          · exact hpost.dec e (hbperm.symm.subset h')
          · exact Or.inl (hpost.le.2 e h')
        · exact dec_mono (hA w hw' hwlt e he) hpost.le
      have hJ1 : s1.done = true → s1.f.getD o 0 < F.getD o 0 ∧ s1.f.getD o 0 ∈ v :: V := by
        intro hd
        rcases hpost.done hd with hsd | hfo
        · obtain ⟨hset, hin⟩ := hJ hsd
          have hst := hpost.le.1.2 o hset
          rw [hst]
          refine ⟨hset, ?_⟩
          rcases hin with hin | hin
          · exact List.mem_cons_of_mem _ hin
          · simp only [List.head?_cons, Option.some.injEq] at hin
            rw [← hin]; exact List.mem_cons_self ..
        · rw [hfo]; exact ⟨hv, List.mem_cons_self ..⟩
      intro R
      by_cases hd : s1.done = true
      · have hR : R = (modBucket keys o v (fun _ => b'), s1, (shuffle orc (bucket keys o v)).2) := if_pos hd
        rw [hR]
        refine ⟨hpost.le, hpost.len, fun _ => hd, fun _ w hw e he => ?_⟩
        obtain ⟨hset, hin⟩ := hJ1 hd
        by_cases hwV : w ∈ v :: V
        · exact hA1 w hwV hw e he
        · exact Or.inr (rej_of_head (S0.heads o w ho hw e he) hset (fun heq => hwV (heq ▸ hin)))
      · have hR : R = reconValues F remove o vs (modBucket keys o v (fun _ => b')) s1 (shuffle orc (bucket keys o v)).2 := if_neg hd
        rw [hR]
        obtain ⟨i1, i2, i3, i4⟩ := ih hvs' (v :: V) _ s1 _ hg1 hpost.len (fun h' => absurd h' hd) hA1
        refine ⟨le_trans hpost.le i1, i2, fun hsd => absurd (hpost.keep hsd) hd, fun hc => ?_⟩
        apply i4
        rcases hc with hc | hc
        · exact Or.inl hc
        · right
          intro w hw
          rcases hc w hw with h' | h'
          · exact Or.inl (List.mem_cons_of_mem _ h')
          · rcases List.mem_cons.mp h' with rfl | h''
            · exact Or.inl (List.mem_cons_self ..)
            · exact Or.inr h''
    cases remove with
    | true =>
      obtain ⟨rem, h1, h2⟩ := scanRemove_rem F ((shuffle orc (bucket keys o v)).1.length + 1) [] (shuffle orc (bucket keys o v)).1 s
      have hstep := visit_ginv F keys0 true S0.heads keys s o v ho hv hg (shuffle orc (bucket keys o v)).1
        (scanRemove F ((shuffle orc (bucket keys o v)).1.length + 1) [] (shuffle orc (bucket keys o v)).1 s).1
        (scanRemove F ((shuffle orc (bucket keys o v)).1.length + 1) [] (shuffle orc (bucket keys o v)).1 s).2
        hbperm (fun _ => ⟨rem, h1, by simpa using h2⟩) (fun hh => by cases hh)
      have hpost := scanRemove_post F o v hv ((shuffle orc (bucket keys o v)).1.length + 1) [] (shuffle orc (bucket keys o v)).1 s
        (Nat.lt_succ_self _) (fun e he => nomatch he) hbvalid hlen
      simp only [List.nil_append] at hpost
      have := key _ _ hpost hstep
      simp only [reconValues, if_true]
      exact this
    | false =>
      have hstep := visit_ginv F keys0 false S0.heads keys s o v ho hv hg (shuffle orc (bucket keys o v)).1
        (shuffle orc (bucket keys o v)).1 (scanKeep F (shuffle orc (bucket keys o v)).1 s)
        hbperm (fun hh => by cases hh) (fun _ => rfl)
      have hpost := scanKeep_post F o v hv (shuffle orc (bucket keys o v)).1 s hbvalid hlen
      have := key _ _ hpost hstep
      simp only [reconValues, Bool.false_eq_true, if_false]
      exact this


theorem reconFactors_max (F : List Nat) (keys0 : List (List Bucket)) (remove : Bool) (S0 : Store0 F keys0)
    (os : List Nat) (hos : ∀ o ∈ os, o < F.length) (D : List Nat)
    (keys : List (List Bucket)) (s : RState) (orc : List Nat)
    (hg : GInv F keys0 remove keys s) (hlen : s.f.length = F.length)
    (hB : ∀ o ∈ D, o < F.length → ∀ v, v < F.getD o 0 → ∀ e ∈ bucket keys0 o v, Dec F s e) :
    ∀ o, (o ∈ D ∨ o ∈ os) → o < F.length → ∀ v, v < F.getD o 0 → ∀ e ∈ bucket keys0 o v,
      Dec F (reconFactors F remove os keys s orc).2.1 e := by
  induction os generalizing D keys s orc with
  | nil =>
    intro o ho holt v hv e he
    rcases ho with ho | ho
    · exact hB o ho holt v hv e he
    · cases ho
  | cons o os ih =>
    have ho := hos o (List.mem_cons_self ..)
    have hos' : ∀ o' ∈ os, o' < F.length := fun o' h' => hos o' (List.mem_cons_of_mem _ h')
    -- what processing factor `o` achieves, in either branch
    have key : ∀ (vs : List Nat) (s0 : RState) (orc0 : List Nat), s0.f = s.f → s0.entries = s.entries →
        (∀ v ∈ vs, v < F.getD o 0) →
        (s0.done = true → s0.f.getD o 0 < F.getD o 0 ∧ vs.head? = some (s0.f.getD o 0)) →
        (s0.done = true ∨ ∀ v, v < F.getD o 0 → v ∈ vs) →
        ∀ o', (o' ∈ D ∨ o' ∈ o :: os) → o' < F.length → ∀ v, v < F.getD o' 0 → ∀ e ∈ bucket keys0 o' v,
          Dec F (reconFactors F remove os (reconValues F remove o vs keys s0 orc0).1
            { (reconValues F remove o vs keys s0 orc0).2.1 with done := false } (reconValues F remove o vs keys s0 orc0).2.2).2.1 e := by
      intro vs s0 orc0 hf0 he0 hvs hJ0 hcov
      have hg0 : GInv F keys0 remove keys s0 := ⟨hg.1, fun i v hi hv => by rw [he0]; exact hg.2 i v hi hv⟩
      have hlen0 : s0.f.length = F.length := by rw [hf0]; exact hlen
      have hle0 : Le F s s0 := ⟨⟨by rw [hf0], fun k _ => by rw [hf0]⟩, fun e he => by rw [he0]; exact he⟩
      obtain ⟨m1, m2, m3, m4⟩ := reconValues_max F keys0 remove S0 o ho vs hvs [] keys s0 orc0 hg0 hlen0
        (fun hd => ⟨(hJ0 hd).1, Or.inr (hJ0 hd).2⟩) (fun v hv => nomatch hv)
      have hg1 := reconValues_ginv F keys0 remove S0.heads o ho vs hvs keys s0 orc0 hg0
      have hdec_o : ∀ v, v < F.getD o 0 → ∀ e ∈ bucket keys0 o v, Dec F (reconValues F remove o vs keys s0 orc0).2.1 e := by
        apply m4
        rcases hcov with hd | hc
        · exact Or.inl (m3 hd)
        · exact Or.inr (fun v hv => Or.inr (hc v hv))
      have hle : Le F s (reconValues F remove o vs keys s0 orc0).2.1 := le_trans hle0 m1
      intro o' ho' holt v hv e he
      have ho2 : o' ∈ o :: D ∨ o' ∈ os := by
        rcases ho' with h' | h'
        · exact Or.inl (List.mem_cons_of_mem _ h')
        · rcases List.mem_cons.mp h' with rfl | h''
          · exact Or.inl (List.mem_cons_self ..)
          · exact Or.inr h''
      refine ih hos' (o :: D) _ { (reconValues F remove o vs keys s0 orc0).2.1 with done := false } _ hg1 m2 ?_ o' ho2 holt v hv e he
      intro o'' ho'' holt'' v' hv' e' he'
      rcases List.mem_cons.mp ho'' with rfl | ho3
      · exact hdec_o v' hv' e' he'
      · exact dec_mono (hB o'' ho3 holt'' v' hv' e' he') hle
    intro o' ho' holt v hv e he
    simp only [reconFactors]
    split
    · rename_i hset
      exact key [s.f.getD o 0] { s with done := true } orc rfl rfl
        (fun v hv => by simp only [List.mem_singleton] at hv; subst hv; exact hset)
        (fun _ => ⟨hset, rfl⟩) (Or.inl rfl) o' ho' holt v hv e he
    · exact key (shuffle orc (List.range (F.getD o 0))).1 { s with done := false } (shuffle orc (List.range (F.getD o 0))).2 rfl rfl
        (fun v hv => List.mem_range.mp (permute_subset _ _ _ v hv))
        (fun hd => by cases hd)
        (Or.inr (fun v hv => (shuffle_perm orc (List.range (F.getD o 0))).symm.subset (List.mem_range.mpr hv)))
        o' ho' holt v hv e he

/-- **reconstruct is maximal**: for every shuffle outcome, every stored entry that is not among the
    returned ones contradicts the returned assignment (so nothing compatible was left out) -/
theorem reconstruct_maximal {t : FT} {es : Spec} (h : RIF t es) (q : PF) (remove : Bool) (orc : List Nat) :
    ∀ e ∈ es, e ∉ (t.reconstruct q remove orc).2.1 → entryMatches t.F (t.reconstruct q remove orc).2.2 e.2 = false := by
  have S0 : Store0 t.F t.keys := by
    refine ⟨fun i v hi hv e he => ?_, fun i v hi hv e he => ?_⟩
    · simp only [headIs, beq_iff_eq]; exact ((h.mem i v e hi hv).mp he).2
    · exact (h.valid e.1 e.2 ((h.mem i v e hi hv).mp he).1).1
  have hg0 : GInv t.F t.keys remove t.keys { f := assign t.F q, entries := [], done := false } := by
    refine ⟨h.shape, fun i v _ _ => ?_⟩
    simp [remOf]
  have hmax := reconFactors_max t.F t.keys remove S0 (shuffle orc (List.range t.F.length)).1
    (fun o ho => List.mem_range.mp (permute_subset _ _ _ o ho)) [] t.keys
    { f := assign t.F q, entries := [], done := false } (shuffle orc (List.range t.F.length)).2 hg0
    (assign_length _ _) (fun o ho => nomatch ho)
  intro e he hne
  obtain ⟨id, pf⟩ := e
  obtain ⟨hv, hnn⟩ := h.valid id pf he
  cases pf with
  | nil => exact absurd rfl hnn
  | cons kv rest =>
    obtain ⟨k, v⟩ := kv
    have hk := hv.2 (k, v) (List.mem_cons_self ..)
    simp only at hk
    have hb : (id, (k, v) :: rest) ∈ bucket t.keys k v := (h.mem k v _ hk.1 hk.2).mpr ⟨he, rfl⟩
    have hko : k ∈ (shuffle orc (List.range t.F.length)).1 :=
      (shuffle_perm orc (List.range t.F.length)).symm.subset (List.mem_range.mpr hk.1)
    rcases hmax k (Or.inr hko) hk.1 v hk.2 _ hb with h' | h'
    · exact absurd h' hne
    · exact h'

end AITB.Trie
