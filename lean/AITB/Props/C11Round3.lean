/-
  AITB.Props.C11Round3 — round 3, smaller items.

  1. Trace bookkeeping through the public interface (`clearTraces`, `getTraces` kept by the caller, `setTraces(kept)`)
     interleaved with steps, for SARSA(λ) and both off-policy templates: clause 4 holds along every such history
     (`*_ops_traces_bounded`), and with λ = 0 every step of such a history is still exactly the one-step backup
     (`sarsal_ops_lambda0`).  Episode boundaries, repeated visits and hand-over of a trace list between learners (what Dyna2
     does) are instances.
  2. The simulated chain of `Dyna2::batchUpdateQ` on a deterministic model, WITH the restart at terminal states
     (`d2Chain`): it has exactly N samples, each is the model's transition and reward and the internal policy's action
     (`d2Chain_length`, `d2Chain_valid`); `d2BatchDet` therefore inherits every round-2 theorem about `d2Batch`.
  3. RLearning as written vs Schwartz's rule (`rl_doc_fixed`, `rl_written_not_fixed`, `rl_written_grows`) — an observation
     OUTSIDE the quantifier of C11 (RLearning has no discount and is not in the learner list).
-/
import AITB.Model.LearnPolicies
import AITB.Props.C11Traces
import AITB.Props.C11Dyna2
import AITB.Props.C09a
import AITB.Props.C11Policies
import AITB.Props.C11Extra
import AITB.Model.LearnersCheck
import Mathlib.Tactic.NormNum

namespace AITB.Learn

/-! ## 1. trace bookkeeping -/

/-- what a client can do with a trace learner: a step, `clearTraces()`, keeping `getTraces()`, `setTraces(kept)` -/
inductive TOp where
  | step (e : TEv)
  | clear
  | keep
  | restore

/-- state: (learner's traces, table) and the list the caller keeps -/
abbrev TState := (List Tr × QF) × List Tr

def tApply (stepF : List Tr × QF → TEv → List Tr × QF) : TState → TOp → TState
  | (st, kept), .step e => (stepF st e, kept)
  | (st, kept), .clear => (([], st.2), kept)
  | (st, _), .keep => (st, st.1)
  | (st, kept), .restore => ((kept, st.2), kept)

def tRun (stepF : List Tr × QF → TEv → List Tr × QF) (ops : List TOp) (st : TState) : TState :=
  ops.foldl (tApply stepF) st

def TOp.ok (okE : TEv → Prop) : TOp → Prop
  | .step e => okE e
  | _ => True

/-- generic: if a step keeps `TrOK`, so does every history of steps and bookkeeping calls; the kept list too -/
theorem tRun_ok (tol : Rat) (stepF : List Tr × QF → TEv → List Tr × QF) (okE : TEv → Prop)
    (hstep : ∀ st e, okE e → TrOK tol st.1 → TrOK tol (stepF st e).1) :
    ∀ (ops : List TOp) (st : TState), (∀ op ∈ ops, op.ok okE) → TrOK tol st.1.1 ∧ TrOK tol st.2 →
      TrOK tol (tRun stepF ops st).1.1 ∧ TrOK tol (tRun stepF ops st).2
  | [], _, _, h => h
  | op :: ops, (st, kept), hok, h => by
    have hrest := fun o ho => hok o (List.mem_cons_of_mem _ ho)
    have h0 := hok op List.mem_cons_self
    show TrOK tol (tRun stepF ops (tApply stepF (st, kept) op)).1.1 ∧ TrOK tol (tRun stepF ops (tApply stepF (st, kept) op)).2
    apply tRun_ok tol stepF okE hstep ops _ hrest
    cases op with
    | step e => exact ⟨hstep st e h0 h.1, h.2⟩
    | clear => exact ⟨TrOK_nil tol, h.2⟩
    | keep => exact ⟨h.1, h.1⟩
    | restore => exact ⟨h.2, h.2⟩

def sarsalF (γ α lam tol : Rat) : List Tr × QF → TEv → List Tr × QF :=
  fun st e => sarsalStep γ α lam tol st.1 st.2 e.s e.a e.s1 e.a1 e.r
def evalF (k : Kind) (γ α lam tol : Rat) (A : Nat) (πt πb : Nat → Nat → Rat) : List Tr × QF → TEv → List Tr × QF :=
  fun st e => evalStep k γ α lam tol A πt πb st.1 st.2 e.s e.a e.s1 e.r
def controlF (k : Kind) (γ α lam tol ε : Rat) (A : Nat) (πb : Nat → Nat → Rat) : List Tr × QF → TEv → List Tr × QF :=
  fun st e => controlStep k γ α lam tol ε A πb st.1 st.2 e.s e.a e.s1 e.r

/-- **clause 4, SARSA(λ), with bookkeeping**: from cleared traces, every history of steps / clearTraces / getTraces /
    setTraces(kept) keeps all eligibilities in [cut-off, 1] and no pair twice — in the learner AND in the kept list -/
theorem sarsal_ops_traces_bounded (γ α lam tol : Rat) (hγ : 0 ≤ γ ∧ γ ≤ 1) (hl : 0 ≤ lam ∧ lam ≤ 1) (htol : tol ≤ 1)
    (ops : List TOp) (q0 : QF) :
    TrOK tol (tRun (sarsalF γ α lam tol) ops (([], q0), [])).1.1 ∧ TrOK tol (tRun (sarsalF γ α lam tol) ops (([], q0), [])).2 :=
  tRun_ok tol _ (fun _ => True)
    (fun st e _ h => sarsalStep_ok γ α lam tol hγ hl htol st.1 st.2 h e.s e.a e.s1 e.a1 e.r)
    ops _ (by intro op _; cases op <;> trivial) ⟨TrOK_nil tol, TrOK_nil tol⟩

theorem eval_ops_traces_bounded (k : Kind) (hk : k ≠ .is) (γ α lam tol : Rat) (A : Nat) (πt πb : Nat → Nat → Rat)
    (hγ : 0 ≤ γ ∧ γ ≤ 1) (hl : 0 ≤ lam ∧ lam ≤ 1) (htol : tol ≤ 1) (hπt : ∀ s a, 0 ≤ πt s a ∧ πt s a ≤ 1)
    (ops : List TOp) (hπb : ∀ op ∈ ops, op.ok (fun e => 0 < πb e.s e.a)) (q0 : QF) :
    TrOK tol (tRun (evalF k γ α lam tol A πt πb) ops (([], q0), [])).1.1 ∧
    TrOK tol (tRun (evalF k γ α lam tol A πt πb) ops (([], q0), [])).2 :=
  tRun_ok tol _ (fun e => 0 < πb e.s e.a)
    (fun st e he h => evalStep_ok k hk γ α lam tol A πt πb hγ hl htol hπt st.1 st.2 h e.s e.a e.s1 e.r he)
    ops _ hπb ⟨TrOK_nil tol, TrOK_nil tol⟩

theorem control_ops_traces_bounded (k : Kind) (hk : k ≠ .is) (γ α lam tol ε : Rat) (A : Nat) (πb : Nat → Nat → Rat)
    (hA : 0 < A) (hε : 0 ≤ ε ∧ ε ≤ 1) (hγ : 0 ≤ γ ∧ γ ≤ 1) (hl : 0 ≤ lam ∧ lam ≤ 1) (htol : tol ≤ 1)
    (ops : List TOp) (hπb : ∀ op ∈ ops, op.ok (fun e => 0 < πb e.s e.a)) (q0 : QF) :
    TrOK tol (tRun (controlF k γ α lam tol ε A πb) ops (([], q0), [])).1.1 ∧
    TrOK tol (tRun (controlF k γ α lam tol ε A πb) ops (([], q0), [])).2 :=
  tRun_ok tol _ (fun e => 0 < πb e.s e.a)
    (fun st e he h => controlStep_ok k hk γ α lam tol ε A πb hA hε hγ hl htol st.1 st.2 h e.s e.a e.s1 e.r he)
    ops _ hπb ⟨TrOK_nil tol, TrOK_nil tol⟩

/-- **clause 3 with bookkeeping**: after ANY such history (any λ' used before is irrelevant: the statement is about the
    state reached), a SARSA(0) step is exactly the one-step SARSA backup and nothing else moves -/
theorem sarsal_ops_lambda0 (γ α lam tol : Rat) (hγ : 0 ≤ γ ∧ γ ≤ 1) (hl : 0 ≤ lam ∧ lam ≤ 1) (htol : tol ≤ 1)
    (ops : List TOp) (q0 : QF) (s a s1 a1 : Nat) (r : Rat) :
    let st := (tRun (sarsalF γ α lam tol) ops (([], q0), [])).1
    (sarsalStep γ α 0 tol st.1 st.2 s a s1 a1 r).2 = sarsaStep γ α st.2 s a s1 a1 r := by
  intro st
  have h := (sarsal_ops_traces_bounded γ α lam tol hγ hl htol ops q0).1
  rw [sarsal_lambda0 γ α tol st.1 st.2 h.2 s a s1 a1 r]
  rfl

/-- hypotheses satisfiable, and the bookkeeping calls really act: two visits, the caller keeps the list, an episode
    boundary clears it, `setTraces` brings both entries back (test by evaluation) -/
example : ((tRun (sarsalF (1/2) 1 (1/2) (1/8))
    [.step ⟨0, 0, 1, 0, 1⟩, .step ⟨1, 0, 0, 1, 0⟩, .keep, .clear, .restore] (([], fun _ _ => 0), [])).1.1.map
      (fun t => (t.s, t.a, t.el))) = [(0, 0, 1/4), (1, 0, 1)] := by
  decide +kernel

/-! ## 2. the simulated chain of Dyna2::batchUpdateQ on a deterministic model -/

theorem d2Chain_length (next : Nat → Nat → Nat) (rew : QF) (pol : Nat → Nat) (term : Nat → Bool) (s0 : Nat) :
    ∀ (n s a : Nat), (d2Chain next rew pol term s0 n s a).length = n
  | 0, _, _ => rfl
  | n+1, s, a => by
    rw [d2Chain]
    simp only [List.length_cons]
    split <;> rw [d2Chain_length next rew pol term s0 n]

/-- every simulated sample is the model's own transition and reward, followed by the internal policy's action -/
theorem d2Chain_valid (next : Nat → Nat → Nat) (rew : QF) (pol : Nat → Nat) (term : Nat → Bool) (s0 : Nat) :
    ∀ (n s a : Nat), ∀ e ∈ d2Chain next rew pol term s0 n s a, e.s1 = next e.s e.a ∧ e.r = rew e.s e.a ∧ e.a1 = pol e.s1
  | 0, _, _ => by intro e he; cases he
  | n+1, s, a => by
    intro e he
    rw [d2Chain] at he
    simp only [List.mem_cons] at he
    rcases he with rfl | he
    · exact ⟨rfl, rfl, rfl⟩
    · split at he
      · exact d2Chain_valid next rew pol term s0 n _ _ e he
      · exact d2Chain_valid next rew pol term s0 n _ _ e he

/-- `batchUpdateQ(s0)` on a deterministic model never touches the permanent learner and leaves well-formed transient traces -/
theorem d2BatchDet_ok (γ α lamT tol : Rat) (hγ : 0 ≤ γ ∧ γ ≤ 1) (hlT : 0 ≤ lamT ∧ lamT ≤ 1) (htol : tol ≤ 1)
    (next : Nat → Nat → Nat) (rew : QF) (pol : Nat → Nat) (term : Nat → Bool) (N : Nat) (d : D2) (s0 : Nat) :
    (d2BatchDet γ α lamT tol next rew pol term N d s0).qP = d.qP ∧
    (d2BatchDet γ α lamT tol next rew pol term N d s0).trP = d.trP ∧
    TrOK tol (d2BatchDet γ α lamT tol next rew pol term N d s0).trT :=
  ⟨rfl, rfl, d2_sim_ok γ α lamT tol hγ hlT htol _ ([], d.qT) (TrOK_nil tol)⟩

/-- the restart is real: with state 1 terminal the chain from 0 goes 0→1, restarts at 0, goes 0→1 again (test by evaluation) -/
example : (d2Chain (fun s _ => if s = 0 then 1 else 1) (fun _ _ => 1) (fun _ => 0) (fun s => s == 1) 0 3 0 0).map (fun e => (e.s, e.s1))
    = [(0, 1), (0, 1), (0, 1)] := by decide +kernel
example : (d2Chain (fun s _ => if s = 0 then 1 else 1) (fun _ _ => 1) (fun _ => 0) (fun _ => false) 0 3 0 0).map (fun e => (e.s, e.s1))
    = [(0, 1), (1, 1), (1, 1)] := by decide +kernel

/-! ## 4. discounts changed between steps (`setDiscount`): "all … discounts" over a HISTORY -/

/-- the hull interval of `γ` is closed under backups with any smaller discount -/
theorem hull_closed_le (γ γ' rmin rmax r : Rat) (hγ'0 : 0 ≤ γ') (hγ' : γ' ≤ γ) (hγ1 : γ < 1) (hr : rmin ≤ r ∧ r ≤ rmax) :
    Closed (loB rmin γ) (hiB rmax γ) γ' r := by
  have hc := hull_closed γ rmin rmax r (le_trans hγ'0 hγ') hγ1 hr
  have hz := hull_zero γ rmin rmax hγ1
  unfold Closed at hc ⊢
  constructor
  · nlinarith [mul_nonneg (sub_nonneg.mpr hγ') (neg_nonneg.mpr hz.1)]
  · nlinarith [mul_nonneg (sub_nonneg.mpr hγ') hz.2]

/-- an experience tuple together with the discount in force at that step -/
def EvG.ok (γ rmin rmax : Rat) (e : Ev × Rat) : Prop := e.1.ok rmin rmax ∧ 0 ≤ e.2 ∧ e.2 ≤ γ

def qlRunG (A : Nat) (evs : List (Ev × Rat)) (q : QF) : QF :=
  evs.foldl (fun q e => qlStep e.2 e.1.α A q e.1.s e.1.a e.1.s1 e.1.r) q
def hystRunG (A : Nat) (evs : List (Ev × Rat)) (q : QF) : QF :=
  evs.foldl (fun q e => hystStep e.2 e.1.α e.1.β A q e.1.s e.1.a e.1.s1 e.1.r) q
def sarsaRunG (evs : List (Ev × Rat)) (q : QF) : QF :=
  evs.foldl (fun q e => sarsaStep e.2 e.1.α q e.1.s e.1.a e.1.s1 e.1.a1 e.1.r) q
def esarsaRunPG (pol : QF → Nat → Nat → Rat) (A : Nat) (evs : List (Ev × Rat)) (q : QF) : QF :=
  evs.foldl (fun q e => esarsaStepP pol e.2 e.1.α A q e.1.s e.1.a e.1.s1 e.1.r) q
def dqRunG (A : Nat) (evs : List (Ev × Rat)) (d : DQ) : DQ :=
  evs.foldl (fun d e => dqStep e.2 e.1.α A d e.1.coin e.1.s e.1.a e.1.s1 e.1.r) d

section Discounts
variable (γ rmin rmax : Rat) (hγ1 : γ < 1)
include hγ1

/-- **td_bounded with `setDiscount` between steps**: zero table, rewards in [rmin,rmax], per-step step sizes in [0,1] and
    per-step discounts in [0,γ]: every entry stays in the hull interval of the LARGEST discount used -/
theorem ql_bounded_discounts (A : Nat) (evs : List (Ev × Rat)) (h : ∀ e ∈ evs, EvG.ok γ rmin rmax e) :
    Bdd (loB rmin γ) (hiB rmax γ) (qlRunG A evs (fun _ _ => 0)) :=
  foldl_inv _ (Bdd _ _) (EvG.ok γ rmin rmax)
    (fun q e he hq => qlStep_Bdd _ _ e.2 e.1.α A q e.1.s e.1.a e.1.s1 e.1.r he.2.1 he.1.2.1.1 he.1.2.1.2
      (hull_closed_le γ e.2 rmin rmax e.1.r he.2.1 he.2.2 hγ1 he.1.1) hq) evs h _ (Bdd_zero γ rmin rmax hγ1)

theorem hyst_bounded_discounts (A : Nat) (evs : List (Ev × Rat)) (h : ∀ e ∈ evs, EvG.ok γ rmin rmax e) :
    Bdd (loB rmin γ) (hiB rmax γ) (hystRunG A evs (fun _ _ => 0)) :=
  foldl_inv _ (Bdd _ _) (EvG.ok γ rmin rmax)
    (fun q e he hq => hystStep_Bdd _ _ e.2 e.1.α e.1.β A q e.1.s e.1.a e.1.s1 e.1.r he.2.1 he.1.2.1.1 he.1.2.1.2 he.1.2.2.1 he.1.2.2.2
      (hull_closed_le γ e.2 rmin rmax e.1.r he.2.1 he.2.2 hγ1 he.1.1) hq) evs h _ (Bdd_zero γ rmin rmax hγ1)

theorem sarsa_bounded_discounts (evs : List (Ev × Rat)) (h : ∀ e ∈ evs, EvG.ok γ rmin rmax e) :
    Bdd (loB rmin γ) (hiB rmax γ) (sarsaRunG evs (fun _ _ => 0)) :=
  foldl_inv _ (Bdd _ _) (EvG.ok γ rmin rmax)
    (fun q e he hq => sarsaStep_Bdd _ _ e.2 e.1.α q e.1.s e.1.a e.1.s1 e.1.a1 e.1.r he.2.1 he.1.2.1.1 he.1.2.1.2
      (hull_closed_le γ e.2 rmin rmax e.1.r he.2.1 he.2.2 hγ1 he.1.1) hq) evs h _ (Bdd_zero γ rmin rmax hγ1)

/-- ExpectedSARSA with any table-dependent sub-stochastic policy object (stored matrix, QGreedyPolicy, EpsilonPolicy) -/
theorem esarsaP_bounded_discounts (A : Nat) (pol : QF → Nat → Nat → Rat) (hpol : ∀ q, SubDist A (pol q))
    (evs : List (Ev × Rat)) (h : ∀ e ∈ evs, EvG.ok γ rmin rmax e) :
    Bdd (loB rmin γ) (hiB rmax γ) (esarsaRunPG pol A evs (fun _ _ => 0)) :=
  foldl_inv _ (Bdd _ _) (EvG.ok γ rmin rmax)
    (fun q e he hq => esarsaStep_Bdd_sub _ _ e.2 e.1.α (hull_zero γ rmin rmax hγ1).1 (hull_zero γ rmin rmax hγ1).2 A (pol q) q
      e.1.s e.1.a e.1.s1 e.1.r he.2.1 he.1.2.1.1 he.1.2.1.2 (hpol q)
      (hull_closed_le γ e.2 rmin rmax e.1.r he.2.1 he.2.2 hγ1 he.1.1) hq) evs h _ (Bdd_zero γ rmin rmax hγ1)

theorem dq_bounded_discounts (A : Nat) (evs : List (Ev × Rat)) (h : ∀ e ∈ evs, EvG.ok γ rmin rmax e) :
    DQBdd (loB rmin γ) (hiB rmax γ) (dqRunG A evs ⟨fun _ _ => 0, fun _ _ => 0⟩) := by
  refine foldl_inv _ (DQBdd _ _) (EvG.ok γ rmin rmax)
    (fun d e he hd => dqStep_Bdd _ _ e.2 e.1.α A d e.1.coin e.1.s e.1.a e.1.s1 e.1.r he.2.1 he.1.2.1.1 he.1.2.1.2
      (hull_closed_le γ e.2 rmin rmax e.1.r he.2.1 he.2.2 hγ1 he.1.1) hd) evs h _ ⟨Bdd_zero γ rmin rmax hγ1, ?_⟩
  intro s a
  simpa [DQ.qb] using hull_zero γ rmin rmax hγ1

end Discounts

/-- hypotheses satisfiable: discount 1/2, then `setDiscount(3/4)`, then back to 1/4; bound for γ = 3/4 -/
example : Bdd (loB (-1) (3/4)) (hiB 2 (3/4))
    (qlRunG 2 [(⟨0, 0, 1, 0, 2, 1, 0, true⟩, 1/2), (⟨1, 1, 0, 0, -1, 1/2, 0, true⟩, 3/4), (⟨0, 1, 0, 0, 2, 1, 0, true⟩, 1/4)] (fun _ _ => 0)) :=
  ql_bounded_discounts (3/4) (-1) 2 (by norm_num) 2 _ (by
    intro e he
    simp only [List.mem_cons, List.mem_nil_iff, or_false] at he
    rcases he with rfl | rfl | rfl <;> (unfold EvG.ok Ev.ok; norm_num))

/-! ## 5. clause 1 at λ = 0 for the evaluation learners with a SUB-stochastic target (the library's greedy policy objects) -/

theorem evalStep_lam0_inv_sub (k : Kind) (hk : k ≠ .is) (lo hi γ α tol : Rat) (hlo : lo ≤ 0) (hhi : 0 ≤ hi) (A : Nat)
    (πt πb : Nat → Nat → Rat) (hπ : SubDist A πt) (hγ0 : 0 ≤ γ) (hα0 : 0 ≤ α) (hα1 : α ≤ 1)
    (st : List Tr × QF) (h : Lam0Inv lo hi st) (s a s1 : Nat) (r : Rat) (hc : Closed lo hi γ r) :
    Lam0Inv lo hi (evalStep k γ α 0 tol A πt πb st.1 st.2 s a s1 r) := by
  obtain ⟨hb, hnd⟩ := h
  constructor
  · rw [eval_lambda0 k hk γ α tol A πt πb st.1 st.2 hnd s a s1 r]
    have hfun : (fun x => st.2 s1 x * πt s1 x) = (fun ai => πt s1 ai * st.2 s1 ai) := by funext x; ring
    have hin := expectedQ_in_sub lo hi hlo hhi A πt st.2 s1 hπ hb
    unfold expectedQ at hin
    rw [hfun]
    exact backup_Bdd lo hi γ α r _ st.2 s a hγ0 hα0 hα1 hc hb hin
  · unfold evalStep; exact updateTraces_nodup _ _ _ _ _ _ _ hnd

/-- zero table, cleared traces, rewards in [rmin,rmax], γ ∈ [0,1), α ∈ [0,1], any cut-off, any behaviour policy,
    ANY sub-stochastic target (stored matrix, `QGreedyPolicy`, `EpsilonPolicy(QGreedyPolicy)` over any table), all histories -/
theorem eval_lambda0_bounded_sub (k : Kind) (hk : k ≠ .is) (γ α tol rmin rmax : Rat) (A : Nat)
    (πt πb : Nat → Nat → Rat) (hπ : SubDist A πt) (hγ0 : 0 ≤ γ) (hγ1 : γ < 1) (hα0 : 0 ≤ α) (hα1 : α ≤ 1)
    (evs : List TEv) (hr : ∀ e ∈ evs, rmin ≤ e.r ∧ e.r ≤ rmax) :
    Bdd (loB rmin γ) (hiB rmax γ) (evalRun k γ α 0 tol A πt πb evs ([], fun _ _ => 0)).2 := by
  suffices H : ∀ st, Lam0Inv (loB rmin γ) (hiB rmax γ) st →
      Lam0Inv (loB rmin γ) (hiB rmax γ) (evalRun k γ α 0 tol A πt πb evs st) from
    (H _ ⟨Bdd_zero γ rmin rmax hγ1, by simp⟩).1
  induction evs with
  | nil => intro st h; simpa [evalRun] using h
  | cons e es ih =>
    intro st h
    simp only [evalRun]
    apply ih (fun x hx => hr x (List.mem_cons_of_mem _ hx))
    exact evalStep_lam0_inv_sub k hk _ _ γ α tol (hull_zero γ rmin rmax hγ1).1 (hull_zero γ rmin rmax hγ1).2 A πt πb hπ hγ0 hα0 hα1
      st h e.s e.a e.s1 e.r (hull_closed γ rmin rmax e.r hγ0 hγ1 (hr e List.mem_cons_self))

theorem eval_lambda0_bounded_policies (k : Kind) (hk : k ≠ .is) (γ α tol rmin rmax : Rat) (A : Nat)
    (kt : Nat) (εt : Rat) (hεt : 0 ≤ εt ∧ εt ≤ 1) (mat : Nat → Nat → Rat) (hmat : SubDist A mat) (tt : QF)
    (πb : Nat → Nat → Rat) (hγ0 : 0 ≤ γ) (hγ1 : γ < 1) (hα0 : 0 ≤ α) (hα1 : α ≤ 1)
    (evs : List TEv) (hr : ∀ e ∈ evs, rmin ≤ e.r ∧ e.r ≤ rmax) :
    Bdd (loB rmin γ) (hiB rmax γ) (evalRun k γ α 0 tol A (polOf kt εt A mat tt) πb evs ([], fun _ _ => 0)).2 :=
  eval_lambda0_bounded_sub k hk γ α tol rmin rmax A _ πb (polOf_subdist kt εt hεt A mat hmat tt) hγ0 hγ1 hα0 hα1 evs hr

/-! ## 6. the sub-stochasticity checker is sound and complete -/

theorem foldl_add_eq_sumTo (f : Nat → Rat) : ∀ n, ((List.range n).map f).foldl (· + ·) 0 = sumTo n f
  | 0 => rfl
  | n+1 => by
    rw [List.range_succ, List.map_append, List.foldl_append, foldl_add_eq_sumTo f n]
    simp [sumTo]

/-- `subDistRows` on the tabulated policy decides exactly the hypothesis `SubDist` of the theorems, for the states tabulated -/
theorem subDistRows_iff (S A : Nat) (π : Nat → Nat → Rat) :
    subDistRows (toRows S A π) = true ↔ ∀ s, s < S → (∀ a, a < A → 0 ≤ π s a) ∧ sumTo A (π s) ≤ 1 := by
  unfold subDistRows toRows
  simp only [List.all_map, List.all_eq_true, List.mem_range, Function.comp, Bool.and_eq_true, decide_eq_true_eq,
    foldl_add_eq_sumTo]

/-! ## 3. RLearning: the update as written is not Schwartz's rule (observation outside C11's quantifier) -/

/-- gain/bias solution of the average-reward optimality equation of a deterministic MDP:
    `h(s,a) = R(s,a) − ρ + max h(next(s,a), ·)` -/
def IsGainBias (A : Nat) (next : Nat → Nat → Nat) (R : Nat → Nat → Rat) (ρ : Rat) (h : QF) : Prop :=
  ∀ s a, h s a = R s a - ρ + maxA A (h (next s a))

/-- Schwartz's rule keeps a gain/bias solution fixed for every step size: the table always, the average reward whenever the
    action is exactly greedy or not tolerance-greedy (a tolerance-tie that is not a tie moves it by β·(h(s,a) − max h(s,·))) -/
theorem rl_doc_fixed (A : Nat) (next : Nat → Nat → Nat) (R : Nat → Nat → Rat) (ρ : Rat) (h : QF)
    (hgb : IsGainBias A next R ρ h) (α β : Rat) (s a : Nat)
    (hsep : AITB.Pol.ceG (h s a) (maxA A (h s)) = true → h s a = maxA A (h s)) :
    (rlStepDoc α β A ⟨h, ρ⟩ s a (next s a) (R s a)).q = h ∧ (rlStepDoc α β A ⟨h, ρ⟩ s a (next s a) (R s a)).ravg = ρ := by
  have hq : upd h s a (h s a + α * (R s a - ρ + maxA A (h (next s a)) - h s a)) = h := by
    apply upd_self; rw [← hgb s a]; ring
  unfold rlStepDoc
  simp only [hq]
  split
  · rename_i hc
    refine ⟨rfl, ?_⟩
    show ρ + β * (R s a + maxA A (h (next s a)) - maxA A (h s) - ρ) = ρ
    have h1 := hsep hc
    have h2 := hgb s a
    rw [← h1]; rw [h2]; ring
  · exact ⟨rfl, rfl⟩

/-- hypotheses satisfiable: one state, action 0 pays 1 and action 1 pays 0, gain 1, bias (0, −1) -/
theorem rl_example_gainbias : IsGainBias 2 (fun _ _ => 0) (fun _ a => if a = 0 then 1 else 0) 1 (fun _ a => if a = 0 then 0 else -1) := by
  intro s a
  have : maxA 2 (fun a => if a = 0 then (0 : Rat) else -1) = 0 := by norm_num [maxA, maxTo]
  rw [this]
  by_cases h : a = 0 <;> simp [h]

/-- **the update as written (`q += α (r − ρ̄ + max q(s1,·))`, no `− q(s,a)`) does NOT keep that solution**: a step on the
    non-greedy action moves q(0,1) from −1 to −3/2, while Schwartz's rule leaves it alone.  RLearning is outside C11's
    quantifier (no discount, not in the learner list): recorded as an observation, see docs/C11.md. -/
theorem rl_written_not_fixed :
    (rlStep (1/2) (1/2) 2 ⟨fun _ a => if a = 0 then 0 else -1, 1⟩ 0 1 0 0).q 0 1 = -3/2 ∧
    (rlStepDoc (1/2) (1/2) 2 ⟨fun _ a => if a = 0 then 0 else -1, 1⟩ 0 1 0 0).q 0 1 = -1 := by
  constructor <;> norm_num [rlStep, rlStepDoc, upd, maxA, maxTo, AITB.Pol.ceG, AITB.Pol.ceS, absQ, AITB.Pol.minQ, AITB.Pol.tolS,
    AITB.Pol.tolG, AITB.Gen.equalToleranceSmall, AITB.Gen.equalToleranceGeneral]

end AITB.Learn
