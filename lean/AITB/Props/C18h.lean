/-
  AITB.Props.C18h — the main statements, UNCONDITIONAL, for the source as it is now.
  `flags_current` pins the three extracted flags to the repaired values; if the source regresses (the `throw`
  disappears, the size guard goes, the discount guard lets NaN through) this file stops compiling and the
  obligations re-open.
-/
import AITB.Props.C18
namespace AITB.Cassandra

/-- the source as extracted: the malformed-length branch throws, sizes are guarded, NaN discounts are rejected -/
theorem flags_current :
    Gen.Dispatch.flags.rowLenThrows = true ∧ Gen.Dispatch.flags.sizeGuard = true ∧ Gen.Dispatch.flags.nanDiscountRejected = true := by decide

/-- what `resetPre` / `parseWith` and `extractIDs` assume about the state of a parser object: every parse resets `lines_`, the sizes
    and the discount, and a declaration line clears its name table before filling it -/
theorem dispatch_reset :
    Gen.Dispatch.resetsLines = true ∧ Gen.Dispatch.resetsSizes = true ∧ Gen.Dispatch.resetsDiscount = true ∧
    Gen.Dispatch.extractClearsMap = true := by decide

/-- **Rejection, unconditional.**  Whatever the parser (as it is now) accepts is a well-formed file, and the
    returned tables are the specification semantics of its statements. -/
theorem parser_accepts_only_wellformed_current {k : Kind} {text : Str} {r : Parsed}
    (h : parse Gen.Dispatch.flags k text = .ok r) :
    ∃ lines sT sR sW, parseModelInfo Gen.Dispatch.flags (splitLines text) {} [] = .ok (r.pre, lines) ∧
      r.pre.S ≠ 0 ∧ r.pre.A ≠ 0 ∧ (k = .pomdp → r.pre.O ≠ 0) ∧
      FileDenotes Gen.Dispatch.flags k r.pre lines 0 sT sR sW ∧
      ∀ d1 a d3,
        tableAt r.st.wT d1 a d3 = specAt sT r.pre.S r.pre.A r.pre.S d1 a d3 ∧
        tableAt r.st.wR d1 a d3 = specAt sR r.pre.S r.pre.A r.pre.S d1 a d3 ∧
        tableAt r.st.wW d1 a d3 = specAt sW r.pre.S r.pre.A r.pre.O d1 a d3 :=
  parser_accepts_only_wellformed (by simp [flags_current]) h

/-- **Memory clause, unconditional.**  Every write of an accepted parse lands inside the allocated storage. -/
theorem writes_offset_lt_allocated_current {k : Kind} {text : Str} {r : Parsed}
    (h : parse Gen.Dispatch.flags k text = .ok r) :
    (∀ w ∈ r.st.wT, offset r.pre.A r.pre.S w < allocated r.pre.S r.pre.A r.pre.S) ∧
    (∀ w ∈ r.st.wR, offset r.pre.A r.pre.S w < allocated r.pre.S r.pre.A r.pre.S) ∧
    (k = .pomdp → ∀ w ∈ r.st.wW, offset r.pre.A r.pre.O w < allocated r.pre.S r.pre.A r.pre.O) :=
  writes_offset_lt_allocated (by simp [flags_current]) h

/-- **The property in one statement, unconditional.**  If an entry point (as it is now) accepts a text then the text is
    a well-formed file, the tables are exactly the ones its statements define, every transition (and observation) row is
    a probability vector up to the library tolerance, and the discount is a number in (0, 1]. -/
theorem parseCassandra_sound_current {tol : Rat} {k : Kind} {text : Str} {r : Parsed}
    (h : parseCassandra Gen.Dispatch.flags tol k text = .ok r) :
    (∃ lines sT sR sW, parseModelInfo Gen.Dispatch.flags (splitLines text) {} [] = .ok (r.pre, lines) ∧
      FileDenotes Gen.Dispatch.flags k r.pre lines 0 sT sR sW ∧
      ∀ d1 a d3,
        tableAt r.st.wT d1 a d3 = specAt sT r.pre.S r.pre.A r.pre.S d1 a d3 ∧
        tableAt r.st.wR d1 a d3 = specAt sR r.pre.S r.pre.A r.pre.S d1 a d3 ∧
        tableAt r.st.wW d1 a d3 = specAt sW r.pre.S r.pre.A r.pre.O d1 a d3) ∧
    (∃ q : Rat, r.pre.disc = .fin q ∧ 0 < q ∧ q ≤ 1) ∧
    rowsOK tol r.st.wT r.pre.S r.pre.A r.pre.S = true ∧
    (k = .pomdp → rowsOK tol r.st.wW r.pre.S r.pre.A r.pre.O = true) := by
  obtain ⟨hw, hd, hT, hW⟩ := parseCassandra_sound (by simp [flags_current]) h
  exact ⟨hw, discount_valid_of_guard (by simp [flags_current]) hd, hT, hW⟩

end AITB.Cassandra
