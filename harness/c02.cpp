// C02 correspondence harness: exact POMDP solvers (IncrementalPruning, Witness, LinearSupport) and RTBSS on dense and
// sparse models.  Every line carries the POMDP tables, the horizon and the implementation's exact output (the whole returned
// ValueFunction, or RTBSS's (action, value)); the Lean driver evaluates the property's own definition (`expectimax`, exact
// rationals) and compares.
//
//   C02 vf <solver> <rep> <dyadic> <pomdp> <h> | <nLists> { <nVec> { <action> <S values> } } | <nB> { <S weights> } | <nB> { findBestAtPoint value }
//   C02 rtbss <rep> <dyadic> <pomdp> <h> <maxR> <S belief> | <action> <value>
//   pomdp := S A γ T[a][s][s1].. R[s][a].. O Ob[a][s1][o]..      (harness/common/gen.hpp putPomdp)
#include "common/verif.hpp"
#include "common/gen.hpp"
#include <AIToolbox/POMDP/Algorithms/IncrementalPruning.hpp>
#include <AIToolbox/POMDP/Algorithms/Witness.hpp>
#include <AIToolbox/POMDP/Algorithms/LinearSupport.hpp>
#include <AIToolbox/POMDP/Algorithms/RTBSS.hpp>
#include <AIToolbox/POMDP/SparseModel.hpp>
#include <AIToolbox/Utils/Polytope.hpp>

using namespace verif;
namespace P = AIToolbox::POMDP;
using Dense  = P::Model<AIToolbox::MDP::Model>;
using Sparse = P::SparseModel<AIToolbox::MDP::SparseModel>;

static const long kFixed = 8;

long verif::verif_ncases(const std::string & tier) { return kFixed + (tier == "thorough" ? 6000 : 260); }

static std::vector<AIToolbox::Vector> testBeliefs(Rng & rng, size_t S, int nrandom) {
    std::vector<AIToolbox::Vector> bs;
    for (size_t s = 0; s < S; ++s) { AIToolbox::Vector b = AIToolbox::Vector::Zero(S); b[s] = 1.0; bs.push_back(b); }           // corners
    for (size_t s = 0; s < S; ++s) for (size_t t = s + 1; t < S; ++t) {                                                           // edge midpoints and quarter points
        AIToolbox::Vector b = AIToolbox::Vector::Zero(S); b[s] = 0.5; b[t] = 0.5; bs.push_back(b);
        b[s] = 0.25; b[t] = 0.75; bs.push_back(b);
        b[s] = 0.875; b[t] = 0.125; bs.push_back(b);
    }
    if (S >= 3) for (size_t s = 0; s < S; ++s) {                                                                                  // interior points near each corner
        AIToolbox::Vector b = AIToolbox::Vector::Constant(S, 0.125); b[s] = 1.0 - 0.125 * (double)(S - 1); bs.push_back(b);
    }
    for (int i = 0; i < nrandom; ++i) bs.push_back(dyadicBelief(rng, S, i % 2 ? 6 : 3));
    return bs;
}

template <class Solver, class Mod>
static void emitVF(const char * solver, const char * rep, const PomdpTables & pt, const Mod & model, unsigned h, bool dyadic, Rng & rng, int nrandom) {
    Solver sol(h, 0.0);
    auto [var, vf] = sol(model);
    (void)var;
    Line l; l << "C02" << "vf" << solver << rep << dyadic; putPomdp(l, pt); l << (size_t)h << "|";
    l << (size_t)vf.size();
    for (const auto & vl : vf) {
        l << (size_t)vl.size();
        for (const auto & e : vl) { l << (size_t)e.action; for (long s = 0; s < e.values.size(); ++s) l << (double)e.values[s]; }
    }
    l << "|";
    auto bs = testBeliefs(rng, pt.S, nrandom);
    l << (size_t)bs.size();
    for (auto & b : bs) for (size_t s = 0; s < pt.S; ++s) l << (double)b[s];
    l << "|" << (size_t)bs.size();
    const auto & last = vf.back();
    for (auto & b : bs) { double v = 0; AIToolbox::findBestAtPoint(b, std::begin(last), std::end(last), &v, P::unwrap); l << v; }
    l.emit();
    std::printf("#stat solver:%s 1\n#stat rep:%s 1\n#stat vectors_last:%zu 1\n", solver, rep, std::min<size_t>(last.size(), 9));
}

// findVerticesNaive on a parsimonious list (the final IncrementalPruning list): C02 verts <dyadic> <S> <n> {S values} | <k> {S coordinates, value}
static void emitVerts(const PomdpTables & pt, const P::VList & vl, bool dyadic = true) {
    if (pt.S < 2 || vl.size() < 2 || vl.size() > 8) return;
    auto vs = AIToolbox::findVerticesNaive(vl, P::unwrap);
    Line l; l << "C02" << "verts" << dyadic << pt.S << (size_t)vl.size();
    for (const auto & e : vl) for (size_t s = 0; s < pt.S; ++s) l << (double)e.values[s];
    l << "|" << (size_t)vs.first.size();
    for (size_t i = 0; i < vs.first.size(); ++i) { for (size_t s = 0; s < pt.S; ++s) l << (double)vs.first[i][s]; l << vs.second[i]; }
    l.emit();
    std::printf("#stat verts:S%zu 1\n", pt.S);
}

template <class Mod>
static void emitRTBSS(const char * rep, const PomdpTables & pt, const Mod & model, unsigned h, double maxR, const AIToolbox::Vector & b, bool dyadic) {
    P::RTBSS<Mod> solver(model, maxR);
    auto [a, v] = solver.sampleAction(b, h);
    Line l; l << "C02" << "rtbss" << rep << dyadic; putPomdp(l, pt); l << (size_t)h << maxR;
    for (size_t s = 0; s < pt.S; ++s) l << (double)b[s];
    l << "|" << (size_t)a << v;
    l.emit();
    std::printf("#stat rtbss:%s 1\n", maxR < 0 ? "negative_maxR" : "nonneg_maxR");
}

static double trueMaxR(const PomdpTables & pt) { return pt.R.maxCoeff(); }

static void runAll(const PomdpTables & pt, unsigned h, bool dyadic, Rng & rng, int which, int nrandom) {
    Dense dense = toDense(pt);
    if (which & 1) emitVF<P::IncrementalPruning>("IncrementalPruning", "dense", pt, dense, h, dyadic, rng, nrandom);
    if (which & 1) { P::IncrementalPruning ip(h, 0.0); auto [var, vf] = ip(dense); (void)var; emitVerts(pt, vf.back(), dyadic); }
    if (which & 2) emitVF<P::Witness>("Witness", "dense", pt, dense, h, dyadic, rng, nrandom);
    if (which & 4) emitVF<P::LinearSupport>("LinearSupport", "dense", pt, dense, h, dyadic, rng, nrandom);
    if (which & 8) {
        Sparse sparse(dense);
        emitVF<P::IncrementalPruning>("IncrementalPruning", "sparse", pt, sparse, h, dyadic, rng, nrandom);
        emitVF<P::Witness>("Witness", "sparse", pt, sparse, h, dyadic, rng, nrandom);
        emitVF<P::LinearSupport>("LinearSupport", "sparse", pt, sparse, h, dyadic, rng, nrandom);
    }
}

static void runRTBSS(const PomdpTables & pt, unsigned h, bool dyadic, Rng & rng, int n, bool sparseToo) {
    Dense dense = toDense(pt);
    const double mr = trueMaxR(pt);
    for (int i = 0; i < n; ++i) {
        AIToolbox::Vector b = dyadicBelief(rng, pt.S, 3);
        if (i == 0 && rng.coin(1, 3)) { b.setZero(); b[rng.below(pt.S)] = 1.0; }      // simplex corner
        double maxR;
        switch (rng.below(4)) {
            case 0: maxR = mr; break;                                   // exactly the largest reward (what the header documents)
            case 1: maxR = mr + 0.25 * (double)rng.range(1, 8); break;  // a looser valid bound
            case 2: maxR = std::max(mr, 0.0); break;                    // valid and non-negative
            default: maxR = std::max(mr, 0.0) + 1.0; break;
        }
        emitRTBSS("dense", pt, dense, h, maxR, b, dyadic);
        if (sparseToo) { Sparse sparse(dense); emitRTBSS("sparse", pt, sparse, h, maxR, b, dyadic); }
        if (i == 0) {
            // the same instance with every reward shifted below zero and maxR = the (negative) largest reward, exactly as the header documents
            PomdpTables neg = pt;
            const double shift = std::ceil(std::max(mr, 0.0)) + 0.5;
            neg.R.array() -= shift;
            Dense dneg = toDense(neg);
            emitRTBSS("dense", neg, dneg, h, trueMaxR(neg), b, dyadic);
            if (sparseToo) { Sparse sneg(dneg); emitRTBSS("sparse", neg, sneg, h, trueMaxR(neg), b, dyadic); }
        }
    }
}

// ---- hand-written instances (lowest indices run first)

static PomdpTables tables(size_t S, size_t A, size_t O, double g) {
    PomdpTables p; p.S = S; p.A = A; p.O = O; p.discount = g;
    p.T.assign(A, AIToolbox::Matrix2D::Zero(S, S)); p.R = AIToolbox::Matrix2D::Zero(S, A); p.Ob.assign(A, AIToolbox::Matrix2D::Zero(S, O));
    return p;
}

// Tiger (listen/open-left/open-right), discount 7/8, noisy listening 7/8
static PomdpTables tiger() {
    auto p = tables(2, 3, 2, 0.875);
    for (size_t s = 0; s < 2; ++s) { p.T[0](s, s) = 1.0; for (size_t a = 1; a < 3; ++a) { p.T[a](s, 0) = 0.5; p.T[a](s, 1) = 0.5; } }
    p.Ob[0](0, 0) = 0.875; p.Ob[0](0, 1) = 0.125; p.Ob[0](1, 0) = 0.125; p.Ob[0](1, 1) = 0.875;
    for (size_t a = 1; a < 3; ++a) for (size_t s = 0; s < 2; ++s) { p.Ob[a](s, 0) = 0.5; p.Ob[a](s, 1) = 0.5; }
    p.R(0, 0) = -1; p.R(1, 0) = -1; p.R(0, 1) = -100; p.R(1, 1) = 10; p.R(0, 2) = 10; p.R(1, 2) = -100;
    return p;
}

// all rewards negative: RTBSS's discount*maxR*horizon is not an upper bound (DESIGN §12 #18)
static PomdpTables negRewards() {
    auto p = tables(2, 3, 2, 0.875);
    for (size_t a = 0; a < 3; ++a) {
        p.T[a](0, 0) = 0.5; p.T[a](0, 1) = 0.5; p.T[a](1, 0) = 0.25; p.T[a](1, 1) = 0.75;
        p.Ob[a](0, 0) = 0.75; p.Ob[a](0, 1) = 0.25; p.Ob[a](1, 0) = 0.25; p.Ob[a](1, 1) = 0.75;
    }
    p.R(0, 0) = -4; p.R(1, 0) = -4; p.R(0, 1) = -3; p.R(1, 1) = -5; p.R(0, 2) = -1; p.R(1, 2) = -8;
    return p;
}

// an observation that is impossible under action 0, a duplicate action and a dominated action
static PomdpTables awkward() {
    auto p = tables(3, 3, 2, 0.75);
    for (size_t a = 0; a < 3; ++a) for (size_t s = 0; s < 3; ++s) { p.T[a](s, (s + 1) % 3) = 0.5; p.T[a](s, s) = 0.5; }
    for (size_t s = 0; s < 3; ++s) { p.Ob[0](s, 0) = 1.0; p.Ob[1](s, 0) = (s == 0 ? 1.0 : 0.25); p.Ob[1](s, 1) = (s == 0 ? 0.0 : 0.75); p.Ob[2](s, 0) = p.Ob[1](s, 0); p.Ob[2](s, 1) = p.Ob[1](s, 1); }
    for (size_t s = 0; s < 3; ++s) { p.R(s, 0) = (double)s; p.R(s, 1) = 2.0 - (double)s; p.R(s, 2) = 2.0 - (double)s; }
    return p;
}

// DESIGN §12 #26: the two vectors LinearSupport finds at the corners meet only on the edges b1 = 0 and b0 = 0 of the simplex;
// findVerticesNaive does not find those edge vertices, so two more useful vectors are never discovered (seed 1, case 14 of the first run)
static PomdpTables lsEdgeWitness() {
    auto p = tables(3, 2, 2, 0.5);
    p.T[0] << 0.125, 0.5, 0.375,  0.5, 0.25, 0.25,  0.0, 0.0, 1.0;
    p.T[1] << 0.375, 0.375, 0.25,  0.0, 1.0, 0.0,  0.75, 0.0, 0.25;
    p.R << 8.0, -0.25,  -4.0, -4.0,  3.5, 4.5;
    p.Ob[0] << 0.375, 0.625,  0.5, 0.5,  0.5, 0.5;
    p.Ob[1] << 0.75, 0.25,  1.0, 0.0,  0.5, 0.5;
    return p;
}

// the Lean counterexample `cxNeg` (one state, rewards -1 and -3/2, discount 1/2): RTBSS(maxR = -1, h = 3) returns (1, -3/2), optimum is -7/4
static PomdpTables cxNeg() {
    auto p = tables(1, 2, 1, 0.5);
    for (size_t a = 0; a < 2; ++a) { p.T[a](0, 0) = 1.0; p.Ob[a](0, 0) = 1.0; }
    p.R(0, 0) = -1.0; p.R(0, 1) = -1.5;
    return p;
}

void verif::verif_case(Rng & rng, long idx, const std::string & tier) {
    const bool thorough = tier == "thorough";
    if (idx == 0) { auto p = tiger(); runAll(p, 2, true, rng, 15, 4); runRTBSS(p, 2, true, rng, 2, true); return; }
    if (idx == 1) { auto p = awkward(); runAll(p, 3, true, rng, 15, 4); runRTBSS(p, 3, true, rng, 2, true); return; }
    if (idx == 2) {   // RTBSS with the documented maxR on an all-negative model
        auto p = negRewards(); Dense d = toDense(p);
        AIToolbox::Vector b(2); b << 0.5, 0.5;
        emitRTBSS("dense", p, d, 3, trueMaxR(p), b, true);
        emitRTBSS("dense", p, d, 3, 0.0, b, true);
        auto q = cxNeg(); Dense dq = toDense(q);
        AIToolbox::Vector b1(1); b1 << 1.0;
        emitRTBSS("dense", q, dq, 3, -1.0, b1, true);
        emitRTBSS("dense", q, dq, 3, 0.0, b1, true);
        return;
    }
    if (idx == 3) {
        auto p = lsEdgeWitness(); runAll(p, 2, true, rng, 7, 4);
        // the two supports LinearSupport finds at the corners: their partition has exactly two vertices, both on edges
        P::VList two; AIToolbox::Vector a(3), b(3); a << 8.15625, -2.0625, 5.25; b << 0.9375, -6.0, 7.9375;
        two.emplace_back(a, 0, P::VObs()); two.emplace_back(b, 1, P::VObs());
        emitVerts(p, two);
        return;
    }
    if (idx < kFixed) return;

    // ---- generated instances
    const int style = (int)rng.below(10);         // 0..3 dyadic, 4 state-matched rewards, 5 duplicate action, 6 dominated action, 7 ugly (non-dyadic), 8 ties at a corner, 9 dyadic
    size_t S = (size_t)rng.range(2, 3), A = 2, O = 2;
    if (rng.coin(1, 4)) S = (size_t)rng.range(2, 4);
    if (rng.coin(1, 16)) S = 1;
    if (rng.coin(1, 8)) A = 1; else if (rng.coin(1, 4)) A = 3;
    if (rng.coin(1, 8)) O = 1; else if (rng.coin(1, 4)) O = 3;
    unsigned h = (unsigned)rng.range(1, 3);
    if (A * O >= 9 && h == 3) h = 2;
    if (S >= 4 && A * O >= 6 && h == 3) h = 2;
    if (thorough && rng.coin(1, 10) && A * O <= 4) h = (S <= 2 && rng.coin()) ? 5 : 4;
    PomdpTables pt = randomPomdp(rng, S, A, O, 3);
    bool dyadic = true;
    if (style == 4) {   // action a pays in state a: several vectors survive, different actions optimal in different regions
        for (size_t s = 0; s < S; ++s) for (size_t a = 0; a < A; ++a) pt.R(s, a) = (s % A == a) ? 4.0 + 0.25 * (double)rng.range(0, 8) : -0.25 * (double)rng.range(0, 16);
        std::printf("#stat shape:state_matched_rewards 1\n");
    }
    if (style == 8 && A >= 2) {   // exact ties: all actions pay the same in state 0, and two actions the same in the last state
        for (size_t a = 1; a < A; ++a) pt.R(0, a) = pt.R(0, 0);
        pt.R(S - 1, A - 1) = pt.R(S - 1, 0);
        std::printf("#stat shape:corner_ties 1\n");
    }
    if (style == 5 && A >= 2) { pt.T[A - 1] = pt.T[0]; pt.Ob[A - 1] = pt.Ob[0]; pt.R.col(A - 1) = pt.R.col(0); std::printf("#stat shape:duplicate_action 1\n"); }
    if (style == 6 && A >= 2) { pt.T[A - 1] = pt.T[0]; pt.Ob[A - 1] = pt.Ob[0]; pt.R.col(A - 1) = pt.R.col(0).array() - 0.5; std::printf("#stat shape:dominated_action 1\n"); }
    if (style == 7) {
        // non-dyadic rewards and discount; the probability tables stay dyadic so that rows sum to exactly 1
        dyadic = false; pt.discount = rng.coin() ? 0.9 : 0.95;
        for (size_t s = 0; s < S; ++s) for (size_t a = 0; a < A; ++a) pt.R(s, a) = pt.R(s, a) / 3.0 + 0.1;
        std::printf("#stat shape:ugly 1\n");
    }
    std::printf("#stat S:%zu 1\n#stat A:%zu 1\n#stat O:%zu 1\n#stat h:%u 1\n", S, A, O, h);
    const bool sparse = rng.coin(1, 3);
    runAll(pt, h, dyadic, rng, 7 | (sparse ? 8 : 0), thorough ? 12 : 6);
    runRTBSS(pt, h, dyadic, rng, 2, sparse);
}

VERIF_MAIN
