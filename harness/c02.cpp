// C02 correspondence harness: exact POMDP solvers (IncrementalPruning, Witness, LinearSupport) and RTBSS on dense and
// sparse models.  Every line carries the POMDP tables, the horizon and the implementation's exact output (the whole returned
// ValueFunction, or RTBSS's (action, value)); the Lean driver evaluates the property's own definition (`expectimax`, exact
// rationals) and compares.
//
//   C02 vf <solver> <rep> <dyadic> <pomdp> <h> | <nLists> { <nVec> { <action> <S values> } } | <nB> { <S weights> } | <nB> { findBestAtPoint value }
//   C02 rtbss <rep> <dyadic> <pomdp> <h> <maxR> <S belief> | <action> <value>
//   C02 vftol <solver> <rep> <dyadic> <pomdp> <h> <tolerance> | <returned variation> | <nLists> { <nVec> { <action> <S values> } }
//   pomdp := S A γ T[a][s][s1].. R[s][a].. O Ob[a][s1][o]..      (harness/common/gen.hpp putPomdp)
// rep: dense (POMDP::Model<MDP::Model>), sparse (SparseModel), generic (a model WITHOUT Eigen accessors: the `else` branches of
// Projecter, computeImmediateRewards, beliefExpectedReward, updateBeliefUnnormalized)
#include "common/verif.hpp"
#include "common/gen.hpp"
#include <AIToolbox/POMDP/Algorithms/IncrementalPruning.hpp>
#include <AIToolbox/POMDP/Algorithms/Witness.hpp>
#include <AIToolbox/POMDP/Algorithms/LinearSupport.hpp>
#include <AIToolbox/POMDP/Algorithms/RTBSS.hpp>
#include <AIToolbox/POMDP/SparseModel.hpp>
#include <AIToolbox/Utils/Polytope.hpp>
#include <sys/types.h>
#include <sys/wait.h>
#include <unistd.h>
#include <signal.h>

using namespace verif;
namespace P = AIToolbox::POMDP;
using Dense  = P::Model<AIToolbox::MDP::Model>;
using Sparse = P::SparseModel<AIToolbox::MDP::SparseModel>;

static const long kFixed = 10;

// a POMDP model that satisfies POMDP::IsModel but not IsModelEigen (no get*Function accessors): selects the generic code paths
struct GenericPomdp {
    const Dense & d;
    size_t getS() const { return d.getS(); }
    size_t getA() const { return d.getA(); }
    size_t getO() const { return d.getO(); }
    double getDiscount() const { return d.getDiscount(); }
    double getTransitionProbability(size_t s, size_t a, size_t s1) const { return d.getTransitionProbability(s, a, s1); }
    double getExpectedReward(size_t s, size_t a, size_t s1) const { return d.getExpectedReward(s, a, s1); }
    double getObservationProbability(size_t s1, size_t a, size_t o) const { return d.getObservationProbability(s1, a, o); }
    std::tuple<size_t, double> sampleSR(size_t s, size_t a) const { return d.sampleSR(s, a); }
    std::tuple<size_t, size_t, double> sampleSOR(size_t s, size_t a) const { return d.sampleSOR(s, a); }
    bool isTerminal(size_t s) const { return d.isTerminal(s); }
};
static_assert(P::IsModel<GenericPomdp> && !P::IsModelEigen<GenericPomdp>);

long verif::verif_ncases(const std::string & tier) { return kFixed + (tier == "thorough" ? 1500 : 200); }

static int g_witness_limit = 10;   // seconds; a Witness run on these sizes takes well under a second

// `#in <solver> <rep> S A O h`: the last comment line before a library call (check.py keeps it as the crash context)
static void announce(const char * solver, const char * rep, const PomdpTables & pt, unsigned h) {
    std::printf("#in %s %s %zu %zu %zu %u\n", solver, rep, pt.S, pt.A, pt.O, h); std::fflush(stdout);
}

// Witness' agenda loop has no iteration bound: run it in a child process so that a run that does not return becomes a protocol line
// (`C02 hang …` -> `fail Witness does_not_terminate`, with the instance as the failing input) instead of a dead harness.
// A child that crashes (sanitizer report, abort) takes the harness down with it, as a crash inside the library should.
template <class F>
static void guardedWitness(const char * rep, const PomdpTables & pt, unsigned h, double tol, bool dyadic, F f) {
    std::fflush(stdout); std::fflush(stderr);
    const pid_t pid = fork();
    if (pid < 0) { f(); return; }
    if (pid == 0) { f(); std::fflush(stdout); std::fflush(stderr); _exit(0); }
    int st = 0;
    for (int i = 0; i < g_witness_limit * 50; ++i) {
        if (waitpid(pid, &st, WNOHANG) == pid) {
            if (WIFEXITED(st) && WEXITSTATUS(st) == 0) return;
            std::fprintf(stderr, "child running Witness died (status %d)\n", st); std::fflush(stderr);
            std::abort();
        }
        usleep(20000);
    }
    kill(pid, SIGKILL); waitpid(pid, &st, 0);
    Line l; l << "C02" << "hang" << "Witness" << rep << dyadic; putPomdp(l, pt); l << (size_t)h << tol << (size_t)g_witness_limit;
    l.emit();
    std::printf("#stat witness_killed 1\n");
}

static std::vector<AIToolbox::Vector> testBeliefs(Rng & rng, size_t S, int nrandom) {
    std::vector<AIToolbox::Vector> bs;
    for (size_t s = 0; s < S; ++s) { AIToolbox::Vector b = AIToolbox::Vector::Zero(S); b[s] = 1.0; bs.push_back(b); }           // corners
    for (size_t s = 0; s < S; ++s) for (size_t t = s + 1; t < S; ++t) {                                                           // edge midpoints and quarter points
        AIToolbox::Vector b = AIToolbox::Vector::Zero(S); b[s] = 0.5; b[t] = 0.5; bs.push_back(b);
        b[s] = 0.25; b[t] = 0.75; bs.push_back(b);
        b[s] = 0.875; b[t] = 0.125; bs.push_back(b);
    }
    if (S >= 3) for (size_t s = 0; s < S; ++s) {                                                                                  // interior points near each corner
        AIToolbox::Vector b = AIToolbox::Vector::Constant(S, 0.125); b[s] = 1.0 - 0.125 * (double)(S - 1); bs.push_back(b);
    }
    for (int i = 0; i < nrandom; ++i) bs.push_back(dyadicBelief(rng, S, i % 2 ? 6 : 3));
    return bs;
}

template <class Solver, class Mod>
static void emitVF(const char * solver, const char * rep, const PomdpTables & pt, const Mod & model, unsigned h, bool dyadic, Rng & rng, int nrandom) {
    announce(solver, rep, pt, h);
    Solver sol(h, 0.0);
    auto [var, vf] = sol(model);
    (void)var;
    Line l; l << "C02" << "vf" << solver << rep << dyadic; putPomdp(l, pt); l << (size_t)h << "|";
    l << (size_t)vf.size();
    for (const auto & vl : vf) {
        l << (size_t)vl.size();
        for (const auto & e : vl) { l << (size_t)e.action; for (long s = 0; s < e.values.size(); ++s) l << (double)e.values[s]; }
    }
    l << "|";
    auto bs = testBeliefs(rng, pt.S, nrandom);
    l << (size_t)bs.size();
    for (auto & b : bs) for (size_t s = 0; s < pt.S; ++s) l << (double)b[s];
    l << "|" << (size_t)bs.size();
    const auto & last = vf.back();
    for (auto & b : bs) { double v = 0; AIToolbox::findBestAtPoint(b, std::begin(last), std::end(last), &v, P::unwrap); l << v; }
    l.emit();
    std::printf("#stat solver:%s 1\n#stat rep:%s 1\n#stat vectors_last:%zu 1\n", solver, rep, std::min<size_t>(last.size(), 9));
    if (std::string(solver) == "Witness") {
        // lower bound on Witness' LP row reservation: replay reserveSize/counter on the RETURNED (pruned) per-action counts
        size_t reserve = 1; bool grew = false;
        for (size_t t = 1; t < vf.size(); ++t) {
            reserve = std::max(reserve, 2 * vf[t - 1].size());
            for (size_t a = 0; a < pt.A; ++a) {
                size_t counter = 0;
                for (const auto & e : vf[t]) if (e.action == a && ++counter == reserve) { reserve *= 2; grew = true; }
            }
        }
        if (grew) std::printf("#stat witness_lp_rows_doubled 1\n");
    }
}

// the same solvers with a tolerance: early stop of the outer loop, returned variation (weakBoundDistance), LinearSupport's epsilon test
template <class Solver, class Mod>
static void emitVFTol(const char * solver, const char * rep, const PomdpTables & pt, const Mod & model, unsigned h, double tol, bool dyadic) {
    announce(solver, rep, pt, h);
    Solver sol(h, tol);
    auto [var, vf] = sol(model);
    Line l; l << "C02" << "vftol" << solver << rep << dyadic; putPomdp(l, pt); l << (size_t)h << tol << "|" << var << "|";
    l << (size_t)vf.size();
    for (const auto & vl : vf) {
        l << (size_t)vl.size();
        for (const auto & e : vl) { l << (size_t)e.action; for (long s = 0; s < e.values.size(); ++s) l << (double)e.values[s]; }
    }
    l.emit();
    std::printf("#stat tol:%s 1\n#stat tol_stop:%s 1\n", tol == 0.0 ? "zero" : tol <= 1e-6 ? "below_1e-6" : tol < 1.0 ? "small" : tol < 100 ? "medium" : "huge",
                vf.size() == (size_t)h + 1 ? "ran_to_horizon" : "stopped_early");
}

// findVerticesNaive on a parsimonious list (the final IncrementalPruning list): C02 verts <dyadic> <S> <n> {S values} | <k> {S coordinates, value}
static void emitVerts(const PomdpTables & pt, const P::VList & vl, bool dyadic = true) {
    if (pt.S < 2 || vl.size() < 2 || vl.size() > 8) return;
    auto vs = AIToolbox::findVerticesNaive(vl, P::unwrap);
    Line l; l << "C02" << "verts" << dyadic << pt.S << (size_t)vl.size();
    for (const auto & e : vl) for (size_t s = 0; s < pt.S; ++s) l << (double)e.values[s];
    l << "|" << (size_t)vs.first.size();
    for (size_t i = 0; i < vs.first.size(); ++i) { for (size_t s = 0; s < pt.S; ++s) l << (double)vs.first[i][s]; l << vs.second[i]; }
    l.emit();
    std::printf("#stat verts:S%zu 1\n", pt.S);
}

template <class Mod>
static void emitRTBSS(const char * rep, const PomdpTables & pt, const Mod & model, unsigned h, double maxR, const AIToolbox::Vector & b, bool dyadic) {
    announce("RTBSS", rep, pt, h);
    P::RTBSS<Mod> solver(model, maxR);
    auto [a, v] = solver.sampleAction(b, h);
    Line l; l << "C02" << "rtbss" << rep << dyadic; putPomdp(l, pt); l << (size_t)h << maxR;
    for (size_t s = 0; s < pt.S; ++s) l << (double)b[s];
    l << "|" << (size_t)a << v;
    l.emit();
    std::printf("#stat rtbss:%s 1\n", maxR < 0 ? "negative_maxR" : "nonneg_maxR");
}

static double trueMaxR(const PomdpTables & pt) { return pt.R.maxCoeff(); }

static void runAll(const PomdpTables & pt, unsigned h, bool dyadic, Rng & rng, int which, int nrandom) {
    Dense dense = toDense(pt);
    if (which & 1) emitVF<P::IncrementalPruning>("IncrementalPruning", "dense", pt, dense, h, dyadic, rng, nrandom);
    if (which & 1) { P::IncrementalPruning ip(h, 0.0); auto [var, vf] = ip(dense); (void)var; emitVerts(pt, vf.back(), dyadic); }
    if (which & 2) guardedWitness("dense", pt, h, 0.0, dyadic, [&]{ emitVF<P::Witness>("Witness", "dense", pt, dense, h, dyadic, rng, nrandom); });
    if (which & 4) emitVF<P::LinearSupport>("LinearSupport", "dense", pt, dense, h, dyadic, rng, nrandom);
    if (which & 8) {
        Sparse sparse(dense);
        emitVF<P::IncrementalPruning>("IncrementalPruning", "sparse", pt, sparse, h, dyadic, rng, nrandom);
        guardedWitness("sparse", pt, h, 0.0, dyadic, [&]{ emitVF<P::Witness>("Witness", "sparse", pt, sparse, h, dyadic, rng, nrandom); });
        emitVF<P::LinearSupport>("LinearSupport", "sparse", pt, sparse, h, dyadic, rng, nrandom);
    }
    if (which & 16) {
        GenericPomdp gen{dense};
        emitVF<P::IncrementalPruning>("IncrementalPruning", "generic", pt, gen, h, dyadic, rng, nrandom);
        guardedWitness("generic", pt, h, 0.0, dyadic, [&]{ emitVF<P::Witness>("Witness", "generic", pt, gen, h, dyadic, rng, nrandom); });
        emitVF<P::LinearSupport>("LinearSupport", "generic", pt, gen, h, dyadic, rng, nrandom);
    }
}

static void runTol(const PomdpTables & pt, unsigned h, double tol, bool dyadic, int which) {
    Dense dense = toDense(pt);
    if (which & 1) emitVFTol<P::IncrementalPruning>("IncrementalPruning", "dense", pt, dense, h, tol, dyadic);
    if (which & 2) guardedWitness("dense", pt, h, tol, dyadic, [&]{ emitVFTol<P::Witness>("Witness", "dense", pt, dense, h, tol, dyadic); });
    if (which & 4) emitVFTol<P::LinearSupport>("LinearSupport", "dense", pt, dense, h, tol, dyadic);
    if (which & 8) { Sparse sparse(dense); emitVFTol<P::IncrementalPruning>("IncrementalPruning", "sparse", pt, sparse, h, tol, dyadic); }
    if (which & 16) { GenericPomdp gen{dense}; guardedWitness("generic", pt, h, tol, dyadic, [&]{ emitVFTol<P::Witness>("Witness", "generic", pt, gen, h, tol, dyadic); }); }
}

static void runRTBSS(const PomdpTables & pt, unsigned h, bool dyadic, Rng & rng, int n, bool sparseToo, bool genericToo = false) {
    Dense dense = toDense(pt);
    const double mr = trueMaxR(pt);
    for (int i = 0; i < n; ++i) {
        AIToolbox::Vector b = dyadicBelief(rng, pt.S, 3);
        if (i == 0 && rng.coin(1, 3)) { b.setZero(); b[rng.below(pt.S)] = 1.0; }      // simplex corner
        double maxR;
        switch (rng.below(4)) {
            case 0: maxR = mr; break;                                   // exactly the largest reward (what the header documents)
            case 1: maxR = mr + 0.25 * (double)rng.range(1, 8); break;  // a looser valid bound
            case 2: maxR = std::max(mr, 0.0); break;                    // valid and non-negative
            default: maxR = std::max(mr, 0.0) + 1.0; break;
        }
        emitRTBSS("dense", pt, dense, h, maxR, b, dyadic);
        if (sparseToo) { Sparse sparse(dense); emitRTBSS("sparse", pt, sparse, h, maxR, b, dyadic); }
        if (genericToo) { GenericPomdp gen{dense}; emitRTBSS("generic", pt, gen, h, maxR, b, dyadic); }
        if (i == 0) {
            // the same instance with every reward shifted below zero and maxR = the (negative) largest reward, exactly as the header documents
            PomdpTables neg = pt;
            const double shift = std::ceil(std::max(mr, 0.0)) + 0.5;
            neg.R.array() -= shift;
            Dense dneg = toDense(neg);
            emitRTBSS("dense", neg, dneg, h, trueMaxR(neg), b, dyadic);
            if (sparseToo) { Sparse sneg(dneg); emitRTBSS("sparse", neg, sneg, h, trueMaxR(neg), b, dyadic); }
        }
    }
}

// ---- hand-written instances (lowest indices run first)

static PomdpTables tables(size_t S, size_t A, size_t O, double g) {
    PomdpTables p; p.S = S; p.A = A; p.O = O; p.discount = g;
    p.T.assign(A, AIToolbox::Matrix2D::Zero(S, S)); p.R = AIToolbox::Matrix2D::Zero(S, A); p.Ob.assign(A, AIToolbox::Matrix2D::Zero(S, O));
    return p;
}

// Witness does not return (fixes/C02-4): three states that never change, three actions each paying in "its" state, a noisy binary
// read-out of the state.  At horizon 3 `findWitness` reports a point whose best vector is already in U (improvement exactly 0, positive
// only in the LP's noise); the duplicate is appended, no variation is new, the agenda entry stays: the loop never ends.
static PomdpTables witnessLoop() {
    auto p = tables(3, 3, 2, 0.75);
    for (size_t a = 0; a < 3; ++a) { p.T[a].setIdentity(); for (size_t s = 0; s < 3; ++s) { p.Ob[a](s, s % 2) = 0.75; p.Ob[a](s, 1 - s % 2) = 0.25; } }
    p.R << 8, -8.75, -8.5,  -10, 8, -8.75,  -9.25, -9, 8;
    return p;
}

// Tiger (listen/open-left/open-right), discount 7/8, noisy listening 7/8
static PomdpTables tiger() {
    auto p = tables(2, 3, 2, 0.875);
    for (size_t s = 0; s < 2; ++s) { p.T[0](s, s) = 1.0; for (size_t a = 1; a < 3; ++a) { p.T[a](s, 0) = 0.5; p.T[a](s, 1) = 0.5; } }
    p.Ob[0](0, 0) = 0.875; p.Ob[0](0, 1) = 0.125; p.Ob[0](1, 0) = 0.125; p.Ob[0](1, 1) = 0.875;
    for (size_t a = 1; a < 3; ++a) for (size_t s = 0; s < 2; ++s) { p.Ob[a](s, 0) = 0.5; p.Ob[a](s, 1) = 0.5; }
    p.R(0, 0) = -1; p.R(1, 0) = -1; p.R(0, 1) = -100; p.R(1, 1) = 10; p.R(0, 2) = 10; p.R(1, 2) = -100;
    return p;
}

// all rewards negative: RTBSS's discount*maxR*horizon is not an upper bound (DESIGN §12 #18)
static PomdpTables negRewards() {
    auto p = tables(2, 3, 2, 0.875);
    for (size_t a = 0; a < 3; ++a) {
        p.T[a](0, 0) = 0.5; p.T[a](0, 1) = 0.5; p.T[a](1, 0) = 0.25; p.T[a](1, 1) = 0.75;
        p.Ob[a](0, 0) = 0.75; p.Ob[a](0, 1) = 0.25; p.Ob[a](1, 0) = 0.25; p.Ob[a](1, 1) = 0.75;
    }
    p.R(0, 0) = -4; p.R(1, 0) = -4; p.R(0, 1) = -3; p.R(1, 1) = -5; p.R(0, 2) = -1; p.R(1, 2) = -8;
    return p;
}

// an observation that is impossible under action 0, a duplicate action and a dominated action
static PomdpTables awkward() {
    auto p = tables(3, 3, 2, 0.75);
    for (size_t a = 0; a < 3; ++a) for (size_t s = 0; s < 3; ++s) { p.T[a](s, (s + 1) % 3) = 0.5; p.T[a](s, s) = 0.5; }
    for (size_t s = 0; s < 3; ++s) { p.Ob[0](s, 0) = 1.0; p.Ob[1](s, 0) = (s == 0 ? 1.0 : 0.25); p.Ob[1](s, 1) = (s == 0 ? 0.0 : 0.75); p.Ob[2](s, 0) = p.Ob[1](s, 0); p.Ob[2](s, 1) = p.Ob[1](s, 1); }
    for (size_t s = 0; s < 3; ++s) { p.R(s, 0) = (double)s; p.R(s, 1) = 2.0 - (double)s; p.R(s, 2) = 2.0 - (double)s; }
    return p;
}

// DESIGN §12 #26: the two vectors LinearSupport finds at the corners meet only on the edges b1 = 0 and b0 = 0 of the simplex;
// findVerticesNaive does not find those edge vertices, so two more useful vectors are never discovered (seed 1, case 14 of the first run)
static PomdpTables lsEdgeWitness() {
    auto p = tables(3, 2, 2, 0.5);
    p.T[0] << 0.125, 0.5, 0.375,  0.5, 0.25, 0.25,  0.0, 0.0, 1.0;
    p.T[1] << 0.375, 0.375, 0.25,  0.0, 1.0, 0.0,  0.75, 0.0, 0.25;
    p.R << 8.0, -0.25,  -4.0, -4.0,  3.5, 4.5;
    p.Ob[0] << 0.375, 0.625,  0.5, 0.5,  0.5, 0.5;
    p.Ob[1] << 0.75, 0.25,  1.0, 0.0,  0.5, 0.5;
    return p;
}

// the Lean counterexample `cxNeg` (one state, rewards -1 and -3/2, discount 1/2): RTBSS(maxR = -1, h = 3) returns (1, -3/2), optimum is -7/4
static PomdpTables cxNeg() {
    auto p = tables(1, 2, 1, 0.5);
    for (size_t a = 0; a < 2; ++a) { p.T[a](0, 0) = 1.0; p.Ob[a](0, 0) = 1.0; }
    p.R(0, 0) = -1.0; p.R(0, 1) = -1.5;
    return p;
}

void verif::verif_case(Rng & rng, long idx, const std::string & tier) {
    const bool thorough = tier == "thorough";
    g_witness_limit = thorough ? 15 : 10;
    if (idx == 0) { auto p = tiger(); runAll(p, 2, true, rng, 15, 4); runRTBSS(p, 2, true, rng, 2, true); return; }
    if (idx == 1) { auto p = awkward(); runAll(p, 3, true, rng, 15, 4); runRTBSS(p, 3, true, rng, 2, true); return; }
    if (idx == 2) {   // RTBSS with the documented maxR on an all-negative model
        auto p = negRewards(); Dense d = toDense(p);
        AIToolbox::Vector b(2); b << 0.5, 0.5;
        emitRTBSS("dense", p, d, 3, trueMaxR(p), b, true);
        emitRTBSS("dense", p, d, 3, 0.0, b, true);
        auto q = cxNeg(); Dense dq = toDense(q);
        AIToolbox::Vector b1(1); b1 << 1.0;
        emitRTBSS("dense", q, dq, 3, -1.0, b1, true);
        emitRTBSS("dense", q, dq, 3, 0.0, b1, true);
        return;
    }
    if (idx == 3) {
        auto p = lsEdgeWitness(); runAll(p, 2, true, rng, 7, 4);
        // the two supports LinearSupport finds at the corners: their partition has exactly two vertices, both on edges
        P::VList two; AIToolbox::Vector a(3), b(3); a << 8.15625, -2.0625, 5.25; b << 0.9375, -6.0, 7.9375;
        two.emplace_back(a, 0, P::VObs()); two.emplace_back(b, 1, P::VObs());
        emitVerts(p, two);
        return;
    }
    if (idx == 4) {   // horizon 0: makeValueFunction's single zero vector from every solver and every representation; RTBSS returns (0, 0)
        auto q = cxNeg(); runAll(q, 0, true, rng, 7, 2);
        auto p = awkward(); runRTBSS(p, 0, true, rng, 1, true, true); runAll(p, 0, true, rng, 31, 2);
        return;
    }
    if (idx == 5) {   // tolerance: 0.0, a value checkDifferentSmall reads as 0, values that stop the loop early, and one that stops it after one step
        auto p = tiger();
        for (double tol : {0.0, 5e-7, 0.25, 4.0, 1e6}) runTol(p, 4, tol, true, 15);
        auto q = awkward();
        for (double tol : {2e-6, 0.5, 2.0}) runTol(q, 5, tol, true, 7);
        runTol(q, 0, 0.5, true, 7);     // horizon 0 WITH a tolerance: the loop body never runs
        runTol(p, 4, 0.25, true, 16);
        return;
    }
    if (idx == 6) {   // Tiger and the awkward instance with rewards scaled by 2^20 / 2^24 (WitnessLP's power-of-two row scaling, LP::solve retry)
        auto p = tiger(); p.R *= std::ldexp(1.0, 20); runAll(p, 2, true, rng, 15, 4); runRTBSS(p, 2, true, rng, 1, true, true);
        auto q = awkward(); q.R *= std::ldexp(1.0, 24); runAll(q, 3, true, rng, 7, 4);
        runTol(p, 4, std::ldexp(1.0, 18), true, 7);
        return;
    }
    if (idx == 7) {   // generic (non-Eigen) model on the hand-written instances
        auto p = tiger(); auto q = awkward();
        runRTBSS(p, 2, true, rng, 1, false, true); runRTBSS(q, 3, true, rng, 1, false, true);
        runAll(p, 2, true, rng, 16, 4); runAll(q, 3, true, rng, 16, 4);
        return;
    }
    if (idx == 8) { auto p = witnessLoop(); runAll(p, 3, true, rng, 7, 4); return; }
    if (idx == 9) {   // fixes/C02-5: the LinearSupport edge-vertex instance with rewards times 2^24: findVerticesNaive finds no vertex at all
        auto p = lsEdgeWitness(); p.R *= std::ldexp(1.0, 24); runAll(p, 2, true, rng, 7, 4);
        P::VList two; AIToolbox::Vector a(2), b(2); a << std::ldexp(135.0, 20), std::ldexp(189.0, 17); b << std::ldexp(-1.0, 21), std::ldexp(69.0, 21);
        two.emplace_back(a, 0, P::VObs()); two.emplace_back(b, 1, P::VObs());
        auto q = tables(2, 2, 1, 0.5); emitVerts(q, two);
        return;
    }
    if (idx < kFixed) return;

    // ---- generated instances
    const int style = (int)rng.below(10);         // 0..3 dyadic, 4 state-matched rewards, 5 duplicate action, 6 dominated action, 7 ugly (non-dyadic), 8 ties at a corner, 9 dyadic
    size_t S = (size_t)rng.range(2, 3), A = 2, O = 2;
    if (rng.coin(1, 4)) S = (size_t)rng.range(2, 4);
    if (rng.coin(1, 16)) S = 1;
    if (rng.coin(1, 8)) A = 1; else if (rng.coin(1, 4)) A = 3;
    if (rng.coin(1, 8)) O = 1; else if (rng.coin(1, 4)) O = 3;
    unsigned h = (unsigned)rng.range(1, 3);
    if (A * O >= 9 && h == 3) h = 2;
    if (S >= 4 && A * O >= 6 && h == 3) h = 2;
    if (thorough && rng.coin(1, 10) && A * O <= 4) h = (S <= 2 && rng.coin()) ? 5 : 4;
    PomdpTables pt = randomPomdp(rng, S, A, O, 3);
    bool dyadic = true;
    if (style == 4) {   // action a pays in state a: several vectors survive, different actions optimal in different regions
        for (size_t s = 0; s < S; ++s) for (size_t a = 0; a < A; ++a) pt.R(s, a) = (s % A == a) ? 4.0 + 0.25 * (double)rng.range(0, 8) : -0.25 * (double)rng.range(0, 16);
        std::printf("#stat shape:state_matched_rewards 1\n");
    }
    if (style == 8 && A >= 2) {   // exact ties: all actions pay the same in state 0, and two actions the same in the last state
        for (size_t a = 1; a < A; ++a) pt.R(0, a) = pt.R(0, 0);
        pt.R(S - 1, A - 1) = pt.R(S - 1, 0);
        std::printf("#stat shape:corner_ties 1\n");
    }
    if (style == 5 && A >= 2) { pt.T[A - 1] = pt.T[0]; pt.Ob[A - 1] = pt.Ob[0]; pt.R.col(A - 1) = pt.R.col(0); std::printf("#stat shape:duplicate_action 1\n"); }
    if (style == 6 && A >= 2) { pt.T[A - 1] = pt.T[0]; pt.Ob[A - 1] = pt.Ob[0]; pt.R.col(A - 1) = pt.R.col(0).array() - 0.5; std::printf("#stat shape:dominated_action 1\n"); }
    if (style == 7) {
        // non-dyadic rewards and discount; the probability tables stay dyadic so that rows sum to exactly 1
        dyadic = false; pt.discount = rng.coin() ? 0.9 : 0.95;
        for (size_t s = 0; s < S; ++s) for (size_t a = 0; a < A; ++a) pt.R(s, a) = pt.R(s, a) / 3.0 + 0.1;
        std::printf("#stat shape:ugly 1\n");
    }
    std::printf("#stat S:%zu 1\n#stat A:%zu 1\n#stat O:%zu 1\n#stat h:%u 1\n", S, A, O, h);
    const bool sparse = rng.coin(1, 3);
    runAll(pt, h, dyadic, rng, 7 | (sparse ? 8 : 0), thorough ? 12 : 6);
    runRTBSS(pt, h, dyadic, rng, 2, sparse);

    // ---- round 3: a second run per case in a regime the stream above never reaches (all draws AFTER the original ones, so the
    // original instance stream is unchanged)
    const int extra = (int)rng.below(8);
    const int nr = thorough ? 8 : 4;
    switch (extra) {
    case 0: {   // horizon 0
        std::printf("#stat extra:horizon0 1\n");
        runRTBSS(pt, 0, dyadic, rng, 1, true, true); runAll(pt, 0, dyadic, rng, rng.coin() ? 31 : 15, 2);
        break; }
    case 1: {   // large magnitudes: rewards times 2^17 .. 2^24 (mixed signs stay mixed)
        const int k = (int)rng.range(17, 24);
        PomdpTables big = pt; big.R *= std::ldexp(1.0, k);
        std::printf("#stat extra:scale_2^%d 1\n", k);
        const int w = 7 | (rng.coin(1, 4) ? 8 : 0) | (rng.coin(1, 8) ? 16 : 0);
        runRTBSS(big, h, dyadic, rng, 1, false); runAll(big, h, dyadic, rng, w, nr);
        break; }
    case 2: case 7: {   // tolerance (case 7: on the scaled instance, tolerance scaled too)
        static const double tols[] = {0.0, 5e-7, 1e-6, 0.0625, 0.5, 1.0, 3.0, 16.0, 1e6};
        double tol = tols[rng.below(9)];
        PomdpTables q = pt;
        if (extra == 7) { const int k = (int)rng.range(17, 22); q.R *= std::ldexp(1.0, k); if (tol > 1e-6) tol = std::ldexp(tol, k); std::printf("#stat extra:tolerance_scaled 1\n"); }
        else std::printf("#stat extra:tolerance 1\n");
        unsigned h2 = (tol > 1e-6) ? (unsigned)rng.range(2, A * O <= 4 ? 5 : 3) : h;
        if (S >= 4 && h2 > 3) h2 = 3;
        runTol(q, h2, tol, dyadic, 7 | (rng.coin(1, 3) ? 8 : 0) | (rng.coin(1, 6) ? 16 : 0));
        break; }
    case 3: {   // generic (non-Eigen) model
        std::printf("#stat extra:generic 1\n");
        runRTBSS(pt, h, dyadic, rng, 1, false, true); runAll(pt, h, dyadic, rng, 16, nr);
        break; }
    case 4: {   // many observations (merge schedule with O = 4, 5, 6; Witness variations over many slots), few vectors
        const size_t O2 = (size_t)rng.range(4, 6), A2 = (size_t)rng.range(1, 2), S2 = (size_t)rng.range(2, 3);
        PomdpTables w = randomPomdp(rng, S2, A2, O2, 3);
        const unsigned h2 = (O2 == 6 || A2 == 2) ? (unsigned)rng.range(1, 2) : 2;
        std::printf("#stat extra:wide_O%zu 1\n", O2);
        runAll(w, h2, true, rng, 7 | (rng.coin(1, 3) ? 8 : 0), nr); runRTBSS(w, h2, true, rng, 1, false);
        break; }
    case 5: {   // lopsided shapes: one of S, A, O equal to 1 while the others are not
        static const size_t shapes[][3] = {{1, 3, 3}, {4, 1, 3}, {3, 3, 1}, {1, 1, 1}, {2, 1, 1}, {1, 2, 4}, {1, 1, 3}, {4, 3, 1}, {3, 1, 4}};
        const auto & sh = shapes[rng.below(9)];
        PomdpTables w = randomPomdp(rng, sh[0], sh[1], sh[2], 3);
        const unsigned h2 = (unsigned)rng.range(1, 3);
        std::printf("#stat extra:shape_S%zuA%zuO%zu 1\n", sh[0], sh[1], sh[2]);
        const int wh = 7 | (rng.coin() ? 8 : 0) | (rng.coin(1, 8) ? 16 : 0);
        runRTBSS(w, h2, true, rng, 1, true); runAll(w, h2, true, rng, wh, nr);
        break; }
    default: {  // information gathering: each action pays in "its" state, observations are noisy: many useful vectors per action
                // (Witness' LP row reservation doubles, LinearSupport's agenda is long, pruning has much to do)
        const size_t S2 = (size_t)rng.range(2, 3), A2 = S2, O2 = (size_t)rng.range(2, 3);
        PomdpTables w = randomPomdp(rng, S2, A2, O2, 3);
        for (size_t a = 0; a < A2; ++a) for (size_t s = 0; s < S2; ++s) {
            w.T[a].row(s).setZero(); w.T[a](s, s) = 1.0;                                     // the state never changes
            for (size_t o = 0; o < O2; ++o) w.Ob[a](s, o) = (O2 == 2) ? ((o == s % 2) ? 0.75 : 0.25) : ((o == s % 3) ? 0.5 : 0.25);   // noisy state read-out, dyadic rows
            w.R(s, a) = (s == a) ? 8.0 : -8.0 - 0.25 * (double)rng.range(0, 8);
        }
        const bool dy = O2 == 2;
        std::printf("#stat extra:info_gathering 1\n");
        runAll(w, 3, dy, rng, 7, nr);
        break; }
    }
}

VERIF_MAIN
