// C20 correspondence harness: rule indexes (Trie, FasterTrie, FilterMap/IndexMap).
// Every factor-space shape with 2..3 factors of sizes 1..3 (quick) / 2..4 factors of sizes 1..4
// (thorough), in every order; seeded random histories of insert / erase(id) / erase(id,key) /
// filter / refine / size / reconstruct with stale ids, never-issued ids, duplicate keys and
// erase-then-reinsert.  One protocol line = one whole history with the library's own answers.
//
// Two suspected out-of-bounds reads (DESIGN §12 #9/#10) would kill every history on the shapes the
// unit tests never use.  They are probed first, each in a forked child (the probe outcome is a
// protocol line of its own, `C20 probe <component> <kind> crash|ok …`); when a probe crashed the bulk
// histories leave out exactly the calls that hit it (counted in `#stat avoided_*`) and exercise
// everything else on those shapes.  When the library is repaired the probes pass and nothing is left out.
#include "common/verif.hpp"
#include <AIToolbox/Factored/Utils/Trie.hpp>
#include <AIToolbox/Factored/Utils/FasterTrie.hpp>
#include <AIToolbox/Factored/Utils/FilterMap.hpp>
#include <AIToolbox/Factored/Utils/Core.hpp>
#include <AIToolbox/Seeder.hpp>
#include <algorithm>
#include <set>
#include <optional>
#include <array>
#include <utility>
#include <AIToolbox/Utils/IndexMap.hpp>
#include <sys/wait.h>
#include <unistd.h>
#include <fcntl.h>

using namespace verif;
namespace F = AIToolbox::Factored;
using PF = F::PartialFactors;

static std::vector<F::Factors> g_spaces;
static bool g_sizeCrashes = false, g_allIdsCrashes = false, g_eraseTailCrashes = false;
static std::vector<std::string> g_probeLines;

static void build_spaces(int minF, int maxF, int maxSize) {
    g_spaces.clear();
    for (int n = minF; n <= maxF; ++n) {
        F::Factors sp(n, 1);
        while (true) {
            g_spaces.push_back(sp);
            int i = 0;
            while (i < n) { if (++sp[i] <= (size_t)maxSize) break; sp[i] = 1; ++i; }
            if (i == n) break;
        }
    }
}

// ---------------------------------------------------------------- probes (forked)
struct POp { std::string op; size_t id = 0; PF pf; };

static void pfTok(Line & l, const PF & pf) { l.nats(pf.first); l.nats(pf.second); }

// runs the ops in a child; returns true if the child died (sanitizer report, signal)
static bool probe(const std::string & comp, const std::string & kind, const F::Factors & sp, const std::vector<POp> & ops) {
    std::fflush(stdout); std::fflush(stderr);
    pid_t pid = fork();
    if (pid == 0) {
        int dn = open("/dev/null", O_WRONLY);
        if (dn >= 0) { dup2(dn, 2); dup2(dn, 1); }
        volatile size_t sink = 0;
        F::Trie t(sp);
        for (auto & o : ops) {
            if (o.op == "ins") sink += t.insert(o.pf);
            else if (o.op == "era") t.erase(o.id);
            else if (o.op == "erp") t.erase(o.id, o.pf);
            else if (o.op == "siz") sink += t.size();
            else if (o.op == "all") sink += t.filter(PF{}).size();
        }
        (void)sink;
        _exit(0);
    }
    int st = 0;
    bool crashed = true;
    if (pid > 0 && waitpid(pid, &st, 0) == pid) crashed = !(WIFEXITED(st) && WEXITSTATUS(st) == 0);
    Line l; l << "C20" << "probe" << comp << kind << (crashed ? "crash" : "ok"); l.nats(sp);
    for (auto & o : ops) {
        l << o.op;
        if (o.op == "ins") pfTok(l, o.pf);
        else if (o.op == "era") l << o.id;
        else if (o.op == "erp") { l << o.id; pfTok(l, o.pf); }
    }
    l << "end";
    g_probeLines.push_back(l.os.str());
    return crashed;
}

// FasterTrie with an empty key (a partial assignment naming no factor; Trie stores it): run in a forked child.
// `C20 fprobe <component> <kind> crash|ok|<exception> <F> <what>`
static bool g_ftEmptyCrashes = false;
static bool fprobe(const std::string & comp, const std::string & what) {
    std::fflush(stdout); std::fflush(stderr);
    int fds[2]; if (pipe(fds) != 0) return true;
    pid_t pid = fork();
    if (pid == 0) {
        int dn = open("/dev/null", O_WRONLY);
        if (dn >= 0) { dup2(dn, 2); dup2(dn, 1); }
        close(fds[0]);
        std::string out = "ok";
        try {
            if (what == "insert") { F::FasterTrie t(F::Factors{2, 2}); t.insert(PF{}); }
            else if (what == "erase") { F::FasterTrie t(F::Factors{2, 2}); t.insert(PF{{0}, {1}}); t.erase(0, PF{}); }
            else { F::FilterMap<size_t> fm(F::Factors{2, 2}); fm.emplace(PF{}, (size_t)7); }
        } catch (const std::exception & e) { out = errClass(e); }
        if (write(fds[1], out.c_str(), out.size()) < 0) _exit(3);
        _exit(0);
    }
    close(fds[1]);
    char buf[128]; ssize_t n = read(fds[0], buf, sizeof buf - 1); close(fds[0]);
    int st = 0; bool crashed = true;
    if (pid > 0 && waitpid(pid, &st, 0) == pid) crashed = !(WIFEXITED(st) && WEXITSTATUS(st) == 0);
    std::string out = crashed || n <= 0 ? "crash" : std::string(buf, (size_t)n);
    Line l; l << "C20" << "fprobe" << comp << "empty_key_read" << out; l.nats(F::Factors{2, 2}); l << what;
    g_probeLines.push_back(l.os.str());
    return out == "crash";
}

static void run_probes() {
    { bool a = fprobe("FasterTrie::insert", "insert"), b = fprobe("FasterTrie::erase", "erase"), c = fprobe("FilterMap<FasterTrie>::emplace", "emplace");
      g_ftEmptyCrashes = a || b || c; }
    PF k01{{0}, {1}}, k00{{0}, {0}};
    // #9: first factor is not the smallest: size() / getAllIds() index the smaller factor's lists with the first factor's count
    g_sizeCrashes = probe("Trie::size", "oob_read", {3, 2}, {{"ins", 0, k01}, {"siz"}});
    g_allIdsCrashes = probe("Trie::getAllIds", "oob_read", {3, 2}, {{"ins", 0, k01}, {"all"}});
    // #10: erase(id, key) of an id that is not stored (never issued / already erased): tail loop reads *end
    bool a = probe("Trie::erase(id,pf)", "end_deref", {2, 2}, {{"ins", 0, k00}, {"erp", 1, k00}});
    bool b = probe("Trie::erase(id,pf)", "end_deref", {2, 2}, {{"ins", 0, k00}, {"ins", 0, k01}, {"erp", 1, k01}, {"erp", 1, k01}});
    g_eraseTailCrashes = a || b;
}

// ---------------------------------------------------------------- generators
static PF randomPF(Rng & rng, const F::Factors & sp, bool allowEmpty) {
    PF pf;
    unsigned mode = (unsigned)rng.below(8);   // 0: full, 1: single key, else: each key w.p. 1/2
    if (mode == 1) {
        size_t k = rng.below(sp.size());
        pf.first.push_back(k); pf.second.push_back(rng.below(sp[k]));
        return pf;
    }
    for (size_t k = 0; k < sp.size(); ++k)
        if (mode == 0 || rng.coin()) { pf.first.push_back(k); pf.second.push_back(rng.below(sp[k])); }
    if (pf.first.empty() && !allowEmpty) {
        size_t k = rng.below(sp.size());
        pf.first.push_back(k); pf.second.push_back(rng.below(sp[k]));
    }
    return pf;
}

// the same pairs in a random order (filter / refine take the pairs one by one: order must not matter)
static PF shuffledPF(Rng & rng, PF pf) {
    for (size_t i = pf.first.size(); i > 1; --i) {
        size_t j = rng.below(i);
        std::swap(pf.first[i - 1], pf.first[j]); std::swap(pf.second[i - 1], pf.second[j]);
    }
    return pf;
}
static PF concatPF(const PF & a, const PF & b) {
    PF r = a;
    r.first.insert(r.first.end(), b.first.begin(), b.first.end());
    r.second.insert(r.second.end(), b.second.begin(), b.second.end());
    return r;
}
static void statKey(const char * what, const PF & pf, const F::Factors & sp) {
    bool prefix = true;
    for (size_t i = 0; i < pf.first.size(); ++i) prefix = prefix && pf.first[i] == i;
    std::printf("#stat %s_%s 1\n", what, pf.first.empty() ? "empty" : pf.first.size() == sp.size() ? "full" : pf.first.size() == 1 ? "single" : prefix ? "prefix" : "non_prefix");
}

struct Issued { size_t id; PF pf; bool live; };

static bool firstIsSmallest(const F::Factors & sp) {
    return sp[0] == *std::min_element(sp.begin(), sp.end());
}

static PF pickKey(Rng & rng, const F::Factors & sp, const std::vector<Issued> & issued, bool allowEmpty) {
    // duplicates / erase-then-reinsert: reuse a key seen before (live or erased) a quarter of the time
    if (!issued.empty() && rng.coin(1, 4)) {
        const auto & e = issued[rng.below(issued.size())];
        if (allowEmpty || !e.pf.first.empty()) { std::printf("#stat reused_key 1\n"); return e.pf; }
    }
    return randomPF(rng, sp, allowEmpty);
}

// choose an id to erase: live, stale, or never issued; returns index into issued or -1 (never issued)
static long pickVictim(Rng & rng, const std::vector<Issued> & issued, int & kind) {
    std::vector<long> live, stale;
    for (size_t i = 0; i < issued.size(); ++i) (issued[i].live ? live : stale).push_back((long)i);
    unsigned r = (unsigned)rng.below(20);
    if (r < 12 && !live.empty()) { kind = 0; return live[rng.below(live.size())]; }
    if (r < 17 && !stale.empty()) { kind = 1; return stale[rng.below(stale.size())]; }
    if (r < 19 || live.empty()) { kind = 2; return -1; }
    kind = 0; return live[rng.below(live.size())];
}

static void trie_case(Rng & rng, const F::Factors & sp, int maxOps) {
    F::Trie t(sp);
    std::vector<Issued> issued;
    size_t next = 0;
    const bool risky = !firstIsSmallest(sp);
    Line l; l << "C20" << "trie"; l.nats(sp);
    int nops = (int)rng.range(8, maxOps);
    bool heavyErase = rng.coin(1, 3);
    for (int o = 0; o < nops; ++o) {
        unsigned r = (unsigned)rng.below(114);
        if (o >= 3 && r >= 100) {
            if (r < 105) {
                // refine chain: refine(filter(q1), q2) must be filter(q1 ++ q2)
                PF q1 = randomPF(rng, sp, false), q2 = randomPF(rng, sp, true);
                auto ids1 = t.filter(q1);
                auto res = t.refine(ids1, q2);
                l << "rfc"; pfTok(l, q1); pfTok(l, q2); l.nats(ids1); l.nats(res);
                std::printf("#stat refine_chain_%s 1\n", res.empty() ? "empty" : "nonempty");
            } else if (r < 109) {
                // two refinements of an arbitrary ascending id list vs one refinement by the joined (unsorted, possibly repeated) key
                std::vector<size_t> ids;
                for (size_t i = 0; i < next + 2; ++i) if (rng.coin(3, 4)) ids.push_back(i);
                PF q1 = randomPF(rng, sp, false), q2 = randomPF(rng, sp, false);
                auto r1 = t.refine(ids, q1);
                auto r2 = t.refine(r1, q2);
                auto r12 = t.refine(ids, concatPF(q1, q2));
                l << "rr"; l.nats(ids); pfTok(l, q1); pfTok(l, q2); l.nats(r1); l.nats(r2); l.nats(r12);
                std::printf("#stat refine_refine_%s 1\n", r2.empty() ? "empty" : "nonempty");
            } else if (r < 111) {
                t.reserve((size_t)rng.below(64)); l << "rsv";
                std::printf("#stat trie_reserve 1\n");
            } else {
                // continue the history on a copy of the trie (copy-construct, then move back)
                F::Trie c(t); t = std::move(c); l << "cpy";
                std::printf("#stat trie_copy 1\n");
            }
            continue;
        }
        if (o < 3 || r < 32) {
            PF pf = pickKey(rng, sp, issued, true);
            size_t id = t.insert(pf);
            l << "ins"; pfTok(l, pf); l << id;
            issued.push_back({id, pf, true}); next = std::max(next, id + 1);
            statKey("insert_key", pf, sp);
        } else if (r < (heavyErase ? 50u : 40u)) {
            int kind; long v = pickVictim(rng, issued, kind);
            size_t id = v >= 0 ? issued[v].id : next + rng.below(3);
            t.erase(id);
            if (v >= 0) issued[v].live = false;
            l << "era" << id;
            std::printf("#stat erase_id_%s 1\n", kind == 0 ? "live" : kind == 1 ? "stale" : "never");
        } else if (r < (heavyErase ? 66u : 48u)) {
            int kind; long v = pickVictim(rng, issued, kind);
            size_t id = v >= 0 ? issued[v].id : next + rng.below(3);
            PF pf = v >= 0 ? issued[v].pf : randomPF(rng, sp, true);
            if (kind != 0 && g_eraseTailCrashes) { std::printf("#stat avoided_erase_key_absent_id 1\n"); continue; }
            t.erase(id, pf);
            if (v >= 0) issued[v].live = false;
            l << "erp" << id; pfTok(l, pf);
            std::printf("#stat erase_key_%s 1\n", kind == 0 ? "live" : kind == 1 ? "stale" : "never");
        } else if (r < 70) {
            PF q = randomPF(rng, sp, true);
            if (q.first.empty() && risky && g_allIdsCrashes) { std::printf("#stat avoided_allids 1\n"); continue; }
            statKey("query_key", q, sp);
            if (q.first.size() >= 2 && rng.coin(1, 3)) { q = shuffledPF(rng, q); std::printf("#stat query_keys_shuffled 1\n"); }
            auto res = t.filter(q);
            l << "flt"; pfTok(l, q); l.nats(res);
            std::printf("#stat filter_%s 1\n", res.empty() ? "empty" : "nonempty");
        } else if (r < 80) {
            size_t off = rng.below(sp.size());
            size_t len = rng.below(sp.size() - off + 1);
            F::Factors f(len);
            for (size_t i = 0; i < len; ++i) f[i] = rng.below(sp[off + i]);
            if (len == 0 && risky && g_allIdsCrashes) { std::printf("#stat avoided_allids 1\n"); continue; }
            auto res = t.filter(f, off);
            l << "flf"; l.nats(f) << off; l.nats(res);
        } else if (r < 91) {
            // ids: ascending subset of [0, next+2): live, stale and never-issued ids mixed
            std::vector<size_t> ids;
            unsigned dens = 1 + (unsigned)rng.below(3);
            for (size_t i = 0; i < next + 2; ++i) if (rng.coin(dens, 4)) ids.push_back(i);
            PF q = randomPF(rng, sp, true);
            if (q.first.size() >= 2 && rng.coin(1, 3)) { q = shuffledPF(rng, q); std::printf("#stat refine_keys_shuffled 1\n"); }
            auto res = t.refine(ids, q);
            l << "ref"; l.nats(ids); pfTok(l, q); l.nats(res);
        } else {
            if (risky && g_sizeCrashes) { std::printf("#stat avoided_size 1\n"); continue; }
            l << "siz" << t.size();
        }
    }
    // always end with the full picture: per-factor single-key queries and (when possible) size
    for (size_t k = 0; k < sp.size(); ++k) {
        PF q{{k}, {rng.below(sp[k])}};
        auto res = t.filter(q);
        l << "flt"; pfTok(l, q); l.nats(res);
    }
    if (!(risky && g_sizeCrashes)) l << "siz" << t.size();
    if (!(risky && g_allIdsCrashes)) { auto res = t.filter(PF{}); l << "flt"; pfTok(l, PF{}); l.nats(res); }
    l << "gf"; l.nats(t.getF()); l.nats(t.getFactors());
    l << "end"; l.emit();
    std::printf("#stat trie_shape_%s 1\n", risky ? "first_not_smallest" : "first_smallest");
    std::printf("#stat trie_nfactors_%zu 1\n", sp.size());
    std::printf("#stat trie_has_size1_factor_%d 1\n", (int)(std::find(sp.begin(), sp.end(), (size_t)1) != sp.end()));
}

static void ftrie_case(Rng & rng, const F::Factors & sp, int maxOps) {
    F::FasterTrie t(sp);
    std::vector<Issued> issued;
    size_t next = 0;
    Line l; l << "C20" << "ftrie"; l.nats(sp);
    int nops = (int)rng.range(8, maxOps);
    for (int o = 0; o < nops; ++o) {
        unsigned r = (unsigned)rng.below(106);
        if (o >= 3 && r >= 100 && rng.coin(1, 4)) {
            // an empty key: rejected (or a no-op for erase) once FasterTrie guards it; left out while the probe shows it crashes
            if (g_ftEmptyCrashes) { std::printf("#stat avoided_ftrie_empty_key 1\n"); continue; }
            if (rng.coin()) {
                std::string out = "ok"; size_t id = 0;
                try { id = t.insert(PF{}); } catch (const std::exception & e) { out = errClass(e); }
                l << "ine" << out << id;
                if (out == "ok") { issued.push_back({id, PF{}, true}); next = std::max(next, id + 1); }
            } else {
                size_t id = next ? rng.below(next) : 0;
                std::string out = "ok";
                try { t.erase(id, PF{}); } catch (const std::exception & e) { out = errClass(e); }
                l << "ere" << id << out;
            }
            std::printf("#stat ftrie_empty_key_op 1\n");
            continue;
        }
        if (o >= 3 && r >= 100) {
            if (r < 102) {
                F::FasterTrie c(t); t = std::move(c); l << "cpy";
                std::printf("#stat ftrie_copy 1\n");
            } else {
                // the same query reconstructed several times in a row (remove = false): each outcome must satisfy the clauses;
                // the shuffles differ from call to call
                PF q = randomPF(rng, sp, true);
                std::set<std::vector<size_t>> outcomes;
                for (int k = 0; k < 4; ++k) {
                    auto [entries, f] = t.reconstruct(q, false);
                    l << "rec"; pfTok(l, q); l << false << (size_t)entries.size();
                    std::vector<size_t> ids;
                    for (auto & e : entries) { l << e.first; pfTok(l, e.second); ids.push_back(e.first); }
                    l.nats(f);
                    std::sort(ids.begin(), ids.end()); outcomes.insert(ids);
                }
                std::printf("#stat reconstruct_burst_distinct_outcomes_%zu 1\n", outcomes.size());
            }
            continue;
        }
        if (o < 3 || r < 35) {
            PF pf = pickKey(rng, sp, issued, false);
            size_t id = t.insert(pf);
            l << "ins"; pfTok(l, pf); l << id;
            issued.push_back({id, pf, true}); next = std::max(next, id + 1);
        } else if (r < 50) {
            int kind; long v = pickVictim(rng, issued, kind);
            size_t id = v >= 0 ? issued[v].id : next + rng.below(3);
            PF pf = v >= 0 ? issued[v].pf : randomPF(rng, sp, false);
            t.erase(id, pf);
            if (v >= 0) issued[v].live = false;
            l << "erp" << id; pfTok(l, pf);
        } else if (r < 72) {
            size_t len = rng.coin(1, 2) ? sp.size() : rng.below(sp.size() + 1);
            F::Factors f(len);
            for (size_t i = 0; i < len; ++i) f[i] = rng.below(sp[i]);
            auto res = t.filter(f);
            l << "flf"; l.nats(f); l.nats(res);
        } else if (r < 80) {
            l << "siz" << t.size();
        } else {
            PF q = randomPF(rng, sp, true);
            bool remove = rng.coin(1, 3);
            auto [entries, f] = t.reconstruct(q, remove);
            l << "rec"; pfTok(l, q); l << remove << (size_t)entries.size();
            for (auto & e : entries) { l << e.first; pfTok(l, e.second); }
            l.nats(f);
            if (remove) for (auto & e : entries) for (auto & is : issued) if (is.id == e.first) is.live = false;
            std::printf("#stat reconstruct_%s_%zu 1\n", remove ? "remove" : "keep", std::min<size_t>(entries.size(), 3));
        }
    }
    {
        F::Factors f(sp.size());
        for (size_t i = 0; i < sp.size(); ++i) f[i] = rng.below(sp[i]);
        auto res = t.filter(f);
        l << "flf"; l.nats(f); l.nats(res);
        auto all = t.filter(F::Factors{});
        l << "flf"; l.nats(F::Factors{}); l.nats(all);
        l << "siz" << t.size();
    }
    l << "end"; l.emit();
}

// `sort()` on a FilterMap::filter result (what the repository's tests do before comparing): its own `srt` line
template <class R>
static void emitSorted(R r, const std::vector<size_t> & cont) {
    std::vector<size_t> ids, ids2, vals;
    for (auto it = r.begin(); it != r.end(); ++it) ids.push_back(it.toContainerId());
    r.sort();
    for (auto it = r.begin(); it != r.end(); ++it) { ids2.push_back(it.toContainerId()); vals.push_back(*it); }
    Line l; l << "C20" << "srt"; l.nats(ids); l.nats(cont); l << "|"; l.nats(ids2); l.nats(vals); l.emit();
    std::printf("#stat sort_filter_result 1\n");
}

template <class FM, class R>
static void emitIterable(Line & l, R && r) {
    std::vector<size_t> ids, items;
    for (auto it = r.begin(); it != r.end(); ++it) { ids.push_back(it.toContainerId()); items.push_back(*it); }
    if (ids.size() != r.size()) items.push_back(999999);   // size() and iteration disagree: make it visible
    l.nats(ids); l.nats(items);
}


// ---- IndexMap iterator walk: every way the iterator API offers to reach the k-th entry of a filter result must reach the
// same entry.  `C20 imi <kind> <ids> <container> | fwd post arrow plus sub pluseq rev revpost minus minuseq dist total cmpWrong`
// (each a list of item values; `minus` is dereferenced only when the distance check says it is inside the range).
template <class It>
static void walkIterators(Line & l, It b, It e, long n) {
    std::vector<size_t> fwd, post, arrow, plus, sub, pluseq, rev, revpost, minus, minuseq, dist;
    for (auto it = b; it != e; ++it) { fwd.push_back(*it); arrow.push_back(*(it.operator->())); }
    for (auto it = b; it != e; ) { auto old = it++; post.push_back(*old); }
    for (long k = 0; k < n; ++k) { plus.push_back(*(b + k)); sub.push_back(b[k]); auto it = b; it += k; pluseq.push_back(*it); }
    for (auto it = e; it != b; ) { --it; rev.push_back(*it); }
    std::vector<size_t> oldpos, newpos;   // what post-decrement / pre-decrement RETURN (as distances from begin)
    for (auto it = e; it != b; ) { auto old = it--; oldpos.push_back((size_t)(old - b)); revpost.push_back(*it); }
    for (auto it = e; it != b; ) { auto nw = --it; newpos.push_back((size_t)(nw - b)); }
    for (long k = 1; k <= n; ++k) {
        auto m = e - k; const long d = (long)(e - m);
        dist.push_back((size_t)(d < 0 ? 777777 : d));
        minus.push_back(d == k ? (size_t)*m : (size_t)888888);
        auto it = e; it -= k; minuseq.push_back(*it);
    }
    size_t cmpWrong = 0;
    // the const-qualified member overloads (`operator*() const`, `operator->() const`, `operator[](diff) const`, `toContainerId() const`)
    // are only chosen for a const iterator OBJECT: same entries expected
    { long k = 0; for (auto it = b; it != e; ++it, ++k) {
        const It cit = it; const It cb = b;
        cmpWrong += (*cit != *it) + (*(cit.operator->()) != *it) + (cb[k] != *it) + (cit.toContainerId() != it.toContainerId());
    } }
    // values RETURNED by ++it, it += k, it -= k (the walks above only use their side effect)
    { long k = 0; for (auto it = b; it != e; ) { auto nw = ++it; ++k; cmpWrong += ((long)(nw - b) != k); } }
    for (long k = 0; k <= n; ++k) {
        auto it = b; auto r1 = (it += k); cmpWrong += ((long)(r1 - b) != k);
        auto jt = e; auto r2 = (jt -= k); cmpWrong += ((long)(e - r2) != k);
    }
    for (long i = 0; i <= n; ++i) for (long j = 0; j <= n; ++j) {
        auto x = b + i, y = b + j;
        cmpWrong += ((x < y) != (i < j)) + ((x > y) != (i > j)) + ((x <= y) != (i <= j)) + ((x >= y) != (i >= j)) + ((x == y) != (i == j)) + ((x != y) != (i != j));
        cmpWrong += ((long)(y - x) != j - i);
    }
    l.nats(fwd); l.nats(post); l.nats(arrow); l.nats(plus); l.nats(sub); l.nats(pluseq); l.nats(rev); l.nats(revpost);
    l.nats(minus); l.nats(minuseq); l.nats(dist); l << (size_t)(e - b) << cmpWrong; l.nats(oldpos); l.nats(newpos);
}

template <class R, class C>
static void emitIterWalk(const char * kind, R && r, const C & cont) {
    std::vector<size_t> ids;
    for (auto it = r.begin(); it != r.end(); ++it) ids.push_back(it.toContainerId());
    {
        Line l; l << "C20" << "imi" << kind; l.nats(ids); l.nats(cont); l << "|";
        walkIterators(l, r.begin(), r.end(), (long)ids.size()); l.emit();
    }
    {
        Line l; l << "C20" << "imi" << (std::string(kind) + "_const"); l.nats(ids); l.nats(cont); l << "|";
        walkIterators(l, std::as_const(r).begin(), std::as_const(r).end(), (long)ids.size()); l.emit();
    }
    std::printf("#stat imi_len_%s 1\n", ids.size() == 0 ? "0" : ids.size() == 1 ? "1" : ids.size() <= 4 ? "2_4" : "5plus");
    bool contiguous = true;
    for (size_t i = 1; i < ids.size(); ++i) contiguous = contiguous && ids[i] == ids[i - 1] + 1;
    std::printf("#stat imi_ids_%s 1\n", contiguous ? "contiguous" : "with_gaps");
}

// IndexMap used directly (both constructors) over a vector with arbitrary, possibly repeated and unsorted ids
static void indexmap_case(Rng & rng) {
    const size_t N = (size_t)rng.range(1, 12);
    std::vector<size_t> cont(N);
    for (size_t i = 0; i < N; ++i) cont[i] = 500 + 13 * i + rng.below(7);
    std::vector<size_t> ids((size_t)rng.below(9));
    for (auto & x : ids) x = rng.below(N);
    if (rng.coin()) std::sort(ids.begin(), ids.end());
    AIToolbox::IndexMap<std::vector<size_t>, std::vector<size_t>> own(ids, cont);
    emitIterWalk("own", own, cont);
    AIToolbox::IndexMap<std::vector<size_t>*, std::vector<size_t>> ref(&ids, cont);
    emitIterWalk("ref", ref, cont);
    AIToolbox::IndexMap<std::vector<size_t>, const std::vector<size_t>> cown(ids, cont);
    emitIterWalk("cown", cown, cont);
    if (N >= 3) {   // the initializer_list deduction guide
        AIToolbox::IndexMap il({N - 1, (size_t)0, N - 2, (size_t)0}, cont);
        emitIterWalk("ilist", il, cont);
    }
}


// the rest of FilterMap's interface, common to both trie types: operator[], begin()/end(), getContainer(), getF(), reserve(),
// FilterMap(trie, items) (accepting and rejecting).  Returns true when it emitted an op.
template <class FM>
static bool fmapExtraOp(Rng & rng, Line & l, FM & fm, const F::Factors & sp, size_t nItems) {
    unsigned r = (unsigned)rng.below(7);
    const FM & cfm = fm;
    if (r == 0) {
        if (!nItems) return false;
        size_t id = rng.below(nItems);
        l << "get" << id << (rng.coin() ? fm[id] : cfm[id]);
    } else if (r == 1) {
        std::vector<size_t> a, b;
        if (rng.coin()) for (auto it = fm.begin(); it != fm.end(); ++it) a.push_back(*it);
        else for (auto it = cfm.begin(); it != cfm.end(); ++it) a.push_back(*it);
        b = cfm.getContainer();
        l << "all"; l.nats(a); l.nats(b);
    } else if (r == 2) {
        l << "gf"; l.nats(fm.getF()); l.nats(sp);
    } else if (r == 3) {
        fm.reserve((size_t)rng.below(64)); l << "rsv";
    } else if (r == 4) {
        // rebuild from (trie, new items): the documented way to change the item type; go on with the rebuilt map
        std::vector<size_t> items(nItems);
        for (size_t i = 0; i < nItems; ++i) items[i] = 5000 + 11 * i + rng.below(7);
        std::string out = "ok";
        try { FM fm2(fm.getTrie(), items); fm = std::move(fm2); } catch (const std::exception & e) { out = errClass(e); }
        l << "rbd"; l.nats(items); l << out;
    } else {
        // wrong container size: must be rejected
        size_t n = nItems + 1 + rng.below(3);
        if (nItems && rng.coin()) n = rng.below(nItems);
        std::string out = "ok";
        try { FM fm2(fm.getTrie(), std::vector<size_t>(n, 7)); } catch (const std::exception & e) { out = errClass(e); }
        l << "rbx" << n << out;
    }
    std::printf("#stat filtermap_extra_op_%u 1\n", r);
    return true;
}

static void fmap_trie_case(Rng & rng, const F::Factors & sp, int maxOps) {
    using FM = F::FilterMap<size_t, F::Trie>;
    FM fm(sp);
    const bool risky = !firstIsSmallest(sp);
    std::vector<Issued> issued;
    Line l; l << "C20" << "fmt"; l.nats(sp);
    int nops = (int)rng.range(6, maxOps);
    for (int o = 0; o < nops; ++o) {
        unsigned r = (unsigned)rng.below(125);
        if (o >= 3 && r >= 100) { fmapExtraOp(rng, l, fm, sp, issued.size()); continue; }
        if (o < 3 || r < 45) {
            PF pf = pickKey(rng, sp, issued, true);
            size_t item = 1000 + 7 * issued.size() + rng.below(5);
            fm.emplace(pf, item);
            issued.push_back({issued.size(), pf, true});
            l << "emp"; pfTok(l, pf); l << item;
        } else if (r < 70) {
            PF q = randomPF(rng, sp, true);
            if (q.first.empty() && risky && g_allIdsCrashes) { std::printf("#stat avoided_allids 1\n"); continue; }
            l << "flt"; pfTok(l, q);
            if (rng.coin()) emitIterable<FM>(l, fm.filter(q)); else emitIterable<FM>(l, static_cast<const FM &>(fm).filter(q));
            if (rng.below(3) == 0) {
                std::vector<size_t> cont(fm.begin(), fm.end());
                if (rng.coin()) emitIterWalk("fm", fm.filter(q), cont); else emitIterWalk("cfm", static_cast<const FM &>(fm).filter(q), cont);
            }
        } else if (r < 90) {
            size_t off = rng.below(sp.size());
            size_t len = 1 + rng.below(sp.size() - off);
            F::Factors f(len);
            for (size_t i = 0; i < len; ++i) f[i] = rng.below(sp[off + i]);
            l << "flf"; l.nats(f) << off;
            if (off == 0 && rng.coin()) { if (rng.coin()) emitIterable<FM>(l, fm.filter(f)); else emitIterable<FM>(l, static_cast<const FM &>(fm).filter(f)); }
            else if (rng.coin()) emitIterable<FM>(l, fm.filter(f, off));
            else { emitIterable<FM>(l, static_cast<const FM &>(fm).filter(f, off)); std::printf("#stat fmt_const_offset_filter 1\n"); }
        } else {
            l << "siz" << fm.size();
            if (!(risky && g_sizeCrashes)) l << "siz" << fm.getTrie().size();
        }
    }
    if (!(risky && g_sizeCrashes)) {
        // FilterMap(TrieType, ItemsContainer) compares trie.size() with the container's
        std::string out = "ok";
        try { FM fm2(fm.getTrie(), fm.getContainer()); l << "siz" << fm2.size(); }
        catch (const std::exception & e) { l << "siz" << (size_t)888888; }
    }
    l << "end"; l.emit();
}

static void fmap_ftrie_case(Rng & rng, const F::Factors & sp, int maxOps) {
    using FM = F::FilterMap<size_t, F::FasterTrie>;
    FM fm(sp);
    std::vector<Issued> issued;
    Line l; l << "C20" << "fmf"; l.nats(sp);
    int nops = (int)rng.range(6, maxOps);
    for (int o = 0; o < nops; ++o) {
        unsigned r = (unsigned)rng.below(125);
        if (o >= 3 && r >= 100) { fmapExtraOp(rng, l, fm, sp, issued.size()); continue; }
        if (o < 3 || r < 50) {
            PF pf = pickKey(rng, sp, issued, false);
            size_t item = 1000 + 7 * issued.size() + rng.below(5);
            fm.emplace(pf, item);
            issued.push_back({issued.size(), pf, true});
            l << "emp"; pfTok(l, pf); l << item;
        } else if (r < 90) {
            size_t len = rng.coin() ? sp.size() : rng.below(sp.size() + 1);
            F::Factors f(len);
            for (size_t i = 0; i < len; ++i) f[i] = rng.below(sp[i]);
            l << "flf"; l.nats(f) << (size_t)0;
            if (rng.coin()) emitIterable<FM>(l, fm.filter(f)); else emitIterable<FM>(l, static_cast<const FM &>(fm).filter(f));
            if (rng.coin(1, 3)) emitSorted(fm.filter(f), fm.getContainer());
        } else {
            l << "siz" << fm.size() << "siz" << fm.getTrie().size();
        }
    }
    try { FM fm2(fm.getTrie(), fm.getContainer()); l << "siz" << fm2.size(); }
    catch (const std::exception & e) { l << "siz" << (size_t)888888; }
    l << "end"; l.emit();
}


// FilterMap with a structured item type: emplace forwards 0, 1 or 2 constructor arguments (`Args&&...`); items cross the protocol
// encoded as a * 1000 + b, so the line is an ordinary `fmt` / `fmf` history
template <class It> static size_t it_second(It it) { return it->second; }

template <class TrieT>
static void fmap_pair_case(Rng & rng, const F::Factors & sp) {
    constexpr bool isTrie = std::is_same_v<TrieT, F::Trie>;
    using Item = std::pair<size_t, size_t>;
    using FM = F::FilterMap<Item, TrieT>;
    FM fm(sp);
    auto enc = [](const Item & x) { return x.first * 1000 + x.second; };
    Line l; l << "C20" << (isTrie ? "fmt" : "fmf"); l.nats(sp);
    int nops = (int)rng.range(6, 30);
    size_t n = 0;
    for (int o = 0; o < nops; ++o) {
        unsigned r = (unsigned)rng.below(10);
        if (o < 3 || r < 5) {
            PF pf = randomPF(rng, sp, isTrie);
            size_t a = 1 + rng.below(900), b = rng.below(1000);
            unsigned form = (unsigned)rng.below(3);
            if (form == 0) { fm.emplace(pf, a, b); }
            else if (form == 1) { fm.emplace(pf, Item{a, b}); }
            else { fm.emplace(pf); a = 0; b = 0; }
            l << "emp"; pfTok(l, pf); l << (a * 1000 + b); ++n;
            std::printf("#stat emplace_args_%u 1\n", form == 0 ? 2u : form == 1 ? 1u : 0u);
        } else if (r < 8) {
            size_t len = isTrie ? (size_t)rng.range(1, (long)sp.size()) : (rng.coin() ? sp.size() : rng.below(sp.size() + 1));
            F::Factors f(len);
            for (size_t i = 0; i < len; ++i) f[i] = rng.below(sp[i]);
            std::vector<size_t> ids, items;
            auto res = fm.filter(f);
            for (auto it = res.begin(); it != res.end(); ++it) { ids.push_back(it.toContainerId()); items.push_back(enc(*it)); }
            for (size_t k = 0; k < ids.size(); ++k) if (it_second(res.begin() + (long)k) != items[k] % 1000) items[k] = 999999999;   // operator-> on a struct item
            l << "flf"; l.nats(f) << (size_t)0; l.nats(ids); l.nats(items);
        } else if (r == 8 && n) {
            size_t id = rng.below(n);
            l << "get" << id << enc(fm[id]);
        } else {
            std::vector<size_t> a, b;
            for (auto & x : fm) a.push_back(enc(x));
            for (auto & x : fm.getContainer()) b.push_back(enc(x));
            l << "all"; l.nats(a); l.nats(b);
        }
    }
    l << "siz" << fm.size() << "end"; l.emit();
}

// FilterMap(trie, items) given a trie that has seen erasures: the constructor compares sizes only.  The ids a filter hands out are
// read with toContainerId() (never dereferenced here), so an id outside the container is reported, not executed.
// `C20 fmc trie|ftrie <F> <ops…> | n outcome nq (q ids)*`
template <class TrieT>
static void fmc_case(Rng & rng, const F::Factors & sp, const char * kind) {
    constexpr bool isTrie = std::is_same_v<TrieT, F::Trie>;
    TrieT t(sp);
    std::vector<Issued> issued;
    Line l; l << "C20" << "fmc" << kind; l.nats(sp);
    int nins = (int)rng.range(2, 7);
    for (int i = 0; i < nins; ++i) {
        PF pf = randomPF(rng, sp, false);
        size_t id = t.insert(pf);
        l << "ins"; pfTok(l, pf); l << id;
        issued.push_back({id, pf, true});
    }
    unsigned mode = (unsigned)rng.below(4);   // 0: no erasure, 1: erase the last, 2: erase a middle one, 3: a few
    std::vector<size_t> victims;
    if (mode == 1) victims.push_back(issued.size() - 1);
    else if (mode == 2) victims.push_back(rng.below(issued.size() - 1));
    else if (mode == 3) for (size_t i = 0; i < issued.size(); ++i) if (rng.coin(1, 3)) victims.push_back(i);
    for (size_t v : victims) {
        if (!issued[v].live) continue;
        issued[v].live = false;
        if (isTrie && rng.coin()) { if constexpr (isTrie) t.erase(issued[v].id); l << "era" << issued[v].id; }
        else { t.erase(issued[v].id, issued[v].pf); l << "erp" << issued[v].id; pfTok(l, issued[v].pf); }
    }
    l << "|";
    const size_t n = t.size();
    std::vector<size_t> items(n);
    for (size_t i = 0; i < n; ++i) items[i] = 3000 + i;
    std::string out = "ok";
    std::optional<F::FilterMap<size_t, TrieT>> fm;
    try { fm.emplace(t, items); } catch (const std::exception & e) { out = errClass(e); }
    l << n << out;
    std::vector<F::Factors> qs;
    if (fm) {
        qs.push_back(F::Factors{});
        for (int k = 0; k < 3; ++k) {
            size_t len = isTrie ? (size_t)rng.range(1, (long)sp.size()) : sp.size();
            F::Factors f(len);
            for (size_t i = 0; i < len; ++i) f[i] = rng.below(sp[i]);
            qs.push_back(f);
        }
    }
    l << (size_t)qs.size();
    for (auto & f : qs) {
        std::vector<size_t> ids;
        auto r = fm->filter(f);
        for (auto it = r.begin(); it != r.end(); ++it) ids.push_back(it.toContainerId());
        l.nats(f); l.nats(ids);
    }
    l.emit();
    std::printf("#stat fmc_%s_mode_%u 1\n", kind, mode);
}

// IndexSkipMap: the container without the listed ids.  `C20 ism <kind> <ids> <cont> | visited values size`
template <class M>
static void emitSkipWalk(const char * kind, M && m, const std::vector<size_t> & ids, const std::vector<size_t> & cont, bool constIt) {
    std::vector<size_t> visited, vals;
    // (const iterator objects select the const-qualified `operator*` / `operator->`; a disagreement is made visible in `vals`)
    if (constIt) for (auto it = m.cbegin(); it != m.cend(); ++it) {
        const auto cit = it;
        visited.push_back(it.toContainerId()); vals.push_back(*cit == *it && *(cit.operator->()) == *it ? (size_t)*it : (size_t)999999999);
    }
    else for (auto it = m.begin(); it != m.end(); ++it) {
        const auto cit = it;
        visited.push_back(it.toContainerId()); vals.push_back(*cit == *it ? (size_t)*(it.operator->()) : (size_t)999999999);
    }
    Line l; l << "C20" << "ism" << (std::string(kind) + (constIt ? "_c" : "")); l.nats(ids); l.nats(cont); l << "|";
    l.nats(visited); l.nats(vals); l << (size_t)m.size(); l.emit();
    std::printf("#stat ism_size_call_%s 1\n", m.size() == visited.size() ? "equals_range" : m.size() == ids.size() ? "equals_skip_count" : "other");
}
static void skipmap_case(Rng & rng) {
    const size_t N = (size_t)rng.range(0, 12);
    std::vector<size_t> cont(N);
    for (size_t i = 0; i < N; ++i) cont[i] = 700 + 13 * i + rng.below(7);
    std::vector<size_t> ids;
    unsigned mode = (unsigned)rng.below(8);   // 0..4 ascending subset, 5: ascending with ids beyond the container, 6: unsorted, 7: repeated
    for (size_t i = 0; i < N + (mode == 5 ? 3 : 0); ++i) if (rng.coin(1 + (unsigned)rng.below(3), 4)) ids.push_back(i);
    if (mode == 6 && ids.size() >= 2) std::swap(ids[0], ids[ids.size() - 1]);
    if (mode == 7 && !ids.empty()) ids.insert(ids.begin() + (long)rng.below(ids.size()), ids[rng.below(ids.size())]);
    std::printf("#stat ism_ids_%s 1\n", mode <= 4 ? "ascending" : mode == 5 ? "ascending_beyond_container" : mode == 6 ? "unsorted" : "repeated");
    std::printf("#stat ism_skips_%s 1\n", ids.empty() ? "none" : ids.size() >= N ? "all_or_more" : "some");
    const bool c = rng.coin();
    { AIToolbox::IndexSkipMap<std::vector<size_t>, std::vector<size_t>> m(ids, cont); emitSkipWalk("own", m, ids, cont, c); }
    { AIToolbox::IndexSkipMap<std::vector<size_t>*, std::vector<size_t>> m(&ids, cont); emitSkipWalk("ref", m, ids, cont, !c); }
    { AIToolbox::IndexSkipMap<std::vector<size_t>*, const std::vector<size_t>> m(&ids, cont); emitSkipWalk("cref", m, ids, cont, c); }
    if (N >= 3) { AIToolbox::IndexSkipMap m({(size_t)0, N - 2}, cont); emitSkipWalk("ilist", m, std::vector<size_t>{0, N - 2}, cont, c); }
    if (N >= 1) {
        // the library's own use (Polytope.hpp findVerticesNaive): a one-element std::array by pointer over a const range, re-pointed per iteration
        std::array<size_t, 1> one;
        const std::vector<size_t> & ccont = cont;
        for (size_t i = 0; i < N; i += 1 + rng.below(3)) {
            one[0] = i;
            AIToolbox::IndexSkipMap m(&one, ccont);
            emitSkipWalk("array1", m, std::vector<size_t>{i}, cont, true);
        }
    }
}

// IndexMap::sort(): `C20 srt <ids> <cont> | ids' values'`
static void sort_case(Rng & rng) {
    const size_t N = (size_t)rng.range(1, 12);
    std::vector<size_t> cont(N);
    const bool ties = rng.coin();
    for (size_t i = 0; i < N; ++i) cont[i] = ties ? 900 + rng.below(4) : 900 + rng.below(1000);
    std::vector<size_t> ids((size_t)rng.below(10));
    for (auto & x : ids) x = rng.below(N);
    AIToolbox::IndexMap<std::vector<size_t>, std::vector<size_t>> m(ids, cont);
    m.sort();
    std::vector<size_t> ids2, vals;
    for (auto it = m.begin(); it != m.end(); ++it) { ids2.push_back(it.toContainerId()); vals.push_back(*it); }
    Line l; l << "C20" << "srt"; l.nats(ids); l.nats(cont); l << "|"; l.nats(ids2); l.nats(vals); l.emit();
    std::printf("#stat sort_%s_len_%s 1\n", ties ? "ties" : "distinct", ids.size() < 2 ? "0_1" : ids.size() < 5 ? "2_4" : "5plus");
}

// the library's own `match` (Core.cpp): the notion of "compatible" the callers of the indexes use.  `C20 mat <a> <b> <f> | …`
static void match_case(Rng & rng) {
    F::Factors sp((size_t)rng.range(2, 7));
    for (auto & d : sp) d = (size_t)rng.range(1, 3);
    PF a = randomPF(rng, sp, true), b = rng.coin(1, 4) ? a : randomPF(rng, sp, true);
    if (!b.first.empty() && rng.coin(1, 4)) b.second[rng.below(b.second.size())] = rng.below(3);   // near miss
    F::Factors f(sp.size());
    for (size_t i = 0; i < sp.size(); ++i) f[i] = rng.below(sp[i]);
    Line l; l << "C20" << "mat"; pfTok(l, a); pfTok(l, b); l.nats(f); l << "|";
    l << F::match(a, b) << F::match(b, a) << F::match(f, a) << F::match(f, b); l.emit();
    std::printf("#stat match_%s 1\n", F::match(a, b) ? "compatible" : "conflict");
    std::printf("#stat match_sizes_%s 1\n", a.first.size() == b.first.size() ? "equal" : a.first.size() > b.first.size() ? "first_longer" : "second_longer");
}

// `merge(pf, pf)` of Core.cpp: how callers combine compatible keys (what reconstruct's returned Factors amount to).  `C20 mrg <a> <b> | <merged>`
static void merge_case(Rng & rng) {
    F::Factors sp((size_t)rng.range(2, 7));
    for (auto & d : sp) d = (size_t)rng.range(1, 3);
    PF a = randomPF(rng, sp, true), b = randomPF(rng, sp, true);
    if (rng.coin(2, 3)) for (size_t i = 0; i < b.first.size(); ++i)       // make them compatible most of the time
        for (size_t j = 0; j < a.first.size(); ++j) if (a.first[j] == b.first[i]) b.second[i] = a.second[j];
    PF m = F::merge(a, b);
    Line l; l << "C20" << "mrg"; pfTok(l, a); pfTok(l, b); l << "|"; pfTok(l, m); l.emit();
    std::printf("#stat merge_%s 1\n", F::match(a, b) ? "compatible" : "conflict");
}

static void ctor_case() {
    for (const F::Factors & sp : {F::Factors{}, F::Factors{3}, F::Factors{2, 2}}) {
        std::string out = "ok";
        try { F::Trie t(sp); } catch (const std::exception & e) { out = errClass(e); }
        Line l; l << "C20" << "ctor"; l.nats(sp) << "|" << out; l.emit();
    }
}

// ---------------------------------------------------------------- fixed regression histories
static void fixed_cases() {
    // the unit-test shape with erasures and a stale id, then the shape the tests never use ({3,2})
    // restricted to the calls that do not hit the probed reads
    for (const F::Factors & sp : {F::Factors{2, 3}, F::Factors{3, 2}, F::Factors{1, 1}, F::Factors{3, 1, 2}}) {
        const bool risky = !firstIsSmallest(sp);
        F::Trie t(sp);
        Line l; l << "C20" << "trie"; l.nats(sp);
        std::vector<PF> keys = {PF{{0}, {0}}, PF{{1}, {0}}, PF{{0, 1}, {0, 0}}, PF{}, PF{{0}, {0}}};
        for (auto & k : keys) { size_t id = t.insert(k); l << "ins"; pfTok(l, k); l << id; }
        auto q = PF{{0}, {0}};
        { auto r = t.filter(q); l << "flt"; pfTok(l, q); l.nats(r); }
        t.erase(2); l << "era" << (size_t)2;
        t.erase(0, keys[0]); l << "erp" << (size_t)0; pfTok(l, keys[0]);
        { auto r = t.filter(q); l << "flt"; pfTok(l, q); l.nats(r); }
        t.erase(2); l << "era" << (size_t)2;      // stale
        { size_t id = t.insert(keys[2]); l << "ins"; pfTok(l, keys[2]); l << id; }   // erase-then-reinsert
        { auto r = t.filter(F::Factors{0, 0}, 0); l << "flf"; l.nats(F::Factors{0, 0}) << (size_t)0; l.nats(r); }
        { std::vector<size_t> ids{0, 1, 2, 3, 4, 5, 6}; auto r = t.refine(ids, PF{{1}, {0}}); l << "ref"; l.nats(ids); pfTok(l, PF{{1}, {0}}); l.nats(r); }
        if (!(risky && g_sizeCrashes)) l << "siz" << t.size();
        if (!(risky && g_allIdsCrashes)) { auto r = t.filter(PF{}); l << "flt"; pfTok(l, PF{}); l.nats(r); }
        l << "end"; l.emit();
    }
}

// C20-4: a trie with an erased entry below its highest id and a container of the documented size
static void fmc_fixed() {
    F::Trie t(F::Factors{2, 2});
    PF k{{0}, {1}};
    t.insert(k); t.insert(k); t.erase(0);
    Line l; l << "C20" << "fmc" << "trie"; l.nats(F::Factors{2, 2});
    l << "ins"; pfTok(l, k); l << (size_t)0; l << "ins"; pfTok(l, k); l << (size_t)1; l << "era" << (size_t)0; l << "|";
    std::string out = "ok";
    std::vector<size_t> ids;
    try {
        F::FilterMap<size_t, F::Trie> fm(t, std::vector<size_t>{42});
        auto r = fm.filter(F::Factors{1});
        for (auto it = r.begin(); it != r.end(); ++it) ids.push_back(it.toContainerId());   // not dereferenced
    } catch (const std::exception & e) { out = errClass(e); }
    l << t.size() << out;
    if (out == "ok") { l << (size_t)1; l.nats(F::Factors{1}); l.nats(ids); } else l << (size_t)0;
    l.emit();
}

static int g_perShape = 0, g_random = 0;
static const int kFixed = 22;   // case 0: probes + ctor, case 1: fixed histories, cases 2..21: auxiliary streams (5 streams x 4)

long verif::verif_ncases(const std::string & tier) {
    if (tier == "thorough") build_spaces(2, 4, 4); else build_spaces(2, 3, 3);
    g_perShape = tier == "thorough" ? 400 : 240;
    g_random = tier == "thorough" ? 20000 : 1000;    // larger random shapes: 2..6 factors of sizes 1..5
    run_probes();
    return kFixed + (long)g_spaces.size() * g_perShape + g_random;
}

void verif::verif_case(Rng & rng, long idx, const std::string & tier) {
    AIToolbox::Seeder::setRootSeed((unsigned)rng.next());
    if (idx == 0) {
        for (auto & s : g_probeLines) { std::puts(s.c_str()); }
        std::fflush(stdout);
        ctor_case();
        return;
    }
    if (idx == 1) { fixed_cases(); fmc_fixed(); return; }
    if (idx < kFixed) {
        // auxiliary streams, each in cases of its own (a crash in one stream does not hide the others): 4 cases per stream
        const int rep = tier == "thorough" ? 1000 : 40;
        const long stream = (idx - 2) / 4;
        for (int i = 0; i < rep; ++i) {
            if (stream == 0) indexmap_case(rng);
            else if (stream == 1) skipmap_case(rng);
            else if (stream == 2) sort_case(rng);
            else if (stream == 3) {
                F::Factors sp((size_t)rng.range(2, 5));
                for (auto & d : sp) d = (size_t)rng.range(1, 4);
                if (rng.coin()) fmc_case<F::Trie>(rng, sp, "trie"); else fmc_case<F::FasterTrie>(rng, sp, "ftrie");
            } else {
                match_case(rng);
                merge_case(rng);
                if (i % 4 == 0) {
                    F::Factors sp((size_t)rng.range(2, 5));
                    for (auto & d : sp) d = (size_t)rng.range(1, 4);
                    if (rng.coin()) fmap_pair_case<F::Trie>(rng, sp); else fmap_pair_case<F::FasterTrie>(rng, sp);
                }
            }
        }
        return;
    }
    long k = idx - kFixed;
    const int maxOps = tier == "thorough" ? 400 : 100;
    F::Factors rsp;
    if (k >= (long)g_spaces.size() * g_perShape) {
        size_t n = (size_t)(rng.coin(1, 5) ? rng.range(7, 9) : rng.range(2, 6));
        rsp.resize(n);
        for (auto & d : rsp) d = (size_t)rng.range(1, 5);
        std::printf("#stat random_shape_%s 1\n", firstIsSmallest(rsp) ? "first_smallest" : "first_not_smallest");
    }
    const auto & sp = rsp.empty() ? g_spaces[k / g_perShape] : rsp;
    int sub = rsp.empty() ? (int)(k % g_perShape) : (int)rng.below(g_perShape);
    // most histories are short-to-medium; one per shape goes to the limit
    int cap = sub == 0 ? maxOps : (int)rng.range(12, std::max(13, maxOps / 2));
    if (sub < g_perShape * 9 / 20) trie_case(rng, sp, cap);
    else if (sub < g_perShape * 16 / 20) ftrie_case(rng, sp, cap);
    else if (sub < g_perShape * 19 / 20 - 1) fmap_trie_case(rng, sp, std::min(cap, 80));
    else fmap_ftrie_case(rng, sp, std::min(cap, 80));
}

VERIF_MAIN
