// harness/c10_api_fmdp.hpp — included by harness/c10.cpp AFTER "common/verif.hpp" and "common/gen.hpp"
//
// Public-API sweep for C10, area `fmdp`: the Factored::Bandit / Factored::MDP members that no other harness references.
//   group 0  Bandit::LocalSearch (operator() with a start action, evaluateGraph / evaluateFactors / evaluateFactor) and the
//            MDP::MakeGraphImpl / UpdateGraphImpl <LocalSearch, QFunction> functors
//   group 1  Bandit::makeMiningParameters, MiningBandit (ctor, sampleR, getRegret, getDeterministicRules)
//   group 2  getActionProbability of LLRPolicy / MAUCEPolicy / MARMaxPolicy / SingleActionPolicy, RandomPolicy::sampleActionNoAlloc
//   group 3  Bandit::ThompsonSamplingPolicy::getActionProbability and ::setupGraph
//   group 4  CPSQueue (ctor, update, reconstruct, getNodeMaxPriority)
//   group 5  CooperativePrioritizedSweeping (ctor, setQFunction, stepUpdateQ, batchUpdateQ) over CooperativeModel (VariableElimination
//            and LocalSearch maximisers) and over CooperativeMaximumLikelihoodModel
//   group 6  CooperativeQLearning / JointActionLearner / SparseCooperativeQLearning setters and getters
//   group 7  CooperativeModel / CooperativeMaximumLikelihoodModel / CooperativeThompsonModel sampling overloads and getters,
//            CooperativeExperience::getA, MDP::makeQFunction
//   group 8  printSysAdminRing / printSysAdminGrid (both RETURN a std::string, nothing is printed), TigerAntelope
//   group 9  TigerAntelope on the 2x2 torus (own index: undefined behaviour in the library, see groupTigerTinyTorus)
// NOT called: Bandit::FlattenedModel<Dist>::convertA — declared in FlattenedModel.hpp:53 but defined nowhere (a call does not link).
// Every call follows the documented sequence with arguments inside the documented domains; members are called on the concrete
// type.  Oracles are cheap and certain: indices inside the factor space, sizes, getter = setter, probabilities in [0,1], the
// value returned by LocalSearch equals evaluateGraph of the returned action and is a local optimum, exact recomputation on dyadic
// tables, the documented std::invalid_argument of setLearningRate.
#pragma once
#include <AIToolbox/Seeder.hpp>
#include <AIToolbox/Factored/Utils/Core.hpp>
#include <AIToolbox/Factored/Utils/FactorGraph.hpp>
#include <AIToolbox/Factored/Utils/BayesianNetwork.hpp>
#include <AIToolbox/Factored/Bandit/Algorithms/Utils/LocalSearch.hpp>
#include <AIToolbox/Factored/Bandit/Algorithms/Utils/VariableElimination.hpp>
#include <AIToolbox/Factored/Bandit/Environments/MiningProblem.hpp>
#include <AIToolbox/Factored/Bandit/Experience.hpp>
#include <AIToolbox/Factored/Bandit/Policies/LLRPolicy.hpp>
#include <AIToolbox/Factored/Bandit/Policies/MAUCEPolicy.hpp>
#include <AIToolbox/Factored/Bandit/Policies/MARMaxPolicy.hpp>
#include <AIToolbox/Factored/Bandit/Policies/RandomPolicy.hpp>
#include <AIToolbox/Factored/Bandit/Policies/SingleActionPolicy.hpp>
#include <AIToolbox/Factored/Bandit/Policies/ThompsonSamplingPolicy.hpp>
#include <AIToolbox/Factored/MDP/Utils.hpp>
#include <AIToolbox/Factored/MDP/Algorithms/Utils/GraphUtils.hpp>
#include <AIToolbox/Factored/MDP/Algorithms/Utils/CPSQueue.hpp>
#include <AIToolbox/Factored/MDP/Algorithms/CooperativePrioritizedSweeping.hpp>
#include <AIToolbox/Factored/MDP/Algorithms/CooperativeQLearning.hpp>
#include <AIToolbox/Factored/MDP/Algorithms/JointActionLearner.hpp>
#include <AIToolbox/Factored/MDP/Algorithms/SparseCooperativeQLearning.hpp>
#include <AIToolbox/Factored/MDP/CooperativeModel.hpp>
#include <AIToolbox/Factored/MDP/CooperativeExperience.hpp>
#include <AIToolbox/Factored/MDP/CooperativeMaximumLikelihoodModel.hpp>
#include <AIToolbox/Factored/MDP/CooperativeThompsonModel.hpp>
#include <AIToolbox/Factored/MDP/Environments/SysAdmin.hpp>
#include <AIToolbox/Factored/MDP/Environments/TigerAntelope.hpp>
#include <algorithm>
#include <cmath>
#include <map>
#include <numeric>
#include <string>
#include <tuple>
#include <vector>

namespace c10api {
namespace fmdp_detail {

namespace AI = AIToolbox;
namespace F  = AIToolbox::Factored;
namespace FB = AIToolbox::Factored::Bandit;
namespace FM = AIToolbox::Factored::MDP;
using verif::Rng;

inline void emit(const char * name, bool ok) { verif::Line l; l << "C10" << "range" << name << "|" << ok; l.emit(); }
inline void stat(const char * what) { std::printf("#stat api_fmdp_%s 1\n", what); std::fflush(stdout); }
inline void reseed(Rng & rng) { AI::Seeder::setRootSeed((unsigned)rng.next()); }
inline bool near(double a, double b, double tol = 1e-9) { return std::fabs(a - b) <= tol * std::max(1.0, std::max(std::fabs(a), std::fabs(b))); }

// random non-empty sorted subset of [0,n) with at most maxLen elements (not necessarily a prefix), exact capacity
inline F::PartialKeys randTag(Rng & rng, size_t n, size_t maxLen) {
    size_t len = 1 + (size_t)rng.below(std::min(n, maxLen));
    std::vector<size_t> all(n); std::iota(all.begin(), all.end(), (size_t)0);
    for (size_t i = 0; i < len; ++i) std::swap(all[i], all[i + (size_t)rng.below(n - i)]);
    F::PartialKeys k(all.begin(), all.begin() + (long)len);
    std::sort(k.begin(), k.end()); k.shrink_to_fit();
    return k;
}
inline F::Factors randSpace(Rng & rng, size_t n, size_t lo, size_t hi) {
    F::Factors f(n); for (auto & x : f) x = (size_t)rng.range((long)lo, (long)hi); f.shrink_to_fit(); return f;
}
inline F::Factors randValue(Rng & rng, const F::Factors & space) {
    F::Factors v(space.size()); for (size_t i = 0; i < space.size(); ++i) v[i] = (size_t)rng.below(space[i]); v.shrink_to_fit(); return v;
}
inline bool inSpace(const F::Factors & v, const F::Factors & space) {
    if (v.size() != space.size()) return false;
    for (size_t i = 0; i < v.size(); ++i) if (!(v[i] < space[i])) return false;
    return true;
}
inline size_t spaceSize(const F::Factors & space) { size_t r = 1; for (auto x : space) r *= x; return r; }
inline F::Factors nthValue(const F::Factors & space, size_t id) {
    F::Factors v(space.size()); for (size_t i = 0; i < space.size(); ++i) { v[i] = id % space[i]; id /= space[i]; } return v;
}

// a complete DDN graph: non-uniform factor sizes (size 1 included), non-prefix parent tags
inline F::DDNGraph randGraph(Rng & rng, size_t minS = 1) {
    size_t nf = (size_t)rng.range(1, 3), na = (size_t)rng.range(1, rng.coin(1, 4) ? 3 : 2);
    F::State S = randSpace(rng, nf, minS, 3);
    F::Action A = randSpace(rng, na, 1, 3);
    F::DDNGraph g(S, A);
    for (size_t i = 0; i < nf; ++i) {
        F::DDNGraph::ParentSet ps;
        ps.agents = randTag(rng, na, 2);
        size_t nj = F::factorSpacePartial(ps.agents, A);
        for (size_t j = 0; j < nj; ++j) ps.features.push_back(randTag(rng, nf, 2));
        g.push(std::move(ps));
    }
    return g;
}
inline F::DDN::TransitionMatrix randTransitions(Rng & rng, const F::DDNGraph & g) {
    F::DDN::TransitionMatrix tm;
    const auto & S = g.getS();
    for (size_t i = 0; i < S.size(); ++i) {
        AI::Matrix2D m(g.getSize(i), S[i]);
        for (size_t j = 0; j < g.getSize(i); ++j) { auto row = verif::dyadicRow(rng, S[i]); for (size_t x = 0; x < S[i]; ++x) m(j, x) = row[x]; }
        tm.push_back(std::move(m));
    }
    return tm;
}
inline F::FactoredMatrix2D randRewards(Rng & rng, const F::DDNGraph & g, size_t nB) {
    F::FactoredMatrix2D rw;
    const auto & S = g.getS(); const auto & A = g.getA();
    for (size_t b = 0; b < nB; ++b) {
        F::BasisMatrix bm;
        bm.tag = randTag(rng, S.size(), 2); bm.actionTag = randTag(rng, A.size(), 2);
        size_t rows = F::factorSpacePartial(bm.tag, S), cols = F::factorSpacePartial(bm.actionTag, A);
        bm.values.resize(rows, cols);
        for (size_t x = 0; x < rows; ++x) for (size_t y = 0; y < cols; ++y) bm.values(x, y) = verif::dyadicReward(rng);
        rw.bases.push_back(std::move(bm));
    }
    return rw;
}
// unique, non-empty groups of state features
inline std::vector<std::vector<size_t>> randDomains(Rng & rng, size_t nf) {
    std::vector<std::vector<size_t>> d;
    size_t want = (size_t)rng.range(1, (long)nf + 1);
    for (size_t t = 0; t < want; ++t) {
        std::vector<size_t> k = randTag(rng, nf, 2);
        if (std::find(d.begin(), d.end(), k) == d.end()) d.push_back(k);
    }
    d.shrink_to_fit();
    return d;
}
inline bool qShapeOk(const FM::QFunction & q, const F::DDNGraph & g, size_t nDomains) {
    if (q.bases.size() != nDomains) return false;
    for (const auto & b : q.bases) {
        if ((size_t)b.values.rows() != F::factorSpacePartial(b.tag, g.getS())) return false;
        if ((size_t)b.values.cols() != F::factorSpacePartial(b.actionTag, g.getA())) return false;
    }
    return true;
}
inline bool qAllFinite(const FM::QFunction & q) { for (const auto & b : q.bases) if (!b.values.allFinite()) return false; return true; }
inline bool qAllEqual(const FM::QFunction & q, double v) {
    for (const auto & b : q.bases) for (long x = 0; x < b.values.rows(); ++x) for (long y = 0; y < b.values.cols(); ++y) if (b.values(x, y) != v) return false;
    return true;
}

// ------------------------------------------------------------------------------------------------ group 0: LocalSearch
inline void groupLocalSearch(Rng & rng) {
    reseed(rng);
    using LS = FB::LocalSearch;
    {
        size_t na = (size_t)rng.range(1, 4);
        F::Action A = randSpace(rng, na, 1, 3);
        LS::Graph graph(na);
        struct Fac { F::PartialKeys keys; std::vector<double> vals; };
        std::vector<Fac> mine;
        size_t nfac = (size_t)rng.range(1, 4);
        int shape = (int)rng.below(3);
        for (size_t f = 0; f < nfac; ++f) {
            F::PartialKeys k = randTag(rng, na, 3);
            bool dup = false; for (auto & m : mine) if (m.keys == k) dup = true;
            if (dup) continue;                                    // getFactor would return the existing node
            size_t n = F::factorSpacePartial(k, A);
            AI::Vector v(n); std::vector<double> vv(n);
            for (size_t i = 0; i < n; ++i) {
                double x = shape == 0 ? verif::dyadicReward(rng) : shape == 1 ? verif::dyadicReward(rng, 30) : 0.25 * (double)rng.range(-2, 2);
                v[(long)i] = x; vv[i] = x;
            }
            graph.getFactor(k)->getData() = v;
            mine.push_back({k, vv});
        }
        stat(shape == 0 ? "ls_small" : shape == 1 ? "ls_large" : "ls_ties");
        auto myValue = [&](const F::Action & a) { double s = 0.0; for (auto & m : mine) s += m.vals[F::toIndexPartial(m.keys, A, a)]; return s; };   // dyadic: exact in any order
        F::Action start = randValue(rng, A);
        LS ls;
        auto [act, val] = ls(A, graph, start);
        emit("LocalSearch.action_in_space", inSpace(act, A));
        if (inSpace(act, A)) {
            emit("LocalSearch.value_equals_evaluateGraph", val == LS::evaluateGraph(A, graph, act) && val == myValue(act));
            bool localOpt = true;
            for (size_t ag = 0; ag < na; ++ag) for (size_t x = 0; x < A[ag]; ++x) { F::Action alt = act; alt[ag] = x; if (LS::evaluateGraph(A, graph, alt) > val) localOpt = false; }
            emit("LocalSearch.result_is_local_optimum", localOpt);
            emit("LocalSearch.not_worse_than_start", val >= myValue(start));
        }
        // repeated call on the same object, from the previous result: a local optimum is a fixed point in value
        auto [act2, val2] = ls(A, graph, act);
        emit("LocalSearch.restart_from_optimum_keeps_value", inSpace(act2, A) && val2 == val);
        // evaluateFactors / evaluateFactor on the adjacency lists of every agent
        bool okFs = true, okF = true;
        F::Action probe = randValue(rng, A);
        for (size_t ag = 0; ag < na; ++ag) {
            const auto & lst = graph.getFactors(ag);
            double sum = 0.0;
            for (auto it : lst) {
                double one = LS::evaluateFactor(A, *it, probe);
                double ref = std::nan("");
                for (auto & m : mine) if (m.keys == it->getVariables()) ref = m.vals[F::toIndexPartial(m.keys, A, probe)];
                if (!(one == ref)) okF = false;
                sum += one;
            }
            if (LS::evaluateFactors(A, lst, probe) != sum) okFs = false;
        }
        emit("LocalSearch.evaluateFactor_is_table_lookup", okF);
        emit("LocalSearch.evaluateFactors_is_sum_of_factors", okFs);
    }
    {   // MDP::MakeGraphImpl / UpdateGraphImpl <LocalSearch, QFunction>
        F::DDNGraph g = randGraph(rng);
        const auto & S = g.getS(); const auto & A = g.getA();
        auto domains = randDomains(rng, S.size());
        FM::QFunction q = FM::makeQFunction(g, domains);
        for (auto & b : q.bases) for (long x = 0; x < b.values.rows(); ++x) for (long y = 0; y < b.values.cols(); ++y) b.values(x, y) = verif::dyadicReward(rng);
        auto graph = FM::MakeGraphImpl<LS, FM::QFunction>()(q, A);
        bool ok = graph.variableSize() == A.size();
        LS ls;
        for (int rep = 0; rep < 2; ++rep) {           // the same graph is updated twice (documented as reusable)
            F::State s = randValue(rng, S);
            FM::UpdateGraphImpl<LS, FM::QFunction>()(graph, q, S, A, s);
            F::Action a = randValue(rng, A);
            if (LS::evaluateGraph(A, graph, a) != q.getValue(S, A, s, a)) ok = false;
            auto [act, val] = ls(A, graph, a);
            if (!inSpace(act, A) || val != q.getValue(S, A, s, act) || val < q.getValue(S, A, s, a)) ok = false;
        }
        emit("MDP.LocalSearchGraph.graph_value_equals_QFunction_value", ok);
    }
}

// ------------------------------------------------------------------------------------------------ group 1: MiningBandit
inline double miningRulesValue(const std::vector<FB::QFunctionRule> & rules, const F::Action & a) {
    double v = 0.0; for (const auto & r : rules) if (F::match(a, r.action)) v += r.value; return v;
}
inline void miningChecks(Rng & rng, const F::Action & A, const std::vector<unsigned> & workers, const std::vector<double> & prod, bool normalize) {
    FB::MiningBandit b(A, workers, prod, normalize);
    const size_t mines = prod.size();
    bool okR = true, okRegret = true, okRules = true, okOpt = true;
    const F::Action opt = b.getOptimalAction();
    okOpt = inSpace(opt, A) && b.getRegret(opt) == 0.0;
    auto rules = b.getDeterministicRules();
    for (const auto & r : rules) {
        const auto & [keys, vals] = r.action;
        if (keys.empty() || keys.size() != vals.size() || !std::is_sorted(keys.begin(), keys.end()) || !(r.value >= 0.0) || !std::isfinite(r.value)) { okRules = false; continue; }
        for (size_t i = 0; i < keys.size(); ++i) if (!(keys[i] < A.size()) || !(vals[i] < A[keys[i]])) okRules = false;
    }
    const double norm = b.getNormalizationConstant();
    if (normalize && okRules && !near(miningRulesValue(rules, opt), norm)) okRules = false;      // the rules' maximum is the constant that maps the optimum to 1
    for (int t = 0; t < 6; ++t) {
        F::Action a = t == 0 ? opt : randValue(rng, A);
        const F::Rewards & r = b.sampleR(a);
        if ((size_t)r.size() != mines) okR = false;
        else for (long m = 0; m < r.size(); ++m) if (!(r[m] == 0.0 || r[m] == 1.0)) okR = false;
        double reg = b.getRegret(a);
        if (!(reg >= -1e-9) || !std::isfinite(reg)) okRegret = false;
        if (normalize && okRules && !near(reg, a == opt ? 0.0 : 1.0 - miningRulesValue(rules, a) / norm, 1e-9)) okRegret = false;
    }
    emit("MiningBandit.optimal_action_in_space_with_zero_regret", okOpt);
    emit("MiningBandit.sampleR_one_bernoulli_per_mine", okR);
    emit("MiningBandit.getDeterministicRules_well_formed", okRules);
    // without normalisation getRegret() is 1 - value (it assumes an optimum of 1): a FUNCTIONAL defect outside C10 (reported to the integrator), so the
    // clause is only required of the normalised bandit
    if (normalize) emit("MiningBandit.getRegret_nonnegative_and_consistent_with_rules", okRegret); else stat("mining_regret_unnormalised_not_required");
}
inline void groupMining(Rng & rng) {
    reseed(rng);
    if (rng.coin(1, 3)) {
        unsigned seed = (unsigned)rng.next();
        auto [A, workers, prod] = FB::makeMiningParameters(seed);
        bool ok = A.size() >= 5 && A.size() <= 15 && workers.size() == A.size() && prod.size() == A.size() + 3 && A.back() == 4;
        for (auto x : A) if (x < 2 || x > 4) ok = false;
        for (auto w : workers) if (w < 1 || w > 5) ok = false;
        for (auto p : prod) if (!(p >= 0.0 && p <= 0.5)) ok = false;
        auto again = FB::makeMiningParameters(seed);
        if (std::get<0>(again) != A || std::get<1>(again) != workers || std::get<2>(again) != prod) ok = false;
        emit("makeMiningParameters.documented_ranges_and_deterministic", ok);
        stat("mining_generated");
        if (ok) miningChecks(rng, A, workers, prod, true);
    } else {
        size_t nv = (size_t)rng.range(1, 4);
        F::Action A = randSpace(rng, nv, 2, 4); A.back() = 4;
        std::vector<unsigned> workers(nv); for (auto & w : workers) w = (unsigned)rng.range(1, 5);
        std::vector<double> prod(nv + 3); for (auto & p : prod) p = rng.coin(1, 8) ? 0.0 : rng.coin(1, 8) ? 1.0 : rng.dyadic(4);
        workers.shrink_to_fit(); prod.shrink_to_fit();
        bool normalize = rng.coin(2, 3);
        bool anyPositive = false; for (auto p : prod) if (p > 0.0) anyPositive = true;
        if (!anyPositive) prod[0] = 0.5;                        // an all-zero problem has no optimum to normalise by
        stat(normalize ? "mining_small_normalized" : "mining_small_raw");
        miningChecks(rng, A, workers, prod, normalize);
    }
}

// ------------------------------------------------------------------------------------------------ groups 2, 3: factored bandit policies
struct FExp {
    F::Action A; std::vector<F::PartialKeys> deps;
};
inline FExp randBanditShape(Rng & rng, size_t maxAgents, size_t minA, bool allowDup) {
    FExp e;
    size_t m = (size_t)rng.range(1, (long)maxAgents);
    e.A = randSpace(rng, m, minA, 3);
    int mode = (int)rng.below(3);
    if (m == 1 || mode == 0) for (size_t i = 0; i < m; ++i) e.deps.push_back({i});
    else if (mode == 1) for (size_t i = 0; i + 1 < m; ++i) e.deps.push_back({i, i + 1});
    else { e.deps.push_back({0, m - 1}); for (size_t i = 1; i + 1 < m; ++i) e.deps.push_back({i}); }   // non-adjacent pair + singles
    // every agent must belong to a group
    std::vector<bool> seen(m, false); for (auto & d : e.deps) for (auto k : d) seen[k] = true;
    for (size_t i = 0; i < m; ++i) if (!seen[i]) e.deps.push_back({i});
    if (allowDup && rng.coin(1, 4)) e.deps.push_back(e.deps[0]);       // "there can be multiple groups with the same keys"
    e.deps.shrink_to_fit();
    return e;
}
inline void fillExperience(Rng & rng, FB::Experience & exp, const F::Action & A, size_t groups, bool visitAllTwice, int extra, int scale) {
    F::Rewards rew(groups);
    auto rec = [&](const F::Action & a) { for (size_t i = 0; i < groups; ++i) rew[(long)i] = verif::dyadicReward(rng, scale); exp.record(a, rew); };
    if (visitAllTwice) for (int rep = 0; rep < 2; ++rep) for (size_t id = 0; id < spaceSize(A); ++id) rec(nthValue(A, id));
    for (int t = 0; t < extra; ++t) rec(randValue(rng, A));
}
template <class P> inline bool indicatorPolicyOk(const P & p, const F::Action & A, const F::Action & played) {
    double sum = 0.0; bool ok = true;
    for (size_t id = 0; id < spaceSize(A); ++id) {
        F::Action a = nthValue(A, id);
        double pr = p.P::getActionProbability(a);       // qualified: a direct (non-virtual) reference to the member of the concrete class
        if (!(pr == 0.0 || pr == 1.0)) ok = false;
        if ((a == played) != (pr == 1.0)) ok = false;
        sum += pr;
    }
    return ok && sum == 1.0;
}
inline void groupBanditPolicies(Rng & rng) {
    FExp sh = randBanditShape(rng, 3, 1, true);
    const auto & A = sh.A;
    const size_t G = sh.deps.size();
    int scale = rng.coin(1, 4) ? 20 : 0;
    stat(scale ? "fbandit_large_rewards" : "fbandit_small_rewards");
    {
        reseed(rng);
        FB::Experience exp(A, sh.deps);
        fillExperience(rng, exp, A, G, rng.coin(), 1 + (int)rng.below(6), scale);
        FB::LLRPolicy p(exp);
        F::Action played = p.sampleAction();
        emit("Factored.Bandit.LLRPolicy.getActionProbability_is_indicator_of_sampled_action", inSpace(played, A) && indicatorPolicyOk(p, A, played));
    }
    {
        reseed(rng);
        FB::Experience exp(A, sh.deps);
        fillExperience(rng, exp, A, G, rng.coin(), 1 + (int)rng.below(6), scale);
        std::vector<double> ranges(G); for (auto & r : ranges) r = std::ldexp((double)rng.range(1, 8), scale); ranges.shrink_to_fit();
        FB::MAUCEPolicy p(exp, ranges);
        F::Action played = p.sampleAction();
        emit("Factored.Bandit.MAUCEPolicy.getActionProbability_is_indicator_of_sampled_action", inSpace(played, A) && indicatorPolicyOk(p, A, played));
    }
    {
        reseed(rng);
        FB::Experience exp(A, sh.deps);
        AI::Vector ranges(G); for (long i = 0; i < ranges.size(); ++i) ranges[i] = (double)rng.range(1, 4);
        FB::MARMaxPolicy p(exp, ranges, rng.coin() ? 0.5 : 0.25, rng.coin() ? 0.5 : 1.0, rng.coin());
        bool ok = indicatorPolicyOk(p, A, p.sampleAction());
        F::Rewards rew(G);
        int steps = (int)rng.below(8);
        for (int t = 0; t < steps; ++t) {
            F::Action a = rng.coin(2, 3) ? p.sampleAction() : randValue(rng, A);
            for (size_t i = 0; i < G; ++i) rew[(long)i] = ranges[(long)i] * rng.dyadic(3);       // rewards within [0, range]
            const auto & ind = exp.record(a, rew);
            p.stepUpdateQ(ind);
        }
        F::Action played = p.sampleAction();
        emit("Factored.Bandit.MARMaxPolicy.getActionProbability_is_indicator_of_current_action", ok && inSpace(played, A) && indicatorPolicyOk(p, A, played));
    }
    {
        FB::SingleActionPolicy p(A);
        bool ok = indicatorPolicyOk(p, A, F::Action(A.size(), 0));
        for (int t = 0; t < 2; ++t) { F::Action a = randValue(rng, A); p.updateAction(a); if (!indicatorPolicyOk(p, A, a) || p.sampleAction() != a) ok = false; }
        emit("Factored.Bandit.SingleActionPolicy.getActionProbability_is_indicator", ok);
    }
    {
        reseed(rng);
        FB::RandomPolicy p(A);
        bool ok = true;
        const F::Action * first = &p.sampleActionNoAlloc();
        for (int t = 0; t < 8; ++t) { const F::Action & a = p.sampleActionNoAlloc(); if (&a != first || !inSpace(a, A)) ok = false; }
        if (!near(p.getActionProbability(randValue(rng, A)) * (double)spaceSize(A), 1.0)) ok = false;
        emit("Factored.Bandit.RandomPolicy.sampleActionNoAlloc_in_space_same_storage", ok);
    }
}
inline void groupThompson(Rng & rng) {
    reseed(rng);
    FExp sh = randBanditShape(rng, 2, 2, true);
    const auto & A = sh.A;
    const size_t G = sh.deps.size();
    FB::Experience exp(A, sh.deps);
    bool full = rng.coin(2, 3);
    fillExperience(rng, exp, A, G, full, (int)rng.below(5), rng.coin(1, 4) ? 20 : 0);
    stat(full ? "fthompson_all_visited" : "fthompson_unvisited_arms");
    FB::ThompsonSamplingPolicy p(exp);
    {
        F::Action a = randValue(rng, A);
        double pr = p.getActionProbability(a);
        double k = pr * 1000.0;
        emit("Factored.Bandit.ThompsonSamplingPolicy.getActionProbability_in_unit_interval", pr >= 0.0 && pr <= 1.0 && std::fabs(k - std::round(k)) < 1e-6);
    }
    {
        using VE = FB::VariableElimination;
        VE::GVE::Graph graph(A.size());
        AI::RandomEngine eng((unsigned)rng.next());
        FB::ThompsonSamplingPolicy::setupGraph(exp, graph, eng);
        const auto & q = exp.getRewardMatrix();
        bool ok = graph.variableSize() == A.size();
        for (const auto & basis : q.bases) {
            auto & data = graph.getFactor(basis.tag)->getData();
            if (data.size() != (size_t)basis.values.size()) { ok = false; continue; }
            for (size_t y = 0; y < data.size(); ++y) if (data[y].first != y || std::isnan(data[y].second.first)) ok = false;
        }
        VE ve;
        auto [act, val] = ve(A, graph);
        if (!inSpace(act, A) || std::isnan(val)) ok = false;
        emit("Factored.Bandit.ThompsonSamplingPolicy.setupGraph_one_entry_per_local_action", ok);
    }
}

// ------------------------------------------------------------------------------------------------ group 4: CPSQueue
inline void groupCpsQueue(Rng & rng) {
    reseed(rng);
    F::DDNGraph g = randGraph(rng);
    const auto & S = g.getS(); const auto & A = g.getA();
    const size_t nf = S.size();
    F::CPSQueue q(g);
    bool okFresh = q.getNonZeroPriorities() == 0;
    for (size_t i = 0; i < nf; ++i) if (!(q.getNodeMaxPriority(i) <= 0.0)) okFresh = false;       // nothing has a positive priority yet
    emit("CPSQueue.fresh_queue_has_no_positive_priority", okFresh);

    std::map<std::tuple<size_t, size_t, size_t>, double> mirror;
    auto nodeMax = [&](size_t i) { double m = 0.0; for (auto & [k, v] : mirror) if (std::get<0>(k) == i) m = std::max(m, v); return m; };
    auto doUpdates = [&](int n) {
        for (int t = 0; t < n; ++t) {
            size_t i = (size_t)rng.below(nf), a = (size_t)rng.below(g.getPartialSize(i)), s = (size_t)rng.below(g.getPartialSize(i, a));
            double p = 0.125 * (double)rng.range(1, 64);
            q.update(i, a, s, p); mirror[{i, a, s}] += p;
        }
    };
    int nUpd = (int)rng.range(1, 12);
    doUpdates(nUpd);
    stat(nUpd <= 3 ? "cpsqueue_few_updates" : "cpsqueue_many_updates");
    bool okMax = q.getNonZeroPriorities() == mirror.size();
    for (size_t i = 0; i < nf; ++i) { double m = nodeMax(i); if (m > 0.0 && q.getNodeMaxPriority(i) != m) okMax = false; if (m == 0.0 && !(q.getNodeMaxPriority(i) <= 0.0)) okMax = false; }
    emit("CPSQueue.getNodeMaxPriority_equals_max_of_accumulated_updates", okMax);

    // the unique highest-priority parent set (if unique) must be part of the reconstruction
    double top = 0.0; int topCount = 0; std::tuple<size_t, size_t, size_t> topKey;
    for (auto & [k, v] : mirror) { if (v > top) { top = v; topCount = 1; topKey = k; } else if (v == top) ++topCount; }
    F::State rs(nf, 0); F::Action ra(A.size(), 0); rs.shrink_to_fit(); ra.shrink_to_fit();
    unsigned before = q.getNonZeroPriorities();
    std::vector<double> maxBefore(nf); for (size_t i = 0; i < nf; ++i) maxBefore[i] = q.getNodeMaxPriority(i);
    q.reconstruct(rs, ra);
    unsigned after = q.getNonZeroPriorities();
    bool okRec = rs.size() == nf && ra.size() == A.size();
    if (okRec) { for (size_t i = 0; i < nf; ++i) if (rs[i] > S[i]) okRec = false; for (size_t j = 0; j < A.size(); ++j) if (ra[j] > A[j]) okRec = false; }
    if (!(after < before) || before - after > nf) okRec = false;                   // at least the top rule, at most one rule per node
    for (size_t i = 0; i < nf; ++i) if (q.getNodeMaxPriority(i) > std::max(maxBefore[i], 0.0)) okRec = false;   // popping never raises a positive maximum
    if (okRec && topCount == 1) {
        auto [i, a, s] = topKey;
        const auto & ps = g.getParentSets()[i];
        auto av = F::toFactorsPartial(ps.agents, A, a);
        for (size_t k = 0; k < ps.agents.size(); ++k) if (ra[ps.agents[k]] != av[k]) okRec = false;
        auto sv = F::toFactorsPartial(ps.features[a], S, s);
        for (size_t k = 0; k < ps.features[a].size(); ++k) if (rs[ps.features[a][k]] != sv[k]) okRec = false;
    }
    emit("CPSQueue.reconstruct_contains_top_rule_and_stays_in_space", okRec);

    // drain: every reconstruct removes at least one positive rule; afterwards no node has a positive maximum
    bool okDrain = true; unsigned guard = 0;
    while (q.getNonZeroPriorities() > 0) {
        unsigned b = q.getNonZeroPriorities();
        q.reconstruct(rs, ra);
        if (!(q.getNonZeroPriorities() < b) || ++guard > 64) { okDrain = false; break; }
    }
    for (size_t i = 0; i < nf; ++i) if (okDrain && !(q.getNodeMaxPriority(i) <= 0.0)) okDrain = false;
    q.reconstruct(rs, ra);                                                           // reconstruct on an empty queue: nothing to pick
    if (q.getNonZeroPriorities() != 0) okDrain = false;
    for (size_t i = 0; i < nf; ++i) if (rs[i] > S[i]) okDrain = false;
    emit("CPSQueue.drain_terminates_and_leaves_no_positive_priority", okDrain);

    if (okDrain) {                                                                   // update after the drain
        mirror.clear();
        size_t i = (size_t)rng.below(nf), a = (size_t)rng.below(g.getPartialSize(i)), s = (size_t)rng.below(g.getPartialSize(i, a));
        q.update(i, a, s, 2.5);
        emit("CPSQueue.update_after_drain", q.getNonZeroPriorities() == 1 && q.getNodeMaxPriority(i) == 2.5);
    }
}

// ------------------------------------------------------------------------------------------------ group 5: CooperativePrioritizedSweeping
template <class CPS, class Step>
inline bool driveCps(Rng & rng, CPS & ps, const F::DDNGraph & g, size_t nDomains, Step && step) {
    bool ok = qShapeOk(ps.getQFunction(), g, nDomains) && qAllEqual(ps.getQFunction(), 0.0);
    double init = rng.coin() ? 0.0 : verif::dyadicReward(rng);
    ps.setQFunction(init);
    if (!qAllEqual(ps.getQFunction(), init)) ok = false;
    int steps = (int)rng.range(1, 6);
    for (int t = 0; t < steps; ++t) {
        step(ps);
        if (rng.coin(3, 4)) ps.batchUpdateQ((unsigned)rng.below(5));
    }
    if (!qShapeOk(ps.getQFunction(), g, nDomains) || !qAllFinite(ps.getQFunction())) ok = false;
    ps.setQFunction(1.5);                                   // set again after learning
    if (!qAllEqual(ps.getQFunction(), 1.5)) ok = false;
    ps.batchUpdateQ(2);
    if (!qAllFinite(ps.getQFunction())) ok = false;
    return ok;
}
inline void groupCps(Rng & rng, int variant) {
    reseed(rng);
    F::DDNGraph g = randGraph(rng);
    const auto & S = g.getS(); const auto & A = g.getA();
    auto domains = randDomains(rng, S.size());
    double alpha = rng.coin(1, 4) ? 1.0 : 0.125 * (double)rng.range(1, 7), theta = rng.coin() ? 0.001 : 0.25;
    static const double ds[] = {0.5, 0.875, 0.9375, 1.0};
    double discount = ds[rng.below(4)];
    if (variant < 2) {
        // the model's sampleSRs must produce one reward per state factor (CooperativePrioritizedSweeping::stepUpdateQ: "one per state factor")
        FM::CooperativeModel m(g, randTransitions(rng, g), randRewards(rng, g, S.size()), discount);
        auto step = [&](auto & ps) {
            F::State s = randValue(rng, S); F::Action a = randValue(rng, A);
            auto [s1, r] = m.sampleSRs(s, a);
            ps.stepUpdateQ(s, a, s1, r);
        };
        if (variant == 0) {
            stat("cps_model_ve");
            FM::CooperativePrioritizedSweeping<FM::CooperativeModel> ps(m, domains, alpha, theta);
            emit("CooperativePrioritizedSweeping.CooperativeModel.QFunction_shape_and_finite", driveCps(rng, ps, m.getGraph(), domains.size(), step));
        } else {
            stat("cps_model_localsearch");
            FM::CooperativePrioritizedSweeping<FM::CooperativeModel, FB::LocalSearch> ps(m, domains, alpha, theta);
            emit("CooperativePrioritizedSweeping.CooperativeModel_LocalSearch.QFunction_shape_and_finite", driveCps(rng, ps, m.getGraph(), domains.size(), step));
        }
    } else {
        stat("cps_learned_model");
        FM::CooperativeExperience exp(g);
        FM::CooperativeMaximumLikelihoodModel m(exp, discount, rng.coin());
        F::Rewards r(S.size());
        auto step = [&](auto & ps) {
            F::State s = randValue(rng, S), s1 = randValue(rng, S); F::Action a = randValue(rng, A);
            for (long i = 0; i < r.size(); ++i) r[i] = verif::dyadicReward(rng);
            const auto & ids = exp.record(s, a, s1, r);
            m.sync(ids);
            ps.stepUpdateQ(s, a, s1, r);
        };
        FM::CooperativePrioritizedSweeping<FM::CooperativeMaximumLikelihoodModel> ps(m, domains, alpha, theta);
        emit("CooperativePrioritizedSweeping.CooperativeMaximumLikelihoodModel.QFunction_shape_and_finite", driveCps(rng, ps, g, domains.size(), step));
    }
}

// ------------------------------------------------------------------------------------------------ group 6: learners
template <class L> inline bool learningRateContract(L & l) {
    bool ok = true;
    for (double a : {1.0, 0.5, 0x1p-40}) { l.setLearningRate(a); if (l.getLearningRate() != a) ok = false; }
    for (double bad : {0.0, -0.5, 1.5}) {
        double before = l.getLearningRate();
        try { l.setLearningRate(bad); ok = false; } catch (const std::invalid_argument &) {} catch (...) { ok = false; }
        if (l.getLearningRate() != before) ok = false;
    }
    return ok;
}
template <class L> inline bool discountRoundTrip(L & l) {
    bool ok = true;
    for (double d : {1.0, 0.5, 0.9375, 0x1p-30}) { l.setDiscount(d); if (l.getDiscount() != d) ok = false; }
    return ok;
}
inline void groupLearners(Rng & rng) {
    reseed(rng);
    {
        F::DDNGraph g = randGraph(rng);
        const auto & S = g.getS(); const auto & A = g.getA();
        auto domains = randDomains(rng, S.size());
        FM::CooperativeQLearning ql(g, domains, 0.875, 0.25);
        bool ok = ql.getS() == S && ql.getA() == A && ql.getDiscount() == 0.875 && ql.getLearningRate() == 0.25;
        emit("CooperativeQLearning.getters_return_constructor_arguments", ok && qShapeOk(ql.getQFunction(), g, domains.size()));
        emit("CooperativeQLearning.setLearningRate_contract", learningRateContract(ql));
        emit("CooperativeQLearning.setDiscount_round_trip", discountRoundTrip(ql));
        double v = verif::dyadicReward(rng);
        ql.setQFunction(v);
        bool okQ = qAllEqual(ql.getQFunction(), v);
        F::Rewards r(A.size());                              // CooperativeQLearning::stepUpdateQ takes one reward per agent
        for (int t = 0; t < 4; ++t) {
            for (long i = 0; i < r.size(); ++i) r[i] = verif::dyadicReward(rng);
            F::Action a1 = ql.stepUpdateQ(randValue(rng, S), randValue(rng, A), randValue(rng, S), r);
            if (!inSpace(a1, A)) okQ = false;
        }
        if (!qAllFinite(ql.getQFunction())) okQ = false;
        ql.setQFunction(0.0);
        if (!qAllEqual(ql.getQFunction(), 0.0)) okQ = false;
        emit("CooperativeQLearning.setQFunction_fills_every_entry", okQ);
    }
    {
        size_t Sn = (size_t)rng.range(1, 3);
        size_t na = (size_t)rng.range(rng.coin(1, 6) ? 1 : 2, 3);
        F::Action A = randSpace(rng, na, 1, 3);
        size_t id = (size_t)rng.below(na);
        stat(na == 1 ? "jal_single_agent" : "jal_multi_agent");
        FM::JointActionLearner jal(Sn, A, id, 0.75, 0.5);
        bool ok = jal.getS() == Sn && jal.getA() == A && jal.getId() == id && jal.getDiscount() == 0.75 && jal.getLearningRate() == 0.5;
        emit("JointActionLearner.getters_return_constructor_arguments", ok);
        emit("JointActionLearner.setLearningRate_contract", learningRateContract(jal));
        emit("JointActionLearner.setDiscount_round_trip", discountRoundTrip(jal));
        bool okQ = true;
        for (int t = 0; t < 4; ++t) jal.stepUpdateQ((size_t)rng.below(Sn), randValue(rng, A), (size_t)rng.below(Sn), verif::dyadicReward(rng));
        if ((size_t)jal.getSingleQFunction().rows() != Sn || (size_t)jal.getSingleQFunction().cols() != A[id] || !jal.getSingleQFunction().allFinite()) okQ = false;
        if ((size_t)jal.getJointQFunction().rows() != Sn || (size_t)jal.getJointQFunction().cols() != spaceSize(A) || !jal.getJointQFunction().allFinite()) okQ = false;
        emit("JointActionLearner.QFunctions_shape_and_finite_after_updates", okQ && jal.getS() == Sn);
    }
    {
        F::State S = randSpace(rng, (size_t)rng.range(1, 3), 1, 3);
        F::Action A = randSpace(rng, (size_t)rng.range(1, 3), 1, 3);
        std::vector<FM::QFunctionRule> rules;
        int nr = (int)rng.range(1, 5);
        for (int t = 0; t < nr; ++t) {
            F::PartialKeys sk = randTag(rng, S.size(), 2), ak = randTag(rng, A.size(), 2);
            F::PartialValues sv, av; for (auto k : sk) sv.push_back((size_t)rng.below(S[k])); for (auto k : ak) av.push_back((size_t)rng.below(A[k]));
            rules.push_back(FM::QFunctionRule{F::PartialState{sk, sv}, F::PartialAction{ak, av}, verif::dyadicReward(rng)});
        }
        FM::SparseCooperativeQLearning sq(S, A, rules, 0.875, 0.25);
        bool ok = sq.getS() == S && sq.getA() == A && sq.getDiscount() == 0.875 && sq.getLearningRate() == 0.25;
        emit("SparseCooperativeQLearning.getters_return_constructor_arguments", ok);
        emit("SparseCooperativeQLearning.setLearningRate_contract", learningRateContract(sq));
        emit("SparseCooperativeQLearning.setDiscount_round_trip", discountRoundTrip(sq));
    }
}

// ------------------------------------------------------------------------------------------------ group 7: cooperative models
template <class M>
inline void learnedModelChecks(Rng & rng, const char * prefix, const M & m, const FM::CooperativeExperience & exp, const F::DDNGraph & g) {
    const auto & S = g.getS(); const auto & A = g.getA();
    std::string p(prefix);
    emit((p + ".getS_getA_getGraph_are_the_experience_ones").c_str(), m.getS() == S && m.getA() == A && &m.getGraph() == &exp.getGraph() && &m.getGraph() == &g);
    bool okSR = true, okSRs = true, okER = true;
    for (int t = 0; t < 4; ++t) {
        F::State s = randValue(rng, S); F::Action a = randValue(rng, A);
        {   auto [s1, r] = m.sampleSR(s, a);
            if (!inSpace(s1, S) || r != m.getExpectedReward(s, a, s1)) okSR = false; }
        {   F::State s1(S.size(), 99); s1.shrink_to_fit();
            double r = m.sampleSR(s, a, &s1);
            if (!inSpace(s1, S) || r != m.getExpectedReward(s, a, s1)) okSR = false; }
        {   auto [s1, rs] = m.sampleSRs(s, a);
            F::Rewards ref = m.getExpectedRewards(s, a, s1);
            if (!inSpace(s1, S) || (size_t)rs.size() != S.size() || !(rs.array() == ref.array()).all()) okSRs = false; }
        {   F::State s1(S.size(), 99); s1.shrink_to_fit(); F::Rewards rs(S.size()); rs.fill(std::nan(""));
            m.sampleSRs(s, a, &s1, &rs);
            F::Rewards out(S.size()); out.fill(std::nan(""));
            m.getExpectedRewards(s, a, s1, &out);
            F::Rewards ref = m.getExpectedRewards(s, a, s1);
            if (!inSpace(s1, S) || !(rs.array() == ref.array()).all()) okSRs = false;
            if (!(out.array() == ref.array()).all()) okER = false;
            for (size_t i = 0; i < S.size(); ++i) if (out[(long)i] != m.getRewardFunction()[i][(long)g.getId(i, s, a)]) okER = false; }
    }
    emit((p + ".sampleSR_state_in_space_reward_is_expected_reward").c_str(), okSR);
    emit((p + ".sampleSRs_state_in_space_one_reward_per_feature").c_str(), okSRs);
    emit((p + ".getExpectedRewards_output_overload_matches_tables").c_str(), okER);
}
inline void groupModels(Rng & rng) {
    reseed(rng);
    F::DDNGraph g = randGraph(rng);
    const auto & S = g.getS(); const auto & A = g.getA();
    {   // CooperativeModel
        size_t nB = (size_t)rng.below(4);
        auto tm = randTransitions(rng, g); auto rw = randRewards(rng, g, nB);
        FM::CooperativeModel m(g, tm, rw, 0.9375);
        stat(nB == 0 ? "coopmodel_no_reward_bases" : "coopmodel_reward_bases");
        bool okD = true;
        for (double d : {1.0, 0.5, 0x1p-30}) { m.setDiscount(d); if (m.getDiscount() != d) okD = false; }
        emit("CooperativeModel.setDiscount_round_trip", okD);
        bool okSR = true, okSRs = true;
        for (int t = 0; t < 4; ++t) {
            F::State s = randValue(rng, S); F::Action a = randValue(rng, A);
            double total = 0.0; std::vector<double> each;
            for (const auto & b : rw.bases) { each.push_back(b.values((long)F::toIndexPartial(b.tag, S, s), (long)F::toIndexPartial(b.actionTag, A, a))); total += each.back(); }
            F::State s1(S.size(), 99); s1.shrink_to_fit();
            double r = m.sampleSR(s, a, &s1);
            if (!inSpace(s1, S) || r != total || !(m.getTransitionProbability(s, a, s1) > 0.0)) okSR = false;
            F::State s2(S.size(), 99); s2.shrink_to_fit(); F::Rewards rs(nB); rs.fill(std::nan(""));
            m.sampleSRs(s, a, &s2, &rs);
            if (!inSpace(s2, S) || !(m.getTransitionProbability(s, a, s2) > 0.0)) okSRs = false;
            for (size_t i = 0; i < nB; ++i) if (rs[(long)i] != each[i]) okSRs = false;
        }
        emit("CooperativeModel.sampleSR_noalloc_state_reachable_reward_is_sum_of_bases", okSR);
        emit("CooperativeModel.sampleSRs_noalloc_state_reachable_one_reward_per_basis", okSRs);
    }
    {   // learned models over one experience
        FM::CooperativeExperience exp(g);
        emit("CooperativeExperience.getA_getS_are_the_graph_ones", exp.getA() == A && exp.getS() == S);
        F::Rewards r(S.size());
        int nrec = (int)rng.below(10);
        stat(nrec == 0 ? "learned_model_no_data" : "learned_model_with_data");
        for (int t = 0; t < nrec; ++t) { for (long i = 0; i < r.size(); ++i) r[i] = verif::dyadicReward(rng); exp.record(randValue(rng, S), randValue(rng, A), randValue(rng, S), r); }
        FM::CooperativeMaximumLikelihoodModel ml(exp, 0.875, true);
        learnedModelChecks(rng, "CooperativeMaximumLikelihoodModel", ml, exp, g);
        FM::CooperativeThompsonModel th(exp, 0.875);
        learnedModelChecks(rng, "CooperativeThompsonModel", th, exp, g);
    }
    {   // makeQFunction
        auto domains = randDomains(rng, S.size());
        FM::QFunction q = FM::makeQFunction(g, domains);
        bool ok = qShapeOk(q, g, domains.size()) && qAllEqual(q, 0.0);
        for (size_t b = 0; ok && b < domains.size(); ++b) {
            // the tags are the union of the parents of the features of the domain
            std::vector<size_t> at, st;
            for (auto d : domains[b]) { const auto & ps = g.getParentSets()[d]; at.insert(at.end(), ps.agents.begin(), ps.agents.end()); for (auto & f : ps.features) st.insert(st.end(), f.begin(), f.end()); }
            std::sort(at.begin(), at.end()); at.erase(std::unique(at.begin(), at.end()), at.end());
            std::sort(st.begin(), st.end()); st.erase(std::unique(st.begin(), st.end()), st.end());
            if (q.bases[b].actionTag != at || q.bases[b].tag != st) ok = false;
        }
        emit("MDP.makeQFunction.tags_are_union_of_parents_values_zero", ok);
    }
}

// ------------------------------------------------------------------------------------------------ group 8: environments
inline size_t countMachineLetters(const std::string & s) { size_t n = 0; for (char c : s) if (c == 'g' || c == 'f' || c == 'd' || c == 'i' || c == 'l') ++n; return n; }
inline void groupEnvironments(Rng & rng) {
    reseed(rng);
    {
        size_t agents = (size_t)rng.range(1, rng.coin(1, 4) ? 30 : 12);
        F::State s(agents * 2); for (auto & x : s) x = (size_t)rng.below(3); s.shrink_to_fit();
        std::string out = FM::printSysAdminRing(s);
        std::printf("#stat api_fmdp_ring_agents_%zu 1\n", agents);
        // "Each agent is represented with 2 characters": status letter + load letter, nothing else in the picture is a letter
        emit("printSysAdminRing.two_letters_per_agent", countMachineLetters(out) == 2 * agents);
    }
    {
        unsigned w = (unsigned)rng.range(1, 4), h = (unsigned)rng.range(1, 4);
        F::State s((size_t)w * h * 2); for (auto & x : s) x = (size_t)rng.below(3); s.shrink_to_fit();
        std::string out = FM::printSysAdminGrid(s, w);
        emit("printSysAdminGrid.two_letters_per_agent", countMachineLetters(out) == 2 * (size_t)w * h);
    }
    {
        unsigned w = (unsigned)rng.range(3, 6), h = (unsigned)rng.range(3, 6);
        FM::TigerAntelope env(w, h);
        const size_t cells = (size_t)w * h;
        F::State S = env.getS(); F::Action A = env.getA();
        emit("TigerAntelope.spaces_and_discount", S == F::State{cells, cells} && A == F::Action{5, 5} && env.getDiscount() > 0.0 && env.getDiscount() <= 1.0 && env.getAntelopeState() < cells);
        const size_t ant = env.getAntelopeState();
        auto drawState = [&] { F::State s(2); do { s[0] = (size_t)rng.below(cells); s[1] = (size_t)rng.below(cells); } while (s[0] == s[1] || s[0] == ant || s[1] == ant); s.shrink_to_fit(); return s; };
        F::State s = drawState();
        bool okStep = !env.isTerminalState(s), okPrint = true;
        for (int t = 0; t < 12; ++t) {
            F::Action a = randValue(rng, A);
            if (rng.coin(1, 3)) {                       // steer one tiger next to the antelope so that captures are exercised
                const auto & grid = env.getGrid();
                s[0] = (size_t)grid.getAdjacent(AI::MDP::GridWorldUtils::Directions4[rng.below(4)], grid(ant));
                if (s[1] == s[0] || s[1] == ant) s = drawState();
            }
            auto [s1, r] = env.sampleSRs(s, a);
            if (!inSpace(s1, S) || r.size() != 2 || !r.allFinite() || s1[0] == s1[1]) okStep = false;
            bool captured = r[0] == 37.5 && r[1] == 37.5;
            if (captured != env.isTerminalState(s1)) okStep = false;
            std::string pic = env.printState(s1);
            if (pic.size() != (size_t)h * ((size_t)w * 4 + 1) || (size_t)std::count(pic.begin(), pic.end(), '\n') != h) okPrint = false;
            if (pic.find("t1") == std::string::npos || pic.find("t2") == std::string::npos) okPrint = false;
            s = captured ? drawState() : s1;
        }
        emit("TigerAntelope.sampleSRs_states_valid_terminal_iff_captured", okStep);
        emit("TigerAntelope.printState_one_cell_per_grid_position", okPrint);
    }
}

// ------------------------------------------------------------------------------------------------ group 9: TigerAntelope on the 2x2 torus
// Kept in its own index because it ends the process under the sanitizers: on a 2x2 torus the antelope has only two distinct
// neighbouring cells, both tigers can stand on them, and TigerAntelope::sampleSRs (TigerAntelope.cpp:66-80) then draws from an
// EMPTY goodDirections vector (uniform_int_distribution(0, size_t(-1)) and an index into a null vector).  The constructor
// documents no minimum size.  Compile with -DC10_API_FMDP_NO_TINY_TORUS to leave the group out.
inline void groupTigerTinyTorus(Rng & rng) {
    reseed(rng);
    FM::TigerAntelope env(2, 2);
    const size_t ant = env.getAntelopeState();
    F::State S = env.getS(); F::Action A = env.getA();
    std::vector<size_t> freeCells; for (size_t c = 0; c < 4; ++c) if (c != ant) freeCells.push_back(c);
    bool ok = S == F::State{4, 4};
    stat("tiger_2x2");
    for (int t = 0; t < 40 && ok; ++t) {
        size_t i = (size_t)rng.below(3), j = (i + 1 + (size_t)rng.below(2)) % 3;
        F::State s{freeCells[i], freeCells[j]};
        auto [s1, r] = env.sampleSRs(s, randValue(rng, A));
        if (!inSpace(s1, S) || r.size() != 2) ok = false;
    }
    emit("TigerAntelope.torus_2x2_sampleSRs_states_in_space", ok);
}

} // namespace fmdp_detail

inline void api_fmdp(verif::Rng & rng, long idx) {
    using namespace fmdp_detail;
    switch (idx % 12) {
        case 0:  groupLocalSearch(rng); break;
        case 1:  groupMining(rng); break;
        case 2:  groupBanditPolicies(rng); break;
        case 3:  groupThompson(rng); break;
        case 4:  groupCpsQueue(rng); break;
        case 5:  groupCps(rng, 0); break;
        case 6:  groupCps(rng, 1); break;
        case 7:  groupCps(rng, 2); break;
        case 8:  groupLearners(rng); break;
        case 9:  groupModels(rng); break;
        case 10: groupEnvironments(rng); break;
#ifndef C10_API_FMDP_NO_TINY_TORUS
        default: groupTigerTinyTorus(rng); break;
#else
        default: groupCpsQueue(rng); break;
#endif
    }
}

} // namespace c10api
