// C11 correspondence harness: tabular reinforcement learners.
// Drives the REAL library classes with seeded experience sequences and prints, per sequence, the inputs and
// the implementation's table (and trace list) after every step, as exact double tokens.
//   td    : QLearning, HystereticQLearning, SARSA, ExpectedSARSA, DoubleQLearning, DynaQ::stepUpdateQ
//   tr    : SARSAL, QL, RetraceL, TreeBackupL, ImportanceSampling + their Evaluation variants
//   ps    : PrioritizedSweeping<MDP::Model> run until its queue is empty, with ValueIteration's Q
//   dynab : DynaQ::batchUpdateQ on a deterministic generative model
#include "common/verif.hpp"
#include <AIToolbox/MDP/Algorithms/QLearning.hpp>
#include <AIToolbox/MDP/Algorithms/DoubleQLearning.hpp>
#include <AIToolbox/MDP/Algorithms/HystereticQLearning.hpp>
#include <AIToolbox/MDP/Algorithms/SARSA.hpp>
#include <AIToolbox/MDP/Algorithms/ExpectedSARSA.hpp>
#include <AIToolbox/MDP/Algorithms/SARSAL.hpp>
#include <AIToolbox/MDP/Algorithms/QL.hpp>
#include <AIToolbox/MDP/Algorithms/RetraceL.hpp>
#include <AIToolbox/MDP/Algorithms/TreeBackupL.hpp>
#include <AIToolbox/MDP/Algorithms/ImportanceSampling.hpp>
#include <AIToolbox/MDP/Algorithms/PrioritizedSweeping.hpp>
#include <AIToolbox/MDP/Algorithms/DynaQ.hpp>
#include <AIToolbox/MDP/Algorithms/Dyna2.hpp>
#include <AIToolbox/MDP/Algorithms/ValueIteration.hpp>
#include <AIToolbox/MDP/Policies/Policy.hpp>
#include <AIToolbox/MDP/Policies/QGreedyPolicy.hpp>
#include <AIToolbox/MDP/Policies/EpsilonPolicy.hpp>
#include <AIToolbox/MDP/Algorithms/RLearning.hpp>
#include <AIToolbox/MDP/Model.hpp>
#include <AIToolbox/MDP/SparseModel.hpp>
#include <AIToolbox/MDP/Experience.hpp>
#include <AIToolbox/MDP/MaximumLikelihoodModel.hpp>
#include <boost/multi_array.hpp>
#include <algorithm>

using namespace verif;
namespace AI = AIToolbox;
namespace M = AIToolbox::MDP;

static const long kFixed = 20;

long verif::verif_ncases(const std::string & tier) { return kFixed + (tier == "thorough" ? 20000 : 1600); }

// ---------------------------------------------------------------- parameter streams
struct Params {
    size_t S, A; double g, alpha, beta, lam, tol, eps; double rmin, rmax; bool ugly; int maxSteps;
};

static double pickD(Rng & r, std::initializer_list<double> l) { std::vector<double> v(l); return r.pick(v); }

static Params drawParams(Rng & rng, const std::string & tier, bool allowG1) {
    Params p;
    p.ugly = rng.coin(1, 4);
    p.S = (size_t)rng.range(1, 4); p.A = (size_t)rng.range(1, 3);
    if (rng.coin(1, 8)) { p.S = (size_t)rng.range(4, 6); p.A = (size_t)rng.range(3, 4); }
    if (!p.ugly) {
        p.g = pickD(rng, {0.5, 0.75, 0.875, 0.25, 0.5});
        p.alpha = pickD(rng, {1.0, 0.5, 0.25, 0.125, 0.5});
        p.beta = pickD(rng, {0.0, 0.5, 0.25, 1.0, 0.125});
        p.lam = pickD(rng, {0.0, 0.25, 0.5, 0.75, 1.0, 0.5});
        p.tol = pickD(rng, {0.125, 0.015625, 0.0009765625, 0.0, 0.5, 1.0, 0.25});
        p.eps = pickD(rng, {0.0, 0.25, 0.5, 1.0, 0.125});
    } else {
        p.g = pickD(rng, {0.9, 0.95, 1.0 / 3.0, 0.99, 0.7});
        p.alpha = pickD(rng, {0.1, 0.3, 1.0 / 3.0, 0.05, 1.0});
        p.beta = pickD(rng, {0.01, 0.3, 0.0, 0.1});
        p.lam = pickD(rng, {0.0, 0.9, 0.3, 1.0, 0.6});
        p.tol = pickD(rng, {0.001, 0.01, 0.1, 1e-7, -1.0, 0.3});
        p.eps = pickD(rng, {0.1, 0.05, 0.3, 0.0, 0.9});
    }
    if (allowG1 && rng.coin(1, 10)) p.g = 1.0;
    // reward ranges: straddling zero, all positive, all negative
    int sh = (int)rng.below(4);
    if (sh <= 1) { p.rmin = -(double)rng.range(0, 16) / 4; p.rmax = (double)rng.range(0, 16) / 4; }
    else if (sh == 2) { p.rmin = (double)rng.range(1, 8) / 4; p.rmax = p.rmin + (double)rng.range(0, 8) / 4; }
    else { p.rmax = -(double)rng.range(1, 8) / 4; p.rmin = p.rmax - (double)rng.range(0, 8) / 4; }
    int cap = tier == "thorough" ? 2000 : 300;
    int bucket = (int)rng.below(10);
    p.maxSteps = bucket < 5 ? (int)rng.range(1, 20) : bucket < 9 ? (int)rng.range(20, 100) : (int)rng.range(100, cap);
    return p;
}

static double drawReward(Rng & rng, const Params & p) {
    if (p.ugly && rng.coin()) { double u = (double)(rng.next() >> 11) / 9007199254740992.0; return p.rmin + u * (p.rmax - p.rmin); }
    if (rng.coin(1, 6)) return rng.coin() ? p.rmin : p.rmax;      // extremes: the bound is approached only there
    long lo = (long)std::ceil(p.rmin * 4), hi = (long)std::floor(p.rmax * 4);
    return (double)rng.range(lo, hi) / 4;
}

static void putTable(Line & l, const M::QFunction & q) {
    for (long s = 0; s < q.rows(); ++s) for (long a = 0; a < q.cols(); ++a) l << q(s, a);
}

static M::QFunction randTable(Rng & rng, size_t S, size_t A, int span) {
    M::QFunction q(S, A);
    for (size_t s = 0; s < S; ++s) for (size_t a = 0; a < A; ++a) q(s, a) = (double)rng.range(-span * 4, span * 4) / 4;
    return q;
}

// value tables on which the tolerance-based tie test of QGreedyPolicy (checkEqualGeneral) matters: exact ties, chains of near-ties
// (steps of 2^-20 = 9.5e-7 < 1e-6: neighbours tie, ends do not), mirrored +-x, magnitudes ~2^20 where the relative tolerance
// (1e-11 * 1e6 = 1e-5) is wider than the absolute one (gaps of 2^-18 = 3.8e-6 tie only relatively), values around zero
static M::QFunction structuredTable(Rng & rng, size_t S, size_t A) {
    M::QFunction q(S, A);
    static const char * names[] = {"exact-ties", "near-tie-chain", "mirrored", "large-pos", "large-neg", "generic", "tiny"};
    for (size_t s = 0; s < S; ++s) {
        int pat = (int)rng.below(7);
        double base = (double)rng.range(-12, 12) / 4;
        for (size_t a = 0; a < A; ++a) {
            switch (pat) {
                case 0: q(s, a) = base + 0.5 * (double)rng.below(2); break;
                case 1: q(s, a) = base + std::ldexp((double)rng.below(3), -20); break;
                case 2: q(s, a) = (rng.coin() ? 1.0 : -1.0) * (double)rng.range(0, 3) / 4; break;
                case 3: q(s, a) = std::ldexp((double)rng.range(1, 2), 20) + std::ldexp((double)rng.below(3), -18); break;
                case 4: q(s, a) = -std::ldexp((double)rng.range(1, 2), 20) + std::ldexp((double)rng.below(3), -18); break;
                case 5: q(s, a) = (double)rng.range(-24, 24) / 4; break;
                default: q(s, a) = std::ldexp((double)rng.range(-2, 2), -22); break;
            }
        }
        std::printf("#stat row-%s 1\n", names[pat]);
    }
    return q;
}

// random policy matrix with dyadic (k/16) entries; `positive` forces every entry > 0; sometimes deterministic
static AI::Matrix2D randPolicy(Rng & rng, size_t S, size_t A, bool positive) {
    AI::Matrix2D p(S, A);
    bool det = !positive && rng.coin(1, 3);
    for (size_t s = 0; s < S; ++s) {
        if (det) { p.row(s).setZero(); p(s, rng.below(A)) = 1.0; continue; }
        std::vector<int> k(A, positive ? 1 : 0);
        int left = 16 - (positive ? (int)A : 0);
        for (int i = 0; i < left; ++i) k[rng.below(A)]++;
        for (size_t a = 0; a < A; ++a) p(s, a) = k[a] / 16.0;
    }
    return p;
}

struct Exp { size_t s, a, s1, a1; double r; };

// experience stream: mostly chained (s <- s1, a <- a1), sometimes restarts; sometimes hammers one pair
struct ExpGen {
    size_t S, A; size_t s, a; bool hammer; size_t hs, ha;
    ExpGen(Rng & rng, size_t S_, size_t A_) : S(S_), A(A_) { s = rng.below(S); a = rng.below(A); hammer = rng.coin(1, 6); hs = rng.below(S); ha = rng.below(A); }
    Exp next(Rng & rng, const Params & p) {
        Exp e;
        if (hammer && rng.coin(3, 4)) { e.s = hs; e.a = ha; e.s1 = rng.coin() ? hs : rng.below(S); e.a1 = rng.coin() ? ha : rng.below(A); }
        else { e.s = s; e.a = a; e.s1 = rng.below(S); e.a1 = rng.below(A); }
        e.r = drawReward(rng, p);
        if (rng.coin(1, 8)) { s = rng.below(S); a = rng.below(A); } else { s = e.s1; a = e.a1; }
        return e;
    }
};

// ---------------------------------------------------------------- one-step learners
enum TD { QL_, HYST_, SARSA_, ESARSA_, DQ_, DYNA_ };
static const char * tdName[] = {"ql", "hyst", "sarsa", "esarsa", "dq", "dyna"};

static void case_td(Rng & rng, TD L, int mode, const std::string & tier, const Params * forced = nullptr, int polKind = 0) {
    Params p = forced ? *forced : drawParams(rng, tier, false);
    // polKind 1: ExpectedSARSA(q, QGreedyPolicy(q)); 2: ExpectedSARSA(q, EpsilonPolicy(QGreedyPolicy(q), eps2)) -- the policy object
    // reads the table the learner updates
    double eps2 = p.ugly ? pickD(rng, {0.1, 0.3, 0.05}) : pickD(rng, {0.25, 0.5, 0.125, 1.0, 0.0});
    if (polKind && mode == 1) eps2 = 0.0;
    if (polKind && mode == 2 && p.maxSteps > 25) p.maxSteps = 25;
    size_t S = p.S, A = p.A;
    M::QFunction init = M::makeQFunction(S, A);
    std::vector<std::vector<size_t>> next(S, std::vector<size_t>(A));
    AI::Matrix2D pol = randPolicy(rng, S, A, false);
    M::QFunction R(S, A);
    if (mode == 1) {
        // Q* by construction: pick the table, pick deterministic transitions, derive R := Q - g max Q(next)
        if (p.ugly) { p.g = 0.5; p.alpha = 0.25; p.ugly = false; }
        init = randTable(rng, S, A, 8);
        for (size_t s = 0; s < S; ++s) for (size_t a = 0; a < A; ++a) next[s][a] = rng.below(S);
        for (size_t s = 0; s < S; ++s) for (size_t a = 0; a < A; ++a) R(s, a) = init(s, a) - p.g * init.row(next[s][a]).maxCoeff();
        pol.setZero();
        for (size_t s = 0; s < S; ++s) { long am; init.row(s).maxCoeff(&am); pol(s, am) = 1.0; }
    } else if (mode == 2) {
        init = polKind ? structuredTable(rng, S, A) : randTable(rng, S, A, 6);
    } else if (mode == 3) {
        // learners without a table setter (Hysteretic, SARSA; also QLearning/DynaQ through their update only): a layered
        // deterministic MDP (every action leads to a later state, the last state is absorbing and pays 0) is solved EXACTLY by one
        // backward sweep with step size 1; the sweep is part of the sequence, the steps after it are clause-2 steps
        if (p.ugly) { p.g = 0.5; p.ugly = false; }
        if (S < 2) S = p.S = 2;
        next.assign(S, std::vector<size_t>(A));
        R = randTable(rng, S, A, 3);
        for (size_t s = 0; s + 1 < S; ++s) for (size_t a = 0; a < A; ++a) next[s][a] = (size_t)rng.range((long)s + 1, (long)S - 1);
        for (size_t a = 0; a < A; ++a) { next[S - 1][a] = S - 1; R(S - 1, a) = 0.0; }
        p.alpha = 1.0; p.beta = 1.0;
        pol = AI::Matrix2D::Constant(S, A, 1.0 / A);
        init = M::makeQFunction(S, A);
    }
    const int k0 = mode == 3 ? (int)((S - 1) * A) : 0;
    M::Policy policy(pol);
    M::QFunction ext = init;                       // ExpectedSARSA works on a caller-owned table
    M::QGreedyPolicy gpol(ext); M::EpsilonPolicy epol(gpol, eps2);
    const M::PolicyInterface & espol = polKind == 1 ? static_cast<const M::PolicyInterface &>(gpol) : polKind == 2 ? static_cast<const M::PolicyInterface &>(epol) : static_cast<const M::PolicyInterface &>(policy);
    std::unique_ptr<M::QLearning> ql; std::unique_ptr<M::HystereticQLearning> hy; std::unique_ptr<M::SARSA> sa;
    std::unique_ptr<M::ExpectedSARSA> es; std::unique_ptr<M::DoubleQLearning> dq;
    M::Model dummy(S, A, p.g); std::unique_ptr<M::DynaQ<M::Model>> dy;
    switch (L) {
        case QL_: ql.reset(new M::QLearning(S, A, p.g, p.alpha)); if (mode) ql->setQFunction(init); break;
        case HYST_: hy.reset(new M::HystereticQLearning(S, A, p.g, p.alpha, p.beta)); break;
        case SARSA_: sa.reset(new M::SARSA(S, A, p.g, p.alpha)); break;
        case ESARSA_: es.reset(new M::ExpectedSARSA(ext, espol, p.g, p.alpha)); break;
        case DQ_: dq.reset(new M::DoubleQLearning(S, A, p.g, p.alpha)); if (mode) dq->setQFunction(init); break;
        case DYNA_: dy.reset(new M::DynaQ<M::Model>(dummy, p.alpha, 1)); break;
    }
    // mode 0: "zero-initialised tables" is part of the property -- report what the CONSTRUCTOR produced, not what the harness assumes
    M::QFunction initC = init * 2;
    if (mode == 0) switch (L) {
        case QL_: init = ql->getQFunction(); break;
        case HYST_: init = hy->getQFunction(); break;
        case SARSA_: init = sa->getQFunction(); break;
        case ESARSA_: break;                                   // caller-owned table
        case DQ_: init = dq->getQFunctionA(); initC = dq->getQFunction(); break;
        case DYNA_: init = dy->getQFunction(); break;
    }
    Line l; l << "C11" << "td" << (polKind ? "esarsap" : tdName[L]) << S << A << p.g << p.rmin << p.rmax << mode;
    if (polKind) l << polKind << eps2;
    else if (L == ESARSA_) putTable(l, pol);
    putTable(l, init);
    if (L == DQ_) putTable(l, initC);
    int n = p.maxSteps + k0;
    if (mode == 3) l << k0;
    l << n;
    ExpGen gen(rng, S, A);
    double alpha = p.alpha, beta = p.beta, gamma = p.g; int nDisc = 0;
    for (int k = 0; k < n; ++k) {
        Exp e = gen.next(rng, p);
        if (mode == 1) {
            e.s1 = next[e.s][e.a]; e.r = R(e.s, e.a);
            long am; init.row(e.s1).maxCoeff(&am); e.a1 = (size_t)am;
        }
        if (mode == 3) {
            if (k < k0) { e.s = S - 2 - (size_t)k / A; e.a = (size_t)k % A; }      // backward sweep
            e.s1 = next[e.s][e.a]; e.r = R(e.s, e.a);
            const M::QFunction & cur = L == HYST_ ? hy->getQFunction() : L == SARSA_ ? sa->getQFunction() : L == QL_ ? ql->getQFunction() : dy->getQFunction();
            long am; cur.row(e.s1).maxCoeff(&am); e.a1 = (size_t)am;                  // greedy next action (SARSA)
        }
        // step sizes may be changed between steps through the public setters
        if (rng.coin(1, 5) && !(mode == 3 && k < k0)) {
            alpha = p.ugly ? pickD(rng, {0.1, 0.3, 1.0, 0.7}) : pickD(rng, {1.0, 0.5, 0.25, 0.125});
            beta = p.ugly ? pickD(rng, {0.0, 0.2, 1.0}) : pickD(rng, {0.0, 0.5, 0.25});
            switch (L) {
                case QL_: ql->setLearningRate(alpha); break;
                case HYST_: hy->setPositiveLearningRate(alpha); hy->setNegativeLearningRate(beta); break;
                case SARSA_: sa->setLearningRate(alpha); break;
                case ESARSA_: es->setLearningRate(alpha); break;
                case DQ_: dq->setLearningRate(alpha); break;
                case DYNA_: dy->setLearningRate(alpha); break;
            }
        }
        // ... and so may the discount (modes without a fixed-point clause; DynaQ has no such setter)
        if (rng.coin(1, 10) && (mode == 0 || mode == 2) && L != DYNA_) {
            gamma = p.ugly ? pickD(rng, {0.9, 0.3, 0.99, 0.5}) : pickD(rng, {0.5, 0.25, 0.75, 0.875, 0.125});
            switch (L) {
                case QL_: ql->setDiscount(gamma); break;
                case HYST_: hy->setDiscount(gamma); break;
                case SARSA_: sa->setDiscount(gamma); break;
                case ESARSA_: es->setDiscount(gamma); break;
                case DQ_: dq->setDiscount(gamma); break;
                case DYNA_: break;
            }
            ++nDisc;
        }
        l << e.s << e.a << e.s1 << e.a1 << e.r << alpha << beta << gamma;
        switch (L) {
            case QL_: ql->stepUpdateQ(e.s, e.a, e.s1, e.r); putTable(l, ql->getQFunction()); break;
            case HYST_: hy->stepUpdateQ(e.s, e.a, e.s1, e.r); putTable(l, hy->getQFunction()); break;
            case SARSA_: sa->stepUpdateQ(e.s, e.a, e.s1, e.a1, e.r); putTable(l, sa->getQFunction()); break;
            case ESARSA_: es->stepUpdateQ(e.s, e.a, e.s1, e.r); putTable(l, es->getQFunction()); break;
            case DQ_: dq->stepUpdateQ(e.s, e.a, e.s1, e.r); putTable(l, dq->getQFunctionA()); putTable(l, dq->getQFunction()); break;
            case DYNA_: dy->stepUpdateQ(e.s, e.a, e.s1, e.r); putTable(l, dy->getQFunction()); break;
        }
    }
    l.emit();
    std::printf("#stat td-%s-mode%d 1\n", polKind ? (polKind == 1 ? "esarsa-greedyobj" : "esarsa-epsobj") : tdName[L], mode);
    std::printf("#stat steps %d\n", n);
    if (nDisc) std::printf("#stat td-setDiscount %d\n", nDisc);
    if (p.ugly) std::printf("#stat ugly 1\n");
}

// ---------------------------------------------------------------- trace learners
enum TR { SARSAL_, CQL, CRETRACE, CTB, CIS, EQL, ERETRACE, ETB, EIS };
static const char * trName[] = {"sarsal", "c-ql", "c-retrace", "c-tb", "c-is", "e-ql", "e-retrace", "e-tb", "e-is"};

// deterministic MDP whose optimal Q-function is `init` by construction (used by the fixed-point clause)
struct Star { bool on = false; std::vector<std::vector<size_t>> next; M::QFunction R, q; };
static Star g_star;
static bool g_book = true;      // forced witness cases run without clearTraces/setTraces events

template <class Learner>
static void run_tr(Line & l, Learner & lr, Rng & rng, const Params & p, const AI::Matrix2D & behav, bool sarsal) {
    int n = p.maxSteps, done = 0;
    Line body;
    ExpGen gen(rng, p.S, p.A);
    // episode boundaries and trace hand-over through the public interface: clearTraces(), getTraces() kept by the caller,
    // setTraces(kept) (this is what Dyna2 does between its two learners)
    typename Learner::Traces kept;
    bool bookkeeping = g_book && rng.coin(1, 2);
    int nClear = 0, nRestore = 0, nParam = 0;
    auto snapshot = [&]() {
        const auto & tr = lr.getTraces();
        body << (size_t)tr.size();
        for (const auto & [ts, ta, el] : tr) body << ts << ta << el;
        putTable(body, lr.getQFunction());
    };
    for (int k = 0; k < n; ++k) {
        if (bookkeeping && !g_star.on && rng.coin(1, 6)) {
            int ev = 1 + (int)rng.below(8);
            double val = 0.0;
            // parameter setters between steps: 4 setDiscount, 5 setLambda, 6 setLearningRate, 7 setTolerance (<= 1), 8 setEpsilon
            if (ev == 4) { val = p.ugly ? pickD(rng, {0.9, 0.3, 1.0, 0.7}) : pickD(rng, {0.5, 0.25, 0.75, 1.0, 0.875}); lr.setDiscount(val); }
            else if (ev == 5) {
                if constexpr (requires { lr.setLambda(0.5); }) { val = p.ugly ? pickD(rng, {0.0, 0.9, 0.3, 1.0}) : pickD(rng, {0.0, 0.25, 0.5, 1.0}); lr.setLambda(val); }
                else ev = 1;
            }
            else if (ev == 6) { val = p.ugly ? pickD(rng, {0.1, 0.3, 1.0}) : pickD(rng, {1.0, 0.5, 0.25, 0.125}); lr.setLearningRate(val); }
            else if (ev == 7) { val = p.ugly ? pickD(rng, {0.001, 0.1, 0.3, -1.0}) : pickD(rng, {0.125, 0.015625, 0.0, 0.5, 1.0}); if (p.tol > 1.0) val = p.tol; lr.setTolerance(val); }
            else if (ev == 8) {
                if constexpr (requires { lr.setEpsilon(0.5); }) { val = p.ugly ? pickD(rng, {0.1, 0.05, 0.9}) : pickD(rng, {0.0, 0.25, 0.5, 1.0}); lr.setEpsilon(val); }
                else ev = 2;
            }
            if (ev == 1) { lr.clearTraces(); ++nClear; }
            else if (ev == 2) kept = lr.getTraces();
            else if (ev == 3) { lr.setTraces(kept); ++nRestore; }
            else ++nParam;
            body << ev; if (ev >= 4) body << val; snapshot(); ++done;
            continue;
        }
        Exp e = gen.next(rng, p);
        // the action taken must be possible under the behaviour policy (its probability is a divisor)
        if (behav(e.s, e.a) <= 0.0) for (size_t a = 0; a < p.A; ++a) if (behav(e.s, a) > 0.0) { e.a = a; break; }
        if (g_star.on) {
            e.s1 = g_star.next[e.s][e.a]; e.r = g_star.R(e.s, e.a);
            long am; g_star.q.row(e.s1).maxCoeff(&am); e.a1 = (size_t)am;
        }
        if constexpr (std::is_same_v<Learner, M::SARSAL>) lr.stepUpdateQ(e.s, e.a, e.s1, e.a1, e.r);
        else lr.stepUpdateQ(e.s, e.a, e.s1, e.r);
        const auto & tr = lr.getTraces();
        // importance-sampling ratios above one with a non-positive cut-off make traces (and then the table) grow without
        // bound; the sequence is cut before doubles overflow (the exact-rational model has no infinities)
        bool big = !(lr.getQFunction().cwiseAbs().maxCoeff() < 1e60);
        for (const auto & [ts, ta, el] : tr) if (!(std::fabs(el) < 1e60)) big = true;
        if (big) { std::printf("#stat tr-diverged 1\n"); break; }
        body << 0 << e.s << e.a << e.s1 << e.a1 << e.r;
        snapshot();
        ++done;
    }
    l << done;
    if (done) l << body.os.str();
    if (nClear) std::printf("#stat tr-clearTraces %d\n", nClear);
    if (nRestore) std::printf("#stat tr-setTraces %d\n", nRestore);
    if (nParam) std::printf("#stat tr-parameter-setters %d\n", nParam);
    (void)sarsal;
}

static void case_tr(Rng & rng, TR L, const std::string & tier, const Params * forced = nullptr, bool randomInit = true, bool star = false, bool pobj = false) {
    Params p = forced ? *forced : drawParams(rng, tier, true);
    g_book = !forced;
    if (!forced && rng.coin(1, 4)) p.lam = 0.0;
    if (!forced && p.maxSteps > 150) p.maxSteps = 150;
    size_t S = p.S, A = p.A;
    AI::Matrix2D pt = randPolicy(rng, S, A, false), pb = randPolicy(rng, S, A, rng.coin(2, 3));
    // policy OBJECTS instead of stored matrices: QGreedyPolicy / EpsilonPolicy(QGreedyPolicy) over a caller-owned value table
    // (kinds: 0 stored matrix, 1 greedy object, 2 epsilon-greedy object); the behaviour object must give every action it is
    // asked about a positive probability, so it is the matrix or an epsilon-greedy object with epsilon > 0
    int kt = 0, kb = 0; double et = 0.0, eb = 0.0;
    M::QFunction tt = M::makeQFunction(S, A), tb = M::makeQFunction(S, A);
    if (pobj) {
        if (rng.coin(1, 3)) p.lam = 0.0;
        if (p.maxSteps > 60) p.maxSteps = 60;
        kt = (int)rng.range(1, 2); kb = rng.coin(2, 3) ? 2 : 0;
        et = p.ugly ? pickD(rng, {0.1, 0.3, 0.0}) : pickD(rng, {0.0, 0.25, 0.5, 1.0});
        eb = p.ugly ? pickD(rng, {0.1, 0.3, 0.9}) : pickD(rng, {0.25, 0.5, 1.0, 0.125});
        tt = structuredTable(rng, S, A); tb = rng.coin() ? tt : structuredTable(rng, S, A);
    }
    M::QGreedyPolicy gT(tt), gB(tb); M::EpsilonPolicy eT(gT, et), eB(gB, eb);
    M::Policy targetM(pt), behaviourM(pb);
    const M::PolicyInterface & target = kt == 1 ? static_cast<const M::PolicyInterface &>(gT) : kt == 2 ? static_cast<const M::PolicyInterface &>(eT) : static_cast<const M::PolicyInterface &>(targetM);
    const M::PolicyInterface & behaviour = kb == 2 ? static_cast<const M::PolicyInterface &>(eB) : static_cast<const M::PolicyInterface &>(behaviourM);
    if (kb == 2) pb = AI::Matrix2D::Ones(S, A);      // every action possible
    M::QFunction init = (randomInit && rng.coin()) ? randTable(rng, S, A, 4) : M::makeQFunction(S, A);
    g_star.on = false;
    if (star) {
        if (p.ugly || p.g == 1.0) { p.g = 0.5; p.alpha = 0.25; p.lam = 0.5; p.tol = 0.0625; p.ugly = false; }
        p.eps = 0.0;
        init = randTable(rng, S, A, 8);
        g_star.on = true; g_star.q = init; g_star.R = M::QFunction(S, A);
        g_star.next.assign(S, std::vector<size_t>(A));
        for (size_t s = 0; s < S; ++s) for (size_t a = 0; a < A; ++a) {
            g_star.next[s][a] = rng.below(S);
            g_star.R(s, a) = init(s, a) - p.g * init.row(g_star.next[s][a]).maxCoeff();
        }
    }
    double lam = (L == CIS || L == EIS) ? 1.0 : p.lam;
    if (p.tol > 1.0) {
        // a cut-off above one: either the (repaired) library rejects it, or the run goes ahead and the driver judges it
        try { M::SARSAL probe(S, A, p.g, p.alpha, 0.5, p.tol); M::QL probe2(S, A, p.g, p.alpha, 0.5, p.tol, 0.0); }
        catch (const std::invalid_argument &) { Line l; l << "C11" << "tolguard" << trName[L] << p.tol; l.emit(); return; }
    }
    Line l; l << "C11" << (pobj ? "trp" : "tr") << trName[L] << S << A << p.g << p.alpha << lam << p.tol << p.eps;
    if (pobj) { l << kt << et << kb << eb; putTable(l, tt); putTable(l, tb); }
    putTable(l, pt); putTable(l, pb);
    // when the start table is the zero table it is NOT installed with setQFunction: the constructor's own table is reported
    const bool fresh = init.isZero(0.0);
    auto start = [&](auto & lr) { if (fresh) init = lr.getQFunction(); else lr.setQFunction(init); putTable(l, init); l << (fresh ? 1 : 0); };
    switch (L) {
        case SARSAL_: { M::SARSAL lr(S, A, p.g, p.alpha, p.lam, p.tol); start(lr); run_tr(l, lr, rng, p, AI::Matrix2D::Ones(S, A), true); break; }
        case CQL: { M::QL lr(S, A, p.g, p.alpha, p.lam, p.tol, p.eps); start(lr); run_tr(l, lr, rng, p, AI::Matrix2D::Ones(S, A), false); break; }
        case CRETRACE: { M::RetraceL lr(behaviour, p.g, p.alpha, p.lam, p.tol, p.eps); start(lr); run_tr(l, lr, rng, p, pb, false); break; }
        case CTB: { M::TreeBackupL lr(S, A, p.g, p.alpha, p.lam, p.tol, p.eps); start(lr); run_tr(l, lr, rng, p, AI::Matrix2D::Ones(S, A), false); break; }
        case CIS: { M::ImportanceSampling lr(behaviour, p.g, p.alpha, p.tol, p.eps); start(lr); run_tr(l, lr, rng, p, pb, false); break; }
        case EQL: { M::QLEvaluation lr(target, p.g, p.alpha, p.lam, p.tol); start(lr); run_tr(l, lr, rng, p, AI::Matrix2D::Ones(S, A), false); break; }
        case ERETRACE: { M::RetraceLEvaluation lr(target, behaviour, p.g, p.alpha, p.lam, p.tol); start(lr); run_tr(l, lr, rng, p, pb, false); break; }
        case ETB: { M::TreeBackupLEvaluation lr(target, p.g, p.alpha, p.lam, p.tol); start(lr); run_tr(l, lr, rng, p, AI::Matrix2D::Ones(S, A), false); break; }
        case EIS: { M::ImportanceSamplingEvaluation lr(target, behaviour, p.g, p.alpha, p.tol); start(lr); run_tr(l, lr, rng, p, pb, false); break; }
    }
    l.emit();
    std::printf("#stat tr-%s%s 1\n", trName[L], pobj ? "-policyobj" : "");
    if (pobj) std::printf("#stat target-kind-%d 1\n#stat behaviour-kind-%d 1\n", kt, kb);
    if (p.lam == 0.0) std::printf("#stat lambda0 1\n");
    if (p.ugly) std::printf("#stat ugly 1\n");
}

// ---------------------------------------------------------------- PrioritizedSweeping
// A model that satisfies IsModel but NOT IsModelEigen: PrioritizedSweeping then takes its generic branch
// (explicit loop over s1 with getTransitionProbability / getExpectedReward).
struct PlainModel {
    const M::Model & m; const boost::multi_array<double, 3> * r3;
    size_t getS() const { return m.getS(); }
    size_t getA() const { return m.getA(); }
    double getDiscount() const { return m.getDiscount(); }
    bool isTerminal(size_t s) const { return m.isTerminal(s); }
    std::tuple<size_t, double> sampleSR(size_t s, size_t a) const { return m.sampleSR(s, a); }
    double getTransitionProbability(size_t s, size_t a, size_t s1) const { return m.getTransitionProbability(s, a, s1); }
    double getExpectedReward(size_t s, size_t a, size_t s1) const { return (*r3)[s][a][s1]; }
};
static_assert(M::IsModel<PlainModel> && !M::IsModelEigen<PlainModel>);

static boost::multi_array<double, 3> g_R3;   // the 3-D rewards the model was built from (getExpectedReward of a dense Model returns the 2-D mean)

template <class Mod>
static void run_ps(Rng & rng, const Mod & mod, const M::Model & model, const char * kind, bool stepwise) {
    size_t S = model.getS(), A = model.getA();
    double theta = std::ldexp(1.0, -40);
    // stepwise runs also use real thresholds: the residual bound gamma*theta*N (theorem ps_residual_bound) is then checked
    if (stepwise && rng.coin()) theta = pickD(rng, {0.125, 0.5, 1.0, 0.0009765625, 0.03125});
    M::PrioritizedSweeping<Mod> ps(mod, theta, stepwise ? 1 : 64);
    // explicit backups: a random order over all pairs (sometimes with repeats, rarely incomplete)
    std::vector<std::pair<size_t, size_t>> order;
    for (size_t s = 0; s < S; ++s) for (size_t a = 0; a < A; ++a) order.emplace_back(s, a);
    for (size_t i = order.size(); i > 1; --i) std::swap(order[i - 1], order[rng.below(i)]);
    if (rng.coin(1, 3)) for (int i = 0; i < 3; ++i) order.push_back(order[rng.below(order.size())]);
    if (rng.coin(1, 10)) order.pop_back();
    // setQFunction: the table is replaced but the value function (vfun_) and the queue are NOT -- the documented contract
    // (queue empty + every pair backed up => value iteration's table) must survive a start from an arbitrary table, and a
    // replacement in mid-run followed by a fresh sweep over all pairs
    bool initQ = rng.coin(1, 3) && theta < 1e-6;
    bool midQ = !stepwise && rng.coin(1, 5);
    Line l; l << "C11" << (stepwise ? "psw" : "ps") << kind << S << A << model.getDiscount() << theta;
    for (size_t s = 0; s < S; ++s) for (size_t a = 0; a < A; ++a) for (size_t s1 = 0; s1 < S; ++s1) l << model.getTransitionProbability(s, a, s1);
    putTable(l, model.getRewardFunction());
    for (size_t s = 0; s < S; ++s) for (size_t a = 0; a < A; ++a) for (size_t s1 = 0; s1 < S; ++s1) l << g_R3[s][a][s1];
    auto snapshot = [&](Line & o) {
        putTable(o, ps.getQFunction());
        for (size_t s = 0; s < S; ++s) o << ps.getValueFunction().values[s];
        o << (size_t)ps.getQueueLength();
    };
    if (initQ) std::printf("#stat ps-setQFunction-start 1\n");
    if (midQ) std::printf("#stat ps-setQFunction-midrun 1\n");
    if (!stepwise) {
        bool interleave = rng.coin();
        Line ops; size_t nops = 0;
        if (initQ) { M::QFunction q0 = randTable(rng, S, A, 6); ps.setQFunction(q0); ops << 2; putTable(ops, q0); ++nops; }
        for (auto [s, a] : order) { ps.stepUpdateQ(s, a); ops << 1 << s << a; ++nops; if (interleave && rng.coin()) ps.batchUpdateQ(); }
        if (midQ) {
            M::QFunction q1 = randTable(rng, S, A, 6); ps.setQFunction(q1); ops << 2; putTable(ops, q1); ++nops;
            for (size_t s = S; s-- > 0; ) for (size_t a = 0; a < A; ++a) { ps.stepUpdateQ(s, a); ops << 1 << s << a; ++nops; if (interleave && rng.coin()) ps.batchUpdateQ(); }
        }
        long guard = 0;
        while (ps.getQueueLength() > 0 && guard++ < 20000) ps.batchUpdateQ();
        M::ValueIteration vi(2000, 0.0);   // tolerance 0 = run the whole horizon; 0.875^2000 is far below one ulp
        auto [bound, vf, viQ] = vi(model);
        (void)bound; (void)vf;
        l << nops << ops.os.str();
        l << "|";
        snapshot(l);
        putTable(l, viQ);
    } else {
        // every public call is one event: `1 s a` = stepUpdateQ(s,a), `0` = batchUpdateQ() with N = 1, `2 table` = setQFunction; state after each
        size_t nev = 0;
        Line body;
        auto doStep = [&](size_t s, size_t a) { ps.stepUpdateQ(s, a); body << 1 << s << a; snapshot(body); ++nev; };
        auto doPop = [&]() { ps.batchUpdateQ(); body << 0; snapshot(body); ++nev; };
        if (initQ) { M::QFunction q0 = randTable(rng, S, A, 6); ps.setQFunction(q0); body << 2; putTable(body, q0); snapshot(body); ++nev; }
        for (auto [s, a] : order) { doStep(s, a); while (rng.coin(1, 3) && ps.getQueueLength() > 0 && nev < 400) doPop(); }
        while (ps.getQueueLength() > 0 && nev < 400) doPop();
        l << nev << body.os.str();
    }
    l.emit();
    std::printf("#stat ps-%s%s 1\n", kind, stepwise ? "-stepwise" : "");
    if (theta > 1e-6) std::printf("#stat ps-positive-threshold 1\n");
}

static void case_ps(Rng & rng, const std::string & tier, int kind = -1, int stepwise = -1, int tiny = -1) {
    size_t S = (size_t)rng.range(2, tier == "thorough" ? 5 : 4), A = (size_t)rng.range(1, 3);
    double g = pickD(rng, {0.5, 0.75, 0.875, 0.5});
    boost::multi_array<double, 3> T(boost::extents[S][A][S]), R(boost::extents[S][A][S]);
    bool sparse = rng.coin();
    if (kind < 0) kind = (int)rng.below(3);
    // a transition of probability 2^-21 (< the library's 1e-6 "small" tolerance, but not zero) in some rows
    bool withTiny = tiny < 0 ? (kind != 1 && rng.coin(1, 6)) : tiny != 0;
    const double eps = std::ldexp(1.0, -21);
    for (size_t s = 0; s < S; ++s) for (size_t a = 0; a < A; ++a) {
        std::vector<int> k(S, 0);
        if (sparse) { size_t t1 = rng.below(S), t2 = rng.below(S); int h = (int)rng.range(0, 8); k[t1] += h; k[t2] += 8 - h; }
        else for (int i = 0; i < 8; ++i) k[rng.below(S)]++;
        for (size_t s1 = 0; s1 < S; ++s1) { T[s][a][s1] = k[s1] / 8.0; R[s][a][s1] = (double)rng.range(-8, 8) / 4; }
        if (withTiny && (tiny > 0 || rng.coin())) {
            size_t from = 0, to = 0;
            for (size_t s1 = 0; s1 < S; ++s1) if (k[s1] > k[from]) from = s1;
            for (size_t s1 = 0; s1 < S; ++s1) if (k[s1] == 0) to = s1;
            if (k[to] == 0 && from != to) { T[s][a][from] -= eps; T[s][a][to] = eps; R[s][a][to] = 8.0; }
        }
    }
    M::Model model(S, A, T, R, g);
    g_R3.resize(boost::extents[S][A][S]); g_R3 = R;
    bool sw = stepwise < 0 ? rng.coin(1, 3) : stepwise != 0;
    if (withTiny) std::printf("#stat ps-tiny-probability 1\n");
    if (kind == 0) run_ps(rng, model, model, "dense", sw);
    else if (kind == 1) { M::SparseModel sm(model); run_ps(rng, sm, model, "sparse", sw); }
    else { PlainModel pm{model, &g_R3}; run_ps(rng, pm, model, "generic", sw); }
}

// ---------------------------------------------------------------- PrioritizedSweeping over MaximumLikelihoodModel<Experience> (its usual client)
// The planner keeps a REFERENCE to a model that is re-synced from growing experience.  The MDP handed to the driver is computed by the
// harness from its own bookkeeping of what was recorded (counts / totals, mean rewards; unvisited pairs: self-loop, reward 0), never read
// back from the library: a wrong Experience::record / getVisitsSum / getReward or MaximumLikelihoodModel::sync shows up as a planner
// whose drained table is not the Bellman fixed point of the recorded MDP.
static void case_psmlm(Rng & rng, const std::string & tier) {
    (void)tier;
    size_t S = (size_t)rng.range(2, 4), A = (size_t)rng.range(1, 3);
    double g = pickD(rng, {0.5, 0.75, 0.875, 0.5});
    M::Experience exp(S, A);
    M::MaximumLikelihoodModel<M::Experience> model(exp, g, false);
    std::vector<double> cnt(S * A * S, 0.0), rsum(S * A, 0.0), tot(S * A, 0.0);
    bool incremental = false;
    auto recordSome = [&](bool second) {
        for (size_t s = 0; s < S; ++s) for (size_t a = 0; a < A; ++a) {
            size_t i = s * A + a;
            // totals stay powers of two, rewards multiples of 1/4: transition probabilities and mean rewards are dyadic
            int add = second ? (tot[i] == 0.0 ? (int)rng.pick(std::vector<int>{0, 2, 4}) : (rng.coin() ? (int)tot[i] : 0)) : (int)rng.pick(std::vector<int>{0, 1, 2, 4, 8, 4});
            for (int k = 0; k < add; ++k) {
                size_t s1 = rng.below(S); double r = (double)rng.range(-8, 8) / 4;
                exp.record(s, a, s1, r);
                cnt[i * S + s1] += 1; rsum[i] += r; tot[i] += 1;
                if (incremental) model.sync(s, a, s1);
            }
        }
        if (!incremental) model.sync();
    };
    auto putSpec = [&](Line & o) {
        for (size_t s = 0; s < S; ++s) for (size_t a = 0; a < A; ++a) for (size_t s1 = 0; s1 < S; ++s1) {
            size_t i = s * A + a;
            o << (tot[i] == 0.0 ? (s1 == s ? 1.0 : 0.0) : cnt[i * S + s1] / tot[i]);
        }
        for (size_t s = 0; s < S; ++s) for (size_t a = 0; a < A; ++a) { size_t i = s * A + a; o << (tot[i] == 0.0 ? 0.0 : rsum[i] / tot[i]); }
    };
    recordSome(false);
    double theta = std::ldexp(1.0, -40);
    M::PrioritizedSweeping<M::MaximumLikelihoodModel<M::Experience>> ps(model, theta, 64);
    Line l; l << "C11" << "ps" << "mlm" << S << A << g << theta;
    putSpec(l);
    for (size_t i = 0; i < S * A * S; ++i) l << 0.0;          // 3-argument rewards: unused for Eigen models
    Line ops; size_t nops = 0;
    // phase 1: some backups on the first model (queue may stay non-empty)
    int n1 = (int)rng.range(0, (long)(S * A));
    for (int k = 0; k < n1; ++k) { size_t s = rng.below(S), a = rng.below(A); ps.stepUpdateQ(s, a); ops << 1 << s << a; ++nops; if (rng.coin(1, 3)) ps.batchUpdateQ(); }
    // the experience grows, the model is re-synced under the planner (all at once, or incrementally after every record)
    incremental = rng.coin();
    recordSome(true);
    ops << 3; putSpec(ops); ++nops;
    // phase 2: every pair backed up on the final model, then drain
    std::vector<std::pair<size_t, size_t>> order;
    for (size_t s = 0; s < S; ++s) for (size_t a = 0; a < A; ++a) order.emplace_back(s, a);
    for (size_t i = order.size(); i > 1; --i) std::swap(order[i - 1], order[rng.below(i)]);
    for (auto [s, a] : order) { ps.stepUpdateQ(s, a); ops << 1 << s << a; ++nops; if (rng.coin(1, 3)) ps.batchUpdateQ(); }
    long guard = 0;
    while (ps.getQueueLength() > 0 && guard++ < 20000) ps.batchUpdateQ();
    M::ValueIteration vi(2000, 0.0);
    auto [bound, vf, viQ] = vi(model);
    (void)bound; (void)vf;
    l << nops << ops.os.str() << "|";
    putTable(l, ps.getQFunction());
    for (size_t s = 0; s < S; ++s) l << ps.getValueFunction().values[s];
    l << (size_t)ps.getQueueLength();
    putTable(l, viQ);
    l.emit();
    std::printf("#stat ps-mlm%s 1\n", incremental ? "-incremental-sync" : "-full-sync");
}

// ---------------------------------------------------------------- DynaQ batch
struct DetModel {
    size_t S, A; double g; std::vector<std::vector<size_t>> next; AI::Matrix2D rew;
    size_t getS() const { return S; }
    size_t getA() const { return A; }
    double getDiscount() const { return g; }
    bool terminalAware = false;
    bool isTerminal(size_t s) const { if (!terminalAware) return false; for (size_t a = 0; a < A; ++a) if (next[s][a] != s) return false; return true; }
    std::tuple<size_t, double> sampleSR(size_t s, size_t a) const { return {next[s][a], rew(s, a)}; }
    std::tuple<size_t, double> sample(size_t s, size_t a) const { return sampleSR(s, a); }   // the name DynaQ::batchUpdateQ calls
};

static void case_dynab(Rng & rng, const std::string & tier, int starMode = -1) {
    Params p = drawParams(rng, tier, false);
    bool star = starMode < 0 ? rng.coin(1, 3) : starMode != 0;
    if (star && p.S < 2) p.S = 2;
    if (star && p.ugly) { p.g = 0.5; p.ugly = false; }
    DetModel m{p.S, p.A, p.g, {}, randTable(rng, p.S, p.A, 3)};
    m.next.assign(p.S, std::vector<size_t>(p.A));
    for (auto & row : m.next) for (auto & x : row) x = rng.below(p.S);
    std::vector<std::pair<size_t, size_t>> vis;
    double alpha = star ? 1.0 : p.alpha;
    if (star) {
        // layered deterministic MDP: every action leads to a later state, the last state is absorbing with reward 0;
        // one backward sweep with step size 1 then leaves the table EXACTLY at Q* (clause 2: the planning batches must keep it)
        for (size_t s = 0; s + 1 < p.S; ++s) for (size_t a = 0; a < p.A; ++a) m.next[s][a] = (size_t)rng.range((long)s + 1, (long)p.S - 1);
        for (size_t a = 0; a < p.A; ++a) { m.next[p.S - 1][a] = p.S - 1; m.rew(p.S - 1, a) = 0.0; }
    }
    M::DynaQ<DetModel> d(m, alpha, 1);
    if (star) {
        for (size_t s = p.S - 1; s-- > 0; ) for (size_t a = 0; a < p.A; ++a) { d.stepUpdateQ(s, a, m.next[s][a], m.rew(s, a)); vis.emplace_back(s, a); }
        alpha = pickD(rng, {1.0, 0.5, 0.25, 0.125});
        d.setLearningRate(alpha);
    } else {
        int nv = (int)rng.range(1, (long)(p.S * p.A));
        for (int i = 0; i < nv; ++i) {
            size_t s = rng.below(p.S), a = rng.below(p.A);
            d.stepUpdateQ(s, a, m.next[s][a], m.rew(s, a));
            if (std::find(vis.begin(), vis.end(), std::make_pair(s, a)) == vis.end()) vis.emplace_back(s, a);
        }
    }
    Line l; l << "C11" << "dynab" << p.S << p.A << p.g << alpha;
    for (auto & row : m.next) for (auto x : row) l << x;
    putTable(l, m.rew); putTable(l, d.getQFunction());
    l << (size_t)vis.size(); for (auto [s, a] : vis) l << s << a;
    int n = std::min(p.maxSteps, 60); l << n;
    for (int k = 0; k < n; ++k) { d.batchUpdateQ(); putTable(l, d.getQFunction()); }
    l.emit();
    std::printf("#stat dynab%s 1\n", star ? "-qstar" : "");
}

// ---------------------------------------------------------------- DynaQ on the library's own models (Model / SparseModel::sampleSR)
// Real steps and planning batches interleaved.  A planning pass draws a visited pair and calls model.sampleSR(s,a): whatever the
// generator does, the result must be a QLearning step on SOME visited pair towards SOME possible successor with the model's reward.
// On deterministic layered models (one backward sweep with step size 1 reaches Q* exactly) every later batch must leave Q* unchanged.
template <class Mod>
static void run_dynam(Rng & rng, const Mod & mod, const M::Model & model, const char * kind, bool star, const Params & p,
                      const std::vector<std::vector<size_t>> & next) {
    size_t S = model.getS(), A = model.getA();
    unsigned N = star ? (unsigned)rng.range(1, 3) : 1;
    double alpha = star ? 1.0 : p.alpha;
    M::DynaQ<Mod> d(mod, alpha, N);
    Line l; l << "C11" << "dynam" << kind << S << A << model.getDiscount() << (size_t)N << (star ? 1 : 0);
    for (size_t s = 0; s < S; ++s) for (size_t a = 0; a < A; ++a) for (size_t s1 = 0; s1 < S; ++s1) l << model.getTransitionProbability(s, a, s1);
    putTable(l, model.getRewardFunction());
    Line body; size_t nev = 0;
    auto doStep = [&](size_t s, size_t a, size_t s1, double r) { d.stepUpdateQ(s, a, s1, r); body << 1 << s << a << s1 << r << alpha; putTable(body, d.getQFunction()); ++nev; };
    auto doBatch = [&]() { d.batchUpdateQ(); body << 0 << alpha; putTable(body, d.getQFunction()); ++nev; };
    if (star) {
        for (size_t s = S - 1; s-- > 0; ) for (size_t a = 0; a < A; ++a) doStep(s, a, next[s][a], model.getRewardFunction()(s, a));
        alpha = pickD(rng, {1.0, 0.5, 0.25, 0.125}); d.setLearningRate(alpha);
        int n = (int)rng.range(5, 40);
        for (int k = 0; k < n; ++k) doBatch();
    } else {
        doBatch();                                        // nothing visited yet: must be a no-op
        int n = std::min(p.maxSteps, 60);
        for (int k = 0; k < n; ++k) {
            if (rng.coin(1, 6)) { alpha = p.ugly ? pickD(rng, {0.1, 0.3, 1.0, 0.7}) : pickD(rng, {1.0, 0.5, 0.25, 0.125}); d.setLearningRate(alpha); }
            if (rng.coin()) {
                size_t s = rng.below(S), a = rng.below(A), s1 = rng.below(S);
                for (size_t t = 0; t < S; ++t) { size_t c = (s1 + t) % S; if (model.getTransitionProbability(s, a, c) > 0.0) { s1 = c; break; } }
                doStep(s, a, s1, drawReward(rng, p));
            } else doBatch();
        }
    }
    l << p.rmin << p.rmax << nev << body.os.str();
    l.emit();
    std::printf("#stat dynam-%s%s 1\n", kind, star ? "-qstar" : "");
}

static void case_dynam(Rng & rng, const std::string & tier, int starMode = -1, int kindSel = -1) {
    Params p = drawParams(rng, tier, false);
    bool star = starMode < 0 ? rng.coin(1, 3) : starMode != 0;
    size_t S = std::max<size_t>(p.S, 2), A = p.A;
    if (star && p.ugly) { p.g = 0.5; p.ugly = false; }
    boost::multi_array<double, 3> T(boost::extents[S][A][S]), R(boost::extents[S][A][S]);
    std::vector<std::vector<size_t>> next(S, std::vector<size_t>(A, 0));
    for (size_t s = 0; s < S; ++s) for (size_t a = 0; a < A; ++a) {
        for (size_t s1 = 0; s1 < S; ++s1) T[s][a][s1] = 0.0;
        double r = (double)rng.range(-12, 12) / 4;
        if (star) {
            next[s][a] = s + 1 < S ? (size_t)rng.range((long)s + 1, (long)S - 1) : S - 1;
            T[s][a][next[s][a]] = 1.0;
            if (s + 1 == S) r = 0.0;
            for (size_t s1 = 0; s1 < S; ++s1) R[s][a][s1] = r;
        } else {
            std::vector<int> k(S, 0);
            if (rng.coin()) { k[rng.below(S)] = 8; } else for (int i = 0; i < 8; ++i) k[rng.below(S)]++;
            for (size_t s1 = 0; s1 < S; ++s1) { T[s][a][s1] = k[s1] / 8.0; R[s][a][s1] = (double)rng.range(-8, 8) / 4; }
        }
    }
    M::Model model(S, A, T, R, p.g);
    // the model's own rewards are part of the experience the embedded learner sees: widen the declared reward range accordingly
    p.rmin = std::min(p.rmin, model.getRewardFunction().minCoeff()); p.rmax = std::max(p.rmax, model.getRewardFunction().maxCoeff());
    int kind = kindSel < 0 ? (int)rng.below(2) : kindSel;
    if (kind == 0) run_dynam(rng, model, model, "dense", star, p, next);
    else { M::SparseModel sm(model); run_dynam(rng, sm, model, "sparse", star, p, next); }
}

// ---------------------------------------------------------------- Dyna2 (two SARSAL learners sharing traces)
template <class Mod>
static void run_dyna2(Rng & rng, const Mod & m, const char * kind, Params p, const std::vector<std::vector<size_t>> & next, const AI::Matrix2D & rew) {
    unsigned N = (unsigned)rng.range(1, 4);
    M::Dyna2<Mod> d(m, p.alpha, p.lam, p.tol, N);
    double lamT = p.lam;
    if (rng.coin(1, 3)) { lamT = p.ugly ? pickD(rng, {0.0, 0.9, 0.3}) : pickD(rng, {0.0, 0.25, 0.5, 1.0}); d.setTransientLambda(lamT); }
    // deterministic internal policy so that batchUpdateQ is a function of its argument
    AI::Matrix2D pol = AI::Matrix2D::Zero(p.S, p.A);
    std::vector<size_t> act(p.S);
    for (size_t s = 0; s < p.S; ++s) { act[s] = rng.below(p.A); pol(s, act[s]) = 1.0; }
    d.setInternalPolicy(new M::Policy(pol));
    Line l; l << "C11" << "dyna2" << kind << p.S << p.A << p.g << p.alpha << p.lam << lamT << p.tol << (size_t)N;
    for (auto & row : next) for (auto x : row) l << x;
    putTable(l, rew);
    for (auto a : act) l << a;
    int n = std::min(p.maxSteps, 80); l << n;
    ExpGen gen(rng, p.S, p.A);
    for (int k = 0; k < n; ++k) {
        int ev = (int)rng.below(6);
        if (ev <= 3) { Exp e = gen.next(rng, p); l << 1 << e.s << e.a << e.s1 << e.a1 << e.r; d.stepUpdateQ(e.s, e.a, e.s1, e.a1, e.r); }
        else if (ev == 4) { size_t s0 = rng.below(p.S); l << 2 << s0; d.batchUpdateQ(s0); }
        else { l << 3; d.resetTransientLearning(); }
        putTable(l, d.getPermanentQFunction()); putTable(l, d.getTransientQFunction());
    }
    l.emit();
    std::printf("#stat dyna2-%s 1\n", kind);
}

static void case_dyna2(Rng & rng, const std::string & tier) {
    Params p = drawParams(rng, tier, true);
    if (p.tol > 1.0) p.tol = 0.125;
    DetModel m{p.S, p.A, p.g, {}, randTable(rng, p.S, p.A, 3)};
    m.next.assign(p.S, std::vector<size_t>(p.A));
    for (auto & row : m.next) for (auto & x : row) x = rng.below(p.S);
    // some absorbing states (every action loops back): Model::isTerminal is true there and the simulated chain of
    // batchUpdateQ restarts from its initial state
    if (rng.coin()) for (size_t s = 0; s < p.S; ++s) if (rng.coin(1, 3)) for (auto & x : m.next[s]) x = s;
    int kind = (int)rng.below(3);
    if (kind == 0) { m.terminalAware = rng.coin(); run_dyna2(rng, m, m.terminalAware ? "det-term" : "det", p, m.next, m.rew); return; }
    boost::multi_array<double, 3> T(boost::extents[p.S][p.A][p.S]), R(boost::extents[p.S][p.A][p.S]);
    for (size_t s = 0; s < p.S; ++s) for (size_t a = 0; a < p.A; ++a) for (size_t s1 = 0; s1 < p.S; ++s1) {
        T[s][a][s1] = m.next[s][a] == s1 ? 1.0 : 0.0; R[s][a][s1] = m.rew(s, a);
    }
    M::Model model(p.S, p.A, T, R, p.g);
    if (kind == 1) run_dyna2(rng, model, "dense", p, m.next, model.getRewardFunction());
    else { M::SparseModel sm(model); run_dyna2(rng, sm, "sparse", p, m.next, model.getRewardFunction()); }
}

// ---------------------------------------------------------------- RLearning (average-reward analogue of QLearning; no discount, so
// outside the bounds clause: exercised for correspondence with the model of the update AS WRITTEN, incl. its checkEqualGeneral test)
static void case_rl(Rng & rng, const std::string & tier) {
    Params p = drawParams(rng, tier, false);
    size_t S = p.S, A = p.A;
    double rho = p.ugly ? pickD(rng, {0.1, 0.3, 1.0}) : pickD(rng, {0.5, 0.25, 1.0, 0.125});
    M::RLearning rl(S, A, p.alpha, rho);
    M::QFunction init = M::makeQFunction(S, A);
    if (rng.coin()) { init = structuredTable(rng, S, A); rl.setQFunction(init); }
    int n = std::min(p.maxSteps, 40);
    Line l; l << "C11" << "rl" << S << A << p.alpha << rho; putTable(l, init); l << n;
    ExpGen gen(rng, S, A);
    for (int k = 0; k < n; ++k) {
        Exp e = gen.next(rng, p);
        rl.stepUpdateQ(e.s, e.a, e.s1, e.r);
        l << e.s << e.a << e.s1 << e.r; putTable(l, rl.getQFunction()); l << rl.getAverageReward();
    }
    l.emit();
    std::printf("#stat rlearning 1\n");
}

// ---------------------------------------------------------------- cases
void verif::verif_case(Rng & rng, long idx, const std::string & tier) {
    if (idx < kFixed) {
        Params p{2, 2, 0.5, 1.0, 0.5, 0.5, 0.125, 0.25, 1.0, 2.0, false, 30};
        switch (idx) {
            case 0: case_td(rng, QL_, 0, tier, &p); break;              // all-positive rewards: needs the hull with 0
            case 1: { p.rmin = -3; p.rmax = -1; case_td(rng, SARSA_, 0, tier, &p); break; }
            case 2: { p.rmin = -2; p.rmax = 2; case_td(rng, DQ_, 0, tier, &p); break; }
            case 3: { p.lam = 0.0; case_tr(rng, SARSAL_, tier, &p); break; }
            case 4: { p.lam = 0.0; p.tol = 0.0; case_tr(rng, CRETRACE, tier, &p); break; }
            case 5: { p.lam = 1.0; p.g = 1.0; p.tol = 1.0; case_tr(rng, CQL, tier, &p); break; }   // cut-off exactly one
            case 6: { p.lam = 0.5; p.g = 0.5; p.tol = 0.0625; case_tr(rng, ETB, tier, &p); break; }
            case 7: case_ps(rng, tier, 2, 0); break;
            // witnesses of the known finding C11-trace-cutoff-above-one (setTolerance is unguarded)
            case 8: { p.tol = 2.0; p.maxSteps = 3; case_tr(rng, SARSAL_, tier, &p, false); break; }
            case 9: { p.tol = 2.0; p.maxSteps = 3; case_tr(rng, CQL, tier, &p, false); break; }
            // same MDP family with a 2^-21 transition: the dense (Eigen) branch honours it, the generic branch drops it
            case 10: case_ps(rng, tier, 0, 0, 1); break;
            case 11: case_ps(rng, tier, 2, 0, 1); break;
            // round 3: policy objects, real models, trace bookkeeping
            case 12: case_td(rng, ESARSA_, 0, tier, &p, 1); break;          // ExpectedSARSA(q, QGreedyPolicy(q)) from the zero table (all ties)
            case 13: case_td(rng, ESARSA_, 1, tier, nullptr, 1); break;     // ... started at Q*
            case 14: case_td(rng, ESARSA_, 2, tier, nullptr, 2); break;     // ... epsilon-greedy object on a structured table
            case 15: case_tr(rng, ETB, tier, nullptr, true, false, true); break;
            case 16: case_tr(rng, CRETRACE, tier, nullptr, true, false, true); break;
            case 17: case_dynam(rng, tier, 1, 0); break;
            case 18: case_dynam(rng, tier, 0, 1); break;
            case 19: case_rl(rng, tier); break;
        }
        return;
    }
    long k = (idx - kFixed) % 40;
    if (k < 6) case_td(rng, (TD)k, 0, tier);                               // zero start, bounds clause
    else if (k < 12) case_td(rng, (TD)(k - 6), 0, tier);
    else if (k == 12) case_td(rng, QL_, 1, tier);                          // fixed point at Q*
    else if (k == 13) case_td(rng, DQ_, 1, tier);
    else if (k == 14) case_td(rng, ESARSA_, 1, tier);
    else if (k == 15 && rng.coin()) case_td(rng, rng.coin() ? QL_ : (rng.coin() ? DQ_ : ESARSA_), 2, tier);   // arbitrary start
    else if (k == 15) case_td(rng, rng.pick(std::vector<TD>{HYST_, SARSA_, QL_, DYNA_}), 3, tier);         // Q* reached through the updates
    else if (k < 25) case_tr(rng, (TR)(k - 16), tier);
    else if (k < 27) case_tr(rng, (TR)rng.below(9), tier);
    else if (k == 27) case_tr(rng, (TR)rng.below(5), tier, nullptr, true, true);   // control learners / SARSA(lambda) at Q*
    else if (k < 31) case_ps(rng, tier);
    else if (k == 31) { if (rng.coin()) case_dynab(rng, tier); else case_dyna2(rng, tier); }
    else if (k == 32) case_td(rng, ESARSA_, (int)rng.below(3), tier, nullptr, (int)rng.range(1, 2));       // policy objects over the learner's own table
    else if (k == 33) case_td(rng, ESARSA_, rng.coin() ? 2 : 1, tier, nullptr, (int)rng.range(1, 2));
    else if (k < 37) case_tr(rng, rng.pick(std::vector<TR>{CRETRACE, CIS, EQL, ERETRACE, ETB, EIS}), tier, nullptr, true, false, true);
    else if (k == 37) case_dynam(rng, tier);
    else if (k == 38) { if (rng.coin()) case_dyna2(rng, tier); else case_psmlm(rng, tier); }
    else case_rl(rng, tier);
}

VERIF_MAIN
