// Common harness support: seeded PRNG, exact double output, case loop.
// Every random choice derives from one splitmix64 state seeded by (VERIF seed, case index)
// so that a case replays exactly from (seed, tier, index).
#pragma once
#include <cstdint>
#include <cstdio>
#include <cstdlib>
#include <cstring>
#include <cmath>
#include <string>
#include <vector>
#include <sstream>
#include <iostream>
#include <exception>
#include <stdexcept>
#include <functional>
#include <memory>

namespace verif {

inline uint64_t mix64(uint64_t z) {
    z = (z ^ (z >> 30)) * 0xBF58476D1CE4E5B9ull;
    z = (z ^ (z >> 27)) * 0x94D049BB133111EBull;
    return z ^ (z >> 31);
}

struct Rng {
    uint64_t s;
    explicit Rng(uint64_t seed) : s(seed) {}
    uint64_t next() {
        uint64_t z = (s += 0x9E3779B97F4A7C15ull);
        z = (z ^ (z >> 30)) * 0xBF58476D1CE4E5B9ull;
        z = (z ^ (z >> 27)) * 0x94D049BB133111EBull;
        return z ^ (z >> 31);
    }
    // uniform in [0,n)
    uint64_t below(uint64_t n) { return n ? next() % n : 0; }
    // uniform in [lo,hi]
    int64_t range(int64_t lo, int64_t hi) { return lo + (int64_t)below((uint64_t)(hi - lo + 1)); }
    bool coin(unsigned num = 1, unsigned den = 2) { return below(den) < num; }
    // dyadic k/2^bits in [0,1]
    double dyadic(unsigned bits) { return (double)below((1ull << bits) + 1) / (double)(1ull << bits); }
    template <class T> const T & pick(const std::vector<T> & v) { return v[below(v.size())]; }
};

// exact token for a double: <m>p<e> with x = m * 2^e, or nan/inf/-inf
inline std::string X(double x) {
    if (std::isnan(x)) return "nan";
    if (std::isinf(x)) return x > 0 ? "inf" : "-inf";
    if (x == 0.0) return "0p0";
    int e;
    double fr = std::frexp(x, &e);           // x = fr * 2^e, 0.5 <= |fr| < 1
    long long m = (long long)std::ldexp(fr, 53);
    e -= 53;
    while ((m & 1) == 0) { m /= 2; ++e; }
    char buf[64];
    std::snprintf(buf, sizeof buf, "%lldp%d", m, e);
    return buf;
}

struct Line {
    std::ostringstream os;
    bool first = true;
    Line & tok(const std::string & s) { if (!first) os << ' '; first = false; os << s; return *this; }
    Line & operator<<(const std::string & s) { return tok(s); }
    Line & operator<<(const char * s) { return tok(s); }
    Line & operator<<(double d) { return tok(X(d)); }
    Line & operator<<(size_t n) { return tok(std::to_string(n)); }
    Line & operator<<(int n) { return tok(std::to_string(n)); }
    Line & operator<<(long n) { return tok(std::to_string(n)); }
    Line & operator<<(unsigned n) { return tok(std::to_string(n)); }
    Line & operator<<(bool b) { return tok(b ? "1" : "0"); }
    template <class V> Line & nats(const V & v) { *this << (size_t)v.size(); for (auto x : v) *this << (size_t)x; return *this; }
    template <class V> Line & nums(const V & v) { *this << (size_t)v.size(); for (auto x : v) *this << (double)x; return *this; }
    void emit() { std::puts(os.str().c_str()); std::fflush(stdout); }
};

// map an exception to the small error enum used on both sides
inline std::string errClass(const std::exception & e) {
    if (dynamic_cast<const std::invalid_argument*>(&e)) return "invalid_argument";
    if (dynamic_cast<const std::out_of_range*>(&e)) return "out_of_range";
    if (dynamic_cast<const std::runtime_error*>(&e)) return "runtime_error";
    if (dynamic_cast<const std::logic_error*>(&e)) return "logic_error";
    if (dynamic_cast<const std::bad_alloc*>(&e)) return "bad_alloc";
    return "other";
}

struct Args { uint64_t seed = 0; std::string tier = "quick"; long from = 0; long only = -1; long limit = -1; };

// A harness defines these two:
long verif_ncases(const std::string & tier);
void verif_case(Rng & rng, long idx, const std::string & tier);

inline int verif_main(int argc, char ** argv) {
    Args a;
    if (argc > 1) a.seed = std::strtoull(argv[1], nullptr, 10);
    if (argc > 2) a.tier = argv[2];
    for (int i = 3; i < argc; ++i) {
        if (!std::strcmp(argv[i], "--from") && i + 1 < argc) a.from = std::atol(argv[++i]);
        else if (!std::strcmp(argv[i], "--only") && i + 1 < argc) a.only = std::atol(argv[++i]);
        else if (!std::strcmp(argv[i], "--limit") && i + 1 < argc) a.limit = std::atol(argv[++i]);
    }
    long n = verif_ncases(a.tier);
    if (a.limit >= 0 && a.limit < n) n = a.limit;
    long lo = a.only >= 0 ? a.only : a.from, hi = a.only >= 0 ? a.only + 1 : n;
    for (long i = lo; i < hi; ++i) {
        std::printf("#case %ld\n", i); std::fflush(stdout);
        // the initial state is a HASH of (seed, case): with a state linear in the seed, seed+1 replayed seed's stream shifted by one
        // draw (the increment of splitmix64 is the same constant), so "several seeds" explored far fewer distinct cases than it seemed
        Rng rng(mix64(mix64((uint64_t)a.seed + 0x1234567ull) ^ ((uint64_t)i * 0xD1B54A32D192ED03ull + 0x9E3779B97F4A7C15ull)));
        try { verif_case(rng, i, a.tier); }
        catch (const std::exception & e) {
            // an exception escaping a case the harness believed valid is an outcome, not a harness failure
            std::printf("#escaped %ld %s %s\n", i, errClass(e).c_str(), e.what()); std::fflush(stdout);
        }
    }
    std::printf("#done %ld\n", hi); std::fflush(stdout);
    return 0;
}

} // namespace verif

#define VERIF_MAIN int main(int argc, char ** argv) { return verif::verif_main(argc, argv); }
