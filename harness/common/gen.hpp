// Seeded generators for dyadic MDP / POMDP tables (so that short double computations are exact).
#pragma once
#include "verif.hpp"
#include <AIToolbox/MDP/Model.hpp>
#include <AIToolbox/MDP/SparseModel.hpp>
#include <AIToolbox/POMDP/Model.hpp>
#include <AIToolbox/POMDP/SparseModel.hpp>

namespace verif {

// random probability row of length n with entries k/2^bits; `sparse` raises the chance of zeros
inline std::vector<double> dyadicRow(Rng & rng, size_t n, unsigned bits = 3, bool sparse = false) {
    unsigned total = 1u << bits;
    std::vector<unsigned> k(n, 0);
    int mode = (int)rng.below(sparse ? 3 : 6);
    if (mode == 0) { k[rng.below(n)] = total; }                       // deterministic
    else if (mode == 1 && n >= 2) {                                   // two-point
        size_t i = rng.below(n), j = rng.below(n); unsigned a = 1 + (unsigned)rng.below(total - 1);
        k[i] += a; k[j] += total - a;
    } else { for (unsigned t = 0; t < total; ++t) ++k[rng.below(n)]; } // multinomial
    std::vector<double> r(n);
    for (size_t i = 0; i < n; ++i) r[i] = (double)k[i] / (double)total;
    return r;
}

struct MdpTables {
    size_t S, A; double discount;
    AIToolbox::Matrix3D T;     // T[a](s,s1)
    AIToolbox::Matrix2D R;     // R(s,a)
};

inline double dyadicReward(Rng & rng, int scale = 0) {
    // multiples of 1/4 in [-8,8], both signs, optionally scaled by 2^scale
    double v = (double)rng.range(-32, 32) / 4.0;
    return std::ldexp(v, scale);
}

inline MdpTables randomMdp(Rng & rng, size_t S, size_t A, unsigned bits = 3) {
    MdpTables m; m.S = S; m.A = A;
    static const double ds[] = {0.5, 0.75, 0.875, 0.9375};
    m.discount = ds[rng.below(4)];
    m.T.assign(A, AIToolbox::Matrix2D::Zero(S, S));
    m.R = AIToolbox::Matrix2D::Zero(S, A);
    bool sparse = rng.coin(1, 3);
    int rmode = (int)rng.below(4);          // 0 mixed, 1 all negative, 2 all positive, 3 zero mostly
    for (size_t a = 0; a < A; ++a) for (size_t s = 0; s < S; ++s) {
        auto row = dyadicRow(rng, S, bits, sparse);
        if (rng.coin(1, 8)) { std::fill(row.begin(), row.end(), 0.0); row[s] = 1.0; }   // absorbing / self loop
        for (size_t s1 = 0; s1 < S; ++s1) m.T[a](s, s1) = row[s1];
        double r = dyadicReward(rng);
        if (rmode == 1) r = -std::fabs(r) - 0.25; else if (rmode == 2) r = std::fabs(r) + 0.25; else if (rmode == 3 && rng.coin(3, 4)) r = 0;
        m.R(s, a) = r;
    }
    return m;
}

inline AIToolbox::MDP::Model toDense(const MdpTables & m) {
    auto T = m.T; auto R = m.R;
    return AIToolbox::MDP::Model(AIToolbox::NO_CHECK, m.S, m.A, std::move(T), std::move(R), m.discount);
}

struct PomdpTables : MdpTables {
    size_t O;
    AIToolbox::Matrix3D Ob;    // Ob[a](s1,o)
};

inline PomdpTables randomPomdp(Rng & rng, size_t S, size_t A, size_t O, unsigned bits = 3) {
    PomdpTables p; static_cast<MdpTables&>(p) = randomMdp(rng, S, A, bits); p.O = O;
    p.Ob.assign(A, AIToolbox::Matrix2D::Zero(S, O));
    int omode = (int)rng.below(3);          // 0 noisy, 1 deterministic, 2 some observation impossible under some action
    for (size_t a = 0; a < A; ++a) for (size_t s1 = 0; s1 < S; ++s1) {
        std::vector<double> row;
        if (omode == 1) { row.assign(O, 0.0); row[(s1 + a) % O] = 1.0; }
        else row = dyadicRow(rng, O, bits, omode == 2);
        for (size_t o = 0; o < O; ++o) p.Ob[a](s1, o) = row[o];
    }
    return p;
}

inline AIToolbox::POMDP::Model<AIToolbox::MDP::Model> toDense(const PomdpTables & p) {
    auto T = p.T; auto R = p.R; auto Ob = p.Ob;
    return AIToolbox::POMDP::Model<AIToolbox::MDP::Model>(AIToolbox::NO_CHECK, p.O, std::move(Ob), AIToolbox::NO_CHECK, p.S, p.A, std::move(T), std::move(R), p.discount);
}

inline AIToolbox::Vector dyadicBelief(Rng & rng, size_t S, unsigned bits = 3) {
    auto row = dyadicRow(rng, S, bits, rng.coin(1, 3));
    AIToolbox::Vector b(S);
    for (size_t s = 0; s < S; ++s) b[s] = row[s];
    return b;
}

template <class M> inline void putMatrix(Line & l, const M & m) {
    l << (size_t)m.rows() << (size_t)m.cols();
    for (long i = 0; i < m.rows(); ++i) for (long j = 0; j < m.cols(); ++j) l << (double)m(i, j);
}
template <class V> inline void putVector(Line & l, const V & v) {
    l << (size_t)v.size();
    for (long i = 0; i < v.size(); ++i) l << (double)v[i];
}
inline void putMdp(Line & l, const MdpTables & m) {
    l << m.S << m.A << m.discount;
    for (size_t a = 0; a < m.A; ++a) for (size_t s = 0; s < m.S; ++s) for (size_t s1 = 0; s1 < m.S; ++s1) l << m.T[a](s, s1);
    for (size_t s = 0; s < m.S; ++s) for (size_t a = 0; a < m.A; ++a) l << m.R(s, a);
}
inline void putPomdp(Line & l, const PomdpTables & p) {
    putMdp(l, p); l << p.O;
    for (size_t a = 0; a < p.A; ++a) for (size_t s1 = 0; s1 < p.S; ++s1) for (size_t o = 0; o < p.O; ++o) l << p.Ob[a](s1, o);
}

} // namespace verif
