// C04 correspondence harness: every ValueFunction-returning POMDP solver + POMDP::Policy replay,
// plus the entry-permuting kernels (extractDominated, Pruner, IncrementalPruning::crossSum).
//
// protocol lines (all doubles as exact tokens):
//   C04 vf <component> <hReq> <pomdp> | <vf> | <nB> {<belief> a0 a id}* | <status> <n> {a id}*
//       vf     = nLists { nEntries { S v.. action nObs o.. } }
//       replay = depth-first replay of ALL observation histories from every entry of the last horizon
//                through the real Policy::sampleAction(id, o, horizon)  (status 1 = complete)
//   C04 xd S <vlist> | <vlist>            extractDominated(begin, end, unwrap) : kept prefix
//   C04 pr S <vlist> | <vlist>            Pruner(S)(begin, end, unwrap)        : kept prefix
//   C04 cs <vlist> <vlist> a order | <vlist>     IncrementalPruning::crossSum (private; -fno-access-control)
//   C04 pj <pomdp> <vlist w> a | O <vlist>*O      Projecter::operator()(w, a)
//   C04 cb S <belief> a O <vlist>*O | <entry> value     crossSumBestAtBelief(b, row, a, &value)
//   C04 wv <pomdp> <vlist w> a <entry> | nAgenda <vec>* nTried <obs>*    Witness::addDefaultEntry + addVariations
//   C04 perseus <pomdp> nB <belief>* v0 h | <vf>        PERSEUS run with its (reproduced) belief list vs perseusRun
//   C04 ls <pomdp> <vlist prev> | <vlist level> | walked tie nLists {n <belief>*}*   one LinearSupport timestep vs lsStep
//   C04 pbvi <pomdp> nB <belief>* h | <vf>              PBVI(nB, h, 0)(model, beliefs): whole run vs the Lean model pbviRun
//   C04 pbviw <pomdp> explicit nB <belief>* h | <vf v0> | <vf>   PBVI warm start: operator()(model, beliefs, v0) (explicit=1, vs pbviRunFrom)
//                                                        or operator()(model, v0) (explicit=0, clauses only)
//   C04 ip <pomdp> <vlist prev> | <vlist level> | walked nCalls {<vlist in> <vlist out>}*   one IncrementalPruning timestep vs ipStep,
//                                                        the Pruner's answers (logged along the library's own loop) as the oracle
//   C04 wt <pomdp> <vlist prev> | <vlist level> | walked {nCalls {uLen <vec> has [<belief>]}*}*A <vlist in> <vlist out>   one Witness timestep vs
//                                                        witnessAction / the final prune, the witness LP's answers (logged along the library's own loop) as the oracle
//   C04 mk S A O | <vf> | <vf>                          makeValueFunction(S) and Policy(S,A,O).getValueFunction() vs zeroVF
//   the vf line carries a 4th section:  | ioStatus nQ {bIdx h a id pOK}*   sampleAction(b,h) / getActionProbability at EVERY stored
//       horizon; ioStatus 1 = every Policy call of the line went through a Policy written to a stream and loaded back (2 = load failed)
#include "common/verif.hpp"
#include "common/gen.hpp"
#include <AIToolbox/Seeder.hpp>
#include <AIToolbox/Utils/Prune.hpp>
#include <AIToolbox/POMDP/Types.hpp>
#include <AIToolbox/POMDP/Utils.hpp>
#include <AIToolbox/POMDP/Policies/Policy.hpp>
#include <AIToolbox/POMDP/Algorithms/IncrementalPruning.hpp>
#include <AIToolbox/POMDP/Algorithms/Witness.hpp>
#include <AIToolbox/POMDP/Algorithms/LinearSupport.hpp>
#include <AIToolbox/POMDP/Algorithms/PBVI.hpp>
#include <AIToolbox/POMDP/Algorithms/PERSEUS.hpp>
#include <AIToolbox/POMDP/Algorithms/QMDP.hpp>
#include <AIToolbox/POMDP/SparseModel.hpp>
#include <AIToolbox/POMDP/Algorithms/Utils/BeliefGenerator.hpp>
#include <AIToolbox/MDP/SparseModel.hpp>
#include <AIToolbox/POMDP/IO.hpp>
#include <sstream>

using namespace verif;
namespace P = AIToolbox::POMDP;
using Model = P::Model<AIToolbox::MDP::Model>;

// a model that offers only the element-wise interface (IsModel but not IsModelEigen): the solvers, the Projecter, the
// BeliefGenerator and MDP::ValueIteration then take their generic (non-Eigen) branches
struct PlainModel {
    const Model & m;
    size_t getS() const { return m.getS(); }
    size_t getA() const { return m.getA(); }
    size_t getO() const { return m.getO(); }
    double getDiscount() const { return m.getDiscount(); }
    double getTransitionProbability(size_t s, size_t a, size_t s1) const { return m.getTransitionProbability(s, a, s1); }
    double getExpectedReward(size_t s, size_t a, size_t s1) const { return m.getExpectedReward(s, a, s1); }
    double getObservationProbability(size_t s1, size_t a, size_t o) const { return m.getObservationProbability(s1, a, o); }
    bool isTerminal(size_t s) const { return m.isTerminal(s); }
    std::tuple<size_t, double> sampleSR(size_t s, size_t a) const { return m.sampleSR(s, a); }
    std::tuple<size_t, size_t, double> sampleSOR(size_t s, size_t a) const { return m.sampleSOR(s, a); }
};
static_assert(P::IsModel<PlainModel>);
static_assert(!P::IsModelEigen<PlainModel>);

static void putEntry(Line & l, const P::VEntry & e) {
    putVector(l, e.values); l << e.action; l.nats(e.observations);
}
static void putVList(Line & l, const P::VList & w) {
    l << (size_t)w.size();
    for (const auto & e : w) putEntry(l, e);
}
static void putVF(Line & l, const P::ValueFunction & vf) {
    l << (size_t)vf.size();
    for (const auto & w : vf) putVList(l, w);
}

// depth-first replay through the REAL Policy::sampleAction(id, o, horizon); the guard reads the value
// function the policy was built from, so the library is never called outside its precondition.
static bool dfs(const P::Policy & pol, const P::ValueFunction & vf, size_t O, size_t h, size_t id,
                std::vector<size_t> & out, size_t cap) {
    if (h == 0) return true;
    for (size_t o = 0; o < O; ++o) {
        if (id >= vf[h].size() || o >= vf[h][id].observations.size()) return false;
        size_t link = vf[h][id].observations[o];
        if (link >= vf[h - 1].size()) return false;
        if (out.size() > cap) return false;
        auto [a, nid] = pol.sampleAction(id, o, (unsigned)(h - 1));
        out.push_back(a); out.push_back(nid);
        if (!dfs(pol, vf, O, h - 1, nid, out, cap)) return false;
    }
    return true;
}

static void emitVF(const char * comp, unsigned hReq, const PomdpTables & pt, const P::ValueFunction & vf,
                   const std::vector<AIToolbox::Vector> & beliefs, int useIO = 0) {
    Line l; l << "C04" << "vf" << comp << hReq; putPomdp(l, pt); l << "|"; putVF(l, vf); l << "|";
    P::Policy pol0(pt.S, pt.A, pt.O, vf);
    // optionally every Policy call below goes through a Policy that was written to a stream and loaded back
    // (the documented way to keep a policy: Policy(S,A,O) then operator>>); the loader rebuilds every link
    P::Policy loaded(pt.S, pt.A, pt.O);
    int ioStatus = 0;
    if (useIO) {
        std::stringstream st; st << pol0;
        if (useIO == 2) st << "trailing 1 2 3\n";           // "other things can also be put on the stream"
        st >> loaded;
        ioStatus = (!st.fail() && loaded.getH() + 1 == vf.size()) ? 1 : 2;
        bool same = ioStatus == 1;
        for (size_t h = 1; same && h < vf.size(); ++h) {
            same = loaded.getValueFunction()[h].size() == vf[h].size();
            for (size_t i = 0; same && i < vf[h].size(); ++i) same = (loaded.getValueFunction()[h][i] == vf[h][i]);
        }
        std::printf("#stat policy_io:%s 1\n", ioStatus == 1 ? (same ? "identical" : "loaded_differs") : "load_failed");
    }
    const P::Policy & pol = ioStatus == 1 ? loaded : pol0;
    size_t H = vf.size() - 1;
    bool topOk = vf.back().size() > 0;
    l << (size_t)(topOk ? beliefs.size() : 0);
    if (topOk) for (const auto & b : beliefs) {
        putVector(l, b);
        size_t a0 = pol.sampleAction(b);
        auto [a, id] = pol.sampleAction(b, (unsigned)H);
        l << a0 << a << id;
    }
    l << "|";
    std::vector<size_t> seq; bool complete = true;
    size_t total = 0;
    for (size_t id = 0; id < vf.back().size() && complete; ++id) {
        complete = dfs(pol, vf, pt.O, H, id, seq, 400000);
        ++total;
    }
    l << complete << (size_t)(seq.size() / 2);
    for (auto x : seq) l << x;
    // sampleAction(b, h) and getActionProbability(b, a, h) at EVERY stored horizon h <= H (h = 0: "a valid, non-specified action")
    l << "|" << ioStatus;
    std::vector<std::array<size_t, 5>> qs;
    bool allOk = true; for (const auto & w : vf) allOk = allOk && !w.empty();
    if (allOk) for (size_t h = 0; h <= H; ++h) {
        for (size_t bi = 0; bi < beliefs.size(); ++bi) {
            if (h < H && bi != (h % beliefs.size()) && bi + 1 != beliefs.size()) continue;     // two beliefs per lower horizon, all at the top
            const auto & b = beliefs[bi];
            auto [a, id] = pol.sampleAction(b, (unsigned)h);
            bool pOK = true;
            for (size_t x = 0; x < pt.A; ++x) {
                pOK = pOK && pol.getActionProbability(b, x, (unsigned)h) == (x == a ? 1.0 : 0.0);
                if (h == H) pOK = pOK && pol.getActionProbability(b, x) == (x == a ? 1.0 : 0.0);
            }
            qs.push_back({bi, h, a, id, (size_t)pOK});
        }
    }
    l << (size_t)qs.size();
    for (auto & q : qs) for (auto x : q) l << x;
    l.emit();
    std::printf("#stat comp:%s 1\n#stat H:%zu 1\n#stat top:%zu 1\n#stat S:%zu 1\n#stat A:%zu 1\n#stat O:%zu 1\n", comp, H, std::min<size_t>(vf.back().size(), 99), pt.S, pt.A, std::min<size_t>(pt.O, 9));
}

static std::vector<AIToolbox::Vector> someBeliefs(Rng & rng, size_t S, size_t n) {
    std::vector<AIToolbox::Vector> bs;
    for (size_t s = 0; s < S; ++s) { AIToolbox::Vector b = AIToolbox::Vector::Zero(S); b[s] = 1.0; bs.push_back(b); }
    { AIToolbox::Vector b(S); b.fill(1.0 / (double)S); if ((S & (S - 1)) == 0) bs.push_back(b); }
    while (bs.size() < n) bs.push_back(dyadicBelief(rng, S));
    return bs;
}

// ---------------------------------------------------------------- fixed witnesses (lowest indices)
// 0: QMDP on a 2-state chain, VI horizon 2 -> entries carry the 2-step Q but link to the nil entry
static PomdpTables witnessQmdp() {
    PomdpTables p; p.S = 2; p.A = 1; p.O = 1; p.discount = 0.5;
    p.T.assign(1, AIToolbox::Matrix2D::Zero(2, 2)); p.T[0](0, 1) = 1.0; p.T[0](1, 1) = 1.0;
    p.R = AIToolbox::Matrix2D::Zero(2, 1); p.R(0, 0) = 0.0; p.R(1, 0) = 4.0;
    p.Ob.assign(1, AIToolbox::Matrix2D::Zero(2, 1)); p.Ob[0](0, 0) = 1.0; p.Ob[0](1, 0) = 1.0;
    return p;
}
// Tiger (the repository's own example), discounted
static PomdpTables tigerTables() {
    PomdpTables p; p.S = 2; p.A = 3; p.O = 2; p.discount = 0.75;
    p.T.assign(3, AIToolbox::Matrix2D::Zero(2, 2));
    p.T[0] << 1, 0, 0, 1; p.T[1] << 0.5, 0.5, 0.5, 0.5; p.T[2] << 0.5, 0.5, 0.5, 0.5;
    p.R = AIToolbox::Matrix2D::Zero(2, 3);
    p.R << -1, -100, 10, -1, 10, -100;
    p.Ob.assign(3, AIToolbox::Matrix2D::Zero(2, 2));
    p.Ob[0] << 0.875, 0.125, 0.125, 0.875; p.Ob[1] << 0.5, 0.5, 0.5, 0.5; p.Ob[2] << 0.5, 0.5, 0.5, 0.5;
    return p;
}

static const char * kSolvers[] = {"IncrementalPruning", "Witness", "LinearSupport", "PBVI", "PERSEUS", "QMDP"};

using SparseModel = P::SparseModel<AIToolbox::MDP::SparseModel>;

template <class M>
static P::ValueFunction solveWith(Rng & rng, int which, const M & model, const PomdpTables & pt, unsigned h, double tol, size_t fewBeliefs = 0) {
    switch (which) {
        case 0: { P::IncrementalPruning s(h, tol); return std::get<1>(s(model)); }
        case 1: { P::Witness s(h, tol); return std::get<1>(s(model)); }
        case 2: { P::LinearSupport s(h, tol); return std::get<1>(s(model)); }
        case 3: {
            P::PBVI s(fewBeliefs ? fewBeliefs : 8, h, tol);
            if (fewBeliefs && rng.coin()) {           // a sparse explicit support: fewer beliefs than |S|+1, no corners guaranteed
                std::vector<AIToolbox::Vector> bl; for (size_t i = 0; i < fewBeliefs; ++i) bl.push_back(dyadicBelief(rng, pt.S));
                return std::get<1>(s(model, bl));
            }
            if (!fewBeliefs && rng.coin()) { auto bl = someBeliefs(rng, pt.S, pt.S + 1 + rng.below(6)); return std::get<1>(s(model, bl)); }
            if (h >= 2 && rng.coin()) {               // two stages: h1 levels, then the rest warm-started through operator()(model, v)
                unsigned h1 = 1 + (unsigned)rng.below(h - 1);
                P::PBVI s1(8, h1, 0.0); auto v1 = std::get<1>(s1(model));
                P::PBVI s2(8, h - h1, tol); std::printf("#stat pbvi_two_stage 1\n");
                return std::get<1>(s2(model, v1));
            }
            return std::get<1>(s(model));
        }
        case 4: {
            P::PERSEUS s(fewBeliefs ? fewBeliefs : 6 + rng.below(6), h, tol);
            double minR = pt.R.minCoeff();
            return std::get<1>(s(model, minR));
        }
        default: { P::QMDP s(h, tol); return std::get<1>(s(model)); }
    }
}

static void runSolver(Rng & rng, int which, const PomdpTables & pt, unsigned h, double tol = 0.0, int kind = 0, size_t fewBeliefs = 0) {
    Model model = toDense(pt);
    AIToolbox::Seeder::setRootSeed((unsigned)rng.below(1u << 30));
    P::ValueFunction vf;
    if (kind == 1) { SparseModel sm(model); vf = solveWith(rng, which, sm, pt, h, tol, fewBeliefs); std::printf("#stat sparse 1\n"); }
    else if (kind == 2) { PlainModel pm{model}; vf = solveWith(rng, which, pm, pt, h, tol, fewBeliefs); std::printf("#stat plain_model 1\n"); }
    else vf = solveWith(rng, which, model, pt, h, tol, fewBeliefs);
    if (fewBeliefs) std::printf("#stat few_beliefs:%zu 1\n#stat long_horizon:%u 1\n", fewBeliefs, h);
    int useIO = rng.coin(1, 3) ? (rng.coin(1, 4) ? 2 : 1) : 0;
    emitVF(kSolvers[which], h, pt, vf, someBeliefs(rng, pt.S, pt.S + 4), useIO);
}

// "ugly" tables: non-dyadic probabilities (k/n rounded to double, rows summing to 1 only up to rounding), discount 0.95 / 0.9,
// rewards in tenths; optionally one observation that is possible only with probability 2^-24 (< the Projecter's 1e-6 cut)
static PomdpTables uglyPomdp(Rng & rng, size_t S, size_t A, size_t O) {
    PomdpTables p; p.S = S; p.A = A; p.O = O; p.discount = rng.coin() ? 0.95 : 0.9;
    p.T.assign(A, AIToolbox::Matrix2D::Zero(S, S)); p.R = AIToolbox::Matrix2D::Zero(S, A); p.Ob.assign(A, AIToolbox::Matrix2D::Zero(S, O));
    auto row = [&](size_t n) { std::vector<double> w(n); double t = 0; for (auto & x : w) { x = (double)rng.below(4); t += x; }
                               if (t == 0) { w[rng.below(n)] = 1; t = 1; } for (auto & x : w) x /= t; return w; };
    for (size_t a = 0; a < A; ++a) for (size_t s = 0; s < S; ++s) {
        auto r = row(S); for (size_t s1 = 0; s1 < S; ++s1) p.T[a](s, s1) = r[s1];
        auto q = row(O); for (size_t o = 0; o < O; ++o) p.Ob[a](s, o) = q[o];
        p.R(s, a) = (double)rng.range(-50, 50) / 10.0;
    }
    if (O >= 2 && rng.coin()) {                     // a faint observation: same tiny mass from every state, under one action
        size_t a = rng.below(A), of = rng.below(O), og = (of + 1) % O;
        const double eps = std::ldexp(1.0, -24);
        for (size_t s = 0; s < S; ++s) { for (size_t o = 0; o < O; ++o) p.Ob[a](s, o) = 0.0; p.Ob[a](s, of) = eps; p.Ob[a](s, og) = 1.0 - eps; }
        std::printf("#stat faint_observation 1\n");
    }
    return p;
}

// ---------------------------------------------------------------- kernels that permute whole entries
static P::VList randomVList(Rng & rng, size_t S, size_t n, size_t O) {
    P::VList w;
    int mode = (int)rng.below(4);
    for (size_t i = 0; i < n; ++i) {
        P::VEntry e; e.values.resize(S);
        for (size_t s = 0; s < S; ++s) {
            double v = (double)rng.range(-8, 8) / 2.0;
            if (mode == 1) v = (double)rng.range(0, 2);                  // many ties / duplicates
            if (mode == 2 && rng.coin(1, 3)) v += std::ldexp((double)rng.range(-20, 20), -23);   // k*2^-23 (~1.2e-7 steps): inside/outside the 1e-6 tolerance, exactly representable
            e.values[s] = v;
        }
        if (mode == 3 && i > 0 && rng.coin(1, 3)) e.values = w[rng.below(i)].values;   // exact duplicates with different tags
        e.action = 100 + i;                       // unique tag: a moved value without its tag is visible
        for (size_t o = 0; o < O; ++o) e.observations.push_back(1000 * (i + 1) + o);
        w.push_back(std::move(e));
    }
    return w;
}

static void emitXD(Rng & rng) {
    size_t S = 1 + rng.below(4), n = rng.below(9), O = rng.below(3);
    auto w = randomVList(rng, S, n, O);
    Line l; l << "C04" << "xd" << S; putVList(l, w); l << "|";
    auto e = AIToolbox::extractDominated(w.begin(), w.end(), P::unwrap);
    w.erase(e, w.end());
    putVList(l, w); l.emit();
}
static void emitPR(Rng & rng) {
    size_t S = 2 + rng.below(3), n = rng.below(9), O = rng.below(3);
    auto w = randomVList(rng, S, n, O);
    Line l; l << "C04" << "pr" << S; putVList(l, w); l << "|";
    AIToolbox::Pruner prune(S);
    auto e = prune(w.begin(), w.end(), P::unwrap);
    w.erase(e, w.end());
    putVList(l, w); l.emit();
}
static void emitCS(Rng & rng) {
    size_t S = 1 + rng.below(3);
    size_t o1 = 1 + rng.below(3), o2 = 1 + rng.below(3);
    auto l1 = randomVList(rng, S, rng.below(4), o1), l2 = randomVList(rng, S, rng.below(4), o2);
    size_t a = rng.below(5); bool order = rng.coin();
    P::IncrementalPruning ip(1, 0.0);
    auto c = ip.crossSum(l1, l2, a, order);
    Line l; l << "C04" << "cs"; putVList(l, l1); putVList(l, l2); l << a << order << "|"; putVList(l, c); l.emit();
}

// Projecter::operator()(w, a) on a random previous list, then crossSumBestAtBelief(b, row, a) on the (optionally
// shuffled-by-extractDominated) row: the two kernels every solver assembles its entries from.
static void emitPJ(Rng & rng) {
    size_t S = 1 + rng.below(4), A = 1 + rng.below(3), O = 1 + rng.below(4);
    if (rng.coin(1, 4)) O = 5 + rng.below(4);              // O >> S
    auto pt = randomPomdp(rng, S, A, O);
    Model model = toDense(pt);
    size_t n = 1 + rng.below(4);
    P::VList w;
    for (size_t i = 0; i < n; ++i) {
        P::VEntry e; e.values.resize(S);
        for (size_t s = 0; s < S; ++s) e.values[s] = (double)rng.range(-16, 16) / 4.0;
        e.action = rng.below(A); e.observations.assign(O, 0);
        w.push_back(e);
    }
    size_t a = rng.below(A);
    P::Projecter<Model> proj(model);
    auto row = proj(w, a);
    if (rng.coin(1, 3)) {                                  // the element-wise (non-Eigen) branch of the Projecter
        PlainModel pm{model}; P::Projecter<PlainModel> pproj(pm);
        row = pproj(w, a); std::printf("#stat pj_plain_model 1\n");
    }
    { Line l; l << "C04" << "pj"; putPomdp(l, pt); putVList(l, w); l << a << "|" << (size_t)O;
      for (size_t o = 0; o < O; ++o) putVList(l, row[o]);
      l.emit(); }
    // shuffle / thin the projection lists the way the solvers do before the point-based cross-sum
    bool thin = rng.coin();
    std::vector<P::VList> rows(O);
    for (size_t o = 0; o < O; ++o) {
        rows[o] = row[o];
        if (thin) rows[o].erase(AIToolbox::extractDominated(rows[o].begin(), rows[o].end(), P::unwrap), rows[o].end());
    }
    auto b = dyadicBelief(rng, S);
    double value = 0;
    auto e = P::crossSumBestAtBelief(b, rows, a, &value);
    Line l; l << "C04" << "cb" << S; putVector(l, b); l << a << (size_t)O;
    for (size_t o = 0; o < O; ++o) putVList(l, rows[o]);
    l << "|"; putEntry(l, e); l << value; l.emit();
}

// Witness::addDefaultEntry + addVariations (private; -fno-access-control) on the real Projecter row
static void emitWV(Rng & rng) {
    size_t S = 2 + rng.below(2), A = 1 + rng.below(2), O = 1 + rng.below(3);
    auto pt = randomPomdp(rng, S, A, O);
    Model model = toDense(pt);
    size_t n = 1 + rng.below(3);
    P::VList w;
    for (size_t i = 0; i < n; ++i) {
        P::VEntry e; e.values.resize(S);
        for (size_t s = 0; s < S; ++s) e.values[s] = (double)rng.range(-16, 16) / 4.0;
        e.action = rng.below(A); e.observations.assign(O, 0);
        w.push_back(e);
    }
    size_t a = rng.below(A);
    P::Projecter<Model> proj(model);
    auto row = proj(w, a);
    P::Witness wt(1, 0.0);
    wt.S = S; wt.A = A; wt.O = O;
    wt.agenda_.clear(); wt.triedVectors_.clear();
    wt.addDefaultEntry(row);
    auto b = dyadicBelief(rng, S);
    auto e = P::crossSumBestAtBelief(b, row, a);
    wt.addVariations(row, e);
    std::vector<P::VObs> tried(wt.triedVectors_.begin(), wt.triedVectors_.end());
    std::sort(tried.begin(), tried.end());
    Line l; l << "C04" << "wv"; putPomdp(l, pt); putVList(l, w); l << a; putEntry(l, e); l << "|";
    l << (size_t)wt.agenda_.size(); for (const auto & v : wt.agenda_) putVector(l, v);
    l << (size_t)tried.size(); for (const auto & t : tried) l.nats(t);
    l.emit();
}

// PERSEUS draws its beliefs from a BeliefGenerator seeded by the global Seeder: re-seeding reproduces the same list, so the
// whole run can be compared with the Lean model `perseusRun`
static void emitPERSEUSOn(const PomdpTables & pt, size_t nB, unsigned h, unsigned seed) {
    Model model = toDense(pt);
    AIToolbox::Seeder::setRootSeed(seed);
    P::PERSEUS solver(nB, h, 0.0);
    auto vf = std::get<1>(solver(model, pt.R.minCoeff()));
    AIToolbox::Seeder::setRootSeed(seed);
    (void)AIToolbox::Seeder::getSeed();                  // the seed PERSEUS's own engine took
    P::BeliefGenerator<Model> gen(model);                // takes the seed PERSEUS's internal generator took
    auto bl = gen(nB);
    Line l; l << "C04" << "perseus"; putPomdp(l, pt); l << (size_t)bl.size();
    for (const auto & b : bl) putVector(l, b);
    l << (double)vf[0][0].values[0] << h << "|"; putVF(l, vf); l.emit();
}

// regression model of seeded change C04-2: 3 states, 3 actions, 2 observations, deterministic transitions; on it a PERSEUS
// backup at a support belief can be worse than the previous horizon's value when the support is sparse (nBeliefs 2, 3)
static PomdpTables regressingTables() {
    PomdpTables p; p.S = 3; p.A = 3; p.O = 2; p.discount = 0.9;
    const int target[3][3] = { {0, 2, 0}, {1, 0, 2}, {0, 1, 0} };
    const int reward[3][3] = { {-2, 2, -3}, {3, 5, -5}, {3, -4, 5} };
    const int obs[3][3]    = { {2, 2, 1}, {2, 1, 1}, {0, 2, 2} };
    p.T.assign(3, AIToolbox::Matrix2D::Zero(3, 3)); p.R = AIToolbox::Matrix2D::Zero(3, 3); p.Ob.assign(3, AIToolbox::Matrix2D::Zero(3, 2));
    for (size_t s = 0; s < 3; ++s) for (size_t a = 0; a < 3; ++a) {
        p.T[a](s, target[s][a]) = 1.0; p.R(s, a) = reward[s][a];
        double w0 = obs[s][a] == 0 ? 0.8 : (obs[s][a] == 1 ? 0.2 : 0.5);
        p.Ob[a](s, 0) = w0; p.Ob[a](s, 1) = 1.0 - w0;
    }
    return p;
}

static void emitPERSEUS(Rng & rng) {
    size_t S = 2 + rng.below(3), A = 1 + rng.below(3), O = rng.coin() ? 2 : 1;
    unsigned h = 1 + (unsigned)rng.below(3);
    size_t nB = S + 1 + rng.below(5);
    if (rng.coin(2, 3)) {                                  // sparse support, many horizons (a later backup can regress at a support belief)
        nB = 1 + rng.below(3); h = 4 + (unsigned)rng.below(5);
        if (rng.coin(1, 4)) { O = 3; h = std::min(h, 6u); }
        if (rng.coin()) { S = 3; A = 2 + rng.below(2); }
        std::printf("#stat perseus_few_beliefs:%zu 1\n", nB);
    }
    auto pt = randomPomdp(rng, S, A, O);
    emitPERSEUSOn(pt, nB, h, (unsigned)rng.below(1u << 30));
}

// LinearSupport, one timestep at a time: the real run gives the levels; the vertex lists the real findVerticesNaive hands
// out along the way are obtained by walking the same loop here with the library's own kernels (they are ORACLE answers
// for the Lean model `lsStep`, which is then compared with the real level).  If this walk does not end in the real
// level (e.g. the heap broke an error tie differently) the line says so and is not compared.
static void emitLS(Rng & rng) {
    size_t S = 2 + rng.below(3), A = 2 + rng.below(2), O = 1 + rng.below(3);
    unsigned h = 1 + (unsigned)rng.below(3);
    if (S == 4) h = std::min(h, 2u);
    auto pt = randomPomdp(rng, S, A, O);
    Model model = toDense(pt);
    P::LinearSupport solver(h, 0.0);
    auto vf = std::get<1>(solver(model));
    P::Projecter<Model> project(model);
    for (size_t t = 1; t < vf.size(); ++t) {
        auto projections = project(vf[t - 1]);
        P::VList good; std::vector<P::VEntry> all;
        auto inAll = [&](const P::VEntry & e) { for (auto & x : all) if (x == e) return true; return false; };
        AIToolbox::Vector corner(S); corner.setZero();
        for (size_t s = 0; s < S; ++s) {
            corner[s] = 1.0;
            auto e = P::crossSumBestAtBelief(corner, projections);
            if (!inAll(e)) { all.push_back(e); good.push_back(e); }
            corner[s] = 0.0;
        }
        struct Vx { AIToolbox::Vector belief; double cur; P::VEntry support; double err; };
        std::vector<Vx> agenda; std::vector<AIToolbox::Vector> tried;
        std::vector<std::vector<AIToolbox::Vector>> lists;
        bool tie = false;
        auto vertices = AIToolbox::findVerticesNaive(good, P::unwrap);
        lists.push_back(vertices.first);
        size_t guard = 0;
        while (guard++ < 200) {
            for (size_t i = 0; i < vertices.first.size(); ++i) {
                const auto & vertex = vertices.first[i];
                bool seen = false; for (auto & x : tried) if (x == vertex) { seen = true; break; }
                if (seen) continue;
                double trueValue;
                auto support = P::crossSumBestAtBelief(vertex, projections, &trueValue);
                double currentValue;
                AIToolbox::findBestAtPoint(vertex, good.cbegin(), good.cend(), &currentValue, P::unwrap);
                double diff = trueValue - currentValue;
                if (diff > 0.0 && AIToolbox::checkDifferentGeneral(diff, 0.0)) {
                    if (!inAll(support)) all.push_back(support);
                    agenda.push_back(Vx{vertex, currentValue, support, diff});
                }
                tried.push_back(vertex);
            }
            if (agenda.empty()) break;
            size_t bi = 0;
            for (size_t i = 1; i < agenda.size(); ++i) { if (agenda[i].err > agenda[bi].err) bi = i; }
            for (size_t i = 0; i < agenda.size(); ++i) if (i != bi && agenda[i].err == agenda[bi].err) tie = true;
            Vx best = agenda[bi]; agenda.erase(agenda.begin() + bi);
            std::vector<Vx> keep;
            for (auto & it : agenda) if (!(it.belief.dot(best.support.values) > it.cur)) keep.push_back(it);
            agenda.swap(keep);
            const P::VEntry * bp = &best.support;
            vertices = AIToolbox::findVerticesNaive(bp, bp + 1, good.cbegin(), good.cend(), P::unwrap, P::unwrap);
            lists.push_back(vertices.first);
            good.push_back(best.support);
        }
        bool walked = good.size() == vf[t].size();
        for (size_t i = 0; walked && i < good.size(); ++i) walked = (good[i] == vf[t][i]);
        Line l; l << "C04" << "ls"; putPomdp(l, pt); putVList(l, vf[t - 1]); l << "|"; putVList(l, vf[t]); l << "|";
        l << walked << tie << (size_t)lists.size();
        for (auto & lst : lists) { l << (size_t)lst.size(); for (auto & b : lst) putVector(l, b); }
        l.emit();
    }
}

// PBVI with an explicit belief list is deterministic and LP-free: the whole run is compared with the Lean model `pbviRun`
static void emitPBVI(Rng & rng) {
    size_t S = 2 + rng.below(3), A = 1 + rng.below(3), O = rng.coin() ? 2 : (rng.coin() ? 1 : 4);
    unsigned h = 1 + (unsigned)rng.below(3);
    if (O == 4) h = std::min(h, 2u);
    auto pt = randomPomdp(rng, S, A, O);
    Model model = toDense(pt);
    auto bl = someBeliefs(rng, S, 1 + rng.below(S + 3));
    if (rng.coin(1, 3)) bl.erase(bl.begin(), bl.begin() + std::min<size_t>(bl.size() - 1, S));   // drop the corners sometimes
    if (O <= 2 && rng.coin(1, 2)) {                        // sparse support (1..3 beliefs, corners not guaranteed), horizons 4..8
        bl.clear(); size_t nB = 1 + rng.below(3);
        for (size_t i = 0; i < nB; ++i) {
            if (rng.coin(1, 3)) { AIToolbox::Vector c = AIToolbox::Vector::Zero(S); c[rng.below(S)] = 1.0; bl.push_back(c); }
            else bl.push_back(dyadicBelief(rng, S));
        }
        h = 4 + (unsigned)rng.below(5);
        std::printf("#stat pbvi_few_beliefs:%zu 1\n", nB);
    }
    P::PBVI solver(bl.size(), h, 0.0);
    auto vf = std::get<1>(solver(model, bl));
    Line l; l << "C04" << "pbvi"; putPomdp(l, pt); l << (size_t)bl.size();
    for (const auto & b : bl) putVector(l, b);
    l << h << "|"; putVF(l, vf); l.emit();
}

// IncrementalPruning, one timestep at a time: the real run gives the levels; the answers the real Pruner gives along the way are
// obtained by walking the same loop here with the library's own kernels (Projecter, Pruner, the private crossSum) in the same
// order with ONE Pruner object, as the library does.  They are ORACLE answers for the Lean model `ipStep` (projection, pruning of
// every projection list, the merge schedule with crossSum + prune at each merge, concatenation, final prune), which is then
// compared with the real level.
static void emitIP(Rng & rng) {
    size_t S = 1 + rng.below(3), A = 1 + rng.below(3), O = 1 + rng.below(4);
    unsigned h = 1 + (unsigned)rng.below(3);
    if (rng.coin(1, 4)) { O = 5 + rng.below(3); S = std::min<size_t>(S, 2); }
    if (O >= 4) h = std::min(h, 2u);
    auto pt = randomPomdp(rng, S, A, O);
    Model model = toDense(pt);
    P::IncrementalPruning solver(h, 0.0);
    auto vf = std::get<1>(solver(model));
    AIToolbox::Pruner prune(S);
    P::Projecter<Model> projecter(model);
    for (size_t t = 1; t < vf.size(); ++t) {
        std::vector<std::pair<P::VList, P::VList>> calls;
        auto pruneLog = [&](P::VList & l) {
            P::VList in = l;
            l.erase(prune(std::begin(l), std::end(l), P::unwrap), std::end(l));
            calls.emplace_back(std::move(in), l);
        };
        auto projs = projecter(vf[t - 1]);
        P::VList w;
        for (size_t a = 0; a < A; ++a) {
            for (size_t o = 0; o < O; ++o) pruneLog(projs[a][o]);
            bool oddOld = O % 2;
            int i, front = 0, back = (int)O - oddOld, stepsize = 2, diff = 1, elements = (int)O;
            while (elements > 1) {
                for (i = front; i != back; i += stepsize) {
                    projs[a][i] = solver.crossSum(projs[a][i], projs[a][i + diff], a, stepsize > 0);
                    pruneLog(projs[a][i]);
                    --elements;
                }
                const bool oddNew = elements % 2;
                const int tmp = back;
                back = front - (oddNew ? 0 : stepsize);
                front = tmp - (oddOld ? 0 : stepsize);
                stepsize *= -2; diff *= -2;
                oddOld = oddNew;
            }
            w.insert(std::end(w), std::begin(projs[a][front]), std::end(projs[a][front]));
        }
        pruneLog(w);
        bool walked = w.size() == vf[t].size();
        for (size_t k = 0; walked && k < w.size(); ++k) walked = (w[k] == vf[t][k]);
        Line l; l << "C04" << "ip"; putPomdp(l, pt); putVList(l, vf[t - 1]); l << "|"; putVList(l, vf[t]); l << "|";
        l << walked << (size_t)calls.size();
        for (auto & c : calls) { putVList(l, c.first); putVList(l, c.second); }
        l.emit();
        std::printf("#stat ip_calls:%zu 1\n#stat ip_O:%zu 1\n", std::min<size_t>(calls.size(), 40), O);
    }
}

// Witness, one timestep at a time (same idea as emitIP / emitLS): the loop is walked here with the library's own kernels
// (Projecter, WitnessLP, addDefaultEntry / addVariations, crossSumBestAtBelief, Pruner) in the library's order with ONE WitnessLP
// and ONE Pruner; the LP's answers are ORACLE answers for the Lean model `witnessAction`.
static void emitWT(Rng & rng) {
    size_t S = 1 + rng.below(3), A = 1 + rng.below(3), O = 1 + rng.below(3);
    unsigned h = 1 + (unsigned)rng.below(3);
    if (rng.coin(1, 5)) { O = 4 + rng.below(2); S = std::min<size_t>(S, 2); A = std::min<size_t>(A, 2); h = std::min(h, 2u); }
    auto pt = randomPomdp(rng, S, A, O);
    Model model = toDense(pt);
    P::Witness solver(h, 0.0);
    auto vf = std::get<1>(solver(model));
    P::Witness wt(h, 0.0); wt.S = S; wt.A = A; wt.O = O;
    P::Projecter<Model> project(model);
    AIToolbox::Pruner prune(S);
    AIToolbox::WitnessLP lp(S);
    size_t reserveSize = 1;
    struct Call { size_t uLen; AIToolbox::Vector v; bool has; AIToolbox::Vector b; };
    for (size_t t = 1; t < vf.size(); ++t) {
        reserveSize = std::max(reserveSize, 2 * vf[t - 1].size());
        auto projections = project(vf[t - 1]);
        std::vector<std::vector<Call>> calls(A);
        std::vector<P::VList> U(A);
        for (size_t a = 0; a < A; ++a) {
            lp.reset(); wt.agenda_.clear(); wt.triedVectors_.clear();
            size_t counter = 0;
            lp.allocate(reserveSize);
            wt.addDefaultEntry(projections[a]);
            size_t guard = 0;
            while (!wt.agenda_.empty() && guard++ < 100000) {
                const auto witness = lp.findWitness(wt.agenda_.back());
                calls[a].push_back(Call{U[a].size(), wt.agenda_.back(), (bool)witness, witness ? *witness : AIToolbox::Vector()});
                if (witness) {
                    auto best = P::crossSumBestAtBelief(*witness, projections[a], a);
                    const auto sameValues = [&best](const P::VEntry & e) { return e.values == best.values; };
                    if (std::any_of(std::begin(U[a]), std::end(U[a]), sameValues)) { wt.agenda_.pop_back(); continue; }
                    U[a].push_back(std::move(best));
                    lp.addOptimalRow(U[a].back().values);
                    wt.addVariations(projections[a], U[a].back());
                    if (++counter == reserveSize) { reserveSize *= 2; lp.allocate(reserveSize); }
                } else wt.agenda_.pop_back();
            }
        }
        P::VList w;
        for (size_t a = 0; a < A; ++a) w.insert(std::end(w), std::begin(U[a]), std::end(U[a]));
        P::VList in = w;
        w.erase(prune(std::begin(w), std::end(w), P::unwrap), std::end(w));
        bool walked = w.size() == vf[t].size();
        for (size_t k = 0; walked && k < w.size(); ++k) walked = (w[k] == vf[t][k]);
        Line l; l << "C04" << "wt"; putPomdp(l, pt); putVList(l, vf[t - 1]); l << "|"; putVList(l, vf[t]); l << "|" << walked;
        size_t total = 0;
        for (size_t a = 0; a < A; ++a) {
            l << (size_t)calls[a].size(); total += calls[a].size();
            for (auto & c : calls[a]) { l << c.uLen; putVector(l, c.v); l << c.has; if (c.has) putVector(l, c.b); }
        }
        putVList(l, in); putVList(l, w);
        l.emit();
        std::printf("#stat wt_lp_calls:%zu 1\n#stat wt_O:%zu 1\n#stat wt_walked:%d 1\n", std::min<size_t>(total, 60) / 5 * 5, O, (int)walked);
    }
}

// PBVI warm start: operator()(model, beliefs, v0) / operator()(model, v0).  v0 is (0,1) what another solver returned
// (consistent; PERSEUS' has a non-zero terminal list), (2) an ARBITRARY stack of lists (links may even be out of range:
// PBVI must keep it verbatim and only read its last list), (3) a single non-zero terminal list with several entries.
static void emitPBVIW(Rng & rng) {
    size_t S = 1 + rng.below(4), A = 1 + rng.below(3), O = rng.coin() ? 2 : (rng.coin() ? 1 : 3);
    unsigned h = 1 + (unsigned)rng.below(3);
    auto pt = randomPomdp(rng, S, A, O);
    Model model = toDense(pt);
    int mode = (int)rng.below(4);
    P::ValueFunction v0;
    AIToolbox::Seeder::setRootSeed((unsigned)rng.below(1u << 30));
    if (mode == 0) { P::IncrementalPruning s0(1 + (unsigned)rng.below(2), 0.0); v0 = std::get<1>(s0(model)); }
    else if (mode == 1) { P::PERSEUS s0(4, 1 + (unsigned)rng.below(3), 0.0); v0 = std::get<1>(s0(model, pt.R.minCoeff())); }
    else {
        size_t L = mode == 3 ? 1 : 1 + rng.below(3);
        for (size_t k = 0; k < L; ++k) {
            P::VList w; size_t n = 1 + rng.below(3);
            for (size_t i = 0; i < n; ++i) {
                P::VEntry e; e.values.resize(S);
                for (size_t s = 0; s < S; ++s) e.values[s] = (double)rng.range(-16, 16) / 4.0;
                e.action = rng.below(A);
                if (k > 0) for (size_t o = 0; o < O; ++o) e.observations.push_back(rng.below(5));
                w.push_back(e);
            }
            v0.push_back(w);
        }
    }
    bool expl = rng.coin(3, 4);
    auto bl = someBeliefs(rng, S, 1 + rng.below(S + 3));
    if (rng.coin(1, 3)) bl.erase(bl.begin(), bl.begin() + std::min<size_t>(bl.size() - 1, S));
    P::PBVI solver(expl ? bl.size() : 6, h, 0.0);
    P::ValueFunction vf = expl ? std::get<1>(solver(model, bl, v0)) : std::get<1>(solver(model, v0));
    if (!expl) bl.clear();
    Line l; l << "C04" << "pbviw"; putPomdp(l, pt); l << expl << (size_t)bl.size();
    for (const auto & b : bl) putVector(l, b);
    l << h << "|"; putVF(l, v0); l << "|"; putVF(l, vf); l.emit();
    std::printf("#stat pbviw_mode:%d 1\n#stat pbviw_explicit:%d 1\n#stat pbviw_v0_levels:%zu 1\n", mode, (int)expl, v0.size());
}

static void emitMK(Rng & rng) {
    size_t S = 1 + rng.below(6), A = 1 + rng.below(3), O = 1 + rng.below(3);
    auto v = P::makeValueFunction(S);
    P::Policy pol(S, A, O);
    // the documented rejection: a Policy cannot be built from an empty ValueFunction
    std::string thrown = "none";
    try { P::Policy bad(S, A, O, P::ValueFunction{}); } catch (const std::exception & e) { thrown = errClass(e); }
    Line l; l << "C04" << "mk" << S << A << O << "|"; putVF(l, v); l << "|"; putVF(l, pol.getValueFunction()); l << "|" << thrown << (size_t)pol.getH() << (size_t)pol.getO(); l.emit();
}

// ---------------------------------------------------------------- case table
static const long kFixed = 16;
long verif::verif_ncases(const std::string & tier) { return kFixed + (tier == "thorough" ? 25000 : 1500); }

void verif::verif_case(Rng & rng, long idx, const std::string & tier) {
    if (idx == 0) { runSolver(rng, 5, witnessQmdp(), 2); return; }           // known finding witness
    if (idx == 1) { runSolver(rng, 5, witnessQmdp(), 1); return; }           // QMDP with VI horizon 1 IS a one-step plan
    if (idx >= 2 && idx < 7) { runSolver(rng, (int)idx - 2, tigerTables(), 3); return; }
    if (idx == 7) {
        runSolver(rng, 0, tigerTables(), 4);
        for (size_t nB : {2, 3, 20}) emitPERSEUSOn(regressingTables(), nB, 8, 7);
        return;
    }
    if (idx >= 8 && idx < kFixed) { for (int k = 0; k < 12; ++k) { emitXD(rng); emitPR(rng); emitCS(rng); emitPJ(rng); emitPBVI(rng); emitWV(rng); emitPERSEUS(rng); emitLS(rng); emitPBVIW(rng); emitPBVIW(rng); emitMK(rng); emitIP(rng); emitWT(rng); } return; }
    long r = idx - kFixed;
    int which = (int)(r % 6);
    size_t S = 2 + rng.below(3), A = 1 + rng.below(3), O = 1 + rng.below(3);
    unsigned h = 1 + (unsigned)rng.below(4);
    if (rng.coin(1, 10)) S = 1;                                               // a single state: beliefs are the point (1)
    if (which == 0 && rng.coin(1, 4)) O = 4 + rng.below(4);                   // longer merge schedules for IncrementalPruning
    if (which != 0 && which != 2 && rng.coin(1, 8)) O = 5 + rng.below(4);     // O >> S for the point-based solvers, Witness and QMDP
    if (O >= 4) { h = std::min(h, 2u); S = std::min<size_t>(S, 3); }
    if (which == 1 && O >= 5) { O = std::min<size_t>(O, 6); S = std::min<size_t>(S, 2); A = std::min<size_t>(A, 2); }   // Witness enumerates variations: keep it cheap
    bool ugly = rng.coin(1, 5);
    int sparse = rng.coin(1, 5) ? 1 : (rng.coin(1, 4) ? 2 : 0);             // 1 = SparseModel, 2 = element-wise (non-Eigen) model
    // LinearSupport enumerates polytope vertices naively: keep its instances small (its cost is not this property's subject)
    if (which == 2) { if (ugly) { S = std::min<size_t>(S, 3); h = std::min(h, 2u); } else if (S == 4) h = std::min(h, (A * O >= 9 || (O >= 3 && A >= 2)) ? 2u : 3u); }
    if (which == 0 && S == 4 && A * O >= 9) h = std::min(h, 3u);             // the two shapes that took 40-60 s (a busy machine turns that into a reported hang)
    auto pt = ugly ? uglyPomdp(rng, S, A, O) : randomPomdp(rng, S, A, O);
    if (ugly) std::printf("#stat ugly 1\n");
    // large / tiny / offset magnitudes (powers of two keep the dyadic tables exact): the tolerance comparisons (dominates, the
    // Projecter's cut, findBestAtPoint ties) and the checker's relative-or-absolute test see values far from 1.  Not for the
    // LP-driven agenda loops of Witness / LinearSupport (their running time on such inputs is not this property's subject).
    if (which != 1 && which != 2 && rng.coin(1, 6)) {
        int k = rng.coin() ? 20 : (rng.coin() ? -20 : 10);
        if (k < 0 && sparse == 1) sparse = 0;      // SparseModel's converting constructor drops rewards <= 1e-6 by design: it would not be the POMDP the line states
        double off = rng.coin(1, 3) ? std::ldexp(1.0, k + 6) : 0.0;
        pt.R = pt.R * std::ldexp(1.0, k) + AIToolbox::Matrix2D::Constant(pt.R.rows(), pt.R.cols(), off);
        std::printf("#stat reward_scale:2^%d%s 1\n", k, off != 0.0 ? "+offset" : "");
    }
    double tol = (rng.coin(1, 8)) ? 0.5 : 0.0;                                // early stop on tolerance: shorter value function
    // point-based solvers on a SPARSE support (fewer beliefs than |S|+1) over many horizons: backups may regress there
    size_t fewBeliefs = 0;
    if ((which == 3 || which == 4) && rng.coin(1, 2)) {
        fewBeliefs = 1 + rng.below(3); h = 4 + (unsigned)rng.below(5); tol = 0.0;
        if (O == 3) h = std::min(h, 6u);
        if (O >= 4) h = std::min(h, 3u);                                      // O^h histories are replayed
    }
    if (std::getenv("VERIF_DEBUG")) std::fprintf(stderr, "case %ld: %s S=%zu A=%zu O=%zu h=%u ugly=%d sparse=%d tol=%g\n", idx, kSolvers[which], S, A, O, h, (int)ugly, (int)sparse, tol);
    runSolver(rng, which, pt, h, tol, sparse, fewBeliefs);
    if (r % 10 == 0) { emitXD(rng); emitPR(rng); emitCS(rng); emitPJ(rng); emitPBVI(rng); emitWV(rng); emitPERSEUS(rng); emitPERSEUS(rng); emitLS(rng); emitPBVIW(rng); emitPBVIW(rng); emitIP(rng); emitWT(rng); }
}

VERIF_MAIN
