// compile probe: FastInformedBound (and QMDP) instantiated with a user-defined model that is IsModel but not IsModelEigen
#include "c03_gmodel.hpp"
#include <AIToolbox/POMDP/Algorithms/FastInformedBound.hpp>
#include <AIToolbox/POMDP/Algorithms/QMDP.hpp>
void f(const GModel & m) { AIToolbox::POMDP::FastInformedBound fib(10, 0.0); auto r = fib(m); (void)r; AIToolbox::POMDP::QMDP q(10, 0.0); auto r2 = q(m); (void)r2; }
