// C08 correspondence harness: sampling routines of Utils/Probability.hpp / Probability.cpp and the
// model sampling functions built on them.  Every uniform draw is scripted exactly: the samplers are
// templated on the generator, so a 32-bit-range engine that replays chosen words makes
// std::uniform_real_distribution<double>(0,1) return any 53-bit dyadic u in [0,1).
// Model objects own a std::mt19937 seeded from AIToolbox::Seeder; it is mirrored here.
#include "common/verif.hpp"
#include <random>
#include <algorithm>
#include <limits>
#include <type_traits>
#include <AIToolbox/Types.hpp>
#include <AIToolbox/Seeder.hpp>
#include <AIToolbox/Utils/Probability.hpp>
#include <AIToolbox/MDP/Model.hpp>
#include <AIToolbox/MDP/SparseModel.hpp>
#include <AIToolbox/POMDP/Model.hpp>
#include <AIToolbox/POMDP/SparseModel.hpp>
#include <AIToolbox/Factored/MDP/CooperativeModel.hpp>
#include <AIToolbox/Factored/MDP/Environments/SysAdmin.hpp>
#include <AIToolbox/MDP/Experience.hpp>
#include <AIToolbox/MDP/SparseExperience.hpp>
#include <AIToolbox/MDP/MaximumLikelihoodModel.hpp>
#include <AIToolbox/MDP/SparseMaximumLikelihoodModel.hpp>
#include <AIToolbox/Bandit/Model.hpp>
#include <AIToolbox/Factored/Bandit/Model.hpp>
#include <AIToolbox/Factored/Bandit/FlattenedModel.hpp>
#include <AIToolbox/Factored/MDP/CooperativeExperience.hpp>
#include <AIToolbox/Factored/MDP/CooperativeMaximumLikelihoodModel.hpp>
#include <AIToolbox/Factored/MDP/CooperativeThompsonModel.hpp>

using namespace verif;
namespace AI = AIToolbox;

// does the tree under test seed the engine of NO_CHECK-built POMDP models (fixes/C08-7)?  tools/props/c08.py defines it
#ifndef C08_POMDP_NOCHECK_SEEDED
#define C08_POMDP_NOCHECK_SEEDED false
#endif

// ---------------------------------------------------------------- independent mirror of AIToolbox::Seeder
// Seeder::setRootSeed(r) seeds an mt19937 with r; getSeed() draws uniform_int_distribution<unsigned>(0, max) from it, which for a
// 32-bit engine of full range is the raw engine word.  The mirror does NOT call the library (a Seeder that hands out
// repeated or constant seeds would otherwise be mirrored faithfully and go unnoticed).
struct SeederMirror {
    std::mt19937 g;
    explicit SeederMirror(unsigned root) : g(root) {}
    unsigned next() { return (unsigned)g(); }
};

// ---------------------------------------------------------------- scripted engine
struct ScriptEngine {
    using result_type = uint32_t;
    static constexpr result_type min() { return 0; }
    static constexpr result_type max() { return 0xffffffffu; }
    std::vector<uint32_t> w;
    size_t pos = 0;
    result_type operator()() { uint32_t r = pos < w.size() ? w[pos] : 0u; ++pos; return r; }
    void push53(uint64_t k) {            // the next canonical draw will be exactly k / 2^53
        uint64_t v = k << 11;
        w.push_back((uint32_t)(v & 0xffffffffu)); w.push_back((uint32_t)(v >> 32));
    }
};
static const uint64_t TWO53 = 1ull << 53;
static ScriptEngine engOf(uint64_t k) { ScriptEngine e; e.push53(k); return e; }
// engine whose next two words are the halves of v: the canonical draw is v / 2^64 rounded to double
// (exactly (v >> 11) / 2^53 when the low 11 bits are zero)
static ScriptEngine engOfRaw(uint64_t v) { ScriptEngine e; e.w.push_back((uint32_t)(v & 0xffffffffu)); e.w.push_back((uint32_t)(v >> 32)); return e; }
// value std::uniform_real_distribution<double>(a,b) returns for the engine's next words (engine copied)
static double peek(ScriptEngine e, double a = 0.0, double b = 1.0) { std::uniform_real_distribution<double> d(a, b); return d(e); }
static uint64_t k53(double u) {          // nearest grid index of u in [0,1), clamped
    if (!(u > 0)) return 0;
    if (u >= 1.0) return TWO53 - 1;
    return (uint64_t)std::ldexp(u, 53);
}

// ---------------------------------------------------------------- distributions
// valid probability vectors in the shapes the property's quantifier lists
static std::vector<double> genProb(Rng & rng, size_t n, int & shape) {
    std::vector<double> p(n, 0.0);
    shape = (int)rng.below(9);
    unsigned bits = 3 + (unsigned)rng.below(8);           // denominators 2^3 .. 2^10
    uint64_t total = 1ull << bits;
    auto composition = [&](double zeroProb) {
        // random composition of `total` into n parts, zeros with the given probability
        std::vector<uint64_t> c(n, 0);
        std::vector<size_t> live;
        for (size_t i = 0; i < n; ++i) if (!rng.coin((unsigned)(zeroProb * 100), 100)) live.push_back(i);
        if (live.empty()) live.push_back(rng.below(n));
        uint64_t left = total;
        for (size_t j = 0; j + 1 < live.size(); ++j) { uint64_t x = rng.below(left + 1); if (rng.coin()) x = rng.below(x + 1); c[live[j]] = x; left -= x; }
        c[live.back()] = left;
        // shuffle the live parts so that the big remainder is not always last
        for (size_t j = live.size(); j > 1; --j) std::swap(c[live[j - 1]], c[live[rng.below(j)]]);
        for (size_t i = 0; i < n; ++i) p[i] = (double)c[i] / (double)total;
    };
    switch (shape) {
        case 0: composition(0.0); break;
        case 1: composition(0.4); break;                     // zeros anywhere
        case 2: std::fill(p.begin(), p.end(), 0.0); p[0] = 1.0; break;        // mass at first index
        case 3: std::fill(p.begin(), p.end(), 0.0); p[n - 1] = 1.0; break;    // mass at last index
        case 4: {                                            // first entry above average
            composition(0.2);
            size_t m = std::max_element(p.begin(), p.end()) - p.begin(); std::swap(p[0], p[m]); break;
        }
        case 5: {                                            // sum = 1 - 2^-21 or 1 - 2^-20 (accepted: |sum-1| <= 1e-6)
            composition(0.2);
            double eps = rng.coin() ? std::ldexp(1.0, -21) : std::ldexp(1.0, -20);
            std::vector<size_t> pos; for (size_t i = 0; i < n; ++i) if (p[i] > 0) pos.push_back(i);
            p[rng.pick(pos)] -= eps; break;
        }
        case 6: {                                            // sum = 1 + 2^-21 / 2^-20
            composition(0.2);
            double eps = rng.coin() ? std::ldexp(1.0, -21) : std::ldexp(1.0, -20);
            p[rng.below(n)] += eps; break;
        }
        case 7: {                                            // uniform (ties with the average everywhere)
            for (auto & x : p) x = 1.0 / (double)n; break;
        }
        default: {                                           // ugly: thirds and tenths, normalised in double
            double s = 0; for (auto & x : p) { int t = (int)rng.below(4); x = t == 0 ? 0.0 : t == 1 ? 1.0 / 3 : t == 2 ? 0.1 : 0.7; s += x; }
            if (s == 0) { p[rng.below(n)] = 1.0; s = 1.0; }
            for (auto & x : p) x /= s; break;
        }
    }
    return p;
}

// draws to try for a distribution: 0, 1-2^-53, every breakpoint and its two grid neighbours, random ones
static std::vector<uint64_t> sweep(Rng & rng, const std::vector<double> & vals, int nrandom) {
    std::vector<uint64_t> ks{0, TWO53 - 1, TWO53 / 2};
    double c = 0;
    for (double v : vals) {
        c += v;
        uint64_t k = k53(c);
        ks.push_back(k);
        if (k > 0) ks.push_back(k - 1);
        if (k + 1 < TWO53) ks.push_back(k + 1);
    }
    for (int i = 0; i < nrandom; ++i) ks.push_back(rng.next() >> 11);
    for (int i = 0; i < 2; ++i) ks.push_back(TWO53 - 1 - rng.below(1ull << 33));   // draws in the last 1e-6 of [0,1)
    for (auto & k : ks) if (k >= TWO53) k = TWO53 - 1;
    for (auto & k : ks) k <<= 11;                                   // grid draws as raw 64-bit values
    for (int i = 0; i < 2; ++i) ks.push_back(rng.next());           // off-grid draws (finer than 2^-53 below 1/2)
    ks.push_back(rng.next() >> (unsigned)rng.range(12, 50));        // tiny off-grid draw
    ks.push_back(~0ull);                                            // both words all ones: generate_canonical would round to 1.0 (libstdc++ clamps it below one)
    return ks;
}

// ---------------------------------------------------------------- dense
static void emit_dense(const std::vector<double> & p, const std::vector<uint64_t> & ks, int cont) {
    const size_t n = p.size();
    AI::Vector ev(n); for (size_t i = 0; i < n; ++i) ev[i] = p[i];
    AI::Matrix2D m(2, n); m.setZero(); for (size_t i = 0; i < n; ++i) m(1, i) = p[i];
    Line l; l << "C08" << "dense" << (cont == 0 ? "vec" : cont == 1 ? "std" : "row"); l.nums(p); l << (size_t)ks.size();
    std::vector<size_t> res; size_t words = 0;
    for (uint64_t k : ks) {
        ScriptEngine e = engOfRaw(k);
        l << peek(e);
        size_t r = cont == 0 ? AI::sampleProbability(n, ev, e) : cont == 1 ? AI::sampleProbability(n, p, e) : AI::sampleProbability(n, m.row(1), e);
        res.push_back(r); words += e.pos;
    }
    l << "|"; l.nats(res); l << words; l.emit();
}

// ---------------------------------------------------------------- sparse
struct Entry { size_t c; double v; };
static void emit_sparse(const std::vector<std::vector<double>> & rows, size_t r, const std::vector<uint64_t> & ks, bool compressed = true) {
    const size_t R = rows.size(), n = rows[0].size();
    AI::SparseMatrix2D m(R, n);
    if (!compressed) m.reserve(Eigen::VectorXi::Constant(R, (int)n));     // uncompressed mode: every row keeps free slots after its entries
    // uncompressed: the entries of a row are inserted in descending column order (Eigen keeps the row sorted)
    for (size_t i = 0; i < R; ++i) for (size_t jj = 0; jj < n; ++jj) { const size_t j = compressed ? jj : n - 1 - jj; if (rows[i][j] != 0.0) m.insert(i, j) = rows[i][j]; }
    if (compressed) m.makeCompressed();
    std::printf("#stat sparse_%s 1\n", compressed ? "compressed" : "uncompressed");
    const AI::SparseMatrix2D & cm = m;
    // stored entries of row r and everything stored after it (the flat arrays the iterator indexes)
    std::vector<Entry> row, rest;
    for (size_t i = r; i < R; ++i)
        for (AI::SparseMatrix2D::InnerIterator it(cm, i); it; ++it) (i == r ? row : rest).push_back({(size_t)it.col(), it.value()});
    Line l; l << "C08" << "sparse" << n;
    l << (size_t)row.size(); for (auto & e : row) { l << e.c; l << e.v; }
    l << (size_t)rest.size(); for (auto & e : rest) { l << e.c; l << e.v; }
    l << (size_t)ks.size();
    std::vector<size_t> res; size_t words = 0;
    for (uint64_t k : ks) {
        ScriptEngine e = engOfRaw(k);
        l << peek(e);
        res.push_back(AI::sampleProbability(n, cm.row(r), e)); words += e.pos;
    }
    l << "|"; l.nats(res); l << words; l.emit();
}

// draws strictly below the row sum by a safe margin (used for the last stored row, where walking
// off the row is an out-of-bounds read rather than a wrong answer)
[[maybe_unused]] static std::vector<uint64_t> below_sum(const std::vector<uint64_t> & ks, const std::vector<double> & row) {
    double s = 0; for (double v : row) s += v;
    uint64_t lim = k53(s - 1e-9);
    std::vector<uint64_t> out;
    for (uint64_t k : ks) if ((k >> 11) + 1 < lim) out.push_back(k);
    return out;
}

// ---------------------------------------------------------------- projection
static void emit_proj(const std::vector<double> & v) {
    AI::Vector in(v.size()); for (size_t i = 0; i < v.size(); ++i) in[i] = v[i];
    AI::ProbabilityVector out = AI::projectToProbability(in);
    std::vector<double> o(out.data(), out.data() + out.size());
    Line l; l << "C08" << "proj"; l.nums(v); l << "|"; l.nums(o); l.emit();
}

static std::vector<double> genVector(Rng & rng, size_t n, int & shape) {
    shape = (int)rng.below(8);
    int dummy;
    std::vector<double> v(n);
    switch (shape) {
        case 0: case 1: v = genProb(rng, n, dummy); break;                       // already valid (all shapes of genProb)
        case 2: for (auto & x : v) x = (double)rng.range(0, 12) / 8.0; break;    // non-negative, any sum
        case 3: for (auto & x : v) x = (double)rng.range(-8, 12) / 8.0; break;   // mixed signs
        case 4: for (auto & x : v) x = -(double)rng.range(1, 12) / 8.0; break;   // all negative
        case 5: for (auto & x : v) x = rng.coin() ? 0.0 : -(double)rng.range(0, 8) / 4.0; break;   // zeros and negatives: sum = 0
        case 6: {                                                                 // valid part plus negative entries
            v = genProb(rng, n, dummy);
            if (n > 1) { size_t i = rng.below(n); if (v[i] == 0.0 || rng.coin()) { double keep = v[i]; v[i] = -0.5; v[(i + 1) % n] += keep; } }
            break;
        }
        default: for (auto & x : v) x = rng.coin(1, 4) ? -0.3 : (rng.coin() ? 0.1 : 1.0 / 3); break;   // ugly
    }
    return v;
}

// ---------------------------------------------------------------- isProbability (ties the model's `isProb`)
static void emit_isprob(const std::vector<double> & v) {
    const size_t n = v.size();
    const bool t = AI::isProbability(n, v);
    AI::Matrix2D m(1, n); for (size_t i = 0; i < n; ++i) m(0, i) = v[i];
    const bool md = AI::isProbability(m);
    AI::SparseMatrix2D sm(1, n); for (size_t i = 0; i < n; ++i) if (v[i] != 0.0) sm.insert(0, i) = v[i];
    sm.makeCompressed();
    const bool ms = AI::isProbability(sm);
    Line l; l << "C08" << "isprob"; l.nums(v); l << "|" << t << md << ms; l.emit();
}

// ---------------------------------------------------------------- makeRandomProbability
static void emit_rand(const std::vector<uint64_t> & ks) {
    ScriptEngine e; for (auto k : ks) e.push53(k);
    Line l; l << "C08" << "rand" << (size_t)ks.size();
    { ScriptEngine c = e; std::uniform_real_distribution<double> d(0.0, 1.0); for (size_t i = 0; i < ks.size(); ++i) l << d(c); }
    AI::ProbabilityVector b = AI::makeRandomProbability(ks.size() + 1, e);
    std::vector<double> o(b.data(), b.data() + b.size());
    l << "|"; l.nums(o); l << e.pos; l.emit();
}

// raw 64-bit draws (finer than the 2^-53 grid below 1/2): the spacings are then rounded by the double subtraction
static void emit_rand_raw(Rng & rng, size_t m) {
    ScriptEngine e; for (size_t i = 0; i < m; ++i) { uint64_t v = rng.next(); if (rng.coin(1, 4)) v >>= (unsigned)rng.below(40); e.w.push_back((uint32_t)(v & 0xffffffffu)); e.w.push_back((uint32_t)(v >> 32)); }
    Line l; l << "C08" << "rand" << m;
    { ScriptEngine c = e; std::uniform_real_distribution<double> d(0.0, 1.0); for (size_t i = 0; i < m; ++i) l << d(c); }
    AI::ProbabilityVector b = AI::makeRandomProbability(m + 1, e);
    std::vector<double> o(b.data(), b.data() + b.size());
    l << "|"; l.nums(o); l << e.pos; l.emit();
}

// The positive numbers the sampler normalises, replayed on a copy of the engine.  As found the code draws
// Gamma(a_i, 1) directly; with fixes/C08-6 it draws their logarithms through the library's own
// sampleLogGammaDistribution and divides by the largest one (the normalised result is the same: dirichlet_scale_invariant).
static std::vector<double> mirrorGammas(const std::vector<double> & params, AI::RandomEngine & mir) {
    std::vector<double> gs(params.size());
#ifdef C08_LOG_GAMMA
    double mx = -std::numeric_limits<double>::infinity();
    for (size_t i = 0; i < params.size(); ++i) { gs[i] = AI::sampleLogGammaDistribution(params[i], mir); mx = std::max(mx, gs[i]); }
    for (auto & g : gs) g = std::exp(g - mx);
#else
    double sum = 0.0;
    for (size_t i = 0; i < params.size(); ++i) { std::gamma_distribution<double> d(params[i], 1.0); gs[i] = d(mir); sum += gs[i]; }
#ifdef C08_GAMMA_FALLBACK
    // fixes/C08-8: when every plain draw underflowed to 0 the code draws again in log space (the library's own helper) and scales by the largest
    if (sum == 0.0) {
        double mx = -std::numeric_limits<double>::infinity();
        for (size_t i = 0; i < params.size(); ++i) { gs[i] = AI::sampleLogGammaDistribution(params[i], mir); mx = std::max(mx, gs[i]); }
        for (auto & g : gs) g = std::exp(g - mx);
        std::printf("#stat gamma_fallback_taken 1\n");
    }
#endif
#endif
    return gs;
}

// gamma-based samplers, driven by the library's own engine type; a copy of the engine replays the gamma draws
static void emit_gamma(Rng & rng) {
    static const double shapes[] = {0.5, 1.0, 2.0, 3.5, 10.0, 0.1, 0.01, 25.0};
    const unsigned seed = (unsigned)rng.next();
    AI::RandomEngine eng(seed), mir(seed);
    if (rng.coin(2, 3)) {
        const size_t n = (size_t)rng.range(1, 8);
        std::vector<double> params(n);
        for (auto & p : params) p = shapes[rng.below(8)];
        std::vector<double> gs = mirrorGammas(params, mir);
        // the two-argument overload (returning the vector) does not instantiate: it calls the three-argument one,
        // which is declared after it and is not found by ADL for std/Eigen argument types (fixes/C08-5)
#ifdef C08_DIRICHLET_2ARG
        AI::ProbabilityVector out = AI::sampleDirichletDistribution(params, eng);
#else
        AI::ProbabilityVector out(n);
        AI::sampleDirichletDistribution(params, eng, out);
#endif
        std::vector<double> o(out.data(), out.data() + out.size());
        Line l; l << "C08" << "dir"; l.nums(params); l.nums(gs); l << "|"; l.nums(o); l << (eng == mir); l.emit();
    } else {
        const double a = shapes[rng.below(8)], b = shapes[rng.below(8)];
        const std::vector<double> xy = mirrorGammas({a, b}, mir);
        const double x = xy[0], y = xy[1];
        const double r = AI::sampleBetaDistribution(a, b, eng);
        Line l; l << "C08" << "beta" << a << b << x << y << "|" << r << (eng == mir); l.emit();
    }
}
// small shape parameters: libstdc++ computes Gamma(a<1) as Gamma(a+1) * u^(1/a), which underflows to 0; when every draw is 0
// the normalisation divides 0 by 0.  The first seed for which that happens is used (about one in five for a = 0.001).
static void emit_gamma_underflow(bool beta) {
    for (unsigned seed = 0; seed < 200; ++seed) {
        AI::RandomEngine eng(seed), mir(seed), probe(seed);
        std::gamma_distribution<double> da(0.001, 1.0), db(0.001, 1.0);
        if (da(probe) != 0.0 || db(probe) != 0.0) continue;          // both plain gamma draws underflow for this seed
        const std::vector<double> xy = mirrorGammas({0.001, 0.001}, mir);
        const double x = xy[0], y = xy[1];
        if (beta) {
            const double r = AI::sampleBetaDistribution(0.001, 0.001, eng);
            Line l; l << "C08" << "beta" << 0.001 << 0.001 << x << y << "|" << r << (eng == mir); l.emit();
        } else {
            std::vector<double> params{0.001, 0.001}, gs{x, y};
            AI::ProbabilityVector out(2);
            AI::sampleDirichletDistribution(params, eng, out);
            std::vector<double> o(out.data(), out.data() + out.size());
            Line l; l << "C08" << "dir"; l.nums(params); l.nums(gs); l << "|"; l.nums(o); l << (eng == mir); l.emit();
        }
        return;
    }
    std::printf("#stat gamma_underflow_witness_not_found 1\n");
}
// makeRandomProbability through std::mt19937: the draws are read from a copy of the engine
static void emit_rand_mt(Rng & rng, size_t m) {
    const unsigned seed = (unsigned)rng.next();
    AI::RandomEngine eng(seed), mir(seed);
    std::uniform_real_distribution<double> d(0.0, 1.0);
    Line l; l << "C08" << "rand" << m; for (size_t i = 0; i < m; ++i) l << d(mir);
    AI::ProbabilityVector b = AI::makeRandomProbability(m + 1, eng);
    std::vector<double> o(b.data(), b.data() + b.size());
    l << "|"; l.nums(o); l << (size_t)(eng == mir ? 2 * m : 0); l.emit();
}
// non-finite projection inputs: outside the property's quantifier (documented); must not crash
static void emit_proj_nonfinite(const std::vector<double> & v) {
    AI::Vector in(v.size()); for (size_t i = 0; i < v.size(); ++i) in[i] = v[i];
    AI::ProbabilityVector out = AI::projectToProbability(in);
    std::vector<double> o(out.data(), out.data() + out.size());
    Line l; l << "C08" << "projx"; l.nums(v); l << "|"; l.nums(o); l.emit();
}

// ---------------------------------------------------------------- VoseAliasSampler
// The table is private; it is reconstructed from behaviour.  For column i the sampler returns i
// while frac(x) < prob_[i] and alias_[i] afterwards (x = draw from uniform_real(0,n)); the switch
// point is found by bisection over the 53-bit grid of canonical draws.
struct Probe {
    const AI::VoseAliasSampler & s; double n;
    size_t out(uint64_t k) const { ScriptEngine e = engOf(k); return s.sampleProbability(e); }
    double x(uint64_t k) const { return peek(engOf(k), 0.0, n); }
};
static void emit_vose(Rng & rng, const std::vector<double> & p, int nsamples) {
    const size_t n = p.size();
    AI::ProbabilityVector pv(n); for (size_t i = 0; i < n; ++i) pv[i] = p[i];
    AI::VoseAliasSampler sampler(pv);
    Probe pr{sampler, (double)(long)n};
    std::vector<double> thr(n); std::vector<size_t> alias(n);
    bool monotone = true;
    for (size_t i = 0; i < n; ++i) {
        // grid range [lo, hi) of draws whose x lies in [i, i+1)
        auto firstAtLeast = [&](double bound) {       // smallest k with x(k) >= bound (x is monotone in k)
            uint64_t a = 0, b = TWO53;                // invariant: x(a-1) < bound <= x(b) (virtually)
            while (a < b) { uint64_t mid = a + (b - a) / 2; if (pr.x(mid) >= bound) b = mid; else a = mid + 1; }
            return a;
        };
        uint64_t lo = firstAtLeast((double)i), hi = firstAtLeast((double)(i + 1));
        if (lo >= hi) { thr[i] = 1.0; alias[i] = i; continue; }
        if (pr.out(lo) != i) { thr[i] = pr.x(lo) - (double)i; alias[i] = pr.out(hi - 1); if (pr.out(lo) != alias[i]) monotone = false; continue; }
        if (pr.out(hi - 1) == i) { thr[i] = 1.0; alias[i] = i; continue; }
        uint64_t a = lo, b = hi - 1;                  // out(a) == i, out(b) != i
        while (b - a > 1) { uint64_t mid = a + (b - a) / 2; if (pr.out(mid) == i) a = mid; else b = mid; }
        thr[i] = pr.x(b) - (double)i; alias[i] = pr.out(b);
        if (pr.out(hi - 1) != alias[i]) monotone = false;
    }
    const double avg = 1.0 / (double)(long)n;
    { Line l; l << "C08" << "vose"; l.nums(p); l << avg << "|"; l.nums(thr); l.nats(alias); l << monotone; l.emit(); }
    // random draws against the reconstructed table (validates the reconstruction and the sampling rule)
    Line l; l << "C08" << "vsample"; l.nums(thr); l.nats(alias); l << (size_t)nsamples;
    std::vector<size_t> res; size_t words = 0;
    for (int t = 0; t < nsamples; ++t) {
        uint64_t k = t == 0 ? 0 : t == 1 ? TWO53 - 1 : (rng.next() >> 11);
        ScriptEngine e = engOf(k);
        l << peek(e, 0.0, (double)(long)n);
        res.push_back(sampler.sampleProbability(e)); words += e.pos;
    }
    l << "|"; l.nats(res); l << words; l.emit();
}

// ---------------------------------------------------------------- model objects
using T3 = std::vector<std::vector<std::vector<double>>>;
static T3 genTable(Rng & rng, size_t S, size_t A, size_t N, bool sparseish) {
    T3 t(S, std::vector<std::vector<double>>(A));
    for (size_t s = 0; s < S; ++s) for (size_t a = 0; a < A; ++a) {
        int shape;
        do { t[s][a] = genProb(rng, N, shape); } while (shape == 5 && sparseish);   // sparse model objects: no row sum below one (their engine cannot be scripted; the walk-off is witness case 12)
    }
    return t;
}
static T3 genRewards(Rng & rng, size_t S, size_t A) {
    T3 r(S, std::vector<std::vector<double>>(A, std::vector<double>(S)));
    for (auto & x : r) for (auto & y : x) for (auto & z : y) z = (double)rng.range(-16, 16) / 4.0;
    return r;
}

// stored (column, value) entries of one row of a compressed sparse matrix, in storage order
static void putEntries(Line & l, const AI::SparseMatrix2D & m, size_t row) {
    std::vector<Entry> es;
    for (AI::SparseMatrix2D::InnerIterator it(m, row); it; ++it) es.push_back({(size_t)it.col(), it.value()});
    l << (size_t)es.size(); for (auto & e : es) { l << e.c; l << e.v; }
}
template <class M> constexpr bool isSparseMat = std::is_same_v<std::decay_t<M>, AI::SparseMatrix2D>;

template <class M> static void rowOf(const M & mat, size_t s, std::vector<double> & out) {
    out.clear(); for (long j = 0; j < mat.cols(); ++j) out.push_back(mat.coeff(s, j));
}

static void emit_models(Rng & rng, int nsamples) {
    const size_t S = (size_t)rng.range(1, 5), A = (size_t)rng.range(1, 3), O = (size_t)rng.range(1, 4);
    const unsigned root = (unsigned)rng.next();
    const bool sparse = rng.coin();
    T3 t = genTable(rng, S, A, S, sparse), r = genRewards(rng, S, A);
    T3 o = genTable(rng, S, A, O, sparse);
    std::uniform_real_distribution<double> d01(0.0, 1.0);
    auto run = [&](auto & pm, const char * kind, int skipSeeds, bool pomdpSeeded) {
        // the object drew two seeds from the Seeder (MDP part first, then the POMDP part): mirror them
        // (`skipSeeds` seeds were drawn before by the object it was copied from; a POMDP part that does not
        // seed its engine holds a default-constructed std::mt19937)
        SeederMirror sm(root);
        for (int i = 0; i < skipSeeds; ++i) sm.next();
        std::mt19937 m1(sm.next()), m2;
        if (pomdpSeeded) m2.seed(sm.next());
        std::vector<double> row;
        for (int i = 0; i < nsamples; ++i) {
            size_t s = rng.below(S), a = rng.below(A);
            int which = (int)rng.below(3);
            if (which == 0) {
                double u = d01(m1);
                auto [s1, rew] = pm.sampleSR(s, a);
                rowOf(pm.getTransitionFunction(a), s, row);
                Line l; l << "C08" << "sr" << kind; l.nums(row); l << u << pm.getExpectedReward(s, a, 0) << "|" << s1 << rew; l.emit();
                if constexpr (isSparseMat<decltype(pm.getTransitionFunction(a))>) {   // the scan the code runs: stored entries, reward from the stored table
                    Line x; x << "C08" << "spsr" << S; putEntries(x, pm.getTransitionFunction(a), s);
                    x << u << pm.getRewardFunction().coeff(s, a) << "|" << s1 << rew; x.emit();
                }
            } else if (which == 1) {
                double u1 = d01(m1), u2 = d01(m2);
                auto [s1, ob, rew] = pm.sampleSOR(s, a);
                rowOf(pm.getTransitionFunction(a), s, row);
                Line l; l << "C08" << "sor" << kind; l.nums(row);
                // every observation row the second draw could be applied to
                l << (size_t)S; for (size_t x = 0; x < S; ++x) { std::vector<double> orow; rowOf(pm.getObservationFunction(a), x, orow); l.nums(orow); }
                l << u1 << u2 << pm.getExpectedReward(s, a, 0) << "|" << s1 << ob << rew; l.emit();
                if constexpr (isSparseMat<decltype(pm.getTransitionFunction(a))>) {
                    Line x; x << "C08" << "spsor" << S << O; putEntries(x, pm.getTransitionFunction(a), s);
                    x << (size_t)S; for (size_t z = 0; z < S; ++z) putEntries(x, pm.getObservationFunction(a), z);
                    x << u1 << u2 << pm.getRewardFunction().coeff(s, a) << "|" << s1 << ob << rew; x.emit();
                }
            } else {
                size_t s1 = rng.below(S);
                double u = d01(m2);
                auto [ob, rew] = pm.sampleOR(s, a, s1);
                rowOf(pm.getObservationFunction(a), s1, row);
                Line l; l << "C08" << "sr" << (std::string(kind) + "-obs"); l.nums(row); l << u << pm.getExpectedReward(s, a, s1) << "|" << ob << rew; l.emit();
                if constexpr (isSparseMat<decltype(pm.getTransitionFunction(a))>) {
                    Line x; x << "C08" << "spor" << O; putEntries(x, pm.getObservationFunction(a), s1);
                    x << u << pm.getRewardFunction().coeff(s, a) << "|" << ob << rew; x.emit();
                }
            }
        }
    };
    // construction routes: checked 3-D tables; NO_CHECK (matrices moved in); default object + setters; copy from
    // the model of the other storage kind through the generic interface
    using DenseP = AI::POMDP::Model<AI::MDP::Model>;
    using SparseP = AI::POMDP::SparseModel<AI::MDP::SparseModel>;
    int route = (int)rng.below(4);
    AI::Seeder::setRootSeed(root);
    try {
        if (route == 1) {
            AI::Matrix3D T(A, AI::Matrix2D(S, S)), OB(A, AI::Matrix2D(S, O)); AI::Matrix2D R(S, A); R.setZero();
            for (size_t a = 0; a < A; ++a) for (size_t s = 0; s < S; ++s) {
                for (size_t s1 = 0; s1 < S; ++s1) { T[a](s, s1) = t[s][a][s1]; R(s, a) += t[s][a][s1] * r[s][a][s1]; }
                for (size_t x = 0; x < O; ++x) OB[a](s, x) = o[s][a][x];
            }
            if (!sparse) {
                DenseP pm(AI::NO_CHECK, O, std::move(OB), AI::NO_CHECK, S, A, std::move(T), std::move(R), 0.9);
                std::printf("#stat models_route_nocheck_dense 1\n"); run(pm, "dense", 0, C08_POMDP_NOCHECK_SEEDED);
            } else {
                AI::SparseMatrix3D sT(A, AI::SparseMatrix2D(S, S)), sO(A, AI::SparseMatrix2D(S, O));
                for (size_t a = 0; a < A; ++a) { sT[a] = T[a].sparseView(); sO[a] = OB[a].sparseView(); sT[a].makeCompressed(); sO[a].makeCompressed(); }
                AI::SparseMatrix2D sR = R.sparseView(); sR.makeCompressed();
                SparseP pm(AI::NO_CHECK, O, std::move(sO), AI::NO_CHECK, S, A, std::move(sT), std::move(sR), 0.9);
                std::printf("#stat models_route_nocheck_sparse 1\n"); run(pm, "sparse", 0, C08_POMDP_NOCHECK_SEEDED);
            }
            return;
        }
        if (route == 2) {
            if (!sparse) { DenseP pm(O, S, A, 0.9); pm.setTransitionFunction(t); pm.setRewardFunction(r); pm.setObservationFunction(o);
                std::printf("#stat models_route_setters_dense 1\n"); run(pm, "dense", 0, true); }
            else { SparseP pm(O, S, A, 0.9); pm.setTransitionFunction(t); pm.setRewardFunction(r); pm.setObservationFunction(o);
                std::printf("#stat models_route_setters_sparse 1\n"); run(pm, "sparse", 0, true); }
            return;
        }
        if (route == 3) {
            if (!sparse) { SparseP src(O, o, S, A, t, r, 0.9); DenseP pm(src);
                std::printf("#stat models_route_copy_dense_from_sparse 1\n"); run(pm, "dense", 2, true); }
            else { DenseP src(O, o, S, A, t, r, 0.9); SparseP pm(src);
                std::printf("#stat models_route_copy_sparse_from_dense 1\n"); run(pm, "sparse", 2, true); }
            return;
        }
    } catch (const std::invalid_argument &) {
        // the copy constructors reject single entries above 1.0 (a row [1+2^-21, 0, ...] passes isProbability): C06's subject
        std::printf("#stat models_route%d_rejected 1\n", route);
        AI::Seeder::setRootSeed(root);
    }
    std::printf("#stat models_route_tables_%s 1\n", sparse ? "sparse" : "dense");
    if (!sparse) { DenseP pm(O, o, S, A, t, r, 0.9); run(pm, "dense", 0, true); }
    else { SparseP pm(O, o, S, A, t, r, 0.9); run(pm, "sparse", 0, true); }
}

// The engine of a model object must be seeded from the Seeder on every construction route: K observations of a
// NO_CHECK-built POMDP model against the draws of an mt19937 seeded with the object's (second) Seeder seed.
static void emit_seeded(Rng & rng, bool sparse, unsigned root) {
    const size_t S = 2, A = 1, O = 4, K = 16;
    std::vector<double> orow{0.25, 0.25, 0.25, 0.25};
    AI::Matrix3D T(A, AI::Matrix2D::Constant(S, S, 0.5)), OB(A, AI::Matrix2D::Constant(S, O, 0.25)); AI::Matrix2D R = AI::Matrix2D::Zero(S, A);
    SeederMirror sm(root);
    sm.next();                                               // the MDP part's seed
    std::mt19937 m2(sm.next());                              // the seed the POMDP part is expected to take
    std::uniform_real_distribution<double> d01(0.0, 1.0);
    std::vector<double> us; for (size_t i = 0; i < K; ++i) us.push_back(d01(m2));
    std::vector<size_t> obs;
    AI::Seeder::setRootSeed(root);
    if (!sparse) {
        AI::POMDP::Model<AI::MDP::Model> pm(AI::NO_CHECK, O, std::move(OB), AI::NO_CHECK, S, A, std::move(T), std::move(R), 0.9);
        for (size_t i = 0; i < K; ++i) obs.push_back(std::get<0>(pm.sampleOR(0, 0, rng.below(S))));
    } else {
        AI::SparseMatrix3D sT(A, AI::SparseMatrix2D(S, S)), sO(A, AI::SparseMatrix2D(S, O));
        sT[0] = T[0].sparseView(); sO[0] = OB[0].sparseView(); sT[0].makeCompressed(); sO[0].makeCompressed();
        AI::SparseMatrix2D sR(S, A);
        AI::POMDP::SparseModel<AI::MDP::SparseModel> pm(AI::NO_CHECK, O, std::move(sO), AI::NO_CHECK, S, A, std::move(sT), std::move(sR), 0.9);
        for (size_t i = 0; i < K; ++i) obs.push_back(std::get<0>(pm.sampleOR(0, 0, rng.below(S))));
    }
    Line l; l << "C08" << "seeded" << (sparse ? "POMDP::SparseModel(NO_CHECK)" : "POMDP::Model(NO_CHECK)"); l.nums(orow); l.nums(us); l << "|"; l.nats(obs); l.emit();
}

// ---------------------------------------------------------------- isProbability: matrix overloads
// A D x R x C table, valid except (half of the time) for ONE defective row at a random place; the six
// matrix-level overloads must agree with the row-by-row reading on which the sampler theorems rest.
static void emit_isprobm(Rng & rng) {
    const size_t D = (size_t)rng.range(1, 3), R = (size_t)rng.range(1, 4), C = (size_t)rng.range(1, 6);
    T3 t(D, std::vector<std::vector<double>>(R));
    int shape;
    for (auto & m : t) for (auto & row : m) row = genProb(rng, C, shape);
    int defect = rng.coin() ? (int)rng.below(7) : -1;
    const size_t dd = rng.below(D), dr = rng.below(R), i = rng.below(C), j = (i + 1 + rng.below(C > 1 ? C - 1 : 1)) % C;
    auto & row = t[dd][dr];
    static const double tiny[] = {1e-7, 1e-9, 0x1p-30, 1e-12, 4e-7};
    switch (defect) {
        case 0: { double e = tiny[rng.below(5)]; if (C > 1) { row[j] += row[i] + e; row[i] = -e; } else defect = -1; break; }   // tiny negative entry, sum kept
        case 1: if (C > 1) { row[j] += row[i] + 0.25; row[i] = -0.25; } else defect = -1; break;                               // large negative entry, sum kept
        case 2: row[i] += rng.coin() ? 2e-6 : (row[i] >= 2e-6 ? -2e-6 : 2e-6); break;                                         // sum off by 2e-6
        case 3: { static const double offs[] = {1e-6 + 1e-8, -(1e-6 + 1e-8), 1e-6 - 1e-8, -(1e-6 - 1e-8)}; double o = offs[rng.below(4)]; if (row[i] + o >= 0) row[i] += o; else row[i] -= o; break; }
        case 4: if (C > 1) { row[j] += row[i] + 1.0; row[i] = -1.0; } else defect = -1; break;                                  // an entry above one balanced by a negative one
        case 5: row[i] = row[i] == 0.0 ? -0.0 : row[i]; break;                                                                 // negative zero: still valid
        case 6: for (auto & x : row) x = 0.0; break;                                                                           // all-zero row
        default: break;
    }
    std::printf("#stat isprobm_defect_%d 1\n#stat isprobm_defect_at_%s 1\n", defect, defect < 0 ? "none" : (dd + 1 == D && dr + 1 == R) ? "last_row" : (dd == 0 && dr == 0) ? "first_row" : "inner_row");
    const bool explicitZeros = rng.coin(1, 3), compressed = !rng.coin(1, 4);
    AI::Matrix3D m3(D, AI::Matrix2D(R, C)); AI::SparseMatrix3D s3(D, AI::SparseMatrix2D(R, C));
    for (size_t d = 0; d < D; ++d) {
        for (size_t r = 0; r < R; ++r) for (size_t c = 0; c < C; ++c) {
            m3[d](r, c) = t[d][r][c];
            if (t[d][r][c] != 0.0 || explicitZeros) s3[d].insert(r, c) = t[d][r][c];
        }
        if (compressed) s3[d].makeCompressed();
    }
    Line l; l << "C08" << "isprobm" << D; for (auto & m : t) { l << R; for (auto & rw : m) l.nums(rw); }
    l << "|" << AI::isProbability(D, R, C, t) << AI::isProbability(m3) << AI::isProbability(s3)
      << AI::isProbability(R, C, t[dd]) << AI::isProbability(m3[dd]) << AI::isProbability(s3[dd]);
    l.emit();
}

// ---------------------------------------------------------------- rollouts through one object (one engine by reference)
// The action of every step is a function of ALL earlier outcomes (their sum modulo A), so the row scanned at
// step t depends on the whole history; the object's engines are mirrored.
static void emit_traj(Rng & rng, int steps) {
    const size_t S = (size_t)rng.range(2, 5), A = (size_t)rng.range(1, 3), O = (size_t)rng.range(2, 4);
    const unsigned root = (unsigned)rng.next();
    const bool sparse = rng.coin(), pomdp = rng.coin();
    T3 t = genTable(rng, S, A, S, sparse), r = genRewards(rng, S, A), o = genTable(rng, S, A, O, sparse);
    std::uniform_real_distribution<double> d01(0.0, 1.0);
    const size_t s0 = rng.below(S);
    auto go = [&](auto & pm) {
        SeederMirror sm(root);
        std::mt19937 m1(sm.next()), m2(sm.next());
        std::vector<double> us; std::vector<size_t> out;
        size_t s = s0, sum = 0;
        for (int k = 0; k < steps; ++k) {
            const size_t a = sum % A;
            if (!pomdp) { us.push_back(d01(m1)); auto [s1, rew] = pm.sampleSR(s, a); out.push_back(s1); sum += s1; s = s1; }
            else { us.push_back(d01(m1)); us.push_back(d01(m2)); auto [s1, ob, rew] = pm.sampleSOR(s, a); out.push_back(s1); out.push_back(ob); sum += s1 + ob; s = s1; }
        }
        Line l; l << "C08" << "traj" << (pomdp ? "pomdp" : "mdp") << (sparse ? "sparse" : "dense") << A;
        l << A; for (size_t a = 0; a < A; ++a) { l << S; for (size_t x = 0; x < S; ++x) { std::vector<double> row; rowOf(pm.getTransitionFunction(a), x, row); l.nums(row); } }
        l << A; for (size_t a = 0; a < A; ++a) { l << S; for (size_t x = 0; x < S; ++x) { std::vector<double> row; rowOf(pm.getObservationFunction(a), x, row); l.nums(row); } }
        l << s0; l.nums(us); l << "|"; l.nats(out); l.emit();
    };
    AI::Seeder::setRootSeed(root);
    if (!sparse) { AI::POMDP::Model<AI::MDP::Model> pm(O, o, S, A, t, r, 0.9); go(pm); }
    else { AI::POMDP::SparseModel<AI::MDP::SparseModel> pm(O, o, S, A, t, r, 0.9); go(pm); }
}

// Factored model: one independent row scan per state factor, all from the object's own engine.
// a random DDN: state factors of sizes 2..4, agents with 2..3 actions, every feature's parent set selected by a NON-PREFIX
// subset of the agents, one (non-prefix) feature tag per joint action of those agents; rows are genProb shapes; rewards:
// 1..3 bases on random state/action tags.  Exercises DDNGraph::getId / toIndexPartial / factorSpacePartial where a wrong
// multiplier or a wrong start offset matters (SysAdmin has uniform sizes).
static std::vector<size_t> randomTag(Rng & rng, size_t n, size_t maxLen) {
    std::vector<size_t> t;
    do { t.clear(); for (size_t i = 0; i < n; ++i) if (rng.coin()) t.push_back(i); } while (t.empty() || t.size() > maxLen);
    return t;
}
static AI::Factored::MDP::CooperativeModel makeRandomCoop(Rng & rng) {
    namespace F = AI::Factored;
    const size_t nS = (size_t)rng.range(2, 4), nA = (size_t)rng.range(1, 3);
    F::State S(nS); F::Action A(nA);   // sizes differ between factors (2..4 / 2..3)
    for (auto & x : S) x = (size_t)rng.range(2, 4);
    for (auto & x : A) x = (size_t)rng.range(2, 3);
    F::DDNGraph graph(S, A);
    F::DDN::TransitionMatrix T;
    for (size_t i = 0; i < nS; ++i) {
        // tags of up to THREE keys over non-uniform sizes: with two keys the second multiplier is just the first key's size,
        // so a wrong multiplier chain in toIndexPartial / factorSpacePartial only shows from the third key on (mutation R4j)
        F::DDNGraph::ParentSet ps; size_t rows;
        do {
            ps.agents = randomTag(rng, nA, rng.coin(1, 3) ? 3 : 2); ps.features.clear(); rows = 0;
            const size_t na = F::factorSpacePartial(ps.agents, A);
            for (size_t k = 0; k < na; ++k) { ps.features.push_back(randomTag(rng, nS, rng.coin(1, 3) ? 3 : 2)); rows += F::factorSpacePartial(ps.features.back(), S); }
        } while (rows > 160);
        graph.push(ps);
        AI::Matrix2D m(rows, S[i]);
        for (size_t r = 0; r < rows; ++r) { int shape; auto p = genProb(rng, S[i], shape); for (size_t c = 0; c < S[i]; ++c) m(r, c) = p[c]; }
        T.push_back(std::move(m));
    }
    F::FactoredMatrix2D R;
    const size_t nb = (size_t)rng.range(1, 3);
    for (size_t b = 0; b < nb; ++b) {
        F::BasisMatrix bm; bm.tag = randomTag(rng, nS, 3); bm.actionTag = randomTag(rng, nA, 3);
        bm.values.resize(F::factorSpacePartial(bm.tag, S), F::factorSpacePartial(bm.actionTag, A));
        for (long r = 0; r < bm.values.rows(); ++r) for (long c = 0; c < bm.values.cols(); ++c) bm.values(r, c) = (double)rng.range(-8, 8) / 4.0;
        R.bases.push_back(std::move(bm));
    }
    return AI::Factored::MDP::CooperativeModel(std::move(graph), std::move(T), std::move(R), 0.9);
}

static void run_factored(Rng & rng, const AI::Factored::MDP::CooperativeModel & model, unsigned root, int nsamples, int coopLines);

static void emit_factored(Rng & rng, int nsamples) {
    namespace FM = AI::Factored::MDP;
    const unsigned root = (unsigned)rng.next();
    if (rng.coin(1, 3)) {
        AI::Seeder::setRootSeed(root);
        auto model = makeRandomCoop(rng);
        std::printf("#stat coop_topology_random_ddn 1\n");
        run_factored(rng, model, root, nsamples, 2);
        return;
    }
    const unsigned agents = (unsigned)rng.range(3, 5);
    auto dy = [&]() { return (double)rng.range(1, 6) / 16.0; };
    const double pf = dy(), pfb = dy(), pd = dy(), pdb = dy(), pl = dy(), pg = dy() + 0.5, pff = dy();
    AI::Seeder::setRootSeed(root);
    // four topologies: the number of parents per feature (and so the shape of the DDN row ids) differs
    int topo = (int)rng.below(8);
    if (topo == 7 && !rng.coin(1, 4)) topo = 6;      // the 3x3 torus is large (18 features with 5 parents): keep it rare
    std::printf("#stat coop_topology_%s 1\n", topo == 6 ? "grid" : topo == 7 ? "torus" : (topo & 1) ? "biring" : "uniring");
    auto model = topo == 6 ? FM::makeSysAdminGrid(2, (unsigned)rng.range(2, 3), pf, pfb, pd, pdb, pl, pg, pff)
               : topo == 7 ? FM::makeSysAdminTorus(3, 3, pf, pfb, pd, pdb, pl, pg, pff)   // a torus needs at least 3 per side (2 makes both neighbours the same machine: rejected by DDNGraph)
               : (topo & 1) ? FM::makeSysAdminBiRing(agents, pf, pfb, pd, pdb, pl, pg, pff) : FM::makeSysAdminUniRing(agents, pf, pfb, pd, pdb, pl, pg, pff);
    run_factored(rng, model, root, nsamples, topo >= 6 ? 1 : 2);
}

// one independent row scan per state factor, all from the object's own engine
static void run_factored(Rng & rng, const AI::Factored::MDP::CooperativeModel & model, unsigned root, int nsamples, int coopLines) {
    SeederMirror sm(root);
    std::mt19937 mir(sm.next());
    std::uniform_real_distribution<double> d01(0.0, 1.0);
    const auto & S = model.getS(); const auto & A = model.getA();
    for (int t = 0; t < nsamples; ++t) {
        AI::Factored::State s(S.size()); AI::Factored::Action a(A.size());
        for (size_t i = 0; i < S.size(); ++i) s[i] = rng.below(S[i]);
        for (size_t i = 0; i < A.size(); ++i) a[i] = rng.below(A[i]);
        std::vector<double> us; for (size_t i = 0; i < S.size(); ++i) us.push_back(d01(mir));
        AI::Factored::State s1; double rew = 0.0; std::vector<double> rewsOut;
        const bool srs = !rng.coin();
        if (!srs) { auto res = model.sampleSR(s, a); s1 = std::get<0>(res); rew = std::get<1>(res); }
        else {   // sampleSRs: per-basis rewards, summed here in basis order as getValue does
            auto res = model.sampleSRs(s, a); s1 = std::get<0>(res);
            const auto & rews = std::get<1>(res); for (long i = 0; i < rews.size(); ++i) { rew += rews[i]; rewsOut.push_back(rews[i]); }
        }
        Line l; l << "C08" << "fsr" << (size_t)S.size();
        for (size_t i = 0; i < S.size(); ++i) {
            const auto j = model.getGraph().getId(i, s, a);
            std::vector<double> row; rowOf(model.getTransitionFunction().transitions[i], j, row);
            l.nums(row);
        }
        l.nums(us); l << model.getExpectedReward(s, a, s1) << "|"; l.nats(s1); l << rew; l.emit();
        // exact tie of the whole composition: graph (parent sets), every transition matrix, every reward basis
        if (t < coopLines) {
            Line x; x << "C08" << "coop" << (srs ? "srs" : "sr"); x.nats(S); x.nats(A);
            const auto & ps = model.getGraph().getParentSets();
            x << (size_t)ps.size();
            for (size_t i = 0; i < ps.size(); ++i) {
                x.nats(ps[i].agents); x << (size_t)ps[i].features.size(); for (auto & f : ps[i].features) x.nats(f);
                const auto & m = model.getTransitionFunction().transitions[i];
                x << (size_t)m.rows(); for (long r = 0; r < m.rows(); ++r) { std::vector<double> row; rowOf(m, (size_t)r, row); x.nums(row); }
            }
            const auto & bases = model.getRewardFunction().bases;
            x << (size_t)bases.size();
            for (auto & b : bases) {
                x.nats(b.tag); x.nats(b.actionTag);
                x << (size_t)b.values.rows(); for (long r = 0; r < b.values.rows(); ++r) { std::vector<double> row; rowOf(b.values, (size_t)r, row); x.nums(row); }
            }
            x.nats(s); x.nats(a); x.nums(us); x << "|"; x.nats(s1); x << rew; x.nums(rewsOut); x << model.getTransitionProbability(s, a, s1); x.emit();
        }
    }
}

// The sparse walk-off through the public API: MDP::SparseModel stores a row summing to 1-2^-20
// (accepted by isProbability); the object's mt19937 is mirrored to find the first draw at or above
// the row sum, the object is advanced to that draw, and the sampled next state is reported.
static void emit_sparse_model_witness() {
    const double e20 = std::ldexp(1.0, -20), sum = 1.0 - e20;
    T3 t(3, std::vector<std::vector<double>>(1)), r(3, std::vector<std::vector<double>>(1, std::vector<double>(3, 0.0)));
    t[0][0] = {0.5, 0.0, 0.5 - e20}; t[1][0] = {0.0, 1.0, 0.0}; t[2][0] = {0.0, 0.0, 1.0};
    std::uniform_real_distribution<double> d01(0.0, 1.0);
    unsigned bestRoot = 0; long best = -1; double bestU = 0;
    for (unsigned root = 1; root <= 6; ++root) {
        SeederMirror sm(root);
        std::mt19937 mir(sm.next());
        const long cap = best < 0 ? 8000000 : best;
        for (long i = 0; i < cap; ++i) { double u = d01(mir); if (u >= sum) { best = i; bestRoot = root; bestU = u; break; } }
    }
    if (best < 0) { std::printf("#stat sparse_model_witness_not_found 1\n"); return; }
    AI::Seeder::setRootSeed(bestRoot);
    AI::MDP::SparseModel m(3, 1, t, r, 0.9);
    for (long i = 0; i < best; ++i) m.sampleSR(0, 0);
    auto [s1, rew] = m.sampleSR(0, 0);
    std::vector<double> row; rowOf(m.getTransitionFunction(0), 0, row);
    std::printf("#stat sparse_model_witness_draw_index %ld\n", best);
    Line l; l << "C08" << "sr" << "sparse"; l.nums(row); l << bestU << m.getExpectedReward(0, 0, 0) << "|" << s1 << rew; l.emit();
}


// ---------------------------------------------------------------- learned models: MaximumLikelihoodModel / SparseMaximumLikelihoodModel
// rows are visit counts over their total (non-dyadic); never-visited pairs are self loops
static void emit_learned(Rng & rng, int nsamples) {
    const size_t S = (size_t)rng.range(2, 5), A = (size_t)rng.range(1, 3);
    const unsigned root = (unsigned)rng.next();
    const bool sparse = rng.coin(), syncNow = !rng.coin(1, 4);
    const int K = (int)rng.range(0, 40);
    std::uniform_real_distribution<double> d01(0.0, 1.0);
    auto go = [&](auto & exp, auto makeModel, const char * kind) {
        for (int k = 0; k < K; ++k) exp.record(rng.below(S), rng.below(A), rng.below(S), (double)rng.range(-8, 8) / 4.0);
        AI::Seeder::setRootSeed(root);
        auto m = makeModel(exp);
        if (!syncNow && rng.coin()) m.sync();
        SeederMirror sm(root);
        std::mt19937 m1(sm.next());
        std::vector<double> row;
        for (int i = 0; i < nsamples; ++i) {
            const size_t s = rng.below(S), a = rng.below(A);
            const double u = d01(m1);
            auto [s1, rew] = m.sampleSR(s, a);
            rowOf(m.getTransitionFunction(a), s, row);
            Line l; l << "C08" << "sr" << kind; l.nums(row); l << u << m.getExpectedReward(s, a, 0) << "|" << s1 << rew; l.emit();
            if constexpr (isSparseMat<decltype(m.getTransitionFunction(a))>) {
                Line x; x << "C08" << "spsr" << S; putEntries(x, m.getTransitionFunction(a), s);
                x << u << m.getRewardFunction().coeff(s, a) << "|" << s1 << rew; x.emit();
            }
        }
    };
    if (!sparse) { AI::MDP::Experience e(S, A); go(e, [&](auto & x) { return AI::MDP::MaximumLikelihoodModel<AI::MDP::Experience>(x, 0.9, syncNow); }, "ml-dense"); }
    else { AI::MDP::SparseExperience e(S, A); go(e, [&](auto & x) { return AI::MDP::SparseMaximumLikelihoodModel<AI::MDP::SparseExperience>(x, 0.9, syncNow); }, "ml-sparse"); }
    std::printf("#stat learned_%s_%s 1\n", sparse ? "sparse" : "dense", syncNow ? "synced" : "lazy");
}

// ---------------------------------------------------------------- bandit models (reward samples)
// Factored::Bandit::Model over uniform arms [lo, hi): every group owns a Bandit::Model with its own engine (one Seeder
// seed each, in construction order); FlattenedModel converts a joint action id with toFactors and sums the group rewards.
static void emit_fband(Rng & rng, int nsamples) {
    using Dist = std::uniform_real_distribution<double>;
    const unsigned root = (unsigned)rng.next();
    const size_t nAgents = (size_t)rng.range(2, 4);
    AI::Factored::Action A(nAgents); for (auto & x : A) x = (size_t)rng.range(2, 3);
    const size_t G = (size_t)rng.range(1, 3);
    std::vector<AI::Factored::PartialKeys> groups(G);
    std::vector<std::vector<std::pair<double, double>>> armTab(G);
    std::vector<AI::Bandit::Model<Dist>> arms;
    AI::Seeder::setRootSeed(root);
    for (size_t g = 0; g < G; ++g) {
        // non-prefix keys: a random non-empty subset of the agents, ascending
        do { groups[g].clear(); for (size_t i = 0; i < nAgents; ++i) if (rng.coin()) groups[g].push_back(i); } while (groups[g].empty() || groups[g].size() > 3);
        const size_t n = AI::Factored::factorSpacePartial(groups[g], A);
        std::vector<std::tuple<double, double>> args;
        for (size_t k = 0; k < n; ++k) { double lo = (double)rng.range(-8, 8) / 4.0, w = std::ldexp(1.0, (int)rng.range(-1, 2)); args.emplace_back(lo, lo + w); armTab[g].push_back({lo, lo + w}); }
        arms.emplace_back(args);
    }
    AI::Factored::Bandit::Model<Dist> fm(A, groups, std::move(arms));
    AI::Factored::Bandit::FlattenedModel<Dist> flat(fm);
    SeederMirror sm(root);
    std::vector<std::mt19937> eng; for (size_t g = 0; g < G; ++g) eng.emplace_back(sm.next());
    std::uniform_real_distribution<double> d01(0.0, 1.0);
    const size_t total = AI::Factored::factorSpace(A);
    for (int t = 0; t < nsamples; ++t) {
        const bool useFlat = rng.coin();
        std::vector<double> us; for (size_t g = 0; g < G; ++g) us.push_back(d01(eng[g]));
        Line l; l << "C08" << "fband" << (useFlat ? "flat" : "joint"); l.nats(A); l << G;
        for (size_t g = 0; g < G; ++g) { l.nats(groups[g]); l << (size_t)armTab[g].size(); for (auto & ar : armTab[g]) { l << ar.first; l << ar.second; } }
        if (useFlat) {
            const size_t id = rng.below(total);
            const double r = flat.sampleR(id);
            l << (size_t)0 << id; l.nums(us); l << "|" << (size_t)1 << r; l.emit();
        } else {
            AI::Factored::Action a(nAgents); for (size_t i = 0; i < nAgents; ++i) a[i] = rng.below(A[i]);
            const auto & rews = fm.sampleR(a);
            std::vector<double> o(rews.data(), rews.data() + rews.size());
            l.nats(a); l << (size_t)0; l.nums(us); l << "|"; l.nums(o); l.emit();
        }
    }
    std::printf("#stat fband_groups_%zu 1\n", G);
}

// ---------------------------------------------------------------- factored learned models: is the engine seeded?
// CooperativeMaximumLikelihoodModel: every factor's sample against the draws of an mt19937 seeded with the Seeder seed the
// object is expected to take.  CooperativeThompsonModel: its constructor samples the whole transition function from the
// posterior with the object's engine, so two objects built from the same experience under different root seeds must differ.
static void emit_seeded_factored(Rng & rng, bool thompson, unsigned root) {
    namespace FM = AI::Factored::MDP;
    AI::Seeder::setRootSeed(root);
    auto truth = FM::makeSysAdminUniRing(3, 0.1, 0.2, 0.3, 0.4, 0.2, 0.2, 0.1);     // takes the first seed
    FM::CooperativeExperience exp(truth.getGraph());
    const auto & S = truth.getS(); const auto & A = truth.getA();
    for (int k = 0; k < 300; ++k) {
        AI::Factored::State s(S.size()); AI::Factored::Action a(A.size());
        for (size_t i = 0; i < S.size(); ++i) s[i] = rng.below(S[i]);
        for (size_t i = 0; i < A.size(); ++i) a[i] = rng.below(A[i]);
        auto [s1, rews] = truth.sampleSRs(s, a);
        AI::Factored::Rewards rr(S.size()); rr.setZero(); for (long i = 0; i < std::min<long>(rews.size(), rr.size()); ++i) rr[i] = rews[i];
        exp.record(s, a, s1, rr);
    }
    if (!thompson) {
        FM::CooperativeMaximumLikelihoodModel ml(exp, 0.9, true);
        SeederMirror sm(root); sm.next();
        std::mt19937 mir(sm.next());
        std::uniform_real_distribution<double> d01(0.0, 1.0);
        Line l; l << "C08" << "seededrows" << "CooperativeMaximumLikelihoodModel";
        std::vector<std::vector<double>> rows; std::vector<double> us; std::vector<size_t> outs;
        for (int t = 0; t < 6; ++t) {
            AI::Factored::State s(S.size()); AI::Factored::Action a(A.size());
            for (size_t i = 0; i < S.size(); ++i) s[i] = rng.below(S[i]);
            for (size_t i = 0; i < A.size(); ++i) a[i] = rng.below(A[i]);
            auto [s1, rew] = ml.sampleSR(s, a);
            for (size_t i = 0; i < S.size(); ++i) {
                std::vector<double> row; rowOf(ml.getTransitionFunction().transitions[i], ml.getGraph().getId(i, s, a), row);
                rows.push_back(row); us.push_back(d01(mir)); outs.push_back(s1[i]);
            }
        }
        l << (size_t)rows.size(); for (auto & r : rows) l.nums(r); l.nums(us); l << "|"; l.nats(outs); l.emit();
    } else {
        auto table = [&](unsigned r) {
            AI::Seeder::setRootSeed(r);
            FM::CooperativeThompsonModel tm(exp, 0.9);
            std::vector<double> v;
            for (auto & m : tm.getTransitionFunction().transitions) for (long i = 0; i < m.rows(); ++i) for (long j = 0; j < m.cols(); ++j) v.push_back(m(i, j));
            return v;
        };
        const auto t1 = table(root), t2 = table(root + 1);
        Line l; l << "C08" << "seedvar" << "CooperativeThompsonModel"; l.nums(t1); l << "|"; l.nums(t2); l.emit();
    }
}


// CooperativeMaximumLikelihoodModel::sampleSR / sampleSRs over a random DDN after a few hundred recorded transitions (rows are
// visit frequencies; unvisited rows keep their initial distribution); the object's engine is mirrored as the code has it
// (default-constructed until fixes/C08-9, then the object's Seeder seed)
#ifndef C08_FACTORED_LEARNED_SEEDED
#define C08_FACTORED_LEARNED_SEEDED false
#endif
static void emit_factored_learned(Rng & rng, int nsamples) {
    namespace FM = AI::Factored::MDP;
    const unsigned root = (unsigned)rng.next();
    AI::Seeder::setRootSeed(root);
    auto truth = makeRandomCoop(rng);                                     // takes the first seed
    FM::CooperativeExperience exp(truth.getGraph());
    const auto & S = truth.getS(); const auto & A = truth.getA();
    auto randSA = [&](AI::Factored::State & s, AI::Factored::Action & a) {
        s.resize(S.size()); a.resize(A.size());
        for (size_t i = 0; i < S.size(); ++i) s[i] = rng.below(S[i]);
        for (size_t i = 0; i < A.size(); ++i) a[i] = rng.below(A[i]);
    };
    const int K = (int)rng.range(0, 300);
    for (int k = 0; k < K; ++k) {
        AI::Factored::State s; AI::Factored::Action a; randSA(s, a);
        auto [s1, r] = truth.sampleSR(s, a);
        AI::Factored::Rewards rr(S.size()); for (long i = 0; i < rr.size(); ++i) rr[i] = (double)rng.range(-4, 4) / 4.0;
        exp.record(s, a, s1, rr);
    }
    FM::CooperativeMaximumLikelihoodModel ml(exp, 0.9, true);
    SeederMirror sm(root); sm.next();
    std::mt19937 mir;
    if (C08_FACTORED_LEARNED_SEEDED) mir.seed(sm.next());
    std::uniform_real_distribution<double> d01(0.0, 1.0);
    for (int t = 0; t < nsamples; ++t) {
        AI::Factored::State s; AI::Factored::Action a; randSA(s, a);
        std::vector<double> us; for (size_t i = 0; i < S.size(); ++i) us.push_back(d01(mir));
        AI::Factored::State s1; double rew = 0.0;
        if (rng.coin()) { auto res = ml.sampleSR(s, a); s1 = std::get<0>(res); rew = std::get<1>(res); }
        else { auto res = ml.sampleSRs(s, a); s1 = std::get<0>(res); const auto & rews = std::get<1>(res); for (long i = 0; i < rews.size(); ++i) rew += rews[i]; }
        Line l; l << "C08" << "fsrml" << (size_t)S.size();
        for (size_t i = 0; i < S.size(); ++i) {
            std::vector<double> row; rowOf(ml.getTransitionFunction().transitions[i], ml.getGraph().getId(i, s, a), row);
            l.nums(row);
        }
        l.nums(us); l << ml.getExpectedReward(s, a, s1) << "|"; l.nats(s1); l << rew; l.emit();
    }
    std::printf("#stat factored_learned 1\n");
}


// CooperativeModel::sampleSR repeated on one object (s <- s1): every factor of every step draws from the same engine in
// order; the joint action of a step depends on all earlier outcomes
static void emit_traj_coop(Rng & rng, int steps) {
    namespace FM = AI::Factored::MDP;
    const unsigned root = (unsigned)rng.next();
    AI::Seeder::setRootSeed(root);
    auto model = rng.coin() ? makeRandomCoop(rng) : FM::makeSysAdminUniRing(3, 0.125, 0.25, 0.375, 0.5, 0.25, 0.75, 0.125);
    SeederMirror sm(root);
    std::mt19937 mir(sm.next());
    std::uniform_real_distribution<double> d01(0.0, 1.0);
    const auto & S = model.getS(); const auto & A = model.getA();
    AI::Factored::State s(S.size()); for (size_t i = 0; i < S.size(); ++i) s[i] = rng.below(S[i]);
    const AI::Factored::State s0 = s;
    std::vector<double> us; std::vector<size_t> out; size_t sum = 0;
    for (int t = 0; t < steps; ++t) {
        AI::Factored::Action a(A.size()); for (size_t j = 0; j < A.size(); ++j) a[j] = (sum + j) % A[j];
        for (size_t i = 0; i < S.size(); ++i) us.push_back(d01(mir));
        auto [s1, rew] = model.sampleSR(s, a);
        for (auto x : s1) { out.push_back(x); sum += x; }
        s = s1;
    }
    Line x; x << "C08" << "trajc"; x.nats(S); x.nats(A);
    const auto & ps = model.getGraph().getParentSets();
    x << (size_t)ps.size();
    for (size_t i = 0; i < ps.size(); ++i) {
        x.nats(ps[i].agents); x << (size_t)ps[i].features.size(); for (auto & f : ps[i].features) x.nats(f);
        const auto & m = model.getTransitionFunction().transitions[i];
        x << (size_t)m.rows(); for (long r = 0; r < m.rows(); ++r) { std::vector<double> row; rowOf(m, (size_t)r, row); x.nums(row); }
    }
    x.nats(s0); x.nums(us); x << "|"; x.nats(out); x.emit();
    std::printf("#stat traj_coop 1\n");
}

// ---------------------------------------------------------------- cases
static const long kWitness = 26;

// exhaustive small scope: every vector k/8 with 2..4 entries (zeros anywhere, mass anywhere)
static std::vector<std::vector<double>> g_small;
static void build_small() {
    g_small.clear();
    for (int n = 2; n <= 4; ++n) {
        std::vector<int> c(n, 0);
        std::function<void(int, int)> rec = [&](int i, int left) {
            if (i == n - 1) { c[i] = left; std::vector<double> p(n); for (int j = 0; j < n; ++j) p[j] = c[j] / 8.0; g_small.push_back(p); return; }
            for (int k = 0; k <= left; ++k) { c[i] = k; rec(i + 1, left - k); }
        };
        rec(0, 8);
    }
}

long verif::verif_ncases(const std::string & tier) {
    build_small();
    return kWitness + (long)g_small.size() + (tier == "thorough" ? 250000 : 20000);
}

static void witness(Rng & rng, long idx) {
    const double e21 = std::ldexp(1.0, -21);
    switch (idx) {
        case 0: emit_dense({0.5, 0.25, 0.25}, sweep(rng, {0.5, 0.25, 0.25}, 4), 0); break;
        case 1: emit_dense({0.5, 0.5 - e21, 0.0}, sweep(rng, {0.5, 0.5 - e21, 0.0}, 4), 1); break;     // slack lands on a zero-probability last index
        case 2: emit_proj({0.25, 0.75}); break;                                  // valid input: must come back unchanged
        case 3: emit_proj({0.0, 0.0, -1.0}); break;                              // non-negative part sums to 0
        case 4: emit_proj({0.5, -1.0, 0.5}); break;                              // sum ~ 1 with a negative entry
        case 5: {                                                                // sparse: draw above the row sum, row is not the last one
            std::vector<std::vector<double>> rows{{0.5, 0.5 - e21, 0.0}, {0.0, 0.0, 1.0}};
            emit_sparse(rows, 0, {(TWO53 - 1) << 11, k53(1.0 - e21) << 11, (k53(1.0 - e21) - 1) << 11, 0}); break;
        }
        case 6: emit_vose(rng, {0.75, 0.25}, 8); break;                          // first entry above average
        case 7: emit_vose(rng, {0.5, 0.25, 0.25}, 8); break;                     // the property text's example
        case 8: emit_vose(rng, {0.0, 0.25, 0.25, 0.5}, 8); break;                // first entry below average, still wrong
        case 9: emit_vose(rng, {0.125, 0.25, 0.125, 0.5}, 8); break;
        case 10: emit_rand({TWO53 / 2, TWO53 / 4, TWO53 / 4, 0, TWO53 - 1}); break;
        case 12: emit_sparse_model_witness(); break;
        case 15: emit_vose(rng, {0.1, 0.1, 0.35, 0.45}, 8); break;               // minimal failing input of the seeded change `small = smallCheckpoint + 1` -> `++small`
        case 16: emit_proj_nonfinite({std::numeric_limits<double>::quiet_NaN(), 0.5}); break;
        case 17: emit_proj_nonfinite({std::numeric_limits<double>::infinity(), 0.5, -1.0}); break;
        case 18: emit_proj({1.7e308, 3e307, -1.0, 0.0}); break;                   // overflow with a negative and a zero entry
        case 19: {   // does the overload returning the sampled vector instantiate? (tools/props/c08.py defines the macro when the header declares the 3-argument overload first)
#ifdef C08_DIRICHLET_2ARG
            Line l; l << "C08" << "inst" << "sampleDirichletDistribution(params,generator)" << 1; l.emit();
#else
            Line l; l << "C08" << "inst" << "sampleDirichletDistribution(params,generator)" << 0; l.emit();
#endif
            break;
        }
        case 22: emit_seeded(rng, false, 1); break;                               // POMDP::Model(NO_CHECK): engine not seeded from the Seeder
        case 23: emit_seeded(rng, true, 2); break;                                // POMDP::SparseModel(NO_CHECK) likewise
        case 24: emit_seeded_factored(rng, false, 3); break;                      // CooperativeMaximumLikelihoodModel: engine never seeded
        case 25: emit_seeded_factored(rng, true, 4); break;                       // CooperativeThompsonModel: posterior sample identical for every root seed
        case 20: emit_gamma_underflow(false); break;                             // Dirichlet(0.001, 0.001): both gamma draws underflow to 0 -> NaN
        case 21: emit_gamma_underflow(true); break;                              // Beta(0.001, 0.001) likewise
        case 14: emit_proj({1e308, 1e308}); break;                               // finite input whose sum overflows a double
        case 13: {                                                               // sparse: the same draw on the LAST stored row: the scan leaves the arrays
            std::vector<std::vector<double>> rows{{0.5, 0.5 - e21, 0.0}};
            std::printf("#stat sparse_last_row_above_sum 1\n"); std::fflush(stdout);
            emit_sparse(rows, 0, {(TWO53 - 1) << 11}); break;
        }
        default: emit_rand({}); break;                                           // S = 1
    }
}

void verif::verif_case(Rng & rng, long idx, const std::string & tier) {
    if (idx < kWitness) { witness(rng, idx); return; }
    if (idx < kWitness + (long)g_small.size()) {
        const auto & p = g_small[idx - kWitness];
        std::printf("#stat small_scope 1\n");
        emit_dense(p, sweep(rng, p, 2), (int)(idx % 3));
        std::vector<std::vector<double>> rows{p, std::vector<double>(p.size(), 0.0)};
        rows[1][p.size() - 1] = 1.0;
        emit_sparse(rows, 0, sweep(rng, p, 2));
        emit_vose(rng, p, 4);
        emit_proj(p);
        emit_isprob(p);
        return;
    }
    idx -= (long)g_small.size();
    const bool thorough = tier == "thorough";
    const size_t maxN = thorough ? 64 : 12;
    int fam = (int)((idx - kWitness) % 14);
    size_t n = (size_t)rng.range(1, rng.coin(3, 4) ? 8 : (long)maxN);
    int shape = 0;
    switch (fam) {
        case 0: {
            auto p = genProb(rng, n, shape);
            std::printf("#stat dense_shape%d 1\n", shape);
            emit_dense(p, sweep(rng, p, 6), (int)rng.below(3));
            break;
        }
        case 1: {
            size_t R = (size_t)rng.range(2, 4);
            std::vector<std::vector<double>> rows(R);
            for (auto & row : rows) row = genProb(rng, n, shape);
            size_t r = rng.below(R);
            std::printf("#stat sparse_shape%d 1\n#stat sparse_%s 1\n", shape, r + 1 == R ? "lastrow" : "innerrow");
            auto ks = sweep(rng, rows[r], 6);
            if (!ks.empty()) emit_sparse(rows, r, ks, !rng.coin(1, 3));
            break;
        }
        case 2: {
            auto v = genVector(rng, n, shape);
            std::printf("#stat proj_shape%d 1\n", shape);
            emit_proj(v);
            break;
        }
        case 3: {
            size_t m = (size_t)rng.range(0, (long)maxN);
            std::vector<uint64_t> ks(m);
            int mode = (int)rng.below(5);
            if (mode == 4) { std::printf("#stat rand_mode4 1\n"); if (rng.coin()) emit_rand_raw(rng, m); else emit_rand_mt(rng, m); break; }
            for (auto & k : ks) k = mode == 0 ? (rng.next() >> 11) : mode == 1 ? (rng.below(9) * (TWO53 / 8)) : mode == 2 ? rng.below(4) : TWO53 - 1 - rng.below(4);
            for (auto & k : ks) if (k >= TWO53) k = TWO53 - 1;
            std::printf("#stat rand_mode%d 1\n", mode);
            emit_rand(ks);
            break;
        }
        case 4: case 5: {
            auto p = genProb(rng, n, shape);
            std::printf("#stat vose_shape%d 1\n#stat vose_first_%s 1\n", shape, p[0] >= 1.0 / (double)n ? "above_avg" : "below_avg");
            emit_vose(rng, p, 6);
            break;
        }
        case 7: {
            // vectors around the acceptance boundary of isProbability, valid ones and arbitrary ones
            int mode = (int)rng.below(3);
            std::vector<double> v = mode == 0 ? genProb(rng, n, shape) : genVector(rng, n, shape);
            if (mode == 2) {
                v = genProb(rng, n, shape);
                static const double offs[] = {1e-6 - 1e-8, 1e-6 + 1e-8, -(1e-6 - 1e-8), -(1e-6 + 1e-8), 5e-7, -5e-7, 2e-6, -2e-6};
                size_t i = std::max_element(v.begin(), v.end()) - v.begin();
                v[i] += offs[rng.below(8)];
            }
            std::printf("#stat isprob_mode%d 1\n", mode);
            emit_isprob(v);
            break;
        }
        case 8: emit_gamma(rng); emit_gamma(rng); std::printf("#stat gamma 1\n"); break;
        case 6: emit_models(rng, thorough ? 12 : 8); std::printf("#stat models 1\n"); break;
        case 10: emit_isprobm(rng); emit_isprobm(rng); break;
        case 12: emit_learned(rng, thorough ? 12 : 8); break;
        case 13: if (rng.coin()) emit_fband(rng, thorough ? 10 : 6); else emit_factored_learned(rng, thorough ? 8 : 4); break;
        case 11: {
            if (rng.coin(1, 8)) { emit_seeded(rng, rng.coin(), (unsigned)rng.next()); std::printf("#stat seeded 1\n"); }
            if (rng.coin(1, 4)) { emit_traj_coop(rng, (int)rng.range(1, thorough ? 8 : 4)); break; }
            emit_traj(rng, (int)rng.range(1, thorough ? 24 : 10)); std::printf("#stat traj 1\n"); break;
        }
        default: emit_factored(rng, thorough ? 8 : 4); std::printf("#stat factored_models 1\n"); break;
    }
}

VERIF_MAIN
