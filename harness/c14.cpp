// C14 correspondence harness. Part A: factored index/enumerator core (src/Factored/Utils/Core.cpp);
// Part B: factored algebra, DDN/backProject, single-factor == flat equivalences.
// Exhaustive over all small factor spaces, then seeded random larger ones.
#include "common/verif.hpp"
#include <AIToolbox/Factored/Utils/Core.hpp>
#include <AIToolbox/Factored/Utils/FactoredMatrix.hpp>
#include <AIToolbox/Factored/Utils/BayesianNetwork.hpp>
#include <AIToolbox/Factored/MDP/CooperativeModel.hpp>
#include <AIToolbox/Factored/MDP/Utils.hpp>
#include <AIToolbox/Factored/MDP/Algorithms/JointActionLearner.hpp>
#include <AIToolbox/Factored/MDP/Algorithms/CooperativeQLearning.hpp>
#include <AIToolbox/Factored/MDP/Algorithms/SparseCooperativeQLearning.hpp>
#include <AIToolbox/Factored/Bandit/Model.hpp>
#include <AIToolbox/Factored/Bandit/FlattenedModel.hpp>
#include <AIToolbox/Bandit/Model.hpp>
#include <AIToolbox/MDP/Algorithms/QLearning.hpp>
#include <AIToolbox/MDP/Model.hpp>
#include <sys/wait.h>
#include <unistd.h>

using namespace verif;
namespace F = AIToolbox::Factored;

static std::vector<F::Factors> g_spaces;

static void build_spaces(int maxFactors, int maxSize) {
    g_spaces.clear();
    for (int n = 1; n <= maxFactors; ++n) {
        F::Factors sp(n, 1);
        while (true) {
            g_spaces.push_back(sp);
            int i = 0;
            while (i < n) { if (++sp[i] <= (size_t)maxSize) break; sp[i] = 1; ++i; }
            if (i == n) break;
        }
    }
}

static void emit_rt(const F::Factors & sp, size_t id) {
    auto f = F::toFactors(sp, id);
    size_t back = F::toIndex(sp, f);
    Line l; l << "C14" << "rt"; l.nats(sp) << id << "|"; l.nats(f) << back; l.emit();
    // the out-parameter overload writing into a buffer that still holds an earlier, larger conversion (how FlattenedModel uses it)
    F::Factors buf = F::toFactors(sp, F::factorSpace(sp) - 1);
    F::toFactors(sp, id, &buf);
    Line l2; l2 << "C14" << "rt"; l2.nats(sp) << id << "|"; l2.nats(buf) << F::toIndex(sp, buf); l2.emit();
}

static void emit_enum(const F::Factors & sp, const F::PartialKeys & keys, int mode, size_t skipFactor) {
    // mode 0: keys only; 1: skip a key that is present; 2: missing key inserted
    std::vector<size_t> dims; size_t skipId;
    std::unique_ptr<F::PartialFactorsEnumerator> e;
    if (mode == 0) e.reset(new F::PartialFactorsEnumerator(sp, keys));
    else if (mode == 1) e.reset(new F::PartialFactorsEnumerator(sp, keys, skipFactor, false));
    else e.reset(new F::PartialFactorsEnumerator(sp, keys, skipFactor, true));
    skipId = e->getFactorToSkipId();
    const auto & ks = (**e).first;
    for (auto k : ks) dims.push_back(sp[k]);
    size_t size = e->size();
    std::vector<std::vector<size_t>> seq;
    size_t guard = 0;
    while (e->isValid() && guard++ < 100000) { seq.push_back((**e).second); e->advance(); }
    Line l; l << "C14" << "enum"; l.nats(dims) << skipId << "|" << size << (size_t)seq.size();
    for (auto & v : seq) l.nats(v);
    l.emit();
}

static void emit_full_enum(const F::Factors & sp, bool skip, size_t skipFactor) {
    std::unique_ptr<F::PartialFactorsEnumerator> e;
    if (skip) e.reset(new F::PartialFactorsEnumerator(sp, skipFactor)); else e.reset(new F::PartialFactorsEnumerator(sp));
    size_t skipId = e->getFactorToSkipId();
    size_t size = e->size();
    std::vector<std::vector<size_t>> seq;
    size_t guard = 0;
    while (e->isValid() && guard++ < 100000) { seq.push_back((**e).second); e->advance(); }
    Line l; l << "C14" << "enum"; l.nats(sp) << skipId << "|" << size << (size_t)seq.size();
    for (auto & v : seq) l.nats(v);
    l.emit();
}

static void emit_pie(const F::Factors & sp, size_t fixed, size_t val) {
    F::PartialIndexEnumerator e(sp, fixed, val);
    std::vector<size_t> seq; size_t guard = 0;
    while (e.isValid() && guard++ < 100000) { seq.push_back(*e); e.advance(); }
    Line l; l << "C14" << "pie"; l.nats(sp) << fixed << val << "|"; l.nats(seq); l.emit();
}

static void emit_part(const F::Factors & sp, const F::PartialKeys & keys, size_t id, const F::Factors & full) {
    auto vals = F::toFactorsPartial(keys, sp, id);
    F::PartialFactors pf{keys, vals};
    size_t i1 = F::toIndexPartial(sp, pf);
    size_t i2 = F::toIndexPartial(keys, sp, full);
    Line l; l << "C14" << "part"; l.nats(sp); l.nats(keys) << id; l.nats(full) << "|"; l.nats(vals) << i1 << i2 << F::factorSpacePartial(keys, sp); l.emit();
}

static F::PartialFactors randomPF(Rng & rng, const F::Factors & sp) {
    F::PartialFactors pf;
    for (size_t k = 0; k < sp.size(); ++k) if (rng.coin()) { pf.first.push_back(k); pf.second.push_back(rng.below(sp[k])); }
    return pf;
}

static void emit_merge(Rng & rng, const F::Factors & sp) {
    auto l = randomPF(rng, sp), r = randomPF(rng, sp);
    auto m = F::merge(l, r);
    bool mt = F::match(l, r);
    Line o; o << "C14" << "merge"; o.nats(l.first); o.nats(l.second); o.nats(r.first); o.nats(r.second); o << "|"; o.nats(m.first); o.nats(m.second) << mt; o.emit();
}

static void all_subsets(const F::Factors & sp, Rng & rng) {
    size_t n = sp.size();
    for (size_t mask = 1; mask < (1u << n); ++mask) {
        F::PartialKeys keys;
        for (size_t k = 0; k < n; ++k) if (mask & (1u << k)) keys.push_back(k);
        emit_enum(sp, keys, 0, 0);
        for (auto k : keys) emit_enum(sp, keys, 1, k);
        for (size_t k = 0; k < n; ++k) if (!(mask & (1u << k))) emit_enum(sp, keys, 2, k);
        size_t psp = F::factorSpacePartial(keys, sp);
        for (size_t id = 0; id < psp; ++id) {
            F::Factors full(n);
            for (size_t k = 0; k < n; ++k) full[k] = rng.below(sp[k]);
            auto vals = F::toFactorsPartial(keys, sp, id);
            for (size_t j = 0; j < keys.size(); ++j) full[keys[j]] = vals[j];
            emit_part(sp, keys, id, full);
        }
    }
}

static void core_case(Rng & rng, long idx, const std::string & tier) {
    if (idx < (long)g_spaces.size()) {
        const auto & sp = g_spaces[idx];
        size_t total = F::factorSpace(sp);
        for (size_t id = 0; id < total; ++id) emit_rt(sp, id);
        emit_full_enum(sp, false, 0);
        for (size_t k = 0; k < sp.size(); ++k) emit_full_enum(sp, true, k);
        for (size_t k = 0; k < sp.size(); ++k) for (size_t v = 0; v < sp[k]; ++v) emit_pie(sp, k, v);
        all_subsets(sp, rng);
        for (int t = 0; t < 4; ++t) emit_merge(rng, sp);
        return;
    }
    // random larger spaces: 1..7 factors of size 1..6
    size_t n = (size_t)rng.range(1, tier == "thorough" ? 7 : 6);
    F::Factors sp(n);
    for (auto & d : sp) d = (size_t)rng.range(1, 6);
    size_t total = F::factorSpace(sp);
    for (int t = 0; t < 6; ++t) emit_rt(sp, rng.below(total));
    emit_rt(sp, total - 1);
    F::PartialKeys keys;
    for (size_t k = 0; k < n; ++k) if (rng.coin()) keys.push_back(k);
    if (keys.empty()) keys.push_back(rng.below(n));
    if (F::factorSpacePartial(keys, sp) <= 2000) {
        emit_enum(sp, keys, 0, 0);
        emit_enum(sp, keys, 1, rng.pick(keys));
    }
    {
        size_t psp = F::factorSpacePartial(keys, sp);
        size_t id = rng.below(psp);
        F::Factors full(n);
        for (size_t k = 0; k < n; ++k) full[k] = rng.below(sp[k]);
        auto vals = F::toFactorsPartial(keys, sp, id);
        for (size_t j = 0; j < keys.size(); ++j) full[keys[j]] = vals[j];
        emit_part(sp, keys, id, full);
    }
    if (total <= 5000) { size_t k = rng.below(n); emit_pie(sp, k, rng.below(sp[k])); }
    for (int t = 0; t < 3; ++t) emit_merge(rng, sp);
}

// ===================================================================================================
// Part B: factored algebra, DDN / backProject, single-factor-equals-flat equivalences
// ===================================================================================================
using AIToolbox::Vector;
using AIToolbox::Matrix2D;
namespace FM_ = AIToolbox::Factored::MDP;

static void emit_piek(const F::Factors & sp, const F::PartialKeys & keys, size_t fixed, size_t val, bool missing) {
    F::PartialIndexEnumerator e(sp, keys, fixed, val, missing);
    std::vector<size_t> seq; size_t guard = 0;
    while (e.isValid() && guard++ < 100000) { seq.push_back(*e); e.advance(); }
    Line l; l << "C14" << "piek"; l.nats(sp); l.nats(keys) << fixed << val << missing << "|"; l.nats(seq); l.emit();
}

static void emit_tipf(const F::Factors & sp, const F::PartialFactors & pf) {
    if (pf.first.empty()) return;     // toIndex(space, pf) reads pf.first[0] unconditionally
    size_t idx = F::toIndex(sp, pf);
    auto full = F::toFactors(sp.size(), pf);
    Line l; l << "C14" << "tipf"; l.nats(sp); l.nats(pf.first); l.nats(pf.second); l << "|" << idx; l.nats(full); l.emit();
}
static void emit_misc(Rng & rng, const F::Factors & sp) {
    auto pf = randomPF(rng, sp);
    F::Factors full(sp.size()), other(sp.size());
    for (size_t k = 0; k < sp.size(); ++k) { full[k] = rng.below(sp[k]); other[k] = rng.coin(2, 3) ? full[k] : rng.below(sp[k]); }
    if (rng.coin(2, 3)) for (size_t j = 0; j < pf.first.size(); ++j) pf.second[j] = full[pf.first[j]];
    size_t f = rng.below(sp.size());
    auto rem = F::removeFactor(pf, f);
    bool m1 = F::match(full, pf), m2 = F::match(pf.first, full, other);
    auto jn = F::join(full, other);
    Line l; l << "C14" << "misc"; l.nats(sp); l.nats(pf.first); l.nats(pf.second); l.nats(full); l.nats(other) << f << "|";
    l.nats(rem.first); l.nats(rem.second) << m1 << m2; l.nats(jn); l.emit();
}

static void emit_skipidx(Rng & rng, const F::Factors & sp) {
    F::PartialKeys keys; for (size_t k = 0; k < sp.size(); ++k) if (rng.coin(2, 3)) keys.push_back(k);
    if (keys.empty()) keys.push_back(rng.below(sp.size()));
    F::Factors full(sp.size()); for (size_t k = 0; k < sp.size(); ++k) full[k] = rng.below(sp[k]);
    size_t tm = rng.coin(3, 4) ? keys[rng.below(keys.size())] : rng.below(sp.size());
    auto [first, sm] = F::toIndexPartialAndSkip(keys, sp, full, tm);
    Line l; l << "C14" << "skipidx"; l.nats(sp); l.nats(keys); l.nats(full) << tm << "|" << first << sm << F::toIndexPartial(keys, sp, full); l.emit();
}
static void emit_misc2(Rng & rng, const F::Factors & sp) {
    auto a = randomPF(rng, sp), b = randomPF(rng, sp);
    std::vector<std::pair<size_t, size_t>> matches;
    auto mk = F::merge(a.first, b.first, &matches);
    auto mv = F::merge(a.first, a.second, b.first, b.second);
    size_t S = sp.size();
    auto j = F::join(S, a, b);
    F::Factors full(sp.size()); for (size_t k = 0; k < sp.size(); ++k) full[k] = rng.below(sp[k]);
    auto tp = F::toPartialFactors(full);
    Line l; l << "C14" << "misc2"; l.nats(a.first); l.nats(a.second); l.nats(b.first); l.nats(b.second) << S; l.nats(full) << "|";
    l.nats(mk); l << (size_t)matches.size(); for (auto & m : matches) l << m.first; l << (size_t)matches.size(); for (auto & m : matches) l << m.second;
    l.nats(mv); l.nats(j.first); l.nats(j.second); l.nats(tp.first); l.nats(tp.second);
    l << F::match(matches, a.second, b.second) << F::match(a.first, a.second, b.first, b.second); l.emit();
}

static double dy(Rng & rng) { return (double)rng.range(-32, 32) / 4.0; }

static F::Factors randSpace(Rng & rng, int maxF, int maxD, size_t cap) {
    while (true) {
        F::Factors sp((size_t)rng.range(1, maxF));
        for (auto & d : sp) d = (size_t)rng.range(1, maxD);
        if (F::factorSpace(sp) <= cap) return sp;
    }
}
static F::PartialKeys randTag(Rng & rng, size_t n) {
    F::PartialKeys t;
    for (size_t k = 0; k < n; ++k) if (rng.coin()) t.push_back(k);
    if (t.empty()) t.push_back(rng.below(n));
    return t;
}
// a tag related to `base` (subset / superset / equal / unrelated), to make merges frequent
static F::PartialKeys relTag(Rng & rng, size_t n, const F::PartialKeys & base) {
    int mode = (int)rng.below(5);
    if (mode == 0) return base;
    if (mode == 1) { F::PartialKeys t; for (auto k : base) if (rng.coin(2, 3)) t.push_back(k); if (t.empty()) t.push_back(base[rng.below(base.size())]); return t; }
    if (mode == 2) { std::vector<bool> in(n, false); for (auto k : base) in[k] = true; for (size_t k = 0; k < n; ++k) if (rng.coin(1, 3)) in[k] = true;
                     F::PartialKeys t; for (size_t k = 0; k < n; ++k) if (in[k]) t.push_back(k); return t; }
    return randTag(rng, n);
}
static F::BasisFunction randBF(Rng & rng, const F::Factors & sp, const F::PartialKeys & tag) {
    F::BasisFunction b; b.tag = tag;
    b.values.resize((long)F::factorSpacePartial(tag, sp));
    for (long i = 0; i < b.values.size(); ++i) b.values[i] = dy(rng);
    return b;
}
static F::FactoredVector randFV(Rng & rng, const F::Factors & sp, int maxBases, const F::PartialKeys * rel = nullptr) {
    F::FactoredVector fv; int n = (int)rng.range(0, maxBases);
    for (int i = 0; i < n; ++i) fv.bases.push_back(randBF(rng, sp, rel ? relTag(rng, sp.size(), *rel) : randTag(rng, sp.size())));
    return fv;
}
static void putBF(Line & l, const F::BasisFunction & b) { l.nats(b.tag); l.nums(b.values); }
static void putFV(Line & l, const F::FactoredVector & fv) { l << (size_t)fv.bases.size(); for (auto & b : fv.bases) putBF(l, b); }
static void putMat(Line & l, const Matrix2D & m) {
    l << (size_t)m.rows();
    for (long r = 0; r < m.rows(); ++r) { l << (size_t)m.cols(); for (long c = 0; c < m.cols(); ++c) l << (double)m(r, c); }
}
static void putBM(Line & l, const F::BasisMatrix & b) { l.nats(b.tag); l.nats(b.actionTag); putMat(l, b.values); }
static void putFM(Line & l, const F::FactoredMatrix2D & fm) { l << (size_t)fm.bases.size(); for (auto & b : fm.bases) putBM(l, b); }
static void putGets(Line & l, const F::Factors & sp, const F::FactoredVector & fv) {
    size_t n = F::factorSpace(sp); l << n;
    for (size_t id = 0; id < n; ++id) l << fv.getValue(sp, F::toFactors(sp, id));
}
static void putGetsM(Line & l, const F::Factors & sp, const F::Factors & ac, const F::FactoredMatrix2D & fm) {
    size_t n = F::factorSpace(sp), m = F::factorSpace(ac); l << n * m;
    for (size_t id = 0; id < n; ++id) for (size_t a = 0; a < m; ++a) l << fm.getValue(sp, ac, F::toFactors(sp, id), F::toFactors(ac, a));
}

static void emit_bfop(const char * name, const F::Factors & sp, const F::BasisFunction & lhs, const F::BasisFunction & rhs) {
    std::string nm(name);
    F::BasisFunction r = nm == "dot" ? F::dot(sp, lhs, rhs) : nm == "plus" ? F::plus(sp, lhs, rhs) : F::minus(sp, lhs, rhs);
    size_t pi = F::factorSpacePartial(r.tag, sp);
    size_t shown = std::min<size_t>(pi, (size_t)r.values.size());
    Line l; l << "C14" << "bfop" << name; l.nats(sp); putBF(l, lhs); putBF(l, rhs); l << "|";
    l.nats(r.tag) << (size_t)r.values.size() << shown;
    for (size_t i = 0; i < shown; ++i) l << (double)r.values[(long)i];
    F::FactoredVector fv; fv.bases.push_back(r);
    putGets(l, sp, fv); l.emit();
    ::printf("#stat bfop_%s_%s 1\n", name, r.values.size() == (long)pi ? "exact_size" : "oversized");
}
static void emit_subset(bool minus, const F::Factors & sp, const F::BasisFunction & ret, const F::BasisFunction & rhs) {
    F::BasisFunction r = minus ? F::minusSubset(sp, ret, rhs) : F::plusSubset(sp, ret, rhs);
    Line l; l << "C14" << "subset" << (minus ? "minus" : "plus"); l.nats(sp); putBF(l, ret); putBF(l, rhs); l << "|";
    l.nums(r.values);
    F::FactoredVector fv; fv.bases.push_back(r); putGets(l, sp, fv); l.emit();
}
static void emit_fvop(bool minus, const F::Factors & sp, const F::FactoredVector & fv, const F::BasisFunction & b, int variant) {
    F::FactoredVector r = fv;
    if (minus) { if (variant == 0) F::minusEqual(sp, r, b); else r = F::minus(sp, fv, b); }
    else {
        if (variant == 0) F::plusEqual(sp, r, b);
        else if (variant == 1) { F::BasisFunction tmp = b; F::plusEqual(sp, r, std::move(tmp)); }
        else r = F::plus(sp, fv, b);
    }
    Line l; l << "C14" << "fvop" << (minus ? "minus" : "plus"); l.nats(sp); putFV(l, fv); putBF(l, b); l << "|";
    putFV(l, r); putGets(l, sp, r); l.emit();
    ::printf("#stat fvop_%s 1\n", r.bases.size() == fv.bases.size() ? "merged" : "appended");
}
static void emit_fvfv(bool minus, const F::Factors & sp, const F::FactoredVector & fv, const F::FactoredVector & rhs, int variant) {
    F::FactoredVector r = fv;
    if (minus) { if (variant == 0) F::minusEqual(sp, r, rhs); else r = F::minus(sp, fv, rhs); }
    else {
        if (variant == 0) F::plusEqual(sp, r, rhs);
        else if (variant == 1) { F::FactoredVector tmp = rhs; F::plusEqual(sp, r, std::move(tmp)); }
        else r = F::plus(sp, fv, rhs);
    }
    Line l; l << "C14" << "fvfv" << (minus ? "minus" : "plus"); l.nats(sp); putFV(l, fv); putFV(l, rhs); l << "|";
    putFV(l, r); putGets(l, sp, r); l.emit();
}
// minusEqual(..., clearZero = true); rhs with one basis goes through the BasisFunction overload
static void emit_fvcz(const F::Factors & sp, const F::FactoredVector & fv, const F::FactoredVector & rhs) {
    F::FactoredVector r = fv;
    if (rhs.bases.size() == 1) F::minusEqual(sp, r, rhs.bases[0], true); else F::minusEqual(sp, r, rhs, true);
    Line l; l << "C14" << "fvcz"; l.nats(sp); putFV(l, fv); putFV(l, rhs); l << "|"; putFV(l, r); putGets(l, sp, r); l.emit();
    ::printf("#stat fvcz_%s 1\n", r.bases.size() < fv.bases.size() ? "dropped" : "kept");
}
static void emit_fvscale(const F::Factors & sp, const F::FactoredVector & fv, double c, bool left) {
    F::FactoredVector r = left ? c * fv : fv * c;
    Line l; l << "C14" << "fvscale"; l.nats(sp); putFV(l, fv); l << c << "|"; putFV(l, r); putGets(l, sp, r); l.emit();
}
static void emit_fvscalew(const F::Factors & sp, const F::FactoredVector & fv, const Vector & w, bool left) {
    F::FactoredVector r = left ? w * fv : fv * w;
    Line l; l << "C14" << "fvscalew"; l.nats(sp); putFV(l, fv); l.nums(w); l << "|"; putFV(l, r); putGets(l, sp, r);
    size_t n = F::factorSpace(sp); l << n;
    for (size_t id = 0; id < n; ++id) l << fv.getValue(sp, F::toFactors(sp, id), w);
    l.emit();
}

static F::BasisMatrix randBM(Rng & rng, const F::Factors & sp, const F::Factors & ac, const F::PartialKeys & tag, const F::PartialKeys & atag) {
    F::BasisMatrix b; b.tag = tag; b.actionTag = atag;
    b.values.resize((long)F::factorSpacePartial(tag, sp), (long)F::factorSpacePartial(atag, ac));
    for (long r = 0; r < b.values.rows(); ++r) for (long c = 0; c < b.values.cols(); ++c) b.values(r, c) = dy(rng);
    return b;
}
static F::FactoredMatrix2D randFMx(Rng & rng, const F::Factors & sp, const F::Factors & ac, int maxBases, const F::PartialKeys & relS, const F::PartialKeys & relA) {
    F::FactoredMatrix2D fm; int n = (int)rng.range(0, maxBases);
    for (int i = 0; i < n; ++i) fm.bases.push_back(randBM(rng, sp, ac, relTag(rng, sp.size(), relS), relTag(rng, ac.size(), relA)));
    return fm;
}
static void emit_fmop(const F::Factors & sp, const F::Factors & ac, const F::FactoredMatrix2D & fm, const F::BasisMatrix & b, bool mv) {
    F::FactoredMatrix2D r = fm;
    if (mv) { F::BasisMatrix tmp = b; F::plusEqual(sp, ac, r, std::move(tmp)); } else F::plusEqual(sp, ac, r, b);
    Line l; l << "C14" << "fmop"; l.nats(sp); l.nats(ac); putFM(l, fm); putBM(l, b); l << "|"; putFM(l, r); putGetsM(l, sp, ac, r); l.emit();
    ::printf("#stat fmop_%s 1\n", r.bases.size() == fm.bases.size() ? "merged" : "appended");
}
static void emit_fmfm(const F::Factors & sp, const F::Factors & ac, const F::FactoredMatrix2D & fm, const F::FactoredMatrix2D & rhs, bool mv) {
    F::FactoredMatrix2D r = fm;
    if (mv) { F::FactoredMatrix2D tmp = rhs; F::plusEqual(sp, ac, r, std::move(tmp)); } else F::plusEqual(sp, ac, r, rhs);
    Line l; l << "C14" << "fmfm"; l.nats(sp); l.nats(ac); putFM(l, fm); putFM(l, rhs); l << "|"; putFM(l, r); putGetsM(l, sp, ac, r); l.emit();
}
static void emit_fmscale(const F::Factors & sp, const F::Factors & ac, const F::FactoredMatrix2D & fm, double c, const Vector & w) {
    F::FactoredMatrix2D rc = fm * c, rw = w * fm;
    Line l; l << "C14" << "fmscale"; l.nats(sp); l.nats(ac); putFM(l, fm); l << c; l.nums(w); l << "|";
    putFM(l, rc); putGetsM(l, sp, ac, rc); putFM(l, rw); putGetsM(l, sp, ac, rw);
    size_t n = F::factorSpace(sp), m = F::factorSpace(ac); l << n * m;
    for (size_t id = 0; id < n; ++id) for (size_t a = 0; a < m; ++a) l << fm.getValue(sp, ac, F::toFactors(sp, id), F::toFactors(ac, a), w);
    l.emit();
}
// weights: dyadic; with the constant only when |bases| is a power of two (so that w_c/|bases| is exact)
static Vector randWeights(Rng & rng, size_t nb) {
    bool pow2 = nb == 1 || nb == 2 || nb == 4;
    bool withConst = pow2 && rng.coin();
    Vector w((long)(nb + (withConst ? 1 : 0)));
    for (long i = 0; i < w.size(); ++i) w[i] = (double)rng.range(-8, 8) / 2.0;
    return w;
}

// ---------------------------------------------------------------- probes (forked child)
static void probe(const std::string & comp, const std::string & kind, const std::function<void()> & fn) {
    std::fflush(stdout);
    pid_t pid = fork();
    if (pid == 0) {
        std::freopen("/dev/null", "w", stderr); std::freopen("/dev/null", "w", stdout);
        try { fn(); } catch (...) { _exit(3); }
        _exit(0);
    }
    int st = 0; bool crashed = true;
    if (pid > 0 && waitpid(pid, &st, 0) == pid) crashed = !(WIFEXITED(st) && WEXITSTATUS(st) == 0);
    Line l; l << "C14" << "probe" << comp << kind << (crashed ? "crash" : "ok"); l.emit();
}

static void fixed_cases(Rng & rng) {
    F::Factors sp{2, 3};
    // --- witness #8: minusEqual adds.  5 - 2 must be 3 (merged, appended, and FactoredVector forms)
    {
        F::BasisFunction a{{0}, Vector(2)}; a.values << 5, 5;
        F::BasisFunction b{{0}, Vector(2)}; b.values << 2, 2;
        F::BasisFunction c{{1}, Vector(3)}; c.values << 2, 2, 2;
        F::BasisFunction d{{0, 1}, Vector(6)}; d.values << 2, 2, 2, 2, 2, 2;
        F::FactoredVector fa; fa.bases.push_back(a);
        emit_fvop(true, sp, fa, b, 0);      // same tag: in-place merge
        emit_fvop(true, sp, fa, c, 0);      // unrelated tag: appended
        emit_fvop(true, sp, fa, d, 0);      // incoming basis bigger: merged the other way round
        emit_fvop(true, sp, fa, b, 1);
        F::FactoredVector fb; fb.bases.push_back(b); fb.bases.push_back(c);
        emit_fvfv(true, sp, fa, fb, 0);
        emit_fvfv(true, sp, fa, fb, 1);
        emit_fvop(false, sp, fa, b, 0); emit_fvop(false, sp, fa, c, 1); emit_fvop(false, sp, fa, d, 2);
        emit_fvfv(false, sp, fa, fb, 0);
        F::FactoredVector fz; fz.bases.push_back(a); fz.bases.push_back(c);
        F::FactoredVector one; one.bases.push_back(a);
        emit_fvcz(sp, fz, one);            // a - a = 0: basis dropped, value 2 everywhere
        F::BasisFunction na = a; na.values *= -1.0;
        F::FactoredVector mone; mone.bases.push_back(na);
        emit_fvcz(sp, fz, mone);           // a - (-a) = 2a (the snapshot adds: drops the basis)
    }
    // --- witness #22: dot/plus/minus size their result with toIndexPartial(tag, space, space)
    {
        F::BasisFunction a{{0, 1}, Vector(6)}; a.values << 1, 2, 3, 4, 5, 6;
        F::BasisFunction b{{0, 1}, Vector(6)}; b.values << 10, 20, 30, 40, 50, 60;
        F::BasisFunction c{{1}, Vector(3)}; c.values << 1, 2, 4;
        emit_bfop("plus", sp, a, b); emit_bfop("minus", sp, a, b); emit_bfop("dot", sp, a, b);
        emit_bfop("plus", sp, a, c); emit_bfop("dot", sp, c, a); emit_bfop("minus", sp, c, c);
        // the consequence: the sum of two functions cannot be added to a third one of the same tag
        probe("plus(BasisFunction)", "values_oversized", [=] {
            F::FactoredVector fv; fv.bases.push_back(F::plus(sp, a, b));
            F::plusEqual(sp, fv, a);
            if (fv.getValue(sp, {1, 2}) != 6 + 60 + 6) _exit(4);
        });
        probe("dot(BasisFunction)", "values_oversized", [=] {
            F::FactoredVector fv; fv.bases.push_back(F::dot(sp, a, b));
            F::plusEqual(sp, fv, a);
            if (fv.getValue(sp, {1, 2}) != 6 * 60 + 6) _exit(4);
        });
        probe("minus(BasisFunction)", "values_oversized", [=] {
            F::FactoredVector fv; fv.bases.push_back(F::minus(sp, b, a));
            F::plusEqual(sp, fv, a);
            if (fv.getValue(sp, {1, 2}) != 60 - 6 + 6) _exit(4);
        });
    }
    // --- empty FactoredVector / FactoredMatrix2D scaled by an (equally empty) weights vector: documented precondition
    //     |w| == |bases| holds, the weighted combination of no functions is the zero function
    probe("FactoredVector::operator*=(Vector)", "reads_weights_of_empty_vector", [=] {
        F::FactoredVector fv; Vector w(0); fv *= w;
        if (fv.getValue(sp, {1, 2}) != 0.0 || fv.getValue(sp, {1, 2}, w) != 0.0) _exit(4);
    });
    probe("FactoredMatrix2D::operator*=(Vector)", "reads_weights_of_empty_vector", [=] {
        F::FactoredMatrix2D fm; Vector w(0); fm *= w;
        if (fm.getValue(sp, sp, {1, 2}, {0, 1}) != 0.0) _exit(4);
    });
    // --- size-1 factors and a single-factor space
    {
        F::Factors s1{1, 3, 1};
        F::BasisFunction a{{0, 1}, Vector(3)}; a.values << 1, 2, 3;
        F::BasisFunction b{{1, 2}, Vector(3)}; b.values << 10, 20, 30;
        emit_bfop("plus", s1, a, b); emit_bfop("dot", s1, a, b);
        F::FactoredVector fa; fa.bases.push_back(a);
        emit_fvop(false, s1, fa, b, 0);
        F::Factors s2{4};
        F::BasisFunction c{{0}, Vector(4)}; c.values << 1, 2, 3, 4;
        emit_bfop("minus", s2, c, c);
        F::FactoredVector fc; fc.bases.push_back(c); fc.bases.push_back(c);
        Vector w(3); w << 2.0, 0.5, 3.0;
        emit_fvscalew(s2, fc, w, false);
    }
    (void)rng;
}

static void alg_case(Rng & rng, const std::string & tier) {
    bool th = tier == "thorough";
    F::Factors sp = th ? randSpace(rng, 5, 4, 128) : randSpace(rng, 4, 3, 54);
    size_t n = sp.size();
    auto t1 = randTag(rng, n);
    auto t2 = relTag(rng, n, t1);
    auto a = randBF(rng, sp, t1), b = randBF(rng, sp, t2);
    const char * ops[3] = {"dot", "plus", "minus"};
    emit_bfop(ops[rng.below(3)], sp, a, b);
    emit_bfop(ops[rng.below(3)], sp, b, a);
    // subset ops need rhs.tag ⊆ ret.tag
    {
        F::PartialKeys sub; for (auto k : t1) if (rng.coin(2, 3)) sub.push_back(k);
        if (sub.empty()) sub.push_back(t1[rng.below(t1.size())]);
        auto r = randBF(rng, sp, sub);
        emit_subset(rng.coin(), sp, a, r);
        emit_subset(rng.coin(), sp, a, randBF(rng, sp, t1));
    }
    auto fv = randFV(rng, sp, 4, &t1);
    emit_fvop(false, sp, fv, b, (int)rng.below(3));
    emit_fvop(true, sp, fv, b, (int)rng.below(2));
    auto fv2 = randFV(rng, sp, 3, &t1);
    emit_fvfv(false, sp, fv, fv2, (int)rng.below(3));
    emit_fvfv(true, sp, fv, fv2, (int)rng.below(2));
    // clearZero: subtract (or, to hit the snapshot's adding behaviour, add) copies of stored bases so that some become zero
    if (!fv.bases.empty()) {
        F::FactoredVector z; int nz = (int)rng.range(1, 2);
        for (int t = 0; t < nz; ++t) {
            auto b = fv.bases[rng.below(fv.bases.size())];
            if (rng.coin()) b.values *= -1.0;
            // perturbations straddling checkEqualGeneral's 1e-6: 2^-21 (4.8e-7, still "zero"), 2^-19 (1.9e-6, not zero), 1/4
            if (rng.coin(1, 2)) { static const double eps[3] = {0x1p-21, 0x1p-19, 0.25};
                b.values[(long)rng.below((size_t)b.values.size())] += (rng.coin() ? 1 : -1) * eps[rng.below(3)]; }
            z.bases.push_back(b);
        }
        emit_fvcz(sp, fv, z);
    }
    emit_fvscale(sp, fv, (double)rng.range(-8, 8) / 2.0, rng.coin());
    if (!fv.bases.empty()) emit_fvscalew(sp, fv, randWeights(rng, fv.bases.size()), rng.coin());
    // matrices
    F::Factors ac = randSpace(rng, 3, 3, 12);
    F::Factors sps = F::factorSpace(sp) > 18 ? randSpace(rng, 3, 3, 18) : sp;
    auto ts = randTag(rng, sps.size()); auto ta = randTag(rng, ac.size());
    auto fm = randFMx(rng, sps, ac, 3, ts, ta);
    auto bmx = randBM(rng, sps, ac, relTag(rng, sps.size(), ts), relTag(rng, ac.size(), ta));
    emit_fmop(sps, ac, fm, bmx, rng.coin());
    auto fm2 = randFMx(rng, sps, ac, 2, ts, ta);
    emit_fmfm(sps, ac, fm, fm2, rng.coin());
    if (!fm.bases.empty()) emit_fmscale(sps, ac, fm, (double)rng.range(-8, 8) / 2.0, randWeights(rng, fm.bases.size()));
}

// ---------------------------------------------------------------- DDN
static Matrix2D randStochastic(Rng & rng, size_t rows, size_t cols) {
    Matrix2D m((long)rows, (long)cols); m.setZero();
    for (size_t r = 0; r < rows; ++r) {
        int units = 8;
        if (rng.coin(1, 4)) { m((long)r, (long)rng.below(cols)) = 1.0; continue; }   // deterministic row (zeros elsewhere)
        for (int u = 0; u < units; ++u) m((long)r, (long)rng.below(cols)) += 0.125;
    }
    return m;
}
struct DDNCase { F::Factors S, A; std::unique_ptr<F::DDNGraph> g; F::DDN::TransitionMatrix T; };
static void makeDDN(Rng & rng, DDNCase & c, bool spanAll) {
    c.g.reset(new F::DDNGraph(c.S, c.A));
    for (size_t i = 0; i < c.S.size(); ++i) {
        F::DDNGraph::ParentSet ps;
        if (spanAll) { ps.agents.resize(c.A.size()); std::iota(ps.agents.begin(), ps.agents.end(), 0); }
        else ps.agents = randTag(rng, c.A.size());
        size_t na = F::factorSpacePartial(ps.agents, c.A);
        for (size_t k = 0; k < na; ++k) {
            if (spanAll) { F::PartialKeys all(c.S.size()); std::iota(all.begin(), all.end(), 0); ps.features.push_back(all); }
            else ps.features.push_back(randTag(rng, c.S.size()));
        }
        c.g->push(ps);
    }
    c.T.clear();
    for (size_t i = 0; i < c.S.size(); ++i) c.T.push_back(randStochastic(rng, c.g->getSize(i), c.S[i]));
}
static void ddn_case(Rng & rng, const std::string & tier) {
    bool th = tier == "thorough";
    DDNCase c;
    if (th) { c.S = randSpace(rng, 4, 3, 18); c.A = randSpace(rng, 3, 3, 8); }
    else { c.S = randSpace(rng, 3, 3, 12); c.A = randSpace(rng, 2, 3, 6); }
    makeDDN(rng, c, false);
    F::DDN ddn{*c.g, c.T};
    auto rhs = randBF(rng, c.S, randTag(rng, c.S.size()));
    Line l; l << "C14" << "ddn"; l.nats(c.S); l.nats(c.A);
    const auto & pss = c.g->getParentSets();
    l << (size_t)pss.size();
    for (auto & ps : pss) { l.nats(ps.agents); l << (size_t)ps.features.size(); for (auto & f : ps.features) l.nats(f); }
    l << (size_t)c.T.size(); for (auto & m : c.T) putMat(l, m);
    putBF(l, rhs); l << "|";
    // startIds through the public API: getId(feature, 0, actionId) and getSize
    l << (size_t)c.S.size();
    for (size_t i = 0; i < c.S.size(); ++i) {
        size_t na = c.g->getPartialSize(i); l << na + 1;
        for (size_t k = 0; k < na; ++k) l << c.g->getId(i, (size_t)0, k);
        l << c.g->getSize(i);
    }
    size_t nS = F::factorSpace(c.S), nA = F::factorSpace(c.A);
    l << c.S.size() * nS * nA;
    for (size_t i = 0; i < c.S.size(); ++i) for (size_t s = 0; s < nS; ++s) for (size_t a = 0; a < nA; ++a)
        l << c.g->getId(i, F::toFactors(c.S, s), F::toFactors(c.A, a));
    l << nS * nA * nS;
    for (size_t s = 0; s < nS; ++s) for (size_t a = 0; a < nA; ++a) for (size_t s1 = 0; s1 < nS; ++s1)
        l << ddn.getTransitionProbability(F::toFactors(c.S, s), F::toFactors(c.A, a), F::toFactors(c.S, s1));
    auto bp = F::backProject(ddn, rhs);
    l.nats(bp.tag); l.nats(bp.actionTag); putMat(l, bp.values);
    F::FactoredMatrix2D fm; fm.bases.push_back(bp);
    putGetsM(l, c.S, c.A, fm);
    l.emit();
    // getIds(feature, j): inverse row lookup
    {
        Line r; r << "C14" << "ddnrows"; r.nats(c.S); r.nats(c.A);
        r << (size_t)pss.size();
        for (auto & ps : pss) { r.nats(ps.agents); r << (size_t)ps.features.size(); for (auto & f : ps.features) r.nats(f); }
        r << "|" << (size_t)c.S.size();
        for (size_t i = 0; i < c.S.size(); ++i) {
            size_t sz = c.g->getSize(i); r << 2 * sz;
            for (size_t j = 0; j < sz; ++j) { auto [pid, aid] = c.g->getIds(i, j); r << pid << aid; }
        }
        r << (size_t)c.S.size();
        for (size_t i = 0; i < c.S.size(); ++i) { size_t na = c.g->getPartialSize(i); r << na; for (size_t k = 0; k < na; ++k) r << c.g->getPartialSize(i, k); }
        r << (size_t)c.S.size();
        for (size_t i = 0; i < c.S.size(); ++i) {
            size_t sz = c.g->getSize(i); r << sz;
            for (size_t j = 0; j < sz; ++j) { auto [pid, aid] = c.g->getIds(i, j); r << c.g->getId(i, pid, aid); }
        }
        r.emit();
    }
    // backProject(FactoredVector) is the per-basis map: compare structurally through an `eq` line
    {
        F::FactoredVector fv; fv.bases.push_back(rhs); fv.bases.push_back(randBF(rng, c.S, randTag(rng, c.S.size())));
        auto fmx = F::backProject(ddn, fv);
        std::vector<double> x, y;
        for (size_t s = 0; s < nS; ++s) for (size_t a = 0; a < nA; ++a) {
            auto fs = F::toFactors(c.S, s); auto fa = F::toFactors(c.A, a);
            x.push_back(fmx.getValue(c.S, c.A, fs, fa));
            double e = 0; for (size_t s1 = 0; s1 < nS; ++s1) { auto f1 = F::toFactors(c.S, s1); e += ddn.getTransitionProbability(fs, fa, f1) * fv.getValue(c.S, f1); }
            y.push_back(e);
        }
        Line q; q << "C14" << "eq" << "backProject(FactoredVector)" << "not_expected_value" << "exact" << "|"; q.nums(x); q << "|"; q.nums(y); q.emit();
    }
    // partial-factors overload of getTransitionProbability = product over the named next-state factors only
    {
        std::vector<double> x, y;
        for (int t = 0; t < 6; ++t) {
            auto fs = F::toFactors(c.S, rng.below(nS)); auto fa = F::toFactors(c.A, rng.below(nA)); auto f1 = F::toFactors(c.S, rng.below(nS));
            auto keys = randTag(rng, c.S.size());
            F::PartialFactors p1; for (auto k : keys) { p1.first.push_back(k); p1.second.push_back(f1[k]); }
            x.push_back(ddn.getTransitionProbability(F::toPartialFactors(fs), F::toPartialFactors(fa), p1));
            double e = 1; for (auto k : keys) e *= c.T[k]((long)c.g->getId(k, fs, fa), (long)f1[k]);
            y.push_back(e);
        }
        Line q; q << "C14" << "eq" << "DDN::getTransitionProbability(partial)" << "not_product_of_locals" << "exact" << "|"; q.nums(x); q << "|"; q.nums(y); q.emit();
    }
}

// ---------------------------------------------------------------- single factor spanning all == flat
struct ConstDist { double v; ConstDist(double x) : v(x) {} template <class G> double operator()(G &) { return v; } };

static void eq_line(const char * comp, const char * kind, const char * mode, const std::vector<double> & a, const std::vector<double> & b) {
    Line q; q << "C14" << "eq" << comp << kind << mode << "|"; q.nums(a); q << "|"; q.nums(b); q.emit();
}

static void eq_case(Rng & rng, const std::string & tier, long sub) {
    int steps = tier == "thorough" ? 120 : 50;
    double gammas[3] = {0.5, 0.75, 0.875}, alphas[3] = {0.5, 0.25, 1.0};
    double gamma = gammas[rng.below(3)], alpha = alphas[rng.below(3)];
    if (sub % 6 == 5) { // CooperativeQLearning with several random bases, replayed by the Lean model
        DDNCase c; c.S = randSpace(rng, 3, 3, 12); c.A = randSpace(rng, 3, 2, 8);
        makeDDN(rng, c, false);
        std::vector<std::vector<size_t>> doms; int nd = (int)rng.range(1, 3);
        for (int d = 0; d < nd; ++d) doms.push_back(randTag(rng, c.S.size()));
        FM_::CooperativeQLearning cq(*c.g, doms, gamma, alpha);
        Line l; l << "C14" << "coopq"; l.nats(c.S); l.nats(c.A);
        const auto & pss = c.g->getParentSets(); l << (size_t)pss.size();
        for (auto & ps : pss) { l.nats(ps.agents); l << (size_t)ps.features.size(); for (auto & f : ps.features) l.nats(f); }
        l << (size_t)doms.size(); for (auto & d : doms) l.nats(d);
        l << alpha << gamma;
        F::FactoredMatrix2D q0 = cq.getQFunction();
        size_t nS = F::factorSpace(c.S), nA = F::factorSpace(c.A);
        int hs = 25; l << (size_t)hs;
        for (int t = 0; t < hs; ++t) {
            auto s = F::toFactors(c.S, rng.below(nS)), s1 = F::toFactors(c.S, rng.below(nS)); auto a = F::toFactors(c.A, rng.below(nA));
            Vector rew((long)c.A.size()); for (long k = 0; k < rew.size(); ++k) rew[k] = dy(rng);
            auto a1 = cq.stepUpdateQ(s, a, s1, rew);
            l.nats(s); l.nats(a); l.nats(s1); l.nats(a1); l.nums(rew);
        }
        l << "|"; putFM(l, q0); putFM(l, cq.getQFunction()); l.emit();
        ::printf("#stat coopq_multi 1\n");
        return;
    }
    if (sub % 6 == 4 && (sub / 6) % 2 == 1) { // SparseCooperativeQLearning with random partial rules, replayed by the Lean model
        F::Factors S = randSpace(rng, 3, 3, 12), A = randSpace(rng, 3, 2, 8);
        std::vector<FM_::QFunctionRule> rules; int nr = (int)rng.range(2, 8);
        for (int k = 0; k < nr; ++k) {
            FM_::QFunctionRule r;
            r.state.first = randTag(rng, S.size()); for (auto key : r.state.first) r.state.second.push_back(rng.below(S[key]));
            r.action.first = randTag(rng, A.size()); for (auto key : r.action.first) r.action.second.push_back(rng.below(A[key]));
            r.value = dy(rng);
            rules.push_back(r);
        }
        FM_::SparseCooperativeQLearning sq(S, A, rules, gamma, alpha);
        Line l; l << "C14" << "sparseq"; l.nats(S); l.nats(A); l << (size_t)rules.size();
        for (auto & r : rules) { l.nats(r.state.first); l.nats(r.state.second); l.nats(r.action.first); l.nats(r.action.second); l << r.value; }
        l << alpha << gamma;
        size_t nS = F::factorSpace(S), nA = F::factorSpace(A);
        int hs = 25; l << (size_t)hs;
        for (int t = 0; t < hs; ++t) {
            auto s = F::toFactors(S, rng.below(nS)), s1 = F::toFactors(S, rng.below(nS)); auto a = F::toFactors(A, rng.below(nA));
            Vector rew((long)A.size()); for (long k = 0; k < rew.size(); ++k) rew[k] = dy(rng);
            auto a1 = sq.stepUpdateQ(s, a, s1, rew);
            l.nats(s); l.nats(a); l.nats(s1); l.nats(a1); l.nums(rew);
        }
        l << "|";
        const auto & fm = sq.getQFunctionRules();
        l << (size_t)fm.size(); for (auto it = fm.begin(); it != fm.end(); ++it) l << it->value;
        l.emit();
        ::printf("#stat sparseq_multi 1\n");
        return;
    }
    switch (sub % 5) {
    case 0: { // JointActionLearner: joint Q == flat QLearning on toIndex(A, a); single agent: singleQ == jointQ
        size_t S = (size_t)rng.range(1, 4);
        F::Factors A = rng.coin(1, 3) ? F::Factors{(size_t)rng.range(1, 4)} : randSpace(rng, 3, 3, 12);
        size_t id = rng.below(A.size());
        FM_::JointActionLearner jal(S, A, id, gamma, alpha);
        AIToolbox::MDP::QLearning ql(S, F::factorSpace(A), gamma, alpha);
        int jsteps = std::min(steps, 40);      // exact rationals grow with the history length
        Line jl; jl << "C14" << "jal" << S; jl.nats(A) << id << alpha << gamma << (size_t)jsteps;
        for (int t = 0; t < jsteps; ++t) {
            size_t s = rng.below(S), s1 = rng.below(S); F::Factors a(A.size()); for (size_t k = 0; k < A.size(); ++k) a[k] = rng.below(A[k]);
            double r = dy(rng);
            jal.stepUpdateQ(s, a, s1, r); ql.stepUpdateQ(s, F::toIndex(A, a), s1, r);
            jl << s; for (auto x : a) jl << x; jl << s1 << r;
        }
        jl << "|"; putMat(jl, jal.getJointQFunction()); putMat(jl, jal.getSingleQFunction()); jl.emit();
        for (int t = jsteps; t < steps; ++t) {
            size_t s = rng.below(S), s1 = rng.below(S); F::Factors a(A.size()); for (size_t k = 0; k < A.size(); ++k) a[k] = rng.below(A[k]);
            double r = dy(rng);
            jal.stepUpdateQ(s, a, s1, r); ql.stepUpdateQ(s, F::toIndex(A, a), s1, r);
        }
        std::vector<double> x, y;
        for (size_t s = 0; s < S; ++s) for (size_t a = 0; a < F::factorSpace(A); ++a) { x.push_back(jal.getJointQFunction()(s, a)); y.push_back(ql.getQFunction()(s, a)); }
        eq_line("JointActionLearner", "joint_q_differs_from_flat", "exact", x, y);
        if (A.size() == 1) {
            std::vector<double> u, v;
            // only rows that were visited are refreshed; compare on those (an unvisited row is all zero in both)
            for (size_t s = 0; s < S; ++s) for (size_t a = 0; a < A[0]; ++a) { u.push_back(jal.getSingleQFunction()(s, a)); v.push_back(jal.getJointQFunction()(s, a)); }
            eq_line("JointActionLearner", "single_agent_q_differs_from_joint", "exact", u, v);
        }
        ::printf("#stat eq_jal 1\n");
        break; }
    case 1: case 2: { // CooperativeQLearning with one basis over everything == flat QLearning with summed reward
        DDNCase c;
        if (sub % 5 == 1) { c.S = {(size_t)rng.range(1, 4)}; c.A = {(size_t)rng.range(1, 4)}; }
        else { c.S = randSpace(rng, 2, 3, 6); c.A = randSpace(rng, 2, 2, 4); }
        makeDDN(rng, c, true);
        std::vector<size_t> dom(c.S.size()); std::iota(dom.begin(), dom.end(), 0);
        FM_::CooperativeQLearning cq(*c.g, {dom}, gamma, alpha);
        size_t nS = F::factorSpace(c.S), nA = F::factorSpace(c.A);
        AIToolbox::MDP::QLearning ql(nS, nA, gamma, alpha);
        for (int t = 0; t < steps; ++t) {
            auto s = F::toFactors(c.S, rng.below(nS)), s1 = F::toFactors(c.S, rng.below(nS)); auto a = F::toFactors(c.A, rng.below(nA));
            Vector rew((long)c.A.size()); for (long k = 0; k < rew.size(); ++k) rew[k] = dy(rng);
            cq.stepUpdateQ(s, a, s1, rew); ql.stepUpdateQ(F::toIndex(c.S, s), F::toIndex(c.A, a), F::toIndex(c.S, s1), rew.sum());
        }
        std::vector<double> x, y;
        for (size_t s = 0; s < nS; ++s) for (size_t a = 0; a < nA; ++a) {
            x.push_back(cq.getQFunction().getValue(c.S, c.A, F::toFactors(c.S, s), F::toFactors(c.A, a))); y.push_back(ql.getQFunction()(s, a)); }
        eq_line("CooperativeQLearning", "differs_from_flat_qlearning", "close", x, y);
        ::printf("#stat eq_coopq 1\n");
        break; }
    case 3: { // SparseCooperativeQLearning with one rule per joint (s,a) == flat QLearning with summed reward
        F::Factors S = rng.coin() ? F::Factors{(size_t)rng.range(1, 3)} : randSpace(rng, 2, 2, 4);
        F::Factors A = rng.coin() ? F::Factors{(size_t)rng.range(1, 3)} : randSpace(rng, 2, 2, 4);
        size_t nS = F::factorSpace(S), nA = F::factorSpace(A);
        std::vector<FM_::QFunctionRule> rules;
        for (size_t s = 0; s < nS; ++s) for (size_t a = 0; a < nA; ++a)
            rules.push_back({F::toPartialFactors(F::toFactors(S, s)), F::toPartialFactors(F::toFactors(A, a)), 0.0});
        FM_::SparseCooperativeQLearning sq(S, A, rules, gamma, alpha);
        AIToolbox::MDP::QLearning ql(nS, nA, gamma, alpha);
        for (int t = 0; t < steps; ++t) {
            auto s = F::toFactors(S, rng.below(nS)), s1 = F::toFactors(S, rng.below(nS)); auto a = F::toFactors(A, rng.below(nA));
            Vector rew((long)A.size()); for (long k = 0; k < rew.size(); ++k) rew[k] = dy(rng);
            sq.stepUpdateQ(s, a, s1, rew); ql.stepUpdateQ(F::toIndex(S, s), F::toIndex(A, a), F::toIndex(S, s1), rew.sum());
        }
        std::vector<double> x, y;
        for (size_t s = 0; s < nS; ++s) for (size_t a = 0; a < nA; ++a) {
            auto rs = sq.getQFunctionRules().filter(F::join(F::toFactors(S, s), F::toFactors(A, a)));
            double v = 0; for (const auto & r : rs) v += r.value;
            x.push_back(v); y.push_back(ql.getQFunction()(s, a)); }
        eq_line("SparseCooperativeQLearning", "differs_from_flat_qlearning", "close", x, y);
        ::printf("#stat eq_sparseq 1\n");
        break; }
    case 4: { // CooperativeModel with one factor == flat MDP::Model ; FlattenedModel == flat bandit
        size_t n = (size_t)rng.range(1, 4), m = (size_t)rng.range(1, 3);
        DDNCase c; c.S = {n}; c.A = {m};
        makeDDN(rng, c, true);
        F::FactoredMatrix2D R; R.bases.push_back(randBM(rng, c.S, c.A, {0}, {0}));
        FM_::CooperativeModel cm(*c.g, c.T, R, gamma);
        AIToolbox::DumbMatrix3D T3(boost::extents[n][m][n]), R3(boost::extents[n][m][n]);
        for (size_t s = 0; s < n; ++s) for (size_t a = 0; a < m; ++a) for (size_t s1 = 0; s1 < n; ++s1) {
            T3[s][a][s1] = c.T[0]((long)(a * n + s), (long)s1); R3[s][a][s1] = R.bases[0].values((long)s, (long)a); }
        AIToolbox::MDP::Model flat(n, m, T3, R3, gamma);
        std::vector<double> x, y;
        for (size_t s = 0; s < n; ++s) for (size_t a = 0; a < m; ++a) for (size_t s1 = 0; s1 < n; ++s1) {
            x.push_back(cm.getTransitionProbability({s}, {a}, {s1})); y.push_back(flat.getTransitionProbability(s, a, s1));
            x.push_back(cm.getExpectedReward({s}, {a}, {s1})); y.push_back(flat.getExpectedReward(s, a, s1));
        }
        x.push_back(cm.getDiscount()); y.push_back(flat.getDiscount());
        eq_line("CooperativeModel", "single_factor_differs_from_flat", "exact", x, y);
        // deterministic rows make sampleSR comparable too: a second model whose every row is a point mass
        {
            DDNCase c2; c2.S = {n}; c2.A = {m}; makeDDN(rng, c2, true);
            for (long r = 0; r < c2.T[0].rows(); ++r) { c2.T[0].row(r).setZero(); c2.T[0](r, (long)rng.below(n)) = 1.0; }
            FM_::CooperativeModel cm2(*c2.g, c2.T, R, gamma);
            std::vector<double> u, v;
            for (size_t s = 0; s < n; ++s) for (size_t a = 0; a < m; ++a) {
                auto [s1, r] = cm2.sampleSR({s}, {a});
                size_t want = 0; for (size_t k = 0; k < n; ++k) if (c2.T[0]((long)(a * n + s), (long)k) == 1.0) want = k;
                u.push_back((double)s1[0]); v.push_back((double)want);
                u.push_back(r); v.push_back(R.bases[0].values((long)s, (long)a));
                auto [s1b, rs] = cm2.sampleSRs({s}, {a});
                u.push_back((double)s1b[0]); v.push_back((double)want);
                u.push_back(rs.sum()); v.push_back(R.bases[0].values((long)s, (long)a));
            }
            eq_line("CooperativeModel", "single_factor_sampling_differs_from_flat", "exact", u, v);
        }
        // FlattenedModel over a factored bandit: sampleR(a) = Σ_groups arm_g[toIndexPartial(group, A, toFactors(A, a))]
        F::Factors A = randSpace(rng, 3, 3, 18);
        bool single = rng.coin();
        std::vector<F::PartialKeys> groups;
        if (single) { F::PartialKeys all(A.size()); std::iota(all.begin(), all.end(), 0); groups.push_back(all); }
        else { int ng = (int)rng.range(1, 3); for (int g = 0; g < ng; ++g) groups.push_back(randTag(rng, A.size())); }
        std::vector<AIToolbox::Bandit::Model<ConstDist>> arms; std::vector<std::vector<double>> tbl;
        for (auto & g : groups) { std::vector<std::tuple<double>> args; tbl.emplace_back();
            for (size_t k = 0; k < F::factorSpacePartial(g, A); ++k) { double v = dy(rng); args.emplace_back(v); tbl.back().push_back(v); }
            arms.emplace_back(args); }
        AIToolbox::Factored::Bandit::Model<ConstDist> fbm(A, groups, arms);
        AIToolbox::Factored::Bandit::FlattenedModel<ConstDist> flatb(fbm);
        std::vector<double> u, v;
        u.push_back((double)flatb.getA()); v.push_back((double)F::factorSpace(A));
        for (size_t a = 0; a < F::factorSpace(A); ++a) {
            u.push_back(flatb.sampleR(a));
            auto fa = F::toFactors(A, a); double e = 0;
            for (size_t g = 0; g < groups.size(); ++g) e += tbl[g][F::toIndexPartial(groups[g], A, fa)];
            if (single) e = tbl[0][a];      // one group spanning all agents: literally the flat arm table
            v.push_back(e);
        }
        // the same arms again from the last to the first, and in a scrambled order: the object converts the arm index into a buffer
        // it keeps between calls, so the answer must not depend on which arm was pulled before
        { const size_t nA = F::factorSpace(A);
          for (size_t k = 0; k < 2 * nA; ++k) {
              size_t a = k < nA ? nA - 1 - k : rng.below(nA);
              u.push_back(flatb.sampleR(a));
              auto fa = F::toFactors(A, a); double e = 0;
              for (size_t g = 0; g < groups.size(); ++g) e += tbl[g][F::toIndexPartial(groups[g], A, fa)];
              if (single) e = tbl[0][a];
              v.push_back(e);
          } }
        eq_line("Bandit::FlattenedModel", single ? "single_group_differs_from_flat" : "differs_from_sum_of_local_arms", "exact", u, v);
        ::printf("#stat eq_model 1\n");
        break; }
    }
}

static void piek_cases(Rng & rng, const F::Factors & sp) {
    size_t n = sp.size();
    for (size_t mask = 1; mask < (1u << n); ++mask) {
        F::PartialKeys keys; for (size_t k = 0; k < n; ++k) if (mask & (1u << k)) keys.push_back(k);
        for (size_t f = 0; f < n; ++f) {
            bool present = mask & (1u << f);
            if (F::factorSpacePartial(keys, sp) * sp[f] > 600) continue;
            emit_piek(sp, keys, f, rng.below(sp[f]), !present);
        }
    }
}


// ===================================================================================================
// Part C (round 3): validation chain (checkTag, DDNGraph::push, CooperativeModel ctor), factorSpace clamp,
// enumerator constructors + reset, multi-factor CooperativeModel, bellmanBackup
// ===================================================================================================
static void emit_checktag(Rng & rng) {
    size_t n = (size_t)rng.range(1, 5);
    F::Factors sp(n); for (auto & d : sp) d = (size_t)rng.range(1, 3);
    F::PartialKeys tag;
    int mode = (int)rng.below(6);
    if (mode <= 2) { tag = randTag(rng, n); }                                            // valid
    else if (mode == 3) { tag = randTag(rng, n); if (rng.coin()) tag.push_back(tag[rng.below(tag.size())]); else tag.insert(tag.begin(), tag.back()); }   // duplicate / unsorted
    else if (mode == 4) { tag = randTag(rng, n); tag[rng.below(tag.size())] = n + rng.below(2); }                     // id too high (any position)
    else { size_t len = (size_t)rng.range(0, (int64_t)n + 2); for (size_t k = 0; k < len; ++k) tag.push_back(rng.below(n + 1)); }   // anything, incl. empty / too long
    auto [err, pos] = F::checkTag(sp, tag);
    Line l; l << "C14" << "checktag"; l.nats(sp); l.nats(tag); l << "|" << (size_t)err << pos; l.emit();
    ::printf("#stat checktag_%s 1\n", err == F::TagErrors::None ? "none" : "error");
}

static void emit_fsclamp(Rng & rng) {
    static const size_t big[] = {1, 2, 3, 7, 1ull << 16, (1ull << 16) + 1, 1ull << 31, 1ull << 32, (1ull << 32) + 1, 3037000500ull, 1ull << 62, 1ull << 63,
                                 ~0ull, ~0ull - 1, 6074001000ull, 4294967295ull, 4294967297ull};
    size_t n = (size_t)rng.range(1, 6);
    F::Factors sp(n);
    bool small = rng.coin(1, 4);
    for (auto & d : sp) d = small ? (size_t)rng.range(1, 6) : big[rng.below(sizeof(big) / sizeof(big[0]))];
    auto keys = randTag(rng, n);
    Line l; l << "C14" << "fsclamp"; l.nats(sp); l.nats(keys); l << "|" << F::factorSpace(sp) << F::factorSpacePartial(keys, sp); l.emit();
    ::printf("#stat fsclamp_%s 1\n", F::factorSpace(sp) == ~0ull ? "clamped" : "fits");
}

static void emit_enumctor(Rng & rng) {
    F::Factors sp = randSpace(rng, 5, 4, 200);
    size_t n = sp.size();
    bool missing = rng.coin();
    F::PartialKeys keys; size_t skipF;
    if (missing) {
        skipF = rng.below(n);
        for (size_t k = 0; k < n; ++k) if (k != skipF && rng.coin()) keys.push_back(k);      // possibly empty
    } else {
        keys = randTag(rng, n); skipF = keys[rng.below(keys.size())];
    }
    F::PartialFactorsEnumerator e(sp, keys, skipF, missing);
    F::PartialKeys implKeys = (*e).first; size_t skipId = e.getFactorToSkipId(); size_t size = e.size();
    size_t k = rng.below(size + 2);
    for (size_t t = 0; t < k && e.isValid(); ++t) e.advance();
    bool cleared = !e.isValid();
    e.reset();
    std::vector<std::vector<size_t>> seq; size_t guard = 0;
    while (e.isValid() && guard++ < 100000) { seq.push_back((*e).second); e.advance(); }
    Line l; l << "C14" << "enumctor"; l.nats(sp); l.nats(keys); l << skipF << missing << k << "|"; l.nats(implKeys); l << skipId << size << (size_t)seq.size();
    for (auto & v : seq) l.nats(v);
    l.emit();
    ::printf("#stat enumctor_%s_%s 1\n", missing ? "missing" : "present", cleared ? "reset_from_cleared" : "reset_midway");
}

static void putPS(Line & l, const F::DDNGraph::ParentSet & ps) { l.nats(ps.agents); l << (size_t)ps.features.size(); for (auto & f : ps.features) l.nats(f); }

static F::PartialKeys corruptTag(Rng & rng, F::PartialKeys t, size_t n) {
    switch (rng.below(5)) {
    case 0: t.clear(); break;
    case 1: t.push_back(t[rng.below(t.size())]); break;                       // duplicate or unsorted at the end
    case 2: t[rng.below(t.size())] = n + rng.below(2); break;                 // id too high
    case 3: if (t.size() >= 2) std::swap(t[0], t[t.size() - 1]); else t.push_back(t[0]); break;
    default: while (t.size() <= n) t.push_back(t.back() + 1); break;          // too many (and too high)
    }
    return t;
}

static void emit_push(Rng & rng) {
    F::Factors S = randSpace(rng, 3, 3, 12), A = randSpace(rng, 3, 3, 8);
    F::DDNGraph g(S, A);
    size_t tries = S.size() + (size_t)rng.range(0, 2);
    Line l; l << "C14" << "push"; l.nats(S); l.nats(A); l << tries;
    std::vector<bool> ok; int bad = 0;
    for (size_t t = 0; t < tries; ++t) {
        F::DDNGraph::ParentSet ps; ps.agents = randTag(rng, A.size());
        size_t na = F::factorSpacePartial(ps.agents, A);
        for (size_t k = 0; k < na; ++k) ps.features.push_back(randTag(rng, S.size()));
        int c = (int)rng.below(8);
        if (c == 0) { ps.agents = corruptTag(rng, ps.agents, A.size()); ++bad; }
        else if (c == 1) { ps.features[rng.below(ps.features.size())] = corruptTag(rng, ps.features[0], S.size()); ++bad; }
        else if (c == 2) { if (rng.coin() && ps.features.size() > 1) ps.features.pop_back(); else ps.features.push_back(randTag(rng, S.size())); ++bad; }
        putPS(l, ps);
        bool acc = true;
        try { g.push(ps); } catch (const std::exception &) { acc = false; }
        ok.push_back(acc);
    }
    l << "|" << (size_t)ok.size(); for (bool b : ok) l << b;
    const auto & pss = g.getParentSets();
    l << (size_t)pss.size(); for (auto & ps : pss) putPS(l, ps);
    l << (size_t)pss.size();
    for (size_t i = 0; i < pss.size(); ++i) { size_t na = g.getPartialSize(i); l << na + 1; for (size_t k = 0; k < na; ++k) l << g.getId(i, (size_t)0, k); l << g.getSize(i); }
    l.emit();
    ::printf("#stat push_%s 1\n", bad ? "with_malformed" : "all_wellformed");
}

static void putModelInputs(Line & l, const F::Factors & S, const F::Factors & A, const std::vector<F::DDNGraph::ParentSet> & pss,
                           const F::DDN::TransitionMatrix & T, const F::FactoredMatrix2D & R, double discount) {
    l.nats(S); l.nats(A); l << (size_t)pss.size(); for (auto & ps : pss) putPS(l, ps);
    l << (size_t)T.size(); for (auto & m : T) putMat(l, m);
    putFM(l, R); l << discount;
}

static void emit_cmctor(Rng & rng) {
    DDNCase c; c.S = randSpace(rng, 3, 3, 12); c.A = randSpace(rng, 2, 3, 6);
    makeDDN(rng, c, false);
    F::FactoredMatrix2D R = randFMx(rng, c.S, c.A, 2, randTag(rng, c.S.size()), randTag(rng, c.A.size()));
    static const double discs[4] = {0.5, 0.75, 0.875, 1.0};
    double discount = discs[rng.below(4)];
    int kind = (int)rng.below(12);
    std::unique_ptr<F::DDNGraph> g2;
    const char * what = "valid";
    switch (kind) {
    case 0: case 1: break;
    case 2: { static const double bad[4] = {0.0, -0.5, 1.5, 1.0 + 0x1p-40}; discount = bad[rng.below(4)]; what = "discount"; break; }
    case 3: { if (rng.coin()) c.T.pop_back(); else c.T.push_back(c.T[0]); what = "matrix_count"; break; }
    case 4: { auto & m = c.T[rng.below(c.T.size())]; Matrix2D n(m.rows() + 1, m.cols()); n.topRows(m.rows()) = m; n.row(m.rows()) = m.row(0); m = n; what = "row_count"; break; }
    case 5: { auto & m = c.T[rng.below(c.T.size())]; Matrix2D n(m.rows(), m.cols() + 1); n.setZero(); n.leftCols(m.cols()) = m; m = n; what = "col_count"; break; }
    case 6: { auto & m = c.T[rng.below(c.T.size())]; static const double eps[4] = {0x1p-21, -0x1p-21, 0x1p-19, -0x1p-19};   // 4.8e-7 stays a distribution, 1.9e-6 does not
              long r = (long)rng.below((size_t)m.rows()); long col = 0; for (long k = 0; k < m.cols(); ++k) if (m(r, k) > 0) col = k; m(r, col) += eps[rng.below(4)]; what = "row_sum"; break; }
    case 7: { auto & m = c.T[rng.below(c.T.size())]; if (m.cols() >= 2) { long r = (long)rng.below((size_t)m.rows()); m.row(r).setZero(); m(r, 0) = -0.125; m(r, 1) = 1.125; } what = "negative_entry"; break; }
    case 8: { if (!R.bases.empty()) { auto & b = R.bases[rng.below(R.bases.size())]; if (rng.coin()) b.tag = corruptTag(rng, b.tag, c.S.size()); else b.actionTag = corruptTag(rng, b.actionTag, c.A.size()); } what = "reward_tag"; break; }
    case 9: { if (!R.bases.empty()) { auto & b = R.bases[rng.below(R.bases.size())]; Matrix2D n = Matrix2D::Zero(b.values.rows() + (rng.coin() ? 1 : 0), b.values.cols() + 1); b.values = n; } what = "reward_shape"; break; }
    case 10: { g2.reset(new F::DDNGraph(c.S, c.A)); const auto & pss = c.g->getParentSets(); for (size_t i = 0; i + 1 < pss.size(); ++i) g2->push(pss[i]); what = "missing_node"; break; }
    default: break;
    }
    const F::DDNGraph & g = g2 ? *g2 : *c.g;
    Line l; l << "C14" << "cmctor"; putModelInputs(l, c.S, c.A, g.getParentSets(), c.T, R, discount);
    bool acc = true; std::string cls = "-";
    try { FM_::CooperativeModel cm(g, c.T, R, discount); } catch (const std::exception & e) { acc = false; cls = errClass(e); }
    l << "|" << acc << cls; l.emit();
    ::printf("#stat cmctor_%s_%s 1\n", what, acc ? "accepted" : "rejected");
}

static void emit_bellman(Rng & rng, bool th) {
    DDNCase c;
    if (th) { c.S = randSpace(rng, 4, 3, 18); c.A = randSpace(rng, 3, 3, 8); } else { c.S = randSpace(rng, 3, 3, 12); c.A = randSpace(rng, 2, 3, 6); }
    makeDDN(rng, c, false);
    bool det = rng.coin(1, 4);
    if (det) for (auto & m : c.T) for (long r = 0; r < m.rows(); ++r) { m.row(r).setZero(); m(r, (long)rng.below((size_t)m.cols())) = 1.0; }
    F::FactoredMatrix2D R = randFMx(rng, c.S, c.A, 3, randTag(rng, c.S.size()), randTag(rng, c.A.size()));
    static const double discs[4] = {0.5, 0.75, 0.875, 1.0};
    double discount = discs[rng.below(4)];
    FM_::CooperativeModel cm(*c.g, c.T, R, discount);
    FM_::ValueFunction v;
    auto rel = randTag(rng, c.S.size());
    v.values = randFV(rng, c.S, 3, rng.coin() ? &rel : nullptr);
    v.weights = randWeights(rng, v.values.bases.size());
    auto Q = FM_::bellmanBackup(cm, v);
    Line l; l << "C14" << "bellman"; putModelInputs(l, c.S, c.A, c.g->getParentSets(), c.T, R, discount);
    putFV(l, v.values); l.nums(v.weights); l << det << "|";
    putFM(l, Q); putGetsM(l, c.S, c.A, Q);
    size_t nS = F::factorSpace(c.S), nA = F::factorSpace(c.A);
    l << nS * nA * nS;
    for (size_t s = 0; s < nS; ++s) for (size_t a = 0; a < nA; ++a) for (size_t s1 = 0; s1 < nS; ++s1)
        l << cm.getTransitionProbability(F::toFactors(c.S, s), F::toFactors(c.A, a), F::toFactors(c.S, s1));
    l << nS * nA;
    for (size_t s = 0; s < nS; ++s) for (size_t a = 0; a < nA; ++a) l << cm.getExpectedReward(F::toFactors(c.S, s), F::toFactors(c.A, a), F::toFactors(c.S, 0));
    l << nS;
    for (size_t s1 = 0; s1 < nS; ++s1) l << v.values.getValue(c.S, F::toFactors(c.S, s1), v.weights);
    // sampleSR / sampleSRs at every (s, a): sampled next state (index), summed reward, per-basis rewards
    l << nS * nA;
    for (size_t s = 0; s < nS; ++s) for (size_t a = 0; a < nA; ++a) {
        auto [s1, r] = cm.sampleSR(F::toFactors(c.S, s), F::toFactors(c.A, a));
        auto [s1b, rs] = cm.sampleSRs(F::toFactors(c.S, s), F::toFactors(c.A, a));
        l << (size_t)(3 + rs.size()) << (double)F::toIndex(c.S, s1) << (double)F::toIndex(c.S, s1b) << r; for (long k = 0; k < rs.size(); ++k) l << (double)rs[k];
    }
    l << cm.getDiscount();
    l.emit();
    ::printf("#stat bellman_%s_%s_%zubases 1\n", det ? "deterministic" : "stochastic",
             (size_t)v.weights.size() == v.values.bases.size() + 1 ? "const" : "noconst", (size_t)v.values.bases.size());
}

static void mdp_case(Rng & rng, const std::string & tier, long sub) {
    bool th = tier == "thorough";
    switch (sub % 6) {
    case 0: for (int t = 0; t < 6; ++t) emit_checktag(rng); for (int t = 0; t < 4; ++t) emit_fsclamp(rng); break;
    case 1: for (int t = 0; t < 4; ++t) emit_enumctor(rng); break;
    case 2: emit_push(rng); emit_push(rng); break;
    case 3: emit_cmctor(rng); emit_cmctor(rng); break;
    default: emit_bellman(rng, th); break;
    }
}

static const int kRandomQuick = 150, kRandomThorough = 3000;
static const int kAlgQuick = 400, kAlgThorough = 60000;
static const int kDdnQuick = 100, kDdnThorough = 12000;
static const int kEqQuick = 160, kEqThorough = 6000;
static const int kMdpQuick = 240, kMdpThorough = 12000;
static long g_nSpaces = 0, g_nRandom = 0, g_nAlg = 0, g_nDdn = 0, g_nEq = 0, g_nMdp = 0;

long verif::verif_ncases(const std::string & tier) {
    bool th = tier == "thorough";
    if (th) build_spaces(4, 4); else build_spaces(3, 3);
    g_nSpaces = (long)g_spaces.size();
    g_nRandom = th ? kRandomThorough : kRandomQuick;
    g_nAlg = th ? kAlgThorough : kAlgQuick;
    g_nDdn = th ? kDdnThorough : kDdnQuick;
    g_nEq = th ? kEqThorough : kEqQuick;
    g_nMdp = th ? kMdpThorough : kMdpQuick;
    return 1 + g_nSpaces + g_nRandom + g_nAlg + g_nDdn + g_nEq + g_nMdp;
}

void verif::verif_case(Rng & rng, long idx, const std::string & tier) {
    if (idx == 0) { fixed_cases(rng); return; }
    idx -= 1;
    if (idx < g_nSpaces + g_nRandom) {
        core_case(rng, idx, tier);
        {
            const F::Factors & spc = idx < g_nSpaces ? g_spaces[idx] : F::Factors{(size_t)rng.range(1, 4), (size_t)rng.range(1, 4), (size_t)rng.range(1, 4), (size_t)rng.range(1, 3)};
            for (int t = 0; t < 4; ++t) { emit_tipf(spc, randomPF(rng, spc)); emit_misc(rng, spc); emit_skipidx(rng, spc); emit_misc2(rng, spc); }
            if (idx < g_nSpaces && spc.size() <= 3)     // every key subset with every value tuple
                for (size_t mask = 1; mask < (1u << spc.size()); ++mask) {
                    F::PartialKeys keys; for (size_t k = 0; k < spc.size(); ++k) if (mask & (1u << k)) keys.push_back(k);
                    size_t psp = F::factorSpacePartial(keys, spc);
                    for (size_t id = 0; id < psp; ++id) emit_tipf(spc, F::PartialFactors{keys, F::toFactorsPartial(keys, spc, id)});
                }
        }
        if (idx < g_nSpaces) { if (F::factorSpace(g_spaces[idx]) <= 81) piek_cases(rng, g_spaces[idx]); }
        else {
            F::Factors sp = randSpace(rng, 5, 4, 400);
            auto keys = randTag(rng, sp.size()); size_t f = rng.below(sp.size());
            bool present = std::find(keys.begin(), keys.end(), f) != keys.end();
            emit_piek(sp, keys, f, rng.below(sp[f]), !present);
        }
        return;
    }
    idx -= g_nSpaces + g_nRandom;
    if (idx < g_nAlg) { alg_case(rng, tier); return; }
    idx -= g_nAlg;
    if (idx < g_nDdn) { ddn_case(rng, tier); return; }
    idx -= g_nDdn;
    if (idx < g_nEq) { eq_case(rng, tier, idx); return; }
    idx -= g_nEq;
    mdp_case(rng, tier, idx);
}

VERIF_MAIN
