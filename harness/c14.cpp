// C14 correspondence harness: factored index/enumerator core (src/Factored/Utils/Core.cpp).
// Exhaustive over all small factor spaces, then seeded random larger ones.
#include "common/verif.hpp"
#include <AIToolbox/Factored/Utils/Core.hpp>

using namespace verif;
namespace F = AIToolbox::Factored;

static std::vector<F::Factors> g_spaces;

static void build_spaces(int maxFactors, int maxSize) {
    g_spaces.clear();
    for (int n = 1; n <= maxFactors; ++n) {
        F::Factors sp(n, 1);
        while (true) {
            g_spaces.push_back(sp);
            int i = 0;
            while (i < n) { if (++sp[i] <= (size_t)maxSize) break; sp[i] = 1; ++i; }
            if (i == n) break;
        }
    }
}

static const int kRandomQuick = 150, kRandomThorough = 3000;

long verif::verif_ncases(const std::string & tier) {
    if (tier == "thorough") build_spaces(4, 4); else build_spaces(3, 3);
    return (long)g_spaces.size() + (tier == "thorough" ? kRandomThorough : kRandomQuick);
}

static void emit_rt(const F::Factors & sp, size_t id) {
    auto f = F::toFactors(sp, id);
    size_t back = F::toIndex(sp, f);
    Line l; l << "C14" << "rt"; l.nats(sp) << id << "|"; l.nats(f) << back; l.emit();
}

static void emit_enum(const F::Factors & sp, const F::PartialKeys & keys, int mode, size_t skipFactor) {
    // mode 0: keys only; 1: skip a key that is present; 2: missing key inserted
    std::vector<size_t> dims; size_t skipId;
    std::unique_ptr<F::PartialFactorsEnumerator> e;
    if (mode == 0) e.reset(new F::PartialFactorsEnumerator(sp, keys));
    else if (mode == 1) e.reset(new F::PartialFactorsEnumerator(sp, keys, skipFactor, false));
    else e.reset(new F::PartialFactorsEnumerator(sp, keys, skipFactor, true));
    skipId = e->getFactorToSkipId();
    const auto & ks = (**e).first;
    for (auto k : ks) dims.push_back(sp[k]);
    size_t size = e->size();
    std::vector<std::vector<size_t>> seq;
    size_t guard = 0;
    while (e->isValid() && guard++ < 100000) { seq.push_back((**e).second); e->advance(); }
    Line l; l << "C14" << "enum"; l.nats(dims) << skipId << "|" << size << (size_t)seq.size();
    for (auto & v : seq) l.nats(v);
    l.emit();
}

static void emit_full_enum(const F::Factors & sp, bool skip, size_t skipFactor) {
    std::unique_ptr<F::PartialFactorsEnumerator> e;
    if (skip) e.reset(new F::PartialFactorsEnumerator(sp, skipFactor)); else e.reset(new F::PartialFactorsEnumerator(sp));
    size_t skipId = e->getFactorToSkipId();
    size_t size = e->size();
    std::vector<std::vector<size_t>> seq;
    size_t guard = 0;
    while (e->isValid() && guard++ < 100000) { seq.push_back((**e).second); e->advance(); }
    Line l; l << "C14" << "enum"; l.nats(sp) << skipId << "|" << size << (size_t)seq.size();
    for (auto & v : seq) l.nats(v);
    l.emit();
}

static void emit_pie(const F::Factors & sp, size_t fixed, size_t val) {
    F::PartialIndexEnumerator e(sp, fixed, val);
    std::vector<size_t> seq; size_t guard = 0;
    while (e.isValid() && guard++ < 100000) { seq.push_back(*e); e.advance(); }
    Line l; l << "C14" << "pie"; l.nats(sp) << fixed << val << "|"; l.nats(seq); l.emit();
}

static void emit_part(const F::Factors & sp, const F::PartialKeys & keys, size_t id, const F::Factors & full) {
    auto vals = F::toFactorsPartial(keys, sp, id);
    F::PartialFactors pf{keys, vals};
    size_t i1 = F::toIndexPartial(sp, pf);
    size_t i2 = F::toIndexPartial(keys, sp, full);
    Line l; l << "C14" << "part"; l.nats(sp); l.nats(keys) << id; l.nats(full) << "|"; l.nats(vals) << i1 << i2 << F::factorSpacePartial(keys, sp); l.emit();
}

static F::PartialFactors randomPF(Rng & rng, const F::Factors & sp) {
    F::PartialFactors pf;
    for (size_t k = 0; k < sp.size(); ++k) if (rng.coin()) { pf.first.push_back(k); pf.second.push_back(rng.below(sp[k])); }
    return pf;
}

static void emit_merge(Rng & rng, const F::Factors & sp) {
    auto l = randomPF(rng, sp), r = randomPF(rng, sp);
    auto m = F::merge(l, r);
    bool mt = F::match(l, r);
    Line o; o << "C14" << "merge"; o.nats(l.first); o.nats(l.second); o.nats(r.first); o.nats(r.second); o << "|"; o.nats(m.first); o.nats(m.second) << mt; o.emit();
}

static void all_subsets(const F::Factors & sp, Rng & rng) {
    size_t n = sp.size();
    for (size_t mask = 1; mask < (1u << n); ++mask) {
        F::PartialKeys keys;
        for (size_t k = 0; k < n; ++k) if (mask & (1u << k)) keys.push_back(k);
        emit_enum(sp, keys, 0, 0);
        for (auto k : keys) emit_enum(sp, keys, 1, k);
        for (size_t k = 0; k < n; ++k) if (!(mask & (1u << k))) emit_enum(sp, keys, 2, k);
        size_t psp = F::factorSpacePartial(keys, sp);
        for (size_t id = 0; id < psp; ++id) {
            F::Factors full(n);
            for (size_t k = 0; k < n; ++k) full[k] = rng.below(sp[k]);
            auto vals = F::toFactorsPartial(keys, sp, id);
            for (size_t j = 0; j < keys.size(); ++j) full[keys[j]] = vals[j];
            emit_part(sp, keys, id, full);
        }
    }
}

void verif::verif_case(Rng & rng, long idx, const std::string & tier) {
    if (idx < (long)g_spaces.size()) {
        const auto & sp = g_spaces[idx];
        size_t total = F::factorSpace(sp);
        for (size_t id = 0; id < total; ++id) emit_rt(sp, id);
        emit_full_enum(sp, false, 0);
        for (size_t k = 0; k < sp.size(); ++k) emit_full_enum(sp, true, k);
        for (size_t k = 0; k < sp.size(); ++k) for (size_t v = 0; v < sp[k]; ++v) emit_pie(sp, k, v);
        all_subsets(sp, rng);
        for (int t = 0; t < 4; ++t) emit_merge(rng, sp);
        return;
    }
    // random larger spaces: 1..7 factors of size 1..6
    size_t n = (size_t)rng.range(1, tier == "thorough" ? 7 : 6);
    F::Factors sp(n);
    for (auto & d : sp) d = (size_t)rng.range(1, 6);
    size_t total = F::factorSpace(sp);
    for (int t = 0; t < 6; ++t) emit_rt(sp, rng.below(total));
    emit_rt(sp, total - 1);
    F::PartialKeys keys;
    for (size_t k = 0; k < n; ++k) if (rng.coin()) keys.push_back(k);
    if (keys.empty()) keys.push_back(rng.below(n));
    if (F::factorSpacePartial(keys, sp) <= 2000) {
        emit_enum(sp, keys, 0, 0);
        emit_enum(sp, keys, 1, rng.pick(keys));
    }
    {
        size_t psp = F::factorSpacePartial(keys, sp);
        size_t id = rng.below(psp);
        F::Factors full(n);
        for (size_t k = 0; k < n; ++k) full[k] = rng.below(sp[k]);
        auto vals = F::toFactorsPartial(keys, sp, id);
        for (size_t j = 0; j < keys.size(); ++j) full[keys[j]] = vals[j];
        emit_part(sp, keys, id, full);
    }
    if (total <= 5000) { size_t k = rng.below(n); emit_pie(sp, k, rng.below(sp[k])); }
    for (int t = 0; t < 3; ++t) emit_merge(rng, sp);
}

VERIF_MAIN
