// harness/c10_api_bandit.hpp — included by harness/c10.cpp AFTER "common/verif.hpp" and "common/gen.hpp"
//
// Public-API sweep for C10, area `bandit`: policy classes of AIToolbox::Bandit (ESRL, LRP, QSoftmax, SuccessiveRejects, T3C,
// ThompsonSampling, TopTwoThompsonSampling, the QGreedy/QSoftmax policy wrappers), the setEpsilon member of both
// EpsilonPolicyInterface templates, MDP::QSoftmaxPolicy and the two setters of MDP::PGAAPPPolicy.
// Every call follows the documented sequence of the class (constructor -> record/stepUpdate -> query) with parameters inside the
// documented ranges; members are called on the concrete type so that the -O0 object references the symbol directly.
// Oracles (cheap, certain): probabilities within [0,1] and rows summing to 1 within 1e-9 (for the Monte-Carlo estimates of the
// Thompson family only the range is promised for getActionProbability; getPolicy is normalised), sampled action < A, getter returns
// what the setter stored, documented std::invalid_argument on out-of-range parameters, softmax equal to a 5-line recomputation.
#pragma once
#include <AIToolbox/Seeder.hpp>
#include <AIToolbox/Bandit/Experience.hpp>
#include <AIToolbox/Bandit/Policies/ESRLPolicy.hpp>
#include <AIToolbox/Bandit/Policies/LRPPolicy.hpp>
#include <AIToolbox/Bandit/Policies/QSoftmaxPolicy.hpp>
#include <AIToolbox/Bandit/Policies/QGreedyPolicy.hpp>
#include <AIToolbox/Bandit/Policies/EpsilonPolicy.hpp>
#include <AIToolbox/Bandit/Policies/SuccessiveRejectsPolicy.hpp>
#include <AIToolbox/Bandit/Policies/T3CPolicy.hpp>
#include <AIToolbox/Bandit/Policies/ThompsonSamplingPolicy.hpp>
#include <AIToolbox/Bandit/Policies/TopTwoThompsonSamplingPolicy.hpp>
#include <AIToolbox/Bandit/Policies/Utils/QGreedyPolicyWrapper.hpp>
#include <AIToolbox/Bandit/Policies/Utils/QSoftmaxPolicyWrapper.hpp>
#include <AIToolbox/MDP/Policies/QSoftmaxPolicy.hpp>
#include <AIToolbox/MDP/Policies/QGreedyPolicy.hpp>
#include <AIToolbox/MDP/Policies/EpsilonPolicy.hpp>
#include <AIToolbox/MDP/Policies/PGAAPPPolicy.hpp>
#include <cmath>
#include <type_traits>
#include <vector>
#include <stdexcept>

namespace c10api {
namespace bandit_detail {

inline void emit(const char * name, bool ok) { verif::Line l; l << "C10" << "range" << name << "|" << ok; l.emit(); }

inline bool isProb(double p) { return p >= -1e-9 && p <= 1.0 + 1e-9; }          // NaN fails both comparisons
inline bool isProbStrict(double p) { return p >= 0.0 && p <= 1.0; }
inline bool near(double a, double b, double tol = 1e-9) { return std::fabs(a - b) <= tol; }

template <class V> bool isDistribution(const V & v, size_t n, double tol = 1e-9) {
    if ((size_t)v.size() != n) return false;
    double sum = 0.0;
    for (size_t i = 0; i < n; ++i) { if (!isProb(v[i])) return false; sum += v[i]; }
    return near(sum, 1.0, tol);
}

// Q values in awkward but finite shapes. `exactTies`: values are multiples of 1/4 (equal or at least 0.25 apart), so that the
// set of greedy actions does not depend on the library's comparison tolerance.
inline AIToolbox::Vector awkwardQ(verif::Rng & rng, size_t A, int & shape) {
    AIToolbox::Vector q(A);
    shape = (int)rng.below(5);
    for (size_t a = 0; a < A; ++a) {
        switch (shape) {
            case 0: q[a] = 0.25 * (double)rng.range(-8, 8); break;                       // small, mixed signs, ties likely
            case 1: q[a] = 1.5; break;                                                     // all tied
            case 2: q[a] = std::ldexp((double)rng.range(-7, 7), 40 + (int)rng.below(20)); break; // large magnitudes, mixed signs
            case 3: q[a] = (rng.coin() ? 1.0 : -1.0) * 1e308; break;                       // q - max overflows to -inf
            default: q[a] = -0.25 * (double)rng.range(0, 12); break;                       // all non-positive
        }
    }
    return q;
}

// independent recomputation of the documented Boltzmann distribution (t > 0) / greedy distribution (t == 0, exact ties only)
inline std::vector<double> softmaxRef(const AIToolbox::Vector & q, double t) {
    const size_t A = (size_t)q.size();
    std::vector<double> p(A);
    double mx = q[0]; for (size_t a = 1; a < A; ++a) mx = std::max(mx, q[a]);
    double sum = 0.0;
    for (size_t a = 0; a < A; ++a) { p[a] = t > 0.0 ? std::exp((q[a] - mx) / t) : (q[a] == mx ? 1.0 : 0.0); sum += p[a]; }
    for (auto & x : p) x /= sum;
    return p;
}

inline double pickTemperature(verif::Rng & rng) {
    static const double ts[] = {0.0, 0.125, 0.5, 1.0, 3.0, 1024.0, 1e6, 0.001};
    return ts[rng.below(sizeof ts / sizeof ts[0])];
}

// -------------------------------------------------------------------------------------------------------------------- LRP
inline void lrp(verif::Rng & rng) {
    using namespace AIToolbox;
    Seeder::setRootSeed((unsigned)rng.next());
    // A == 1 is only meaningful for Linear Reward-Inaction (b == 0): the documented penalty update divides by |A| - 1
    const size_t A = (size_t)rng.range(1, 5);
    const double a0 = rng.dyadic(4);
    const double b0 = A == 1 ? 0.0 : (rng.coin() ? 0.0 : rng.dyadic(4));
    std::printf("#stat api_bandit_lrp_A%zu 1\n", A);
    Bandit::LRPPolicy p(A, a0, b0);
    bool getters = p.getAParam() == a0 && p.getBParam() == b0 && p.getA() == A;   // 1-(1-b) is exact for b = k/16
    bool probs = true, sampled = true, agree = true;
    auto check = [&] {
        const Vector pol = p.getPolicy();
        probs = probs && isDistribution(pol, A);
        double sum = 0.0;
        for (size_t a = 0; a < A; ++a) {
            const double pa = p.getActionProbability(a);
            probs = probs && isProb(pa); sum += pa;
            agree = agree && pa == pol[a];
        }
        probs = probs && near(sum, 1.0);
        sampled = sampled && p.sampleAction() < A;
    };
    check();                                                       // documented: uniform at construction
    for (size_t a = 0; a < A; ++a) probs = probs && near(p.getActionProbability(a), 1.0 / (double)A, 1e-12);
    const int steps = (int)rng.range(1, 40);
    for (int i = 0; i < steps; ++i) {
        if (rng.coin(1, 8)) {                                      // change the parameters mid-run
            const double a1 = rng.dyadic(4); p.setAParam(a1); getters = getters && p.getAParam() == a1;
            const double b1 = A == 1 ? 0.0 : rng.dyadic(4); p.setBParam(b1); getters = getters && p.getBParam() == b1;
        }
        const size_t act = rng.coin() ? p.sampleAction() : rng.below(A);
        sampled = sampled && act < A;
        p.stepUpdateP(act, rng.coin());
        check();
    }
    emit("LRPPolicy.setAParam_setBParam_getters_return_stored", getters);
    emit("LRPPolicy.getActionProbability_getPolicy_is_distribution", probs);
    emit("LRPPolicy.getActionProbability_equals_getPolicy_entry", agree);
    emit("LRPPolicy.sampleAction_below_A", sampled);
}

// ------------------------------------------------------------------------------------------------------------------- ESRL
inline void esrl(verif::Rng & rng) {
    using namespace AIToolbox;
    Seeder::setRootSeed((unsigned)rng.next());
    const size_t A = (size_t)rng.range(1, 4);
    const double a0 = rng.dyadic(4);
    const unsigned timesteps = (unsigned)rng.range(1, 6), phases = (unsigned)rng.range(0, 2 * (long)A + 1), window = (unsigned)rng.range(1, 5);
    std::printf("#stat api_bandit_esrl_A%zu_phases%u 1\n", A, phases);
    Bandit::ESRLPolicy p(A, a0, timesteps, phases, window);
    bool getters = p.getAParam() == a0 && p.getTimesteps() == timesteps && p.getExplorationPhases() == phases && p.getWindowSize() == window;
    bool probs = true, agree = true, sampled = true, exploitOk = true;
    auto check = [&] {
        const Vector pol = p.getPolicy();
        probs = probs && isDistribution(pol, A);
        for (size_t a = 0; a < A; ++a) { const double pa = p.getActionProbability(a); probs = probs && isProb(pa); agree = agree && pa == pol[a]; }
        const size_t s = p.sampleAction();
        sampled = sampled && s < A;
    };
    check();
    const int steps = (int)(timesteps * (phases + 1) + rng.below(6));
    for (int i = 0; i < steps; ++i) {
        if (rng.coin(1, 6)) { const double a1 = rng.dyadic(4); p.setAParam(a1); getters = getters && p.getAParam() == a1; }
        // normally the action the policy itself proposed; sometimes any action of the space (another agent's schedule)
        const size_t act = rng.coin(3, 4) ? p.sampleAction() : rng.below(A);
        p.stepUpdateP(act, rng.coin());
        check();
        if (p.isExploiting()) {                                      // documented: a point mass on the best action, further updates have no effect
            const Vector before = p.getPolicy();
            p.stepUpdateP(rng.below(A), rng.coin());
            const Vector after = p.getPolicy();
            size_t ones = 0; for (size_t a = 0; a < A; ++a) ones += before[a] == 1.0;
            exploitOk = exploitOk && ones == 1 && before == after && p.isExploiting() && p.getActionProbability(p.sampleAction()) == 1.0;
        }
    }
    emit("ESRLPolicy.setAParam_getAParam_return_stored", getters);
    emit("ESRLPolicy.getActionProbability_getPolicy_is_distribution", probs);
    emit("ESRLPolicy.getActionProbability_equals_getPolicy_entry", agree);
    emit("ESRLPolicy.sampleAction_below_A", sampled);
    emit("ESRLPolicy.exploiting_is_stable_point_mass", exploitOk);
}

// -------------------------------------------------------------------------------------------------- Bandit::QSoftmaxPolicy
inline void banditSoftmax(verif::Rng & rng) {
    using namespace AIToolbox;
    Seeder::setRootSeed((unsigned)rng.next());
    const size_t A = (size_t)rng.range(1, 5);
    int shape; Bandit::QFunction q = awkwardQ(rng, A, shape);
    const double t0 = pickTemperature(rng);
    std::printf("#stat api_bandit_qsoftmax_A%zu_shape%d 1\n", A, shape);
    Bandit::QSoftmaxPolicy p(q, t0);
    bool getters = p.getTemperature() == t0, probs = true, agree = true, ref = true, sampled = true, thrown = true;
    for (int round = 0; round < 3; ++round) {
        const double t = p.getTemperature();
        const Vector pol = p.getPolicy();
        probs = probs && isDistribution(pol, A);
        double sum = 0.0;
        for (size_t a = 0; a < A; ++a) { const double pa = p.getActionProbability(a); probs = probs && isProb(pa); sum += pa; agree = agree && near(pa, pol[a], 1e-12); }
        probs = probs && near(sum, 1.0);
        {   // every shape of awkwardQ has entries that are equal or far apart, so the greedy set at t == 0 is tolerance-free
            const auto r = softmaxRef(q, t);
            for (size_t a = 0; a < A; ++a) ref = ref && near(p.getActionProbability(a), r[a]);
        }
        for (int k = 0; k < 4; ++k) sampled = sampled && p.sampleAction() < A;
        // setter: valid value is stored; a negative one is documented to throw std::invalid_argument (and must leave the old value)
        const double t1 = pickTemperature(rng);
        p.setTemperature(t1); getters = getters && p.getTemperature() == t1;
        bool got = false;
        try { p.setTemperature(-std::ldexp(1.0, -(int)rng.below(60))); } catch (const std::invalid_argument &) { got = true; }
        thrown = thrown && got && p.getTemperature() == t1;
        if (rng.coin()) q[rng.below(A)] = 0.25 * (double)rng.range(-8, 8);   // the policy holds a reference: the QFunction may change underneath
    }
    bool ctorThrows = false;
    try { Bandit::QSoftmaxPolicy bad(q, -0.5); } catch (const std::invalid_argument &) { ctorThrows = true; }
    emit("Bandit.QSoftmaxPolicy.setTemperature_getTemperature_return_stored", getters);
    emit("Bandit.QSoftmaxPolicy.getActionProbability_getPolicy_is_distribution", probs);
    emit("Bandit.QSoftmaxPolicy.getActionProbability_equals_getPolicy_entry", agree);
    emit("Bandit.QSoftmaxPolicy.getActionProbability_equals_boltzmann_recomputation", ref);
    emit("Bandit.QSoftmaxPolicy.sampleAction_below_A", sampled);
    emit("Bandit.QSoftmaxPolicy.negative_temperature_throws_invalid_argument", thrown && ctorThrows);
}

// ----------------------------------------------------------------------------------------------------- MDP::QSoftmaxPolicy
inline void mdpSoftmax(verif::Rng & rng) {
    using namespace AIToolbox;
    Seeder::setRootSeed((unsigned)rng.next());
    const size_t S = (size_t)rng.range(1, 4), A = (size_t)rng.range(1, 4);
    MDP::QFunction q(S, A);
    std::vector<int> shapes(S);
    for (size_t s = 0; s < S; ++s) q.row(s) = awkwardQ(rng, A, shapes[s]);
    std::printf("#stat api_mdp_qsoftmax_S%zu_A%zu 1\n", S, A);
    const double t0 = pickTemperature(rng);
    MDP::QSoftmaxPolicy p(q, t0);
    bool getters = p.getTemperature() == t0, probs = true, agree = true, ref = true, sampled = true, thrown = true;
    for (int round = 0; round < 2; ++round) {
        const double t = p.getTemperature();
        const Matrix2D pol = p.getPolicy();
        probs = probs && (size_t)pol.rows() == S && (size_t)pol.cols() == A;
        for (size_t s = 0; s < S && probs; ++s) {
            const Vector row = pol.row(s);
            probs = probs && isDistribution(row, A);
            const Vector qs = q.row(s);
            const auto r = softmaxRef(qs, t);
            double sum = 0.0;
            for (size_t a = 0; a < A; ++a) {
                const double pa = p.getActionProbability(s, a);
                probs = probs && isProb(pa); sum += pa;
                agree = agree && near(pa, row[a], 1e-12);
                ref = ref && near(pa, r[a]);
            }
            probs = probs && near(sum, 1.0);
            sampled = sampled && p.sampleAction(s) < A;
        }
        const double t1 = pickTemperature(rng);
        p.setTemperature(t1); getters = getters && p.getTemperature() == t1;
        bool got = false;
        try { p.setTemperature(-0.25 * (double)rng.range(1, 8)); } catch (const std::invalid_argument &) { got = true; }
        thrown = thrown && got && p.getTemperature() == t1;
    }
    emit("MDP.QSoftmaxPolicy.setTemperature_getTemperature_return_stored", getters);
    emit("MDP.QSoftmaxPolicy.getActionProbability_getPolicy_rows_are_distributions", probs);
    emit("MDP.QSoftmaxPolicy.getActionProbability_equals_getPolicy_entry", agree);
    emit("MDP.QSoftmaxPolicy.getActionProbability_equals_boltzmann_recomputation", ref);
    emit("MDP.QSoftmaxPolicy.sampleAction_below_A", sampled);
    emit("MDP.QSoftmaxPolicy.negative_temperature_throws_invalid_argument", thrown);
}

// ------------------------------------------------------------------------------- QGreedyPolicyWrapper / QSoftmaxPolicyWrapper
// The wrappers are documented to work on a reference to the values, a buffer of the same size (asserted) and a random engine.
template <class W> bool wrapperGreedyOk(W & w, const AIToolbox::Vector & q, size_t A) {
    bool ok = true;
    const auto r = softmaxRef(q, 0.0);                              // 1/#maxima on the maxima (quarter grid: exact ties only)
    AIToolbox::Vector pol(A); pol.setConstant(-7.0);
    w.getPolicy(pol);
    ok = ok && isDistribution(pol, A);
    for (size_t a = 0; a < A; ++a) ok = ok && near(w.getActionProbability(a), r[a], 1e-12) && near(pol[a], r[a], 1e-12);
    for (int k = 0; k < 4; ++k) { const size_t s = w.sampleAction(); ok = ok && s < A && r[s] > 0.0; }   // documented: the greediest action
    return ok;
}
template <class W> bool wrapperSoftmaxOk(W & w, const AIToolbox::Vector & q, double t, size_t A) {
    bool ok = true;
    const auto r = softmaxRef(q, t);
    AIToolbox::Vector pol(A); pol.setConstant(-7.0);
    w.getPolicy(pol);
    ok = ok && isDistribution(pol, A);
    for (size_t a = 0; a < A; ++a) ok = ok && near(w.getActionProbability(a), r[a]) && near(pol[a], r[a]);
    for (int k = 0; k < 4; ++k) ok = ok && w.sampleAction() < A;
    return ok;
}

inline void wrappers(verif::Rng & rng) {
    using namespace AIToolbox;
    const size_t A = (size_t)rng.range(1, 6);
    Vector q(A);
    const bool tied = rng.coin(1, 4);
    for (size_t a = 0; a < A; ++a) q[a] = tied ? -2.5 : 0.25 * (double)rng.range(-8, 8);
    std::printf("#stat api_bandit_wrappers_A%zu 1\n", A);
    RandomEngine gen((unsigned)rng.next());
    std::vector<size_t> buffer(A); buffer.shrink_to_fit();          // exact capacity: a write past the number of actions is visible to ASan
    bool greedy = true, soft = true;
    {   // reference flavour (the deduction guide stores a const reference)
        Bandit::QGreedyPolicyWrapper w(q, buffer, gen);
        greedy = greedy && wrapperGreedyOk(w, q, A);
    }
    {   // temporary flavour (the deduction guide stores a copy)
        Bandit::QGreedyPolicyWrapper w(Vector(q), buffer, gen);
        greedy = greedy && wrapperGreedyOk(w, q, A);
    }
    Matrix2D m(2, A); m.row(0) = q; m.row(1) = -q;
    {   // row-of-a-matrix flavour (what MDP::QGreedyPolicy passes), writing the policy into a matrix row
        Bandit::QGreedyPolicyWrapper w(m.row(1), buffer, gen);
        const Vector mq = -q;
        greedy = greedy && wrapperGreedyOk(w, mq, A);
        Matrix2D out(2, A); out.setConstant(-7.0);
        w.getPolicy(out.row(0));
        const Vector o = out.row(0);
        greedy = greedy && isDistribution(o, A) && out(1, 0) == -7.0;
    }
    const double t = pickTemperature(rng);
    Vector vbuf(rng.coin() ? A : 0);                                 // value buffer: documented as scratch space, it is (re)assigned by the wrapper
    {
        Bandit::QSoftmaxPolicyWrapper w(t, q, vbuf, buffer, gen);
        soft = soft && wrapperSoftmaxOk(w, q, t, A);
    }
    {
        Bandit::QSoftmaxPolicyWrapper w(t, Vector(q), vbuf, buffer, gen);
        soft = soft && wrapperSoftmaxOk(w, q, t, A);
    }
    {
        Bandit::QSoftmaxPolicyWrapper w(t, m.row(1), vbuf, buffer, gen);
        const Vector mq = -q;
        soft = soft && wrapperSoftmaxOk(w, mq, t, A);
        Matrix2D out(2, A); out.setConstant(-7.0);
        w.getPolicy(out.row(1));
        const Vector o = out.row(1);
        soft = soft && isDistribution(o, A) && out(0, 0) == -7.0;
    }
    emit("QGreedyPolicyWrapper.ctor_sampleAction_getActionProbability_getPolicy_uniform_on_maxima", greedy);
    emit("QSoftmaxPolicyWrapper.ctor_sampleAction_getActionProbability_getPolicy_equal_boltzmann_recomputation", soft);
}

// ------------------------------------------------------------------------------------------------ SuccessiveRejectsPolicy
inline void successiveRejects(verif::Rng & rng) {
    using namespace AIToolbox;
    Seeder::setRootSeed((unsigned)rng.next());
    const size_t A = (size_t)rng.range(1, 5);
    // the budget covers at least one pull per arm (the algorithm's n >= K)
    const unsigned budget = (unsigned)(A + (rng.coin(1, 4) ? rng.below(3) : rng.below(40)));
    std::printf("#stat api_bandit_sr_A%zu 1\n", A);
    Bandit::Experience exp(A);
    Bandit::SuccessiveRejectsPolicy p(exp, budget);
    bool probs = true, sampled = true, recommend = true;
    std::vector<double> mean(A); for (auto & x : mean) x = 0.25 * (double)rng.range(-8, 8);
    if (A == 1) recommend = recommend && p.canRecommendAction();    // a single arm is a pool of one from the start
    const size_t steps = budget + 2 * A * A;                        // the SR schedule uses at most `budget` pulls (+ one per arm and phase whose share rounds to 0)
    for (size_t i = 0; i < steps; ++i) {
        const size_t a = p.sampleAction();
        sampled = sampled && a < A;
        if (a >= A) break;
        const Vector pol = p.getPolicy();
        probs = probs && isDistribution(pol, A) && pol[a] == 1.0;   // documented: 1.0 or 0.0 depending on which action is scheduled
        for (size_t b = 0; b < A; ++b) probs = probs && p.getActionProbability(b) == (b == a ? 1.0 : 0.0);
        if (p.canRecommendAction()) {
            const size_t r = p.recommendAction();
            recommend = recommend && r < A && r == a;                // the single remaining arm is both scheduled and recommended
        }
        exp.record(a, mean[a] + 0.25 * (double)rng.range(-2, 2));
        p.stepUpdateQ();                                             // documented: once per timestep after the Experience was updated
    }
    const bool ended = p.canRecommendAction();
    if (ended) recommend = recommend && p.recommendAction() < A;
    emit("SuccessiveRejectsPolicy.getActionProbability_getPolicy_point_mass_on_scheduled_arm", probs);
    emit("SuccessiveRejectsPolicy.sampleAction_below_A", sampled);
    emit("SuccessiveRejectsPolicy.recommendAction_is_remaining_arm", recommend);
    emit("SuccessiveRejectsPolicy.canRecommendAction_after_budget_exhausted", ended);
}

// ----------------------------------------------------------------------- ThompsonSampling / TopTwoThompsonSampling / T3C
// Experience shapes: 0 = nothing visited, 1 = some arms unvisited, 2 = an arm with exactly one visit, 3 = every arm visited often.
inline void fillExperience(verif::Rng & rng, AIToolbox::Bandit::Experience & exp, int shape) {
    const size_t A = exp.getA();
    const size_t special = rng.below(A);
    for (size_t a = 0; a < A; ++a) {
        unsigned n;
        if (shape == 0) n = 0;
        else if (shape == 1) n = (a == special) ? 0 : (unsigned)rng.range(0, 6);
        else if (shape == 2) n = (a == special) ? 1 : (unsigned)rng.range(2, 6);
        else n = (unsigned)rng.range(3, 8);
        // every arm draws from the same reward grid and sees at least two different values once it has >= 2 pulls: the
        // posteriors overlap, as the (normal, unknown variance) model of the three classes assumes
        for (unsigned k = 0; k < n; ++k) exp.record(a, 0.25 * (double)((k % 2 ? 1 : -1) * (long)rng.range(1, 6)));
    }
}

// `full`: also call getPolicy() (100000 internal samples) when every arm has >= 2 pulls; otherwise only where it is cheap
inline void thompsonFamily(verif::Rng & rng, int which, bool full) {
    using namespace AIToolbox;
    Seeder::setRootSeed((unsigned)rng.next());
    const int shape = full ? 3 : (int)rng.below(4);
    // top-two needs a second arm to exist once every arm is informative (it resamples until a different arm comes up)
    const size_t A = (size_t)rng.range((which == 1 && shape == 3) ? 2 : 1, full ? 2 : 4);
    Bandit::Experience exp(A);
    fillExperience(rng, exp, shape);
    bool allInformative = true; for (auto c : exp.getVisitsTable()) allInformative = allInformative && c >= 2;
    const bool doPolicy = full || !allInformative;                   // with an arm below two pulls sampling is immediate
    std::printf("#stat api_bandit_thompson%d_shape%d_A%zu 1\n", which, shape, A);
    static const double betas[] = {0.0, 0.25, 0.5, 0.875, 1.0};
    // beta == 0 makes top-two resample on every draw; keep that for the cheap shapes
    const double beta = betas[(allInformative && which == 1) ? 1 + rng.below(4) : rng.below(5)];
    bool probs = true, sampled = true, expRef = true, policy = true, recommend = true;
    auto run = [&](auto & p) {
        // qualified calls: through the reference the virtual members would be dispatched dynamically and leave no symbol reference
        using P = std::decay_t<decltype(p)>;
        expRef = expRef && &p.P::getExperience() == &exp && p.getA() == A;
        for (int k = 0; k < 8; ++k) sampled = sampled && p.P::sampleAction() < A;
        const size_t na = allInformative ? 1 : A;                    // 1000 internal samples per call
        for (size_t i = 0; i < na; ++i) { const size_t a = allInformative ? rng.below(A) : i; probs = probs && isProbStrict(p.P::getActionProbability(a)); }
        if (doPolicy) { const Vector pol = p.P::getPolicy(); policy = policy && isDistribution(pol, A); }
    };
    if (which == 0) {
        Bandit::ThompsonSamplingPolicy p(exp); run(p);
        emit("Bandit.ThompsonSamplingPolicy.getActionProbability_in_unit_interval", probs);
        emit("Bandit.ThompsonSamplingPolicy.getPolicy_is_distribution", policy);
        emit("Bandit.ThompsonSamplingPolicy.sampleAction_below_A", sampled);
        emit("Bandit.ThompsonSamplingPolicy.getExperience_is_the_constructor_argument", expRef);
    } else if (which == 1) {
        Bandit::TopTwoThompsonSamplingPolicy p(exp, beta); run(p);
        recommend = p.recommendAction() < A;
        emit("TopTwoThompsonSamplingPolicy.getActionProbability_in_unit_interval", probs);
        emit("TopTwoThompsonSamplingPolicy.getPolicy_is_distribution", policy);
        emit("TopTwoThompsonSamplingPolicy.sampleAction_recommendAction_below_A", sampled && recommend);
        emit("TopTwoThompsonSamplingPolicy.getExperience_is_the_constructor_argument", expRef);
    } else {
        const double var = std::ldexp(1.0, (int)rng.range(-6, 6));
        Bandit::T3CPolicy p(exp, beta, var); run(p);
        recommend = p.recommendAction() < A;
        emit("T3CPolicy.getActionProbability_in_unit_interval", probs);
        emit("T3CPolicy.getPolicy_is_distribution", policy);
        emit("T3CPolicy.sampleAction_recommendAction_below_A", sampled && recommend);
        emit("T3CPolicy.getExperience_is_the_constructor_argument", expRef);
    }
}

#ifdef C10_API_BANDIT_TOPTWO_HANG_WITNESS
// NOT part of the sweep (it never returns): two arms, each pulled twice with a constant reward (M2 == 0), beta == 0.
// ThompsonSamplingPolicy::sampleAction() is then deterministic, and TopTwoThompsonSamplingPolicy::sampleAction() loops in
// `do { second = policy_.sampleAction(); } while (best == second);` (src/Bandit/Policies/TopTwoThompsonSamplingPolicy.cpp:21-23).
inline void topTwoHangWitness() {
    AIToolbox::Bandit::Experience exp(2);
    exp.record(0, 1.0); exp.record(0, 1.0); exp.record(1, 0.0); exp.record(1, 0.0);
    AIToolbox::Bandit::TopTwoThompsonSamplingPolicy p(exp, 0.0);
    emit("TopTwoThompsonSamplingPolicy.sampleAction_returns_with_constant_rewards", p.sampleAction() < 2);
}
#endif

// --------------------------------------------------------------------------------------- EpsilonPolicyInterface::setEpsilon
inline void epsilon(verif::Rng & rng) {
    using namespace AIToolbox;
    Seeder::setRootSeed((unsigned)rng.next());
    const size_t S = (size_t)rng.range(1, 3), A = (size_t)rng.range(1, 4);
    std::printf("#stat api_epsilon_S%zu_A%zu 1\n", S, A);
    static const double bad[] = {-0.5, -1e-300, 1.0000000000000002, 2.0, 1e300};
    bool getters = true, thrown = true, probs = true, sampled = true;
    {   // generic template <State, Sampling, Action>, through MDP::EpsilonPolicy
        MDP::QFunction q(S, A);
        for (size_t s = 0; s < S; ++s) for (size_t a = 0; a < A; ++a) q(s, a) = 0.25 * (double)rng.range(-8, 8);
        MDP::QGreedyPolicy g(q);
        MDP::EpsilonPolicy p(g, rng.dyadic(3));
        for (int round = 0; round < 3; ++round) {
            const double e = round == 0 ? (rng.coin() ? 0.0 : 1.0) : rng.dyadic(4);
            p.setEpsilon(e); getters = getters && p.getEpsilon() == e;
            bool got = false;
            try { p.setEpsilon(bad[rng.below(5)]); } catch (const std::invalid_argument &) { got = true; }
            thrown = thrown && got && p.getEpsilon() == e;
            for (size_t s = 0; s < S; ++s) {
                double sum = 0.0;
                for (size_t a = 0; a < A; ++a) { const double pa = p.getActionProbability(s, a); probs = probs && isProb(pa); sum += pa; }
                probs = probs && near(sum, 1.0);
                sampled = sampled && p.sampleAction(s) < A;
            }
        }
    }
    {   // specialisation <void, void, Action>, through Bandit::EpsilonPolicy
        Bandit::QFunction q(A);
        for (size_t a = 0; a < A; ++a) q[a] = 0.25 * (double)rng.range(-8, 8);
        Bandit::QGreedyPolicy g(q);
        Bandit::EpsilonPolicy p(g, rng.dyadic(3));
        for (int round = 0; round < 3; ++round) {
            const double e = round == 0 ? (rng.coin() ? 0.0 : 1.0) : rng.dyadic(4);
            p.setEpsilon(e); getters = getters && p.getEpsilon() == e;
            bool got = false;
            try { p.setEpsilon(bad[rng.below(5)]); } catch (const std::invalid_argument &) { got = true; }
            thrown = thrown && got && p.getEpsilon() == e;
            double sum = 0.0;
            for (size_t a = 0; a < A; ++a) { const double pa = p.getActionProbability(a); probs = probs && isProb(pa); sum += pa; }
            probs = probs && near(sum, 1.0) && isDistribution(p.getPolicy(), A);
            sampled = sampled && p.sampleAction() < A;
        }
    }
    emit("EpsilonPolicyInterface.setEpsilon_getEpsilon_return_stored", getters);
    emit("EpsilonPolicyInterface.setEpsilon_out_of_range_throws_invalid_argument", thrown);
    emit("EpsilonPolicyInterface.getActionProbability_is_distribution_after_setEpsilon", probs);
    emit("EpsilonPolicyInterface.sampleAction_below_A_after_setEpsilon", sampled);
}

// ---------------------------------------------------------------------------------------------------------- PGAAPPPolicy
inline void pgaapp(verif::Rng & rng) {
    using namespace AIToolbox;
    Seeder::setRootSeed((unsigned)rng.next());
    const size_t S = (size_t)rng.range(1, 3), A = (size_t)rng.range(1, 4);
    std::printf("#stat api_mdp_pgaapp_S%zu_A%zu 1\n", S, A);
    MDP::QFunction q(S, A);
    for (size_t s = 0; s < S; ++s) for (size_t a = 0; a < A; ++a) q(s, a) = 0.25 * (double)rng.range(-8, 8);
    MDP::PGAAPPPolicy p(q);
    bool getters = p.getLearningRate() == 0.001 && p.getPredictionLength() == 3.0;   // documented defaults
    bool probs = true, sampled = true, rejected = true;
    static const double lrs[] = {0.0, 0.001, 0.125, 1.0, 8.0};
    static const double pls[] = {0.0, 0.5, 3.0, 64.0};
    for (int round = 0; round < 6; ++round) {
        const double lr = lrs[rng.below(5)], pl = pls[rng.below(4)];
        p.setLearningRate(lr); p.setPredictionLength(pl);
        getters = getters && p.getLearningRate() == lr && p.getPredictionLength() == pl;
        // "must be >= 0.0" (no exception is documented): if a negative value is refused with std::invalid_argument, the old one stays
        try { p.setLearningRate(-0.5); p.setLearningRate(lr); }
        catch (const std::invalid_argument &) { rejected = rejected && p.getLearningRate() == lr; }
        try { p.setPredictionLength(-2.0); p.setPredictionLength(pl); }
        catch (const std::invalid_argument &) { rejected = rejected && p.getPredictionLength() == pl; }
        const size_t s = rng.below(S);
        q(s, rng.below(A)) = 0.25 * (double)rng.range(-8, 8);       // documented: the QFunction changed for s, then stepUpdateP(s)
        p.stepUpdateP(s);
        const Matrix2D pol = p.getPolicy();
        for (size_t t = 0; t < S; ++t) {
            const Vector row = pol.row(t);
            // PGA-APP renormalises with projectToProbability(), which by design leaves a row alone when its sum is within the
            // library's probability tolerance (equalToleranceSmall = 1e-6, the one isProbability() uses): rows sum to 1 within that
            probs = probs && isDistribution(row, A, 1e-6 + 1e-12);
            for (size_t a = 0; a < A; ++a) probs = probs && p.getActionProbability(t, a) == row[a];
            sampled = sampled && p.sampleAction(t) < A;
        }
    }
    emit("PGAAPPPolicy.setLearningRate_setPredictionLength_getters_return_stored", getters);
    emit("PGAAPPPolicy.refused_negative_parameter_leaves_value", rejected);
    emit("PGAAPPPolicy.policy_rows_are_distributions_after_setters_and_update", probs);
    emit("PGAAPPPolicy.sampleAction_below_A", sampled);
}

} // namespace bandit_detail

inline void api_bandit(verif::Rng & rng, long idx) {
    using namespace bandit_detail;
    switch (idx % 12) {
        case 0:  lrp(rng); break;
        case 1:  esrl(rng); break;
        case 2:  banditSoftmax(rng); break;
        case 3:  mdpSoftmax(rng); break;
        case 4:  wrappers(rng); break;
        case 5:  successiveRejects(rng); break;
        case 6:  thompsonFamily(rng, 0, (idx / 12) % 4 == 3); break;
        case 7:  thompsonFamily(rng, 1, (idx / 12) % 4 == 3); break;
        case 8:  thompsonFamily(rng, 2, (idx / 12) % 4 == 3); break;
        case 9:  epsilon(rng); break;
        case 10: pgaapp(rng); break;
        default: (rng.coin() ? lrp(rng) : successiveRejects(rng)); break;
    }
}

} // namespace c10api
