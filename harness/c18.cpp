// C18 — Cassandra-format files parse to the model they define, or are rejected.
// Correspondence harness: grammar-directed generation of files over every line form of the supported
// subset (entry / row inline / row next-line / matrix, `*`, names and numbers, layouts), targeted
// must-reject mutants, and a generic mutation stream.  Each case feeds the text to the REAL
// CassandraParser (parseMDP / parsePOMDP) and to MDP::/POMDP::parseCassandra and prints
//   C18 parse <mdp|pomdp> <hex text> <expectation> | <parser outcome> <constructor outcome>
// The Lean driver runs the operational model on the same text (diff) and evaluates the property's clauses
// on the implementation's own output (fail): tables equal to the specification semantics of the generated
// statements, must-reject classes rejected, accepted models valid.  ASan/UBSan cover the memory clause.
#include "common/verif.hpp"
#include <AIToolbox/Tools/CassandraParser.hpp>
#include <AIToolbox/MDP/Model.hpp>
#include <AIToolbox/MDP/IO.hpp>
#include <AIToolbox/POMDP/Model.hpp>
#include <AIToolbox/POMDP/IO.hpp>
#include <sstream>
#include <algorithm>

using namespace verif;
namespace {

std::string hex(const std::string & s) {
    static const char * d = "0123456789abcdef";
    std::string o; o.reserve(2 * s.size() + 1);
    for (unsigned char c : s) { o.push_back(d[c >> 4]); o.push_back(d[c & 15]); }
    return o.empty() ? "-" : o;
}

// ------------------------------------------------------------------ AST of a generated file
struct Sel { bool all = false; size_t i = 0; };
struct Val { std::string txt; double v; std::string exact = ""; };   // exact: the rational the generator meant ("n/d"), when it knows it without parsing
struct Stmt {
    char tbl = 'T';          // T, R, O
    Sel a, d1, d3;
    int form = 0;            // 0 entry, 1 row inline, 2 row next-line, 3 matrix
    Val v;                   // entry
    std::vector<Val> vs;     // row
    std::vector<std::vector<Val>> rows; // matrix
};
struct File {
    bool pomdp = false;
    size_t S = 2, A = 1, O = 0;
    std::vector<std::string> sn, an, on;   // names (empty = numeric declaration)
    bool declareO = false;                 // mdp files may carry an observations line
    Val disc{"1.0", 1.0};
    bool hasDisc = false;
    std::vector<Stmt> stmts;
};

// targeted mutation applied while rendering
struct Mut { std::string cls = ""; long target = -1; int arg = 0; bool decoy = true; };

Val mkVal(const std::string & t) { return Val{t, std::strtod(t.c_str(), nullptr), ""}; }

// exact decimal text of k/16 in assorted spellings
Val dyadic16(Rng & r, long k) {
    char buf[64];
    double x = (double)k / 16.0;
    int style = (int)r.below(8);
    std::snprintf(buf, sizeof buf, "%.4f", x);
    std::string s = buf;
    if (style >= 2) { while (s.back() == '0') s.pop_back(); if (s.back() == '.') { if (style == 2) s += "0"; else s.pop_back(); } }
    if (style == 4 && s.size() > 1 && s[0] == '0' && s[1] == '.') s = s.substr(1);
    if (style == 5 && k >= 0) s = "+" + s;
    if (style == 6) s += "e0";
    if (style == 7 && k >= 0 && r.coin(1, 3)) { std::snprintf(buf, sizeof buf, r.coin() ? "0x%lxp-4" : "0X%lX.0P-4", (unsigned long)k); s = buf; }  // hexadecimal float, exact
    if (s.empty() || s == "+" || s == "-") s = "0";
    Val out = mkVal(s); out.exact = std::to_string(k) + "/16";
    return out;
}

std::vector<Val> dist(Rng & r, size_t n, bool ugly) {
    std::vector<Val> out;
    if (ugly && n >= 2) {
        // decimal, non-dyadic distributions that sum to 1 within the library tolerance
        static const std::vector<std::vector<const char*>> U2 = {{"0.1","0.9"},{"0.3","0.7"},{"0.85","0.15"},{"0.999999","0.000001"},{"1e-1","9e-1"}};
        static const std::vector<std::vector<const char*>> U3 = {{"0.1","0.2","0.7"},{"0.3","0.3","0.4"},{"0.445","0.222","0.333"},{"0.6","0.3","0.1"}};
        static const std::vector<std::vector<const char*>> U4 = {{"0.1","0.2","0.3","0.4"},{"0.7","0.1","0.1","0.1"},{"0.25","0.35","0.15","0.25"}};
        const auto & U = n == 2 ? U2 : n == 3 ? U3 : U4;
        if (n <= 4) { auto p = U[r.below(U.size())]; std::vector<const char*> q(p); for (size_t i = q.size(); i > 1; --i) std::swap(q[i-1], q[r.below(i)]); for (auto t : q) out.push_back(mkVal(t)); return out; }
    }
    std::vector<long> k(n, 0);
    long left = 16;
    if (r.coin(1, 3)) k[r.below(n)] = 16;                       // deterministic row
    else { for (size_t i = 0; i + 1 < n; ++i) { k[i] = (long)r.below((uint64_t)left + 1); left -= k[i]; } k[n-1] = left;
           for (size_t i = n; i > 1; --i) std::swap(k[i-1], k[r.below(i)]); }
    for (auto x : k) out.push_back(dyadic16(r, x));
    return out;
}

std::vector<Val> anyrow(Rng & r, size_t n) {
    std::vector<Val> out;
    for (size_t i = 0; i < n; ++i) out.push_back(dyadic16(r, r.range(-4, 20)));
    return out;
}

Val reward(Rng & r) {
    static const std::vector<const char*> ugly = {"-1.0", "5.2", "0.1", "-0.3", "1e1", "-2.5e0", "100", "-7", "3.75", "0", "-0.0", "12.125"};
    if (r.coin(1, 3)) return mkVal(r.pick(ugly));
    long n4 = r.range(-40, 40);
    char buf[32]; std::snprintf(buf, sizeof buf, "%.2f", (double)n4 / 4.0);
    Val out = mkVal(buf); out.exact = std::to_string(n4) + "/4";
    return out;
}

Sel selOf(Rng & r, size_t n, unsigned starNum = 1, unsigned starDen = 4) {
    Sel s; if (r.coin(starNum, starDen)) s.all = true; else s.i = r.below(n); return s;
}

std::vector<std::string> mkNames(Rng & r, size_t n, const char * stem) {
    static const std::vector<const char*> words = {"left","right","listen","open","good","bad","north","south","east","west","hungry","full","x","y","z","w","up","down","stay","go"};
    std::vector<std::string> out;
    int style = (int)r.below(n >= 2 ? 6 : 3);
    std::printf("#stat name_style%d 1\n", style);
    for (size_t i = 0; i < n; ++i) {
        std::string nm;
        // 3: names that are numbers, permuted (the name `1` is index 0 …): the name table must be consulted BEFORE the number reading
        // 4: names that start with digits (`1st`): a number-first resolution would read the digit prefix
        // 5: names that are proper prefixes of each other (`s`, `ss`, `sss`) and of keywords / table letters
        if (style == 3) nm = std::to_string((i + 1) % n);
        else if (style == 4) nm = std::to_string((i * 7 + 3) % 10) + (i % 2 ? "th" : "st") + std::string(i / 2, 'x');
        else if (style == 5) nm = (stem[0] == 's' ? std::string("T") : stem[0] == 'a' ? std::string("O") : std::string("R")) + std::string(i, 's');
        else if (style == 0) nm = std::string(stem) + std::to_string(i);
        else if (style == 1) nm = std::string(1, (char)('a' + i)) + (r.coin() ? "-" : "_") + stem;
        else nm = std::string(words[(r.below(4) * 5 + i) % words.size()]) + std::to_string(i * 7 % 10);
        out.push_back(nm);
    }
    return out;
}

File genFile(Rng & r, bool valid, bool ugly) {
    File f;
    f.pomdp = r.coin();
    f.S = 1 + r.below(4); f.A = 1 + r.below(3); f.O = f.pomdp ? 1 + r.below(3) : 0;
    if (r.coin(2, 5)) f.sn = mkNames(r, f.S, "s");
    if (r.coin(2, 5)) f.an = mkNames(r, f.A, "act");
    if (f.pomdp && r.coin(2, 5)) f.on = mkNames(r, f.O, "ob");
    if (!f.pomdp && r.coin(1, 6)) { f.declareO = true; f.O = 1 + r.below(3); }
    static const std::vector<const char*> ds = {"0.5", "0.75", "0.875", "1.0", "1", "0.95", "0.9", ".99", "9.5e-1", "0.999"};
    if (r.coin(3, 4)) { f.hasDisc = true; f.disc = mkVal(r.pick(ds)); }

    auto fill = [&](char tbl, size_t D1, size_t D3) {
        auto row = [&]() { return valid ? dist(r, D3, ugly && r.coin()) : anyrow(r, D3); };
        // base definition: per action (or one wildcard statement group)
        bool starA = r.coin(1, 4);
        for (size_t a = 0; a < (starA ? 1 : f.A); ++a) {
            Sel sa; sa.all = starA; sa.i = a;
            int how = (int)r.below(5);
            if (how == 0) {                       // matrix
                Stmt s; s.tbl = tbl; s.a = sa; s.form = 3;
                for (size_t d = 0; d < D1; ++d) s.rows.push_back(row());
                f.stmts.push_back(s);
            } else if (how == 1 || how == 2) {    // rows
                bool starD = r.coin(1, 4);
                for (size_t d = 0; d < (starD ? 1 : D1); ++d) {
                    Stmt s; s.tbl = tbl; s.a = sa; s.d1.all = starD; s.d1.i = d; s.form = how; s.vs = row();
                    f.stmts.push_back(s);
                }
            } else if (how == 3) {                // entries, cell by cell
                for (size_t d = 0; d < D1; ++d) {
                    auto v = row();
                    for (size_t e = 0; e < D3; ++e) {
                        if (valid && v[e].v == 0.0 && r.coin()) continue;   // zero entries may be left out
                        Stmt s; s.tbl = tbl; s.a = sa; s.d1.i = d; s.d3.i = e; s.form = 0; s.v = v[e];
                        f.stmts.push_back(s);
                    }
                }
            } else {                              // wildcard entry: everything goes to one column
                Stmt s; s.tbl = tbl; s.a = sa; s.d1.all = true; s.d3.i = r.below(D3); s.form = 0; s.v = mkVal(r.coin() ? "1.0" : "1");
                f.stmts.push_back(s);
            }
        }
        // overrides
        size_t k = r.below(4);
        for (size_t j = 0; j < k; ++j) {
            Stmt s; s.tbl = tbl; s.a = selOf(r, f.A); s.d1 = selOf(r, D1);
            int how = (int)r.below(valid ? 3 : 4);
            if (how == 0) { s.form = 3; s.d1 = Sel{}; for (size_t d = 0; d < D1; ++d) s.rows.push_back(row()); }
            else if (how <= 2) { s.form = how; s.vs = row(); }
            else { s.form = 0; s.d3 = selOf(r, D3); s.v = dyadic16(r, r.range(0, 16)); }
            f.stmts.push_back(s);
        }
    };
    fill('T', f.S, f.S);
    if (f.pomdp) fill('O', f.S, f.O);
    size_t nr = r.below(5);
    for (size_t j = 0; j < nr; ++j) {
        Stmt s; s.tbl = 'R'; s.form = 0; s.a = selOf(r, f.A, 1, 3); s.d1 = selOf(r, f.S, 1, 3); s.d3 = selOf(r, f.S, 1, 2); s.v = reward(r);
        f.stmts.push_back(s);
    }
    if (r.coin(1, 5)) for (size_t i = f.stmts.size(); i > 1; --i) std::swap(f.stmts[i-1], f.stmts[r.below(i)]);
    return f;
}

// ------------------------------------------------------------------ rendering
struct Renderer {
    Rng & r; const File & f; Mut mut; bool plain;
    std::vector<std::string> lines;
    bool idxMut() const { return mut.cls == "unknown_name" || mut.cls == "index_out_of_range" || (mut.cls == "trailing_garbage" && mut.arg % 2 == 0); }
    std::string sp(int lo = 1) { if (plain) return " "; if (r.coin(1, 30)) return r.coin() ? "\t " : " \t"; return std::string((size_t)(lo + (r.coin(1, 4) ? r.below(3) : 0)), ' '); }
    // a tab glued to a token ends up at the edge of that token and is trimmed away; a tab between two delimiters would be an (empty) token of its own
    std::string col() { if (plain) return " : "; switch (r.below(24)) { case 0: case 1: case 2: case 3: return ":"; case 4: case 5: case 6: case 7: return ": "; case 8: case 9: case 10: case 11: return " :";
                                                  case 12: case 13: case 14: return "  :  "; case 15: return ":\t"; case 16: return "\t:"; default: return " : "; } }
    std::string idx(const Sel & s, const std::vector<std::string> & names, size_t max, bool mutHere) {
        if (mutHere && mut.cls == "unknown_name") { static const char * u[] = {"zz9", "nosuch", "Q", "s99x", "star", "stale0", "stale0"}; return u[mut.arg % 7]; }
        if (mutHere && mut.cls == "index_out_of_range") return std::to_string(max + (size_t)(mut.arg % 2));
        if (mutHere && mut.cls == "trailing_garbage") { static const char * g[] = {"x", "abc", ".5", "e", "\t1"}; return (s.all ? std::string("0") : std::to_string(s.i)) + g[mut.arg / 7 % 5]; }
        if (s.all) return "*";
        // a name that looks like a number shadows that number: then the index must be written by name
        if (!names.empty() && std::find(names.begin(), names.end(), std::to_string(s.i)) != names.end()) return names[s.i];
        if (!names.empty() && r.coin(2, 3)) return names[s.i];
        return std::to_string(s.i);
    }
    std::string vec(const std::vector<Val> & v, int delta, bool garbage = false) {
        std::string o; std::vector<Val> w = v;
        if (garbage) { static const char * g[] = {"x", "abc", "\t0.5", ",", ";"}; w[r.below(w.size())].txt += g[mut.arg / 7 % 5]; }
        if (delta > 0) w.push_back(v[r.below(v.size())]);
        if (delta < 0 && w.size() > 1) w.pop_back();
        for (size_t i = 0; i < w.size(); ++i) { if (i) o += sp(); o += w[i].txt; }
        return o;
    }
    void stmt(const Stmt & s, long id) {
        const bool m = id == mut.target;
        const auto & d1n = f.sn; const auto & d3n = s.tbl == 'O' ? f.on : f.sn;
        const size_t D1 = f.S, D3 = s.tbl == 'O' ? f.O : f.S;
        int which = m ? mut.arg / 2 % 3 : -1;       // which index position a name/range mutation hits
        std::string h(1, s.tbl);
        h += col() + idx(s.a, f.an, f.A, m && which == 0 && idxMut());
        if (m && mut.cls == "bad_colon_count" && s.form == 3) { lines.push_back(h + col()); for (auto & row : s.rows) lines.push_back(vec(row, 0)); return; }
        if (s.form == 3) {
            if (m && which != 0 && idxMut()) h = std::string(1, s.tbl) + col() + idx(s.a, f.an, f.A, true);
            lines.push_back(h);
            for (size_t d = 0; d < s.rows.size(); ++d) {
                if (m && mut.cls == "matrix_missing_row" && d + 1 == s.rows.size()) break;
                int delta = (m && mut.cls == "vector_wrong_length" && d == (size_t)(mut.arg / 4) % s.rows.size()) ? ((mut.arg & 1) && D3 > 1 ? -1 : 1) : 0;
                lines.push_back(vec(s.rows[d], delta, m && mut.cls == "trailing_garbage" && mut.arg % 2 == 1 && d == (size_t)(mut.arg / 4) % s.rows.size()));
            }
            return;
        }
        bool hit1 = m && (which == 1 || (which == 2 && s.form != 0)) && idxMut();
        h += col() + idx(s.d1, d1n, D1, hit1);
        if (s.form == 0) {
            bool hit3 = m && which == 2 && idxMut();
            h += col() + idx(s.d3, d3n, D3, hit3);
            if (s.tbl == 'R') h += col() + (r.coin(3, 4) ? "*" : "0");
            if (m && mut.cls == "bad_colon_count") h += col() + "0";
            if (!(m && mut.cls == "missing_value")) h += sp() + s.v.txt;
            if (m && mut.cls == "trailing_garbage" && mut.arg % 2 == 1) { static const char * g[] = {"x", "abc", "\t0.5", ",", ";"}; h += g[mut.arg / 7 % 5]; }
            lines.push_back(h);
        } else if (s.form == 1) {
            int delta = (m && mut.cls == "row_wrong_length") ? ((mut.arg & 1) && D3 > 1 ? -1 : 1) : 0;
            if (m && mut.cls == "bad_colon_count") h += col() + "0" + col() + "0";
            lines.push_back(h + sp() + vec(s.vs, delta, m && mut.cls == "trailing_garbage" && mut.arg % 2 == 1));
        } else {
            int delta = (m && mut.cls == "vector_wrong_length") ? ((mut.arg & 1) && D3 > 1 ? -1 : 1) : 0;
            if (m && mut.cls == "bad_colon_count") h += col() + "0" + col() + "0";
            lines.push_back(h);
            lines.push_back(vec(s.vs, delta, m && mut.cls == "trailing_garbage" && mut.arg % 2 == 1));
        }
    }
    std::string decl(const char * kw, size_t n, const std::vector<std::string> & names) {
        std::string l = std::string(kw) + (plain || r.coin() ? ": " : ":");
        if (names.empty()) return l + std::to_string(n);
        for (size_t i = 0; i < names.size(); ++i) { if (i) l += sp(); l += names[i]; }
        return l;
    }
    std::string render() {
        std::vector<std::string> pre;
        if (r.coin(3, 4)) pre.push_back(r.coin() ? "values: reward" : "values: cost");
        if (f.hasDisc) {
            if (!plain && r.coin(1, 5)) pre.push_back("discount: 0.25");      // overridden by the later line
            pre.push_back("discount" + std::string(r.coin() ? ": " : " : ") + f.disc.txt);
        }
        if (mut.cls == "unknown_name" && mut.arg % 7 >= 5 && mut.decoy) {
            // names of an overridden declaration are gone: the later line replaces the whole map
            auto stale = [&](const char * kw, size_t n) { std::string l = std::string(kw) + ":"; for (size_t i = 0; i < n; ++i) l += " stale" + std::to_string(i); pre.push_back(l); };
            stale("states", f.S); stale("actions", f.A); if (f.pomdp || f.declareO) stale("observations", f.O);
        }
        if (!(mut.cls == "missing_sizes" && mut.arg % 3 == 0)) {
            if (!plain && r.coin(1, 6)) pre.push_back("states: 7");             // overridden
            pre.push_back(decl("states", f.S, f.sn));
        }
        if (!(mut.cls == "missing_sizes" && (mut.arg % 3 == 1 || (mut.arg % 3 == 2 && !f.pomdp)))) pre.push_back(decl("actions", f.A, f.an));
        if ((f.pomdp || f.declareO) && !(mut.cls == "missing_sizes" && mut.arg % 3 == 2 && f.pomdp)) pre.push_back(decl("observations", f.O, f.on));
        if (!plain && r.coin(1, 4)) { // preamble order is free, except that an overriding line must stay after the overridden one
            std::vector<std::string> a, b;
            for (auto & l : pre) (l == "discount: 0.25" || l == "states: 7" || l.find("stale") != std::string::npos ? a : b).push_back(l);
            for (size_t i = b.size(); i > 1; --i) std::swap(b[i-1], b[r.below(i)]);
            pre = a; pre.insert(pre.end(), b.begin(), b.end());
        }
        std::vector<std::vector<std::string>> blocks;   // a statement with its vector lines stays together
        for (size_t i = 0; i < f.stmts.size(); ++i) { lines.clear(); stmt(f.stmts[i], (long)i); blocks.push_back(lines); }
        std::vector<std::string> out;
        bool scatter = !plain && r.coin(1, 4);
        if (!scatter) { out = pre; pre.clear(); }
        for (auto & b : blocks) {
            if (!plain && r.coin(1, 5)) out.push_back(r.coin() ? "# a comment: with colons" : "#");
            if (!plain && r.coin(1, 4)) out.push_back(r.coin() ? "" : "   ");
            if (f.pomdp && !plain && r.coin(1, 20)) { out.push_back("start: uniform"); }
            for (size_t j = 0; j < b.size(); ++j) {
                out.push_back(b[j]);
                // preamble lines are removed before the main pass: they may even sit between a header and its rows
                if (scatter && !pre.empty() && r.coin(1, 3)) { out.push_back(pre.front()); pre.erase(pre.begin()); }
                if (!plain && j + 1 < b.size() && r.coin(1, 8)) out.push_back("");
            }
        }
        for (auto & l : pre) out.push_back(l);
        std::string text;
        bool crlf = !plain && r.coin(1, 8);
        for (size_t i = 0; i < out.size(); ++i) {
            std::string l = out[i];
            if (!plain && r.coin(1, 6)) l = std::string(1 + r.below(3), r.coin(3, 4) ? ' ' : '\t') + l;
            if (!plain && r.coin(1, 6)) l += std::string(1 + r.below(2), r.coin(3, 4) ? ' ' : '\t');
            text += l;
            if (i + 1 < out.size() || r.coin(3, 4)) text += crlf ? "\r\n" : "\n";
        }
        return text;
    }
};

// ------------------------------------------------------------------ expectation encodings
std::string selTok(const Sel & s) { return s.all ? "*" : std::to_string(s.i); }

void emitStmts(Line & L, const File & f) {
    L << "wf" << f.S << f.A << f.O << (f.hasDisc ? f.disc.v : 1.0) << f.stmts.size();
    for (auto & s : f.stmts) {
        L << std::string(1, s.tbl) << selTok(s.a);
        if (s.form == 3) { L << "*" << "m" << s.rows.size(); for (auto & row : s.rows) { L << row.size(); for (auto & v : row) L << v.v; } }
        else if (s.form == 0) { L << selTok(s.d1) << "e" << selTok(s.d3) << s.v.v; }
        else { L << selTok(s.d1) << "r" << s.vs.size(); for (auto & v : s.vs) L << v.v; }
    }
    // every value token with the rational the generator meant: checked EXACTLY (no rounding) against the model's reading of the literal
    std::vector<const Val*> vals;
    for (auto & s : f.stmts) { if (s.form == 0) vals.push_back(&s.v); for (auto & v : s.vs) vals.push_back(&v); for (auto & row : s.rows) for (auto & v : row) vals.push_back(&v); }
    L << "vals" << vals.size();
    for (auto v : vals) { L << hex(v->txt) << (v->exact.empty() ? std::string("-") : v->exact) << v->v; }
}

// ASan aborts on an allocation it cannot serve instead of letting `new` throw (a property of the sanitizer
// run-time, not of the library), so texts declaring sizes with 4+ digits are not sent to the library; nor are
// negative declared sizes (stoul wraps them to ~2^64: the region of the known finding C18-size-extent-overflow,
// which is exercised by the fixed witness cases 0 and 1 instead of at random case indices).
bool hugeSizes(const std::string & text) {
    std::istringstream is(text); std::string l;
    while (std::getline(is, l)) {
        size_t b = l.find_first_not_of(" \t\r\v\f");
        if (b == std::string::npos) continue;
        if (l.compare(b, 6, "states") && l.compare(b, 7, "actions") && l.compare(b, 12, "observations")) continue;
        int run = 0;
        for (size_t i = 0; i < l.size(); ++i) {
            char c = l[i];
            if (c == '-' && i + 1 < l.size() && l[i + 1] >= '0' && l[i + 1] <= '9') return true;
            if (c >= '0' && c <= '9') { if (++run >= 4) return true; } else run = 0;
        }
    }
    return false;
}

template <class M> void dump(Line & L, const M & m, size_t a, size_t b, size_t c) {
    L << a * b * c;
    for (size_t i = 0; i < a; ++i) for (size_t j = 0; j < b; ++j) for (size_t k = 0; k < c; ++k) L << (double)m[i][j][k];
}

void runText(bool pomdp, const std::string & text, const std::function<void(Line&)> & expect, bool allowHuge = false) {
    if (!allowHuge && hugeSizes(text)) { std::puts("#stat screened_huge_sizes 1"); return; }
    Line L; L << "C18" << "parse" << (pomdp ? "pomdp" : "mdp") << hex(text);
    expect(L);
    L << "|";
    bool parsed = false;
    try {
        std::istringstream is(text);
        AIToolbox::CassandraParser p;
        if (pomdp) {
            const auto [S, A, O, T, R, W, d] = p.parsePOMDP(is);
            L << "ok" << S << A << O << d; dump(L, T, S, A, S); dump(L, R, S, A, S); dump(L, W, S, A, O);
        } else {
            const auto [S, A, T, R, d] = p.parseMDP(is);
            L << "ok" << S << A << (size_t)0 << d; dump(L, T, S, A, S); dump(L, R, S, A, S); L << (size_t)0;
        }
        parsed = true;
    } catch (const std::exception & e) { L << "err" << errClass(e); }
    if (parsed) std::puts("#stat parser_accepts 1"); else std::puts("#stat parser_rejects 1");
    // entry point with the model constructor's checks
    try {
        std::istringstream is(text);
        if (pomdp) {
            auto m = AIToolbox::POMDP::parseCassandra(is);
            // read the constructed model back: it must hold what the parser returned
            L << "cok" << m.getS() << m.getA() << m.getO() << m.getDiscount();
            L << m.getS() * m.getA() * m.getS();
            for (size_t s = 0; s < m.getS(); ++s) for (size_t a = 0; a < m.getA(); ++a) for (size_t s1 = 0; s1 < m.getS(); ++s1) L << m.getTransitionProbability(s, a, s1);
            L << m.getS() * m.getA() * m.getO();
            for (size_t s = 0; s < m.getS(); ++s) for (size_t a = 0; a < m.getA(); ++a) for (size_t o = 0; o < m.getO(); ++o) L << m.getObservationProbability(s, a, o);
            L << m.getS() * m.getA();
            for (size_t s = 0; s < m.getS(); ++s) for (size_t a = 0; a < m.getA(); ++a) L << m.getExpectedReward(s, a, 0);
        } else {
            auto m = AIToolbox::MDP::parseCassandra(is);
            L << "cok" << m.getS() << m.getA() << (size_t)0 << m.getDiscount();
            L << m.getS() * m.getA() * m.getS();
            for (size_t s = 0; s < m.getS(); ++s) for (size_t a = 0; a < m.getA(); ++a) for (size_t s1 = 0; s1 < m.getS(); ++s1) L << m.getTransitionProbability(s, a, s1);
            L << (size_t)0;
            L << m.getS() * m.getA();
            for (size_t s = 0; s < m.getS(); ++s) for (size_t a = 0; a < m.getA(); ++a) L << m.getExpectedReward(s, a, 0);
        }
        std::puts("#stat model_constructed 1");
    } catch (const std::exception & e) { L << "cerr" << errClass(e); }
    L.emit();
}

// one parse on a given parser OBJECT, printed in the outcome format of the protocol
void emitParse(Line & L, AIToolbox::CassandraParser & p, bool pomdp, const std::string & text) {
    try {
        std::istringstream is(text);
        if (pomdp) {
            const auto [S, A, O, T, R, W, d] = p.parsePOMDP(is);
            L << "ok" << S << A << O << d; dump(L, T, S, A, S); dump(L, R, S, A, S); dump(L, W, S, A, O);
        } else {
            const auto [S, A, T, R, d] = p.parseMDP(is);
            L << "ok" << S << A << (size_t)0 << d; dump(L, T, S, A, S); dump(L, R, S, A, S); L << (size_t)0;
        }
    } catch (const std::exception & e) { L << "err" << errClass(e); }
}

// REUSE of a parser object: text A is parsed first (outcome ignored), then text B on the same object; printed next to
// the outcome of B on a fresh object.  Nothing of A may survive.
void runReuse(bool pomdpA, const std::string & textA, bool pomdpB, const std::string & textB) {
    if (hugeSizes(textA) || hugeSizes(textB)) { std::puts("#stat screened_huge_sizes 1"); return; }
    Line L; L << "C18" << "reuse" << (pomdpB ? "pomdp" : "mdp") << hex(textA) << hex(textB) << "|";
    { AIToolbox::CassandraParser fresh; emitParse(L, fresh, pomdpB, textB); }
    AIToolbox::CassandraParser p;
    try { std::istringstream is(textA); if (pomdpA) p.parsePOMDP(is); else p.parseMDP(is); } catch (const std::exception &) {}
    emitParse(L, p, pomdpB, textB);
    L.emit();
}

// ------------------------------------------------------------------ canonical printer (mirrors lean/AITB/Model/CassandraPrint.lean)
// The driver recomputes the text from the AST with the Lean printer and compares byte for byte, so this renderer is not trusted;
// `printFile_parses` (Props.C18n) proves that the printed text of ANY such AST parses to the tables its statements define.
struct CDec { bool neg = false; unsigned long n = 0; unsigned e = 0; };
struct CSel { bool all = false; size_t i = 0; };
struct CStmt { char tbl = 'T'; CSel a, d1, d3; int form = 0; CDec v; std::vector<CDec> vs; std::vector<std::vector<CDec>> rows; };  // form 0 entry, 1 row next-line, 2 row inline, 3 matrix
struct CFile { bool pomdp = false; size_t S = 1, A = 1, O = 0; std::vector<CStmt> stmts; };

std::string printDec(const CDec & d) {
    std::string ds = std::to_string(d.n);
    if (ds.size() < d.e + 1) ds = std::string(d.e + 1 - ds.size(), '0') + ds;
    return (d.neg ? "-" : "") + ds.substr(0, ds.size() - d.e) + "." + ds.substr(ds.size() - d.e);
}
std::string printSel(const CSel & s) { return s.all ? "*" : std::to_string(s.i); }
std::string printVec(const std::vector<CDec> & v) { std::string o; for (size_t i = 0; i < v.size(); ++i) { if (i) o += " "; o += printDec(v[i]); } return o; }
std::string printFile(const CFile & f) {
    std::string t = "states:" + std::to_string(f.S) + "\nactions:" + std::to_string(f.A) + "\nobservations:" + std::to_string(f.O) + "\n";
    for (auto & s : f.stmts) {
        std::string h(1, s.tbl); h += ": " + printSel(s.a);
        if (s.form == 3) { t += h + "\n"; for (auto & r : s.rows) t += printVec(r) + "\n"; continue; }
        h += " : " + printSel(s.d1);
        if (s.form == 0) { h += " : " + printSel(s.d3); if (s.tbl == 'R') h += " : *"; t += h + " " + printDec(s.v) + "\n"; }
        else if (s.form == 2) { for (auto & v : s.vs) h += " " + printDec(v); t += h + "\n"; }
        else { t += h + "\n" + printVec(s.vs) + "\n"; }
    }
    return t;
}
CDec genDec(Rng & r, bool allowNeg) {
    CDec d; d.e = (unsigned)r.below(7);
    switch (r.below(6)) {
        case 0: d.n = 0; break;
        case 1: { unsigned long p = 1; for (unsigned i = 0; i < d.e; ++i) p *= 10; d.n = p; break; }                       // exactly 1
        case 2: d.n = r.below(1000000000000ULL); break;                                                                  // large magnitudes
        default: { unsigned long p = 1; for (unsigned i = 0; i < d.e; ++i) p *= 10; d.n = r.below(p + 1); break; }      // within [0,1]
    }
    d.neg = allowNeg && d.n != 0 && r.coin(1, 3);
    return d;
}
CSel genSel(Rng & r, size_t n, unsigned num = 1, unsigned den = 4) { CSel s; if (r.coin(num, den)) s.all = true; else s.i = r.below(n); return s; }
CFile genCanon(Rng & r) {
    CFile f; f.pomdp = r.coin();
    f.S = 1 + r.below(5); f.A = 1 + r.below(4); f.O = f.pomdp ? 1 + r.below(4) : (r.coin(1, 3) ? r.below(3) : 0);
    if (r.coin(1, 8)) { f.S = 11 + r.below(3); f.A = 1; if (f.pomdp) f.O = 1; }     // two-digit indices
    auto vec = [&](size_t n, bool neg) { std::vector<CDec> v; for (size_t i = 0; i < n; ++i) v.push_back(genDec(r, neg)); return v; };
    if (r.coin(1, 3)) {
        // a complete model in one form per table (the shape of `printModel`)
        auto table = [&](char c, size_t D1, size_t D3, int form) {
            for (size_t a = 0; a < f.A; ++a) {
                if (form == 3) { CStmt s; s.tbl = c; s.form = 3; s.a.i = a; for (size_t d = 0; d < D1; ++d) s.rows.push_back(vec(D3, false)); f.stmts.push_back(s); }
                else for (size_t d = 0; d < D1; ++d) {
                    if (form == 0) for (size_t e = 0; e < D3; ++e) { CStmt s; s.tbl = c; s.form = 0; s.a.i = a; s.d1.i = d; s.d3.i = e; s.v = genDec(r, c == 'R'); f.stmts.push_back(s); }
                    else { CStmt s; s.tbl = c; s.form = form; s.a.i = a; s.d1.i = d; s.vs = vec(D3, false); f.stmts.push_back(s); }
                }
            }
        };
        table('T', f.S, f.S, (int)r.below(4));
        if (f.pomdp) table('O', f.S, f.O, (int)r.below(4));
        table('R', f.S, f.S, 0);
        std::puts("#stat canon_complete_model 1");
    } else {
        size_t n = r.below(9);
        for (size_t j = 0; j < n; ++j) {
            CStmt s; int t = (int)r.below(f.pomdp ? 3 : 2); s.tbl = t == 0 ? 'T' : t == 1 ? 'R' : 'O';
            size_t D3 = s.tbl == 'O' ? f.O : f.S;
            s.a = genSel(r, f.A); s.d1 = genSel(r, f.S);
            s.form = s.tbl == 'R' ? 0 : (int)r.below(4);
            if (s.form == 0) { s.d3 = genSel(r, D3, 1, 3); s.v = genDec(r, s.tbl == 'R'); }
            else if (s.form == 3) { for (size_t d = 0; d < f.S; ++d) s.rows.push_back(vec(D3, false)); }
            else s.vs = vec(D3, false);
            f.stmts.push_back(s);
        }
        std::puts("#stat canon_statement_list 1");
    }
    return f;
}
void emitDec(Line & L, const CDec & d) { L << (size_t)(d.neg ? 1 : 0) << (size_t)d.n << (size_t)d.e; }
void runCanon(const CFile & f) {
    const std::string text = printFile(f);
    Line L; L << "C18" << "canon" << (f.pomdp ? "pomdp" : "mdp") << hex(text) << f.S << f.A << f.O << f.stmts.size();
    for (auto & s : f.stmts) {
        std::printf("#stat canon_form_%c%d 1\n", s.tbl, s.form);
        L << std::string(1, s.tbl) << printSel(s.a);
        if (s.form == 3) { L << "*" << "m" << s.rows.size(); for (auto & row : s.rows) { L << row.size(); for (auto & v : row) emitDec(L, v); } }
        else if (s.form == 0) { L << printSel(s.d1) << "e" << printSel(s.d3); emitDec(L, s.v); }
        else { L << printSel(s.d1) << (s.form == 2 ? "ri" : "rn") << s.vs.size(); for (auto & v : s.vs) emitDec(L, v); }
    }
    L << "|";
    AIToolbox::CassandraParser p;
    emitParse(L, p, f.pomdp, text);
    L.emit();
}

const std::function<void(Line&)> ANY = [](Line & L) { L << "any"; };
std::function<void(Line&)> REJ(const std::string & cls) { return [cls](Line & L) { L << "rej" << cls; }; }

// ------------------------------------------------------------------ generic text mutations
std::string mutateText(Rng & r, std::string t) {
    static const std::vector<std::string> toks = {"nan", "inf", "-1", "1e999", "1e-999", "0x1p-1", "*", ":", "#", "18446744073709551615", "18446744073709551616",
                                                  "-0.5", "1.5", "abc", "", " ", "\t", "0.5\t0.5", "1x", "0.5y", "+", "-", ".", "e5", "T", "R:", "O", "states:", "discount", "T: 0", "\n"};
    int n = 1 + (int)r.below(3);
    for (int it = 0; it < n && !t.empty(); ++it) {
        // token boundaries
        std::vector<std::pair<size_t,size_t>> tk; size_t i = 0;
        while (i < t.size()) { while (i < t.size() && (t[i] == ' ' || t[i] == '\n')) ++i; size_t j = i; while (j < t.size() && t[j] != ' ' && t[j] != '\n') ++j; if (j > i) tk.push_back({i, j}); i = j; }
        std::vector<std::pair<size_t,size_t>> ln; i = 0;
        while (i < t.size()) { size_t j = t.find('\n', i); if (j == std::string::npos) j = t.size(); ln.push_back({i, j}); i = j + 1; }
        switch (r.below(10)) {
            case 0: if (!tk.empty()) { auto p = r.pick(tk); t.erase(p.first, p.second - p.first); } break;                       // delete token
            case 1: if (!tk.empty()) { auto p = r.pick(tk); t.insert(p.second, " " + t.substr(p.first, p.second - p.first)); } break; // duplicate token
            case 2: if (!tk.empty()) { auto p = r.pick(tk); t.replace(p.first, p.second - p.first, r.pick(toks)); } break;        // replace token
            case 3: if (!ln.empty()) { auto p = r.pick(ln); t.erase(p.first, std::min(t.size(), p.second + 1) - p.first); } break; // delete line
            case 4: if (!ln.empty()) { auto p = r.pick(ln); t.insert(p.first, t.substr(p.first, p.second - p.first) + "\n"); } break; // duplicate line
            case 5: t.resize(r.below(t.size() + 1)); break;                                                                      // truncate
            case 6: { static const std::string cs = ":*# \t\n-+.eExX0123456789abnTRO"; t[r.below(t.size())] = cs[r.below(cs.size())]; } break;
            case 7: { static const std::string cs = ":*# \t\n-+.e0123456789"; t.insert(r.below(t.size() + 1), 1, cs[r.below(cs.size())]); } break;
            case 8: if (ln.size() > 1) { size_t a = r.below(ln.size() - 1); std::string l1 = t.substr(ln[a].first, ln[a].second - ln[a].first), l2 = t.substr(ln[a+1].first, ln[a+1].second - ln[a+1].first);
                        t.replace(ln[a].first, ln[a+1].second - ln[a].first, l2 + "\n" + l1); } break;                            // swap lines
            default: if (!tk.empty()) { auto p = r.pick(tk); std::string s = t.substr(p.first, p.second - p.first);              // number +-1
                        bool num = !s.empty() && std::all_of(s.begin(), s.end(), [](char c) { return c >= '0' && c <= '9'; });
                        if (num && s.size() < 3) t.replace(p.first, p.second - p.first, std::to_string(std::max(0L, std::atol(s.c_str()) + (r.coin() ? 1 : -1)))); } break;
        }
    }
    return t;
}

const char * CORNER = "# corner.MDP 3x3\n\nvalues: rewards\nstates: 4\nactions: 4\ndiscount: 0.95\n\nT : 0\n1.0 0.0 0.0 0.0\n0.0 1.0 0.0 0.0\n0.8 0.0 0.2 0.0\n0.0 0.0 0.0 1.0\n\n"
    "T : 1\n1.0 0.0 0.0 0.0\n0.0 1.0 0.0 0.0\n0.0 0.0 0.2 0.8\n0.0 0.0 0.0 1.0\n\nT : 2\n1.0 0.0 0.0 0.0\n0.0 0.2 0.0 0.8\n0.0 0.0 1.0 0.0\n0.0 0.0 0.0 1.0\n\n"
    "T : 3\n1.0 0.0 0.0 0.0\n0.8 0.2 0.0 0.0\n0.0 0.0 1.0 0.0\n0.0 0.0 0.0 1.0\n\nR : 0 : 1 : 1 : * -1.0\nR : 0 : 2 : 0 : * -1.0\n\nR : 1 : 1 : 1 : * -1.0\nR : 3 : 2 : 2 : * -1.0\n";
const char * EJS = "# ejs4.POMDP\n\nvalues: rewards\nstates: 3\nactions: 2\nobservations: 2\n\nT : 0\n0.1 0.1 0.8\n0.2 0.5 0.3\n0.7 0.1 0.2\n\nT : 1\n0.1 0.8 0.1\n0.7 0.1 0.2\n0.1 0.9 0.0\n\n"
    "O : 0\n0.7 0.3\n0.1 0.9\n0.4 0.6\n\nO : 1\n0.2 0.8\n0.4 0.6\n0.3 0.7\n\nR : 0 : 0 : * : * -1.0\nR : 0 : 1 : * : *  0.0\nR : 1 : 1 : * : * -1.0\n";

const long NFIXED = 22;

void fixedCase(long idx) {
    switch (idx) {
        // 0,1: declared sizes whose table extent S*A*S overflows size_t (witnesses of C18-size-overflow)
        case 0: runText(false, "states: 4294967296\nactions: 1\nT: 0 : 1 : 1 0.5\n", REJ("size_overflow"), true); break;
        case 1: runText(false, "states: -1\nactions: 1\nT: 0 : 5 : 7 0.5\n", REJ("size_overflow"), true); break;
        // 2,3: two-colon form with a wrong inline element count (witness of C18-row-length-not-thrown)
        case 2: runText(false, "states: 2\nactions: 1\nT: 0\n1 0\n0 1\nT: 0 : 0 0.5 0.25 0.25\n", REJ("row_wrong_length")); break;
        case 3: runText(true, "states: 2\nactions: 1\nobservations: 3\nT: 0\n1 0\n0 1\nO: 0\n1 0 0\n0 1 0\nO: 0 : 1 0.5 0.5\n", REJ("row_wrong_length")); break;
        // 4: discount nan (Model::setDiscount accepts NaN, DESIGN §12 #1)
        case 4: runText(false, "states: 1\nactions: 1\ndiscount: nan\nT: 0 : 0 : 0 1\n", REJ("invalid_discount")); break;
        // 5: a tab inside a vector line: tokens are split on ' ' only, stod stops at the tab
        case 5: runText(false, "states: 2\nactions: 1\nT: 0\n0.5\t0.25 0.5\n1 0\n", REJ("trailing_garbage")); break;   // witness of C18-trailing-garbage
        case 6: runText(false, CORNER, ANY); break;
        case 7: runText(true, EJS, ANY); break;
        case 8: runText(false, EJS, ANY); break;             // MDP view of a POMDP file: O lines are ignored
        case 9: runText(true, CORNER, REJ("missing_sizes")); break;   // POMDP view of an MDP file: no observations
        case 10: runText(false, "", REJ("missing_sizes")); break;
        case 11: runText(false, "states: 2\nactions: 1\nT: 0 : 0 : 0 0.5\nT: 0 : 0 : 1 0.5\nT: 0 : 1\n", REJ("vector_wrong_length")); break;  // next-line vector at EOF
        case 12: runText(false, "states: a b\nactions: go\nT: go : a : b 1\nT: go : b : c 1\n", REJ("unknown_name")); break;
        case 13: runText(false, "states: 2\nactions: 1\nT: 0 : 0 : 2 1\n", REJ("index_out_of_range")); break;
        case 14: runText(false, "states: 2\nactions: 1\nT: 0\n0.5 0.5\n0.5 0.75\n", REJ("invalid_probability")); break;
        case 15: {   // sizes beyond one byte / a few digits are taken in full
            File f; f.S = 260; f.A = 1;
            Stmt t; t.tbl = 'T'; t.form = 0; t.a.i = 0; t.d1.all = true; t.d3.i = 258; t.v = mkVal("1.0"); f.stmts.push_back(t);
            Stmt q; q.tbl = 'R'; q.form = 0; q.a.all = true; q.d1.i = 259; q.d3.i = 257; q.v = mkVal("2.5"); f.stmts.push_back(q);
            Rng r0(7); Renderer R{r0, f, Mut{}, true};
            runText(false, R.render(), [&](Line & L) { emitStmts(L, f); });
            break;
        }
        case 16: runText(false, "states: 2\nactions: 1\nT: 0 : 1x : 0 1\nT: 0 : 0 : 0abc 1.0junk\n", REJ("trailing_garbage")); break;  // `1x` is index 1, `1.0junk` is 1.0
        case 17: runText(false, "states: 2\n", REJ("missing_sizes")); break;                 // sizes only partly declared, no statements at all
        case 18: runText(false, "actions: 2\ndiscount: 0.5\n", REJ("missing_sizes")); break;
        case 19: runText(true, "states: 1\nactions: 1\n", REJ("missing_sizes")); break;
        case 20: runText(true, "states: 1\nactions: 1\nobservations: 4611686018427387904\nT: 0 : 0 : 0 1\nO: 0 : 0 : 0 1\n", REJ("size_overflow"), true); break;  // only the SECOND extent check (S*A*O) rejects this
        default: runText(false, "states: 18446744073709551616\nactions: 1\nT: 0 : 0 : 0 1\n", ANY); break; // stoul out_of_range is swallowed: one state named "1844…"
    }
}

} // namespace

namespace verif {
long verif_ncases(const std::string & tier) { return tier == "thorough" ? 50000 : 2600; }

void verif_case(Rng & rng, long idx, const std::string &) {
    if (idx < NFIXED) { fixedCase(idx); return; }
    int stream = (int)(idx % 13);
    bool ugly = rng.coin(1, 4);
    if (stream < 4) {                                  // well-formed files
        File f = genFile(rng, rng.coin(4, 5), ugly);
        Renderer R{rng, f, Mut{}, rng.coin(1, 10)};
        std::string text = R.render();
        std::puts("#stat wellformed 1");
        for (auto & s : f.stmts) { std::printf("#stat form_%c%d 1\n", s.tbl, s.form); if (s.a.all || s.d1.all || (s.form == 0 && s.d3.all)) std::puts("#stat stmt_with_wildcard 1"); }
        if (!f.sn.empty() || !f.an.empty() || !f.on.empty()) std::puts("#stat file_with_names 1");
        // a POMDP file is also a valid MDP file (O lines ignored); an MDP file is not a POMDP file
        bool asPomdp = f.pomdp && rng.coin(4, 5);
        if (asPomdp || !f.pomdp) runText(asPomdp, text, [&](Line & L) { emitStmts(L, f); });
        else { File g = f; g.stmts.erase(std::remove_if(g.stmts.begin(), g.stmts.end(), [](const Stmt & s) { return s.tbl == 'O'; }), g.stmts.end()); g.O = 0;
               runText(false, text, [&](Line & L) { emitStmts(L, g); }); }
    } else if (stream < 8) {                           // targeted must-reject mutants
        File f = genFile(rng, true, ugly);
        static const std::vector<std::string> classes = {"missing_sizes", "row_wrong_length", "vector_wrong_length", "unknown_name", "index_out_of_range",
                                                         "bad_colon_count", "missing_value", "matrix_missing_row", "invalid_probability", "trailing_garbage"};
        Mut m; m.cls = classes[(size_t)(idx / 13) % classes.size()]; m.arg = (int)rng.below(1000);
        // choose a statement the mutation applies to
        std::vector<long> cand;
        for (size_t i = 0; i < f.stmts.size(); ++i) {
            const auto & s = f.stmts[i];
            if (m.cls == "row_wrong_length" && s.form != 1) continue;
            if (m.cls == "vector_wrong_length" && s.form != 2 && s.form != 3) continue;
            if (m.cls == "missing_value" && s.form != 0) continue;
            if (m.cls == "matrix_missing_row" && !(s.form == 3 && i + 1 == f.stmts.size())) continue;
            if (m.cls == "bad_colon_count" && s.tbl == 'R' && false) continue;
            cand.push_back((long)i);
        }
        if (m.cls == "matrix_missing_row") {           // make the last statement a matrix
            Stmt s; s.tbl = 'T'; s.form = 3; s.a = selOf(rng, f.A); for (size_t d = 0; d < f.S; ++d) s.rows.push_back(dist(rng, f.S, false));
            f.stmts.push_back(s); cand = {(long)f.stmts.size() - 1};
        }
        if (m.cls == "invalid_probability") {          // final statement overriding one T row with a non-distribution
            Stmt s; s.tbl = 'T'; s.form = 1 + (int)rng.below(2); s.a = selOf(rng, f.A); s.d1 = selOf(rng, f.S);
            s.vs = dist(rng, f.S, false);
            size_t j = rng.below(f.S);
            switch (rng.below(f.S >= 2 ? 5 : 4)) {
                                    case 4: { size_t j2 = (j + 1) % f.S; for (auto & x : s.vs) x = mkVal("0"); s.vs[j] = mkVal("1.25"); s.vs[j2] = mkVal("-0.25"); std::puts("#stat invalid_probability_negative_compensated 1"); break; }  // sums to 1: only the sign test rejects it
                                    case 0: s.vs[j] = mkVal(s.vs[j].v >= 0.5 ? "0.25" : "0.75"); if (f.S == 1) s.vs[j] = mkVal("0.75"); break;
                                    case 1: s.vs[j] = mkVal("-0.25"); break; case 2: s.vs[j] = mkVal("1.5"); break; default: s.vs[j] = mkVal(rng.coin() ? "nan" : "inf"); }
            f.stmts.push_back(s); cand = {};
        }
        if (m.cls != "missing_sizes" && m.cls != "invalid_probability") {
            if (cand.empty()) { std::puts("#stat mutant_not_applicable 1"); return; }
            m.target = rng.pick(cand);
        }
        Renderer R{rng, f, m, rng.coin(1, 4)};
        std::string text = R.render();
        std::printf("#stat mutant_%s 1\n", m.cls.c_str());
        // unknown-name mutants on a `*`-free position only make sense when the replaced token was an index
        runText(f.pomdp, text, REJ(m.cls));
    } else if (stream == 11) {                         // reuse of one parser object over two texts
        File a = genFile(rng, true, false);
        // A always declares names, the ones a stale table would still resolve
        a.sn.clear(); for (size_t i = 0; i < a.S; ++i) a.sn.push_back("stale" + std::to_string(i));
        a.an.clear(); for (size_t i = 0; i < a.A; ++i) a.an.push_back("stale" + std::to_string(i));
        if (a.pomdp) { a.on.clear(); for (size_t i = 0; i < a.O; ++i) a.on.push_back("stale" + std::to_string(i)); }
        Renderer RA{rng, a, Mut{}, true};
        std::string textA = RA.render();
        File b = genFile(rng, true, false);
        Mut m;
        int mode = (int)rng.below(4);
        if (mode == 3) { m.cls = "missing_sizes"; m.arg = (int)rng.below(3); }             // B lacks a size line: the size of A must not be inherited
        if (mode == 0) { b.sn.clear(); b.an.clear(); b.on.clear(); }                       // B declares numbers only
        if (mode <= 1 && !b.stmts.empty()) { m.cls = "unknown_name"; m.arg = 5 + 7 * (int)rng.below(50); m.decoy = false; m.target = (long)rng.below(b.stmts.size()); } // B uses a name of A
        Renderer RB{rng, b, m, rng.coin()};
        std::string textB = RB.render();
        std::printf("#stat reuse_mode%d 1\n", mode);
        runReuse(a.pomdp, textA, rng.coin(4, 5) ? b.pomdp : false, textB);
    } else if (stream == 10) {                         // canonical printer: text recomputed by the Lean printer, tables = meaning of the AST
        CFile f = genCanon(rng);
        std::printf("#stat canon_sizes_%s 1\n", (f.S == f.A || f.S == f.O || f.A == f.O) ? "some_equal" : "all_different");
        runCanon(f);
    } else if (stream == 12) {                         // garbage: no structure at all, long lines, arbitrary bytes (memory clause)
        std::string text;
        static const std::string al = "TOR:* \n\t0123456789.-+eabcstdisvluonx#";
        int mode = (int)rng.below(4);
        size_t len = rng.below(mode == 3 ? 6000 : 160);
        if (mode == 0) { File f = genFile(rng, true, false); Renderer R{rng, f, Mut{}, true}; text = R.render();
                         for (int k = 0; k < 3 && !text.empty(); ++k) text.insert(rng.below(text.size() + 1), 1, (char)rng.below(256)); }
        else for (size_t i = 0; i < len; ++i) text.push_back(mode == 1 ? (char)rng.below(256) : al[rng.below(al.size())]);
        if (mode == 3) { std::string head = rng.coin() ? "states: 2\nactions: 2\nT: 0 : 0 " : "states: 2\nactions: 1\nT: 0\n"; text = head + text; }
        std::puts("#stat garbage 1");
        runText(rng.coin(), text, ANY);
    } else {                                           // generic mutation stream, no expectation beyond agreement and validity
        File f = genFile(rng, rng.coin(3, 4), ugly);
        Renderer R{rng, f, Mut{}, rng.coin(1, 4)};
        std::string text = mutateText(rng, R.render());
        std::puts("#stat generic_mutant 1");
        runText(rng.coin(9, 10) ? f.pomdp : !f.pomdp, text, ANY);
    }
}
} // namespace verif

VERIF_MAIN
