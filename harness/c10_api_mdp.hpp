// harness/c10_api_mdp.hpp — included by harness/c10.cpp AFTER "common/verif.hpp" and "common/gen.hpp"
//
// Public-API sweep (property C10) for the MDP / POMDP operations that no other harness calls:
//   MDP::GridWorld (+State), makeCliffProblem, makeCornerProblem,
//   the `(const M & model, ...)` template constructors of DoubleQLearning / HystereticQLearning / RLearning / SARSA,
//   DoubleQLearning::getQFunctionB, RLearning::set{Alpha,Rho}LearningRate,
//   Dyna2 lambda / tolerance accessors, DynaQ::getLearningRate, PrioritizedSweeping::setQueueThreshold,
//   sampleSR / isTerminal of MaximumLikelihoodModel, SparseMaximumLikelihoodModel, ThompsonModel over both experiences,
//   POMDP solver setTolerance (BlindStrategies, FastInformedBound, IncrementalPruning, LinearSupport, PBVI, PERSEUS, Witness),
//   QMDP accessors, GapMin::setInitialTolerance, makeChengD35, makeEJS4, POMDP::Policy::getActionProbability x2,
//   operator<=>(VEntry, VEntry).
//
// NOT callable (reported as a library defect, see the sweep report): MDP::Dyna2<M>::setN and MDP::DynaQ<M>::setN are declared
// in the class but have no definition anywhere (Dyna2.hpp:148, DynaQ.hpp:102) — any call fails at link time.
#pragma once
#include <AIToolbox/Seeder.hpp>
#include <AIToolbox/MDP/Model.hpp>
#include <AIToolbox/MDP/SparseModel.hpp>
#include <AIToolbox/MDP/Experience.hpp>
#include <AIToolbox/MDP/SparseExperience.hpp>
#include <AIToolbox/MDP/MaximumLikelihoodModel.hpp>
#include <AIToolbox/MDP/SparseMaximumLikelihoodModel.hpp>
#include <AIToolbox/MDP/ThompsonModel.hpp>
#include <AIToolbox/MDP/Algorithms/DoubleQLearning.hpp>
#include <AIToolbox/MDP/Algorithms/HystereticQLearning.hpp>
#include <AIToolbox/MDP/Algorithms/RLearning.hpp>
#include <AIToolbox/MDP/Algorithms/SARSA.hpp>
#include <AIToolbox/MDP/Algorithms/Dyna2.hpp>
#include <AIToolbox/MDP/Algorithms/DynaQ.hpp>
#include <AIToolbox/MDP/Algorithms/PrioritizedSweeping.hpp>
#include <AIToolbox/MDP/Environments/Utils/GridWorld.hpp>
#include <AIToolbox/MDP/Environments/CliffProblem.hpp>
#include <AIToolbox/MDP/Environments/CornerProblem.hpp>
#include <AIToolbox/POMDP/Model.hpp>
#include <AIToolbox/POMDP/Types.hpp>
#include <AIToolbox/POMDP/Utils.hpp>
#include <AIToolbox/POMDP/Algorithms/BlindStrategies.hpp>
#include <AIToolbox/POMDP/Algorithms/FastInformedBound.hpp>
#include <AIToolbox/POMDP/Algorithms/GapMin.hpp>
#include <AIToolbox/POMDP/Algorithms/IncrementalPruning.hpp>
#include <AIToolbox/POMDP/Algorithms/LinearSupport.hpp>
#include <AIToolbox/POMDP/Algorithms/PBVI.hpp>
#include <AIToolbox/POMDP/Algorithms/PERSEUS.hpp>
#include <AIToolbox/POMDP/Algorithms/QMDP.hpp>
#include <AIToolbox/POMDP/Algorithms/Witness.hpp>
#include <AIToolbox/POMDP/Policies/Policy.hpp>
#include <AIToolbox/POMDP/Environments/TigerProblem.hpp>
#include <AIToolbox/POMDP/Environments/ChengD35.hpp>
#include <AIToolbox/POMDP/Environments/EJS4.hpp>
#include <compare>
#include <tuple>
#include <vector>

namespace c10api {
namespace mdpd {   // details of this area

namespace AM = AIToolbox::MDP;
namespace AP = AIToolbox::POMDP;

inline void put(const char * clause, bool ok) {
    verif::Line l; l << "C10" << "range" << clause << "|" << ok; l.emit();
}
inline void put(const std::string & clause, bool ok) { put(clause.c_str(), ok); }

// `f` must throw exactly E (or a class derived from it)
template <class E, class F> inline bool throwsAs(F && f) {
    try { f(); } catch (const E &) { return true; } catch (...) { return false; }
    return false;
}
inline bool finiteMatrix(const AIToolbox::Matrix2D & m) {
    for (long i = 0; i < m.rows(); ++i) for (long j = 0; j < m.cols(); ++j) if (!std::isfinite(m(i, j))) return false;
    return true;
}
inline bool near(double a, double b, double tol = 1e-9) { return std::fabs(a - b) <= tol; }

// rows of a generic MDP model sum to 1 (through getTransitionProbability only), entries in [0,1]
template <class M> inline bool rowsStochastic(const M & m) {
    for (size_t s = 0; s < m.getS(); ++s) for (size_t a = 0; a < m.getA(); ++a) {
        double sum = 0.0;
        for (size_t s1 = 0; s1 < m.getS(); ++s1) {
            const double p = m.getTransitionProbability(s, a, s1);
            if (!(p >= 0.0 && p <= 1.0 + 1e-12)) return false;
            sum += p;
        }
        if (!near(sum, 1.0)) return false;
    }
    return true;
}

// ------------------------------------------------------------------------------------------------------------------
// GridWorld and GridWorld::State
inline int refBound(int v, int n, bool torus) {
    if (torus) { int r = v % n; if (r < 0) r += n; return r; }
    return v < 0 ? 0 : (v >= n ? n - 1 : v);
}
inline void gridWorld(verif::Rng & rng) {
    using namespace AM::GridWorldUtils;
    unsigned w, h;
    switch (rng.below(5)) {
        case 0: w = 1; h = (unsigned)rng.range(1, 6); std::printf("#stat api_grid_1xN 1\n"); break;
        case 1: h = 1; w = (unsigned)rng.range(1, 6); std::printf("#stat api_grid_Nx1 1\n"); break;
        case 2: w = 2; h = 2; std::printf("#stat api_grid_2x2 1\n"); break;
        default: w = (unsigned)rng.range(1, 5); h = (unsigned)rng.range(1, 5); std::printf("#stat api_grid_general 1\n"); break;
    }
    const bool torus = rng.coin();
    std::printf(torus ? "#stat api_grid_torus 1\n" : "#stat api_grid_flat 1\n");
    const AM::GridWorld g(w, h, torus);
    const size_t S = g.getS();
    const int W = (int)w, H = (int)h;

    bool okS = (S == (size_t)w * h) && g.getWidth() == w && g.getHeight() == h && g.isTorus() == torus;
    put("GridWorld.getS_is_width_times_height", okS);

    // operator()(size_t) / operator size_t / operator== / operator()(int,int) on in-range coordinates
    bool okIdx = true, okEq = true;
    for (size_t s = 0; s < S; ++s) {
        const AM::GridWorld::State st = g(s);
        const size_t back = static_cast<size_t>(st);
        okIdx = okIdx && back == s && st.getX() < w && st.getY() < h && (size_t)st.getX() + (size_t)st.getY() * w == s;
        const AM::GridWorld::State st2 = g((int)st.getX(), (int)st.getY());
        okIdx = okIdx && static_cast<size_t>(st2) == s;
        okEq = okEq && (st == st2) && (st2 == st);
        for (size_t t = 0; t < S; ++t) okEq = okEq && ((st == g(t)) == (s == t));
    }
    put("GridWorld.state_index_round_trip", okIdx);
    put("GridWorld.State.operator_eq_iff_same_cell", okEq);

    // operator()(int,int) outside the grid: "Coordinates are bound to the size of the GridWorld"
    bool okBound = true;
    for (int k = 0; k < 12; ++k) {
        const int x = (int)rng.range(-3 * W - 1, 3 * W + 1), y = (int)rng.range(-3 * H - 1, 3 * H + 1);
        const AM::GridWorld::State st = g(x, y);
        const int rx = refBound(x, W, torus), ry = refBound(y, H, torus);
        okBound = okBound && static_cast<size_t>(st) < S && (int)st.getX() == rx && (int)st.getY() == ry
                          && static_cast<size_t>(st) == (size_t)(rx + ry * W);
    }
    put("GridWorld.operator_xy_bounds_coordinates", okBound);

    // adjacency: both overloads agree, result in the grid, matches an independent recomputation, symmetric as a relation
    static const int dx[8] = {0, 1, 0, -1, 1, -1, 1, -1};
    static const int dy[8] = {-1, 0, 1, 0, -1, -1, 1, 1};
    bool okAdj = true, okSym = true, okDist1 = true;
    for (size_t s = 0; s < S; ++s) {
        const AM::GridWorld::State st = g(s);
        for (size_t d = 0; d < 8; ++d) {
            const AM::GridWorld::State t1 = g.getAdjacent(Directions8[d], st);
            const AM::GridWorld::State t2 = g.getAdjacent(d, st);
            const size_t ref = (size_t)(refBound((int)st.getX() + dx[d], W, torus) + refBound((int)st.getY() + dy[d], H, torus) * W);
            okAdj = okAdj && (t1 == t2) && static_cast<size_t>(t1) < S && static_cast<size_t>(t1) == ref;
            // symmetry: s is among the neighbours (same neighbourhood size) of every neighbour t of s
            const size_t nd = d < 4 ? 4 : 8;
            bool found = false;
            for (size_t e = 0; e < nd; ++e) found = found || (g.getAdjacent(e, t1) == st);
            okSym = okSym && found;
            if (d < 4) {
                const unsigned dist = g.distance(st, t1);
                okDist1 = okDist1 && (t1 == st ? dist == 0u : dist == 1u);
            }
        }
    }
    put("GridWorld.getAdjacent_overloads_agree_and_in_grid", okAdj);
    put("GridWorld.getAdjacent_symmetric", okSym);
    put("GridWorld.distance_of_4_neighbour_is_one", okDist1);

    // distance: symmetric, zero iff equal, triangle inequality, equals the Manhattan (torus) formula
    bool okDist = true;
    for (size_t s = 0; s < S; ++s) for (size_t t = 0; t < S; ++t) {
        const AM::GridWorld::State a = g(s), b = g(t);
        const unsigned d = g.distance(a, b);
        int ax = std::abs((int)a.getX() - (int)b.getX()), ay = std::abs((int)a.getY() - (int)b.getY());
        if (torus) { ax = std::min(ax, W - ax); ay = std::min(ay, H - ay); }
        okDist = okDist && d == g.distance(b, a) && ((d == 0u) == (a == b)) && d == (unsigned)(ax + ay);
    }
    for (int k = 0; k < 10; ++k) {
        const AM::GridWorld::State a = g((size_t)rng.below(S)), b = g((size_t)rng.below(S)), c = g((size_t)rng.below(S));
        okDist = okDist && g.distance(a, c) <= g.distance(a, b) + g.distance(b, c);
    }
    put("GridWorld.distance_is_a_metric", okDist);
}

// ------------------------------------------------------------------------------------------------------------------
// makeCliffProblem / makeCornerProblem
inline void gridProblems(verif::Rng & rng) {
    AIToolbox::Seeder::setRootSeed((unsigned)rng.next());
    {   // cliff: the documented layout (flat grid, start and goal below two different bottom cells)
        const unsigned w = (unsigned)rng.range(2, 5), h = (unsigned)rng.range(1, 4);
        std::printf(h == 1 ? "#stat api_cliff_single_row 1\n" : "#stat api_cliff_general 1\n");
        const AM::GridWorld g(w, h);
        const AM::SparseModel m = AM::makeCliffProblem(g);
        put("makeCliffProblem.S_A_match_grid", m.getS() == g.getS() + 2 && m.getA() == 4);
        put("makeCliffProblem.transition_rows_sum_to_one", rowsStochastic(m));
        bool okSample = true;
        for (size_t s = 0; s < m.getS(); ++s) for (size_t a = 0; a < 4; ++a) {
            const auto [s1, r] = m.sampleSR(s, a);
            okSample = okSample && s1 < m.getS() && m.getTransitionProbability(s, a, s1) == 1.0      // "fully deterministic"
                                && (r == 0.0 || r == -1.0 || r == -100.0);
        }
        put("makeCliffProblem.deterministic_moves_in_range", okSample);
        // goal self-absorbing, start is left only upwards
        const size_t start = m.getS() - 2, goal = m.getS() - 1;
        bool okGoal = m.isTerminal(goal) && !m.isTerminal(start)
                   && m.getTransitionProbability(start, AM::GridWorldUtils::UP, (size_t)(h - 1) * w) == 1.0
                   && m.getTransitionProbability(m.getS() - 3, AM::GridWorldUtils::DOWN, goal) == 1.0;
        put("makeCliffProblem.start_and_goal_attached", okGoal);
    }
    {   // cliff on grids the picture does not show (one column; torus): the call must return a valid model or
        // reject the grid with std::invalid_argument (the SparseModel constructor's documented exception) — never UB
        const bool torus = rng.coin();
        const unsigned w = torus ? (unsigned)rng.range(1, 4) : 1u, h = (unsigned)rng.range(1, 4);
        std::printf(torus ? "#stat api_cliff_torus 1\n" : "#stat api_cliff_one_column 1\n");
        const AM::GridWorld g(w, h, torus);
        bool ok = true;
        try {
            const AM::SparseModel m = AM::makeCliffProblem(g);
            ok = m.getS() == g.getS() + 2 && m.getA() == 4 && rowsStochastic(m);
        } catch (const std::invalid_argument &) { std::printf("#stat api_cliff_degenerate_rejected 1\n"); }
        catch (...) { ok = false; }
        put("makeCliffProblem.degenerate_grid_valid_or_invalid_argument", ok);
    }
    {   // corner
        const unsigned w = (unsigned)rng.range(1, 5), h = (unsigned)rng.range(1, 5);
        const bool torus = rng.coin();
        const AM::GridWorld g(w, h, torus);
        std::printf(torus ? "#stat api_corner_torus 1\n" : "#stat api_corner_flat 1\n");
        const bool dflt = rng.coin(1, 3);
        const double u = dflt ? 0.8 : rng.dyadic(3);      // includes 0 and 1
        const AM::Model m = dflt ? AM::makeCornerProblem(g) : AM::makeCornerProblem(g, u);
        put("makeCornerProblem.S_A_match_grid", m.getS() == g.getS() && m.getA() == 4 && m.getDiscount() == 0.95);
        put("makeCornerProblem.transition_rows_sum_to_one", rowsStochastic(m));
        bool ok = m.isTerminal(0) && m.isTerminal(m.getS() - 1);
        for (size_t s = 0; s < m.getS(); ++s) for (size_t a = 0; a < 4; ++a) {
            const auto [s1, r] = m.sampleSR(s, a);
            const size_t adj = g.getAdjacent(a, g(s));
            ok = ok && s1 < m.getS() && (s1 == s || s1 == adj) && r <= 0.0 && r >= -1.0;      // expected reward of a -1 step
            if (s != 0 && s != m.getS() - 1 && adj != s) ok = ok && near(m.getTransitionProbability(s, a, adj), u, 1e-12);
        }
        put("makeCornerProblem.moves_stay_or_step", ok);
    }
}

// ------------------------------------------------------------------------------------------------------------------
// model-taking constructors of the tabular learners
template <class M> inline void learnersOn(verif::Rng & rng, const M & model, const char * tag) {
    const size_t S = model.getS(), A = model.getA();
    const double disc = model.getDiscount();
    auto alphaDraw = [&] { return (double)rng.range(1, 8) / 8.0; };   // (0,1]
    const std::string T = tag;
    {   // DoubleQLearning(const M &, double), getQFunctionB
        const double alpha = alphaDraw();
        AM::DoubleQLearning dq(model, alpha);
        bool ok = dq.getS() == S && dq.getA() == A && dq.getDiscount() == disc && dq.getLearningRate() == alpha;
        AM::QFunction b0 = dq.getQFunctionB();
        ok = ok && (size_t)b0.rows() == S && (size_t)b0.cols() == A && b0.isZero(0.0);
        put("DoubleQLearning.model_ctor_copies_S_A_discount_" + T, ok);
        bool okB = true;
        for (int k = 0; k < 12; ++k) {
            const size_t s = rng.below(S), a = rng.below(A);
            const auto [s1, r] = model.sampleSR(s, a);
            dq.stepUpdateQ(s, a, s1, r);
            const AM::QFunction b = dq.getQFunctionB();
            // documented: getQFunction() is the sum of the two QFunctions
            const AM::QFunction diff = dq.getQFunctionA() + b - dq.getQFunction();
            const double scale = 1.0 + dq.getQFunction().cwiseAbs().maxCoeff();
            okB = okB && finiteMatrix(b) && diff.cwiseAbs().maxCoeff() <= 1e-9 * scale;
        }
        put("DoubleQLearning.getQFunctionB_plus_A_is_sum_" + T, okB);
        AM::DoubleQLearning dflt(model);
        put("DoubleQLearning.model_ctor_default_alpha_" + T, dflt.getLearningRate() == 0.1 && dflt.getQFunctionB().isZero(0.0));
        put("DoubleQLearning.model_ctor_rejects_bad_alpha_" + T,
            throwsAs<std::invalid_argument>([&] { AM::DoubleQLearning bad(model, 0.0); }) &&
            throwsAs<std::invalid_argument>([&] { AM::DoubleQLearning bad(model, 1.5); }));
    }
    {   // HystereticQLearning(const M &, double, double)
        const double alpha = alphaDraw(), beta = (double)rng.range(0, 8) / 8.0;   // beta may be 0
        AM::HystereticQLearning hq(model, alpha, beta);
        bool ok = hq.getS() == S && hq.getA() == A && hq.getDiscount() == disc
               && hq.getPositiveLearningRate() == alpha && hq.getNegativeLearningRate() == beta
               && (size_t)hq.getQFunction().rows() == S && (size_t)hq.getQFunction().cols() == A;
        for (int k = 0; k < 8; ++k) {
            const size_t s = rng.below(S), a = rng.below(A);
            const auto [s1, r] = model.sampleSR(s, a);
            hq.stepUpdateQ(s, a, s1, r);
        }
        ok = ok && finiteMatrix(hq.getQFunction());
        AM::HystereticQLearning dflt(model);
        ok = ok && dflt.getPositiveLearningRate() == 0.1 && dflt.getNegativeLearningRate() == 0.01;
        put("HystereticQLearning.model_ctor_copies_S_A_discount_" + T, ok);
        put("HystereticQLearning.model_ctor_rejects_bad_rates_" + T,
            throwsAs<std::invalid_argument>([&] { AM::HystereticQLearning bad(model, 0.0, 0.0); }) &&
            throwsAs<std::invalid_argument>([&] { AM::HystereticQLearning bad(model, 0.5, -0.125); }) &&
            throwsAs<std::invalid_argument>([&] { AM::HystereticQLearning bad(model, 0.5, 1.125); }));
    }
    {   // RLearning(const M &, double, double), setAlphaLearningRate, setRhoLearningRate
        const double alpha = alphaDraw(), rho = alphaDraw();
        AM::RLearning rl(model, alpha, rho);
        bool ok = rl.getS() == S && rl.getA() == A && rl.getAlphaLearningRate() == alpha && rl.getRhoLearningRate() == rho
               && rl.getAverageReward() == 0.0;
        put("RLearning.model_ctor_copies_S_A_" + T, ok);
        const double a2 = alphaDraw(), r2 = alphaDraw();
        rl.setAlphaLearningRate(a2);
        bool okSet = rl.getAlphaLearningRate() == a2 && rl.getRhoLearningRate() == rho;
        rl.setRhoLearningRate(r2);
        okSet = okSet && rl.getAlphaLearningRate() == a2 && rl.getRhoLearningRate() == r2;
        rl.setAlphaLearningRate(1.0); rl.setRhoLearningRate(1.0);                         // closed upper end
        okSet = okSet && rl.getAlphaLearningRate() == 1.0 && rl.getRhoLearningRate() == 1.0;
        rl.setAlphaLearningRate(a2); rl.setRhoLearningRate(r2);
        put("RLearning.learning_rate_setters_round_trip_" + T, okSet);
        bool okThrow = throwsAs<std::invalid_argument>([&] { rl.setAlphaLearningRate(0.0); })
                    && throwsAs<std::invalid_argument>([&] { rl.setAlphaLearningRate(1.0 + 1.0 / 1024); })
                    && throwsAs<std::invalid_argument>([&] { rl.setRhoLearningRate(-0.5); })
                    && throwsAs<std::invalid_argument>([&] { rl.setRhoLearningRate(2.0); })
                    && rl.getAlphaLearningRate() == a2 && rl.getRhoLearningRate() == r2;   // unchanged by a rejected call
        put("RLearning.learning_rate_setters_reject_out_of_range_" + T, okThrow);
        for (int k = 0; k < 8; ++k) {
            const size_t s = rng.below(S), a = rng.below(A);
            const auto [s1, r] = model.sampleSR(s, a);
            rl.stepUpdateQ(s, a, s1, r);
        }
        put("RLearning.updates_after_setters_finite_" + T, finiteMatrix(rl.getQFunction()) && std::isfinite(rl.getAverageReward()));
    }
    {   // SARSA(const M &, double)
        const double alpha = alphaDraw();
        AM::SARSA sa(model, alpha);
        bool ok = sa.getS() == S && sa.getA() == A && sa.getDiscount() == disc && sa.getLearningRate() == alpha;
        size_t s = rng.below(S), a = rng.below(A);
        for (int k = 0; k < 8; ++k) {
            const auto [s1, r] = model.sampleSR(s, a);
            const size_t a1 = rng.below(A);
            sa.stepUpdateQ(s, a, s1, a1, r);
            s = s1; a = a1;
        }
        ok = ok && finiteMatrix(sa.getQFunction());
        AM::SARSA dflt(model);
        ok = ok && dflt.getLearningRate() == 0.1;
        put("SARSA.model_ctor_copies_S_A_discount_" + T, ok);
        put("SARSA.model_ctor_rejects_bad_alpha_" + T, throwsAs<std::invalid_argument>([&] { AM::SARSA bad(model, -0.25); }));
    }
}
inline void learners(verif::Rng & rng) {
    AIToolbox::Seeder::setRootSeed((unsigned)rng.next());
    const size_t S = (size_t)rng.range(1, 4), A = (size_t)rng.range(1, 3);
    const auto tab = verif::randomMdp(rng, S, A);
    switch (rng.below(3)) {
        case 0: { std::printf("#stat api_learners_dense_model 1\n"); const AM::Model m = verif::toDense(tab); learnersOn(rng, m, "Model"); break; }
        case 1: { std::printf("#stat api_learners_sparse_model 1\n"); const AM::Model d = verif::toDense(tab); const AM::SparseModel m(d); learnersOn(rng, m, "SparseModel"); break; }
        default: {
            std::printf("#stat api_learners_corner_grid 1\n");
            const AM::GridWorld g((unsigned)rng.range(1, 3), (unsigned)rng.range(1, 3), rng.coin());
            const AM::Model m = AM::makeCornerProblem(g); learnersOn(rng, m, "CornerModel"); break;
        }
    }
}

// ------------------------------------------------------------------------------------------------------------------
// Dyna2, DynaQ, PrioritizedSweeping parameter accessors
inline void planners(verif::Rng & rng) {
    AIToolbox::Seeder::setRootSeed((unsigned)rng.next());
    const size_t S = (size_t)rng.range(1, 4), A = (size_t)rng.range(1, 3);
    const auto tab = verif::randomMdp(rng, S, A);
    const AM::Model model = verif::toDense(tab);
    std::printf(S == 1 ? "#stat api_planners_single_state 1\n" : "#stat api_planners_general 1\n");
    {   // Dyna2
        const double alpha = (double)rng.range(1, 8) / 8.0, lambda0 = rng.dyadic(3), tol0 = std::ldexp(1.0, -(int)rng.range(1, 12));
        const unsigned n = (unsigned)rng.range(0, 6);
        AM::Dyna2<AM::Model> d2(model, alpha, lambda0, tol0, n);
        bool ok = d2.getPermanentLambda() == lambda0 && d2.getTransientLambda() == lambda0 && d2.getTolerance() == tol0 && d2.getN() == n;
        const double lp = rng.dyadic(3), lt = rng.dyadic(3);
        d2.setPermanentLambda(lp);
        ok = ok && d2.getPermanentLambda() == lp && d2.getTransientLambda() == lambda0;      // independent of each other
        d2.setTransientLambda(lt);
        ok = ok && d2.getPermanentLambda() == lp && d2.getTransientLambda() == lt;
        const double tol = rng.coin(1, 4) ? 0.0 : std::ldexp(1.0, -(int)rng.range(0, 20));
        d2.setTolerance(tol);
        ok = ok && d2.getTolerance() == tol && d2.getPermanentLambda() == lp && d2.getTransientLambda() == lt;
        put("Dyna2.lambda_and_tolerance_setters_round_trip", ok);
        bool okThrow = throwsAs<std::invalid_argument>([&] { d2.setPermanentLambda(-0.125); })
                    && throwsAs<std::invalid_argument>([&] { d2.setPermanentLambda(1.125); })
                    && d2.getPermanentLambda() == lp && d2.getTransientLambda() == lt;
        put("Dyna2.setPermanentLambda_rejects_out_of_range", okThrow);
        // the stored values are used
        size_t s = rng.below(S), a = rng.below(A);
        for (int k = 0; k < 6; ++k) {
            const auto [s1, r] = model.sampleSR(s, a);
            const size_t a1 = rng.below(A);
            d2.stepUpdateQ(s, a, s1, a1, r);
            if (rng.coin(1, 3)) d2.batchUpdateQ(s1);
            if (rng.coin(1, 4)) d2.resetTransientLearning();
            s = s1; a = a1;
        }
        put("Dyna2.updates_after_setters_finite", finiteMatrix(d2.getPermanentQFunction()) && finiteMatrix(d2.getTransientQFunction())
                                                  && d2.getTolerance() == tol && d2.getPermanentLambda() == lp);
    }
    {   // DynaQ
        const double alpha = (double)rng.range(1, 8) / 8.0;
        const unsigned n = (unsigned)rng.range(0, 6);
        AM::DynaQ<AM::Model> dq(model, alpha, n);
        bool ok = dq.getLearningRate() == alpha && dq.getN() == n;
        dq.batchUpdateQ();                                              // nothing visited yet: documented no-op
        ok = ok && dq.getQFunction().isZero(0.0);
        const double a2 = (double)rng.range(1, 8) / 8.0;
        dq.setLearningRate(a2);
        ok = ok && dq.getLearningRate() == a2;
        ok = ok && throwsAs<std::invalid_argument>([&] { dq.setLearningRate(0.0); }) && dq.getLearningRate() == a2;
        for (int k = 0; k < 6; ++k) {
            const size_t s = rng.below(S), a = rng.below(A);
            const auto [s1, r] = model.sampleSR(s, a);
            dq.stepUpdateQ(s, a, s1, r);
            if (rng.coin()) dq.batchUpdateQ();
        }
        ok = ok && finiteMatrix(dq.getQFunction()) && dq.getLearningRate() == a2;
        AM::DynaQ<AM::Model> dflt(model);
        ok = ok && dflt.getLearningRate() == 0.5 && dflt.getN() == 50;
        put("DynaQ.getLearningRate_returns_stored", ok);
    }
    {   // PrioritizedSweeping::setQueueThreshold
        const double th0 = rng.dyadic(3);
        AM::PrioritizedSweeping<AM::Model> ps(model, th0, (unsigned)rng.range(0, 6));
        bool ok = ps.getQueueThreshold() == th0;
        const double th = rng.coin(1, 3) ? 0.0 : std::ldexp((double)rng.range(1, 16), -(int)rng.range(0, 10));
        ps.setQueueThreshold(th);
        ok = ok && ps.getQueueThreshold() == th;
        put("PrioritizedSweeping.setQueueThreshold_round_trip", ok);
        put("PrioritizedSweeping.setQueueThreshold_rejects_negative",
            throwsAs<std::invalid_argument>([&] { ps.setQueueThreshold(-std::ldexp(1.0, -30)); }) && ps.getQueueThreshold() == th);
        bool okRun = true;
        for (int k = 0; k < 6; ++k) {
            ps.stepUpdateQ(rng.below(S), rng.below(A));
            okRun = okRun && ps.getQueueLength() <= S * A;
            if (rng.coin()) { ps.batchUpdateQ(); okRun = okRun && ps.getQueueLength() <= S * A; }
            if (rng.coin(1, 4)) ps.setQueueThreshold(rng.coin() ? 0.0 : th + 1.0);
        }
        okRun = okRun && finiteMatrix(ps.getQFunction());
        for (size_t s = 0; s < S; ++s) okRun = okRun && ps.getValueFunction().actions[s] < A;
        put("PrioritizedSweeping.sweeps_after_setter_in_range", okRun);
    }
}

// ------------------------------------------------------------------------------------------------------------------
// learned models: sampleSR(s,a) / isTerminal(s), visited and unvisited pairs
struct Shadow {                               // independent record of what was put into the experience
    size_t S, A;
    std::vector<unsigned long> n;             // [s][a][s1]
    unsigned long at(size_t s, size_t a, size_t s1) const { return n[(s * A + a) * S + s1]; }
    unsigned long sum(size_t s, size_t a) const { unsigned long t = 0; for (size_t s1 = 0; s1 < S; ++s1) t += at(s, a, s1); return t; }
};
template <class E> inline Shadow fillExperience(verif::Rng & rng, E & exp, size_t S, size_t A) {
    Shadow sh{S, A, std::vector<unsigned long>(S * A * S, 0)};
    // a random subset of the pairs stays unvisited; a terminal candidate state loops on itself under every action
    const size_t loopState = rng.below(S + 1);                        // == S: none
    for (size_t s = 0; s < S; ++s) for (size_t a = 0; a < A; ++a) {
        if (rng.coin(1, 3)) continue;                                 // unvisited
        const int cnt = (int)rng.range(1, 5);
        const bool single = rng.coin(1, 3);
        const size_t only = rng.below(S);
        for (int k = 0; k < cnt; ++k) {
            const size_t s1 = (s == loopState) ? s : (single ? only : rng.below(S));
            exp.record(s, a, s1, verif::dyadicReward(rng));
            ++sh.n[(s * A + a) * S + s1];
        }
    }
    return sh;
}
// Maximum-likelihood flavoured models (dense and sparse storage): after a full sync the rows are exactly visits/sum
template <class Mod, class E> inline void mlCase(verif::Rng & rng, const char * name, bool syncInCtor) {
    const size_t S = (size_t)rng.range(1, 4), A = (size_t)rng.range(1, 3);
    E exp(S, A);
    const Shadow sh = fillExperience(rng, exp, S, A);
    const double disc = (double)rng.range(1, 8) / 8.0;
    Mod model(exp, disc, syncInCtor);
    const std::string N = name;

    if (!syncInCtor) {
        // documented default: every state loops on itself with probability 1 whatever the action
        bool ok = true;
        for (size_t s = 0; s < S; ++s) {
            ok = ok && model.isTerminal(s);
            for (size_t a = 0; a < A; ++a) { const auto [s1, r] = model.sampleSR(s, a); ok = ok && s1 == s && r == 0.0; }
        }
        put(N + ".unsynced_model_is_self_absorbing", ok);
        model.sync();
    }
    bool okSample = true, okTerm = true;
    for (int rep = 0; rep < 3; ++rep)
    for (size_t s = 0; s < S; ++s) for (size_t a = 0; a < A; ++a) {
        const auto [s1, r] = model.sampleSR(s, a);
        okSample = okSample && s1 < S;
        const unsigned long tot = sh.sum(s, a);
        if (tot == 0) okSample = okSample && s1 == s && r == 0.0;                        // never seen: self loop, no reward
        else {
            okSample = okSample && r == exp.getReward(s, a);
            for (size_t t = 0; t < S; ++t) if (sh.at(s, a, t) == tot) okSample = okSample && s1 == t;   // one successor only
        }
    }
    for (size_t s = 0; s < S; ++s) {
        bool expect = true;
        for (size_t a = 0; a < A; ++a) { const unsigned long tot = sh.sum(s, a); if (tot != 0 && sh.at(s, a, s) != tot) expect = false; }
        okTerm = okTerm && model.isTerminal(s) == expect;
    }
    put(N + ".sampleSR_in_range_and_consistent_with_counts", okSample);
    put(N + ".isTerminal_iff_all_actions_self_loop", okTerm);

    // a few more records with the incremental syncs, then sample again
    bool okInc = true;
    for (int k = 0; k < 4; ++k) {
        const size_t s = rng.below(S), a = rng.below(A), s1 = rng.below(S);
        exp.record(s, a, s1, verif::dyadicReward(rng));
        if (rng.coin()) model.sync(s, a, s1); else model.sync(s, a);
        const auto [t, r] = model.sampleSR(s, a);
        okInc = okInc && t < S && near(r, exp.getReward(s, a), 1e-9 * (1.0 + std::fabs(r))) && (model.isTerminal(s) || true);
        double sum = 0.0;
        for (size_t u = 0; u < S; ++u) sum += model.getTransitionProbability(s, a, u);
        okInc = okInc && near(sum, 1.0);
    }
    put(N + ".sampleSR_after_incremental_sync_in_range", okInc);
}
template <class E> inline void thompsonCase(verif::Rng & rng, const char * name) {
    const size_t S = (size_t)rng.range(1, 4), A = (size_t)rng.range(1, 3);
    E exp(S, A);
    const Shadow sh = fillExperience(rng, exp, S, A);
    AM::ThompsonModel<E> model(exp, (double)rng.range(1, 8) / 8.0);
    const std::string N = name;
    bool okSample = true, okTerm = true;
    for (int rep = 0; rep < 2; ++rep) {
        for (size_t s = 0; s < S; ++s) for (size_t a = 0; a < A; ++a) {
            const auto [s1, r] = model.sampleSR(s, a);
            okSample = okSample && s1 < S && std::isfinite(r);
            if (S == 1) okSample = okSample && s1 == 0;
        }
        for (size_t s = 0; s < S; ++s) {
            double lo = 1.0;
            for (size_t a = 0; a < A; ++a) lo = std::min(lo, model.getTransitionProbability(s, a, s));
            const bool term = model.isTerminal(s);
            if (lo >= 1.0 - 1e-9) okTerm = okTerm && term;            // clear of the library's 1e-6 comparison width
            if (lo <= 1.0 - 1e-3) okTerm = okTerm && !term;
        }
        // resample the rows, record something new, and go round again
        const size_t s = rng.below(S), a = rng.below(A);
        exp.record(s, a, rng.below(S), verif::dyadicReward(rng));
        if (rng.coin()) model.sync(); else model.sync(s, a);
    }
    (void)sh;
    put(N + ".sampleSR_in_range", okSample);
    put(N + ".isTerminal_consistent_with_rows", okTerm);
}
inline void learnedModels(verif::Rng & rng, long sub) {
    AIToolbox::Seeder::setRootSeed((unsigned)rng.next());
    const bool syncInCtor = rng.coin();
    switch (sub % 6) {
        case 0: std::printf("#stat api_learned_ml_dense_exp 1\n");
                mlCase<AM::MaximumLikelihoodModel<AM::Experience>, AM::Experience>(rng, "MaximumLikelihoodModel_Experience", syncInCtor); break;
        case 1: std::printf("#stat api_learned_ml_sparse_exp 1\n");
                mlCase<AM::MaximumLikelihoodModel<AM::SparseExperience>, AM::SparseExperience>(rng, "MaximumLikelihoodModel_SparseExperience", syncInCtor); break;
        case 2: std::printf("#stat api_learned_sml_dense_exp 1\n");
                mlCase<AM::SparseMaximumLikelihoodModel<AM::Experience>, AM::Experience>(rng, "SparseMaximumLikelihoodModel_Experience", syncInCtor); break;
        case 3: std::printf("#stat api_learned_sml_sparse_exp 1\n");
                mlCase<AM::SparseMaximumLikelihoodModel<AM::SparseExperience>, AM::SparseExperience>(rng, "SparseMaximumLikelihoodModel_SparseExperience", syncInCtor); break;
        case 4: std::printf("#stat api_learned_thompson_dense_exp 1\n");
                thompsonCase<AM::Experience>(rng, "ThompsonModel_Experience"); break;
        default: std::printf("#stat api_learned_thompson_sparse_exp 1\n");
                thompsonCase<AM::SparseExperience>(rng, "ThompsonModel_SparseExperience"); break;
    }
}

// ------------------------------------------------------------------------------------------------------------------
// POMDP solvers: setTolerance + run on the tiger problem
inline bool vfWellFormed(const AP::ValueFunction & vf, size_t S, size_t A, size_t maxLen) {
    if (vf.empty() || vf.size() > maxLen) return false;
    for (const auto & vl : vf) {
        if (vl.empty()) return false;
        for (const auto & e : vl) {
            if ((size_t)e.values.size() != S || e.action >= A) return false;
            for (long i = 0; i < e.values.size(); ++i) if (!std::isfinite(e.values[i])) return false;
        }
    }
    return true;
}
// tolerance draw: 0 (forces the full horizon), tiny, moderate
inline double tolDraw(verif::Rng & rng) {
    switch (rng.below(4)) { case 0: return 0.0; case 1: return std::ldexp(1.0, -40); case 2: return std::ldexp(1.0, -(int)rng.range(1, 10)); default: return (double)rng.range(1, 64); }
}
// shared: getter returns what the setter stored; negative is rejected with invalid_argument and leaves the value alone
template <class Solver> inline bool tolRoundTrip(verif::Rng & rng, Solver & solver, double t0, double & tOut) {
    bool ok = solver.getTolerance() == t0;
    const double t = tolDraw(rng);
    solver.setTolerance(t);
    ok = ok && solver.getTolerance() == t;
    ok = ok && throwsAs<std::invalid_argument>([&] { solver.setTolerance(-std::ldexp(1.0, -(int)rng.range(0, 60))); }) && solver.getTolerance() == t;
    solver.setTolerance(0.0); ok = ok && solver.getTolerance() == 0.0;          // boundary is accepted
    solver.setTolerance(t);
    tOut = t;
    return ok;
}
inline void pomdpSolvers(verif::Rng & rng, long sub) {
    AIToolbox::Seeder::setRootSeed((unsigned)rng.next());
    const auto tiger = AP::makeTigerProblem();
    const size_t S = tiger.getS(), A = tiger.getA(), O = tiger.getO();
    const unsigned horizon = (unsigned)rng.range(1, 2);
    const double t0 = tolDraw(rng);
    double t = 0.0;
    std::printf(horizon == 1 ? "#stat api_pomdp_horizon1 1\n" : "#stat api_pomdp_horizon2 1\n");
    switch (sub % 9) {
        case 0: {
            AP::BlindStrategies solver(horizon, t0);
            put("BlindStrategies.setTolerance_round_trip_and_rejects_negative", tolRoundTrip(rng, solver, t0, t));
            const auto [var, vl] = solver(tiger, rng.coin());
            bool ok = var >= 0.0 && vl.size() == A;
            for (size_t a = 0; a < vl.size(); ++a) ok = ok && vl[a].action == a && (size_t)vl[a].values.size() == S && std::isfinite(vl[a].values[0]);
            put("BlindStrategies.run_after_setTolerance_in_range", ok && solver.getTolerance() == t);
            break;
        }
        case 1: {
            AP::FastInformedBound solver(horizon, t0);
            put("FastInformedBound.setTolerance_round_trip_and_rejects_negative", tolRoundTrip(rng, solver, t0, t));
            const auto [var, q] = solver(tiger);
            put("FastInformedBound.run_after_setTolerance_in_range",
                var >= 0.0 && (size_t)q.rows() == S && (size_t)q.cols() == A && finiteMatrix(q) && solver.getTolerance() == t);
            break;
        }
        case 2: {
            AP::IncrementalPruning solver(horizon, t0);
            put("IncrementalPruning.setTolerance_round_trip_and_rejects_negative", tolRoundTrip(rng, solver, t0, t));
            const auto [var, vf] = solver(tiger);
            put("IncrementalPruning.run_after_setTolerance_in_range",
                var >= 0.0 && vfWellFormed(vf, S, A, horizon + 1) && (t != 0.0 || vf.size() == horizon + 1) && solver.getTolerance() == t);
            break;
        }
        case 3: {
            AP::LinearSupport solver(horizon, t0);
            put("LinearSupport.setTolerance_round_trip_and_rejects_negative", tolRoundTrip(rng, solver, t0, t));
            const auto [var, vf] = solver(tiger);
            put("LinearSupport.run_after_setTolerance_in_range",
                var >= 0.0 && vfWellFormed(vf, S, A, horizon + 1) && (t != 0.0 || vf.size() == horizon + 1) && solver.getTolerance() == t);
            break;
        }
        case 4: {
            AP::PBVI solver((size_t)rng.range(1, 6), horizon, t0);
            put("PBVI.setTolerance_round_trip_and_rejects_negative", tolRoundTrip(rng, solver, t0, t));
            const auto [var, vf] = solver(tiger);
            put("PBVI.run_after_setTolerance_in_range",
                var >= 0.0 && vfWellFormed(vf, S, A, horizon + 1) && (t != 0.0 || vf.size() == horizon + 1) && solver.getTolerance() == t);
            break;
        }
        case 5: {
            AP::PERSEUS solver((size_t)rng.range(1, 6), horizon, t0);
            put("PERSEUS.setTolerance_round_trip_and_rejects_negative", tolRoundTrip(rng, solver, t0, t));
            auto discounted = tiger; discounted.setDiscount(0.75);              // documented precondition of PERSEUS: the discount is not 1 (makeTigerProblem() leaves it at 1)
            const auto [var, vf] = solver(discounted, -100.0);                  // the smallest reward of the tiger problem
            put("PERSEUS.run_after_setTolerance_in_range",
                var >= 0.0 && vfWellFormed(vf, S, A, horizon + 1) && (t != 0.0 || vf.size() == horizon + 1) && solver.getTolerance() == t);
            break;
        }
        case 6: {
            AP::Witness solver(horizon, t0);
            put("Witness.setTolerance_round_trip_and_rejects_negative", tolRoundTrip(rng, solver, t0, t));
            const auto [var, vf] = solver(tiger);
            put("Witness.run_after_setTolerance_in_range",
                var >= 0.0 && vfWellFormed(vf, S, A, horizon + 1) && (t != 0.0 || vf.size() == horizon + 1) && solver.getTolerance() == t);
            break;
        }
        case 7: {   // QMDP: setTolerance, setHorizon, getTolerance, getHorizon
            const unsigned h0 = (unsigned)rng.range(0, 5);
            AP::QMDP solver(h0, t0);
            bool ok = solver.getHorizon() == h0;
            ok = tolRoundTrip(rng, solver, t0, t) && ok;
            const unsigned h = (unsigned)rng.range(1, 6);
            solver.setHorizon(h);
            ok = ok && solver.getHorizon() == h && solver.getTolerance() == t;
            solver.setHorizon(0); ok = ok && solver.getHorizon() == 0; solver.setHorizon(h);
            put("QMDP.tolerance_and_horizon_setters_round_trip", ok);
            const auto [var, vf, q] = solver(tiger);
            bool okRun = var >= 0.0 && vfWellFormed(vf, S, A, 2) && vf.size() == 2 && vf[1].size() == A
                      && (size_t)q.rows() == S && (size_t)q.cols() == A && finiteMatrix(q);
            for (size_t a = 0; okRun && a < A; ++a) {
                okRun = okRun && vf[1][a].action == a && vf[1][a].observations.size() == O;
                for (size_t s = 0; s < S; ++s) okRun = okRun && vf[1][a].values[s] == q(s, a);
            }
            put("QMDP.run_after_setters_matches_qfunction", okRun && solver.getHorizon() == h && solver.getTolerance() == t);
            break;
        }
        default: {  // GapMin::setInitialTolerance
            const unsigned digits = 1;
            AP::GapMin solver(t0, digits);
            bool ok = solver.getInitialTolerance() == t0 && solver.getPrecisionDigits() == digits;
            t = std::ldexp(1.0, -(int)rng.range(0, 7));
            solver.setInitialTolerance(t);
            ok = ok && solver.getInitialTolerance() == t;
            solver.setInitialTolerance(0.0); ok = ok && solver.getInitialTolerance() == 0.0;
            solver.setInitialTolerance(t);
            put("GapMin.setInitialTolerance_round_trip", ok);
            // the header says std::runtime_error, the implementation (like every sibling) throws std::invalid_argument:
            // only "an exception derived from std::exception and the value is unchanged" is required here
            put("GapMin.setInitialTolerance_rejects_negative",
                throwsAs<std::exception>([&] { solver.setInitialTolerance(-0.5); }) && solver.getInitialTolerance() == t);
            // Not the tiger problem here: GapMin on makeTigerProblem() does not return within 120 s for any initial
            // tolerance / 1-2 precision digits (reported); a tiny strongly discounted POMDP exercises the same path in < 20 ms.
            const size_t gS = (size_t)rng.range(1, 2), gA = (size_t)rng.range(1, 2), gO = (size_t)rng.range(1, 2);
            auto tab = verif::randomPomdp(rng, gS, gA, gO); tab.discount = 0.5;
            const auto small = verif::toDense(tab);
            const AP::Belief b = verif::dyadicBelief(rng, gS);
            const auto [lb, ub, vl, q] = solver(small, b);
            bool okRun = std::isfinite(lb) && std::isfinite(ub) && lb <= ub + 1e-6 * (1.0 + std::fabs(ub))
                      && !vl.empty() && (size_t)q.cols() == gA && solver.getInitialTolerance() == t;
            for (const auto & e : vl) okRun = okRun && e.action < gA && (size_t)e.values.size() == gS;
            put("GapMin.run_after_setInitialTolerance_bounds_ordered", okRun);
            break;
        }
    }
}

// ------------------------------------------------------------------------------------------------------------------
// makeChengD35, makeEJS4
template <class P> inline bool validPomdp(const P & m, size_t S, size_t A, size_t O) {
    if (m.getS() != S || m.getA() != A || m.getO() != O) return false;
    if (!(m.getDiscount() > 0.0 && m.getDiscount() <= 1.0)) return false;
    for (size_t a = 0; a < A; ++a) for (size_t s = 0; s < S; ++s) {
        double ts = 0.0, os = 0.0;
        for (size_t s1 = 0; s1 < S; ++s1) { const double p = m.getTransitionProbability(s, a, s1); if (!(p >= 0.0 && p <= 1.0)) return false; ts += p; }
        for (size_t o = 0; o < O; ++o) { const double p = m.getObservationProbability(s, a, o); if (!(p >= 0.0 && p <= 1.0)) return false; os += p; }
        if (!near(ts, 1.0) || !near(os, 1.0)) return false;
        for (size_t s1 = 0; s1 < S; ++s1) if (!std::isfinite(m.getExpectedReward(s, a, s1))) return false;
    }
    return true;
}
inline void pomdpEnvironments(verif::Rng & rng) {
    AIToolbox::Seeder::setRootSeed((unsigned)rng.next());
    {
        const auto m = AP::makeChengD35();
        put("makeChengD35.is_valid_pomdp_3_3_3", validPomdp(m, 3, 3, 3));
        bool ok = true;
        for (int k = 0; k < 6; ++k) {
            const auto [s1, o, r] = m.sampleSOR(rng.below(3), rng.below(3));
            ok = ok && s1 < 3 && o < 3 && std::isfinite(r);
        }
        put("makeChengD35.sampleSOR_in_range", ok);
    }
    {
        const auto m = AP::makeEJS4();
        put("makeEJS4.is_valid_pomdp_3_2_2", validPomdp(m, 3, 2, 2));
        bool ok = true;
        for (int k = 0; k < 6; ++k) {
            const auto [s1, o, r] = m.sampleSOR(rng.below(3), rng.below(2));
            ok = ok && s1 < 3 && o < 2 && std::isfinite(r);
        }
        put("makeEJS4.sampleSOR_in_range", ok);
    }
}

// ------------------------------------------------------------------------------------------------------------------
// POMDP::Policy::getActionProbability (both overloads)
inline void pomdpPolicy(verif::Rng & rng) {
    AIToolbox::Seeder::setRootSeed((unsigned)rng.next());
    const auto tiger = AP::makeTigerProblem();
    const size_t S = tiger.getS(), A = tiger.getA(), O = tiger.getO();
    AP::IncrementalPruning solver(2, 0.0);
    const auto [var, vf] = solver(tiger);
    (void)var;
    const AP::Policy pol(S, A, O, vf);
    bool okLatest = pol.getH() == 2, okHor = true;
    for (int k = 0; k < 8; ++k) {
        AP::Belief b;
        switch (rng.below(4)) {
            case 0: b = AP::Belief(S); b << 1.0, 0.0; break;                  // corners
            case 1: b = AP::Belief(S); b << 0.0, 1.0; break;
            case 2: b = AP::Belief(S); b << 0.5, 0.5; break;
            default: b = verif::dyadicBelief(rng, S, 4); break;
        }
        double sum = 0.0;
        for (size_t a = 0; a < A; ++a) {
            const size_t aa = a;
            const double p = pol.AP::Policy::getActionProbability(b, aa);     // qualified: a direct (non-virtual) call
            okLatest = okLatest && (p == 0.0 || p == 1.0);
            sum += p;
        }
        okLatest = okLatest && sum == 1.0;
        // deterministic policy: the sampled action is the one with probability one, and the top horizon equals the 2-argument form
        const size_t act = pol.sampleAction(b);
        okLatest = okLatest && act < A && pol.AP::Policy::getActionProbability(b, act) == 1.0
                            && pol.getActionProbability(b, act, (unsigned)pol.getH()) == 1.0;
        for (unsigned h = 0; h <= 2; ++h) {
            double sh = 0.0;
            for (size_t a = 0; a < A; ++a) {
                const double p = pol.getActionProbability(b, a, h);
                okHor = okHor && (p == 0.0 || p == 1.0);
                sh += p;
            }
            const size_t ah = std::get<0>(pol.sampleAction(b, h));
            okHor = okHor && sh == 1.0 && ah < A && pol.getActionProbability(b, ah, h) == 1.0;
        }
    }
    put("POMDP_Policy.getActionProbability_sums_to_one", okLatest);
    put("POMDP_Policy.getActionProbability_horizon_sums_to_one", okHor);
    // the horizon-0 only policy of the 3-argument constructor: "a valid, non-specified action"
    const AP::Policy empty(S, A, O);
    AP::Belief b = verif::dyadicBelief(rng, S, 3);
    double sum = 0.0;
    for (size_t a = 0; a < A; ++a) { const size_t aa = a; sum += empty.AP::Policy::getActionProbability(b, aa) + empty.getActionProbability(b, a, 0u); }
    put("POMDP_Policy.getActionProbability_default_policy_sums_to_one", sum == 2.0 && empty.getH() == 0);
}

// ------------------------------------------------------------------------------------------------------------------
// operator<=>(VEntry, VEntry) and the matching operator==
inline AP::VEntry randomEntry(verif::Rng & rng, size_t S, size_t O) {
    AP::VEntry e;
    e.values.resize(S);
    for (size_t s = 0; s < S; ++s) {
        switch (rng.below(5)) {                                   // few distinct values: ties are common
            case 0: e.values[s] = 0.0; break;
            case 1: e.values[s] = -0.0; break;                    // equal to +0.0 for the comparison
            case 2: e.values[s] = 1.0; break;
            case 3: e.values[s] = -1e300; break;
            default: e.values[s] = (double)rng.range(-2, 2) / 2.0; break;
        }
    }
    e.action = rng.below(3);
    e.observations.resize(O);
    for (auto & o : e.observations) o = rng.below(2);
    e.observations.shrink_to_fit();
    return e;
}
inline int sgn(std::strong_ordering o) { return o < 0 ? -1 : (o > 0 ? 1 : 0); }
inline void ventryOrder(verif::Rng & rng) {
    const size_t S = (size_t)rng.range(0, 3);                    // equally sized values (documented requirement of veccmp)
    std::printf(S == 0 ? "#stat api_ventry_empty_values 1\n" : "#stat api_ventry_general 1\n");
    bool okAnti = true, okEq = true, okTrans = true, okLex = true;
    for (int k = 0; k < 12; ++k) {
        const AP::VEntry a = randomEntry(rng, S, rng.below(3)), b = rng.coin(1, 4) ? a : randomEntry(rng, S, rng.below(3)),
                         c = randomEntry(rng, S, rng.below(3));
        const int ab = sgn(AP::operator<=>(a, b)), ba = sgn(b <=> a), bc = sgn(b <=> c), ac = sgn(a <=> c);
        okAnti = okAnti && ab == -ba && sgn(a <=> a) == 0;
        okEq = okEq && ((a == b) == (ab == 0)) && ((b == a) == (ab == 0)) && (a == a) && ((a != b) == (ab != 0))
                    && ((a < b) == (ab < 0)) && ((a >= b) == (ab >= 0));
        if (ab <= 0 && bc <= 0) okTrans = okTrans && ac <= 0 && (ac < 0 || (ab == 0 && bc == 0));
        // independent lexicographic recomputation: values, then action, then observations
        int ref = 0;
        for (size_t s = 0; s < S && ref == 0; ++s) if (a.values[s] != b.values[s]) ref = a.values[s] < b.values[s] ? -1 : 1;
        if (ref == 0 && a.action != b.action) ref = a.action < b.action ? -1 : 1;
        if (ref == 0) ref = a.observations < b.observations ? -1 : (b.observations < a.observations ? 1 : 0);
        okLex = okLex && ref == ab;
    }
    put("VEntry.spaceship_antisymmetric", okAnti);
    put("VEntry.spaceship_consistent_with_eq", okEq);
    put("VEntry.spaceship_transitive", okTrans);
    put("VEntry.spaceship_is_lexicographic", okLex);
}

} // namespace mdpd

inline void api_mdp(verif::Rng & rng, long idx) {
    constexpr long N = 9;
    const long sub = idx / N;
    switch (idx % N) {
        case 0: mdpd::gridWorld(rng); break;
        case 1: mdpd::gridProblems(rng); break;
        case 2: mdpd::learners(rng); break;
        case 3: mdpd::planners(rng); break;
        case 4: mdpd::learnedModels(rng, sub); break;
        case 5: mdpd::pomdpSolvers(rng, sub); break;
        case 6: mdpd::pomdpEnvironments(rng); break;
        case 7: mdpd::pomdpPolicy(rng); break;
        default: mdpd::ventryOrder(rng); break;
    }
}
} // namespace c10api
