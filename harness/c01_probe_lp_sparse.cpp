#include <AIToolbox/MDP/SparseModel.hpp>
#include <AIToolbox/MDP/Algorithms/LinearProgramming.hpp>
namespace M = AIToolbox::MDP;
void f(const M::SparseModel & m) { M::LinearProgramming lp; auto r = lp(m); (void)r; }
