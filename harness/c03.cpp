// C03 correspondence harness: approximate POMDP solvers return sound bounds.
// Calls the REAL BlindStrategies, FastInformedBound, QMDP, PBVI, PERSEUS, SARSOP, GapMin on small dyadic POMDPs and prints
//   inputs | exact outputs        (one protocol line per call; for SARSOP/GapMin one line per anytime iteration through the
//                                   AITB_VERIF observer, plus one for the returned tuple)
// The Lean driver re-runs its model where one exists (blind, FIB, QMDP, point backups via the links of every PBVI/PERSEUS vector)
// and evaluates the property clauses (enclosure of V*, lb <= ub, vector / Q / point soundness at probe beliefs) on the outputs.
//
// One case = one (POMDP, solver) pair so that a crash of one solver does not hide the others: case idx -> POMDP number idx / NSOLV
// (tables drawn from a generator seeded by (seed, POMDP number) only), solver idx % NSOLV.
#include "common/gen.hpp"
#include <AIToolbox/Seeder.hpp>
#include <AIToolbox/POMDP/Algorithms/BlindStrategies.hpp>
#include <AIToolbox/POMDP/Algorithms/FastInformedBound.hpp>
#include <AIToolbox/POMDP/Algorithms/QMDP.hpp>
#include <AIToolbox/POMDP/Algorithms/PBVI.hpp>
#include <AIToolbox/POMDP/Algorithms/PERSEUS.hpp>
#include <AIToolbox/POMDP/Algorithms/SARSOP.hpp>
#include <AIToolbox/POMDP/Algorithms/GapMin.hpp>
#include <AIToolbox/POMDP/Environments/TigerProblem.hpp>
#include <AIToolbox/Verif/Hooks.hpp>
#include "c03_gmodel.hpp"
#include <sys/wait.h>
#include <unistd.h>
#include <signal.h>

using namespace verif;
namespace P = AIToolbox::POMDP;
namespace M = AIToolbox::MDP;
using PModel = P::Model<M::Model>;
using SModel = P::SparseModel<M::SparseModel>;

// A model that offers only the element-wise interface (IsModel but not IsModelEigen): the solvers take their `else` branches
// (computeImmediateRewards, the hand-written loops of Projecter / makeSOSA / updateBelief* / bestConservativeAction ...).
static_assert(P::IsModelEigen<SModel> && P::IsModelEigen<PModel>);

static uint64_t g_seed = 0;
static const long NSOLV = 7;        // blind, fib+qmdp, pbvi, perseus, sarsop, gapmin, kernels(bestConservative/bestPromising)
static const long NFIXED = 22;      // hand-written witness / regression POMDPs come first (10, 11: GapMin regression instances)

struct Inst {
    PomdpTables t;
    AIToolbox::Vector b0;
    std::string shape;
    unsigned gapDigits = 0;     // 0 = drawn per case
    int kind = 0;               // 0 dense Eigen model, 1 sparse Eigen model, 2 element-wise (non-Eigen) model
    unsigned impossible = 0;    // number of (action, observation) pairs that are impossible for every successor state
};
static Inst genInst(uint64_t seed, long pn, bool th);
static void makeImpossible(Inst & I, Rng & r, bool all);

static PomdpTables tablesOf(const PModel & m) {
    PomdpTables t; t.S = m.getS(); t.A = m.getA(); t.O = m.getO(); t.discount = m.getDiscount();
    t.T.assign(t.A, AIToolbox::Matrix2D::Zero(t.S, t.S)); t.R = AIToolbox::Matrix2D::Zero(t.S, t.A); t.Ob.assign(t.A, AIToolbox::Matrix2D::Zero(t.S, t.O));
    for (size_t a = 0; a < t.A; ++a) for (size_t s = 0; s < t.S; ++s) {
        for (size_t s1 = 0; s1 < t.S; ++s1) t.T[a](s, s1) = m.getTransitionProbability(s, a, s1);
        for (size_t o = 0; o < t.O; ++o) t.Ob[a](s, o) = m.getObservationProbability(s, a, o);
        t.R(s, a) = m.getRewardFunction()(s, a);
    }
    return t;
}

static AIToolbox::Vector vec(std::initializer_list<double> l) { AIToolbox::Vector v(l.size()); size_t i = 0; for (double x : l) v[i++] = x; return v; }

// 1-state POMDP with A actions of constant reward r[a]
static PomdpTables oneState(std::vector<double> r, double g) {
    PomdpTables t; t.S = 1; t.A = r.size(); t.O = 1; t.discount = g;
    t.T.assign(t.A, AIToolbox::Matrix2D::Ones(1, 1)); t.Ob.assign(t.A, AIToolbox::Matrix2D::Ones(1, 1)); t.R = AIToolbox::Matrix2D::Zero(1, t.A);
    for (size_t a = 0; a < t.A; ++a) t.R(0, a) = r[a];
    return t;
}

// Make some (action, observation) pairs impossible for every successor state: the column `o` of `Ob[a]` becomes zero and its mass moves to
// an observation that stays possible (rows remain dyadic distributions). `all` = every action loses at least one observation.
static void makeImpossible(Inst & I, Rng & r, bool all) {
    auto & t = I.t;
    if (t.O < 2) return;
    for (size_t a = 0; a < t.A; ++a) {
        if (!all && r.coin()) continue;
        const size_t keep = r.below(t.O);
        for (size_t o = 0; o < t.O; ++o) {
            if (o == keep || (t.O > 2 && r.coin())) continue;
            for (size_t s1 = 0; s1 < t.S; ++s1) { t.Ob[a](s1, keep) += t.Ob[a](s1, o); t.Ob[a](s1, o) = 0.0; }
        }
    }
}
static unsigned countImpossible(const PomdpTables & t) {
    unsigned n = 0;
    for (size_t a = 0; a < t.A; ++a) for (size_t o = 0; o < t.O; ++o) { bool any = false; for (size_t s1 = 0; s1 < t.S; ++s1) any |= t.Ob[a](s1, o) != 0.0; n += !any; }
    return n;
}

static Inst fixedInst(long k) {
    Inst I;
    switch (k) {
    case 0: { auto m = P::makeTigerProblem(); m.setDiscount(0.9375); I.t = tablesOf(m); I.b0 = vec({0.5, 0.5}); I.shape = "tiger_uniform"; break; }
    case 1: { auto m = P::makeTigerProblem(); m.setDiscount(0.75); I.t = tablesOf(m); I.b0 = vec({1.0, 0.0}); I.shape = "tiger_corner"; break; }
    // discount above 1 - 1e-4: the clamp `max(0.0001, 1-discount)` changes the start of the blind / FIB iterations
    case 2: { I.t = oneState({-1.0}, 1.0 - std::ldexp(1.0, -14)); I.b0 = vec({1.0}); I.shape = "clamp_negative_reward"; break; }
    case 3: { I.t = oneState({1.0}, 1.0 - std::ldexp(1.0, -14)); I.b0 = vec({1.0}); I.shape = "clamp_positive_reward"; break; }
    case 4: { I.t = oneState({-2.0, -1.0, -3.0}, 0.5); I.b0 = vec({1.0}); I.shape = "one_state_negative"; break; }
    // S=5 instances with a face initial belief on which GapMin needs several rounds and builds belief-POMDPs from points with different
    // supports: with LPInterpolation's weights misplaced (C12 defect 1, repaired in cc0ddd0) it returns ub below V* / below lb here
    case 10: { I = genInst(1, 183, true); I.shape = "fixed_gapmin_face"; I.gapDigits = 3; break; }
    case 11: { I = genInst(1, 90, true); I.shape = "fixed_gapmin_face"; I.gapDigits = 4; break; }
    // (action, observation) pairs that are impossible for EVERY successor state, with rewards of one sign: Projecter takes its
    // `!possibleObservations_[a][o]` branch (the vector of that pair is the bare reward share R/|O|), bestPromisingAction and GapMin skip the
    // pair; an error in the reward share there moves every backed-up vector by a multiple of R
    case 12: case 13: case 14: case 15: {
        Rng r(0xC03C03ull + (uint64_t)k);
        const size_t S = k == 15 ? 1 : k == 13 ? 3 : 2, O = k == 13 ? 2 : 3;
        I.t = randomPomdp(r, S, 2, O);
        I.t.discount = k == 13 ? 0.5 : 0.75;
        makeImpossible(I, r, true);
        for (size_t s = 0; s < S; ++s) for (size_t a = 0; a < 2; ++a) I.t.R(s, a) = (k == 14 ? -1.0 : 1.0) * (std::fabs(I.t.R(s, a)) + 0.25);
        I.b0 = AIToolbox::Vector::Zero(S);
        if (S == 1) I.b0[0] = 1.0; else if (k == 13) { I.b0[0] = 0.5; I.b0[2] = 0.5; } else { I.b0[0] = 0.25; I.b0[1] = 0.75; }
        I.shape = "fixed_impossible_obs"; I.kind = (int)(k % 3);
        break;
    }
    // transition probabilities below the library's `equalToleranceSmall` (2^-21 < 1e-6) towards a valuable state, positive rewards: the mass
    // GapMin::makeNewPomdp / LPInterpolation / bestPromisingAction drop is worth something (Props/C03Trunc.lean bounds what it can cost)
    case 16: case 17: {
        I = genInst(1, k == 16 ? 183 : 90, true);
        for (size_t s = 0; s < I.t.S; ++s) for (size_t a = 0; a < I.t.A; ++a) I.t.R(s, a) += 9.0;      // same policy structure, all values positive
        const double tiny = std::ldexp(1.0, -21);
        for (size_t a = 0; a < I.t.A; ++a) for (size_t s = 0; s < I.t.S; ++s) {
            size_t big = 0, zero = I.t.S; for (size_t s1 = 0; s1 < I.t.S; ++s1) { if (I.t.T[a](s, s1) > I.t.T[a](s, big)) big = s1; if (I.t.T[a](s, s1) == 0.0 && zero == I.t.S) zero = s1; }
            if (zero < I.t.S) { I.t.T[a](s, zero) += tiny; I.t.T[a](s, big) -= tiny; }
        }
        I.shape = "fixed_tiny_probability"; I.gapDigits = k == 16 ? 4 : 5;
        break;
    }
    // Cut-off witness. States 0,1,2: a block in which all actions coincide (FIB, blind strategies and V* agree at those corners): 0 stays with
    // probability 1/2 and reaches the valuable absorbing state 1 with probability 2^-21 < equalToleranceSmall, else the poor absorbing state 2.
    // States 3,4: a tiger-like block that keeps GapMin refining. All beliefs on the way are interior, so GapMin stores them and rebuilds its
    // belief-augmented POMDP; makeNewPomdp drops the weight 2^-22 on state 1 in the row of corner 0, and every FIB pass lowers ubQ(0,.) further
    // below V*(e0) (by gamma * 2^-21 * V(1) = 3.8e-6 in the first pass).
    case 18: {
        PomdpTables & t = I.t; t.S = 5; t.A = 3; t.O = 2; t.discount = 0.5;
        t.T.assign(3, AIToolbox::Matrix2D::Zero(5, 5)); t.Ob.assign(3, AIToolbox::Matrix2D::Zero(5, 2)); t.R = AIToolbox::Matrix2D::Zero(5, 3);
        const double p = std::ldexp(1.0, -21);
        for (size_t a = 0; a < 3; ++a) {
            t.T[a](0, 0) = 0.5; t.T[a](0, 1) = p; t.T[a](0, 2) = 0.5 - p; t.T[a](1, 1) = 1.0; t.T[a](2, 2) = 1.0;
            for (size_t s = 0; s < 3; ++s) { t.Ob[a](s, 0) = 0.5; t.Ob[a](s, 1) = 0.5; }
            t.R(0, a) = 1.0; t.R(1, a) = 8.0; t.R(2, a) = 1.0;
        }
        t.T[0](3, 3) = 1.0; t.T[0](4, 4) = 1.0;                                   // listen
        t.Ob[0](3, 0) = 0.875; t.Ob[0](3, 1) = 0.125; t.Ob[0](4, 0) = 0.125; t.Ob[0](4, 1) = 0.875;
        for (size_t a = 1; a < 3; ++a) for (size_t s = 3; s < 5; ++s) { t.T[a](s, 3) = 0.5; t.T[a](s, 4) = 0.5; t.Ob[a](s, 0) = 0.5; t.Ob[a](s, 1) = 0.5; }
        t.R(3, 0) = 1.0; t.R(4, 0) = 1.0; t.R(3, 1) = 0.0; t.R(4, 1) = 8.0; t.R(3, 2) = 8.0; t.R(4, 2) = 0.0;
        I.b0 = vec({0.25, 0.125, 0.125, 0.25, 0.25}); I.shape = "fixed_cutoff_witness"; I.gapDigits = 7;
        break;
    }
    // Lower-side cut-off witness: under action 0 the observation 1 has probability 2^-21 <= equalToleranceSmall in EVERY successor state, so
    // Projecter::computePossibleObservations flags the pair impossible and its projection is the bare reward share: the continuation term
    // gamma * T (O . v) of that observation is dropped. With negative values the dropped term is negative, so every backed-up vector of
    // action 0 is too HIGH (by gamma * 2^-21 * |v| = 1.9e-6 from the second timestep on).
    case 19: {
        PomdpTables & t = I.t; t.S = 2; t.A = 2; t.O = 2; t.discount = 0.5;
        t.T.assign(2, AIToolbox::Matrix2D::Constant(2, 2, 0.5)); t.Ob.assign(2, AIToolbox::Matrix2D::Zero(2, 2)); t.R = AIToolbox::Matrix2D::Zero(2, 2);
        const double p = std::ldexp(1.0, -21);
        for (size_t s = 0; s < 2; ++s) { t.Ob[0](s, 0) = 1.0 - p; t.Ob[0](s, 1) = p; t.R(s, 0) = -8.0; t.R(s, 1) = -9.0; }
        t.Ob[1](0, 0) = 0.875; t.Ob[1](0, 1) = 0.125; t.Ob[1](1, 0) = 0.125; t.Ob[1](1, 1) = 0.875;
        I.b0 = vec({0.5, 0.5}); I.shape = "fixed_cutoff_witness_lower"; I.gapDigits = 4;
        break;
    }
    // Sparse Eigen model whose reward matrix has entries that are not stored (zeros): FastInformedBound takes its start from the stored values
    // only. 20: rewards -1 / 0 (the true maximum 0 is an implicit zero); 21: all rewards zero (nothing stored).
    case 20: case 21: {
        Rng r(0xC03C03ull + (uint64_t)k);
        I.t = randomPomdp(r, 3, 2, 2);
        for (size_t s = 0; s < 3; ++s) for (size_t a = 0; a < 2; ++a) I.t.R(s, a) = (k == 20 && (s + a) % 3 == 0) ? -1.0 : 0.0;
        I.b0 = vec({0.5, 0.25, 0.25}); I.shape = "fixed_sparse_zero_rewards"; I.kind = 1;
        break;
    }
    default: {
        // small hand-made 2-state POMDPs with corner / face initial beliefs and negative rewards
        Rng r(0xC03C03ull + (uint64_t)k);
        I.t = randomPomdp(r, k % 2 ? 3 : 2, 2, 2);
        if (k >= 7) for (size_t s = 0; s < I.t.S; ++s) for (size_t a = 0; a < I.t.A; ++a) I.t.R(s, a) = -std::fabs(I.t.R(s, a)) - 0.5;
        I.b0 = AIToolbox::Vector::Zero(I.t.S);
        if (k % 3 == 0) { I.b0[0] = 1.0; I.shape = "fixed_corner"; }
        else if (k % 3 == 1) { I.b0[0] = 0.5; I.b0[I.t.S - 1] += 0.5; I.shape = "fixed_face"; }
        else { I.b0.fill(1.0 / I.t.S); if (I.t.S == 3) { I.b0[0] = 0.5; I.b0[1] = 0.25; I.b0[2] = 0.25; } I.shape = "fixed_interior"; }
    } }
    return I;
}

static Inst makeInst(long pn, const std::string & tier) {
    Inst I;
    if (pn < NFIXED) I = fixedInst(pn);
    else {
        I = genInst(g_seed, pn, tier == "thorough");
        // structure added on top of the seeded tables from an independent stream (the instances of `genInst` keep their tables)
        Rng r(mix64(g_seed * 0xD1B54A32D192ED03ull + (uint64_t)pn) ^ 0xC03B10Cull);
        if (r.coin(1, 4)) {
            makeImpossible(I, r, r.coin());
            if (r.coin()) { const double sg = r.coin(1, 3) ? -1.0 : 1.0; for (size_t s = 0; s < I.t.S; ++s) for (size_t a = 0; a < I.t.A; ++a) I.t.R(s, a) = sg * (std::fabs(I.t.R(s, a)) + 0.25); }
        }
        I.kind = (int)r.below(4); if (I.kind == 3) I.kind = 0;     // dense 1/2, sparse 1/4, element-wise 1/4
    }
    I.impossible = countImpossible(I.t);
    return I;
}

static Inst genInst(uint64_t seed, long pn, bool th) {
    Rng rng(seed * 0x9E3779B97F4A7C15ull + (uint64_t)pn * 0xA24BAED4963EE407ull + 0xC03ull);
    Inst I;
    size_t S = (size_t)rng.range(2, th ? 5 : 4), A = (size_t)rng.range(1, 3), O = (size_t)rng.range(1, 3);
    if (rng.coin(1, 12)) S = 1;
    I.t = randomPomdp(rng, S, A, O, rng.coin(1, 4) ? 2 : 3);
    if (rng.coin(1, 10)) { static const double ug[] = {0.9, 0.95, 0.3}; I.t.discount = ug[rng.below(3)]; }   // non-dyadic discounts
    int bm = (int)rng.below(4);
    I.b0 = AIToolbox::Vector::Zero(S);
    if (bm == 0 || S == 1) { I.b0[rng.below(S)] = 1.0; I.shape = "corner"; }
    else if (bm == 1) { size_t i = rng.below(S), j = (i + 1 + rng.below(S - 1)) % S; double p = (double)rng.range(1, 7) / 8.0; I.b0[i] = p; I.b0[j] = 1.0 - p; I.shape = S > 2 ? "face" : "interior"; }
    else { I.b0 = dyadicBelief(rng, S); bool z = false, one = false; for (size_t s = 0; s < S; ++s) { z |= I.b0[s] == 0.0; one |= I.b0[s] == 1.0; } I.shape = one ? "corner" : z ? "face" : "interior"; }
    return I;
}

static void putVList(Line & l, const P::VList & v, bool links) {
    l << (size_t)v.size();
    for (const auto & e : v) {
        l << (size_t)e.action; putVector(l, e.values);
        if (links) l.nats(e.observations);
    }
}
static void putHead(Line & l, const char * op, const Inst & I) { l << "C03" << op; putPomdp(l, I.t); putVector(l, I.b0); }
static void putUbV(Line & l, const P::UpperBoundValueFunction & u) {
    l << (size_t)u.first.size();
    for (size_t i = 0; i < u.first.size(); ++i) { putVector(l, u.first[i]); l << u.second[i]; }
}

static const double TOLS[] = {0.0, 0.0, 0.001, 0.01, 0.5};

template <class PM> static void runBlind(Rng & rng, const Inst & I, const PM & m) {
    for (int rep = 0; rep < 3; ++rep) {
        unsigned h = rep == 0 ? (unsigned)rng.range(1, 8) : rep == 1 ? 60u : 100000u;
        double tol = rep == 0 ? 0.0 : rep == 1 ? TOLS[rng.below(5)] : 0.001;
        for (int fast = 0; fast < 2; ++fast) {
            std::printf("#in Blind h=%u tol=%g fast=%d\n", h, tol, fast); std::fflush(stdout);
            P::BlindStrategies bs(h, tol);
            auto [var, vl] = bs(m, (bool)fast);
            Line l; putHead(l, "blind", I); l << (bool)fast << h << tol << "|" << var; putVList(l, vl, false); l.emit();
        }
    }
}

template <class PM> static void runUb(Rng & rng, const Inst & I, const PM & m) {
    for (int rep = 0; rep < 3; ++rep) {
        unsigned h = rep == 0 ? (unsigned)rng.range(1, 8) : rep == 1 ? 60u : 100000u;
        double tol = rep == 0 ? 0.0 : rep == 1 ? TOLS[rng.below(5)] : 0.001;
        std::printf("#in FIB h=%u tol=%g\n", h, tol); std::fflush(stdout);
        P::FastInformedBound fib(h, tol);
        auto [fv, fq] = fib(m);
        std::printf("#in QMDP h=%u tol=%g\n", h, tol); std::fflush(stdout);
        P::QMDP qmdp(h, tol);
        auto [qv, qvf, qq] = qmdp(m);
        Line l; putHead(l, "ub", I); l << h << tol << "|" << fv; putMatrix(l, fq); l << qv; putMatrix(l, qq); putVList(l, qvf.back(), false); l.emit();
    }
}

static std::vector<P::Belief> beliefSet(Rng & rng, const Inst & I) {
    std::vector<P::Belief> bl; bl.push_back(I.b0);
    size_t n = (size_t)rng.range(2, 7);
    for (size_t i = 0; i < n; ++i) {
        if (rng.coin(1, 3)) { P::Belief b = P::Belief::Zero(I.t.S); b[rng.below(I.t.S)] = 1.0; bl.push_back(b); }
        else bl.push_back(dyadicBelief(rng, I.t.S));
    }
    return bl;
}

static void putVF(Line & l, const P::ValueFunction & vf) {
    l << (size_t)vf.size();
    for (const auto & vl : vf) putVList(l, vl, true);
}

template <class PM> static void runPbvi(Rng & rng, const Inst & I, const PM & m) {
    for (int rep = 0; rep < 2; ++rep) {
        auto bl = beliefSet(rng, I);
        unsigned h = rep == 0 ? (unsigned)rng.range(1, 5) : 40u;
        double tol = rep == 0 ? 0.0 : 0.01;
        std::printf("#in PBVI h=%u tol=%g nb=%zu\n", h, tol, bl.size()); std::fflush(stdout);
        P::PBVI pbvi(0, h, tol);
        auto [var, vf] = pbvi(m, bl);
        Line l; putHead(l, "pbvi", I); l << h << tol << (size_t)bl.size(); for (auto & b : bl) putVector(l, b);
        l << "|" << var; putVF(l, vf); l.emit();
    }
}

template <class PM> static void runPerseus(Rng & rng, const Inst & I, const PM & m) {
    for (int rep = 0; rep < 2; ++rep) {
        unsigned h = rep == 0 ? (unsigned)rng.range(1, 5) : 40u;
        double tol = rep == 0 ? 0.0 : 0.01;
        double minR = I.t.R.minCoeff() - (rng.coin() ? 0.0 : 1.0);
        size_t nb = (size_t)rng.range(2, 12);
        std::printf("#in PERSEUS h=%u tol=%g nb=%zu\n", h, tol, nb); std::fflush(stdout);
        AIToolbox::Seeder::setRootSeed((unsigned)rng.below(1u << 30));
        P::PERSEUS ps(nb, h, tol);
        auto [var, vf] = ps(m, minR);
        Line l; putHead(l, "perseus", I); l << h << tol << minR << "|" << var; putVF(l, vf); l.emit();
    }
}

// Run one anytime solver in a child process under a wall-clock budget: the observer bounds the NUMBER of iterations, but a single GapMin
// iteration can run its inner PBVI to the 1e6-step horizon (minutes). Lines the child printed before the budget ran out are kept (they are
// complete iterations); a child that crashes takes the case down with it, so check.py sees the crash and its sanitizer report as usual.
static bool runBudgeted(const std::function<void()> & f, unsigned seconds, const char * what) {
    std::fflush(stdout); std::fflush(stderr);
    const pid_t pid = fork();
    if (pid < 0) { f(); return true; }
    if (pid == 0) { f(); std::fflush(stdout); _exit(0); }
    for (unsigned t = 0; t < seconds * 20; ++t) {
        int st = 0;
        if (waitpid(pid, &st, WNOHANG) == pid) {
            if (WIFEXITED(st) && WEXITSTATUS(st) == 0) return true;
            std::fflush(stdout); _exit(WIFEXITED(st) ? WEXITSTATUS(st) : 134);     // propagate the crash
        }
        usleep(50000);
    }
    kill(pid, SIGKILL); int st = 0; waitpid(pid, &st, 0);
    std::printf("#stat %s_wall_budget_stop 1\n", what); std::fflush(stdout);
    return false;
}

struct Obs {
    const Inst * I; const char * algo; unsigned budget; P::VList prev; bool havePrev = false; unsigned n = 0; std::string params;
    M::QFunction prevQ; P::UpperBoundValueFunction prevUbV; bool havePrevUb = false;
    // the state the solver starts from, recomputed with the solver's own helper calls: it is the "previous snapshot" of the first iteration
    template <class PM> void seed(const PM & m, double tolHelpers) {
        P::BlindStrategies bs(1000000, tolHelpers);
        prev = std::get<1>(bs(m, true)); havePrev = true;
        P::FastInformedBound fib(1000000, tolHelpers);
        prevQ = std::get<1>(fib(m)); prevUbV = { {I->b0}, {(I->b0.transpose() * prevQ).maxCoeff()} }; havePrevUb = true;
    }
    bool operator()(const AIToolbox::Verif::AnytimeSnapshot & s) {
        std::printf("#in %s iteration %u\n", algo, s.iteration + 1);      // keeps the crash attribution next to the crash
        Line l; putHead(l, "snap", *I); l << algo << s.iteration << havePrev; putVList(l, prev, false);
        l << havePrevUb; if (havePrevUb) { putMatrix(l, prevQ); putUbV(l, prevUbV); }
        l << "|" << s.lb << s.ub; putVList(l, *s.lbVList, false); putMatrix(l, *s.ubQ); putUbV(l, *s.ubV); l.emit();
        prev = *s.lbVList; havePrev = true; prevQ = *s.ubQ; prevUbV = *s.ubV; havePrevUb = true; ++n;
        return n < budget;
    }
};

template <class PM> static void runSarsop(Rng & rng, const Inst & I, const PM & m, const std::string & tier) {
    static const double tols[] = {0.1, 0.01, 1.0, 0.001}; static const double deltas[] = {0.1, 0.01, 0.5};
    double tol = tols[rng.below(4)], delta = deltas[rng.below(3)];
    Obs ob{&I, "SARSOP", tier == "thorough" ? 80u : 30u};
    ob.seed(m, std::min(0.00001, tol));
    AIToolbox::Verif::anytimeObserver = std::ref(ob);
    std::printf("#in SARSOP tol=%g delta=%g shape=%s\n", tol, delta, I.shape.c_str()); std::fflush(stdout);
    P::SARSOP sarsop(tol, delta);
    auto [lb, ub, vl, q] = sarsop(m, I.b0);
    AIToolbox::Verif::anytimeObserver = nullptr;
    Line l; putHead(l, "final", I); l << "SARSOP" << tol << delta << ob.n << (ob.n >= ob.budget) << "|" << lb << ub; putVList(l, vl, false); putMatrix(l, q); l.emit();
    std::printf("#stat sarsop_iterations %u\n#stat sarsop_%s 1\n", ob.n, ob.n >= ob.budget ? "budget_stop" : "converged");
}

template <class PM> static void runGapMin(Rng & rng, const Inst & I, const PM & m, const std::string & tier) {
    static const double tols[] = {0.1, 0.01, 0.005};
    double tol = tols[rng.below(3)];
    // precisionDigits drives both how long GapMin keeps refining (it stops once the gap is below 10^(magnitude - digits)) and the
    // tolerance of its inner PBVI/FIB runs (threshold*(1-discount)/2). With 1-2 digits it returns after the first test; with 3-4 digits
    // at discount 15/16 one iteration costs minutes under the sanitizers. So: digits by discount.
    const double g = I.t.discount;
    unsigned maxDigits = g <= 0.5 ? 4 : g <= 0.75 ? 3 : g <= 0.875 ? 2 : 1;
    if (tier == "thorough" && maxDigits < 4 && g <= 0.9375) ++maxDigits;
    unsigned digits = (unsigned)rng.range(maxDigits > 1 ? maxDigits - 1 : 1, maxDigits);
    if (I.gapDigits) digits = I.gapDigits;
    if (g <= 0.875) tol = 0.01;
    Obs ob{&I, "GapMin", tier == "thorough" ? 30u : 12u};
    ob.seed(m, tol);
    AIToolbox::Verif::anytimeObserver = std::ref(ob);
    std::printf("#in GapMin tol=%g digits=%u shape=%s\n", tol, digits, I.shape.c_str()); std::fflush(stdout);
    P::GapMin gm(tol, digits);
    auto [lb, ub, vl, q] = gm(m, I.b0);
    AIToolbox::Verif::anytimeObserver = nullptr;
    Line l; putHead(l, "final", I); l << "GapMin" << tol << (double)digits << ob.n << (ob.n >= ob.budget) << "|" << lb << ub; putVList(l, vl, false); putMatrix(l, q); l.emit();
    std::printf("#stat gapmin_iterations %u\n#stat gapmin_%s 1\n", ob.n, ob.n >= ob.budget ? "budget_stop" : "converged");
}

// Helpers one level below the anchored code, each held to its own contract on the implementation's outputs:
//   updateBeliefUnnormalized / updateBeliefPartial + updateBeliefPartialUnnormalized / updateBelief (SARSOP, GapMin, bestPromisingAction),
//   beliefExpectedReward, findBestAtPoint and extractDominated (GapMin's start set, `lb`), checkEqualProbability (GapMin's duplicate test).
template <class PM> static void runHelpers(Rng & rng, const Inst & I, const PM & m, const P::VList & blind) {
    for (int k = 0; k < 3; ++k) {
        P::Belief b = k == 0 ? I.b0 : dyadicBelief(rng, I.t.S);
        if (k == 2) b *= 0.375;                                          // unnormalised input (GapMin interpolates unnormalised successors)
        const size_t a = rng.below(I.t.A), o = rng.below(I.t.O);
        std::printf("#in updateBelief a=%zu o=%zu\n", a, o); std::fflush(stdout);
        P::Belief un = P::updateBeliefUnnormalized(m, b, a, o);
        P::Belief part = P::updateBeliefPartial(m, b, a);
        P::Belief pun = P::updateBeliefPartialUnnormalized(m, part, a, o);
        const double mass = un.sum();
        P::Belief nb = P::Belief::Zero(I.t.S);
        if (mass > 0.0) nb = P::updateBelief(m, b, a, o);
        const double er = P::beliefExpectedReward(m, b, a);
        Line l; putHead(l, "bel", I); putVector(l, b); l << a << o << "|"; putVector(l, un); putVector(l, part); putVector(l, pun); l << (mass > 0.0); putVector(l, nb); l << er; l.emit();
    }
    // a vector list with dominated members, duplicates and vectors that differ in one late coordinate only
    P::VList vl = blind;
    const size_t n0 = vl.size();
    for (size_t i = 0; i < n0; ++i) {
        auto lower = vl[i].values; for (long s = 0; s < lower.size(); ++s) lower[s] -= (double)rng.range(0, 2) * 0.5;
        vl.emplace_back(lower, vl[i].action, P::VObs());
        if (rng.coin()) vl.emplace_back(vl[i].values, vl[i].action, P::VObs());
        auto bump = vl[i].values; bump[bump.size() - 1] += 0.25;
        if (rng.coin()) vl.emplace_back(bump, vl[i].action, P::VObs());
    }
    for (size_t i = vl.size(); i > 1; --i) std::swap(vl[i - 1], vl[rng.below(i)]);
    P::Belief b = rng.coin() ? I.b0 : dyadicBelief(rng, I.t.S);
    std::printf("#in findBestAtPoint/extractDominated n=%zu\n", vl.size()); std::fflush(stdout);
    double best = 0.0;
    auto it = AIToolbox::findBestAtPoint(b, std::begin(vl), std::end(vl), &best, P::unwrap);
    const size_t bestIdx = (size_t)std::distance(std::begin(vl), it);
    P::VList kept = vl;
    kept.erase(AIToolbox::extractDominated(std::begin(kept), std::end(kept), P::unwrap), std::end(kept));
    P::Belief b2 = b; if (I.t.S > 1) { b2[0] += 5e-7; b2[1] -= 5e-7; }
    P::Belief b3 = b; b3[I.t.S - 1] += 3e-6;
    Line l; putHead(l, "dom", I); putVector(l, b); putVList(l, vl, false); l << "|" << best << bestIdx; putVList(l, kept, false);
    l << AIToolbox::checkEqualProbability(b, b2) << AIToolbox::checkEqualProbability(b, b3) << AIToolbox::checkEqualProbability(b3, b); l.emit();
}

// the two look-ahead kernels on hand-made sound inputs: blind vectors as lower set, FIB Q + promising-backup points as upper surface
template <class PM> static void runKernels(Rng & rng, const Inst & I, const PM & m) {
    P::BlindStrategies bs(200, 0.0);
    auto vl = std::get<1>(bs(m, true));
    P::FastInformedBound fib(200, 0.0);
    M::QFunction ubQ = std::get<1>(fib(m));
    P::UpperBoundValueFunction ubV;
    const AIToolbox::Matrix2D ir = I.t.R;
    runHelpers(rng, I, m, vl);
    for (int k = 0; k < 4; ++k) {
        P::Belief b = k == 0 ? I.b0 : dyadicBelief(rng, I.t.S);
        std::printf("#in bestConservativeAction\n"); std::fflush(stdout);
        M::Values alpha;
        auto [ca, cv] = P::bestConservativeAction(m, ir, b, vl, &alpha);
        { Line l; putHead(l, "cons", I); putVector(l, b); putVList(l, vl, false); l << "|" << (size_t)ca << cv; putVector(l, alpha); l.emit(); }
        vl.emplace_back(alpha, ca, P::VObs());
        for (int lp = 0; lp < 2; ++lp) {
            std::printf("#in bestPromisingAction lp=%d\n", lp); std::fflush(stdout);
            AIToolbox::Vector vals;
            auto [pa, pv] = lp ? P::bestPromisingAction<true>(m, ir, b, ubQ, ubV, &vals) : P::bestPromisingAction<false>(m, ir, b, ubQ, ubV, &vals);
            Line l; putHead(l, "prom", I); putVector(l, b); l << (bool)lp; putMatrix(l, ubQ); putUbV(l, ubV); l << "|" << (size_t)pa << pv; putVector(l, vals); l.emit();
            if (lp) {
                bool corner = false; for (long s = 0; s < b.size(); ++s) corner |= b[s] == 1.0;
                if (!corner) { ubV.first.push_back(b); ubV.second.push_back(pv); }
            }
        }
    }
}

namespace verif {
long verif_ncases(const std::string & tier) { return (tier == "thorough" ? 310 : 50) * NSOLV; }

void verif_case(Rng & rng, long idx, const std::string & tier) {
    const long pn = idx / NSOLV, solver = idx % NSOLV;
    Inst I = makeInst(pn, tier);
    PModel dense = toDense(I.t);
    if (solver == 0) std::printf("#stat shape_%s 1\n#stat S%zu 1\n#stat A%zu 1\n#stat O%zu 1\n#stat rewards_%s 1\n#stat model_%s 1\n#stat impossible_action_observation_pairs_%s 1\n",
                                 I.shape.c_str(), I.t.S, I.t.A, I.t.O,
                                 I.t.R.maxCoeff() <= 0 ? "nonpositive" : I.t.R.minCoeff() >= 0 ? "nonnegative" : "mixed",
                                 I.kind == 0 ? "dense" : I.kind == 1 ? "sparse" : "elementwise", I.impossible == 0 ? "0" : I.impossible == 1 ? "1" : "2plus");
    const bool extreme = I.t.discount > 0.9999;
    const auto go = [&](const auto & m) {
        switch (solver) {
            case 0: runBlind(rng, I, m); break;
            case 1: runUb(rng, I, m); break;
            case 2: if (!extreme) runPbvi(rng, I, m); break;
            case 3: if (!extreme) runPerseus(rng, I, m); break;
            case 4: runBudgeted([&]{ runSarsop(rng, I, m, tier); }, tier == "thorough" ? 120 : 40, "sarsop"); break;
            case 5: runBudgeted([&]{ runGapMin(rng, I, m, tier); }, tier == "thorough" ? 120 : 40, "gapmin"); break;
            case 6: if (!extreme) runKernels(rng, I, m); break;
        }
    };
    // element-wise model: only for the solvers whose instantiation compiles on the current tree (compile probes; see SPEC)
    bool elementwise = I.kind == 2 && (solver == 0 || solver == 2 || solver == 3);
#ifdef AITB_C03_ELEMENTWISE_FIB
    elementwise |= I.kind == 2 && solver == 1;
#endif
#ifdef AITB_C03_ELEMENTWISE_ANYTIME
    elementwise |= I.kind == 2 && (solver == 4 || solver == 5 || solver == 6);
#endif
    if (solver != 0 && I.kind == 2) std::printf("#stat elementwise_model_%s 1\n", elementwise ? "used" : "not_instantiable_dense_used");
    if (I.kind == 1) { SModel sm(dense); go(sm); }
    else if (elementwise) {
        GModel gm(dense);
        switch (solver) {       // written out: an instantiation that does not compile must not be named
            case 0: runBlind(rng, I, gm); break;
            case 2: if (!extreme) runPbvi(rng, I, gm); break;
            case 3: if (!extreme) runPerseus(rng, I, gm); break;
#ifdef AITB_C03_ELEMENTWISE_FIB
            case 1: runUb(rng, I, gm); break;
#endif
#ifdef AITB_C03_ELEMENTWISE_ANYTIME
            case 4: runBudgeted([&]{ runSarsop(rng, I, gm, tier); }, tier == "thorough" ? 120 : 40, "sarsop"); break;
            case 5: runBudgeted([&]{ runGapMin(rng, I, gm, tier); }, tier == "thorough" ? 120 : 40, "gapmin"); break;
            case 6: if (!extreme) runKernels(rng, I, gm); break;
#endif
        }
    }
    else go(dense);
}
}

int main(int argc, char ** argv) {
    if (argc > 1) g_seed = std::strtoull(argv[1], nullptr, 10);
    return verif::verif_main(argc, argv);
}
