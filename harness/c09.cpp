// C09 correspondence harness: every policy class is a coherent probability distribution over actions.
// For each policy object the harness reads a COPY of the object's own mt19937 (protected member rand_, reached through a
// pointer-to-member named via a derived helper — no library change) to learn the draws the next call will consume, calls the
// real library, and prints inputs | outputs.  The Lean driver replays the same draws through the model and evaluates the
// property clauses on the implementation's outputs.
#include "common/verif.hpp"
#include <AIToolbox/Seeder.hpp>
#include <AIToolbox/Utils/Probability.hpp>
#include <AIToolbox/Bandit/Experience.hpp>
#include <AIToolbox/Bandit/Policies/QGreedyPolicy.hpp>
#include <AIToolbox/Bandit/Policies/QSoftmaxPolicy.hpp>
#include <AIToolbox/Bandit/Policies/EpsilonPolicy.hpp>
#include <AIToolbox/Bandit/Policies/RandomPolicy.hpp>
#include <sys/wait.h>
#include <unistd.h>
#include <AIToolbox/Bandit/Policies/LRPPolicy.hpp>
#include <AIToolbox/Bandit/Policies/ESRLPolicy.hpp>
#include <AIToolbox/Bandit/Policies/SuccessiveRejectsPolicy.hpp>
#include <AIToolbox/Bandit/Policies/ThompsonSamplingPolicy.hpp>
#include <AIToolbox/Bandit/Policies/TopTwoThompsonSamplingPolicy.hpp>
#include <AIToolbox/Bandit/Policies/T3CPolicy.hpp>
#include <AIToolbox/MDP/Policies/Policy.hpp>
#include <AIToolbox/MDP/Policies/PolicyWrapper.hpp>
#include <AIToolbox/MDP/Policies/QGreedyPolicy.hpp>
#include <AIToolbox/MDP/Policies/QSoftmaxPolicy.hpp>
#include <AIToolbox/MDP/Policies/EpsilonPolicy.hpp>
#include <AIToolbox/MDP/Policies/RandomPolicy.hpp>
#include <AIToolbox/MDP/Policies/BanditPolicyAdaptor.hpp>
#include <AIToolbox/MDP/Policies/WoLFPolicy.hpp>
#include <AIToolbox/MDP/Policies/PGAAPPPolicy.hpp>
#include <AIToolbox/Factored/Bandit/Policies/QGreedyPolicy.hpp>
#include <AIToolbox/Factored/Bandit/Policies/EpsilonPolicy.hpp>
#include <AIToolbox/Factored/Bandit/Policies/RandomPolicy.hpp>
#include <AIToolbox/Factored/Bandit/Policies/SingleActionPolicy.hpp>
#include <AIToolbox/Factored/Utils/Core.hpp>
#include <AIToolbox/Factored/Bandit/Experience.hpp>
#include <AIToolbox/Factored/Bandit/Policies/LLRPolicy.hpp>
#include <AIToolbox/Factored/Bandit/Policies/MAUCEPolicy.hpp>
#include <AIToolbox/Factored/Bandit/Policies/MARMaxPolicy.hpp>
#include <AIToolbox/Factored/Bandit/Policies/ThompsonSamplingPolicy.hpp>
#include <AIToolbox/Factored/MDP/Policies/QGreedyPolicy.hpp>
#include <AIToolbox/Factored/MDP/Policies/EpsilonPolicy.hpp>
#include <AIToolbox/Factored/MDP/Policies/BanditPolicyAdaptor.hpp>
#include <thread>
#include <atomic>
#include <chrono>
#include <unistd.h>

using namespace verif;
namespace AI = AIToolbox;
namespace B = AIToolbox::Bandit;
namespace M = AIToolbox::MDP;
namespace F = AIToolbox::Factored;
namespace FB = AIToolbox::Factored::Bandit;
namespace FM = AIToolbox::Factored::MDP;

// ---- access to the policy's own engine (protected `rand_` of the common virtual base)
template <class P> struct Peek : P {
    static const AI::RandomEngine & get(const P & p) { return p.*(&Peek::rand_); }
};
template <class P> const AI::RandomEngine & eng(const P & p) { return Peek<P>::get(p); }

static void putW(Line & l, const AI::RandomEngine & e) { AI::RandomEngine c = e; for (int i = 0; i < 6; ++i) l << (size_t)c(); }
static double peekU(const AI::RandomEngine & e) { AI::RandomEngine c = e; return AI::probabilityDistribution(c); }

static unsigned g_seed = 1, g_root = 0;
static void reseed() { g_root = ++g_seed * 2654435761u + 12345u; AI::Seeder::setRootSeed(g_root); }
// Engine of a PRIVATE inner policy object (WoLF's actualPolicy_, PGA-APP's policy_): it was seeded with the k-th value the
// Seeder handed out after the last reseed(); sampleProbability consumes exactly one uniform real (two words) per call.
struct Mirror {
    AI::RandomEngine e;
    explicit Mirror(int k) { AI::Seeder::setRootSeed(g_root); unsigned s = 0; for (int i = 0; i < k; ++i) s = AI::Seeder::getSeed(); e.seed(s); }
    double nextU() { AI::RandomEngine c = e; double u = AI::probabilityDistribution(c); e.discard(2); return u; }
};

// ---- value generators: any sign, exact ties, well separated otherwise
static std::vector<double> genQ(Rng & rng, size_t n) {
    int mode = (int)rng.below(6);       // 0 mixed 1 all negative 2 all positive 3 all equal 4 two-valued 5 mixed, scaled
    int scale = mode == 5 ? (int)rng.range(-2, 6) : 0;
    std::vector<double> q(n);
    double base = (double)rng.range(-32, 32) / 4.0, other = (double)rng.range(-32, 32) / 4.0;
    for (auto & x : q) {
        double v = (double)rng.range(-32, 32) / 4.0;
        if (mode == 1) v = -std::fabs(v) - 0.25; else if (mode == 2) v = std::fabs(v) + 0.25;
        else if (mode == 3) v = base; else if (mode == 4) v = rng.coin() ? base : other;
        x = std::ldexp(v, scale);
    }
    if (n > 1 && rng.coin(1, 3)) q[rng.below(n)] = q[rng.below(n)];        // force a tie somewhere
    return q;
}
// ---- round 3: large magnitudes (1e5 … 1e12), near-ties that are ties only through the RELATIVE tolerance of checkEqualGeneral
// (gap > 1e-6 absolute, < 1e-12 relative), near-ties that are ties only through the ABSOLUTE tolerance (|q| < 1, gap 1.5e-8),
// mirrored rows (x and -x), all-negative rows.  Every row is "clustered": values of one cluster are library-equal with a margin
// of at least 10x, different clusters are at least 1e5 tolerances apart — so checkEqualGeneral is an equivalence on the row.
// E (out) = binary exponent of the magnitude (0 for the small regime); all values have at most 45 significant bits, so adding
// +-2^(E-1) is exact.
static const char * kBigKinds[] = {"big_sep", "big_reltie", "big_mirror", "big_allneg", "small_abstie", "big_allequalish"};
static std::vector<double> genQBig(Rng & rng, size_t n, int & E, int & mode) {
    mode = (int)rng.below(6);
    std::vector<double> q(n);
    if (mode == 4) {
        E = 0;
        for (auto & x : q) x = (double)rng.range(-4, 4) / 8.0 + std::ldexp((double)rng.range(-2, 2), -26);
        if (n > 1 && rng.coin()) q[rng.below(n)] = q[rng.below(n)];
        return q;
    }
    E = (int)rng.range(mode == 0 ? 17 : 27, 40);
    double B = std::ldexp(1.0 + (double)rng.below(512) / 512.0, E);
    if (mode == 3 || (mode != 2 && rng.coin())) B = -B;
    const double D = std::ldexp(1.0, E - 16), d = std::ldexp(1.0, E - 43);
    for (auto & x : q) {
        long c = mode == 5 ? 0 : rng.range(-3, 3), t = mode == 0 ? 0 : rng.range(0, 3);
        x = B + (double)c * D + (double)t * d;
        if (mode == 2 && rng.coin()) x = -x;
    }
    if (mode == 2 && n > 1) { size_t i = rng.below(n), j = (i + 1 + rng.below(n - 1)) % n; q[j] = -q[i]; }   // an exact mirrored pair
    if (n > 1 && rng.coin(1, 3)) q[rng.below(n)] = q[rng.below(n)];
    return q;
}
// chain of three near-ties a~b, b~c, a!~c (checkEqualGeneral is not transitive): small magnitude (gap 2^-20 < 1e-6 < 2 gaps) or
// large magnitude (gap 7.3e-12 relative).  Recorded finding C09-greedy-nontransitive-ties; judged under its own clause name.
static std::vector<double> genQChain(Rng & rng, size_t n, int & E) {
    std::vector<double> q(n);
    bool big = rng.coin();
    E = big ? (int)rng.range(27, 40) : 0;
    double B = big ? std::ldexp(rng.coin() ? 1.0 : -1.0, E) : (double)rng.range(-8, 8) / 4.0;
    double g = big ? std::ldexp(1.0, E - 37) : std::ldexp(1.0, -20);
    if (big && B < 0) B -= 2 * g;            // keep min(|a|,|b|) = 2^E for the outer pair
    bool up = rng.coin();
    for (size_t i = 0; i < n; ++i) { long k = i < 3 ? (long)i : rng.range(0, 2); q[i] = B + (double)(up ? k : 2 - k) * g; }
    return q;
}
static std::vector<double> genQAny(Rng & rng, size_t n, int & E, std::string & kind) {
    E = 0;
    if (rng.coin()) { kind = "legacy"; return genQ(rng, n); }
    int mode; auto q = genQBig(rng, n, E, mode); kind = kBigKinds[mode]; return q;
}
static void statQ(const char * who, const std::string & kind) { std::printf("#stat q_%s_%s 1\n", who, kind.c_str()); }
static B::QFunction toVec(const std::vector<double> & q) { B::QFunction v(q.size()); for (size_t i = 0; i < q.size(); ++i) v[i] = q[i]; return v; }
static std::vector<double> rowOf(const AI::Matrix2D & m, size_t s) { std::vector<double> r(m.cols()); for (long a = 0; a < m.cols(); ++a) r[a] = m(s, a); return r; }
static std::vector<double> vecOf(const AI::Vector & v) { std::vector<double> r(v.size()); for (long a = 0; a < v.size(); ++a) r[a] = v[a]; return r; }
static void putRow(Line & l, const std::vector<double> & r) { for (double x : r) l << x; }

// probability row with entries k/2^bits (zeros anywhere, mass at the first / last index, one-hot)
static std::vector<double> dyadicRowLocal(Rng & rng, size_t n) {
    unsigned bits = (unsigned)rng.range(2, 5), total = 1u << bits;
    std::vector<unsigned> k(n, 0);
    int mode = (int)rng.below(5);
    if (mode == 0) k[rng.below(n)] = total;
    else if (mode == 1) k[0] = total;
    else if (mode == 2) k[n - 1] = total;
    else for (unsigned t = 0; t < total; ++t) ++k[rng.below(n)];
    std::vector<double> r(n); for (size_t i = 0; i < n; ++i) r[i] = (double)k[i] / (double)total;
    return r;
}

// a stored row observed through all three members: table / per-action query / sampling
template <class Prob, class Samp>
static void table_line(const char * comp, const std::vector<double> & row, Prob prob, const std::vector<double> & policy, const AI::RandomEngine & e, Samp samp, int ns) {
    size_t n = row.size();
    Line l; l << "C09" << "table" << comp << n; putRow(l, row); l << "|";
    for (size_t a = 0; a < n; ++a) l << prob(a);
    putRow(l, policy); l << ns;
    for (int i = 0; i < ns; ++i) { l << peekU(e); l << samp(); }
    l.emit();
}

// ---- greedy
static void emit_greedy_bandit(const std::vector<double> & q, int ns) {
    reseed();
    auto qv = toVec(q); B::QGreedyPolicy p(qv); size_t n = q.size();
    Line l; l << "C09" << "greedy" << "Bandit::QGreedyPolicy" << n; putRow(l, q); l << "|";
    for (size_t a = 0; a < n; ++a) l << p.getActionProbability(a);
    putRow(l, vecOf(p.getPolicy())); l << ns;
    for (int i = 0; i < ns; ++i) { putW(l, eng(p)); l << p.sampleAction(); }
    l.emit();
}
static void emit_greedy_mdp(const M::QFunction & Q, int ns) {
    reseed();
    M::QGreedyPolicy p(Q); size_t n = Q.cols(); auto pol = p.getPolicy();
    for (long s = 0; s < Q.rows(); ++s) {
        Line l; l << "C09" << "greedy" << "MDP::QGreedyPolicy" << n; putRow(l, rowOf(Q, s)); l << "|";
        for (size_t a = 0; a < n; ++a) l << p.getActionProbability(s, a);
        putRow(l, rowOf(pol, s)); l << ns;
        for (int i = 0; i < ns; ++i) { putW(l, eng(p)); l << p.sampleAction(s); }
        l.emit();
    }
}
static void emit_shift_greedy(const std::vector<double> & q, double c, int ns) {
    size_t n = q.size(); std::vector<double> qc(q); for (auto & x : qc) x += c;
    auto va = toVec(q), vb = toVec(qc);
    unsigned sd = ++g_seed * 7919u;
    AI::Seeder::setRootSeed(sd); B::QGreedyPolicy pa(va);
    AI::Seeder::setRootSeed(sd); B::QGreedyPolicy pb(vb);
    Line l; l << "C09" << "shift" << "Bandit::QGreedyPolicy" << "exact" << n; putRow(l, q); l << c << "|";
    putRow(l, vecOf(pa.getPolicy())); putRow(l, vecOf(pb.getPolicy())); l << ns;
    for (int i = 0; i < ns; ++i) { l << pa.sampleAction(); l << pb.sampleAction(); }
    l.emit();
}

// ---- softmax
static AI::Vector expOf(const AI::Vector & q, double t, bool shifted) {
    AI::Vector r;
    if (shifted) r = ((q.array() - q.maxCoeff()) / t).exp(); else r = (q / t).array().exp();
    return r;
}
template <class Pol, class Prob, class Samp>
static void softmax_line(const char * comp, const std::vector<double> & q, double t, Pol & p, Prob prob, const std::vector<double> & policy, Samp samp, int ns) {
    size_t n = q.size(); auto qv = toVec(q);
    Line l; l << "C09" << "softmax" << comp << t << n; putRow(l, q);
    putRow(l, vecOf(expOf(qv, t, false))); putRow(l, vecOf(expOf(qv, t, true))); l << "|";
    for (size_t a = 0; a < n; ++a) l << prob(a);
    putRow(l, policy); l << ns;
    for (int i = 0; i < ns; ++i) { l << peekU(eng(p)); putW(l, eng(p)); l << samp(); }
    l.emit();
}
static void emit_softmax_bandit(const std::vector<double> & q, double t, int ns) {
    reseed();
    auto qv = toVec(q); B::QSoftmaxPolicy p(qv, t);
    softmax_line("Bandit::QSoftmaxPolicy", q, t, p, [&](size_t a) { return p.getActionProbability(a); }, vecOf(p.getPolicy()), [&]() { return p.sampleAction(); }, ns);
}
static void emit_softmax_mdp(const M::QFunction & Q, double t, int ns) {
    reseed();
    M::QSoftmaxPolicy p(Q, t); auto pol = p.getPolicy();
    for (long s = 0; s < Q.rows(); ++s)
        softmax_line("MDP::QSoftmaxPolicy", rowOf(Q, s), t, p, [&](size_t a) { return p.getActionProbability(s, a); }, rowOf(pol, s), [&]() { return p.sampleAction(s); }, ns);
}
static void emit_shift_softmax(const std::vector<double> & q, double t, double c, int ns) {
    size_t n = q.size(); std::vector<double> qc(q); for (auto & x : qc) x += c;
    auto va = toVec(q), vb = toVec(qc);
    // admissible shift: every exponential stays a normal finite double on both sides — "close": already for exp(q/T);
    // "closeS": only for exp((q - max q)/T) (admissible when the library subtracts the maximum, Gen.C09.smSubtractMax)
    bool plain = true;
    for (auto * v : {&va, &vb}) { auto e = expOf(*v, t, false); for (long i = 0; i < e.size(); ++i) if (!(e[i] > 1e-300 && e[i] < 1e300)) plain = false; }
    unsigned sd = ++g_seed * 7919u;
    AI::Seeder::setRootSeed(sd); B::QSoftmaxPolicy pa(va, t);
    AI::Seeder::setRootSeed(sd); B::QSoftmaxPolicy pb(vb, t);
    Line l; l << "C09" << "shift" << "Bandit::QSoftmaxPolicy" << (plain ? "close" : "closeS") << n; putRow(l, q); l << c << "|";
    putRow(l, vecOf(pa.getPolicy())); putRow(l, vecOf(pb.getPolicy())); l << 0;
    l.emit();
    (void)ns;
}

// ---- epsilon
template <class Wrapped>
static void emit_eps_bandit(const char * comp, Wrapped & w, double e, int ns) {
    reseed();
    B::EpsilonPolicy p(w, e); size_t n = p.getA();
    Line l; l << "C09" << "eps" << comp << e << n; putRow(l, vecOf(w.getPolicy())); l << "|";
    for (size_t a = 0; a < n; ++a) l << p.getActionProbability(a);
    putRow(l, vecOf(p.getPolicy())); l << ns;
    for (int i = 0; i < ns; ++i) {
        l << peekU(eng(p)); putW(l, eng(p));
        Wrapped copy(w); l << copy.sampleAction();      // what the wrapped policy will answer (its own engine, copied)
        l << p.sampleAction();
    }
    l.emit();
}
static void emit_eps_mdp(const M::QFunction & Q, double e, int ns) {
    reseed();
    M::QGreedyPolicy w(Q); M::EpsilonPolicy p(w, e); size_t n = Q.cols(); auto wp = w.getPolicy(); auto pol = p.getPolicy();
    for (long s = 0; s < Q.rows(); ++s) {
        Line l; l << "C09" << "eps" << "MDP::EpsilonPolicy" << e << n; putRow(l, rowOf(wp, s)); l << "|";
        for (size_t a = 0; a < n; ++a) l << p.getActionProbability(s, a);
        putRow(l, rowOf(pol, s)); l << ns;
        for (int i = 0; i < ns; ++i) {
            l << peekU(eng(p)); putW(l, eng(p));
            M::QGreedyPolicy copy(w); l << copy.sampleAction(s);
            l << p.sampleAction(s);
        }
        l.emit();
    }
}

// ---- tables
static void emit_table(Rng & rng, size_t S, size_t n, int ns) {
    reseed();
    AI::Matrix2D m(S, n);
    for (size_t s = 0; s < S; ++s) { auto r = dyadicRowLocal(rng, n); for (size_t a = 0; a < n; ++a) m(s, a) = r[a]; }
    int which = (int)rng.below(6);
    std::unique_ptr<M::PolicyInterface> holder; std::unique_ptr<M::Policy> src;
    const char * comp;
    std::printf("#stat table_ctor_%d 1\n", which);
    if (which == 4) {   // rarely used overload: copy through the generic base interface (S*A getActionProbability calls), non-square S x A
        src.reset(new M::Policy(m)); holder.reset(new M::Policy(static_cast<const M::PolicyInterface::Base &>(*src))); comp = "MDP::Policy(copy-base)"; }
    else if (which == 5) {  // greedy policy of a ValueFunction: one-hot rows
        M::ValueFunction vf; vf.values = AI::Vector::Zero(S); vf.actions.resize(S);
        m.setZero(); for (size_t s = 0; s < S; ++s) { vf.actions[s] = rng.below(n); m(s, vf.actions[s]) = 1.0; }
        holder.reset(new M::Policy(S, n, vf)); comp = "MDP::Policy(valuefunction)"; }
    else if (which == 0) { holder.reset(new M::Policy(m)); comp = "MDP::Policy"; }
    else if (which == 1) { holder.reset(new M::PolicyWrapper(m)); comp = "MDP::PolicyWrapper"; }
    else if (which == 2) { src.reset(new M::Policy(m)); holder.reset(new M::Policy(static_cast<const M::PolicyInterface &>(*src))); comp = "MDP::Policy(copy)"; }
    else { holder.reset(new M::Policy(S, n)); m.fill(1.0 / n); comp = "MDP::Policy(uniform)"; }
    auto & p = *holder; auto pol = p.getPolicy();
    for (size_t s = 0; s < S; ++s) {
        Line l; l << "C09" << "table" << comp << n; putRow(l, rowOf(m, s)); l << "|";
        for (size_t a = 0; a < n; ++a) l << p.getActionProbability(s, a);
        putRow(l, rowOf(pol, s)); l << ns;
        for (int i = 0; i < ns; ++i) { l << peekU(eng(p)); l << p.sampleAction(s); }
        l.emit();
    }
}

// a matrix that is NOT a set of distributions must be rejected by the checked constructor (isProbability): if it is accepted the
// policy exposes it, and the row clauses fail on the implementation's own table
static void emit_table_invalid(Rng & rng, size_t S, size_t n) {
    reseed();
    AI::Matrix2D m(S, n);
    for (size_t s = 0; s < S; ++s) { auto r = dyadicRowLocal(rng, n); for (size_t a = 0; a < n; ++a) m(s, a) = r[a]; }
    size_t s = rng.below(S), a = rng.below(n); int kind = (int)rng.below(4);
    if (kind == 0) m.row(s) *= 0.5;                                   // sums to 1/2
    else if (kind == 1) m(s, a) += 0.25;                              // sums to 5/4
    else if (kind == 2 && n > 1) { m(s, a) -= 1.25; m(s, (a + 1) % n) += 1.25; }   // sums to one with a negative entry
    else m(s, a) = m(s, a) + std::ldexp(1.0, -16);                    // off by 1.5e-5 (15 tolerances)
    std::printf("#stat table_invalid_kind%d 1\n", kind);
    try {
        M::Policy p(m); auto pol = p.getPolicy();
        for (size_t r = 0; r < S; ++r) {
            Line l; l << "C09" << "table" << "MDP::Policy(invalid-accepted)" << n; putRow(l, rowOf(m, r)); l << "|";
            for (size_t x = 0; x < n; ++x) l << p.getActionProbability(r, x);
            putRow(l, rowOf(pol, r)); l << 0; l.emit();
        }
    } catch (const std::invalid_argument &) { std::printf("#stat table_invalid_rejected 1\n"); }
}

// MDP::BanditPolicyAdaptor over value-based bandit policies: every state shows the bandit policy (getPolicy: transpose + replicate)
static void emit_adaptor(const std::vector<double> & q, size_t S, int ns) {
    reseed();
    auto qv = toVec(q); size_t n = q.size();
    M::BanditPolicyAdaptor<B::QGreedyPolicy> p(S, qv); auto pol = p.getPolicy();
    for (size_t s = 0; s < S; ++s) {
        Line l; l << "C09" << "greedy" << "MDP::BanditPolicyAdaptor<QGreedyPolicy>" << n; putRow(l, q); l << "|";
        for (size_t a = 0; a < n; ++a) l << p.getActionProbability(s, a);
        putRow(l, rowOf(pol, s)); l << ns;
        for (int i = 0; i < ns; ++i) { putW(l, eng(p.getBanditPolicy())); l << p.sampleAction(s); }
        l.emit();
    }
}

// ---- random
static void emit_random(size_t n, size_t S, int ns) {
    reseed();
    {
        B::RandomPolicy p(n);
        Line l; l << "C09" << "random" << "Bandit::RandomPolicy" << n << "|";
        for (size_t a = 0; a < n; ++a) l << p.getActionProbability(a);
        putRow(l, vecOf(p.getPolicy())); l << ns;
        for (int i = 0; i < ns; ++i) { putW(l, eng(p)); l << p.sampleAction(); }
        l.emit();
    }
    {
        M::RandomPolicy p(S, n); auto pol = p.getPolicy();
        for (size_t s = 0; s < S; ++s) {
            Line l; l << "C09" << "random" << "MDP::RandomPolicy" << n << "|";
            for (size_t a = 0; a < n; ++a) l << p.getActionProbability(s, a);
            putRow(l, rowOf(pol, s)); l << ns;
            for (int i = 0; i < ns; ++i) { putW(l, eng(p.getBanditPolicy())); l << p.sampleAction(s); }
            l.emit();
        }
    }
}

// ---- LRP
static void emit_lrp(Rng & rng, size_t n, double a, double b, int k, int ns) {
    reseed();
    B::LRPPolicy p(n, a, b);
    std::vector<std::pair<size_t, bool>> ops;
    Line out; putRow(out, vecOf(p.getPolicy()));
    for (int i = 0; i < k; ++i) {
        size_t act = rng.below(n); bool r = rng.coin();
        ops.push_back({act, r}); p.stepUpdateP(act, r);
        putRow(out, vecOf(p.getPolicy()));
    }
    Line l; l << "C09" << "lrp" << "LRPPolicy" << n << a << b << k;
    for (auto & o : ops) { l << o.first << o.second; }
    l << "|"; l.tok(out.os.str()); l << ns;
    for (int i = 0; i < ns; ++i) { l << peekU(eng(p)); l << p.sampleAction(); }
    l.emit();
    if (a >= 0 && a <= 1 && b >= 0 && b <= 1 && (n >= 2 || b == 0)) {
        auto row = vecOf(p.getPolicy());
        table_line("LRPPolicy", row, [&](size_t x) { return p.getActionProbability(x); }, row, eng(p), [&]() { return p.sampleAction(); }, 2);
    }
}


// ---- LRP with its parameters changed on the live object: `setAParam` / `setBParam` between updates (the property quantifies over
// parameter settings; `lrp_row_invariant` is stated per-operation a, b).  `lrpv <comp> n k { a b act res } | row0 k×(row getA getB) ns {u act}`
static void emit_lrpv(Rng & rng, size_t n, int k, int ns) {
    reseed();
    auto par = [&]() { static const double v[] = {0.0, 0.125, 0.25, 0.5, 0.75, 1.0}; return v[rng.below(6)]; };
    double a = par(), b = par();
    B::LRPPolicy p(n, a, b);
    Line ops, out; putRow(out, vecOf(p.getPolicy()));
    for (int i = 0; i < k; ++i) {
        const unsigned ch = (unsigned)rng.below(4);
        if (ch == 0 || ch == 2) { a = par(); p.setAParam(a); }
        if (ch == 1 || ch == 2) { b = par(); p.setBParam(b); }
        size_t act = rng.below(n); bool r = rng.coin(1, 3);          // mostly penalties: they are the updates that use b
        p.stepUpdateP(act, r);
        ops << a << b << act << r;
        putRow(out, vecOf(p.getPolicy())); out << p.getAParam() << p.getBParam();
        std::printf("#stat lrpv_param_change_%s 1\n", ch == 0 ? "a" : ch == 1 ? "b" : ch == 2 ? "both" : "none");
    }
    Line l; l << "C09" << "lrpv" << "LRPPolicy" << n << k; l.tok(ops.os.str());
    l << "|"; l.tok(out.os.str()); l << ns;
    for (int i = 0; i < ns; ++i) { l << peekU(eng(p)); l << p.sampleAction(); }
    l.emit();
}

// ---- WoLF / PGA-APP
static const char * g_who = "row";
static void fillRow(Rng & rng, M::QFunction & Q, size_t s) { int E; std::string kind; auto q = genQAny(rng, Q.cols(), E, kind); statQ(g_who, kind); for (long a = 0; a < Q.cols(); ++a) Q(s, a) = q[a]; }

static void emit_wolf(Rng & rng, size_t n, size_t S, double dW, double dL, double sc, int k, int ns) {
    reseed();
    M::QFunction Q(S, n); Q.setZero();
    M::WoLFPolicy p(Q, dW, dL, sc);
    Line in, out;
    for (int i = 0; i < k; ++i) {
        size_t s = rng.below(S);
        if (rng.coin(2, 3)) fillRow(rng, Q, s);          // the learner moved Q(s,·)
        in << s; putRow(in, rowOf(Q, s)); putW(in, eng(p));
        p.stepUpdateP(s);
        std::vector<double> row(n); for (size_t a = 0; a < n; ++a) row[a] = p.getActionProbability(s, a);
        putRow(out, row);
    }
    auto pol = p.getPolicy();
    for (size_t s = 0; s < S; ++s) putRow(out, rowOf(pol, s));
    Line l; l << "C09" << "wolf" << "WoLFPolicy" << n << S << dW << dL << sc << k;
    if (k) l.tok(in.os.str());
    l << "|"; l.tok(out.os.str()); l << ns;
    Mirror mir(3);
    for (int i = 0; i < ns; ++i) { size_t s = rng.below(S); l << s << mir.nextU(); l << p.sampleAction(s); }
    l.emit();
}

static void emit_pgaapp(Rng & rng, size_t n, size_t S, double lr, double pl, int k, int ns, bool zeroQ) {
    reseed();
    M::QFunction Q(S, n); Q.setZero();
    M::PGAAPPPolicy p(Q, lr, pl);
    Line in, out;
    for (int i = 0; i < k; ++i) {
        size_t s = rng.below(S);
        if (!zeroQ && rng.coin(2, 3)) fillRow(rng, Q, s);
        in << s; putRow(in, rowOf(Q, s));
        p.stepUpdateP(s);
        std::vector<double> row(n); for (size_t a = 0; a < n; ++a) row[a] = p.getActionProbability(s, a);
        putRow(out, row);
    }
    auto pol = p.getPolicy();
    for (size_t s = 0; s < S; ++s) putRow(out, rowOf(pol, s));
    Line l; l << "C09" << "pgaapp" << "PGAAPPPolicy" << n << S << lr << pl << k;
    if (k) l.tok(in.os.str());
    l << "|"; l.tok(out.os.str()); l << ns;
    Mirror mir(2);
    for (int i = 0; i < ns; ++i) { size_t s = rng.below(S); l << s << mir.nextU(); l << p.sampleAction(s); }
    l.emit();
}

// ---- Thompson family
static B::Experience makeExp(Rng & rng, size_t n, double centre, double spread, bool someUnvisited, double shift, double muStep = 1.0) {
    B::Experience e(n);
    for (size_t a = 0; a < n; ++a) {
        int cnt = someUnvisited && rng.coin(1, 3) ? (int)rng.below(2) : (int)rng.range(2, 6);
        double mu = centre + muStep * (double)rng.range(-8, 8) / 4.0;
        for (int i = 0; i < cnt; ++i) e.record(a, mu + spread * (double)rng.range(-4, 4) / 4.0 + shift);
    }
    return e;
}
// the posterior draws sampleAction will make, from a copy of the engine, with the same expression as the library
static std::vector<double> thompsonDraws(const B::Experience & exp, const AI::RandomEngine & e0) {
    AI::RandomEngine rnd = e0;
    const auto & counts = exp.getVisitsTable(); const auto & q = exp.getRewardMatrix(); const auto & m2 = exp.getM2Matrix();
    size_t A = q.size(); std::vector<double> vals(A, 0.0);
    for (size_t a = 0; a < A; ++a) {
        if (counts[a] < 2) break;
        std::student_t_distribution<double> dist(counts[a] - 1);
        vals[a] = q[a] + dist(rnd) * std::sqrt(m2[a] / (counts[a] * (counts[a] - 1)));
    }
    return vals;
}
static void emit_thompson_kernel(const B::Experience & exp, int reps) {
    reseed();
    B::ThompsonSamplingPolicy p(exp); size_t n = p.getA();
    for (int i = 0; i < reps; ++i) {
        auto vals = thompsonDraws(exp, eng(p));
        Line l; l << "C09" << "thompson" << "ThompsonSamplingPolicy" << n;
        for (size_t a = 0; a < n; ++a) l << (size_t)exp.getVisitsTable()[a];
        putRow(l, vals); l << "|" << p.sampleAction(); l.emit();
    }
}
// same recorded history with every reward shifted by c, same seed: the action sequence must be identical
template <class MakeA, class MakeB>
static void emit_thompson_shift(const char * comp, size_t n, double c, int ns, MakeA mkA, MakeB mkB) {
    unsigned sd = ++g_seed * 7919u;
    AI::Seeder::setRootSeed(sd); auto pa = mkA();
    AI::Seeder::setRootSeed(sd); auto pb = mkB();
    Line l; l << "C09" << "shift" << comp << "none" << n; for (size_t a = 0; a < n; ++a) l << 0.0; l << c << "|";
    for (size_t a = 0; a < n; ++a) l << 0.0; for (size_t a = 0; a < n; ++a) l << 0.0;
    l << ns;
    for (int i = 0; i < ns; ++i) { l << pa->sampleAction(); l << pb->sampleAction(); }
    l.emit();
}
template <class Pol>
static void emit_mc(const char * comp, Pol & p, int ns) {
    size_t n = p.getA();
    Line l; l << "C09" << "mc" << comp << n << "|";
    putRow(l, vecOf(p.getPolicy()));
    for (size_t a = 0; a < n; ++a) l << p.getActionProbability(a);
    l << ns; for (int i = 0; i < ns; ++i) l << p.sampleAction();
    l.emit();
}

// Monte-Carlo tables against the frequencies of an identical copy (same Experience, same engine state, inner policy included):
// getPolicy() draws 100000 samples, getActionProbability(a) 1000 — the copy replays exactly those draws.
template <class Pol>
static void emit_mc2(const char * comp, Pol & p) {
    size_t n = p.getA();
    Pol c(p);
    auto table = vecOf(p.getPolicy());
    const size_t trials = 100000, qtrials = 1000;
    std::vector<size_t> cnt(n, 0), qcnt(n, 0); size_t oor = 0;
    for (size_t i = 0; i < trials; ++i) { size_t a = c.sampleAction(); if (a < n) ++cnt[a]; else ++oor; }
    std::vector<double> probs(n);
    for (size_t a = 0; a < n; ++a) {
        probs[a] = p.getActionProbability(a);
        for (size_t i = 0; i < qtrials; ++i) if (c.sampleAction() == a) ++qcnt[a];
    }
    Line l; l << "C09" << "mc2" << comp << n << trials; for (auto x : cnt) l << x; l << qtrials; for (auto x : qcnt) l << x;
    l << "|"; putRow(l, table); putRow(l, probs); l.emit();
    (void)oor;
}

// ---- ESRL
static void emit_esrl(Rng & rng, size_t n, double a, unsigned N, unsigned phases, unsigned window, int k) {
    reseed();
    B::ESRLPolicy p(n, a, N, phases, window);
    Line in, out;
    auto observe = [&]() {
        out << p.isExploiting();
        for (size_t x = 0; x < n; ++x) out << p.getActionProbability(x);
        putRow(out, vecOf(p.getPolicy()));
        out << p.sampleAction();
    };
    observe();
    for (int i = 0; i < k; ++i) {
        size_t act = rng.coin(4, 5) ? p.sampleAction() : rng.below(n); bool r = rng.coin();
        in << act << r; p.stepUpdateP(act, r); observe();
    }
    Line l; l << "C09" << "esrl" << "ESRLPolicy" << n << a << (size_t)N << (size_t)phases << (size_t)window << k;
    if (k) l.tok(in.os.str());
    l << "|"; l.tok(out.os.str()); l.emit();
}

// ---- SuccessiveRejects
static void emit_sr(Rng & rng, size_t n, unsigned budget, int k, double base = 0.0, double step = 0.25) {
    reseed();
    B::Experience exp(n);
    B::SuccessiveRejectsPolicy p(exp, budget);
    Line in, out;
    auto observe = [&]() {
        out << p.sampleAction();
        for (size_t x = 0; x < n; ++x) out << p.getActionProbability(x);
        putRow(out, vecOf(p.getPolicy()));
    };
    size_t nk1 = p.getCurrentNk();
    observe();
    for (int i = 0; i < k; ++i) {
        size_t a = p.sampleAction();
        exp.record(a, base + step * (double)rng.range(-16, 16));
        p.stepUpdateQ();
        in << p.getCurrentNk(); putRow(in, vecOf(exp.getRewardMatrix()));
        observe();
    }
    Line l; l << "C09" << "sr" << "SuccessiveRejectsPolicy" << n << k;
    if (k) l.tok(in.os.str());
    l << "|" << nk1; l.tok(out.os.str()); l.emit();
}

// per-joint-action queries over the whole joint space: P(a) = (1-eps) [a = greedy] + eps / |space|  (eps = 0: deterministic, 1: uniform)
static void fprob_line(const char * comp, const F::Action & A, const FB::PolicyInterface & pol, double eps, const F::Action & gact, int ns) {
    size_t m = A.size();
    Line l; l << "C09" << "fprob" << comp << m; for (auto a : A) l << a; l << eps; for (auto a : gact) l << a;
    size_t np = 1; for (auto a : A) np *= a; l << np;
    F::PartialFactorsEnumerator e(A);
    while (e.isValid()) { F::Action a = (*e).second; for (auto x : a) l << x; l << pol.getActionProbability(a); e.advance(); }
    l << ns; for (int i = 0; i < ns; ++i) { auto a = pol.sampleAction(); for (auto x : a) l << x; }
    l.emit();
}
static const double kEpsF[] = {0.0, 1.0, 0.5, 0.125, 0.1, 0.3};
// ---- factored bandit wrappers: joint action in range; greedy: optimal by brute force
static void emit_factored(Rng & rng) {
    reseed();
    size_t m = (size_t)rng.range(2, 4);
    F::Action A(m); for (auto & a : A) a = (size_t)rng.range(2, 3);
    // random local payoff functions over pairs of neighbouring agents
    std::vector<FB::QFunctionRule> rules;
    // round 3: payoffs off + sc*k/4 with off in {0, +-2^E} (E = 17..40) — large magnitudes, all-negative tables, mixed signs; sums of three stay exact
    double off = 0.0, sc = 1.0; int reg = (int)rng.below(4);
    if (reg >= 2) { int E = (int)rng.range(17, 40); off = std::ldexp(rng.coin() ? 1.0 : -1.0, E); sc = reg == 2 ? 1.0 : std::ldexp(1.0, E - 20); }
    std::printf("#stat q_factored_%s 1\n", reg < 2 ? "legacy" : reg == 2 ? "big" : "big_scaled");
    for (size_t i = 0; i + 1 < m; ++i)
        for (size_t x = 0; x < A[i]; ++x) for (size_t y = 0; y < A[i + 1]; ++y)
            rules.push_back(FB::QFunctionRule{F::PartialAction{{i, i + 1}, {x, y}}, (rng.coin(1, 8) ? -off : off) + sc * (double)rng.range(-16, 16) / 4.0});
    F::FilterMap<FB::QFunctionRule> fm(A);
    for (auto & r : rules) fm.emplace(r.action, r);
    auto value = [&](const F::Action & a) { double v = 0; for (auto & r : rules) if (F::match(a, r.action)) v += r.value; return v; };
    double best = -1e300; { F::PartialFactorsEnumerator e(A); while (e.isValid()) { F::Action a = (*e).second; best = std::max(best, value(a)); e.advance(); } }
    auto line = [&](const char * comp, const F::Action & act, bool opt) {
        Line l; l << "C09" << "joint" << comp << m; for (auto a : A) l << a; for (auto a : act) l << a; l << opt << (opt ? value(act) : 0.0) << best; l.emit();
    };
    FB::QGreedyPolicy<> g(A, fm);
    line("Factored::Bandit::QGreedyPolicy", g.sampleAction(), true);
    auto fprob = [&](const char * comp, const FB::PolicyInterface & pol, double eps, const F::Action & gact, int ns) { fprob_line(comp, A, pol, eps, gact, ns); };
    {
        auto gact = g.sampleAction();
        fprob("Factored::Bandit::QGreedyPolicy", g, 0.0, gact, 1);
        FB::RandomPolicy rq(A); fprob("Factored::Bandit::RandomPolicy", rq, 1.0, gact, 3);
        double ee = kEpsF[rng.below(6)]; FB::EpsilonPolicy eq(g, ee); fprob("Factored::Bandit::EpsilonPolicy", eq, ee, gact, 3);
        FB::SingleActionPolicy sq(A); F::Action u0(m); for (size_t i = 0; i < m; ++i) u0[i] = rng.below(A[i]); sq.updateAction(u0);
        fprob("Factored::Bandit::SingleActionPolicy", sq, 0.0, u0, 1);
    }
    FB::RandomPolicy rp(A);
    for (int i = 0; i < 3; ++i) line("Factored::Bandit::RandomPolicy", rp.sampleAction(), false);
    FB::EpsilonPolicy ep(g, 0.5);
    for (int i = 0; i < 3; ++i) line("Factored::Bandit::EpsilonPolicy", ep.sampleAction(), false);
    FB::EpsilonPolicy e0(g, 0.0);
    line("Factored::Bandit::EpsilonPolicy", e0.sampleAction(), true);
    FB::SingleActionPolicy sp(A);
    line("Factored::Bandit::SingleActionPolicy", sp.sampleAction(), false);
    F::Action upd(m); for (size_t i = 0; i < m; ++i) upd[i] = rng.below(A[i]);
    sp.updateAction(upd);
    line("Factored::Bandit::SingleActionPolicy", sp.sampleAction(), false);
}

// ---- TopTwoThompson / T3C selection kernels: the inner ThompsonSamplingPolicy is private; a shadow constructed with the same
// seed (the 2nd value the Seeder hands out after reseed()) answers exactly what the inner one will answer.
static void recommend_line(const char * comp, const B::Experience & exp, size_t act) {
    Line l; l << "C09" << "recommend" << comp << (size_t)exp.getA(); putRow(l, vecOf(exp.getRewardMatrix())); l << "|" << act; l.emit();
}
static void emit_toptwo(const B::Experience & exp, double beta, int reps) {
    reseed();
    B::TopTwoThompsonSamplingPolicy p(exp, beta); size_t n = p.getA();
    recommend_line("TopTwoThompsonSamplingPolicy", exp, p.recommendAction());
    AI::Seeder::setRootSeed(g_root); (void)AI::Seeder::getSeed();
    B::ThompsonSamplingPolicy shadow(exp);
    for (int i = 0; i < reps; ++i) {
        const int K = 24;
        Line l; l << "C09" << "toptwo" << "TopTwoThompsonSamplingPolicy" << n;
        for (size_t a = 0; a < n; ++a) l << (size_t)exp.getVisitsTable()[a];
        l << beta << peekU(eng(p)) << K;
        { B::ThompsonSamplingPolicy peek(shadow); for (int k = 0; k < K; ++k) l << peek.sampleAction(); }
        // run the real one and advance the shadow by as many answers as the real one consumed
        size_t act = p.sampleAction();
        size_t b = shadow.sampleAction();
        if (exp.getVisitsTable()[b] >= 2 && act != b) { int guard = 0; while (shadow.sampleAction() == b && ++guard < 100000) {} }
        l << "|" << act; l.emit();
    }
}
static void emit_t3c(const B::Experience & exp, double beta, double var, int reps) {
    reseed();
    B::T3CPolicy p(exp, beta, var); size_t n = p.getA();
    recommend_line("T3CPolicy", exp, p.recommendAction());
    AI::Seeder::setRootSeed(g_root); (void)AI::Seeder::getSeed();
    B::ThompsonSamplingPolicy shadow(exp);
    for (int i = 0; i < reps; ++i) {
        size_t best = shadow.sampleAction();
        Line l; l << "C09" << "t3c" << "T3CPolicy" << n;
        for (size_t a = 0; a < n; ++a) l << (size_t)exp.getVisitsTable()[a];
        putRow(l, vecOf(exp.getRewardMatrix())); l << var << beta << best;
        { AI::RandomEngine c = eng(p); l << AI::probabilityDistribution(c); l << 6; for (int k = 0; k < 6; ++k) l << AI::probabilityDistribution(c); }
        l << "|" << p.sampleAction(); l.emit();
    }
}

// ---- factored policies that maximise a sum of local payoff tables: joint action in range and optimal by brute force
struct LocalRule { F::PartialKeys keys; F::PartialValues vals; double value; };
static void fjoint_line(const char * comp, const F::Action & A, const std::vector<LocalRule> & rules, const F::Action & act) {
    Line l; l << "C09" << "fjoint" << comp << (size_t)A.size(); for (auto a : A) l << a; l << (size_t)rules.size();
    for (auto & r : rules) { l << (size_t)r.keys.size(); for (auto k : r.keys) l << k; for (auto v : r.vals) l << v; l << r.value; }
    l << "|"; for (auto a : act) l << a; l.emit();
}
static FB::Experience makeFExp(Rng & rng, const F::Action & A, const std::vector<F::PartialKeys> & deps, bool visitAll, double centre) {
    FB::Experience exp(A, deps);
    F::Rewards rew(deps.size());
    auto rec = [&](const F::Action & a) { for (size_t i = 0; i < deps.size(); ++i) rew[i] = centre + (double)rng.range(-8, 8) / 4.0; exp.record(a, rew); };
    if (visitAll) { F::PartialFactorsEnumerator e(A); while (e.isValid()) { F::Action a = (*e).second; rec(a); rec(a); e.advance(); } }
    int extra = (int)rng.range(0, 12);
    for (int t = 0; t < extra; ++t) { F::Action a(A.size()); for (size_t i = 0; i < A.size(); ++i) a[i] = rng.below(A[i]); rec(a); }
    return exp;
}
static void emit_factored_learners(Rng & rng) {
    size_t m = (size_t)rng.range(2, 4);
    F::Action A(m); for (auto & a : A) a = (size_t)rng.range(2, 3);
    std::vector<F::PartialKeys> deps; for (size_t i = 0; i + 1 < m; ++i) deps.push_back({i, i + 1});
    if (m == 2 && rng.coin()) deps = {{0}, {1}};
    bool visitAll = rng.coin(3, 4);
    double fcentre = rng.coin() ? 3.0 : -3.0;
    if (rng.coin(1, 3)) fcentre = std::ldexp(rng.coin() ? 1.0 : -1.0, (int)rng.range(17, 40));
    std::printf("#stat q_flearn_%s 1\n", std::fabs(fcentre) < 4 ? "legacy" : "big");
    auto exp = makeFExp(rng, A, deps, visitAll, fcentre);
    if (exp.getTimesteps() == 0) return;
    const auto & q = exp.getRewardMatrix(); const auto & c = exp.getVisitsTable(); const auto & M2 = exp.getM2Matrix();
    {   // LLR: upper confidence values, same expressions as the library
        reseed();
        FB::LLRPolicy p(exp);
        std::vector<LocalRule> rules;
        const auto LtLog = (1 + 1) * std::log(exp.getTimesteps());
        for (size_t x = 0; x < q.bases.size(); ++x)
            for (size_t y = 0; y < (size_t)q.bases[x].values.size(); ++y) {
                double val = c[x][y] == 0 ? std::numeric_limits<double>::max() / q.bases.size() : q.bases[x].values(y) + std::sqrt(LtLog / c[x][y]);
                rules.push_back({q.bases[x].tag, F::toFactorsPartial(q.bases[x].tag, A, y), val});
            }
        fjoint_line("Factored::Bandit::LLRPolicy", A, rules, p.sampleAction());
    }
    {   // factored Thompson: the posterior draws from a copy of the policy's engine, same order and expressions as setupGraph
        reseed();
        FB::ThompsonSamplingPolicy p(exp);
        for (int rep = 0; rep < 2; ++rep) {
            AI::RandomEngine rnd = eng(p);
            std::vector<LocalRule> rules;
            for (size_t i = 0; i < q.bases.size(); ++i)
                for (size_t y = 0; y < (size_t)q.bases[i].values.size(); ++y) {
                    double val;
                    const auto & counts = c[i]; const auto & m2 = M2[i];
                    if (counts[y] < 2) val = std::numeric_limits<double>::max() / q.bases.size();
                    else { std::student_t_distribution<double> dist(counts[y] - 1); val = q.bases[i].values[y] + dist(rnd) * std::sqrt(m2[y] / (counts[y] * (counts[y] - 1))); }
                    rules.push_back({q.bases[i].tag, F::toFactorsPartial(q.bases[i].tag, A, y), val});
                }
            fjoint_line("Factored::Bandit::ThompsonSamplingPolicy", A, rules, p.sampleAction());
        }
    }
    {   // MAUCE: range only (its objective is a vector-valued bound handled by UCVE, property C13)
        reseed();
        FB::MAUCEPolicy p(exp, std::vector<double>(deps.size(), 4.0));
        auto act = p.sampleAction();
        Line l; l << "C09" << "joint" << "Factored::Bandit::MAUCEPolicy" << m; for (auto a : A) l << a; for (auto a : act) l << a; l << false << 0.0 << 0.0; l.emit();
    }
    {   // MARMax / MAVMax: deterministic; plays the maximiser of the (optimistic) value tables, which are recomputed here with the
        // library's expressions after every stepUpdateQ.  Joint action optimal by brute force; queries = indicator of that action.
        reseed();
        FB::Experience ex2(A, deps);
        AI::Vector ranges(deps.size()); for (long i = 0; i < ranges.size(); ++i) ranges[i] = (double)rng.range(1, 4);
        bool optimistic = rng.coin();
        FB::MARMaxPolicy p(ex2, ranges, rng.coin() ? 0.5 : 0.25, 0.5, optimistic);
        const double mm = p.getM();
        std::vector<std::vector<double>> vals(deps.size());
        for (size_t i = 0; i < deps.size(); ++i) vals[i].assign(ex2.getRewardMatrix().bases[i].values.size(), ranges[i]);
        F::Rewards rew(deps.size());
        int steps = (int)rng.range(1, 12);
        double base = std::fabs(fcentre) < 4 ? 0.0 : fcentre;
        for (int t = 0; t < steps; ++t) {
            F::Action a = rng.coin(2, 3) ? p.sampleAction() : F::Action(A.size(), 0);
            if (rng.coin(1, 4)) for (size_t i = 0; i < A.size(); ++i) a[i] = rng.below(A[i]);
            for (size_t i = 0; i < deps.size(); ++i) rew[i] = base + (double)rng.range(-8, 8) / 4.0;
            const auto & ind = ex2.record(a, rew);
            p.stepUpdateQ(ind);
            for (size_t i = 0; i < ind.size(); ++i) {
                const auto id = ind[i]; const double n = ex2.getVisitsTable()[i][id], qv = ex2.getRewardMatrix().bases[i].values[id];
                if (n >= mm) vals[i][id] = qv; else if (optimistic) vals[i][id] = (n * qv + (mm - n) * ranges[i]) / mm;
            }
        }
        std::vector<LocalRule> rules;
        for (size_t i = 0; i < deps.size(); ++i) for (size_t y = 0; y < vals[i].size(); ++y)
            rules.push_back({deps[i], F::toFactorsPartial(deps[i], A, y), vals[i][y]});
        auto act = p.sampleAction();
        fjoint_line("Factored::Bandit::MARMaxPolicy", A, rules, act);
        fprob_line("Factored::Bandit::MARMaxPolicy", A, p, 0.0, act, 1);
        std::printf("#stat marmax_%s 1\n", optimistic ? "optimistic" : "plain");
    }
    {   // Factored::MDP wrappers over Q-function rules that depend on the state
        reseed();
        F::State S(2); S[0] = 2; S[1] = (size_t)rng.range(2, 3);
        std::vector<FM::QFunctionRule> qr;
        for (size_t i = 0; i + 1 < m; ++i) for (size_t sv = 0; sv < S[i % 2]; ++sv)
            for (size_t x = 0; x < A[i]; ++x) for (size_t y = 0; y < A[i + 1]; ++y)
                if (rng.coin(3, 4)) qr.push_back(FM::QFunctionRule{F::PartialState{{i % 2}, {sv}}, F::PartialAction{{i, i + 1}, {x, y}}, (std::fabs(fcentre) < 4 ? 0.0 : fcentre) + (double)rng.range(-16, 16) / 4.0});
        F::FilterMap<FM::QFunctionRule> fm(S);
        for (auto & r : qr) fm.emplace(r.state, r);
        FM::QGreedyPolicy<> g(S, A, fm);
        FM::EpsilonPolicy e0(g, 0.0), e1(g, 1.0);
        FM::BanditPolicyAdaptor<FB::RandomPolicy> ad(S, A);
        F::PartialFactorsEnumerator se(S);
        while (se.isValid()) {
            F::State s = (*se).second;
            std::vector<LocalRule> rules;
            for (auto & r : qr) if (F::match(s, r.state)) rules.push_back({r.action.first, r.action.second, r.value});
            fjoint_line("Factored::MDP::QGreedyPolicy", A, rules, g.sampleAction(s));
            fjoint_line("Factored::MDP::EpsilonPolicy", A, rules, e0.sampleAction(s));
            for (int i = 0; i < 2; ++i) {
                auto act = e1.sampleAction(s);
                Line l; l << "C09" << "joint" << "Factored::MDP::EpsilonPolicy" << m; for (auto a : A) l << a; for (auto a : act) l << a; l << false << 0.0 << 0.0; l.emit();
                auto act2 = ad.sampleAction(s);
                Line l2; l2 << "C09" << "joint" << "Factored::MDP::BanditPolicyAdaptor" << m; for (auto a : A) l2 << a; for (auto a : act2) l2 << a; l2 << false << 0.0 << 0.0; l2.emit();
            }
            se.advance();
        }
    }
}

// ---------------------------------------------------------------------------------------------------
static const double kT[] = {0.0, 1e-7, 0.25, 0.5, 1.0, 2.0, 3.0, 0.1};
static const double kEps[] = {0.0, 1.0, 0.5, 0.125, 0.1, 0.3};
static const double kAB[] = {0.0, 1.0, 0.5, 0.25, 0.125, 0.1, 0.3};
static const double kDelta[] = {0.0, 1.0 / 64, 1.0 / 16, 0.25, 1.0, 0.0125, 0.05};
static const double kScale[] = {1.0, 4.0, 5000.0, 0.5};
static const double kLr[] = {0.0, 1.0 / 1024, 0.125, 0.5, 0.001, 2.0};
static const double kPl[] = {0.0, 1.0, 3.0, 0.5};

static const long kWitness = 9;

long verif::verif_ncases(const std::string & tier) { return kWitness + (tier == "thorough" ? 6000 : 420); }

static void witness(long idx) {
    switch (idx) {
    case 0: // softmax: exp-sum below 1e-6 -> getPolicy uniform, per-action queries the real softmax
        emit_softmax_bandit({-20.0, -21.0}, 1.0, 2); break;
    case 1: { // softmax: full underflow, one action: getActionProbability = 0/0
        emit_softmax_bandit({-800.0}, 1.0, 0); break; }
    case 2: { // PGA-APP: a row that already sums to one is replaced by the all-ones mask
        Rng r(1); emit_pgaapp(r, 2, 1, 0.001, 3.0, 1, 0, true); break; }
    case 3: { // Thompson: all draws negative -> arm 0 whatever the draws
        B::Experience e(3);
        for (size_t a = 0; a < 3; ++a) { e.record(a, -10.0 + a); e.record(a, -10.25 + a); e.record(a, -9.75 + a); }
        emit_thompson_kernel(e, 4);
        B::Experience e2(3);
        for (size_t a = 0; a < 3; ++a) { e2.record(a, 10.0 + a); e2.record(a, 9.75 + a); e2.record(a, 10.25 + a); }
        emit_thompson_shift("ThompsonSamplingPolicy", 3, 20.0, 8,
            [&]() { return std::make_unique<B::ThompsonSamplingPolicy>(e); }, [&]() { return std::make_unique<B::ThompsonSamplingPolicy>(e2); });
        break; }
    case 4: { // greedy, three-way tie with negative values and a shift
        emit_greedy_bandit({-3.0, -1.5, -1.5, -7.0, -1.5}, 4); emit_shift_greedy({-3.0, -1.5, -1.5, -7.0, -1.5}, 1024.0, 6); break; }
    case 5: { // LRP with one action and b > 0 (outside the documented use; recorded as excluded)
        Rng r(2); emit_lrp(r, 1, 0.5, 0.5, 2, 1); break; }
    case 6: { // greedy: chain of three near-ties (a~b, b~c, a!~c): getPolicy sums to 2, the queries to 5/6, sampleAction plays only the last
        const double g = std::ldexp(1.0, -20), B = std::ldexp(1.0, 27), G = std::ldexp(1.0, -10);
        emit_greedy_bandit({0.0, g, 2 * g}, 4);
        emit_greedy_bandit({B, B + G, B + 2 * G}, 4);
        emit_greedy_bandit({-B - 2 * G, -B - G, -B}, 4);
        M::QFunction Q(2, 3); Q << B, B + G, B + 2 * G,   2 * g, g, 0.0;
        emit_greedy_mdp(Q, 2);
        emit_softmax_bandit({0.0, g, 2 * g}, 0.0, 2);
        emit_softmax_mdp(Q, 0.0, 2);
        break; }
    case 7: { // ties that hold only through the RELATIVE tolerance (|q| = 1.3e8, gap 1.5e-5): all three members must use the same test
        const double B = std::ldexp(1.0, 27), d = std::ldexp(1.0, -16);
        emit_greedy_bandit({B, B + d, 5.0}, 4);
        emit_greedy_bandit({-B, 5.0 - B, d - B, -B - d}, 4);
        emit_greedy_bandit({B + d, -B - d, B, -B}, 4);
        M::QFunction Q(2, 3); Q << B + d, 5.0, B,   -B, -B - d, -B - 5.0;
        emit_greedy_mdp(Q, 3);
        emit_eps_mdp(Q, 0.25, 2);
        emit_softmax_bandit({B, 5.0, B + d}, 0.0, 3);
        emit_shift_greedy({B, B + d, 5.0}, std::ldexp(1.0, 26), 4);
        break; }
    case 8: { // one arm: every sampling policy must still return (TopTwoThompson looked for a challenger different from the only arm, forever)
        auto probe = [](const char * comp, auto && call) {
            int fd[2]; if (pipe(fd) != 0) return;
            pid_t pid = fork();
            if (pid == 0) { close(fd[0]); alarm(20); size_t a = call(); char buf[32]; int n = std::snprintf(buf, sizeof buf, "%zu", a); if (write(fd[1], buf, (size_t)n) < 0) _exit(3); _exit(0); }
            close(fd[1]); char buf[32] = {0}; ssize_t n = read(fd[0], buf, sizeof buf - 1); close(fd[0]);
            int st = 0; waitpid(pid, &st, 0);
            Line l; l << "C09" << "term" << comp << "single_arm_sampleAction" << "|" << ((n > 0 && WIFEXITED(st) && WEXITSTATUS(st) == 0) ? std::string(buf) : std::string("no_return")); l.emit();
        };
        B::Experience e(1); e.record(0, 1.0); e.record(0, 0.5); e.record(0, 0.25);
        for (double beta : {0.0, 0.5}) {
            probe("TopTwoThompsonSamplingPolicy", [&]() { B::TopTwoThompsonSamplingPolicy p(e, beta); return p.sampleAction(); });
            probe("T3CPolicy", [&]() { B::T3CPolicy p(e, beta, 1.0); return p.sampleAction(); });
        }
        probe("ThompsonSamplingPolicy", [&]() { B::ThompsonSamplingPolicy p(e); return p.sampleAction(); });
        break; }
    }
}

void verif::verif_case(Rng & rng, long idx, const std::string & tier) {
    if (idx < kWitness) { witness(idx); return; }
    bool th = tier == "thorough";
    int cls = (int)((idx - kWitness) % 14);
    size_t n = (size_t)rng.range(1, th ? 7 : 5);
    size_t S = (size_t)rng.range(1, 3);
    int ns = 3;
    switch (cls) {
    case 0: { int E; std::string kind; auto q = genQAny(rng, n, E, kind);
              if (n >= 3 && rng.coin(1, 10)) { q = genQChain(rng, n, E); kind = "chain"; }
              statQ("greedy", kind);
              emit_greedy_bandit(q, ns);
              double c = std::ldexp(rng.coin() ? 1.0 : -1.0, E ? E - (int)rng.range(1, 3) : (int)rng.range(-2, 16));
              if (kind != "chain") emit_shift_greedy(q, c, 4);
              std::printf("#stat greedy_n%zu 1\n", n); break; }
    case 1: { g_who = "greedy_mdp"; M::QFunction Q(S, n); for (size_t s = 0; s < S; ++s) fillRow(rng, Q, s);
              if (n >= 3 && rng.coin(1, 10)) { int E; auto q = genQChain(rng, n, E); for (size_t a = 0; a < n; ++a) Q(0, a) = q[a]; statQ(g_who, "chain"); }
              emit_greedy_mdp(Q, ns); break; }
    case 2: { int E; std::string kind; auto q = genQAny(rng, n, E, kind); statQ("softmax", kind);
              double t = kT[rng.below(8)]; if (rng.coin(1, 8)) t = std::ldexp(1.0, -(int)rng.range(4, 9));
              if (rng.coin(1, 10)) t = std::ldexp(1.0, -19);      // 1.9e-6: just above the delegation threshold
              emit_softmax_bandit(q, t, ns);
              if (t > 1e-6) { double c = std::ldexp(rng.coin() ? 1.0 : -1.0, E ? E - (int)rng.range(1, 3) : (int)rng.range(-2, 4)); emit_shift_softmax(q, t, c, 0); }
              break; }
    case 3: { g_who = "softmax_mdp"; M::QFunction Q(S, n); for (size_t s = 0; s < S; ++s) fillRow(rng, Q, s); emit_softmax_mdp(Q, kT[rng.below(8)], ns); break; }
    case 4: { int E; std::string kind; auto q = genQAny(rng, n, E, kind); statQ("eps", kind); auto qv = toVec(q); double e = kEps[rng.below(6)];
              int w = (int)rng.below(3);
              if (w == 0) { B::QGreedyPolicy g(qv); emit_eps_bandit("Bandit::EpsilonPolicy", g, e, ns); }
              else if (w == 1) { B::QSoftmaxPolicy g(qv, rng.coin() ? 1.0 : 0.0); emit_eps_bandit("Bandit::EpsilonPolicy", g, e, ns); }
              else { B::RandomPolicy g(n); emit_eps_bandit("Bandit::EpsilonPolicy", g, e, ns); }
              break; }
    case 5: { g_who = "eps_mdp"; M::QFunction Q(S, n); for (size_t s = 0; s < S; ++s) fillRow(rng, Q, s); emit_eps_mdp(Q, kEps[rng.below(6)], ns); break; }
    case 6: emit_table(rng, S, n, ns); emit_table_invalid(rng, S, n);
            { int E; std::string kind; auto q = genQAny(rng, n, E, kind); statQ("adaptor", kind); emit_adaptor(q, S, 2); }
            break;
    case 7: emit_random(n, S, ns); break;
    case 8: { double a = kAB[rng.below(7)], b = kAB[rng.below(7)]; if (rng.coin(1, 12)) a = 1.5; if (rng.coin(1, 12)) b = -0.25;
              size_t nn = n < 2 ? 2 : n; emit_lrp(rng, nn, a, b, (int)rng.range(0, th ? 200 : 40), ns); emit_lrpv(rng, nn, (int)rng.range(1, th ? 120 : 30), ns); break; }
    case 9: { g_who = "wolf"; double dW = kDelta[rng.below(7)], dL = kDelta[rng.below(7)], sc = kScale[rng.below(4)];
              emit_wolf(rng, n, S, dW, dL, sc, (int)rng.range(0, th ? 200 : 40), ns); break; }
    case 10: { g_who = "pgaapp"; emit_pgaapp(rng, n, S, kLr[rng.below(6)], kPl[rng.below(4)], (int)rng.range(0, th ? 200 : 30), ns, rng.coin(1, 6)); break; }
    case 11: { size_t nn = n < 2 ? 2 : n;
               double centre = rng.coin() ? 12.0 : -12.0, spread = 0.5, muStep = 1.0; bool unv = rng.coin(1, 4);
               // round 3: reward magnitudes 1e5 … 1e12 of either sign; reg 3 additionally scales the differences between arms down to
               // 2^-42 relative (means that differ only far below the library's relative tolerance — Thompson must still order them exactly)
               int reg = (int)rng.below(4), E = 0;
               if (reg >= 2) { E = (int)rng.range(17, reg == 2 ? 30 : 40); centre = std::ldexp((rng.coin() ? 1.0 : -1.0) * (1.0 + (double)rng.below(512) / 512.0), E);
                               if (reg == 3) { spread = std::ldexp(1.0, E - 40); muStep = 2 * spread; } }
               std::printf("#stat q_thompson_%s 1\n", reg < 2 ? "legacy" : reg == 2 ? "big" : "big_tinyspread");
               Rng r1 = rng, r2 = rng;
               auto e = makeExp(r1, nn, centre, spread, unv, 0.0, muStep);
               emit_thompson_kernel(e, 3);
               if (reg != 3) {
                   // shift: a small constant, or (big regime) -2*centre, which mirrors an all-positive history into an all-negative one
                   double c = reg == 2 && rng.coin() ? -2 * centre : (double)rng.range(-24, 24);
                   auto e2 = makeExp(r2, nn, centre, spread, unv, c, muStep);
                   emit_thompson_shift("ThompsonSamplingPolicy", nn, c, 6,
                       [&]() { return std::make_unique<B::ThompsonSamplingPolicy>(e); }, [&]() { return std::make_unique<B::ThompsonSamplingPolicy>(e2); });
               }
               if (reg != 3) {   // TopTwo: same two histories (its selection only sees the inner Thompson answers and its own coin)
                   Rng r5 = r1, r6 = r1;
                   double c = reg == 2 ? -2 * centre : (double)rng.range(-24, 24);
                   auto ea = makeExp(r5, nn, centre, spread, false, 0.0, muStep), eb = makeExp(r6, nn, centre, spread, false, c, muStep);
                   emit_thompson_shift("TopTwoThompsonSamplingPolicy", nn, c, 6,
                       [&]() { return std::make_unique<B::TopTwoThompsonSamplingPolicy>(ea, 0.5); }, [&]() { return std::make_unique<B::TopTwoThompsonSamplingPolicy>(eb, 0.5); });
                   // T3C: two records per arm, dyadic rewards — the running means are exact on both sides, so equal transportation costs
                   // stay equal after the shift (the tie coins are then consumed identically)
                   B::Experience ta(nn), tb(nn);
                   for (size_t a = 0; a < nn; ++a) for (int k = 0; k < 2; ++k) { double r = centre + spread * (double)rng.range(-8, 8); ta.record(a, r); tb.record(a, r + c); }
                   emit_thompson_shift("T3CPolicy", nn, c, 6,
                       [&]() { return std::make_unique<B::T3CPolicy>(ta, 0.5, 1.0); }, [&]() { return std::make_unique<B::T3CPolicy>(tb, 0.5, 1.0); });
               }
               {   // TopTwo / T3C kernels (same ratio of arm differences to spread as before: keeps TopTwo's rejection loop short), ties included
                   Rng r4 = rng; auto ek = makeExp(r4, nn, reg >= 2 ? centre : 12.0, spread, rng.coin(1, 5), 0.0, muStep);
                   if (rng.coin(1, 3)) { B::Experience et(nn); for (size_t a = 0; a < nn; ++a) { et.record(a, a == 0 ? 2.0 : 1.0); et.record(a, a == 0 ? 2.5 : 1.5); } ek = et; }   // equal challengers: tie coins
                   emit_toptwo(ek, kEps[rng.below(6)], 3);
                   emit_t3c(ek, kEps[rng.below(6)], rng.coin() ? 1.0 : 0.5, 3);
               }
               if ((idx / 14) % 4 == 0) {
                   // Monte-Carlo tables (positive rewards only for TopTwo: its rejection loop needs a second arm to ever win)
                   Rng r3 = rng; auto ep = makeExp(r3, nn, reg == 2 ? centre : (rng.coin() ? 12.0 : -12.0), 2.0, false, 0.0);
                   reseed();
                   B::ThompsonSamplingPolicy tp(ep); emit_mc("ThompsonSamplingPolicy", tp, 4); emit_mc2("ThompsonSamplingPolicy", tp);
                   B::TopTwoThompsonSamplingPolicy tt(ep, 0.5); emit_mc("TopTwoThompsonSamplingPolicy", tt, 4); emit_mc2("TopTwoThompsonSamplingPolicy", tt);
                   B::T3CPolicy t3(ep, 0.5, 1.0); emit_mc("T3CPolicy", t3, 4); emit_mc2("T3CPolicy", t3);
               }
               break; }
    case 12: { double a = kAB[rng.below(7)]; size_t nn = n < 2 ? 2 : n;
               emit_esrl(rng, nn, a, (unsigned)rng.range(1, 6), (unsigned)rng.range(0, 4), (unsigned)rng.range(1, 5), (int)rng.range(0, th ? 120 : 40));
               {   double base = 0.0, step = 0.25; int reg = (int)rng.below(4);
                   if (reg >= 2) { int E = (int)rng.range(17, 40); base = std::ldexp((rng.coin() ? 1.0 : -1.0) * (1.0 + (double)rng.below(512) / 512.0), E); step = reg == 2 ? 0.25 : std::ldexp(1.0, E - 43); }
                   std::printf("#stat q_sr_%s 1\n", reg < 2 ? "legacy" : reg == 2 ? "big" : "big_tinystep");
                   emit_sr(rng, nn, (unsigned)rng.range((long)nn * 2, (long)nn * 12), (int)rng.range(0, th ? 150 : 60), base, step); }
               break; }
    case 13: if ((idx / 14) % 2 == 0) emit_factored(rng); else emit_factored_learners(rng); break;
    }
}

int main(int argc, char ** argv) {
    int rc = verif::verif_main(argc, argv);
    std::fflush(stdout);
    _exit(rc);      // a policy thread stuck in a library loop must not keep the process alive
}
